(* Proofs/InterpSigSpecColumn.v — C15, part 6: the verdict function `expected` of Spec/SpendSpec.v (the specification
   column of the correspondence check, computed there from the script BYTES by the independent tokenizer) is met by the
   model: whenever it says Accept the modelled from_transaction + run ends with the single element 01, whenever it says
   Reject the run ends in an error or with a false element.  So a specification violation reported by the check on a
   family spend can only come from the library differing from the model. *)
From BSV Require Import Base.Bytes Base.Hex.
From BSV Require Import Prim.Num Prim.Secp256k1 Prim.Der Prim.Sha256 Prim.Ripemd160.
From BSV Require Import Model.Opcodes Model.Script Model.VarInt Model.Tx Model.HashApi Model.Sighash Model.Ecdsa Model.Sig
  Model.Interp Model.InterpSig.
From BSV Require Import Spec.ScriptTok Spec.SighashWire Spec.Bip143 Spec.LegacySighash Spec.SpendSpec.
From BSV Require Import Proofs.ScriptProofs Proofs.InterpTotal
  Proofs.InterpSigProofs Proofs.InterpSigOps Proofs.InterpSigRun Proofs.InterpSigFamilies.
Local Open Scope list_scope.
Local Open Scope nat_scope.

Definition spec_expected := expected Hd H160 sec1_decode prim_verify.

(* ------------------------------------------------------------------ *)
(* tokens <-> bits on straight scripts *)
Lemma tok_eqb_eq a b : tok_eqb a b = true -> a = b.
Proof.
  destruct a as [x|c d], b as [y|c' d']; cbn [tok_eqb]; try discriminate.
  - intros H. apply N.eqb_eq in H. subst. reflexivity.
  - intros H. apply andb_true_iff in H. destruct H as [H1 H2]. apply N.eqb_eq in H1. apply bytes_eqb_eq in H2. subst. reflexivity.
Qed.
Lemma toks_eqb_eq : forall a b, toks_eqb a b = true -> a = b.
Proof.
  induction a as [|x r IH]; intros [|y r'] H; cbn [toks_eqb] in H; try discriminate; [reflexivity|].
  apply andb_true_iff in H. destruct H as [H1 H2]. rewrite (tok_eqb_eq _ _ H1), (IH _ H2). reflexivity.
Qed.

Lemma erase_map_tok l : straight l = true -> erase_separators (map tok_of_bit l) = map tok_of_bit (remove_seps l).
Proof.
  induction l as [|b r IH]; [reflexivity|]. cbn [straight forallb]. intros H. apply andb_true_iff in H. destruct H as [Hb Hr].
  cbn [map]. unfold erase_separators, remove_seps in *. cbn [filter]. rewrite (tok_is_sep b Hb).
  destruct (is_sep b); cbn [negb map]; rewrite (IH Hr); reflexivity.
Qed.

Lemma remove_seps_straight l : straight l = true -> straight (remove_seps l) = true.
Proof.
  induction l as [|b r IH]; [reflexivity|]. cbn [straight forallb remove_seps filter]. intros H.
  apply andb_true_iff in H. destruct H as [Hb Hr]. destruct (is_sep b); cbn [negb]; [exact (IH Hr)|].
  cbn [forallb]. rewrite Hb. exact (IH Hr).
Qed.

Definition op_or_push (b : bit) : bool := match b with BOp _ | BPush _ => true | _ => false end.

Lemma map_tok_inj : forall a b,
  straight a = true -> forallb op_or_push b = true -> map tok_of_bit a = map tok_of_bit b -> a = b.
Proof.
  induction a as [|x r IH]; intros [|y r'] Ha Hb E; cbn [map] in E; try discriminate; [reflexivity|].
  cbn [straight forallb] in Ha, Hb. apply andb_true_iff in Ha. destruct Ha as [Hx Hr].
  apply andb_true_iff in Hb. destruct Hb as [Hy Hr']. inversion E as [[E1 E2]].
  rewrite (IH r' Hr Hr' E2). f_equal.
  destruct x as [c|d| | |], y as [c'|d'| | |]; cbn [straight_bit op_or_push tok_of_bit] in *; try discriminate.
  - inversion E1. reflexivity.
  - inversion E1. reflexivity.
Qed.

(* the bits of a family member *)
Definition btail (chk : N) (vf : bool) : list bit := if vf then [BOp (chk + 1); BOp 81] else [BOp chk].
Definition bshape (fam : family) (vf : bool) : list bit :=
  match fam with
  | FP2PK pk => BPush pk :: btail 172 vf
  | FP2PKH h => [BOp 118; BOp 169; BPush h; BOp 136] ++ btail 172 vf
  | FMS m keys => BOp (80 + N.of_nat m) :: map BPush keys ++ [BOp (80 + N.of_nat (length keys))] ++ btail 174 vf
  end.
Lemma bshape_toks fam vf : map tok_of_bit (bshape fam vf) = shape fam vf.
Proof.
  destruct fam as [pk|h|m keys]; destruct vf; cbn [bshape shape btail tail_toks map app tok_of_bit]; try reflexivity;
    rewrite map_app, map_map; reflexivity.
Qed.
Lemma bshape_op_or_push fam vf : forallb op_or_push (bshape fam vf) = true.
Proof.
  destruct fam as [pk|h|m keys]; destruct vf; cbn [bshape btail forallb app op_or_push andb]; try reflexivity;
    rewrite forallb_app; cbn [forallb op_or_push andb]; rewrite andb_true_r;
    (induction keys as [|k r IH]; [reflexivity|cbn [map forallb op_or_push andb]; exact IH]).
Qed.

Lemma recognise_shape l fam vf :
  straight l = true -> recognise (flatten l) = Some (fam, vf) ->
  remove_seps l = bshape fam vf /\ family_ok fam = true.
Proof.
  intros Hl. rewrite (straight_flatten l Hl). unfold recognise. rewrite (erase_map_tok l Hl).
  destruct (guess (map tok_of_bit (remove_seps l))) as [fam'|]; [|discriminate].
  destruct (family_ok fam') eqn:Eok; cbn [negb]; [|discriminate].
  assert (Hinj : forall vf', toks_eqb (map tok_of_bit (remove_seps l)) (shape fam' vf') = true -> remove_seps l = bshape fam' vf').
  { intros vf' E. apply toks_eqb_eq in E. rewrite <- bshape_toks in E.
    apply map_tok_inj; [apply remove_seps_straight; exact Hl|apply bshape_op_or_push|exact E]. }
  destruct (toks_eqb (map tok_of_bit (remove_seps l)) (shape fam' false)) eqn:E1.
  - intros E. inversion E; subst. split; [apply Hinj; exact E1|exact Eok].
  - destruct (toks_eqb (map tok_of_bit (remove_seps l)) (shape fam' true)) eqn:E2; [|discriminate].
    intros E. inversion E; subst. split; [apply Hinj; exact E2|exact Eok].
Qed.

(* push-only unlocking scripts *)
Lemma pushed_items_inv : forall u items,
  straight u = true -> pushed_items (map tok_of_bit u) = Some items ->
  forallb (fun b => is_simple b && negb (is_sep b)) u = true /\ forall s, stack_exec u s = Ok (s ++ items).
Proof.
  induction u as [|b r IH]; intros items Hu E.
  - inversion E. split; [reflexivity|]. intros s. rewrite app_nil_r. reflexivity.
  - cbn [straight forallb] in Hu. apply andb_true_iff in Hu. destruct Hu as [Hb Hr].
    destruct b as [c|d| | |]; cbn [straight_bit] in Hb; try discriminate; cbn [map tok_of_bit pushed_items] in E.
    + destruct c as [|p]; [|destruct p; discriminate].
      destruct (pushed_items (map tok_of_bit r)) as [it|] eqn:Er; [|discriminate]. inversion E; subst.
      destruct (IH it Hr eq_refl) as [H1 H2]. split.
      * cbn [forallb]. rewrite H1. reflexivity.
      * intros s. cbn [stack_exec]. change (simple_fn (BOp 0)) with (Some (push_number 0)). cbv beta iota.
        assert (E0 : push_number 0 s = Ok (s ++ [[]])) by reflexivity. rewrite E0. cbn [bind]. rewrite H2, <- app_assoc. reflexivity.
    + destruct (pushed_items (map tok_of_bit r)) as [it|] eqn:Er; [|discriminate]. inversion E; subst.
      destruct (IH it Hr eq_refl) as [H1 H2]. split.
      * cbn [forallb]. rewrite H1. reflexivity.
      * intros s. cbn [stack_exec simple_fn bind]. rewrite H2, <- app_assoc. reflexivity.
Qed.

(* `outside` of the specification covers the flag bytes the theorems exclude *)
Lemma outside_false wt n sg : outside wt n sg = false -> outside_flag sg = false.
Proof.
  unfold outside, outside_flag. destruct (split_sig sg) as [[der f]|]; [|reflexivity].
  intros H. apply orb_false_iff in H. destruct H as [H _]. exact H.
Qed.

Lemma bytes_eqb_sym a b : bytes_eqb a b = bytes_eqb b a.
Proof.
  destruct (bytes_eqb a b) eqn:E1, (bytes_eqb b a) eqn:E2; try reflexivity.
  - apply bytes_eqb_eq in E1. subst. rewrite bytes_eqb_refl in E2. discriminate.
  - apply bytes_eqb_eq in E2. subst. rewrite bytes_eqb_refl in E1. discriminate.
Qed.

Lemma op_small_eq k : BOp (80 + N.of_nat k) = op_small k.
Proof. unfold op_small. f_equal. lia. Qed.

Lemma ms_search_map {A A' B} (f : A -> A') (vb : A' -> B -> bool) : forall sigs keys,
  ms_search vb (map f sigs) keys = ms_search (fun s k => vb (f s) k) sigs keys.
Proof.
  induction sigs as [|s r IH]; intros keys; [reflexivity|]. cbn [map ms_search].
  induction keys as [|k ks IHk]; [reflexivity|]. rewrite IH, IHk. reflexivity.
Qed.

(* ------------------------------------------------------------------ *)
Theorem spend_meets_expected t idx i l v :
  nth_error (inputs t) idx = Some i -> locking i = Some l -> satoshis i = Some v ->
  straight l = true -> straight (unlocking i) = true ->
  match fst (spec_expected (view_tx t) idx v (flatten l) (flatten (unlocking i))) with
  | Accept => accepts (spend_ref t idx)
  | Reject => rejects (spend_ref t idx)
  | AcceptOrReject => accepts (spend_ref t idx) \/ rejects (spend_ref t idx)
  | Unspecified => True
  end.
Proof.
  intros Hin Hlock Hsat Hl Hu. unfold spec_expected, expected.
  destruct (recognise (flatten l)) as [[fam vf]|] eqn:Erec; [|exact I].
  rewrite (straight_flatten (unlocking i) Hu).
  destruct (pushed_items (map tok_of_bit (unlocking i))) as [items|] eqn:Eit; [|exact I].
  destruct (recognise_shape l fam vf Hl Erec) as [Hshape Hok].
  destruct (pushed_items_inv (unlocking i) items Hu Eit) as [HuP Hustack].
  cbn [fst]. fold (spec_sig_valid (view_tx t) idx (script_code (flatten l)) v).
  destruct fam as [pk|h|m keys].
  - (* P2PK *)
    destruct items as [|sg [|? ?]]; try exact I.
    destruct (outside (view_tx t) idx sg) eqn:Eo; [exact I|]. apply outside_false in Eo.
    pose proof (checksig_family t idx i v l sg pk [BPush pk] vf Hin Hlock Hsat Hu Hl HuP) as H.
    cbn [bshape btail] in Hshape.
    assert (Hcore : remove_seps l = [BPush pk] ++ (if vf then [BOp 173; BOp 81] else [BOp 172])) by (rewrite Hshape; destruct vf; reflexivity).
    specialize (H Hcore eq_refl Eo). rewrite stack_exec_app, Hustack in H. cbn [bind app stack_exec simple_fn] in H.
    destruct (H eq_refl) as [Ha Hr].
    destruct (spec_sig_valid (view_tx t) idx (script_code (flatten l)) v sg pk) eqn:Ev; cbn [of_bool].
    + apply Ha. reflexivity.
    + apply Hr. discriminate.
  - (* P2PKH *)
    destruct items as [|sg [|pk [|? ?]]]; try exact I.
    destruct (outside (view_tx t) idx sg) eqn:Eo; [exact I|]. apply outside_false in Eo.
    pose proof (checksig_family t idx i v l sg pk [BOp 118; BOp 169; BPush h; BOp 136] vf Hin Hlock Hsat Hu Hl HuP) as H.
    cbn [bshape btail] in Hshape.
    assert (Hcore : remove_seps l = [BOp 118; BOp 169; BPush h; BOp 136] ++ (if vf then [BOp 173; BOp 81] else [BOp 172]))
      by (rewrite Hshape; destruct vf; reflexivity).
    specialize (H Hcore eq_refl Eo). rewrite stack_exec_app, Hustack in H. cbn [bind app stack_exec] in H.
    rewrite sf_dup, sf_hash160, sf_push, sf_equalverify in H.
    cbn [bind app dup_fn split_last] in H. unfold hash160_fn, equalverify_fn in H.
    change [sg; pk; pk] with ([sg; pk] ++ [pk]) in H. rewrite pop_bytes_snoc in H. cbn [bind app] in H.
    change [sg; pk; hash_160 pk; h] with ([sg; pk; hash_160 pk] ++ [h]) in H. rewrite pop_bytes_snoc in H. cbn [bind] in H.
    change [sg; pk; hash_160 pk] with ([sg; pk] ++ [hash_160 pk]) in H. rewrite pop_bytes_snoc in H. cbn [bind] in H.
    rewrite Proofs.HashApiProofs.hash_160_def in H. fold (H160 pk) in H.
    rewrite (bytes_eqb_sym h (H160 pk)) in H.
    destruct (bytes_eqb (H160 pk) h) eqn:Eh; cbn [verify bind] in H; [|exact H].
    destruct (H eq_refl) as [Ha Hr].
    destruct (spec_sig_valid (view_tx t) idx (script_code (flatten l)) v sg pk) eqn:Ev; cbn [of_bool].
    + apply Ha. reflexivity.
    + apply Hr. discriminate.
  - (* m-of-n *)
    destruct items as [|dummy sigs]; [exact I|].
    destruct (Nat.eqb (length sigs) m) eqn:Em; cbn [negb]; [|exact I]. apply Nat.eqb_eq in Em. subst m.
    destruct (existsb (outside (view_tx t) idx) sigs) eqn:Eo; [exact I|].
    assert (Hout : Forall (fun sg => outside_flag sg = false) sigs).
    { apply Forall_forall. intros sg Hsg. apply (outside_false (view_tx t) idx).
      destruct (outside (view_tx t) idx sg) eqn:E; [|reflexivity].
      assert (existsb (outside (view_tx t) idx) sigs = true) by (apply existsb_exists; eauto). congruence. }
    cbn [family_ok] in Hok. apply andb_true_iff in Hok. destruct Hok as [Hok H16]. apply andb_true_iff in Hok.
    destruct Hok as [H1 Hmn]. apply Nat.leb_le in H1, Hmn, H16.
    cbn [bshape btail] in Hshape.
    assert (Hcore : remove_seps l = (op_small (length sigs) :: map BPush keys ++ [op_small (length keys)])
                                     ++ (if vf then [BOp 175; BOp 81] else [BOp 174])).
    { rewrite Hshape, !op_small_eq. destruct vf; cbn [app]; rewrite <- ?app_assoc; reflexivity. }
    destruct (multisig_family t idx i v l dummy sigs keys vf Hin Hlock Hsat HuP Hustack Hu Hl (conj (conj H1 Hmn) H16) Hcore Hout)
      as (Htot & Hsound & Hcompl).
    rewrite ms_search_map.
    pose proof (ms_search_spec (fun sg pk => spec_sig_valid (view_tx t) idx (script_code (flatten l)) v sg pk = true)
                  (fun sg pk => data_valid sec1_decode prim_verify (sig_data Hd (view_tx t) idx (script_code (flatten l)) v sg) pk)
                  (fun a b => conj (fun x => x) (fun x => x)) sigs keys) as Hsearch.
    destruct (ms_search _ sigs keys) eqn:Es.
    + assert (Hok : ms_ok (fun sg pk => spec_sig_valid (view_tx t) idx (script_code (flatten l)) v sg pk = true) sigs keys)
        by (apply Hsearch; reflexivity).
      destruct (forallb (fun k => match sec1_decode k with Some _ => true | None => false end) keys) eqn:Ed.
      * apply Hcompl; [|exact Hok]. apply Forall_forall. intros k Hk. rewrite forallb_forall in Ed. specialize (Ed k Hk).
        unfold decodes. destruct (sec1_decode k); [discriminate|discriminate Ed].
      * exact Htot.
    + destruct Htot as [Ha|Hr]; [|exact Hr]. exfalso. apply Hsound in Ha. apply Hsearch in Ha. congruence.
Qed.
