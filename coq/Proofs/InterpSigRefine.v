(* Proofs/InterpSigRefine.v — the instance EXECUTED by the C15 correspondence check (fast_prims: BigZ arithmetic inside)
   computes, call by call, what the instance the theorems are about (ref_prims: Z) computes: the interpreter reaches the
   curve only through sig_verify, the builder only through tx_sign_element / pubkey_bytes, the specification column only
   through its decode / verify arguments.  Consequence of Proofs/Secp256k1Refine.v and Proofs/EcdsaRefine.v; like them this
   file depends on the standard library's Uint63 primitive-integer axioms (through Bignums), which is why these
   statements are not among the pinned property theorems. *)
From BSV Require Import Base.Bytes Base.Hex.
From BSV Require Import Prim.Num Prim.Secp256k1 Prim.Der Model.Script Model.Tx Model.HashApi Model.Sighash Model.Ecdsa Model.Sig
  Model.Interp Model.InterpSig Spec.SpendSpec Proofs.Secp256k1Refine Proofs.EcdsaRefine.

Lemma sig_verify_refines c pre sg pk : sig_verify fast_prims c pre sg pk = sig_verify ref_prims c pre sg pk.
Proof.
  unfold sig_verify. destruct (sighashsig_from_bytes sg pre) as [ss| |]; cbn [bind]; try reflexivity.
  rewrite pubkey_from_bytes_refines. destruct (pubkey_from_bytes ref_prims pk) as [k| |]; cbn [bind]; try reflexivity.
  unfold tx_verify, verify_hashbuf_impl. cbn [p_decode p_verify fast_prims ref_prims].
  rewrite sec1_decode_BigZ_refines. destruct (sec1_decode (pk_point k)) as [Q|]; [|reflexivity].
  rewrite prim_verify_BigZ_refines. reflexivity.
Qed.

Lemma tx_sign_element_refines t sk f idx sub v :
  tx_sign_element fast_prims t sk f idx sub v = tx_sign_element ref_prims t sk f idx sub v.
Proof.
  unfold tx_sign_element. destruct (sighash_preimage sha_256d t idx f sub v) as [pre| |]; cbn [bind]; try reflexivity.
  rewrite sign_det_refines. reflexivity.
Qed.

Lemma pubkey_bytes_refines sk : pubkey_bytes fast_prims sk = pubkey_bytes ref_prims sk.
Proof. unfold pubkey_bytes. rewrite to_public_key_refines. reflexivity. Qed.

Lemma data_valid_refines zr pk : data_valid sec1_decode_fast prim_verify_fast zr pk = data_valid sec1_decode prim_verify zr pk.
Proof.
  unfold data_valid. destruct zr as [[z rs]|]; [|reflexivity]. rewrite sec1_decode_BigZ_refines.
  destruct (sec1_decode pk); [apply prim_verify_BigZ_refines|reflexivity].
Qed.
