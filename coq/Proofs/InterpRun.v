(* Proofs/InterpRun.v — C14, whole scripts.
   (1) the library's machine (index into a bit list that is spliced at every If) computes the
       structural semantics `sexec` of the nested script: simulation onto the continuation
       `skipn script_index script_bits`, fuel = number of nested bits;
   (2) the specification's token loop (condition stack) computes the same `sexec` on the
       flattened script;
   (3) composition with C02 (the tokens of the bytes are the flattened parsed script). *)
From BSV Require Import Base.Hex Model.Opcodes Model.Script Model.HashApi Model.Interp
  Spec.ScriptTok Spec.InterpBSV Proofs.ScriptProofs Proofs.InterpTotal Proofs.InterpNum Proofs.InterpRefine.
Open Scope Z_scope.

(* ------------------------------------------------------------------ *)
(* structural semantics of a nested script (specification opcodes, branch chosen by truthiness) *)
Fixpoint sexec_bit (b : bit) (sa : stk * stk) : option (stk * stk) :=
  let fix sexec_bits (l : list bit) (sa : stk * stk) : option (stk * stk) :=
    match l with
    | [] => Some sa
    | x :: r => match sexec_bit x sa with Some sa' => sexec_bits r sa' | None => None end
    end in
  match b with
  | BOp o => spec_op true o sa
  | BPush d => Some (d :: fst sa, snd sa)
  | BPushData _ d => Some (d :: fst sa, snd sa)
  | BIf c p q =>
      match fst sa with
      | [] => None
      | x :: r =>
          let v := if (c =? 100)%N then negb (truthy x) else truthy x in
          if v then sexec_bits p (r, snd sa)
          else match q with Some q' => sexec_bits q' (r, snd sa) | None => Some (r, snd sa) end
      end
  | BCoinbase _ => None
  end.
Fixpoint sexec_bits (l : list bit) (sa : stk * stk) : option (stk * stk) :=
  match l with
  | [] => Some sa
  | x :: r => match sexec_bit x sa with Some sa' => sexec_bits r sa' | None => None end
  end.

Lemma sexec_bit_if c p q sa :
  sexec_bit (BIf c p q) sa =
    match fst sa with
    | [] => None
    | x :: r =>
        if (if (c =? 100)%N then negb (truthy x) else truthy x) then sexec_bits p (r, snd sa)
        else match q with Some q' => sexec_bits q' (r, snd sa) | None => Some (r, snd sa) end
    end.
Proof. reflexivity. Qed.

Lemma sexec_bits_app l1 l2 sa :
  sexec_bits (l1 ++ l2) sa = match sexec_bits l1 sa with Some sa' => sexec_bits l2 sa' | None => None end.
Proof.
  revert sa; induction l1 as [|x l1 IH]; intros sa; cbn [app sexec_bits]; [reflexivity|].
  destruct (sexec_bit x sa); [apply IH | reflexivity].
Qed.

(* scripts over the agreed opcodes: no flat conditional opcode, OP_IF / OP_NOTIF conditionals only *)
Fixpoint agreed_bit (b : bit) : bool :=
  let fix agreed_bits (l : list bit) : bool :=
    match l with [] => true | x :: r => agreed_bit x && agreed_bits r end in
  match b with
  | BOp o => agreed_op o
  | BPush _ => true
  | BPushData _ _ => true
  | BIf c p q => ((c =? 99)%N || (c =? 100)%N) && agreed_bits p
                 && match q with Some q' => agreed_bits q' | None => true end
  | BCoinbase _ => false
  end.
Fixpoint agreed_bits (l : list bit) : bool :=
  match l with [] => true | x :: r => agreed_bit x && agreed_bits r end.

Lemma agreed_bit_if c p q :
  agreed_bit (BIf c p q) = ((c =? 99)%N || (c =? 100)%N) && agreed_bits p
                           && match q with Some q' => agreed_bits q' | None => true end.
Proof. reflexivity. Qed.
Lemma agreed_bits_app a b : agreed_bits (a ++ b) = agreed_bits a && agreed_bits b.
Proof. induction a as [|x a IH]; cbn [app agreed_bits]; [reflexivity | rewrite IH, andb_assoc; reflexivity]. Qed.

(* at top level the parser leaves an OP_ELSE / OP_ENDIF that closes nothing as an ordinary opcode; both sides
   refuse it when it is reached *)
Definition stray_bit (b : bit) : bool :=
  match b with BOp o => (o =? 103)%N || (o =? 104)%N | _ => false end.
Definition agreed_top (k : list bit) : bool := forallb (fun b => agreed_bit b || stray_bit b) k.

Lemma agreed_top_app a b : agreed_top (a ++ b) = agreed_top a && agreed_top b.
Proof. apply forallb_app. Qed.
Lemma agreed_bits_top k : agreed_bits k = true -> agreed_top k = true.
Proof.
  induction k as [|b k IH]; [reflexivity|]. cbn [agreed_bits agreed_top forallb]. intros H.
  apply andb_true_iff in H. destruct H as [H1 H2]. rewrite H1. cbn [orb andb]. apply IH; exact H2.
Qed.
Lemma stray_op_ok o : ((o =? 103)%N || (o =? 104)%N) = true -> op_ok o.
Proof.
  intros H idx st. assert (E : o = 103%N \/ o = 104%N) by lia.
  destruct E as [-> | ->]; unfold absS; destruct (rev (stack st)), (rev (alt_stack st)); reflexivity.
Qed.

(* ------------------------------------------------------------------ *)
(* (1) the library machine *)
Notation next0 := (next_impl notx nopre nover).
Notation run_fuel0 := (run_fuel notx nopre nover).
Notation run0 := (Interp.run notx nopre nover).

Lemma skipn_cons_nth {A} (l : list A) n x r : skipn n l = x :: r -> nth_error l n = Some x /\ skipn (S n) l = r.
Proof.
  revert n; induction l as [|y l IH]; intros [|n] H; cbn in *; try discriminate.
  - inv H. auto.
  - apply IH. exact H.
Qed.
Lemma skipn_nil_nth {A} (l : list A) n : skipn n l = [] -> nth_error l n = None.
Proof.
  revert n; induction l as [|y l IH]; intros [|n] H; cbn in *; try reflexivity; try discriminate.
  apply IH. exact H.
Qed.

Lemma absS_push_executed st o : absS (push_executed st o) = absS st.
Proof. reflexivity. Qed.

Lemma machine_sexec : forall fuel (i : interp notx) k sa,
  skipn (script_index i) (script_bits i) = k -> tx_script i = None -> agreed_top k = true ->
  absS (istate i) = sa -> (bits_size k < fuel)%nat ->
  match sexec_bits k sa with
  | Some sa' => exists i', run_fuel0 fuel i = RunOk i' /\ absS (istate i') = sa'
  | None => exists i', run_fuel0 fuel i = RunErr i'
  end.
Proof.
  induction fuel as [|f IH]; intros i k sa Hk Htx Hag Hab Hf; [lia|].
  destruct i as [bits idx st tx]. cbn [script_bits script_index istate tx_script] in *. subst tx.
  cbn [Interp.run_fuel]. unfold Interp.next_impl. cbn [script_bits script_index istate tx_script].
  destruct k as [|b r].
  - rewrite (skipn_nil_nth _ _ Hk). cbn [sexec_bits]. eexists; split; [reflexivity|]. exact Hab.
  - destruct (skipn_cons_nth _ _ _ _ Hk) as [Hn Hr]. rewrite Hn.
    pose proof (nth_error_lt _ _ _ Hn) as Hlt.
    cbn [agreed_top forallb] in Hag. apply andb_true_iff in Hag. destruct Hag as [Hb Hr'].
    fold (agreed_top r) in Hr'.
    cbn [bits_size] in Hf. cbn [sexec_bits].
    replace (idx + 1)%nat with (S idx) by lia.
    destruct b as [o|d|c d|c p q|d].
    + (* opcode *)
      cbn [agreed_bit stray_bit] in Hb. cbn [match_script_bit script_bits script_index istate tx_script].
      assert (Hok : op_ok o).
      { apply orb_true_iff in Hb. destruct Hb as [Hb|Hb]; [apply op_refines | apply stray_op_ok]; exact Hb. }
      pose proof (Hok idx st) as R. rewrite Hab in R.
      cbn [sexec_bit]. destruct (spec_op true o sa) as [sa1|]; cbn [refines] in R.
      * destruct R as (st' & -> & E1). cbn [script_bits script_index istate tx_script].
        replace (idx + 1)%nat with (S idx) by lia.
        apply (IH (mkInterp bits (S idx) (push_executed st' o) None) r sa1);
          cbn [script_bits script_index istate tx_script]; try assumption; try reflexivity.
        cbn [bit_size] in Hf. lia.
      * rewrite R. cbn [script_bits script_index istate tx_script]. eexists; reflexivity.
    + cbn [match_script_bit sexec_bit script_bits script_index istate tx_script with_istate].
      replace (idx + 1)%nat with (S idx) by lia.
      apply (IH (mkInterp bits (S idx) _ None) r); cbn [script_bits script_index istate tx_script]; try assumption; try reflexivity.
      * unfold absS in *. cbn [stack alt_stack push_executed with_stack]. rewrite rev_app_distr. cbn [rev app].
        inv Hab. reflexivity.
      * cbn [bit_size] in Hf. lia.
    + cbn [match_script_bit sexec_bit script_bits script_index istate tx_script with_istate].
      replace (idx + 1)%nat with (S idx) by lia.
      apply (IH (mkInterp bits (S idx) _ None) r); cbn [script_bits script_index istate tx_script]; try assumption; try reflexivity.
      * unfold absS in *. cbn [stack alt_stack push_executed with_stack]. rewrite rev_app_distr. cbn [rev app].
        inv Hab. reflexivity.
      * cbn [bit_size] in Hf. lia.
    + (* conditional *)
      cbn [stray_bit] in Hb. rewrite orb_false_r in Hb.
      rewrite agreed_bit_if in Hb. apply andb_true_iff in Hb. destruct Hb as [Hb Hq].
      apply andb_true_iff in Hb. destruct Hb as [Hc Hp].
      cbn [match_script_bit script_bits script_index istate tx_script]. rewrite sexec_bit_if.
      unfold absS in Hab. destruct sa as [s a]. injection Hab as Hs1 Ha1. subst s a. cbn [fst snd].
      cbn [script_bits script_index istate tx_script].
      destruct (rev (stack st)) as [|x s'] eqn:Es.
      * assert (E0 : stack st = []) by (rewrite <- (rev_involutive (stack st)), Es; reflexivity).
        rewrite E0. cbn [pop_bool split_last]. eexists; reflexivity.
      * assert (E0 : stack st = rev s' ++ [x]) by (rewrite <- (rev_involutive (stack st)), Es; reflexivity).
        rewrite E0, pop_bool_snoc. replace (idx + 1)%nat with (S idx) by lia. rewrite vsplice_ok by lia.
        assert (Ec : ((c =? OP_NOTIF)%N || (c =? OP_VERNOTIF)%N) = (c =? 100)%N).
        { unfold OP_NOTIF, OP_VERNOTIF. destruct (N.eqb_spec c 99) as [->|]; [reflexivity|].
          destruct (N.eqb_spec c 100) as [->|]; [reflexivity | discriminate Hc]. }
        rewrite Ec.
        set (v := if (c =? 100)%N then negb (truthy x) else truthy x).
        set (branch := if v then p else match q with Some f0 => f0 | None => [] end).
        assert (Hbr : sexec_bits (branch ++ r) (s', rev (alt_stack st)) =
                       match (if v then sexec_bits p (s', rev (alt_stack st))
                              else match q with Some q' => sexec_bits q' (s', rev (alt_stack st)) | None => Some (s', rev (alt_stack st)) end) with
                       | Some sa' => sexec_bits r sa' | None => None end).
        { rewrite sexec_bits_app. unfold branch. destruct v; [reflexivity|]. destruct q; reflexivity. }
        rewrite <- Hbr. cbn [script_bits script_index istate tx_script]. replace (idx + 1)%nat with (S idx) by lia.
        apply (IH (mkInterp _ (S idx) _ None) (branch ++ r)); cbn [script_bits script_index istate tx_script]; try reflexivity.
        -- rewrite skipn_app, firstn_length, skipn_firstn_comm.
           replace (S idx - S idx)%nat with 0%nat by lia.
           replace (S idx - Nat.min (S idx) (length bits))%nat with 0%nat by lia.
           rewrite firstn_O, skipn_O. cbn [app]. rewrite Hr. reflexivity.
        -- rewrite agreed_top_app, Hr'. unfold branch. destruct v; [rewrite (agreed_bits_top _ Hp); reflexivity|].
           destruct q; [rewrite (agreed_bits_top _ Hq)|]; reflexivity.
        -- unfold absS. cbn [stack alt_stack push_executed with_stack]. rewrite rev_involutive. reflexivity.
        -- rewrite bits_size_app. rewrite bit_size_if in Hf. unfold branch. destruct v; destruct q; cbn [bits_size]; lia.
    + cbn [agreed_bit stray_bit] in Hb. discriminate.
Qed.

(* ------------------------------------------------------------------ *)
(* (2) the specification's token loop on the flattened script *)
Definition toks (k : list bit) : list tok := map tok_of_bit (flats k).
Definition toks1 (b : bit) : list tok := map tok_of_bit (flat b).

Lemma toks_cons b k : toks (b :: k) = toks1 b ++ toks k.
Proof. unfold toks, toks1. cbn [flats]. apply map_app. Qed.
Lemma toks1_if c p q :
  toks1 (BIf c p q) = TOp c :: toks p ++ match q with None => [] | Some q' => TOp OP_ELSE :: toks q' end ++ [TOp OP_ENDIF].
Proof.
  unfold toks1, toks. rewrite flat_if. cbn [map tok_of_bit]. rewrite !map_app. cbn [map tok_of_bit].
  destruct q; reflexivity.
Qed.

Definition plain_op (o : N) : bool := negb ((99 <=? o)%N && (o <=? 104)%N) && negb (o =? 106)%N.
Lemma agreed_plain : forallb plain_op agreed_ops = true.
Proof. vm_compute. reflexivity. Qed.
Lemma agreed_op_plain o : agreed_op o = true -> plain_op o = true.
Proof.
  intros H. unfold agreed_op in H. apply existsb_exists in H. destruct H as (x & Hin & E).
  apply N.eqb_eq in E. subst x. pose proof agreed_plain as F. rewrite forallb_forall in F. apply F. exact Hin.
Qed.

Lemma step_plain_skip o s a ve vl ret :
  plain_op o = true -> all_true ve = false ->
  step_tok true (TOp o) (mkF s a ve vl ret) = FRun (mkF s a ve vl ret).
Proof.
  intros Hp Hx. unfold plain_op in Hp. cbn [step_tok]. rewrite Hx. cbn [andb].
  replace ((o =? 99)%N || (o =? 100)%N) with false by lia.
  replace ((o =? 101)%N || (o =? 102)%N) with false by lia.
  replace (o =? 103)%N with false by lia. replace (o =? 104)%N with false by lia. reflexivity.
Qed.
Lemma step_plain_exec o s a ve vl :
  plain_op o = true -> all_true ve = true ->
  step_tok true (TOp o) (mkF s a ve vl false) =
    match spec_op true o (s, a) with Some (s', a') => FRun (mkF s' a' ve vl false) | None => FFail end.
Proof.
  intros Hp Hx. unfold plain_op in Hp. cbn [step_tok]. rewrite Hx. cbn [andb negb orb].
  replace ((o =? 99)%N || (o =? 100)%N) with false by lia.
  replace ((o =? 101)%N || (o =? 102)%N) with false by lia.
  replace (o =? 103)%N with false by lia. replace (o =? 104)%N with false by lia.
  replace (o =? 106)%N with false by lia. reflexivity.
Qed.

Definition skipP (b : bit) : Prop :=
  agreed_bit b = true -> forall more s a ve vl ret, all_true ve = false ->
  exec_flat true (toks1 b ++ more) (mkF s a ve vl ret) = exec_flat true more (mkF s a ve vl ret).
Definition skipQ (k : list bit) : Prop :=
  agreed_bits k = true -> forall more s a ve vl ret, all_true ve = false ->
  exec_flat true (toks k ++ more) (mkF s a ve vl ret) = exec_flat true more (mkF s a ve vl ret).

Lemma if_code c : ((c =? 99)%N || (c =? 100)%N) = true ->
  ((c =? 99)%N || (c =? 100)%N) = true /\ ((c =? 101)%N || (c =? 102)%N) = false.
Proof. intros H. split; [exact H | lia]. Qed.

Lemma flat_skip : forall k, skipQ k.
Proof.
  apply (bits_ind' skipP skipQ); unfold skipP, skipQ.
  - intros c Hag more s a ve vl ret Hx. cbn [agreed_bit] in Hag. apply agreed_op_plain in Hag.
    cbn [toks1 flat map tok_of_bit app exec_flat]. rewrite step_plain_skip by assumption. reflexivity.
  - intros d _ more s a ve vl ret Hx. cbn [toks1 flat map tok_of_bit app exec_flat step_tok]. rewrite Hx. reflexivity.
  - intros c d _ more s a ve vl ret Hx. cbn [toks1 flat map tok_of_bit app exec_flat step_tok]. rewrite Hx. reflexivity.
  - intros d Hag. discriminate Hag.
  - (* If without else *)
    intros c p IHp Hag more s a ve vl ret Hx. rewrite agreed_bit_if in Hag.
    apply andb_true_iff in Hag. destruct Hag as [Hag _]. apply andb_true_iff in Hag. destruct Hag as [Hc Hp].
    rewrite toks1_if. cbn [app]. rewrite <- app_assoc. cbn [exec_flat step_tok]. rewrite Hx. cbn [andb]. rewrite Hc.
    rewrite IHp by (try assumption; reflexivity).
    cbn [app exec_flat step_tok]. unfold OP_ENDIF.
    change ((104 =? 99)%N || (104 =? 100)%N) with false. change ((104 =? 101)%N || (104 =? 102)%N) with false.
    change (104 =? 103)%N with false. change (104 =? 104)%N with true. cbv iota. reflexivity.
  - (* If with else *)
    intros c p q IHp IHq Hag more s a ve vl ret Hx. rewrite agreed_bit_if in Hag.
    apply andb_true_iff in Hag. destruct Hag as [Hag Hq]. apply andb_true_iff in Hag. destruct Hag as [Hc Hp].
    rewrite toks1_if. cbn [app]. rewrite <- app_assoc. cbn [exec_flat step_tok]. rewrite Hx. cbn [andb]. rewrite Hc.
    rewrite IHp by (try assumption; reflexivity).
    cbn [app]. rewrite <- app_assoc. cbn [exec_flat step_tok]. unfold OP_ELSE.
    change ((103 =? 99)%N || (103 =? 100)%N) with false. change ((103 =? 101)%N || (103 =? 102)%N) with false.
    change (103 =? 103)%N with true. cbv iota.
    rewrite IHq by (try assumption; cbn [all_true forallb negb andb]; exact Hx).
    cbn [app exec_flat step_tok]. unfold OP_ENDIF.
    change ((104 =? 99)%N || (104 =? 100)%N) with false. change ((104 =? 101)%N || (104 =? 102)%N) with false.
    change (104 =? 103)%N with false. change (104 =? 104)%N with true. cbv iota. reflexivity.
  - intros _ more s a ve vl ret _. reflexivity.
  - intros b l Hb Hl Hag more s a ve vl ret Hx. cbn [agreed_bits] in Hag. apply andb_true_iff in Hag. destruct Hag as [H1 H2].
    rewrite toks_cons, <- app_assoc. rewrite Hb by assumption. apply Hl; assumption.
Qed.

Definition execP (b : bit) : Prop :=
  agreed_bit b = true -> forall more s a ve vl, all_true ve = true ->
  exec_flat true (toks1 b ++ more) (mkF s a ve vl false) =
    match sexec_bit b (s, a) with
    | Some (s', a') => exec_flat true more (mkF s' a' ve vl false)
    | None => None
    end.
Definition execQ (k : list bit) : Prop :=
  agreed_bits k = true -> forall more s a ve vl, all_true ve = true ->
  exec_flat true (toks k ++ more) (mkF s a ve vl false) =
    match sexec_bits k (s, a) with
    | Some (s', a') => exec_flat true more (mkF s' a' ve vl false)
    | None => None
    end.

Lemma endif_step more s a v ve vl ret :
  exec_flat true (TOp OP_ENDIF :: more) (mkF s a (v :: ve) (vl) ret) =
    match vl with _ :: vl' => exec_flat true more (mkF s a ve vl' ret) | [] => None end.
Proof.
  cbn [exec_flat step_tok]. unfold OP_ENDIF.
  change ((104 =? 99)%N || (104 =? 100)%N) with false. change ((104 =? 101)%N || (104 =? 102)%N) with false.
  change (104 =? 103)%N with false. change (104 =? 104)%N with true. cbv iota. destruct vl; reflexivity.
Qed.
Lemma else_step more s a v ve vl ret :
  exec_flat true (TOp OP_ELSE :: more) (mkF s a (v :: ve) (false :: vl) ret) =
    exec_flat true more (mkF s a (negb v :: ve) (true :: vl) ret).
Proof.
  cbn [exec_flat step_tok]. unfold OP_ELSE.
  change ((103 =? 99)%N || (103 =? 100)%N) with false. change ((103 =? 101)%N || (103 =? 102)%N) with false.
  change (103 =? 103)%N with true. cbv iota. reflexivity.
Qed.

Lemma flat_exec : forall k, execQ k.
Proof.
  apply (bits_ind' execP execQ); unfold execP, execQ.
  - intros c Hag more s a ve vl Hx. cbn [agreed_bit] in Hag. apply agreed_op_plain in Hag.
    cbn [toks1 flat map tok_of_bit app exec_flat sexec_bit]. rewrite step_plain_exec by assumption.
    destruct (spec_op true c (s, a)) as [[s' a']|]; reflexivity.
  - intros d _ more s a ve vl Hx. cbn [toks1 flat map tok_of_bit app exec_flat step_tok sexec_bit fst snd]. rewrite Hx. reflexivity.
  - intros c d _ more s a ve vl Hx. cbn [toks1 flat map tok_of_bit app exec_flat step_tok sexec_bit fst snd]. rewrite Hx. reflexivity.
  - intros d Hag. discriminate Hag.
  - (* If without else *)
    intros c p IHp Hag more s a ve vl Hx. pose proof Hag as Hag0. rewrite agreed_bit_if in Hag.
    apply andb_true_iff in Hag. destruct Hag as [Hag _]. apply andb_true_iff in Hag. destruct Hag as [Hc Hp].
    rewrite toks1_if, sexec_bit_if. cbn [app fst snd]. rewrite <- app_assoc. cbn [exec_flat step_tok]. rewrite Hx. cbn [andb negb orb]. rewrite Hc.
    destruct s as [|x r]; [reflexivity|].
    set (v := if (c =? 100)%N then negb (truthy x) else truthy x). destruct v eqn:Ev.
    + rewrite IHp by (try assumption; cbn [all_true forallb]; exact Hx).
      destruct (sexec_bits p (r, a)) as [[s' a']|]; [|reflexivity].
      cbn [app]. rewrite endif_step. reflexivity.
    + pose proof (flat_skip p Hp) as Sk. rewrite Sk by reflexivity.
      cbn [app]. rewrite endif_step. reflexivity.
  - (* If with else *)
    intros c p q IHp IHq Hag more s a ve vl Hx. rewrite agreed_bit_if in Hag.
    apply andb_true_iff in Hag. destruct Hag as [Hag Hq]. apply andb_true_iff in Hag. destruct Hag as [Hc Hp].
    rewrite toks1_if, sexec_bit_if. cbn [app fst snd]. rewrite <- app_assoc. cbn [exec_flat step_tok]. rewrite Hx. cbn [andb negb orb]. rewrite Hc.
    destruct s as [|x r]; [reflexivity|].
    set (v := if (c =? 100)%N then negb (truthy x) else truthy x). destruct v eqn:Ev.
    + rewrite IHp by (try assumption; cbn [all_true forallb]; exact Hx).
      destruct (sexec_bits p (r, a)) as [[s' a']|]; [|reflexivity].
      cbn [app]. rewrite <- app_assoc. rewrite else_step. cbn [negb].
      pose proof (flat_skip q Hq) as Sk. rewrite Sk by reflexivity.
      cbn [app]. rewrite endif_step. reflexivity.
    + pose proof (flat_skip p Hp) as Sk. rewrite Sk by reflexivity.
      cbn [app]. rewrite <- app_assoc. rewrite else_step. cbn [negb].
      rewrite IHq by (try assumption; cbn [all_true forallb]; exact Hx).
      destruct (sexec_bits q (r, a)) as [[s' a']|]; [|reflexivity].
      cbn [app]. rewrite endif_step. reflexivity.
  - intros _ more s a ve vl _. reflexivity.
  - intros b l Hb Hl Hag more s a ve vl Hx. cbn [agreed_bits] in Hag. apply andb_true_iff in Hag. destruct Hag as [H1 H2].
    rewrite toks_cons, <- app_assoc. rewrite Hb by assumption. cbn [sexec_bits].
    destruct (sexec_bit b (s, a)) as [[s' a']|]; [|reflexivity]. apply Hl; assumption.
Qed.

Lemma flat_exec_top : forall k more s a, agreed_top k = true ->
  exec_flat true (toks k ++ more) (mkF s a [] [] false) =
    match sexec_bits k (s, a) with
    | Some (s', a') => exec_flat true more (mkF s' a' [] [] false)
    | None => None
    end.
Proof.
  induction k as [|b k IH]; intros more s a Hag; [reflexivity|].
  cbn [agreed_top forallb] in Hag. apply andb_true_iff in Hag. destruct Hag as [Hb Hk]. fold (agreed_top k) in Hk.
  rewrite toks_cons, <- app_assoc. cbn [sexec_bits].
  apply orb_true_iff in Hb. destruct Hb as [Hb|Hb].
  - assert (H1 : agreed_bits [b] = true) by (cbn [agreed_bits]; rewrite Hb; reflexivity).
    pose proof (flat_exec [b] H1 (toks k ++ more) s a [] [] eq_refl) as E.
    rewrite toks_cons in E. change (toks []) with (@nil tok) in E. rewrite app_nil_r in E. rewrite E.
    cbn [sexec_bits]. destruct (sexec_bit b (s, a)) as [[s' a']|]; [|reflexivity]. apply IH; exact Hk.
  - destruct b as [o| | | |]; try discriminate Hb. cbn [stray_bit] in Hb.
    assert (E : o = 103%N \/ o = 104%N) by lia.
    destruct E as [-> | ->]; reflexivity.
Qed.

Theorem flat_is_structural k sa :
  agreed_top k = true -> exec_script_lim31 (toks k) sa = sexec_bits k sa.
Proof.
  intros Hag. unfold exec_script_lim31. destruct sa as [s a]. cbn [fst snd].
  pose proof (flat_exec_top k [] s a Hag) as H. rewrite app_nil_r in H. rewrite H.
  destruct (sexec_bits k (s, a)) as [[s' a']|]; reflexivity.
Qed.

(* ------------------------------------------------------------------ *)
(* (3) composition *)
Definition start (bits : list bit) : interp notx := from_script_bits notx bits None.

Theorem run_refines_bits (bits : list bit) :
  agreed_top bits = true ->
  match exec_script_lim31 (toks bits) ([], []) with
  | Some sa' => exists i', run0 (start bits) = RunOk i' /\ absS (istate i') = sa'
  | None => exists i', run0 (start bits) = RunErr i'
  end.
Proof.
  intros Hag. rewrite flat_is_structural by exact Hag.
  unfold Interp.run. apply machine_sexec; try reflexivity; try assumption.
  unfold remaining. cbn [script_index script_bits start from_script_bits skipn]. lia.
Qed.

(* the public path: bytes -> Script::from_bytes -> Interpreter::from_script -> run *)
Theorem run_refines (bs : bytes) (bits : list bit) :
  from_bytes bs = Ok bits -> truncated_tail bs = false -> agreed_top bits = true ->
  exists ts, tokenize_spec bs = TokOk ts /\
    match exec_script_lim31 ts ([], []) with
    | Some (s, a) => exists i', run0 (start bits) = RunOk i' /\ stack (istate i') = rev s /\ alt_stack (istate i') = rev a
    | None => exists i', run0 (start bits) = RunErr i'
    end.
Proof.
  intros Hp Ht Hag. destruct (script_roundtrip bs bits Hp Ht) as [_ Htok].
  exists (flatten bits). split; [exact Htok|].
  pose proof (run_refines_bits bits Hag) as R. unfold toks in R. fold (flatten bits) in R.
  destruct (exec_script_lim31 (flatten bits) ([], [])) as [[s a]|]; [|exact R].
  destruct R as (i' & E & A). exists i'. split; [exact E|]. unfold absS in A. inv A.
  rewrite !rev_involutive. auto.
Qed.

(* ------------------------------------------------------------------ *)
(* the machine-word variant `lim = true` is the specification itself as long as the stack is
   shallower than 2^31 and no item is 2^31 bytes long *)
Definition small_stack (s : stk) : Prop :=
  Z.of_nat (length s) <= 2147483647 /\ Forall (fun x => Z.of_nat (length x) <= 2147483647) s.

Lemma spec_op_lim o s a : small_stack s -> spec_op true o (s, a) = spec_op false o (s, a).
Proof.
  intros [Hd Hi]. unfold spec_op.
  assert (M : main_op true o s = main_op false o s); [|destruct o as [|p]; [|do 8 (try destruct p as [p|p|])]; rewrite ?M; reflexivity].
  destruct o as [|p]; [reflexivity|].
  do 8 (try destruct p as [p|p|]); try reflexivity; cbn [main_op];
    destruct s as [|n [|x r]]; try reflexivity;
    cbv zeta; unfold over_usize, too_big; cbn [andb length] in *;
    repeat match goal with H : Forall _ (_ :: _) |- _ => inv H end;
    repeat match goal with
           | |- context [(?u <? 0) || ?b || (18446744073709551615 <? ?k)] =>
               destruct ((u <? 0) || b) eqn:?; [reflexivity|];
               replace (18446744073709551615 <? k) with false by lia
           end;
    repeat match goal with
           | |- context [2147483647 <? ?m] => replace (2147483647 <? m) with false by lia
           end;
    reflexivity.
Qed.
