(* Proofs/EcdsaAbstractInst.v — the hypotheses of Proofs/EcdsaAbstract.v are jointly
   satisfiable and its theorems are not vacuous: a toy instance (the cyclic group Z_11
   written additively, generator 1, "x-coordinate" min(a, 11-a), "y parity" a > 5)
   satisfies every section hypothesis, and prim_sign_g succeeds on it.  This is a
   consistency check of the abstract interface only; it says nothing about secp256k1. *)
From BSV Require Import Base.Bytes.
From BSV Require Import Prim.Num Prim.Secp256k1 Proofs.EcdsaAbstract.
From Coq Require Import Eqdep_dec Zdiv.
Local Open Scope Z_scope.

Definition q : Z := 11.
Definition canonb (v : Z) : bool := (0 <=? v) && (v <? q).
Record zq : Type := MkZq { val : Z; canon : canonb val = true }.

Lemma zq_eq a b : val a = val b -> a = b.
Proof.
  destruct a as [v Hv], b as [w Hw]. cbn [val]. intros <-. f_equal.
  apply UIP_dec. apply Bool.bool_dec.
Qed.

Lemma canon_mod z : canonb (z mod q) = true.
Proof.
  unfold canonb, q. pose proof (Z.mod_pos_bound z 11 eq_refl) as B.
  apply andb_true_iff. rewrite Z.leb_le, Z.ltb_lt. exact B.
Qed.
Definition norm (z : Z) : zq := MkZq (z mod q) (canon_mod z).
Lemma val_norm z : val (norm z) = z mod q. Proof. reflexivity. Qed.

Lemma val_range a : 0 <= val a < q.
Proof.
  destruct a as [v Hv]. cbn [val]. unfold canonb in Hv.
  apply andb_true_iff in Hv. rewrite Z.leb_le, Z.ltb_lt in Hv. exact Hv.
Qed.
Lemma val_small a : val a mod q = val a.
Proof. apply Z.mod_small. apply val_range. Qed.

Definition t_add (a b : zq) : zq := norm (val a + val b).
Definition t_neg (a : zq) : zq := norm (- val a).
Definition t_zero : zq := norm 0.
Definition t_smul (k : Z) (a : zq) : zq := norm (k * val a).
Definition t_G : zq := norm 1.
Definition t_x (a : zq) : Z := Z.min (val a) (q - val a) mod q.
Definition t_yodd (a : zq) : bool := 5 <? val a.
Definition t_isinf (a : zq) : bool := val a =? 0.
Definition t_lift (x : Z) (b : bool) : option zq :=
  if (1 <=? x) && (x <=? 5) then Some (norm (if b then q - x else x)) else None.
Definition t_inv (a : Z) : Z := (a ^ 9) mod q.

Lemma enum a : val a = 0 \/ val a = 1 \/ val a = 2 \/ val a = 3 \/ val a = 4 \/ val a = 5 \/
               val a = 6 \/ val a = 7 \/ val a = 8 \/ val a = 9 \/ val a = 10.
Proof. pose proof (val_range a). unfold q in *. lia. Qed.

Ltac by_enum a :=
  let H := fresh in
  pose proof (enum a) as H; destruct a as [v Hv]; cbn [val] in H;
  repeat (destruct H as [H|H]; [subst v|]); [..|subst v].

Lemma t_add_assoc P Q R : t_add P (t_add Q R) = t_add (t_add P Q) R.
Proof.
  apply zq_eq. unfold t_add. rewrite !val_norm.
  rewrite Zplus_mod_idemp_r, Zplus_mod_idemp_l, Z.add_assoc. reflexivity.
Qed.
Lemma t_add_comm P Q : t_add P Q = t_add Q P.
Proof. apply zq_eq. unfold t_add. rewrite !val_norm, Z.add_comm. reflexivity. Qed.
Lemma t_add_0_l P : t_add t_zero P = P.
Proof. apply zq_eq. unfold t_add, t_zero. rewrite !val_norm. cbn [Z.add]. apply val_small. Qed.
Lemma t_add_neg_r P : t_add P (t_neg P) = t_zero.
Proof.
  apply zq_eq. unfold t_add, t_neg, t_zero. rewrite !val_norm.
  rewrite Zplus_mod_idemp_r, Z.add_opp_diag_r. reflexivity.
Qed.
Lemma t_smul_add a b P : t_smul (a + b) P = t_add (t_smul a P) (t_smul b P).
Proof.
  apply zq_eq. unfold t_add, t_smul. rewrite !val_norm.
  rewrite <- Zplus_mod, Z.mul_add_distr_r. reflexivity.
Qed.
Lemma t_smul_mul a b P : t_smul (a * b) P = t_smul a (t_smul b P).
Proof.
  apply zq_eq. unfold t_smul. rewrite !val_norm.
  rewrite Zmult_mod_idemp_r, Z.mul_assoc. reflexivity.
Qed.
Lemma t_smul_1 P : t_smul 1 P = P.
Proof. apply zq_eq. unfold t_smul. rewrite val_norm, Z.mul_1_l. apply val_small. Qed.
Lemma t_smul_n_G : t_smul q t_G = t_zero.
Proof. apply zq_eq. reflexivity. Qed.
Lemma t_inv_ok a : 0 < a < q -> (a * t_inv a) mod q = 1.
Proof.
  intros H. unfold q in *.
  assert (C : a = 1 \/ a = 2 \/ a = 3 \/ a = 4 \/ a = 5 \/ a = 6 \/ a = 7 \/ a = 8 \/ a = 9 \/ a = 10) by lia.
  repeat (destruct C as [->|C]; [reflexivity|]). subst a. reflexivity.
Qed.
Lemma t_x_neg P : t_x (t_neg P) = t_x P.
Proof. by_enum P; reflexivity. Qed.
Lemma t_x_zero : t_x t_zero = 0.
Proof. reflexivity. Qed.
Lemma t_isinf_spec P : t_isinf P = true <-> P = t_zero.
Proof.
  unfold t_isinf. rewrite Z.eqb_eq. split.
  - intros H. apply zq_eq. rewrite H. reflexivity.
  - intros ->. reflexivity.
Qed.
Lemma t_lift_ok P : P <> t_zero -> t_lift (t_x P) (t_yodd P) = Some P.
Proof.
  intros H. assert (Hv : val P <> 0) by (intros E; apply H, zq_eq; rewrite E; reflexivity).
  pose proof (enum P) as C.
  assert (E : exists R, t_lift (t_x P) (t_yodd P) = Some R /\ val R = val P).
  { unfold t_lift, t_x, t_yodd.
    destruct C as [C|C]; [exfalso; exact (Hv C)|].
    repeat (destruct C as [C|C]; [rewrite C; eexists; split; reflexivity|]).
    rewrite C; eexists; split; reflexivity. }
  destruct E as (R & -> & ER). f_equal. apply zq_eq. exact ER.
Qed.
Lemma t_yodd_neg P : P <> t_zero -> t_yodd (t_neg P) = negb (t_yodd P).
Proof.
  intros H. assert (Hv : val P <> 0) by (intros E; apply H, zq_eq; rewrite E; reflexivity).
  pose proof (enum P) as C. unfold t_yodd, t_neg. rewrite val_norm.
  destruct C as [C|C]; [exfalso; exact (Hv C)|].
  repeat (destruct C as [C|C]; [rewrite C; reflexivity|]).
  rewrite C. reflexivity.
Qed.
Lemma t_order_exact a : t_smul a t_G = t_zero -> a mod q = 0.
Proof.
  intros H. apply (f_equal val) in H. unfold t_smul, t_G, t_zero in H. rewrite !val_norm in H.
  change (1 mod q) with 1 in H. rewrite Z.mul_1_r in H. exact H.
Qed.

Definition t_sign := prim_sign_g zq t_smul t_G t_x t_yodd q t_inv.
Definition t_verify := prim_verify_g zq t_smul t_add t_G t_x q t_inv.
Definition t_recover := recover_g zq t_smul t_add t_G t_isinf t_lift q t_inv.

(* the abstract theorems, instantiated: all hypotheses discharged *)
Theorem toy_ecdsa_correct d k z r s v :
  0 < k < q -> t_sign d k z = Some (r, s, v) -> t_verify (t_smul d t_G) z (r, s) = true.
Proof.
  apply (ecdsa_correct zq t_add t_neg t_zero t_smul t_G q t_x t_yodd t_isinf t_lift t_inv
           t_add_assoc t_add_comm t_add_0_l t_add_neg_r t_smul_add t_smul_mul t_smul_1
           eq_refl t_smul_n_G t_inv_ok t_x_neg).
Qed.

Theorem toy_recover_signer d k z r s v :
  0 < k < q -> 0 <= t_x (t_smul k t_G) < q -> t_smul d t_G <> t_zero ->
  t_sign d k z = Some (r, s, v) -> t_recover r s v z = Ok (t_smul d t_G).
Proof.
  apply (recover_signer zq t_add t_neg t_zero t_smul t_G q t_x t_yodd t_isinf t_lift t_inv
           t_add_assoc t_add_comm t_add_0_l t_add_neg_r t_smul_add t_smul_mul t_smul_1
           eq_refl t_smul_n_G t_inv_ok t_x_neg t_x_zero t_isinf_spec t_lift_ok t_yodd_neg).
Qed.

Theorem toy_recover_other_z d k z z' r s v :
  0 < k < q -> 0 <= t_x (t_smul k t_G) < q ->
  t_sign d k z = Some (r, s, v) -> ~ eqm q z' z ->
  recover_point_g zq t_smul t_add t_G t_lift q t_inv r s v z' <> Some (t_smul d t_G).
Proof.
  apply (recover_other_z zq t_add t_neg t_zero t_smul t_G q t_x t_yodd t_isinf t_lift t_inv
           t_add_assoc t_add_comm t_add_0_l t_add_neg_r t_smul_add t_smul_mul t_smul_1
           eq_refl t_smul_n_G t_inv_ok t_x_neg t_x_zero t_isinf_spec t_lift_ok t_yodd_neg
           t_order_exact).
Qed.

(* non-vacuity: signing succeeds, in the kept-s and in the negated-s case *)
Example toy_sign_low : t_sign 3 2 4 = Some (2, 5, false).
Proof. vm_compute. reflexivity. Qed.
Example toy_sign_high : t_sign 3 2 6 = Some (2, 5, true).
Proof. vm_compute. reflexivity. Qed.
Example toy_verify : t_verify (t_smul 3 t_G) 4 (2, 5) = true /\ t_verify (t_smul 3 t_G) 6 (2, 5) = true.
Proof. vm_compute. split; reflexivity. Qed.
Example toy_recover : omap val (t_recover 2 5 false 4) = Ok 3 /\ omap val (t_recover 2 5 true 6) = Ok 3.
Proof. vm_compute. split; reflexivity. Qed.

Print Assumptions toy_ecdsa_correct.
Print Assumptions toy_recover_signer.
