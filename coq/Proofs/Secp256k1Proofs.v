(* Proofs/Secp256k1Proofs.v — theorems about the reference (Z) instance of
   Prim/Secp256k1.v that do not need the group law:
     modinv_correct      extended Euclid computes the inverse whenever gcd = 1
     low_s / prim_sign_range   every signature returned by prim_sign is low-S and in range
     sec1_roundtrip      decode (encode c P) = Some P for canonical on-curve P
                         (compressed case under the explicit premise [sqrt_ok])
     sec1_decode_sound / sec1_decode_exact   what is accepted, and that it is canonical
   Assumption: [sqrt_ok] (Euler's criterion for p; needs primality of p) is an explicit
   premise of the theorems that use it; nothing else is assumed. *)
From BSV Require Import Base.Bytes.
From BSV Require Import Prim.Num Prim.Secp256k1.
Local Open Scope Z_scope.


(* ------------------------------------------------------------------ *)
(* Modular inverse by extended Euclid (reference instance).            *)
Section ModInv.
  Variables (m a : Z).

  Lemma egcd_Z_spec fuel : forall r0 r1 t0 t1,
    0 <= r1 < r0 -> r0 * r1 < 2 ^ Z.of_nat fuel ->
    (t0 * a) mod m = r0 mod m -> (t1 * a) mod m = r1 mod m ->
    let '(g, t) := egcd Z_ops fuel r0 r1 t0 t1 in
    g = Z.gcd r0 r1 /\ (t * a) mod m = g mod m.
  Proof.
    induction fuel as [|f IH]; intros r0 r1 t0 t1 Hr Hf H0 H1.
    - cbn [egcd]. change (2 ^ Z.of_nat 0) with 1 in Hf.
      assert (r1 = 0).
      { destruct (Z.eq_dec r1 0) as [E|E]; [exact E|exfalso]. clear H0 H1.
        assert (1 * 1 <= r0 * r1) by (apply Z.mul_le_mono_nonneg; lia). lia. }
      subst r1. rewrite Z.gcd_0_r, Z.abs_eq by lia. auto.
    - cbn [egcd n_eqb n_of_Z n_div n_sub n_mul Z_ops].
      destruct (r1 =? 0) eqn:E.
      + apply Z.eqb_eq in E. subst r1. rewrite Z.gcd_0_r, Z.abs_eq by lia. auto.
      + apply Z.eqb_neq in E.
        assert (Hq : r0 = r1 * (r0 / r1) + r0 mod r1) by (apply Z.div_mod; exact E).
        assert (Hm : 0 <= r0 mod r1 < r1) by (apply Z.mod_pos_bound; destruct Hr; apply Z.le_neq; split; [assumption|congruence]).
        assert (Hq1 : 1 <= r0 / r1).
        { apply Z.div_le_lower_bound; [apply Z.le_neq; split; [apply Hr|congruence]|rewrite Z.mul_1_r; apply Z.lt_le_incl, Hr]. }
        revert Hq Hm Hq1. generalize (r0 / r1) as q. generalize (r0 mod r1) as r2. intros r2 q Hq Hm Hq1.
        assert (E2 : r0 - q * r1 = r2) by (rewrite Hq at 1; ring).
        rewrite Nat2Z.inj_succ, Z.pow_succ_r in Hf by lia.
        specialize (IH r1 (r0 - q * r1) t1 (t0 - q * t1)).
        destruct (egcd Z_ops f r1 (r0 - q * r1) t1 (t0 - q * t1)) as [g t].
        assert (G : Z.gcd r1 (r0 - q * r1) = Z.gcd r0 r1).
        { replace (r0 - q * r1) with (r0 + (- q) * r1) by ring.
          rewrite Z.gcd_add_mult_diag_r. apply Z.gcd_comm. }
        rewrite <- G. apply IH.
        * rewrite E2; lia.
        * rewrite E2. clear IH H0 H1 G.
          assert (A1 : r1 <= r1 * q) by (apply Z.le_mul_diag_r; lia).
          assert (A2 : r1 * (2 * r2) <= r1 * r0) by (apply Z.mul_le_mono_nonneg_l; lia).
          revert Hf. generalize (2 ^ Z.of_nat f). intros P Hf. lia.
        * exact H1.
        * replace ((t0 - q * t1) * a) with (t0 * a - q * (t1 * a)) by ring.
          rewrite Zminus_mod, (Zmult_mod q (t1 * a)), H0, H1.
          rewrite <- Zmult_mod, <- Zminus_mod. reflexivity.
  Qed.
End ModInv.

Lemma inv_fuel_enough m : 1 < m -> m * m < 2 ^ Z.of_nat (inv_fuel m).
Proof.
  intros Hm. unfold inv_fuel.
  assert (L : 0 <= Z.log2 m) by apply Z.log2_nonneg.
  destruct (Z.log2_spec m) as [_ Hlt]; [lia|].
  replace (Z.of_nat (2 * Z.to_nat (Z.log2 m) + 3)) with (Z.succ (Z.log2 m) + Z.succ (Z.log2 m) + 1) by lia.
  rewrite !Z.pow_add_r by lia. change (2 ^ 1) with 2.
  assert (0 < 2 ^ Z.succ (Z.log2 m)) by (apply Z.pow_pos_nonneg; lia). nia.
Qed.

Theorem modinv_correct m a :
  1 < m -> Z.gcd a m = 1 -> (a * modinv Z_ops m a) mod m = 1.
Proof.
  intros Hm Hg. unfold modinv.
  cbn [n_to_Z n_mod n_of_Z Z_ops].
  assert (Ha : 0 <= a mod m < m) by (apply Z.mod_pos_bound; lia).
  pose proof (egcd_Z_spec m a (inv_fuel m) m (a mod m) 0 1) as S.
  destruct (egcd Z_ops (inv_fuel m) m (a mod m) 0 1) as [g t].
  destruct S as [Sg St].
  - lia.
  - pose proof (inv_fuel_enough m Hm). nia.
  - rewrite Z.mul_0_l, Z_mod_same_full. apply Zmod_0_l.
  - rewrite Z.mul_1_l, Zmod_mod. reflexivity.
  - rewrite (Z.gcd_comm m (a mod m)), Z.gcd_mod, (Z.gcd_comm m a), Hg in Sg by lia. subst g.
    rewrite Zmult_mod_idemp_r, Z.mul_comm, St. apply Z.mod_1_l; lia.
Qed.

(* the scalar and field inverses of secp256k1, given that every non-zero residue is
   coprime to the modulus (i.e. that n, resp. p, is prime — not proved here) *)
Lemma sinv_ok :
  (forall a, 0 < a < secp_n -> Z.gcd a secp_n = 1) ->
  forall a, 0 < a < secp_n -> (a * sinv a) mod secp_n = 1.
Proof. intros Hp a Ha. apply modinv_correct; [reflexivity | apply Hp; exact Ha]. Qed.

Lemma finv_ok :
  (forall a, 0 < a < secp_p -> Z.gcd a secp_p = 1) ->
  forall a, 0 < a < secp_p -> (a * finv a) mod secp_p = 1.
Proof. intros Hp a Ha. apply modinv_correct; [reflexivity | apply Hp; exact Ha]. Qed.

Lemma modinv_range m a : 0 < m -> 0 <= modinv Z_ops m a < m.
Proof.
  intros Hm. unfold modinv. destruct (egcd _ _ _ _ _ _) as [g t].
  cbn [n_mod Z_ops]. apply Z.mod_pos_bound; lia.
Qed.


(* ------------------------------------------------------------------ *)
(* low-S and ranges of prim_sign, for every input and every group.      *)
Section SignRange.
  Variables (pt : Type) (g_smul : Z -> pt -> pt) (g_gen : pt) (g_x : pt -> Z)
            (g_yodd : pt -> bool) (n : Z) (inv_n : Z -> Z).
  Hypothesis n_pos : 0 < n.

  Lemma prim_sign_g_range d k z r s v :
    prim_sign_g pt g_smul g_gen g_x g_yodd n inv_n d k z = Some (r, s, v) ->
    1 <= r < n /\ 1 <= s <= n / 2 /\ k <> 0.
  Proof.
    unfold prim_sign_g.
    destruct (k =? 0) eqn:Ek; [discriminate|].
    set (r0 := g_x (g_smul k g_gen) mod n).
    set (s0 := (inv_n k * ((z + r0 * d) mod n)) mod n).
    assert (Hr : 0 <= r0 < n) by (apply Z.mod_pos_bound; exact n_pos).
    assert (Hs : 0 <= s0 < n) by (apply Z.mod_pos_bound; exact n_pos).
    clearbody r0 s0.
    destruct (s0 =? 0) eqn:Es; [discriminate|].
    destruct (r0 =? 0) eqn:Er; [discriminate|].
    apply Z.eqb_neq in Ek, Es, Er.
    intros H. inversion H; subst r s v; clear H.
    destruct (n / 2 <? s0) eqn:Eh; [apply Z.ltb_lt in Eh | apply Z.ltb_ge in Eh].
    - repeat split; try lia.
    - repeat split; try lia.
  Qed.
End SignRange.

Theorem low_s d k z r s v :
  prim_sign d k z = Some (r, s, v) -> 1 <= s <= secp_n / 2.
Proof.
  intros H. apply prim_sign_g_range in H; [tauto | reflexivity].
Qed.

Theorem prim_sign_range d k z r s v :
  prim_sign d k z = Some (r, s, v) -> 1 <= r < secp_n /\ 1 <= s <= secp_n / 2 /\ k <> 0.
Proof. intros H. apply prim_sign_g_range in H; [exact H | reflexivity]. Qed.

(* ------------------------------------------------------------------ *)
(* 32-byte big-endian integers.                                         *)
Lemma be32_length a : length (be32 a) = 32%nat.
Proof. unfold be32, be_bytes. rewrite rev_length. apply le_bytes_length. Qed.

Lemma be_Z_be32 a : 0 <= a < 2 ^ 256 -> be_Z (be32 a) = a.
Proof.
  intros H. unfold be_Z, be32, be_val, be_bytes. rewrite rev_involutive.
  rewrite le_val_le_bytes_small.
  - apply Z2N.id; lia.
  - change (256 ^ N.of_nat 32)%N with (Z.to_N (2 ^ 256)). apply Z2N.inj_lt; lia.
Qed.

Lemma be32_be_Z bs : length bs = 32%nat -> be32 (be_Z bs) = bs.
Proof.
  intros H. unfold be_Z, be32, be_val, be_bytes. rewrite N2Z.id.
  rewrite <- H, <- (rev_length bs), le_bytes_le_val. apply rev_involutive.
Qed.

Lemma be_Z_range bs : length bs = 32%nat -> 0 <= be_Z bs < 2 ^ 256.
Proof.
  intros H. unfold be_Z, be_val. pose proof (le_val_bound (rev bs)) as B.
  rewrite rev_length, H in B. split; [apply N2Z.is_nonneg|].
  change (2 ^ 256) with (Z.of_N (256 ^ N.of_nat 32)). apply N2Z.inj_lt. exact B.
Qed.

Lemma secp_p_lt : secp_p < 2 ^ 256.
Proof. reflexivity. Qed.

Lemma in_field_spec a : in_field a = true <-> 0 <= a < secp_p.
Proof. unfold in_field. rewrite andb_true_iff, Z.leb_le, Z.ltb_lt. tauto. Qed.

(* ------------------------------------------------------------------ *)
(* x-lifting.  The only number-theoretic fact needed about p is that the
   candidate root alpha^((p+1)/4) of a square y^2 is y or -y (Euler's criterion;
   it needs the primality of p, which is not proved here). *)
Definition sqrt_ok : Prop :=
  forall y, 0 <= y < secp_p ->
    let b := fpow Z_ops secp_p ((y * y) mod secp_p) secp_sqrt_exp in
    b = y \/ b = (secp_p - y) mod secp_p.

Section Lift.
  (* generic in the modulus to keep the 256-bit constant out of the proof terms *)
  Variable p : Z.
  Hypothesis p_pos : 0 < p.
  Hypothesis p_odd : Z.odd p = true.
  Variable e : positive.

  Lemma fpow_range b : 0 <= fpow Z_ops p b e < p.
  Proof.
    destruct e; cbn [fpow]; unfold fmul, fsqr, fmul; cbn [n_mod Z_ops]; apply Z.mod_pos_bound; exact p_pos.
  Qed.

  Lemma neg_sq y : ((p - y) * (p - y)) mod p = (y * y) mod p.
  Proof.
    replace ((p - y) * (p - y)) with (y * y + (p - 2 * y) * p) by ring.
    apply Z_mod_plus_full.
  Qed.

  Lemma fneg_Z b : 0 < b < p -> fneg Z_ops p b = p - b.
  Proof.
    intros H. change (fneg Z_ops p b) with ((0 - b) mod p).
    replace (0 - b) with ((p - b) + (-1) * p) by ring.
    rewrite Z_mod_plus_full. apply Z.mod_small; lia.
  Qed.

  Lemma glift_x_complete x y :
    0 <= y < p ->
    (let b := fpow Z_ops p ((y * y) mod p) e in b = y \/ b = (p - y) mod p) ->
    on_curve_xy Z_ops p x y = true ->
    glift_x Z_ops p e x (Z.odd y) = Some (x, y).
  Proof.
    intros Hy Hb Hc. unfold on_curve_xy in Hc. unfold glift_x.
    cbn [n_eqb n_even Z_ops] in *. apply Z.eqb_eq in Hc.
    unfold fmul at 1 in Hc. cbn [n_mod n_mul Z_ops] in Hc.
    rewrite <- Hc. cbv zeta in Hb.
    set (b := fpow Z_ops p ((y * y) mod p) e) in *. clearbody b.
    assert (Hneg : y <> 0 -> (p - y) mod p = p - y) by (intros; apply Z.mod_small; lia).
    destruct (Z.eq_dec y 0) as [Y0|Y0].
    - assert (b = 0).
      { destruct Hb as [->| ->]; [exact Y0|]. subst y. rewrite Z.sub_0_r. apply Z_mod_same_full. }
      subst b y. unfold fmul. cbn [n_mod n_mul Z_ops]. rewrite Z.eqb_refl.
      cbn [Z.even Z.odd negb Bool.eqb]. reflexivity.
    - destruct Hb as [->|Hb].
      + unfold fmul. cbn [n_mod n_mul Z_ops]. rewrite Z.eqb_refl.
        rewrite <- Z.negb_odd, negb_involutive, Bool.eqb_reflx. reflexivity.
      + rewrite Hneg in Hb by exact Y0. subst b.
        unfold fmul. cbn [n_mod n_mul Z_ops]. rewrite neg_sq, Z.eqb_refl.
        rewrite <- Z.negb_odd, negb_involutive, Z.odd_sub, p_odd.
        destruct (Z.odd y); cbn [xorb Bool.eqb negb];
          unfold fneg, fsub; cbn [n_mod n_sub n_of_Z Z_ops];
          (replace (0 - (p - y)) with (y + (-1) * p) by ring);
          rewrite Z_mod_plus_full, Z.mod_small by lia; reflexivity.
  Qed.

  Lemma glift_x_sound x odd x' y' :
    glift_x Z_ops p e x odd = Some (x', y') ->
    x' = x /\ 0 <= y' < p /\ on_curve_xy Z_ops p x y' = true.
  Proof.
    unfold glift_x, on_curve_xy. cbn [n_eqb n_even Z_ops].
    set (alpha := curve_rhs Z_ops p x).
    pose proof (fpow_range alpha) as Hb.
    set (b := fpow Z_ops p alpha e) in *. clearbody b.
    destruct (fmul Z_ops p b b =? alpha) eqn:E; [|discriminate].
    intros H. inversion H; subst x' y'; clear H.
    split; [reflexivity|].
    destruct (Bool.eqb (negb (Z.even b)) odd).
    - split; [exact Hb | exact E].
    - unfold fneg, fsub. cbn [n_mod n_sub n_of_Z Z_ops].
      split; [apply Z.mod_pos_bound; exact p_pos|].
      apply Z.eqb_eq in E. apply Z.eqb_eq. rewrite <- E.
      unfold fmul. cbn [n_mod n_mul Z_ops].
      rewrite <- Zmult_mod. f_equal. ring.
  Qed.

  Lemma glift_x_parity x odd x' y' :
    glift_x Z_ops p e x odd = Some (x', y') -> y' <> 0 -> Z.odd y' = odd.
  Proof.
    unfold glift_x. cbn [n_eqb n_even Z_ops].
    set (alpha := curve_rhs Z_ops p x).
    pose proof (fpow_range alpha) as Hb.
    set (b := fpow Z_ops p alpha e) in *. clearbody b.
    destruct (fmul Z_ops p b b =? alpha); [|discriminate].
    rewrite Z.negb_even.
    destruct (Bool.eqb (Z.odd b) odd) eqn:Eb; intros H Hy.
    - assert (Hyy : b = y') by congruence.
      apply Bool.eqb_prop in Eb. rewrite <- Hyy. exact Eb.
    - assert (Hyy : fneg Z_ops p b = y') by congruence.
      assert (b <> 0) by (intros ->; apply Hy; rewrite <- Hyy; reflexivity).
      rewrite fneg_Z in Hyy by lia.
      rewrite <- Hyy, Z.odd_sub, p_odd. apply Bool.eqb_false_iff in Eb.
      destruct (Z.odd b), odd; cbn; congruence.
  Qed.
End Lift.

(* ------------------------------------------------------------------ *)
(* SEC1 round trip and soundness.                                       *)
Lemma secp_p_odd : Z.odd secp_p = true. Proof. reflexivity. Qed.
Lemma secp_p_pos : 0 < secp_p. Proof. reflexivity. Qed.

Lemma lift_x_complete x y :
  sqrt_ok -> 0 <= x < secp_p -> 0 <= y < secp_p -> on_curve (Some (x, y)) = true ->
  lift_x x (Z.odd y) = Some (Some (x, y)).
Proof.
  intros S Hx Hy Hc. unfold lift_x.
  replace (in_field x) with true by (symmetry; apply in_field_spec; exact Hx).
  rewrite (glift_x_complete secp_p secp_p_pos secp_p_odd secp_sqrt_exp x y Hy (S y Hy) Hc).
  reflexivity.
Qed.

Lemma lift_x_sound x odd P :
  lift_x x odd = Some P ->
  exists y, P = Some (x, y) /\ 0 <= x < secp_p /\ 0 <= y < secp_p /\ on_curve P = true.
Proof.
  unfold lift_x. destruct (in_field x) eqn:Ex; [|discriminate].
  apply in_field_spec in Ex.
  destruct (glift_x Z_ops secp_p secp_sqrt_exp x odd) as [[x' y']|] eqn:E; [|discriminate].
  intros H. inversion H; subst P; clear H.
  apply (glift_x_sound secp_p secp_p_pos) in E. destruct E as (-> & Hy & Hc).
  exists y'. auto.
Qed.

Lemma firstn_be32_app a t : firstn 32 (be32 a ++ t) = be32 a.
Proof.
  rewrite firstn_app, be32_length, Nat.sub_diag, firstn_O, app_nil_r.
  rewrite <- (be32_length a) at 1. apply firstn_all.
Qed.
Lemma skipn_be32_app a t : skipn 32 (be32 a ++ t) = t.
Proof.
  rewrite skipn_app, be32_length, Nat.sub_diag, skipn_O.
  rewrite <- (be32_length a) at 1. rewrite skipn_all. reflexivity.
Qed.

Theorem sec1_roundtrip_uncompressed x y :
  0 <= x < secp_p -> 0 <= y < secp_p -> on_curve (Some (x, y)) = true ->
  sec1_decode (sec1_encode false (Some (x, y))) = Some (Some (x, y)).
Proof.
  intros Hx Hy Hc. pose proof secp_p_lt as L.
  unfold sec1_decode, sec1_encode, sec1_decode_g.
  change (byte_eqb x04 x02 || byte_eqb x04 x03) with false.
  change (byte_eqb x04 x04) with true. cbv iota.
  rewrite app_length, !be32_length. change (Nat.eqb (32 + 32) 64) with true. cbv iota.
  rewrite firstn_be32_app, skipn_be32_app, !be_Z_be32 by lia.
  replace (in_field x) with true by (symmetry; apply in_field_spec; exact Hx).
  replace (in_field y) with true by (symmetry; apply in_field_spec; exact Hy).
  rewrite Hc. reflexivity.
Qed.

Theorem sec1_roundtrip_compressed x y :
  sqrt_ok -> 0 <= x < secp_p -> 0 <= y < secp_p -> on_curve (Some (x, y)) = true ->
  sec1_decode (sec1_encode true (Some (x, y))) = Some (Some (x, y)).
Proof.
  intros S Hx Hy Hc. pose proof secp_p_lt as L.
  unfold sec1_decode, sec1_encode, sec1_decode_g.
  assert (E : forall t, (if byte_eqb t x02 || byte_eqb t x03 then
             if Nat.eqb (length (be32 x)) 32 then lift_x (be_Z (be32 x)) (byte_eqb t x03) else None
           else None) = lift_x x (byte_eqb t x03) -> True) by trivial. clear E.
  rewrite be32_length, be_Z_be32 by lia. change (Nat.eqb 32 32) with true. cbv iota.
  destruct (Z.odd y) eqn:Eo.
  - change (byte_eqb x03 x02 || byte_eqb x03 x03) with true. change (byte_eqb x03 x03) with true.
    cbv iota. rewrite <- Eo. apply lift_x_complete; assumption.
  - change (byte_eqb x02 x02 || byte_eqb x02 x03) with true. change (byte_eqb x02 x03) with false.
    cbv iota. rewrite <- Eo. apply lift_x_complete; assumption.
Qed.

Theorem sec1_roundtrip c x y :
  sqrt_ok -> 0 <= x < secp_p -> 0 <= y < secp_p -> on_curve (Some (x, y)) = true ->
  sec1_decode (sec1_encode c (Some (x, y))) = Some (Some (x, y)).
Proof.
  destruct c; [apply sec1_roundtrip_compressed | intros _; apply sec1_roundtrip_uncompressed].
Qed.

(* what is accepted is a non-identity curve point with canonical coordinates, and the
   input has the length its tag demands *)
Theorem sec1_decode_sound bs P :
  sec1_decode bs = Some P ->
  exists x y, P = Some (x, y) /\ 0 <= x < secp_p /\ 0 <= y < secp_p /\ on_curve P = true /\
    (length bs = 33%nat \/ length bs = 65%nat).
Proof.
  unfold sec1_decode, sec1_decode_g. destruct bs as [|tag rest]; [discriminate|].
  destruct (byte_eqb tag x02 || byte_eqb tag x03).
  - destruct (Nat.eqb (length rest) 32) eqn:El; [|discriminate]. apply Nat.eqb_eq in El.
    intros H. apply lift_x_sound in H. destruct H as (y & -> & Hx & Hy & Hc).
    exists (be_Z rest), y. cbn [length]. rewrite El. auto 10.
  - destruct (byte_eqb tag x04); [|discriminate].
    destruct (Nat.eqb (length rest) 64) eqn:El; [|discriminate]. apply Nat.eqb_eq in El.
    destruct (in_field (be_Z (firstn 32 rest))) eqn:Ex; [|discriminate].
    destruct (in_field (be_Z (skipn 32 rest))) eqn:Ey; [|discriminate].
    cbn [andb]. destruct (on_curve _) eqn:Ec; [|discriminate].
    intros H. inversion H; subst P; clear H.
    apply in_field_spec in Ex, Ey. do 2 eexists. cbn [length]. rewrite El. auto 10.
Qed.

(* canonical: an accepted uncompressed input is the encoding of its result; for a
   compressed input the same holds whenever y <> 0 (no curve point has y = 0, but that
   needs x^3 = -7 to have no root, which is not proved here) *)
Theorem sec1_decode_exact bs x y :
  sec1_decode bs = Some (Some (x, y)) -> y <> 0 ->
  bs = sec1_encode (Nat.eqb (length bs) 33) (Some (x, y)).
Proof.
  unfold sec1_decode, sec1_decode_g. destruct bs as [|tag rest]; [discriminate|].
  destruct (byte_eqb tag x02 || byte_eqb tag x03) eqn:Et.
  - destruct (Nat.eqb (length rest) 32) eqn:El; [|discriminate]. apply Nat.eqb_eq in El.
    cbn [length]. rewrite El. change (Nat.eqb 33 33) with true.
    unfold lift_x. destruct (in_field (be_Z rest)); [|discriminate].
    destruct (glift_x Z_ops secp_p secp_sqrt_exp (be_Z rest) (byte_eqb tag x03)) as [[x' y']|] eqn:E; [|discriminate].
    intros H Hy. assert (x' = x) by congruence. assert (y' = y) by congruence. subst x' y'. clear H.
    pose proof (glift_x_parity secp_p secp_p_pos secp_p_odd _ _ _ _ _ E Hy) as Ho.
    apply (glift_x_sound secp_p secp_p_pos) in E. destruct E as (Hx & _ & _).
    cbn [sec1_encode]. rewrite Hx, be32_be_Z by exact El. f_equal.
    rewrite Ho. apply orb_true_iff in Et. destruct Et as [Et|Et]; apply byte_eqb_eq in Et; subst tag; reflexivity.
  - destruct (byte_eqb tag x04) eqn:E4; [|discriminate]. apply byte_eqb_eq in E4. subst tag.
    destruct (Nat.eqb (length rest) 64) eqn:El; [|discriminate]. apply Nat.eqb_eq in El.
    change (length (x04 :: rest)) with (S (length rest)). rewrite El. change (Nat.eqb 65 33) with false.
    destruct (in_field _ && in_field _ && on_curve _); [|discriminate].
    intros H _.
    assert (Hx : be_Z (firstn 32 rest) = x) by congruence.
    assert (Hy : be_Z (skipn 32 rest) = y) by congruence.
    clear H. unfold sec1_encode. rewrite <- Hx, <- Hy, !be32_be_Z.
    + rewrite firstn_skipn. reflexivity.
    + rewrite skipn_length. lia.
    + rewrite firstn_length. lia.
Qed.

Print Assumptions low_s.
Print Assumptions sec1_roundtrip.
Print Assumptions sec1_decode_sound.
Print Assumptions sec1_decode_exact.

Print Assumptions modinv_correct.
