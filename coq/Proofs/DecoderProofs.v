(* Proofs/DecoderProofs.v — C09: totality (never Panic) and input-bounded work of the wire decoders of Model/Tx.v. *)
From BSV Require Import Base.Hex Model.Opcodes Model.Script Model.VarInt Model.Tx Spec.ScriptTok Proofs.ScriptProofs.

Lemma of_option_no_panic {A} (o : option A) : of_option o <> Panic.
Proof. destruct o; discriminate. Qed.

Lemma read_varint_no_panic bs : read_varint bs <> Panic.
Proof.
  unfold read_varint. destruct bs as [|b r]; [discriminate|].
  destruct (b2n b =? 255)%N; [apply of_option_no_panic|].
  destruct (b2n b =? 254)%N; [apply of_option_no_panic|].
  destruct (b2n b =? 253)%N; [apply of_option_no_panic|]. discriminate.
Qed.

(* every successful read_varint consumes at least one byte *)
Lemma read_varint_consumes bs n r : read_varint bs = Ok (n, r) -> length r < length bs.
Proof.
  unfold read_varint. destruct bs as [|b r0]; [discriminate|]. cbn [length].
  assert (H : forall k, of_option (read_le k r0) = Ok (n, r) -> length r < S (length r0)).
  { intros k. unfold read_le. destruct (read_exact k r0) as [[a r1]|] eqn:E; cbn; [|discriminate].
    intros Hx; inversion Hx; subst. apply read_exact_spec in E. destruct E as [-> _]. rewrite app_length. lia. }
  destruct (b2n b =? 255)%N; [apply H|].
  destruct (b2n b =? 254)%N; [apply H|].
  destruct (b2n b =? 253)%N; [apply H|].
  intros Hx; inversion Hx; subst. lia.
Qed.

Lemma read_le_consumes k bs n r : read_le k bs = Some (n, r) -> length r + k = length bs.
Proof.
  unfold read_le. destruct (read_exact k bs) as [[a r1]|] eqn:E; [|discriminate].
  intros Hx; inversion Hx; subst. apply read_exact_spec in E. destruct E as [-> <-]. rewrite app_length. lia.
Qed.

Lemma read_exactN_consumes n bs a r : read_exactN n bs = Some (a, r) -> length r <= length bs.
Proof. intros H. apply read_exactN_spec in H. destruct H as [-> _]. rewrite app_length. lia. Qed.

Ltac bind_case H :=
  match type of H with
  | context[bind ?x _] => let E := fresh "E" in destruct x as [?| |] eqn:E; cbn [bind] in H
  end.

Lemma txin_read_no_panic bs : txin_read bs <> Panic.
Proof.
  unfold txin_read. destruct (read32_padded bs) as [idle r0].
  destruct (of_option (read_le 4 r0)) as [[vo r1]| |] eqn:E1; cbn [bind]; try discriminate; [|exfalso; eapply of_option_no_panic; exact E1].
  destruct (read_varint r1) as [[slen r2]| |] eqn:E2; cbn [bind]; try discriminate; [|exfalso; eapply read_varint_no_panic; exact E2].
  destruct (of_option (read_exactN slen r2)) as [[sb r3]| |] eqn:E3; cbn [bind]; try discriminate; [|exfalso; eapply of_option_no_panic; exact E3].
  destruct (of_option (read_le 4 r3)) as [[sq r4]| |] eqn:E4; cbn [bind]; try discriminate; [|exfalso; eapply of_option_no_panic; exact E4].
  destruct (is_coinbase_outpoint (rev idle) vo); cbn [bind]; [discriminate|].
  destruct (from_bytes sb) eqn:E5; cbn [bind]; try discriminate. exfalso; eapply from_bytes_no_panic; exact E5.
Qed.

Lemma txout_read_no_panic bs : txout_read bs <> Panic.
Proof.
  unfold txout_read.
  destruct (of_option (read_le 8 bs)) as [[v r1]| |] eqn:E1; cbn [bind]; try discriminate; [|exfalso; eapply of_option_no_panic; exact E1].
  destruct (read_varint r1) as [[slen r2]| |] eqn:E2; cbn [bind]; try discriminate; [|exfalso; eapply read_varint_no_panic; exact E2].
  destruct (of_option (read_exactN slen r2)) as [[sb r3]| |] eqn:E3; cbn [bind]; try discriminate; [|exfalso; eapply of_option_no_panic; exact E3].
  destruct (from_bytes sb) eqn:E5; cbn [bind]; try discriminate. exfalso; eapply from_bytes_no_panic; exact E5.
Qed.

Lemma read_many_no_panic {A} (rd : bytes -> outcome (A * bytes)) :
  (forall bs, rd bs <> Panic) -> forall f n bs, read_many rd f n bs <> Panic.
Proof.
  intros Hrd. induction f as [|f IH]; intros n bs; cbn [read_many]; destruct (n =? 0)%N; try discriminate.
  destruct (rd bs) as [[a r]| |] eqn:E; cbn [bind]; try discriminate; [|exfalso; eapply Hrd; exact E].
  destruct (read_many rd f (n - 1) r) as [[l r']| |] eqn:E2; cbn [bind]; try discriminate.
  exfalso; eapply IH; exact E2.
Qed.

Lemma tx_from_bytes_no_panic bs : tx_from_bytes bs <> Panic.
Proof.
  unfold tx_from_bytes.
  destruct (of_option (read_le 4 bs)) as [[ver r0]| |] eqn:E0; cbn [bind]; try discriminate; [|exfalso; eapply of_option_no_panic; exact E0].
  destruct (read_varint r0) as [[nin r1]| |] eqn:E1; cbn [bind]; try discriminate; [|exfalso; eapply read_varint_no_panic; exact E1].
  destruct (read_many txin_read (S (length r1)) nin r1) as [[ins r2]| |] eqn:E2; cbn [bind]; try discriminate;
    [|exfalso; eapply (read_many_no_panic txin_read txin_read_no_panic); exact E2].
  destruct (read_varint r2) as [[nout r3]| |] eqn:E3; cbn [bind]; try discriminate; [|exfalso; eapply read_varint_no_panic; exact E3].
  destruct (read_many txout_read (S (length r3)) nout r3) as [[outs r4]| |] eqn:E4; cbn [bind]; try discriminate;
    [|exfalso; eapply (read_many_no_panic txout_read txout_read_no_panic); exact E4].
  destruct (of_option (read_le 4 r4)) as [[lt r5]| |] eqn:E5; cbn [bind]; try discriminate. exfalso; eapply of_option_no_panic; exact E5.
Qed.

Lemma txin_from_outpoint_no_panic op : txin_from_outpoint op <> Panic.
Proof. unfold txin_from_outpoint. destruct (Nat.eqb (length op) 36); discriminate. Qed.

(* Work and memory are bounded by the input, never by a declared count or length:
   (1) a declared script length larger than the remaining input is refused before anything is read;
   (2) the count loops parse at most as many items as there are input bytes. *)
Lemma txout_read_consumes bs o r : txout_read bs = Ok (o, r) -> length r + 9 <= length bs.
Proof.
  unfold txout_read. intros H.
  destruct (read_le 8 bs) as [[v r1]|] eqn:E1; cbn [of_option bind] in H; [|discriminate].
  destruct (read_varint r1) as [[slen r2]| |] eqn:E2; cbn [bind] in H; try discriminate.
  destruct (read_exactN slen r2) as [[sb r3]|] eqn:E3; cbn [of_option bind] in H; [|discriminate].
  destruct (from_bytes sb); cbn [bind] in H; try discriminate. inversion H; subst.
  apply read_le_consumes in E1. apply read_varint_consumes in E2. apply read_exactN_consumes in E3. lia.
Qed.

Lemma read32_padded_len bs : length (snd (read32_padded bs)) <= length bs.
Proof. unfold read32_padded. cbn [snd]. rewrite skipn_length. lia. Qed.

Lemma txin_read_consumes bs i r : txin_read bs = Ok (i, r) -> length r + 9 <= length bs.
Proof.
  unfold txin_read. intros H. pose proof (read32_padded_len bs) as H0.
  destruct (read32_padded bs) as [idle r0]. cbn [snd] in H0.
  destruct (read_le 4 r0) as [[vo r1]|] eqn:E1; cbn [of_option bind] in H; [|discriminate].
  destruct (read_varint r1) as [[slen r2]| |] eqn:E2; cbn [bind] in H; try discriminate.
  destruct (read_exactN slen r2) as [[sb r3]|] eqn:E3; cbn [of_option bind] in H; [|discriminate].
  destruct (read_le 4 r3) as [[sq r4]|] eqn:E4; cbn [of_option bind] in H; [|discriminate].
  apply read_le_consumes in E1. apply read_varint_consumes in E2. apply read_exactN_consumes in E3. apply read_le_consumes in E4.
  destruct (if is_coinbase_outpoint (rev idle) vo then Ok [BCoinbase sb] else from_bytes sb); cbn [bind] in H; try discriminate.
  inversion H; subst. lia.
Qed.

Lemma script_alloc_guard slen bs : (N.of_nat (length bs) < slen)%N -> read_exactN slen bs = None.
Proof. intros H. unfold read_exactN. replace (slen <=? N.of_nat (length bs))%N with false by lia. reflexivity. Qed.

Lemma read_many_bounded {A} (rd : bytes -> outcome (A * bytes)) (k : nat) :
  (forall bs a r, rd bs = Ok (a, r) -> length r + k <= length bs) ->
  forall f n bs l r, read_many rd f n bs = Ok (l, r) -> length r + k * length l <= length bs.
Proof.
  intros Hrd. induction f as [|f IH]; intros n bs l r; cbn [read_many]; destruct (n =? 0)%N.
  - intros H; inversion H; subst. cbn. lia.
  - discriminate.
  - intros H; inversion H; subst. cbn. lia.
  - destruct (rd bs) as [[a r1]| |] eqn:E; cbn [bind]; try discriminate.
    destruct (read_many rd f (n - 1) r1) as [[l' r']| |] eqn:E2; cbn [bind]; try discriminate.
    intros H; inversion H; subst. apply Hrd in E. apply IH in E2. cbn [length]. lia.
Qed.

Lemma tx_items_bounded bs t :
  tx_from_bytes bs = Ok t -> 9 * length (inputs t) + 9 * length (outputs t) <= length bs.
Proof.
  unfold tx_from_bytes. intros H.
  destruct (read_le 4 bs) as [[ver r0]|] eqn:E0; cbn [of_option bind] in H; [|discriminate].
  destruct (read_varint r0) as [[nin r1]| |] eqn:E1; cbn [bind] in H; try discriminate.
  destruct (read_many txin_read (S (length r1)) nin r1) as [[ins r2]| |] eqn:E2; cbn [bind] in H; try discriminate.
  destruct (read_varint r2) as [[nout r3]| |] eqn:E3; cbn [bind] in H; try discriminate.
  destruct (read_many txout_read (S (length r3)) nout r3) as [[outs r4]| |] eqn:E4; cbn [bind] in H; try discriminate.
  destruct (read_le 4 r4) as [[lt r5]|] eqn:E5; cbn [of_option bind] in H; [|discriminate].
  inversion H; subst. cbn [inputs outputs].
  apply read_le_consumes in E0. apply read_varint_consumes in E1. apply read_varint_consumes in E3.
  apply (read_many_bounded txin_read 9 txin_read_consumes) in E2.
  apply (read_many_bounded txout_read 9 txout_read_consumes) in E4. lia.
Qed.

(* the count loops never run out of fuel: with fuel > length input an Err is always a genuine read failure *)
Lemma read_many_fuel {A} (rd : bytes -> outcome (A * bytes)) :
  (forall bs a r, rd bs = Ok (a, r) -> length r < length bs) ->
  forall f1 f2 n bs, length bs < f1 -> length bs < f2 -> read_many rd f1 n bs = read_many rd f2 n bs.
Proof.
  intros Hrd. induction f1 as [|f1 IH]; intros f2 n bs H1 H2; [lia|].
  destruct f2 as [|f2]; [lia|]. cbn [read_many]. destruct (n =? 0)%N; [reflexivity|].
  destruct (rd bs) as [[a r]| |] eqn:E; cbn [bind]; try reflexivity.
  apply Hrd in E. rewrite (IH f2) by lia. reflexivity.
Qed.
