(* Proofs/EcdsaRefine.v — the model instance that is EXECUTED by the correspondence check ([fast_prims]: BigZ
   arithmetic inside) computes exactly what the instance the theorems are about ([ref_prims]: Z) computes, for
   every entry point of Model/Ecdsa.v and Model/Sig.v.  Consequence of Proofs/Secp256k1Refine.v; like it, this
   file depends on the standard library's Uint63 primitive-integer axioms (through Bignums) and on nothing else,
   which is why these statements are not among the pinned property theorems. *)
From BSV Require Import Base.Bytes Base.Hex.
From BSV Require Import Prim.Num Prim.Secp256k1 Prim.Rfc6979 Model.HashApi Model.Ecdsa Model.Sig Proofs.Secp256k1Refine.
Local Open Scope Z_scope.

Lemma pubkey_fast_refines d : pubkey_fast d = Secp256k1.pubkey d.
Proof. apply smul_BigZ_refines. Qed.

Lemma sign_core_refines sk ko z : sign_core fast_prims sk ko z = sign_core ref_prims sk ko z.
Proof.
  unfold sign_core. destruct ko as [k|]; [|reflexivity].
  cbn [p_sign fast_prims ref_prims]. rewrite prim_sign_BigZ_refines. reflexivity.
Qed.

Theorem sign_det_refines sk m a rk :
  sign_with_deterministic_k fast_prims sk m a rk = sign_with_deterministic_k ref_prims sk m a rk.
Proof. apply sign_core_refines. Qed.
Theorem sign_message_refines sk m : sign_message fast_prims sk m = sign_message ref_prims sk m.
Proof. apply sign_core_refines. Qed.
Theorem sign_digest_refines sk dg :
  sign_digest_with_deterministic_k fast_prims sk dg = sign_digest_with_deterministic_k ref_prims sk dg.
Proof. unfold sign_digest_with_deterministic_k. destruct (Nat.eqb (length dg) 32); [apply sign_core_refines | reflexivity]. Qed.
Theorem sign_with_k_refines sk ek m a : sign_with_k fast_prims sk ek m a = sign_with_k ref_prims sk ek m a.
Proof. apply sign_core_refines. Qed.
Theorem sign_random_refines sk m a rk e :
  sign_with_random_k fast_prims sk m a rk e = sign_with_random_k ref_prims sk m a rk e.
Proof. apply sign_core_refines. Qed.

Theorem to_public_key_refines sk : to_public_key fast_prims sk = to_public_key ref_prims sk.
Proof. unfold to_public_key. cbn [p_pubkey fast_prims ref_prims]. rewrite pubkey_fast_refines. reflexivity. Qed.

Theorem pubkey_from_bytes_refines bs : pubkey_from_bytes fast_prims bs = pubkey_from_bytes ref_prims bs.
Proof. unfold pubkey_from_bytes. cbn [p_decode fast_prims ref_prims]. rewrite sec1_decode_BigZ_refines. reflexivity. Qed.

Theorem verify_digest_refines m pk sg a : verify_digest fast_prims m pk sg a = verify_digest ref_prims m pk sg a.
Proof.
  unfold verify_digest. cbn [p_decode p_verify fast_prims ref_prims]. rewrite sec1_decode_BigZ_refines.
  destruct (sec1_decode (pk_point pk)); [rewrite prim_verify_BigZ_refines|]; reflexivity.
Qed.
Theorem verify_hashbuf_refines dg pk sg : verify_hashbuf fast_prims dg pk sg = verify_hashbuf ref_prims dg pk sg.
Proof.
  unfold verify_hashbuf. cbn [p_decode p_verify fast_prims ref_prims]. rewrite sec1_decode_BigZ_refines.
  destruct (Nat.eqb (length dg) 32); [|reflexivity].
  destruct (sec1_decode (pk_point pk)); [rewrite prim_verify_BigZ_refines|]; reflexivity.
Qed.
Theorem verify_message_refines sg m pk : verify_message fast_prims sg m pk = verify_message ref_prims sg m pk.
Proof. unfold verify_message. rewrite verify_digest_refines. reflexivity. Qed.

Theorem derive_shared_key_refines sk pk : derive_shared_key fast_prims sk pk = derive_shared_key ref_prims sk pk.
Proof.
  unfold derive_shared_key. cbn [p_decode p_ecdh fast_prims ref_prims]. rewrite sec1_decode_BigZ_refines.
  destruct (sec1_decode (pk_point pk)); [rewrite ecdh_BigZ_refines|]; reflexivity.
Qed.

Theorem recover_with_refines sg z : recover_with fast_prims sg z = recover_with ref_prims sg z.
Proof.
  unfold recover_with, recovers_identity. cbn [p_lift p_smul p_recover fast_prims ref_prims].
  destruct (sig_rec sg) as [ri|]; [|reflexivity].
  rewrite lift_x_BigZ_refines, recover_BigZ_refines.
  destruct (ri_x_reduced ri); [reflexivity|].
  replace (match lift_x (sig_r sg) (ri_y_odd ri) with
           | Some R => point_eqb (smul_fast (sig_s sg) R) (smul_fast z G)
           | None => false
           end)
    with (match lift_x (sig_r sg) (ri_y_odd ri) with
          | Some R => point_eqb (smul (sig_s sg) R) (smul z G)
          | None => false
          end)
    by (destruct (lift_x (sig_r sg) (ri_y_odd ri)); [rewrite !smul_BigZ_refines|]; reflexivity).
  destruct (match lift_x (sig_r sg) (ri_y_odd ri) with Some R => _ | None => false end); [reflexivity|].
  destruct (recover (sig_r sg) (sig_s sg) (ri_y_odd ri) z); cbn [bind]; [apply pubkey_from_bytes_refines | reflexivity | reflexivity].
Qed.
Theorem get_public_key_refines sg m a : get_public_key fast_prims sg m a = get_public_key ref_prims sg m a.
Proof. apply recover_with_refines. Qed.
Theorem get_public_key_from_digest_refines sg dg :
  get_public_key_from_digest fast_prims sg dg = get_public_key_from_digest ref_prims sg dg.
Proof.
  unfold get_public_key_from_digest. destruct (Nat.eqb (length dg) 32); [apply recover_with_refines | reflexivity].
Qed.

