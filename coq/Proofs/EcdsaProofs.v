(* Proofs/EcdsaProofs.v — theorems about the signing / verification / ECDH model (Model/Ecdsa.v), reference
   instance [ref_prims].

   * every signing entry point produces r in [1, n-1] and s in [1, n/2]            (unconditional)
   * the deterministic entry points are RFC 6979 (HMAC-SHA256) + textbook ECDSA + low-S, i.e. equal
     Spec/EcdsaSpec.v, for both nonce byte orders and both hash choices                 (unconditional)
   * signer and verifier compute the same message scalar, hence every produced signature verifies under
     the signer's public key in either compression form        (premise: secp256k1_group, Proofs/EcdsaSecp.v)
   * ECDH is symmetric and equals x((a*b) G)                                    (premise: secp256k1_group) *)
From BSV Require Import Base.Bytes Base.Hex.
From BSV Require Import Prim.Num Prim.Secp256k1 Prim.Sha256 Prim.Hmac Prim.Rfc6979 Prim.Rfc6979Inst.
From BSV Require Import Model.HashApi Model.Ecdsa Spec.EcdsaSpec.
From BSV Require Import Proofs.HashApiProofs Proofs.Secp256k1Proofs Proofs.EcdsaSecp.
Local Open Scope Z_scope.

Local Notation pub := Secp256k1.pubkey.

Definition valid_sk (sk : privkey) : Prop := 1 <= sk_d sk < secp_n.

(* ------------------------------------------------------------------ *)
(* RFC 6979 plumbing.                                                  *)
Section GenK.
  Variables h1 h2 : bytes -> bytes -> bytes.
  Hypothesis Hext : forall k m, h1 k m = h2 k m.

  Lemma drbg_init_ext x h d : drbg_init h1 x h d = drbg_init h2 x h d.
  Proof. unfold drbg_init. rewrite !Hext. reflexivity. Qed.

  Lemma drbg_next_ext KV : drbg_next h1 KV = drbg_next h2 KV.
  Proof. unfold drbg_next. destruct KV as [K V]. rewrite !Hext. reflexivity. Qed.

  Lemma gen_k_loop_ext fuel n : forall KV, gen_k_loop h1 fuel n KV = gen_k_loop h2 fuel n KV.
  Proof.
    induction fuel as [|f IH]; intros KV; cbn [gen_k_loop]; [reflexivity|].
    rewrite drbg_next_ext. destruct (drbg_next h2 KV) as [t KV'].
    destruct ((0 <? be_Z t) && (be_Z t <? n)); [reflexivity | apply IH].
  Qed.

  Lemma generate_k_ext x z d : generate_k h1 x z d = generate_k h2 x z d.
  Proof. unfold generate_k, generate_k_gen. rewrite drbg_init_ext. apply gen_k_loop_ext. Qed.
End GenK.

Lemma gen_k_loop_range h fuel n : forall KV k, gen_k_loop h fuel n KV = Some k -> 0 < k < n.
Proof.
  induction fuel as [|f IH]; intros KV k; cbn [gen_k_loop]; [discriminate|].
  destruct (drbg_next h KV) as [t KV'].
  destruct ((0 <? be_Z t) && (be_Z t <? n)) eqn:E.
  - intros E'. inversion E'; subst k. apply andb_true_iff in E. rewrite !Z.ltb_lt in E. exact E.
  - apply IH.
Qed.

Lemma generate_k_range h x z d k : generate_k h x z d = Some k -> 0 < k < secp_n.
Proof. unfold generate_k, generate_k_gen. apply gen_k_loop_range. Qed.

(* keep the kernel's conversion from unfolding the big primitives before the thin model wrappers *)
Strategy 1000 [generate_k prim_sign prim_verify sec1_decode sec1_encode Secp256k1.pubkey smul].

(* HMAC over the adapters / engine the code instantiates rfc6979 with *)
Lemma crate_mac_sha256r k m : crate_mac (adapter_impl ASha256r) k m = hmac_sha256 k m.
Proof. apply sha256r_hmac_spec. Qed.

Lemma message_digest_spec algo m :
  message_digest algo m = spec_digest (match algo with SHSha256d => true | SHSha256 => false end) m.
Proof.
  unfold message_digest, spec_digest. destruct algo; [apply get_hash_digest_sha256 | apply get_hash_digest_sha256d].
Qed.

Lemma le_Z_rev bs : le_Z bs = be_Z (rev bs).
Proof. unfold le_Z, be_Z, be_val. rewrite rev_involutive. reflexivity. Qed.

(* ------------------------------------------------------------------ *)
(* Ranges: low-S for every entry point.                                *)
Definition sig_low (sg : signature) : Prop :=
  1 <= sig_r sg < secp_n /\ 1 <= sig_s sg <= secp_n / 2.

Lemma sign_core_low sk ko z sg : sign_core ref_prims sk ko z = Ok sg -> sig_low sg.
Proof.
  unfold sign_core. destruct ko as [k|]; [|discriminate]. cbn [p_sign ref_prims].
  destruct (prim_sign (sk_d sk) k z) as [[[r s] v]|] eqn:E; [|discriminate].
  intros E'. inversion E'; subst sg; clear E'. unfold sig_low. cbn [sig_r sig_s].
  apply prim_sign_range in E. tauto.
Qed.

Theorem sign_det_low sk m a rk sg : sign_with_deterministic_k ref_prims sk m a rk = Ok sg -> sig_low sg.
Proof. apply sign_core_low. Qed.
Theorem sign_message_low sk m sg : sign_message ref_prims sk m = Ok sg -> sig_low sg.
Proof. apply sign_core_low. Qed.
Theorem sign_digest_low sk dg sg : sign_digest_with_deterministic_k ref_prims sk dg = Ok sg -> sig_low sg.
Proof.
  unfold sign_digest_with_deterministic_k. destruct (Nat.eqb (length dg) 32); [apply sign_core_low | discriminate].
Qed.
Theorem sign_with_k_low sk ek m a sg : sign_with_k ref_prims sk ek m a = Ok sg -> sig_low sg.
Proof. apply sign_core_low. Qed.
Theorem sign_random_low sk m a rk entropy sg : sign_with_random_k ref_prims sk m a rk entropy = Ok sg -> sig_low sg.
Proof. apply sign_core_low. Qed.

(* ------------------------------------------------------------------ *)
(* Deterministic signatures are RFC 6979 + ECDSA + low-S (Spec/EcdsaSpec.v).  *)
Definition rs_of (o : outcome signature) : outcome (Z * Z) := omap (fun sg => (sig_r sg, sig_s sg)) o.
Definition is_double (a : signing_hash) : bool := match a with SHSha256d => true | SHSha256 => false end.

Lemma sign_core_rs sk ko z :
  rs_of (sign_core ref_prims sk ko z) =
  of_option (match ko with
             | Some k => match prim_sign (sk_d sk) k z with Some (r, s, _) => Some (r, s) | None => None end
             | None => None
             end).
Proof.
  unfold sign_core, rs_of. destruct ko as [k|]; [|reflexivity]. cbn [p_sign ref_prims].
  destruct (prim_sign (sk_d sk) k z) as [[[r s] v]|]; reflexivity.
Qed.

Theorem sign_det_is_rfc6979 sk m a rk :
  rs_of (sign_with_deterministic_k ref_prims sk m a rk) = of_option (spec_sign_det prim_sign (sk_d sk) (is_double a) m rk).
Proof.
  unfold sign_with_deterministic_k. rewrite sign_core_rs. apply (f_equal of_option).
  unfold spec_sign_det, rfc6979_sign, det_nonce, rfc6979_k_sha256, bits2int, scalar_be, scalar_le.
  rewrite (generate_k_ext _ _ crate_mac_sha256r), message_digest_spec. fold (is_double a).
  destruct rk; [rewrite le_Z_rev|]; reflexivity.
Qed.

Theorem sign_message_is_rfc6979 sk m :
  rs_of (sign_message ref_prims sk m) = of_option (spec_sign_det prim_sign (sk_d sk) false m false).
Proof. apply (sign_det_is_rfc6979 sk m SHSha256 false). Qed.

Theorem sign_digest_is_rfc6979 sk dg :
  length dg = 32%nat ->
  rs_of (sign_digest_with_deterministic_k ref_prims sk dg) = of_option (spec_sign_digest prim_sign (sk_d sk) dg).
Proof.
  intros L. unfold sign_digest_with_deterministic_k. rewrite L. cbn [Nat.eqb]. rewrite sign_core_rs. apply (f_equal of_option).
  unfold spec_sign_digest, rfc6979_sign, rfc6979_k_sha256, bits2int, scalar_be.
  rewrite (generate_k_ext _ _ crate_mac_sha256r). reflexivity.
Qed.

Theorem sign_with_k_is_ecdsa sk ek m a :
  rs_of (sign_with_k ref_prims sk ek m a) = of_option (spec_sign_k prim_sign (sk_d sk) (sk_d ek) (is_double a) m).
Proof.
  unfold sign_with_k. rewrite sign_core_rs. apply (f_equal of_option).
  unfold spec_sign_k, bits2int, scalar_be. rewrite message_digest_spec. reflexivity.
Qed.

(* ------------------------------------------------------------------ *)
(* Completeness: what is signed verifies.                              *)
Section Group.
  Hypothesis H : secp256k1_group.

  Lemma pubkey_valid d : valid (pub d).
  Proof. apply (sg_mul_closed H). exact valid_G. Qed.

  Lemma pubkey_nonzero d : 1 <= d < secp_n -> pub d <> None.
  Proof.
    intros Hd E. apply (sg_order_exact H) in E. rewrite Z.mod_small in E by lia. lia.
  Qed.

  (* SEC1 round trip of a valid non-identity point, both forms *)
  Lemma sec1_roundtrip_valid c P : valid P -> P <> None -> sec1_decode (sec1_encode c P) = Some P.
  Proof.
    intros V N. pose proof (sg_lift H P V N) as L.
    destruct P as [[x y]|]; [|congruence].
    unfold valid, validb in V. apply andb_true_iff in V. destruct V as [V Hc].
    apply andb_true_iff in V. destruct V as [Hx Hy]. apply in_field_spec in Hx, Hy.
    destruct c; [|apply sec1_roundtrip_uncompressed; assumption].
    pose proof secp_p_lt as Lp. unfold xcoord, yodd, ycoord in L.
    unfold sec1_decode, sec1_encode, sec1_decode_g.
    destruct (Z.odd y) eqn:Eo.
    - change (byte_eqb x03 x02 || byte_eqb x03 x03) with true. change (byte_eqb x03 x03) with true.
      cbv iota. rewrite be32_length, be_Z_be32 by lia. change (Nat.eqb 32 32) with true. cbv iota.
      exact L.
    - change (byte_eqb x02 x02 || byte_eqb x02 x03) with true. change (byte_eqb x02 x03) with false.
      cbv iota. rewrite be32_length, be_Z_be32 by lia. change (Nat.eqb 32 32) with true. cbv iota.
      exact L.
  Qed.

  Lemma decode_own_pubkey sk :
    valid_sk sk -> p_decode ref_prims (pk_point (to_public_key ref_prims sk)) = Some (pub (sk_d sk)).
  Proof.
    intros V. cbn [p_decode ref_prims to_public_key pk_point p_pubkey].
    apply sec1_roundtrip_valid; [apply pubkey_valid | apply pubkey_nonzero; exact V].
  Qed.

  Lemma sign_core_verifies sk ko z sg :
    (forall k, ko = Some k -> 0 < k < secp_n) ->
    sign_core ref_prims sk ko z = Ok sg ->
    prim_verify (pub (sk_d sk)) z (sig_r sg, sig_s sg) = true.
  Proof.
    intros Hk. unfold sign_core. destruct ko as [k|]; [|discriminate]. cbn [p_sign ref_prims].
    destruct (prim_sign (sk_d sk) k z) as [[[r s] v]|] eqn:E; [|discriminate].
    intros E'. inversion E'; subst sg; clear E'. cbn [sig_r sig_s].
    apply (secp_ecdsa_correct H (sk_d sk) k z r s v); [apply Hk; reflexivity | exact E].
  Qed.

  Lemma verify_digest_of sk m a sg :
    valid_sk sk ->
    prim_verify (pub (sk_d sk)) (scalar_be (message_digest a m)) (sig_r sg, sig_s sg) = true ->
    verify_digest ref_prims m (to_public_key ref_prims sk) sg a = Ok true.
  Proof.
    intros V E. unfold verify_digest. rewrite (decode_own_pubkey sk V). cbn [p_verify ref_prims]. rewrite E. reflexivity.
  Qed.

  Theorem sign_det_verifies sk m a rk sg :
    valid_sk sk -> sign_with_deterministic_k ref_prims sk m a rk = Ok sg ->
    verify_digest ref_prims m (to_public_key ref_prims sk) sg a = Ok true.
  Proof.
    intros V E. apply verify_digest_of; [exact V|].
    unfold sign_with_deterministic_k in E.
    apply sign_core_verifies in E; [exact E|].
    intros k Ek. unfold det_nonce in Ek. exact (generate_k_range _ _ _ _ _ Ek).
  Qed.

  Theorem sign_message_verifies sk m sg :
    valid_sk sk -> sign_message ref_prims sk m = Ok sg ->
    verify_message ref_prims sg m (to_public_key ref_prims sk) = true.
  Proof.
    intros V E. unfold verify_message. unfold sign_message in E.
    rewrite (sign_det_verifies sk m SHSha256 false sg V E). reflexivity.
  Qed.

  Theorem sign_digest_verifies sk dg sg :
    valid_sk sk -> sign_digest_with_deterministic_k ref_prims sk dg = Ok sg ->
    verify_hashbuf ref_prims dg (to_public_key ref_prims sk) sg = Ok true.
  Proof.
    intros V. unfold sign_digest_with_deterministic_k, verify_hashbuf.
    destruct (Nat.eqb (length dg) 32); [|discriminate]. intros E.
    rewrite (decode_own_pubkey sk V). cbn [p_verify ref_prims].
    apply sign_core_verifies in E; [rewrite E; reflexivity|].
    intros k Ek. exact (generate_k_range _ _ _ _ _ Ek).
  Qed.

  Theorem sign_with_k_verifies sk ek m a sg :
    valid_sk sk -> valid_sk ek -> sign_with_k ref_prims sk ek m a = Ok sg ->
    verify_digest ref_prims m (to_public_key ref_prims sk) sg a = Ok true.
  Proof.
    intros V Ve E. apply verify_digest_of; [exact V|].
    unfold sign_with_k in E.
    apply sign_core_verifies in E; [exact E|].
    intros k Ek. inversion Ek; subst k. unfold valid_sk in Ve. lia.
  Qed.

  (* for EVERY value of the OS entropy *)
  Theorem sign_random_verifies sk m a rk entropy sg :
    valid_sk sk -> sign_with_random_k ref_prims sk m a rk entropy = Ok sg ->
    verify_digest ref_prims m (to_public_key ref_prims sk) sg a = Ok true.
  Proof.
    intros V E. apply verify_digest_of; [exact V|].
    unfold sign_with_random_k in E.
    apply sign_core_verifies in E; [exact E|].
    intros k Ek. exact (generate_k_range _ _ _ _ _ Ek).
  Qed.

  (* the compression flag of the key does not enter *)
  Theorem verify_compression_irrelevant sk c m a sg :
    valid_sk sk ->
    verify_digest ref_prims m (to_public_key ref_prims (compress_public_key sk c)) sg a =
    verify_digest ref_prims m (to_public_key ref_prims sk) sg a.
  Proof.
    intros V. unfold verify_digest.
    rewrite (decode_own_pubkey sk V), (decode_own_pubkey (compress_public_key sk c) V). reflexivity.
  Qed.

  (* ---------------------------------------------------------------- *)
  (* ECDH *)
  Theorem ecdh_shared_point a b :
    valid_sk a -> valid_sk b ->
    derive_shared_key ref_prims a (to_public_key ref_prims b) = Ok (be32 (xcoord (smul (sk_d a * sk_d b) G))).
  Proof.
    intros Va Vb. unfold derive_shared_key. rewrite (decode_own_pubkey b Vb).
    cbn [p_ecdh ref_prims]. unfold ecdh, ecdh_g, Secp256k1.pubkey.
    rewrite <- (sg_mul_mul H _ _ G valid_G). reflexivity.
  Qed.

  Theorem ecdh_symmetric_keys a b :
    valid_sk a -> valid_sk b ->
    derive_shared_key ref_prims a (to_public_key ref_prims b) = derive_shared_key ref_prims b (to_public_key ref_prims a).
  Proof.
    intros Va Vb. rewrite (ecdh_shared_point a b Va Vb), (ecdh_shared_point b a Vb Va), Z.mul_comm. reflexivity.
  Qed.
End Group.
