(* Proofs/InterpSigFamilies.v — C15, part 4: Interpreter::from_transaction + run on the three families
   (P2PK, P2PKH, m-of-n multisig; OP_CODESEPARATOR at any top-level position; CHECKSIG / CHECKSIGVERIFY OP_1 /
   CHECKMULTISIG / CHECKMULTISIGVERIFY OP_1; push-only unlocking scripts):
   the run ends with the single element `01` on the stack exactly when the specification (Spec/SpendSpec.v) calls the
   signatures valid; otherwise it ends in an error or with a false element — never in a panic. *)
From BSV Require Import Base.Bytes Base.Hex.
From BSV Require Import Prim.Num Prim.Secp256k1 Prim.Der Prim.Sha256 Prim.Ripemd160.
From BSV Require Import Model.Opcodes Model.Script Model.VarInt Model.Tx Model.HashApi Model.Sighash Model.Ecdsa Model.Sig
  Model.Interp Model.InterpSig.
From BSV Require Import Spec.ScriptTok Spec.SighashWire Spec.LegacySighash Spec.SpendSpec.
From BSV Require Import Proofs.ScriptProofs Proofs.SighashProofs Proofs.LegacyProofs Proofs.HashApiProofs Proofs.InterpTotal
  Proofs.InterpSigProofs Proofs.InterpSigOps Proofs.InterpSigRun.
Local Open Scope list_scope.
Local Open Scope nat_scope.

Notation mopc := (match_opcode txctx sig_preimage (sig_verify ref_prims)).
Notation runf := (run_fuel txctx sig_preimage (sig_verify ref_prims)).
Notation spend_ref := (spend ref_prims).

(* outcomes of a spend *)
Definition accepts (r : outcome (run_result txctx)) : Prop :=
  exists j, r = Ok (RunOk j) /\ stack (istate j) = [[x01]].
Definition rejects (r : outcome (run_result txctx)) : Prop :=
  r = Err \/ (exists j, r = Ok (RunErr j)) \/ (exists j, r = Ok (RunOk j) /\ stack (istate j) = [[]]).

Lemma accepts_not_rejects r : accepts r -> ~ rejects r.
Proof.
  intros (j & -> & Hs) [H|[(j' & H)|(j' & H & Hs')]]; try discriminate.
  inversion H; subst j'. rewrite Hs in Hs'. discriminate.
Qed.

(* ------------------------------------------------------------------ *)
(* fuel: a script without conditionals needs one step per element *)
Definition noif (b : bit) : bool := match b with BIf _ _ _ => false | _ => true end.
Lemma bits_size_noif s : forallb noif s = true -> bits_size s = length s.
Proof.
  induction s as [|b r IH]; [reflexivity|]. cbn [forallb bits_size length]. intros H.
  apply andb_true_iff in H. destruct H as [Hb Hr]. rewrite (IH Hr).
  destruct b; cbn [noif] in Hb; try discriminate; reflexivity.
Qed.
Lemma pre_bit_noif b : pre_bit b = true -> noif b = true.
Proof. destruct b; cbn; try reflexivity. discriminate. Qed.
Lemma pre_bits_noif s : forallb pre_bit s = true -> forallb noif s = true.
Proof.
  induction s as [|b r IH]; [reflexivity|]. cbn [forallb]. intros H. apply andb_true_iff in H. destruct H as [Hb Hr].
  rewrite (pre_bit_noif b Hb), (IH Hr). reflexivity.
Qed.

Lemma remove_seps_app a b : remove_seps (a ++ b) = remove_seps a ++ remove_seps b.
Proof. apply filter_app. Qed.
Lemma remove_seps_nosep u : has_sep u = false -> remove_seps u = u.
Proof.
  induction u as [|b r IH]; [reflexivity|]. cbn [has_sep existsb remove_seps filter]. intros H.
  apply orb_false_iff in H. destruct H as [Hb Hr]. rewrite Hb. cbn [negb]. f_equal. exact (IH Hr).
Qed.

Lemma skipn_straight n s : straight s = true -> straight (skipn n s) = true.
Proof.
  intros H. rewrite <- (firstn_skipn n s) in H. rewrite straight_app in H. apply andb_true_iff in H. tauto.
Qed.

Lemma pre_not_chk b : pre_bit b = true -> is_chk b = false.
Proof.
  unfold pre_bit, is_simple. destruct b as [o| | | |]; cbn [is_sep simple_fn is_chk]; try reflexivity.
  destruct (o =? 171)%N eqn:E1; [apply N.eqb_eq in E1; subst; reflexivity|]. cbn [orb].
  destruct (o =? 0)%N eqn:E0; [apply N.eqb_eq in E0; subst; reflexivity|].
  destruct ((81 <=? o)%N && (o <=? 96)%N) eqn:E2.
  { apply andb_true_iff in E2. destruct E2 as [A B]. apply N.leb_le in A. apply N.leb_le in B. intros _.
    repeat (apply orb_false_iff; split); apply N.eqb_neq; lia. }
  destruct (o =? 118)%N eqn:E3; [apply N.eqb_eq in E3; subst; reflexivity|].
  destruct (o =? 169)%N eqn:E4; [apply N.eqb_eq in E4; subst; reflexivity|].
  destruct (o =? 136)%N eqn:E5; [apply N.eqb_eq in E5; subst; reflexivity|]. discriminate.
Qed.
Lemma pre_bits_no_chk p : forallb pre_bit p = true -> forallb (fun b => negb (is_chk b)) p = true.
Proof.
  induction p as [|b r IH]; [reflexivity|]. cbn [forallb]. intros H. apply andb_true_iff in H.
  destruct H as [Hb Hr]. rewrite (pre_not_chk b Hb), (IH Hr). reflexivity.
Qed.
Lemma sep_pos_le p : sep_pos p <= length p.
Proof.
  induction p as [|b r IH]; [reflexivity|].
  cbn [sep_pos length]. destruct (has_sep r); [lia|]. destruct (is_sep b); lia.
Qed.

Lemma run_fuel_S f (j : interp txctx) :
  runf (S f) j = match next_impl txctx sig_preimage (sig_verify ref_prims) j with
                 | StepNone i' => RunOk i'
                 | StepOk i' => runf f i'
                 | StepErr i' => RunErr i'
                 | StepPanic => RunPanic
                 end.
Proof. reflexivity. Qed.

Lemma step_check bits k st tx c0 :
  nth_error bits k = Some (BOp c0) ->
  next_impl txctx sig_preimage (sig_verify ref_prims) (mkInterp bits k st tx) =
    match mopc k c0 st tx with
    | Ok st2 => StepOk (mkInterp bits (k + 1) (push_executed st2 c0) tx)
    | Err => StepErr (mkInterp bits k (push_executed st c0) tx)
    | Panic => StepPanic
    end.
Proof.
  intros H. unfold Interp.next_impl. cbn [script_bits script_index]. rewrite H.
  cbn [match_script_bit istate script_index tx_script].
  destruct (mopc k c0 st tx); reflexivity.
Qed.

Lemma step_end bits k st tx :
  nth_error bits k = None ->
  next_impl txctx sig_preimage (sig_verify ref_prims) (mkInterp bits k st tx) = StepNone (mkInterp bits k (set_finished st) tx).
Proof. intros H. unfold Interp.next_impl. cbn [script_bits script_index]. rewrite H. reflexivity. Qed.

(* ------------------------------------------------------------------ *)
(* the generic shape: unlocking u, locking pA ++ BOp chk :: pB *)
Section Family.
  Variables (t : tx) (idx : nat) (i : txin) (v : N).
  Variables (pA pB : list bit) (chk : N).
  Let u := unlocking i.
  Let l := pA ++ BOp chk :: pB.
  Let c := mk_ctx t idx.
  Let bits := u ++ l.
  Let K := length (u ++ pA).
  Hypothesis Hin : nth_error (inputs t) idx = Some i.
  Hypothesis Hlock : locking i = Some l.
  Hypothesis Hsat : satoshis i = Some v.
  Hypothesis Hu : straight u = true.
  Hypothesis Hl : straight l = true.
  Hypothesis HuP : forallb pre_bit u = true.
  Hypothesis Hunosep : has_sep u = false.
  Hypothesis HpA : forallb pre_bit pA = true.
  Hypothesis HpB : forallb pre_bit pB = true.
  Hypothesis Hchk : is_chk (BOp chk) = true.

  Lemma pA_no_chk : forallb (fun b => negb (is_chk b)) pA = true.
  Proof. exact (pre_bits_no_chk pA HpA). Qed.

  Lemma straight_pA : straight pA = true.
  Proof. unfold l in Hl. rewrite straight_app in Hl. apply andb_true_iff in Hl. tauto. Qed.
  Lemma straight_chk : straight_bit (BOp chk) = true.
  Proof.
    unfold l in Hl. rewrite straight_app in Hl. apply andb_true_iff in Hl. destruct Hl as [_ H].
    cbn [straight forallb] in H. apply andb_true_iff in H. tauto.
  Qed.

  Lemma from_tx : from_transaction t idx = Ok (from_script_bits txctx bits (Some c)).
  Proof. unfold from_transaction. rewrite Hin. rewrite (finalised_straight i l Hlock Hu Hl). reflexivity. Qed.

  Lemma bits_noif : forallb noif bits = true.
  Proof.
    unfold bits, l. rewrite !forallb_app. cbn [forallb noif].
    rewrite (pre_bits_noif u HuP), (pre_bits_noif pA HpA), (pre_bits_noif pB HpB). reflexivity.
  Qed.

  Lemma nth_bits_front : forall j b, nth_error (u ++ pA) j = Some b -> nth_error bits (0 + j) = Some b.
  Proof.
    intros j b Hj. unfold bits, l. rewrite app_assoc. cbn [Nat.add]. rewrite nth_error_app1; [exact Hj|].
    apply nth_error_Some. congruence.
  Qed.
  Lemma nth_bits_chk : nth_error bits K = Some (BOp chk).
  Proof.
    unfold bits, l, K. rewrite app_assoc. rewrite nth_error_app2 by lia. rewrite Nat.sub_diag. reflexivity.
  Qed.
  Lemma nth_bits_back : forall j b, nth_error pB j = Some b -> nth_error bits (S K + j) = Some b.
  Proof.
    intros j b Hj. unfold bits, l, K. rewrite app_assoc. rewrite nth_error_app2 by lia.
    replace (S (length (u ++ pA)) + j - length (u ++ pA)) with (S j) by lia. exact Hj.
  Qed.
  Lemma bits_length : length bits = K + S (length pB).
  Proof. unfold bits, l, K. rewrite !app_length. cbn [length]. lia. Qed.

  (* the state in front of the signature check *)
  Lemma before_check s1 :
    stack_exec (remove_seps (u ++ pA)) [] = Ok s1 ->
    exists st1, exec 0 (u ++ pA) default_state = Ok st1 /\ stack st1 = s1 /\ alt_stack st1 = [] /\
                codesep st1 - length u = sep_pos pA.
  Proof.
    intros Hs. assert (Hp : forallb pre_bit (u ++ pA) = true) by (rewrite forallb_app, HuP, HpA; reflexivity).
    pose proof (exec_fields (u ++ pA) 0 default_state Hp) as Hf. cbn [stack default_state] in Hf. rewrite Hs in Hf.
    destruct (exec 0 (u ++ pA) default_state) as [st1| |]; try discriminate.
    destruct Hf as (E1 & E2 & _ & E4). exists st1. repeat split.
    - inversion E1. reflexivity.
    - exact E2.
    - rewrite E4. cbn [codesep default_state]. apply offset_after. exact Hunosep.
  Qed.

  (* the script code the check sees is the specification's *)
  Lemma code_at_check st1 :
    codesep st1 - length u = sep_pos pA ->
    flatten (skipn (codesep st1 - length (unlocking i)) l) = script_code (flatten l).
  Proof.
    intros E. fold u. rewrite E. rewrite (straight_flatten l Hl).
    rewrite (straight_flatten _ (skipn_straight (sep_pos pA) l Hl)).
    unfold l. symmetry. apply subscript_spec; [exact straight_pA|exact pA_no_chk|exact Hchk|exact straight_chk].
  Qed.

  Lemma offset_in_range st1 : codesep st1 - length u = sep_pos pA -> codesep st1 - length (unlocking i) <= length l.
  Proof.
    intros E. fold u. rewrite E. unfold l. rewrite app_length.
    pose proof (sep_pos_le pA). lia.
  Qed.

  (* the three phases *)
  Lemma run_phases s1 :
    stack_exec (remove_seps (u ++ pA)) [] = Ok s1 ->
    exists st1, stack st1 = s1 /\ alt_stack st1 = [] /\ codesep st1 - length u = sep_pos pA /\
      match mopc K chk st1 (Some c) with
      | Ok st2 =>
          match stack_exec (remove_seps pB) (stack st2) with
          | Ok s3 => exists j, spend_ref t idx = Ok (RunOk j) /\ stack (istate j) = s3
          | Err => exists j, spend_ref t idx = Ok (RunErr j)
          | Panic => True
          end
      | Err => exists j, spend_ref t idx = Ok (RunErr j)
      | Panic => True
      end.
  Proof.
    intros Hs. destruct (before_check s1 Hs) as (st1 & Hex & Hst & Halt & Hcs).
    exists st1. split; [exact Hst|]. split; [exact Halt|]. split; [exact Hcs|].
    unfold spend. rewrite from_tx. cbn [bind]. unfold run_tx, Interp.run.
    unfold remaining, from_script_bits. cbn [script_index script_bits skipn]. rewrite (bits_size_noif bits bits_noif), bits_length.
    assert (Hp : forallb pre_bit (u ++ pA) = true) by (rewrite forallb_app, HuP, HpA; reflexivity).
    pose proof (run_exec ref_prims (u ++ pA) bits 0 default_state (Some c) (S (S (length pB))) nth_bits_front Hp) as H1.
    rewrite Hex in H1. fold K in H1. cbn [Nat.add] in H1.
    replace (S (K + S (length pB))) with (K + S (S (length pB))) by lia. rewrite H1.
    (* the check *)
    rewrite run_fuel_S, (step_check bits K st1 (Some c) chk nth_bits_chk).
    destruct (mopc K chk st1 (Some c)) as [st2| |]; [| eexists; reflexivity | exact I].
    pose proof (run_exec ref_prims pB bits (K + 1) (push_executed st2 chk) (Some c) 0) as H3.
    pose proof (run_exec ref_prims pB bits (K + 1) (push_executed st2 chk) (Some c) 1) as H4.
    replace (K + 1) with (S K) in * by lia. specialize (H3 nth_bits_back HpB). specialize (H4 nth_bits_back HpB).
    pose proof (exec_fields pB (S K) (push_executed st2 chk) HpB) as Hf. cbn [stack push_executed] in Hf.
    destruct (exec (S K) pB (push_executed st2 chk)) as [st3| |].
    - destruct Hf as (E1 & _). rewrite E1.
      replace (S (length pB)) with (length pB + 1) by lia. rewrite H4.
      rewrite run_fuel_S, step_end by (apply nth_error_None; rewrite bits_length; lia).
      eexists. split; [reflexivity|]. reflexivity.
    - rewrite Hf. destruct H3 as (j & H3). exists j. rewrite <- H3. do 2 f_equal. lia.
    - rewrite Hf. exact I.
  Qed.

  Lemma run_front_err :
    stack_exec (remove_seps (u ++ pA)) [] = Err -> exists j, spend_ref t idx = Ok (RunErr j).
  Proof.
    intros Hs. assert (Hp : forallb pre_bit (u ++ pA) = true) by (rewrite forallb_app, HuP, HpA; reflexivity).
    pose proof (exec_fields (u ++ pA) 0 default_state Hp) as Hf. cbn [stack default_state] in Hf. rewrite Hs in Hf.
    unfold spend. rewrite from_tx. cbn [bind]. unfold run_tx, Interp.run.
    unfold remaining, from_script_bits. cbn [script_index script_bits skipn]. rewrite (bits_size_noif bits bits_noif), bits_length.
    pose proof (run_exec ref_prims (u ++ pA) bits 0 default_state (Some c) (S (length pB)) nth_bits_front Hp) as H1.
    destruct (exec 0 (u ++ pA) default_state) as [st1| |]; [destruct Hf as (E & _); discriminate| |discriminate].
    destruct H1 as (j & H1). exists j. fold K in H1. rewrite <- H1. do 2 f_equal. lia.
  Qed.
End Family.

(* ------------------------------------------------------------------ *)
(* cutting a locking script at its signature check *)
Lemma filter_split {A} (f : A -> bool) (l : list A) : forall a x b,
  filter f l = a ++ x :: b -> exists l1 l2, l = l1 ++ x :: l2 /\ filter f l1 = a /\ filter f l2 = b.
Proof.
  induction l as [|y l IH]; intros a x b E; cbn [filter] in E.
  - destruct a; discriminate.
  - destruct (f y) eqn:Ey.
    + destruct a as [|a0 a].
      * cbn [app] in E. inversion E; subst. exists [], l. repeat split; reflexivity.
      * cbn [app] in E. inversion E; subst. destruct (IH a x b H1) as (l1 & l2 & -> & F1 & F2).
        exists (a0 :: l1), l2. repeat split; [|exact F2]. cbn [filter]. rewrite Ey, F1. reflexivity.
    + destruct (IH a x b E) as (l1 & l2 & -> & F1 & F2). exists (y :: l1), l2. repeat split; [|exact F2].
      cbn [filter]. rewrite Ey. exact F1.
Qed.

Lemma pre_bits_of_core p : straight p = true -> forallb is_simple (remove_seps p) = true -> forallb pre_bit p = true.
Proof.
  induction p as [|b r IH]; [reflexivity|]. cbn [straight forallb remove_seps filter]. intros Hs Hc.
  apply andb_true_iff in Hs. destruct Hs as [Hb Hr]. unfold pre_bit at 1.
  destruct (is_sep b) eqn:Eb; cbn [negb orb] in *.
  - exact (IH Hr Hc).
  - cbn [forallb] in Hc. apply andb_true_iff in Hc. destruct Hc as [Hc1 Hc2]. rewrite Hc1. exact (IH Hr Hc2).
Qed.

Lemma sf_push d : simple_fn (BPush d) = Some (fun s => Ok (s ++ [d])).
Proof. reflexivity. Qed.

Lemma stack_exec_app a b s : stack_exec (a ++ b) s = (do s' <- stack_exec a s; stack_exec b s').
Proof.
  revert s. induction a as [|x a IH]; intros s; [reflexivity|]. cbn [app stack_exec].
  destruct (simple_fn x) as [f|]; [|reflexivity]. destruct (f s) as [s'| |]; cbn [bind]; [apply IH|reflexivity|reflexivity].
Qed.
Lemma stack_exec_pushes ds s : stack_exec (map BPush ds) s = Ok (s ++ ds).
Proof.
  revert s. induction ds as [|d ds IH]; intros s; cbn [map stack_exec]; [rewrite app_nil_r; reflexivity|].
  rewrite sf_push. cbn [bind]. rewrite IH, <- app_assoc. reflexivity.
Qed.

Lemma push_number_small (s : list bytes) k : 1 <= k <= 16 -> push_number (Z.of_nat k) s = Ok (s ++ [small_num k]).
Proof.
  intros Hk. do 17 (destruct k as [|k]; [try lia; try reflexivity|]). lia.
Qed.

Lemma simple_pre p : forallb (fun b => is_simple b && negb (is_sep b)) p = true -> forallb pre_bit p = true.
Proof.
  induction p as [|b r IH]; [reflexivity|]. cbn [forallb]. intros H. apply andb_true_iff in H.
  destruct H as [Hb Hr]. apply andb_true_iff in Hb. destruct Hb as [Hb _]. unfold pre_bit. rewrite Hb, orb_true_r.
  exact (IH Hr).
Qed.

(* ------------------------------------------------------------------ *)
(* families that end in OP_CHECKSIG / OP_CHECKSIGVERIFY OP_1 with [sig; key] on the stack *)
Section ChecksigFamily.
  Variables (t : tx) (idx : nat) (i : txin) (v : N) (l : list bit) (sg pk : bytes).
  Variable coreA : list bit.                     (* the locking script in front of the check, separators erased *)
  Variable vf : bool.                            (* OP_CHECKSIGVERIFY OP_1 instead of OP_CHECKSIG *)
  Let u := unlocking i.
  Hypothesis Hin : nth_error (inputs t) idx = Some i.
  Hypothesis Hlock : locking i = Some l.
  Hypothesis Hsat : satoshis i = Some v.
  Hypothesis Hu : straight u = true.
  Hypothesis Hl : straight l = true.
  Hypothesis HuP : forallb (fun b => is_simple b && negb (is_sep b)) u = true.
  Hypothesis Hcore : remove_seps l = coreA ++ (if vf then [BOp 173; BOp 81] else [BOp 172]).
  Hypothesis HcoreA : forallb is_simple coreA = true.
  Let Vspec := spec_sig_valid (view_tx t) idx (script_code (flatten l)) v sg pk = true.

  Lemma u_pre : forallb pre_bit u = true.
  Proof. exact (simple_pre u HuP). Qed.

  Theorem checksig_family :
    outside_flag sg = false ->
    match stack_exec (u ++ coreA) [] with
    | Ok s1 => s1 = [sg; pk] -> (Vspec -> accepts (spend_ref t idx)) /\ (~ Vspec -> rejects (spend_ref t idx))
    | Err => rejects (spend_ref t idx)
    | Panic => True
    end.
  Proof.
    intros Hout.
    set (chk := if vf then 173%N else 172%N).
    set (coreB := if vf then [BOp 81] else @nil bit).
    assert (Hcore' : remove_seps l = coreA ++ BOp chk :: coreB) by (rewrite Hcore; unfold chk, coreB; destruct vf; reflexivity).
    destruct (filter_split _ l _ _ _ Hcore') as (pA & pB & El & FA & FB). fold (remove_seps pA) in FA. fold (remove_seps pB) in FB.
    assert (HsA : straight pA = true /\ straight pB = true).
    { rewrite El, straight_app in Hl. apply andb_true_iff in Hl. destruct Hl as [H1 H2].
      cbn [straight forallb] in H2. apply andb_true_iff in H2. tauto. }
    destruct HsA as [HsA HsB].
    assert (HpA : forallb pre_bit pA = true) by (apply pre_bits_of_core; [exact HsA|rewrite FA; exact HcoreA]).
    assert (HpB : forallb pre_bit pB = true) by (apply pre_bits_of_core; [exact HsB|rewrite FB; unfold coreB; destruct vf; reflexivity]).
    assert (Hchk : is_chk (BOp chk) = true) by (unfold chk; destruct vf; reflexivity).
    assert (Hnosep : has_sep u = false) by (apply no_sep_pushes; exact HuP).
    rewrite El in Hlock, Hl.
    assert (Efront : remove_seps (u ++ pA) = u ++ coreA) by (rewrite remove_seps_app, (remove_seps_nosep u Hnosep), FA; reflexivity).
    pose proof (run_phases t idx i pA pB chk Hin Hlock Hu Hl u_pre Hnosep HpA HpB) as Hrun.
    pose proof (run_front_err t idx i pA pB chk Hin Hlock Hu Hl u_pre HpA HpB) as Herr.
    fold u in Hrun, Herr. rewrite Efront in Hrun, Herr.
    destruct (stack_exec (u ++ coreA) []) as [s1| |] eqn:Es1; [|right; left; apply Herr; reflexivity|exact I].
    intros ->. destruct (Hrun [sg; pk] eq_refl) as (st1 & Hst & Halt & Hcs & Hm). clear Hrun Herr.
    (* the check on st1 *)
    set (c := mk_ctx t idx) in *.
    assert (Hoff := offset_in_range i pA pB chk st1 Hcs).
    assert (Hcode := code_at_check i pA pB chk Hl HpA Hchk st1 Hcs).
    assert (Hplain : plain_bits (pA ++ BOp chk :: pB) = true) by (apply straight_plain; exact Hl).
    assert (Hst' : stack st1 = [] ++ [sg; pk]) by exact Hst.
    pose proof (checksig_accept_iff c i (pA ++ BOp chk :: pB) v st1 Hin Hlock Hsat Hoff Hplain [] sg pk Hst' Hout) as Hiff.
    pose proof (checksig_shape c st1 [] sg pk Hst') as Hshape.
    rewrite Hcode in Hiff. rewrite <- El in Hiff. fold Vspec in Hiff.
    rewrite FB in Hm. unfold chk, coreB in Hm.
    destruct vf.
    - (* OP_CHECKSIGVERIFY OP_1 *)
      cbn [Interp.match_opcode] in Hm. unfold op_checksigverify in Hm.
      destruct Hshape as [Hs|(b & Hs)]; rewrite Hs in Hm; cbn [bind] in Hm.
      + split; [intros HV; apply Hiff in HV; congruence|intros _; right; left; exact Hm].
      + destruct b; cbn [verify bind] in Hm.
        * cbn [stack with_stack stack_exec] in Hm.
          change (simple_fn (BOp 81)) with (Some (push_number (Z.of_N 81 - 80))) in Hm.
          change (push_number (Z.of_N 81 - 80) []) with (Ok [[x01]]) in Hm. cbn [bind] in Hm.
          split; [intros _; destruct Hm as (j & Hj & Hs'); exists j; split; assumption|].
          intros HV. exfalso. apply HV. apply Hiff. exact Hs.
        * split; [intros HV; apply Hiff in HV; congruence|intros _; right; left; exact Hm].
    - (* OP_CHECKSIG *)
      cbn [Interp.match_opcode] in Hm. unfold op_checksig in Hm.
      destruct Hshape as [Hs|(b & Hs)]; rewrite Hs in Hm; cbn [bind] in Hm.
      + split; [intros HV; apply Hiff in HV; congruence|intros _; right; left; exact Hm].
      + unfold lift_stack, push_bool in Hm. cbn [bind stack with_stack stack_exec app] in Hm.
        destruct b.
        * split; [intros _; destruct Hm as (j & Hj & Hs'); exists j; split; assumption|].
          intros HV. exfalso. apply HV. apply Hiff. exact Hs.
        * split; [intros HV; apply Hiff in HV; congruence|].
          intros _. right; right. destruct Hm as (j & Hj & Hs'). exists j. split; assumption.
  Qed.
End ChecksigFamily.

(* ------------------------------------------------------------------ *)
(* P2PK and P2PKH *)
Lemma sf_dup : simple_fn (BOp 118) = Some dup_fn. Proof. reflexivity. Qed.
Lemma sf_hash160 : simple_fn (BOp 169) = Some hash160_fn. Proof. reflexivity. Qed.
Lemma sf_equalverify : simple_fn (BOp 136) = Some equalverify_fn. Proof. reflexivity. Qed.

Lemma straight_push d : 1 <= length d <= 75 -> straight_bit (BPush d) = true.
Proof. intros [H1 H2]. cbn [straight_bit]. apply andb_true_iff. split; apply Nat.leb_le; assumption. Qed.

Section P2PK.
  Variables (t : tx) (idx : nat) (i : txin) (v : N) (l : list bit) (sg pk : bytes) (vf : bool).
  Hypothesis Hin : nth_error (inputs t) idx = Some i.
  Hypothesis Hlock : locking i = Some l.
  Hypothesis Hsat : satoshis i = Some v.
  Hypothesis Hun : unlocking i = [BPush sg].
  Hypothesis Hsg : 1 <= length sg <= 75.
  Hypothesis Hl : straight l = true.
  Hypothesis Hcore : remove_seps l = [BPush pk] ++ (if vf then [BOp 173; BOp 81] else [BOp 172]).
  Hypothesis Hout : outside_flag sg = false.
  Let Vspec := spec_sig_valid (view_tx t) idx (script_code (flatten l)) v sg pk = true.

  Theorem spend_p2pk : (Vspec -> accepts (spend_ref t idx)) /\ (~ Vspec -> rejects (spend_ref t idx)).
  Proof.
    assert (Hu : straight (unlocking i) = true) by (rewrite Hun; cbn [straight forallb]; rewrite (straight_push sg Hsg); reflexivity).
    assert (HuP : forallb (fun b => is_simple b && negb (is_sep b)) (unlocking i) = true) by (rewrite Hun; reflexivity).
    pose proof (checksig_family t idx i v l sg pk [BPush pk] vf Hin Hlock Hsat Hu Hl HuP Hcore eq_refl Hout) as H.
    rewrite Hun in H. cbn [app stack_exec simple_fn bind] in H. exact (H eq_refl).
  Qed.
End P2PK.

Section P2PKH.
  Variables (t : tx) (idx : nat) (i : txin) (v : N) (l : list bit) (sg pk h : bytes) (vf : bool).
  Hypothesis Hin : nth_error (inputs t) idx = Some i.
  Hypothesis Hlock : locking i = Some l.
  Hypothesis Hsat : satoshis i = Some v.
  Hypothesis Hun : unlocking i = [BPush sg; BPush pk].
  Hypothesis Hsg : 1 <= length sg <= 75.
  Hypothesis Hpk : 1 <= length pk <= 75.
  Hypothesis Hl : straight l = true.
  Hypothesis Hcore : remove_seps l = [BOp 118; BOp 169; BPush h; BOp 136] ++ (if vf then [BOp 173; BOp 81] else [BOp 172]).
  Hypothesis Hout : outside_flag sg = false.
  Let Vspec := H160 pk = h /\ spec_sig_valid (view_tx t) idx (script_code (flatten l)) v sg pk = true.

  Theorem spend_p2pkh : (Vspec -> accepts (spend_ref t idx)) /\ (~ Vspec -> rejects (spend_ref t idx)).
  Proof.
    assert (Hu : straight (unlocking i) = true).
    { rewrite Hun. cbn [straight forallb]. rewrite (straight_push sg Hsg), (straight_push pk Hpk). reflexivity. }
    assert (HuP : forallb (fun b => is_simple b && negb (is_sep b)) (unlocking i) = true) by (rewrite Hun; reflexivity).
    pose proof (checksig_family t idx i v l sg pk [BOp 118; BOp 169; BPush h; BOp 136] vf Hin Hlock Hsat Hu Hl HuP Hcore eq_refl Hout) as H.
    rewrite Hun in H. cbn [app stack_exec] in H. rewrite !sf_push, sf_dup, sf_hash160, sf_equalverify in H.
    cbn [bind app dup_fn split_last] in H. unfold hash160_fn, equalverify_fn in H.
    change [sg; pk; pk] with ([sg; pk] ++ [pk]) in H. rewrite pop_bytes_snoc in H. cbn [bind app] in H.
    change [sg; pk; hash_160 pk; h] with ([sg; pk; hash_160 pk] ++ [h]) in H. rewrite pop_bytes_snoc in H. cbn [bind] in H.
    change [sg; pk; hash_160 pk] with ([sg; pk] ++ [hash_160 pk]) in H. rewrite pop_bytes_snoc in H. cbn [bind] in H.
    unfold Vspec. rewrite hash_160_def in H. fold (H160 pk) in H.
    destruct (bytes_eqb h (H160 pk)) eqn:Eh; cbn [verify bind] in H.
    - apply bytes_eqb_eq in Eh. destruct (H eq_refl) as [Ha Hr]. split.
      + intros [_ HV]. exact (Ha HV).
      + intros HN. apply Hr. intros HV. apply HN. split; [symmetry; exact Eh|exact HV].
    - split; [|intros _; exact H]. intros [E _]. rewrite E, bytes_eqb_refl in Eh. discriminate.
  Qed.
End P2PKH.

(* ------------------------------------------------------------------ *)
(* m-of-n multisig:  <dummy> sig_1 .. sig_m  |  OP_m key_1 .. key_n OP_n OP_CHECKMULTISIG(VERIFY OP_1) *)
Definition op_small (k : nat) : bit := BOp (N.of_nat (80 + k)).

Lemma sf_small k : 1 <= k <= 16 -> simple_fn (op_small k) = Some (push_number (Z.of_nat k)).
Proof.
  intros Hk. unfold op_small. do 17 (destruct k as [|k]; [try lia; try reflexivity|]). lia.
Qed.
Lemma straight_small k : 1 <= k <= 16 -> straight_bit (op_small k) = true.
Proof. intros Hk. unfold op_small. do 17 (destruct k as [|k]; [try lia; try reflexivity|]). lia. Qed.

Section MultisigFamily.
  Variables (t : tx) (idx : nat) (i : txin) (v : N) (l : list bit).
  Variables (dummy : bytes) (sigs keys : list bytes) (vf : bool).
  Let u := unlocking i.
  Let m := length sigs.
  Let n := length keys.
  Hypothesis Hin : nth_error (inputs t) idx = Some i.
  Hypothesis Hlock : locking i = Some l.
  Hypothesis Hsat : satoshis i = Some v.
  (* push-only unlocking script that leaves  dummy, sig_1 .. sig_m  on the stack *)
  Hypothesis Hupush : forallb (fun b => is_simple b && negb (is_sep b)) (unlocking i) = true.
  Hypothesis Hustack : forall s, stack_exec (unlocking i) s = Ok (s ++ dummy :: sigs).
  Hypothesis Hu : straight u = true.
  Hypothesis Hl : straight l = true.
  Hypothesis Hmn : 1 <= m <= n /\ n <= 16.
  Hypothesis Hcore : remove_seps l = (op_small m :: map BPush keys ++ [op_small n])
                                     ++ (if vf then [BOp 175; BOp 81] else [BOp 174]).
  Hypothesis Hout : Forall (fun sg => outside_flag sg = false) sigs.
  Let Vspec (sg pk : bytes) : Prop := spec_sig_valid (view_tx t) idx (script_code (flatten l)) v sg pk = true.

  Lemma ms_u_simple : forallb (fun b => is_simple b && negb (is_sep b)) u = true.
  Proof. exact Hupush. Qed.
  Lemma ms_u_pre : forallb pre_bit u = true.
  Proof. exact (simple_pre u ms_u_simple). Qed.

  Lemma ms_front :
    stack_exec (u ++ op_small m :: map BPush keys ++ [op_small n]) [] =
      Ok ([] ++ [dummy] ++ sigs ++ [small_num m] ++ keys ++ [small_num n]).
  Proof.
    rewrite stack_exec_app. unfold u. rewrite Hustack. cbn [bind app].
    change (op_small m :: map BPush keys ++ [op_small n]) with ([op_small m] ++ map BPush keys ++ [op_small n]).
    rewrite stack_exec_app. cbn [stack_exec]. rewrite sf_small by lia. rewrite push_number_small by lia. cbn [bind].
    rewrite stack_exec_app, stack_exec_pushes. cbn [bind stack_exec]. rewrite sf_small by lia.
    rewrite push_number_small by lia. cbn [bind]. rewrite <- !app_assoc. reflexivity.
  Qed.

  Theorem multisig_family :
    (accepts (spend_ref t idx) \/ rejects (spend_ref t idx)) /\
    (accepts (spend_ref t idx) -> ms_ok Vspec sigs keys) /\
    (Forall decodes keys -> ms_ok Vspec sigs keys -> accepts (spend_ref t idx)).
  Proof.
    set (chk := if vf then 175%N else 174%N).
    set (coreB := if vf then [BOp 81] else @nil bit).
    set (coreA := op_small m :: map BPush keys ++ [op_small n]).
    assert (Hcore' : remove_seps l = coreA ++ BOp chk :: coreB) by (rewrite Hcore; unfold chk, coreB; destruct vf; reflexivity).
    destruct (filter_split _ l _ _ _ Hcore') as (pA & pB & El & FA & FB). fold (remove_seps pA) in FA. fold (remove_seps pB) in FB.
    assert (HsA : straight pA = true /\ straight pB = true).
    { rewrite El, straight_app in Hl. apply andb_true_iff in Hl. destruct Hl as [H1 H2].
      cbn [straight forallb] in H2. apply andb_true_iff in H2. tauto. }
    destruct HsA as [HsA HsB].
    assert (HcoreA : forallb is_simple coreA = true).
    { unfold coreA. cbn [forallb]. unfold is_simple at 1. rewrite sf_small by lia. cbn [andb].
      rewrite forallb_app. cbn [forallb]. unfold is_simple at 2. rewrite sf_small by lia. rewrite andb_true_r.
      clear. induction keys as [|k r IH]; [reflexivity|]. cbn [map forallb]. exact IH. }
    assert (HpA : forallb pre_bit pA = true) by (apply pre_bits_of_core; [exact HsA|rewrite FA; exact HcoreA]).
    assert (HpB : forallb pre_bit pB = true) by (apply pre_bits_of_core; [exact HsB|rewrite FB; unfold coreB; destruct vf; reflexivity]).
    assert (Hchk : is_chk (BOp chk) = true) by (unfold chk; destruct vf; reflexivity).
    assert (Hnosep : has_sep u = false) by (apply no_sep_pushes; exact ms_u_simple).
    rewrite El in Hlock, Hl.
    assert (Efront : remove_seps (u ++ pA) = u ++ coreA) by (rewrite remove_seps_app, (remove_seps_nosep u Hnosep), FA; reflexivity).
    pose proof (run_phases t idx i pA pB chk Hin Hlock Hu Hl ms_u_pre Hnosep HpA HpB) as Hrun.
    fold u in Hrun. rewrite Efront in Hrun. unfold coreA in Hrun.
    destruct (Hrun _ ms_front) as (st1 & Hst & Halt & Hcs & Hm). clear Hrun.
    set (c := mk_ctx t idx) in *.
    assert (Hoff := offset_in_range i pA pB chk st1 Hcs).
    assert (Hcode := code_at_check i pA pB chk Hl HpA Hchk st1 Hcs).
    assert (Hplain : plain_bits (pA ++ BOp chk :: pB) = true) by (apply straight_plain; exact Hl).
    assert (Hm1 : 1 <= length sigs <= length keys) by (fold m n; lia).
    assert (Hn1 : length keys <= 16) by (fold n; lia).
    pose proof (multisig_shape c i (pA ++ BOp chk :: pB) v st1 Hoff [] dummy sigs keys Hm1 Hn1 Hst) as Hshape.
    pose proof (multisig_accept_sound c i (pA ++ BOp chk :: pB) v st1 Hin Hlock Hsat Hoff Hplain [] dummy sigs keys Hm1 Hn1 Hst Hout) as Hsound.
    pose proof (multisig_accept_complete c i (pA ++ BOp chk :: pB) v st1 Hin Hlock Hsat Hoff Hplain [] dummy sigs keys Hm1 Hn1 Hst Hout) as Hcompl.
    rewrite Hcode in Hsound, Hcompl. rewrite <- El in Hsound, Hcompl. fold Vspec in Hsound, Hcompl.
    rewrite FB in Hm. unfold chk, coreB in Hm.
    assert (Hcases : (exists j, spend_ref t idx = Ok (RunErr j) /\ multisig txctx SP SV st1 c <> Ok (true, with_stack st1 []))
                     \/ (multisig txctx SP SV st1 c = Ok (true, with_stack st1 []) /\ accepts (spend_ref t idx))
                     \/ (multisig txctx SP SV st1 c = Ok (false, with_stack st1 []) /\ rejects (spend_ref t idx))).
    { destruct vf.
      - cbn [Interp.match_opcode] in Hm. unfold op_checkmultisigverify in Hm.
        destruct Hshape as [Hs|(b & Hs)]; rewrite Hs in Hm; cbn [bind] in Hm.
        + left. destruct Hm as (j & Hj). exists j. split; [exact Hj|rewrite Hs; discriminate].
        + destruct b; cbn [verify bind] in Hm.
          * cbn [stack with_stack stack_exec] in Hm.
            change (simple_fn (BOp 81)) with (Some (push_number (Z.of_N 81 - 80))) in Hm.
            change (push_number (Z.of_N 81 - 80) []) with (Ok [[x01]]) in Hm. cbn [bind] in Hm.
            right; left. split; [exact Hs|]. destruct Hm as (j & Hj & Hs'). exists j. split; assumption.
          * right; right. split; [exact Hs|]. right; left. exact Hm.
      - cbn [Interp.match_opcode] in Hm. unfold op_checkmultisig in Hm.
        destruct Hshape as [Hs|(b & Hs)]; rewrite Hs in Hm; cbn [bind] in Hm.
        + left. destruct Hm as (j & Hj). exists j. split; [exact Hj|rewrite Hs; discriminate].
        + unfold lift_stack, push_bool in Hm. cbn [bind stack with_stack stack_exec app] in Hm.
          destruct b.
          * right; left. split; [exact Hs|]. destruct Hm as (j & Hj & Hs'). exists j. split; assumption.
          * right; right. split; [exact Hs|]. right; right. destruct Hm as (j & Hj & Hs'). exists j. split; assumption. }
    destruct Hcases as [(j & Hj & Hne)|[(Hs & Hacc)|(Hs & Hrej)]].
    - split; [right; right; left; eauto|]. split.
      + intros (j' & Hj' & _). rewrite Hj in Hj'. discriminate.
      + intros Hdec Hok. exfalso. apply Hne. apply Hcompl; assumption.
    - split; [left; exact Hacc|]. split; [intros _; apply Hsound; exact Hs|intros _ _; exact Hacc].
    - split; [right; exact Hrej|]. split.
      + intros Hacc. exfalso. exact (accepts_not_rejects _ Hacc Hrej).
      + intros Hdec Hok. exfalso. pose proof (Hcompl Hdec Hok) as E. rewrite Hs in E. discriminate.
  Qed.
End MultisigFamily.

(* ------------------------------------------------------------------ *)
(* from_transaction + run never panics and always ends: the two hypotheses of property C16 hold for this
   transaction side, whatever the transaction, the index and the scripts *)
Theorem spend_total t idx :
  spend_ref t idx = Err \/ exists j, spend_ref t idx = Ok (RunOk j) \/ spend_ref t idx = Ok (RunErr j).
Proof.
  unfold spend, from_transaction. destruct (nth_error (inputs t) idx) as [i|]; [|left; reflexivity].
  unfold finalised_script.
  assert (Hfb : forall bs, from_bytes bs <> Panic) by exact from_bytes_no_panic.
  destruct (locking i) as [l|].
  - specialize (Hfb (to_bytes (unlocking i) ++ to_bytes l)).
    destruct (from_bytes (to_bytes (unlocking i) ++ to_bytes l)) as [bits| |]; cbn [bind]; [|left; reflexivity|contradiction].
    right. unfold run_tx.
    destruct (run_total txctx sig_preimage (sig_verify ref_prims) sig_preimage_total sig_verify_total
                (from_script_bits txctx bits (Some (mk_ctx t idx)))) as (j & [Hj|Hj]); exists j; rewrite Hj; tauto.
  - cbn [bind]. right. unfold run_tx.
    destruct (run_total txctx sig_preimage (sig_verify ref_prims) sig_preimage_total sig_verify_total
                (from_script_bits txctx (unlocking i) (Some (mk_ctx t idx)))) as (j & [Hj|Hj]); exists j; rewrite Hj; tauto.
Qed.
