(* Proofs/BsmProofs.v — lemmas behind Props/C12.v, about Model/Bsm.v. *)
From BSV Require Import Base.Bytes Base.Hex.
From BSV Require Import Prim.Num Prim.Secp256k1 Prim.Sha256 Prim.Ripemd160 Prim.Hmac Prim.Rfc6979.
From BSV Require Import Model.HashApi Model.VarInt Model.Ecdsa Model.Sig Model.Bsm Spec.TxWire Spec.BsmSpec.
From BSV Require Model.Keys.
From BSV Require Import Run.BsmMemo.
From BSV Require Import Proofs.HashApiProofs Proofs.Secp256k1Proofs Proofs.Secp256k1Refine Proofs.EcdsaAbstract Proofs.EcdsaSecp
     Proofs.EcdsaProofs Proofs.SigProofs.
From BSV Require Proofs.KeysProofs.
From Coq Require Import Zdiv.
Local Open Scope Z_scope.

Strategy 1000 [generate_k prim_sign prim_verify sec1_decode sec1_encode Secp256k1.pubkey smul recover lift_x].

(* ------------------------------------------------------------------ *)
(* 1. the signed digest *)
Lemma compact_is_write_varint n : compact n = write_varint n.
Proof.
  unfold compact, write_varint.
  destruct (n <? 253)%N eqn:E1; [replace (n <=? 252)%N with true by lia; reflexivity|].
  replace (n <=? 252)%N with false by lia.
  destruct (n <? 65536)%N eqn:E2; [replace (n <=? 65535)%N with true by lia; reflexivity|].
  replace (n <=? 65535)%N with false by lia.
  destruct (n <? 4294967296)%N eqn:E3; [replace (n <=? 4294967295)%N with true by lia; reflexivity|].
  replace (n <=? 4294967295)%N with false by lia. reflexivity.
Qed.

Lemma magic_is_spec : MAGIC_BYTES = bsm_magic.
Proof. reflexivity. Qed.

Lemma prepend_is_preimage msg : prepend_magic_bytes msg = bsm_preimage msg.
Proof.
  unfold prepend_magic_bytes, bsm_preimage. rewrite !compact_is_write_varint, magic_is_spec. reflexivity.
Qed.

Lemma magic_digest_spec msg : magic_digest msg = bsm_digest msg.
Proof.
  unfold magic_digest, bsm_digest, message_digest. rewrite get_hash_digest_sha256d, prepend_is_preimage. reflexivity.
Qed.

(* the digest-sharing forms used by the run are the modelled functions *)
Lemma sign_impl_digest P sk msg : sign_impl P sk msg = sign_with_digest P sk (magic_digest msg).
Proof. reflexivity. Qed.

Lemma verify_message_impl_digest P msg sg a :
  verify_message_impl P msg sg a = verify_with_digest P (magic_digest msg) sg a.
Proof. reflexivity. Qed.

(* what is signed: the scalar of the specified digest, with the RFC 6979 nonce for that scalar (HMAC-SHA256) *)
Lemma sign_impl_is_rfc6979 P sk msg :
  sign_impl P sk msg =
  let z := be_Z (bsm_digest msg) mod secp_n in
  sign_core P sk (generate_k hmac_sha256 (sk_d sk) z []) z.
Proof.
  rewrite sign_impl_digest. unfold sign_with_digest, det_nonce, scalar_be. rewrite magic_digest_spec. cbv zeta.
  rewrite (generate_k_ext (crate_mac (adapter_impl ASha256r)) hmac_sha256 crate_mac_sha256r). reflexivity.
Qed.

(* ------------------------------------------------------------------ *)
(* 3. soundness modulo the hashes: what an accepting verification establishes *)
Lemma bsm_sound_modulo_hash msg sg a :
  verify_message_impl ref_prims msg sg a = Ok true ->
  exists pk Q,
    get_public_key ref_prims sg (prepend_magic_bytes msg) SHSha256d = Ok pk /\
    hash_160 (pk_point pk) = Keys.a_hash a /\
    sec1_decode (pk_point pk) = Some Q /\
    prim_verify Q (be_Z (bsm_digest msg) mod secp_n) (sig_r sg, sig_s sg) = true.
Proof.
  unfold verify_message_impl. cbv zeta.
  destruct (get_public_key ref_prims sg (prepend_magic_bytes msg) SHSha256d) as [pk| |] eqn:Eg; cbn [bind]; try discriminate.
  rewrite KeysProofs.addr_from_pubkey_ok. cbn [bind Keys.a_hash keys_pub Keys.pk_point].
  destruct (bytes_eqb (hash_160 (pk_point pk)) (Keys.a_hash a)) eqn:Eh; cbn [negb]; [|discriminate].
  apply bytes_eqb_eq in Eh.
  unfold verify_digest. cbn [p_decode p_verify ref_prims].
  destruct (sec1_decode (pk_point pk)) as [Q|] eqn:Ed; cbn [bind]; [|discriminate].
  destruct (prim_verify Q _ _) eqn:Ev; cbn [bind]; [|discriminate].
  intros _. exists pk, Q. split; [reflexivity|]. split; [exact Eh|]. split; [exact Ed|].
  rewrite <- magic_digest_spec. exact Ev.
Qed.

Lemma verify_never_false P msg sg a : verify_message_impl P msg sg a <> Ok false.
Proof.
  unfold verify_message_impl. cbv zeta.
  destruct (get_public_key P sg _ _); cbn [bind]; try discriminate.
  destruct (Keys.addr_from_pubkey _); cbn [bind]; try discriminate.
  destruct (negb _); [discriminate|].
  destruct (verify_digest P _ _ _ _); cbn [bind]; discriminate.
Qed.

(* ------------------------------------------------------------------ *)
(* 4. completeness *)
Definition nonce_x_small (sk : privkey) (msg : bytes) : Prop :=
  forall k, det_nonce (sk_d sk) (message_digest SHSha256d (prepend_magic_bytes msg)) false = Some k ->
            0 <= xcoord (smul k G) < secp_n.

(* HASH160 of the signer's public key in the key's compression form *)
Definition own_hash (sk : privkey) : bytes :=
  hash_160 (sec1_encode (sk_compressed sk) (Secp256k1.pubkey (sk_d sk))).

Definition sig_odd (sg : signature) : bool :=
  match sig_rec sg with Some ri => ri_y_odd ri | None => false end.

Section Group.
  Hypothesis H : secp256k1_group.

  Theorem bsm_complete sk msg sg a :
    valid_sk sk -> nonce_x_small sk msg ->
    sign_impl ref_prims sk msg = Ok sg ->
    Keys.a_hash a = own_hash sk ->
    verify_message_impl ref_prims msg sg a = Ok true.
  Proof.
    intros V Hx E Ha. unfold sign_impl in E. unfold verify_message_impl. cbv zeta.
    rewrite (sign_det_recovers H sk _ SHSha256d false sg V E Hx). cbn [bind].
    rewrite KeysProofs.addr_from_pubkey_ok. cbn [bind Keys.a_hash keys_pub Keys.pk_point].
    unfold to_public_key at 1. cbn [pk_point p_pubkey ref_prims]. fold (own_hash sk). rewrite Ha.
    rewrite bytes_eqb_refl. cbn [negb].
    rewrite (sign_det_verifies H sk _ SHSha256d false sg V E). reflexivity.
  Qed.

  (* the same after the signature went through its 65-byte compact form *)
  Theorem bsm_complete_compact sk msg sg a :
    valid_sk sk -> nonce_x_small sk msg ->
    sign_impl ref_prims sk msg = Ok sg ->
    Keys.a_hash a = own_hash sk ->
    (do sg' <- from_compact_impl (to_compact_bytes sg None); verify_message_impl ref_prims msg sg' a) = Ok true.
  Proof.
    intros V Hx E Ha.
    assert (R : exists ri, sig_rec sg = Some ri).
    { unfold sign_impl, sign_with_deterministic_k, sign_core in E.
      destruct (det_nonce _ _ _) as [k|]; [|discriminate]. cbn [p_sign ref_prims] in E.
      destruct (prim_sign _ _ _) as [[[r s] v]|]; [|discriminate]. inversion E. eexists. reflexivity. }
    destruct R as [ri R].
    assert (L : sig_ok sg).
    { apply sig_low_ok. unfold sign_impl in E. exact (sign_det_low sk (prepend_magic_bytes msg) SHSha256d false sg E). }
    rewrite (compact_roundtrip_own sg ri L R). cbn [bind].
    exact (bsm_complete sk msg sg a V Hx E Ha).
  Qed.

  (* for every network prefix: the address derived from the signer's key and re-prefixed *)
  Theorem bsm_complete_own_address sk msg sg p a0 a :
    valid_sk sk -> nonce_x_small sk msg ->
    sign_impl ref_prims sk msg = Ok sg ->
    Keys.addr_from_pubkey (keys_pub (to_public_key ref_prims sk)) = Ok a0 -> Keys.addr_set_chain a0 p = Ok a ->
    verify_message_impl ref_prims msg sg a = Ok true
    /\ (do sg' <- from_compact_impl (to_compact_bytes sg None); verify_message_impl ref_prims msg sg' a) = Ok true
    /\ Keys.a_prefix a = p.
  Proof.
    intros V Hx E E0 Ep. rewrite KeysProofs.addr_from_pubkey_ok in E0. inversion E0; subst a0; clear E0.
    unfold Keys.addr_set_chain in Ep. inversion Ep; subst a; clear Ep. cbn [Keys.a_hash Keys.a_prefix].
    assert (Ha : hash_160 (Keys.pk_point (keys_pub (to_public_key ref_prims sk))) = own_hash sk) by reflexivity.
    split; [|split; [|reflexivity]].
    - match goal with |- verify_message_impl _ _ _ ?a = _ => exact (bsm_complete sk msg sg a V Hx E Ha) end.
    - match goal with |- bind _ (fun sg' => verify_message_impl _ _ _ ?a) = _ =>
        exact (bsm_complete_compact sk msg sg a V Hx E Ha) end.
  Qed.

  (* another message: unless the two digests are congruent modulo n, recovery yields a point different from the
     signer's key, so acceptance against the signer's address would need a HASH160 collision *)
  Theorem bsm_other_message_partial sk msg msg' sg Q :
    valid_sk sk -> nonce_x_small sk msg ->
    sign_impl ref_prims sk msg = Ok sg ->
    ~ eqm secp_n (scalar_be (magic_digest msg')) (scalar_be (magic_digest msg)) ->
    recover (sig_r sg) (sig_s sg) (sig_odd sg) (scalar_be (magic_digest msg')) = Ok Q ->
    Q <> Secp256k1.pubkey (sk_d sk).
  Proof.
    intros V Hx E Hz ER. unfold sign_impl, sign_with_deterministic_k, sign_core in E.
    fold (magic_digest msg) in E.
    destruct (det_nonce (sk_d sk) (magic_digest msg) false) as [k|] eqn:Ek; [|discriminate].
    cbn [p_sign ref_prims] in E.
    destruct (prim_sign (sk_d sk) k (scalar_be (magic_digest msg))) as [[[r s] v]|] eqn:Es; [|discriminate].
    inversion E; subst sg; clear E. cbn [sig_r sig_s sig_odd sig_rec ri_y_odd] in ER.
    pose proof (Hx k Ek) as Hxk.
    assert (Hk : 0 < k < secp_n) by (unfold det_nonce in Ek; exact (generate_k_range _ _ _ _ _ Ek)).
    pose proof (secp_recover_other_z H (sk_d sk) k _ _ r s v Hk Hxk Es Hz) as NR.
    intros EQ. apply NR. unfold Secp256k1.pubkey in EQ. rewrite <- EQ.
    unfold recover, recover_g in ER. unfold recover_point.
    destruct (negb (sig_in_range secp_n r s)); [discriminate|].
    destruct (recover_point_g point smul padd G lift_x secp_n sinv r s v (scalar_be (magic_digest msg'))) as [Q'|]; [|discriminate].
    destruct (is_inf Q'); [discriminate|]. congruence.
  Qed.
End Group.

(* ------------------------------------------------------------------ *)
(* 5. the caches of Run/BsmMemo.v answer like fast_prims *)
Lemma opt_point_eqb_eq A B : opt_point_eqb A B = true <-> A = B.
Proof.
  destruct A as [a|], B as [b|]; cbn [opt_point_eqb]; try (split; [discriminate | congruence]); [|tauto].
  rewrite point_eqb_eq. split; congruence.
Qed.

Lemma memo_prims_ext r s odd z :
  let M := memo_prims r s odd z in
  (forall d k z', p_sign M d k z' = p_sign fast_prims d k z')
  /\ (forall Q z' rs, p_verify M Q z' rs = p_verify fast_prims Q z' rs)
  /\ (forall r' s' o' z', p_recover M r' s' o' z' = p_recover fast_prims r' s' o' z')
  /\ (forall bs, p_decode M bs = p_decode fast_prims bs)
  /\ (forall d, p_pubkey M d = p_pubkey fast_prims d)
  /\ (forall d Q, p_ecdh M d Q = p_ecdh fast_prims d Q)
  /\ (forall k A, p_smul M k A = p_smul fast_prims k A)
  /\ (forall x o, p_lift M x o = p_lift fast_prims x o).
Proof.
  cbv zeta. unfold memo_prims.
  cbn [p_sign p_verify p_recover p_decode p_pubkey p_ecdh p_smul p_lift fast_prims].
  repeat split.
  - intros Q z' [r' s'].
    destruct (recover_fast r s odd z) as [Q0| |] eqn:ER; cbn [andb]; try reflexivity.
    destruct (point_eqb Q0 Q) eqn:E1; cbn [andb]; [|reflexivity].
    destruct (z' =? z) eqn:E2; cbn [andb]; [|reflexivity].
    cbn [fst snd].
    destruct (r' =? r) eqn:E3; cbn [andb]; [|reflexivity].
    destruct (s' =? s) eqn:E4; [|reflexivity].
    apply point_eqb_eq in E1. apply Z.eqb_eq in E2, E3, E4. subst. reflexivity.
  - intros r' s' o' z'.
    destruct (r' =? r) eqn:E1; cbn [andb]; [|reflexivity].
    destruct (s' =? s) eqn:E2; cbn [andb]; [|reflexivity].
    destruct (Bool.eqb o' odd) eqn:E3; cbn [andb]; [|reflexivity].
    destruct (z' =? z) eqn:E4; [|reflexivity].
    apply Z.eqb_eq in E1, E2, E4. apply Bool.eqb_prop in E3. subst. reflexivity.
  - intros k A.
    destruct ((k =? s) && opt_point_eqb (Some A) (lift_x_fast r odd)) eqn:E1.
    + apply andb_true_iff in E1. destruct E1 as [E1 E2]. apply Z.eqb_eq in E1. apply opt_point_eqb_eq in E2.
      subst k. rewrite <- E2. reflexivity.
    + destruct ((k =? z) && point_eqb A G) eqn:E3; [|reflexivity].
      apply andb_true_iff in E3. destruct E3 as [E3 E4]. apply Z.eqb_eq in E3. apply point_eqb_eq in E4.
      subst. reflexivity.
  - intros x o.
    destruct ((x =? r) && Bool.eqb o odd) eqn:E; [|reflexivity].
    apply andb_true_iff in E. destruct E as [E1 E2]. apply Z.eqb_eq in E1. apply Bool.eqb_prop in E2. subst. reflexivity.
Qed.
