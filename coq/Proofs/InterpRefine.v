(* Proofs/InterpRefine.v — C14, per opcode: the arm of match_opcode and the specification's opcode
   function compute the same stacks and fail on the same inputs.
   Library stacks are Vecs (top last), the specification's lists have the top first: absS reverses. *)
From BSV Require Import Base.Hex Model.Opcodes Model.Script Model.HashApi Model.Interp
  Spec.ScriptTok Spec.InterpBSV Proofs.HashApiProofs Proofs.InterpTotal Proofs.InterpNum.
Open Scope Z_scope.

Definition absS (st : state) : stk * stk := (rev (stack st), rev (alt_stack st)).

(* impl outcome vs spec outcome *)
Definition refines (r : outcome state) (sp : option (stk * stk)) : Prop :=
  match sp with
  | Some sa => exists st', r = Ok st' /\ absS st' = sa
  | None => r = Err
  end.

(* ------------------------------------------------------------------ *)
(* pops on a reversed list *)
Lemma pop_bytes_nil : pop_bytes [] = Err.
Proof. reflexivity. Qed.
Lemma pop_bytes_snoc l x : pop_bytes (l ++ [x]) = Ok (x, l).
Proof. unfold pop_bytes. rewrite split_last_app. reflexivity. Qed.
Lemma pop_bigint_nil : pop_bigint [] = Err.
Proof. reflexivity. Qed.
Lemma pop_bigint_snoc l x : pop_bigint (l ++ [x]) = Ok (num_of x, l).
Proof. unfold pop_bigint. rewrite split_last_app, to_bigint_num_of. reflexivity. Qed.
Lemma pop_bool_nil : pop_bool [] = Err.
Proof. reflexivity. Qed.
Lemma pop_bool_snoc l x : pop_bool (l ++ [x]) = Ok (truthy x, l).
Proof. unfold pop_bool. rewrite split_last_app, cast_to_bool_truthy. reflexivity. Qed.
Lemma split_last_nil {A} : @split_last A [] = None.
Proof. reflexivity. Qed.

Lemma absS_with_stack st s : absS (with_stack st s) = (rev s, rev (alt_stack st)).
Proof. reflexivity. Qed.
Lemma absS_with_stacks st s a : absS (with_stacks st s a) = (rev s, rev a).
Proof. reflexivity. Qed.
Lemma rev_snoc {A} (l : list A) x : rev (l ++ [x]) = x :: rev l.
Proof. apply rev_unit. Qed.

Ltac pops :=
  repeat first
    [ rewrite pop_bytes_snoc | rewrite pop_bigint_snoc | rewrite pop_bool_snoc | rewrite split_last_app
    | rewrite pop_bytes_nil | rewrite pop_bigint_nil | rewrite pop_bool_nil | rewrite split_last_nil
    | rewrite push_bigint_enc | rewrite push_bool_enc
    | progress cbn [bind lift_stack verify fst snd push_bytes] ].

(* close a goal `exists st', Ok X = Ok st' /\ absS st' = (s', a')` *)
Ltac fin Ha :=
  eexists; split; [reflexivity|]; unfold push_bytes;
  rewrite ?absS_with_stack, ?absS_with_stacks; rewrite ?rev_snoc, ?rev_app_distr, ?rev_involutive;
  cbn [rev app]; rewrite ?rev_snoc, ?rev_involutive, ?Ha; try reflexivity;
  try (match goal with l := rev _ |- _ => subst l end; rewrite ?rev_involutive; reflexivity).

Lemma vremove_app {A} (l1 : list A) x l2 : vremove (length l1) (l1 ++ x :: l2) = Ok (x, l1 ++ l2).
Proof.
  unfold vremove. rewrite nth_error_app2, Nat.sub_diag by lia. cbn [nth_error].
  rewrite firstn_app, Nat.sub_diag, firstn_all. cbn [firstn]. rewrite app_nil_r.
  replace (S (length l1)) with (length l1 + 1)%nat by lia.
  rewrite skipn_app. replace (length l1 + 1 - length l1)%nat with 1%nat by lia.
  rewrite skipn_all2 by lia. reflexivity.
Qed.
Lemma nth_error_app_len {A} (l1 : list A) x l2 : nth_error (l1 ++ x :: l2) (length l1) = Some x.
Proof. rewrite nth_error_app2, Nat.sub_diag by lia. reflexivity. Qed.
Lemma vinsert_app {A} (l1 : list A) x l2 : vinsert (length l1) x (l1 ++ l2) = Ok (l1 ++ x :: l2).
Proof.
  unfold vinsert. rewrite app_length. replace (Nat.leb (length l1) (length l1 + length l2)) with true by (symmetry; apply Nat.leb_le; lia).
  rewrite firstn_app, Nat.sub_diag, firstn_all. cbn [firstn]. rewrite app_nil_r.
  rewrite skipn_app, Nat.sub_diag, skipn_all. reflexivity.
Qed.
Lemma vset_cons {A} i (x a : A) v : vset (S i) x (a :: v) = a :: vset i x v.
Proof. reflexivity. Qed.
Lemma vswap_cons {A} i j (a : A) v :
  vswap (S i) (S j) (a :: v) = match vswap i j v with Ok w => Ok (a :: w) | Err => Err | Panic => Panic end.
Proof.
  unfold vswap. cbn [nth_error]. destruct (nth_error v i), (nth_error v j); reflexivity.
Qed.
Lemma vswap_app {A} (l : list A) y x : vswap (S (length l)) (length l) (l ++ [y; x]) = Ok (l ++ [x; y]).
Proof.
  induction l as [|a l IH]; [reflexivity|].
  cbn [length app]. rewrite vswap_cons, IH. reflexivity.
Qed.
Lemma nth_error_rev {A} (l : list A) k : (k < length l)%nat -> nth_error (rev l) (length l - 1 - k) = nth_error l k.
Proof.
  intros H. destruct (nth_error l k) as [x|] eqn:E; [|apply nth_error_None in E; lia].
  destruct (nth_error_split _ _ E) as (l1 & l2 & -> & L1).
  rewrite rev_app_distr. cbn [rev]. rewrite <- app_assoc. cbn [app].
  rewrite app_length. cbn [length].
  replace (length l1 + S (length l2) - 1 - k)%nat with (length (rev l2)) by (rewrite rev_length; lia).
  apply nth_error_app_len.
Qed.
Lemma vremove_rev {A} (l : list A) k x : nth_error l k = Some x ->
  vremove (length l - 1 - k) (rev l) = Ok (x, rev (firstn k l ++ skipn (S k) l)).
Proof.
  intros E. destruct (nth_error_split _ _ E) as (l1 & l2 & -> & L1).
  rewrite rev_app_distr. cbn [rev]. rewrite <- app_assoc. cbn [app].
  rewrite app_length. cbn [length].
  replace (length l1 + S (length l2) - 1 - k)%nat with (length (rev l2)) by (rewrite rev_length; lia).
  rewrite vremove_app. subst k.
  rewrite firstn_app, Nat.sub_diag, firstn_all. cbn [firstn]. rewrite app_nil_r.
  replace (S (length l1)) with (length l1 + 1)%nat by lia. rewrite skipn_app.
  replace (length l1 + 1 - length l1)%nat with 1%nat by lia. rewrite skipn_all2 by lia. cbn [skipn app].
  rewrite rev_app_distr. reflexivity.
Qed.

Section Ops.
  Variable st : state.
  Variables s a : stk.
  Hypothesis Hs : stack st = rev s.
  Hypothesis Ha : rev (alt_stack st) = a.

  Lemma ref_push_number z : ((0 <=? z) && (z <=? 2147483647) || (z =? -1)) = true ->
    refines (op_push_number z st) (Some (num_enc z :: s, a)).
  Proof.
    intros Hz. unfold op_push_number.
    assert (E : push_number z (stack st) = Ok (stack st ++ [num_enc z])).
    { destruct (Z.eqb_spec z (-1)) as [E1|N]; [rewrite E1; apply push_number_m1 | apply push_number_nonneg; lia]. }
    rewrite E. pops. rewrite Hs. fin Ha.
  Qed.

  Lemma ref_nop : refines (op_nop st) (Some (s, a)).
  Proof. unfold op_nop. eexists; split; [reflexivity|]. unfold absS. rewrite Hs, Ha, rev_involutive. reflexivity. Qed.

  Lemma ref_codeseparator idx : refines (op_codeseparator idx st) (Some (s, a)).
  Proof. unfold op_codeseparator. eexists; split; [reflexivity|]. unfold absS. cbn. rewrite Hs, Ha, rev_involutive. reflexivity. Qed.

  Lemma ref_verify : refines (op_verify st) (match s with x :: r => if truthy x then Some (r, a) else None | _ => None end).
  Proof.
    unfold op_verify. rewrite Hs. destruct s as [|x r]; cbn [rev]; pops; [reflexivity|].
    destruct (truthy x); pops; [fin Ha | reflexivity].
  Qed.

  Lemma ref_toaltstack : refines (op_toaltstack st) (match s with x :: r => Some (r, x :: a) | _ => None end).
  Proof.
    unfold op_toaltstack. rewrite Hs. destruct s as [|x r]; cbn [rev]; pops; [reflexivity|]. fin Ha.
  Qed.

  Lemma ref_fromaltstack : refines (op_fromaltstack st) (match a with x :: r => Some (x :: s, r) | _ => None end).
  Proof.
    unfold op_fromaltstack. assert (Ea : alt_stack st = rev a) by (rewrite <- Ha, rev_involutive; reflexivity).
    rewrite Ea. destruct a as [|x r]; cbn [rev]; pops; [reflexivity|]. rewrite Hs. fin Ha.
  Qed.

  Lemma ref_ifdup : refines (op_ifdup st) (match s with x :: r => Some (if truthy x then x :: x :: r else x :: r, a) | _ => None end).
  Proof.
    unfold op_ifdup. rewrite Hs. destruct s as [|x r]; cbn [rev]; pops; [reflexivity|].
    destruct (truthy x); fin Ha.
  Qed.

  Lemma ref_depth : refines (op_depth st)
    (if too_big true (length s) then None else Some (num_enc (Z.of_nat (length s)) :: s, a)).
  Proof.
    unfold op_depth, too_big. rewrite Hs, rev_length. cbn [andb].
    destruct (Z.ltb_spec 2147483647 (Z.of_nat (length s))) as [L|L].
    - unfold push_number. replace ((2147483647 <? Z.of_nat (length s)) || (Z.of_nat (length s) <? -2147483648)) with true by lia.
      reflexivity.
    - rewrite push_number_nonneg by lia. pops. fin Ha.
  Qed.

  Lemma ref_drop : refines (op_drop st) (match s with _ :: r => Some (r, a) | _ => None end).
  Proof. unfold op_drop. rewrite Hs. destruct s as [|x r]; cbn [rev]; pops; [reflexivity|]. fin Ha. Qed.

  Lemma ref_dup : refines (op_dup st) (match s with x :: r => Some (x :: x :: r, a) | _ => None end).
  Proof. unfold op_dup. rewrite Hs. destruct s as [|x r]; cbn [rev]; pops; [reflexivity|]. fin Ha. Qed.

  Lemma ref_2drop : refines (op_2drop st) (match s with _ :: _ :: r => Some (r, a) | _ => None end).
  Proof.
    unfold op_2drop. rewrite Hs. destruct s as [|x [|y r]]; cbn [rev app]; pops; try reflexivity. fin Ha.
  Qed.

  Lemma ref_2swap : refines (op_2swap st) (match s with d :: c :: b :: a0 :: r => Some (b :: a0 :: d :: c :: r, a) | _ => None end).
  Proof.
    unfold op_2swap. rewrite Hs. destruct s as [|x1 [|x2 [|x3 [|x4 r]]]]; cbn [rev app]; pops; try reflexivity. fin Ha.
  Qed.

  Lemma ref_cat : refines (op_cat st) (match s with b :: a0 :: r => Some ((a0 ++ b) :: r, a) | _ => None end).
  Proof.
    unfold op_cat. rewrite Hs. destruct s as [|x [|y r]]; cbn [rev app]; pops; try reflexivity. fin Ha.
  Qed.

  Lemma ref_invert : refines (op_invert st) (match s with x :: r => Some (map inv_byte x :: r, a) | _ => None end).
  Proof.
    unfold op_invert. rewrite Hs. destruct s as [|x r]; cbn [rev]; pops; [reflexivity|]. fin Ha.
  Qed.

  Lemma zip_with_map2 f g x y : (forall p q, f p q = n2b (g (b2n p) (b2n q))) -> zip_with f x y = map2 g x y.
  Proof.
    intros H. revert y; induction x as [|p x IH]; intros [|q y]; cbn [zip_with map2]; try reflexivity.
    rewrite H, IH. reflexivity.
  Qed.
  Lemma ref_bitwise f g : (forall p q, f p q = n2b (g (b2n p) (b2n q))) ->
    refines (op_bitwise f st)
      (match s with b :: a0 :: r => if Nat.eqb (length a0) (length b) then Some (map2 g a0 b :: r, a) else None | _ => None end).
  Proof.
    intros H. unfold op_bitwise. rewrite Hs. destruct s as [|x [|y r]]; cbn [rev app]; pops; try reflexivity.
    rewrite (Nat.eqb_sym (length x) (length y)).
    destruct (Nat.eqb (length y) (length x)); cbn [negb]; [|reflexivity].
    rewrite (zip_with_map2 f g _ _ H). fin Ha.
  Qed.

  Lemma bytes_eqb_sym x y : bytes_eqb x y = bytes_eqb y x.
  Proof.
    destruct (bytes_eqb y x) eqn:E1, (bytes_eqb x y) eqn:E2; try reflexivity.
    - apply bytes_eqb_eq in E1. subst. rewrite bytes_eqb_refl in E2. discriminate.
    - apply bytes_eqb_eq in E2. subst. rewrite bytes_eqb_refl in E1. discriminate.
  Qed.
  Lemma ref_equal : refines (op_equal st) (match s with b :: a0 :: r => Some (bool_enc (bytes_eqb a0 b) :: r, a) | _ => None end).
  Proof.
    unfold op_equal. rewrite Hs. destruct s as [|x [|y r]]; cbn [rev app]; pops; try reflexivity.
    rewrite (bytes_eqb_sym x y). fin Ha.
  Qed.
  Lemma ref_equalverify : refines (op_equalverify st) (match s with b :: a0 :: r => if bytes_eqb a0 b then Some (r, a) else None | _ => None end).
  Proof.
    unfold op_equalverify. rewrite Hs. destruct s as [|x [|y r]]; cbn [rev app]; pops; try reflexivity.
    rewrite (bytes_eqb_sym x y). destruct (bytes_eqb y x); pops; [fin Ha | reflexivity].
  Qed.

  Lemma ref_unary f g : (forall z, f z = g z) ->
    refines (op_unary f st) (match un g s with Some s' => Some (s', a) | None => None end).
  Proof.
    intros H. unfold op_unary, un. rewrite Hs. destruct s as [|x r]; cbn [rev]; pops; [reflexivity|]. rewrite H. fin Ha.
  Qed.
  Lemma ref_unary_bool (f : Z -> Z) (g : Z -> bool) : (forall z, f z = if g z then 1 else 0) ->
    refines (op_unary_num f st) (match s with x :: r => Some (bool_enc (g (num_of x)) :: r, a) | _ => None end).
  Proof.
    intros H. unfold op_unary_num. rewrite Hs. destruct s as [|x r]; cbn [rev]; pops; [reflexivity|].
    rewrite H. destruct (g (num_of x)); cbn [bool_enc]; pops.
    - change (push_number 1 (rev r)) with (Ok (rev r ++ [[x01]])). pops. fin Ha.
    - change (push_number 0 (rev r)) with (Ok (rev r ++ [[]])). pops. fin Ha.
  Qed.

  (* f takes (top, second); g takes (second, top) *)
  Lemma ref_binary f g : (forall t u, f t u = g u t) ->
    refines (op_binary f st) (match bin g s with Some s' => Some (s', a) | None => None end).
  Proof.
    intros H. unfold op_binary, bin. rewrite Hs. destruct s as [|x [|y r]]; cbn [rev app]; pops; try reflexivity.
    rewrite H. fin Ha.
  Qed.
  Lemma ref_binary_bool f g : (forall t u, f t u = g u t) ->
    refines (op_binary_bool f st) (match binb g s with Some s' => Some (s', a) | None => None end).
  Proof.
    intros H. unfold op_binary_bool, binb. rewrite Hs. destruct s as [|x [|y r]]; cbn [rev app]; pops; try reflexivity.
    rewrite H. fin Ha.
  Qed.
  Lemma ref_divmod f :
    refines (op_divmod f st)
      (match s with b :: a0 :: r => if num_of b =? 0 then None else Some (num_enc (f (num_of a0) (num_of b)) :: r, a) | _ => None end).
  Proof.
    unfold op_divmod. rewrite Hs. destruct s as [|x [|y r]]; cbn [rev app]; pops; try reflexivity.
    destruct (num_of x =? 0); pops; [reflexivity | fin Ha].
  Qed.
  Lemma ref_boolop f g : (forall p q, f (truthy p) (truthy q) = g (num_of q) (num_of p)) ->
    refines (op_boolop f st) (match binb g s with Some s' => Some (s', a) | None => None end).
  Proof.
    intros H. unfold op_boolop, binb. rewrite Hs. destruct s as [|x [|y r]]; cbn [rev app]; pops; try reflexivity.
    rewrite H. fin Ha.
  Qed.
  Lemma ref_numequalverify :
    refines (op_numequalverify st) (match s with b :: a0 :: r => if num_of a0 =? num_of b then Some (r, a) else None | _ => None end).
  Proof.
    unfold op_numequalverify. rewrite Hs. destruct s as [|x [|y r]]; cbn [rev app]; pops; try reflexivity.
    rewrite (Z.eqb_sym (num_of x) (num_of y)). destruct (num_of y =? num_of x); pops; [fin Ha | reflexivity].
  Qed.
  Lemma ref_within :
    refines (op_within st)
      (match s with mx :: mn :: x :: r => Some (bool_enc ((num_of mn <=? num_of x) && (num_of x <? num_of mx)) :: r, a) | _ => None end).
  Proof.
    unfold op_within. rewrite Hs. destruct s as [|x [|y [|z r]]]; cbn [rev app]; pops; try reflexivity. fin Ha.
  Qed.
  Lemma ref_bin2num : refines (op_bin2num st) (match un (fun z => z) s with Some s' => Some (s', a) | None => None end).
  Proof. unfold op_bin2num, un. rewrite Hs. destruct s as [|x r]; cbn [rev]; pops; [reflexivity|]. fin Ha. Qed.
  Lemma ref_hash h g : (forall m, h m = g m) ->
    refines (op_hash h st) (match hashop g s with Some s' => Some (s', a) | None => None end).
  Proof.
    intros H. unfold op_hash, hashop. rewrite Hs. destruct s as [|x r]; cbn [rev]; pops; [reflexivity|]. rewrite H. fin Ha.
  Qed.

  Lemma ref_size : refines (op_size st)
    (match s with x :: r => if too_big true (length x) then None else Some (num_enc (Z.of_nat (length x)) :: x :: r, a) | _ => None end).
  Proof.
    unfold op_size, too_big. rewrite Hs. destruct s as [|x r]; cbn [rev]; pops; [reflexivity|]. cbn [andb].
    destruct (Z.ltb_spec 2147483647 (Z.of_nat (length x))) as [L|L].
    - unfold push_number. replace ((2147483647 <? Z.of_nat (length x)) || (Z.of_nat (length x) <? -2147483648)) with true by lia.
      reflexivity.
    - rewrite push_number_nonneg by lia. pops. fin Ha.
  Qed.

  (* ---------------- ops that index into the Vec ---------------- *)
  Lemma ref_nip : refines (op_nip st) (match s with b :: _ :: r => Some (b :: r, a) | _ => None end).
  Proof.
    unfold op_nip. rewrite Hs. destruct s as [|x [|y r]]; try reflexivity.
    cbn [rev]. rewrite <- app_assoc. cbn [app]. set (l := rev r).
    rewrite !app_length. cbn [length]. replace (Nat.ltb (length l + 2) 2) with false by (symmetry; apply Nat.ltb_ge; lia).
    rewrite usub_ok by lia. replace (length l + 2 - 2)%nat with (length l) by lia. cbn [bind].
    rewrite vremove_app. cbn [bind snd]. fin Ha.
  Qed.

  Lemma ref_over : refines (op_over st) (match s with b :: a0 :: r => Some (a0 :: b :: a0 :: r, a) | _ => None end).
  Proof.
    unfold op_over. rewrite Hs. destruct s as [|x [|y r]]; try reflexivity.
    cbn [rev]. rewrite <- app_assoc. cbn [app]. set (l := rev r).
    rewrite !app_length. cbn [length]. replace (Nat.ltb (length l + 2) 2) with false by (symmetry; apply Nat.ltb_ge; lia).
    rewrite usub_ok by lia. replace (length l + 2 - 2)%nat with (length l) by lia. cbn [bind].
    rewrite nth_error_app_len. cbn [of_option bind]. fin Ha.
  Qed.

  Lemma ref_rot : refines (op_rot st) (match s with c :: b :: a0 :: r => Some (a0 :: c :: b :: r, a) | _ => None end).
  Proof.
    unfold op_rot. rewrite Hs. destruct s as [|x [|y [|z r]]]; try reflexivity.
    cbn [rev]. rewrite <- !app_assoc. cbn [app]. set (l := rev r).
    rewrite !app_length. cbn [length]. replace (Nat.ltb (length l + 3) 3) with false by (symmetry; apply Nat.ltb_ge; lia).
    rewrite usub_ok by lia. replace (length l + 3 - 3)%nat with (length l) by lia. cbn [bind].
    rewrite vremove_app. cbn [bind]. fin Ha.
  Qed.

  Lemma ref_swap : refines (op_swap st) (match s with b :: a0 :: r => Some (a0 :: b :: r, a) | _ => None end).
  Proof.
    unfold op_swap. rewrite Hs. destruct s as [|x [|y r]]; try reflexivity.
    cbn [rev]. rewrite <- app_assoc. cbn [app]. set (l := rev r).
    rewrite !app_length. cbn [length]. replace (Nat.ltb (length l + 2) 2) with false by (symmetry; apply Nat.ltb_ge; lia).
    rewrite !usub_ok by lia. cbn [bind].
    replace (length l + 2 - 1)%nat with (S (length l)) by lia. replace (length l + 2 - 2)%nat with (length l) by lia.
    rewrite vswap_app. cbn [bind]. fin Ha.
  Qed.

  Lemma ref_tuck : refines (op_tuck st) (match s with b :: a0 :: r => Some (b :: a0 :: b :: r, a) | _ => None end).
  Proof.
    unfold op_tuck. rewrite Hs. destruct s as [|x [|y r]]; try reflexivity.
    cbn [rev]. rewrite split_last_app. rewrite <- app_assoc. cbn [app]. set (l := rev r).
    rewrite !app_length. cbn [length]. replace (Nat.ltb (length l + 2) 2) with false by (symmetry; apply Nat.ltb_ge; lia).
    rewrite usub_ok by lia. replace (length l + 2 - 2)%nat with (length l) by lia. cbn [bind].
    rewrite vinsert_app. cbn [bind]. fin Ha.
  Qed.

  Lemma ref_2dup : refines (op_2dup st) (match s with b :: a0 :: r => Some (b :: a0 :: b :: a0 :: r, a) | _ => None end).
  Proof.
    unfold op_2dup. rewrite Hs. destruct s as [|x [|y r]]; try reflexivity.
    cbn [rev]. rewrite split_last_app. rewrite <- app_assoc. cbn [app]. set (l := rev r).
    rewrite !app_length. cbn [length]. replace (Nat.ltb (length l + 2) 2) with false by (symmetry; apply Nat.ltb_ge; lia).
    rewrite usub_ok by lia. replace (length l + 2 - 2)%nat with (length l) by lia. cbn [bind].
    rewrite nth_error_app_len. cbn [of_option bind]. fin Ha.
  Qed.

  Lemma ref_3dup : refines (op_3dup st) (match s with c :: b :: a0 :: r => Some (c :: b :: a0 :: c :: b :: a0 :: r, a) | _ => None end).
  Proof.
    unfold op_3dup. rewrite Hs. destruct s as [|x [|y [|z r]]]; try reflexivity.
    cbn [rev]. rewrite split_last_app. rewrite <- !app_assoc. cbn [app]. set (l := rev r).
    rewrite !app_length. cbn [length]. replace (Nat.ltb (length l + 3) 3) with false by (symmetry; apply Nat.ltb_ge; lia).
    rewrite !usub_ok by lia. replace (length l + 3 - 3)%nat with (length l) by lia.
    replace (length l + 3 - 2)%nat with (length (l ++ [z])) by (rewrite app_length; cbn [length]; lia). cbn [bind].
    change (l ++ z :: y :: [x]) with (l ++ [z] ++ y :: [x]). rewrite (app_assoc l [z]). rewrite nth_error_app_len.
    rewrite <- app_assoc. cbn [app of_option bind]. rewrite nth_error_app_len. cbn [of_option bind].
    fin Ha.
  Qed.

  Lemma ref_2over : refines (op_2over st) (match s with d :: c :: b :: a0 :: r => Some (b :: a0 :: d :: c :: b :: a0 :: r, a) | _ => None end).
  Proof.
    unfold op_2over. rewrite Hs. destruct s as [|x [|y [|z [|w r]]]]; try reflexivity.
    cbn [rev]. rewrite <- !app_assoc. cbn [app]. set (l := rev r).
    rewrite !app_length. cbn [length]. replace (Nat.ltb (length l + 4) 4) with false by (symmetry; apply Nat.ltb_ge; lia).
    rewrite !usub_ok by lia. replace (length l + 4 - 4)%nat with (length l) by lia.
    replace (length l + 4 - 3)%nat with (length (l ++ [w])) by (rewrite app_length; cbn [length]; lia). cbn [bind].
    unfold vindex.
    change (l ++ w :: z :: y :: [x]) with (l ++ [w] ++ z :: y :: [x]). rewrite (app_assoc l [w]). rewrite nth_error_app_len.
    rewrite <- app_assoc. cbn [app bind]. rewrite nth_error_app_len. cbn [bind].
    fin Ha.
  Qed.

  Lemma ref_2rot : refines (op_2rot st)
    (match s with f :: e :: d :: c :: b :: a0 :: r => Some (b :: a0 :: f :: e :: d :: c :: r, a) | _ => None end).
  Proof.
    unfold op_2rot. rewrite Hs. destruct s as [|x1 [|x2 [|x3 [|x4 [|x5 [|x6 r]]]]]]; try reflexivity.
    cbn [rev]. rewrite <- !app_assoc. cbn [app]. set (l := rev r).
    rewrite !app_length. cbn [length]. replace (Nat.ltb (length l + 6) 6) with false by (symmetry; apply Nat.ltb_ge; lia).
    rewrite !usub_ok by lia. replace (length l + 6 - 6)%nat with (length l) by lia. cbn [bind].
    rewrite vremove_app. cbn [bind]. rewrite vremove_app. cbn [bind].
    fin Ha.
  Qed.

  Lemma ref_pick : refines (op_pick st)
    (match s with
     | n :: r => let k := num_of n in
                 if (k <? 0) || (Z.of_nat (length r) <=? k) || over_usize true k then None
                 else match nth_error r (Z.to_nat k) with Some x => Some (x :: r, a) | None => None end
     | _ => None
     end).
  Proof.
    unfold op_pick. rewrite Hs. destruct s as [|n r]; cbn [rev]; pops; [reflexivity|].
    rewrite rev_length. cbv zeta. unfold over_usize. cbn [andb].
    destruct ((num_of n <? 0) || (Z.of_nat (length r) <=? num_of n)) eqn:G; [reflexivity|]. cbn [orb].
    unfold usize_try_from. replace (num_of n <? 0) with false by lia. cbn [orb].
    destruct (18446744073709551615 <? num_of n); [reflexivity|]. cbn [bind].
    assert (K : (Z.to_nat (num_of n) < length r)%nat) by lia.
    rewrite usub_ok by lia. cbn [bind]. rewrite usub_ok by lia. cbn [bind]. rewrite nth_error_rev by exact K.
    destruct (nth_error r (Z.to_nat (num_of n))) as [x|]; cbn [of_option bind]; [|reflexivity]. fin Ha.
  Qed.

  Lemma ref_roll : refines (op_roll st)
    (match s with
     | n :: r => let k := num_of n in
                 if (k <? 0) || (Z.of_nat (length r) <=? k) || over_usize true k then None
                 else match nth_error r (Z.to_nat k) with
                      | Some x => Some (x :: firstn (Z.to_nat k) r ++ skipn (S (Z.to_nat k)) r, a)
                      | None => None
                      end
     | _ => None
     end).
  Proof.
    unfold op_roll. rewrite Hs. destruct s as [|n r]; cbn [rev]; pops; [reflexivity|].
    rewrite rev_length. cbv zeta. unfold over_usize. cbn [andb].
    destruct ((num_of n <? 0) || (Z.of_nat (length r) <=? num_of n)) eqn:G; [reflexivity|]. cbn [orb].
    unfold usize_try_from. replace (num_of n <? 0) with false by lia. cbn [orb].
    destruct (18446744073709551615 <? num_of n); [reflexivity|]. cbn [bind].
    assert (K : (Z.to_nat (num_of n) < length r)%nat) by lia.
    rewrite usub_ok by lia. cbn [bind]. rewrite usub_ok by lia. cbn [bind].
    destruct (nth_error r (Z.to_nat (num_of n))) as [x|] eqn:E; [|apply nth_error_None in E; lia].
    rewrite (vremove_rev _ _ _ E). cbn [bind]. fin Ha.
  Qed.

  Lemma ref_split : refines (op_split st)
    (match s with
     | n :: x :: r => let k := num_of n in
                      if (k <? 0) || (Z.of_nat (length x) <? k) || over_usize true k then None
                      else Some (skipn (Z.to_nat k) x :: firstn (Z.to_nat k) x :: r, a)
     | _ => None
     end).
  Proof.
    unfold op_split. rewrite Hs. destruct s as [|n [|x r]]; cbn [rev app]; pops; try reflexivity.
    cbv zeta. unfold over_usize. cbn [andb].
    destruct ((num_of n <? 0) || (Z.of_nat (length x) <? num_of n)) eqn:G; [reflexivity|]. cbn [orb].
    unfold usize_try_from. replace (num_of n <? 0) with false by lia. cbn [orb].
    destruct (18446744073709551615 <? num_of n); [reflexivity|]. cbn [bind].
    replace (Nat.leb (Z.to_nat (num_of n)) (length x)) with true by (symmetry; apply Nat.leb_le; lia).
    fin Ha.
  Qed.
End Ops.

(* ------------------------------------------------------------------ *)
(* the opcodes on which the library and Bitcoin SV agree (everything the library implements except the
   recorded findings OP_RETURN, OP_NUM2BIN, OP_LSHIFT, OP_RSHIFT; conditionals are handled by the
   script-level theorem, the CHECKSIG family by C15) *)
Definition agreed_ops : list N :=
  [0; 79; 81; 82; 83; 84; 85; 86; 87; 88; 89; 90; 91; 92; 93; 94; 95; 96;
   97; 176; 179; 180; 181; 182; 183; 184; 185; 171;
   105; 107; 108; 115; 116; 117; 118; 119; 120; 121; 122; 123; 124; 125; 109; 110; 111; 112; 113; 114;
   126; 127; 129; 130; 131; 132; 133; 134; 135; 136;
   139; 140; 141; 142; 143; 144; 145; 146; 147; 148; 149; 150; 151;
   154; 155; 156; 157; 158; 159; 160; 161; 162; 163; 164; 165;
   166; 167; 168; 169; 170;
   80; 98; 137; 138]%N.
Definition agreed_op (o : N) : bool := existsb (N.eqb o) agreed_ops.

Lemma f146 z : (if z =? 0 then 0 else 1) = (if negb (z =? 0) then 1 else 0).
Proof. destruct (z =? 0); reflexivity. Qed.
Lemma fabs z : (if z <? 0 then - z else z) = Z.abs z.
Proof. destruct (Z.ltb_spec z 0); lia. Qed.
Lemma fmin t u : (if u <? t then u else t) = Z.min u t.
Proof. destruct (Z.ltb_spec u t); lia. Qed.
Lemma fmax t u : (if t <? u then u else t) = Z.max u t.
Proof. destruct (Z.ltb_spec t u); lia. Qed.
Lemma fadd t u : t + u = Z.add u t.
Proof. lia. Qed.
Lemma fmul t u : t * u = Z.mul u t.
Proof. lia. Qed.
Lemma feq t u : (t =? u) = Z.eqb u t.
Proof. apply Z.eqb_sym. Qed.
Lemma fneq t u : negb (t =? u) = negb (u =? t).
Proof. rewrite Z.eqb_sym. reflexivity. Qed.
Lemma fgt t u : (t <? u) = Z.gtb u t.
Proof. rewrite Z.gtb_ltb. reflexivity. Qed.
Lemma fge t u : (t <=? u) = Z.geb u t.
Proof. rewrite Z.geb_leb. reflexivity. Qed.
Lemma fand p q : andb (truthy p) (truthy q) = negb (num_of q =? 0) && negb (num_of p =? 0).
Proof. rewrite !truthy_num. apply andb_comm. Qed.
Lemma for_ p q : orb (truthy p) (truthy q) = negb (num_of q =? 0) || negb (num_of p =? 0).
Proof. rewrite !truthy_num. apply orb_comm. Qed.

Definition notx : Type := Empty_set.
Definition nopre (t : notx) (_ : nat) (_ : bytes) : outcome bytes := match t with end.
Definition nover (t : notx) (_ _ _ : bytes) : outcome bool := match t with end.
Notation match_opcode0 := (match_opcode notx nopre nover).

Definition op_ok (o : N) : Prop :=
  forall idx st, refines (match_opcode0 idx o st None) (spec_op true o (absS st)).

(* bridge a per-arm lemma to the dispatching forms by computing both dispatchers *)
Ltac br L :=
  let s := fresh "s" in let a := fresh "a" in let Hs := fresh "Hs" in let Ha := fresh "Ha" in
  unfold absS;
  match goal with |- refines _ (spec_op _ _ (rev (stack ?st), rev (alt_stack ?st))) =>
    set (s := rev (stack st)); set (a := rev (alt_stack st));
    assert (Hs : stack st = rev s) by (subst s; rewrite rev_involutive; reflexivity);
    assert (Ha : rev (alt_stack st) = a) by reflexivity;
    generalize (L st s a Hs Ha); clearbody s a; clear Hs Ha;
    destruct a as [|? ?]; destruct s as [|? [|? [|? [|? [|? [|? ?]]]]]]; intros L';
    first
    [ exact L'
    | revert L'; cbv zeta; cbn [spec_op main_op un bin binb hashop bitop too_big over_usize andb];
      repeat match goal with |- context [if ?c then _ else _] => destruct c end;
      repeat match goal with |- context [match nth_error ?r ?k with _ => _ end] => destruct (nth_error r k) end;
      intros L'; exact L' ]
  end.

Ltac solve_op idx :=
  first
  [ br (fun st s a Hs Ha => ref_push_number st s a Hs Ha 0 eq_refl)
  | br (fun st s a Hs Ha => ref_push_number st s a Hs Ha (-1) eq_refl)
  | br (fun st s a Hs Ha => ref_push_number st s a Hs Ha 1 eq_refl) | br (fun st s a Hs Ha => ref_push_number st s a Hs Ha 2 eq_refl)
  | br (fun st s a Hs Ha => ref_push_number st s a Hs Ha 3 eq_refl) | br (fun st s a Hs Ha => ref_push_number st s a Hs Ha 4 eq_refl)
  | br (fun st s a Hs Ha => ref_push_number st s a Hs Ha 5 eq_refl) | br (fun st s a Hs Ha => ref_push_number st s a Hs Ha 6 eq_refl)
  | br (fun st s a Hs Ha => ref_push_number st s a Hs Ha 7 eq_refl) | br (fun st s a Hs Ha => ref_push_number st s a Hs Ha 8 eq_refl)
  | br (fun st s a Hs Ha => ref_push_number st s a Hs Ha 9 eq_refl) | br (fun st s a Hs Ha => ref_push_number st s a Hs Ha 10 eq_refl)
  | br (fun st s a Hs Ha => ref_push_number st s a Hs Ha 11 eq_refl) | br (fun st s a Hs Ha => ref_push_number st s a Hs Ha 12 eq_refl)
  | br (fun st s a Hs Ha => ref_push_number st s a Hs Ha 13 eq_refl) | br (fun st s a Hs Ha => ref_push_number st s a Hs Ha 14 eq_refl)
  | br (fun st s a Hs Ha => ref_push_number st s a Hs Ha 15 eq_refl) | br (fun st s a Hs Ha => ref_push_number st s a Hs Ha 16 eq_refl)
  | br ref_nop
  | br (fun st s a Hs Ha => ref_codeseparator st s a Hs Ha idx)
  | br ref_verify | br ref_toaltstack | br ref_fromaltstack | br ref_ifdup | br ref_depth | br ref_drop | br ref_dup
  | br ref_nip | br ref_over | br ref_pick | br ref_roll | br ref_rot | br ref_swap | br ref_tuck
  | br ref_2drop | br ref_2dup | br ref_3dup | br ref_2over | br ref_2rot | br ref_2swap
  | br ref_cat | br ref_split | br ref_bin2num | br ref_size | br ref_invert
  | br (fun st s a Hs Ha => ref_bitwise st s a Hs Ha band N.land (fun _ _ => eq_refl))
  | br (fun st s a Hs Ha => ref_bitwise st s a Hs Ha bor N.lor (fun _ _ => eq_refl))
  | br (fun st s a Hs Ha => ref_bitwise st s a Hs Ha bxor2 N.lxor (fun _ _ => eq_refl))
  | br ref_equal | br ref_equalverify
  | br (fun st s a Hs Ha => ref_unary st s a Hs Ha _ (fun a => a + 1) (fun _ => eq_refl))
  | br (fun st s a Hs Ha => ref_unary st s a Hs Ha _ (fun a => a - 1) (fun _ => eq_refl))
  | br (fun st s a Hs Ha => ref_unary st s a Hs Ha _ (fun a => a * 2) (fun _ => eq_refl))
  | br (fun st s a Hs Ha => ref_unary st s a Hs Ha _ (fun a => Z.quot a 2) (fun _ => eq_refl))
  | br (fun st s a Hs Ha => ref_unary st s a Hs Ha _ Z.opp (fun _ => eq_refl))
  | br (fun st s a Hs Ha => ref_unary st s a Hs Ha _ Z.abs fabs)
  | br (fun st s a Hs Ha => ref_unary_bool st s a Hs Ha _ (fun z => z =? 0) (fun _ => eq_refl))
  | br (fun st s a Hs Ha => ref_unary_bool st s a Hs Ha _ (fun z => negb (z =? 0)) f146)
  | br (fun st s a Hs Ha => ref_binary st s a Hs Ha _ Z.add fadd)
  | br (fun st s a Hs Ha => ref_binary st s a Hs Ha _ Z.sub (fun _ _ => eq_refl))
  | br (fun st s a Hs Ha => ref_binary st s a Hs Ha _ Z.mul fmul)
  | br (fun st s a Hs Ha => ref_binary st s a Hs Ha _ Z.min fmin)
  | br (fun st s a Hs Ha => ref_binary st s a Hs Ha _ Z.max fmax)
  | br (fun st s a Hs Ha => ref_divmod st s a Hs Ha Z.quot)
  | br (fun st s a Hs Ha => ref_divmod st s a Hs Ha Z.rem)
  | br (fun st s a Hs Ha => ref_boolop st s a Hs Ha andb (fun a b => negb (a =? 0) && negb (b =? 0)) fand)
  | br (fun st s a Hs Ha => ref_boolop st s a Hs Ha orb (fun a b => negb (a =? 0) || negb (b =? 0)) for_)
  | br (fun st s a Hs Ha => ref_binary_bool st s a Hs Ha _ Z.eqb feq)
  | br (fun st s a Hs Ha => ref_binary_bool st s a Hs Ha _ (fun a b => negb (a =? b)) fneq)
  | br (fun st s a Hs Ha => ref_binary_bool st s a Hs Ha _ Z.ltb (fun _ _ => eq_refl))
  | br (fun st s a Hs Ha => ref_binary_bool st s a Hs Ha _ Z.gtb fgt)
  | br (fun st s a Hs Ha => ref_binary_bool st s a Hs Ha _ Z.leb (fun _ _ => eq_refl))
  | br (fun st s a Hs Ha => ref_binary_bool st s a Hs Ha _ Z.geb fge)
  | br ref_numequalverify | br ref_within
  | br (fun st s a Hs Ha => ref_hash st s a Hs Ha _ _ ripemd_160_def)
  | br (fun st s a Hs Ha => ref_hash st s a Hs Ha _ _ sha_1_def)
  | br (fun st s a Hs Ha => ref_hash st s a Hs Ha _ _ sha_256_def)
  | br (fun st s a Hs Ha => ref_hash st s a Hs Ha _ _ hash_160_def)
  | br (fun st s a Hs Ha => ref_hash st s a Hs Ha _ _ sha_256d_def)
  | (unfold absS; destruct (rev (stack _)), (rev (alt_stack _)); reflexivity) ].

Lemma agreed_ops_ok : Forall op_ok agreed_ops.
Proof.
  unfold agreed_ops.
  repeat (apply Forall_cons; [intros idx st; solve_op idx|]). apply Forall_nil.
Qed.

(* C14.1 — one statement for all agreed opcodes *)
Theorem op_refines o : agreed_op o = true -> op_ok o.
Proof.
  intros H. unfold agreed_op in H. apply existsb_exists in H. destruct H as (x & Hin & E).
  apply N.eqb_eq in E. subst x. pose proof agreed_ops_ok as F. rewrite Forall_forall in F. apply F. exact Hin.
Qed.
