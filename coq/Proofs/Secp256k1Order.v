(* Proofs/Secp256k1Order.v — n * G is the point at infinity, by evaluation of the reference (Z) instance
   (about 30 s of vm_compute; kept in its own file so that it is compiled once). *)
From BSV Require Import Base.Bytes Prim.Num Prim.Secp256k1.
Local Open Scope Z_scope.

Lemma order_G : smul secp_n G = None.
Proof. vm_compute. reflexivity. Qed.

Lemma G_on_curve : on_curve G = true.
Proof. vm_compute. reflexivity. Qed.
