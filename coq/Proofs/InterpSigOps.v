(* Proofs/InterpSigOps.v — C15, part 2: checksig and multisig (Model/Interp.v) instantiated with the
   transaction side of Model/InterpSig.v, at the level of the interpreter state:
     * neither transaction-side function can panic, for any context (this discharges the two hypotheses of C16);
     * checksig accepts exactly when the specification calls the signature valid for the key;
     * the greedy in-order scan of multisig accepts exactly when the signatures can be matched to a subsequence of
       the keys with every pair valid (Spec/SpendSpec.ms_ok), with the stack protocol n keys / m signatures / dummy. *)
From BSV Require Import Base.Bytes Base.Hex.
From BSV Require Import Prim.Num Prim.Secp256k1 Prim.Der Prim.Sha256.
From BSV Require Import Model.Opcodes Model.Script Model.VarInt Model.Tx Model.HashApi Model.Sighash Model.Ecdsa Model.Sig
  Model.Interp Model.InterpSig.
From BSV Require Import Spec.ScriptTok Spec.SighashWire Spec.Bip143 Spec.LegacySighash Spec.SpendSpec.
From BSV Require Import Proofs.ScriptProofs Proofs.SighashProofs Proofs.LegacyProofs Proofs.InterpTotal Proofs.InterpSigProofs.
Local Open Scope list_scope.
Local Open Scope nat_scope.

Notation SP := sig_preimage.
Notation SV := (sig_verify ref_prims).

(* ------------------------------------------------------------------ *)
(* totality of the transaction side, for every context *)
Lemma nth_error_set_nth {A} (l : list A) : forall k x, k < length l -> nth_error (set_nth k x l) k = Some x.
Proof.
  induction l as [|y l IH]; intros [|k] x Hk; cbn [length] in Hk; try lia; cbn [set_nth nth_error]; [reflexivity|].
  apply IH. lia.
Qed.
Lemma set_nth_length {A} (l : list A) : forall k x, length (set_nth k x l) = length l.
Proof. induction l as [|y l IH]; intros [|k] x; cbn [set_nth length]; try reflexivity. rewrite IH. reflexivity. Qed.
Lemma map_except_length {A} (f : A -> A) (l : list A) : forall from idx, length (map_except from idx f l) = length l.
Proof. induction l as [|y l IH]; intros from idx; cbn [map_except length]; [reflexivity|]. rewrite IH. reflexivity. Qed.

Lemma sighash_legacy_no_panic t i f sub : sighash_legacy t i f sub <> Panic.
Proof.
  unfold sighash_legacy.
  destruct (nth_error (map (fun i0 => set_unlocking i0 []) (inputs t)) i) as [prev|] eqn:Eprev; [|discriminate].
  assert (Hi : i < length (map (fun i0 => set_unlocking i0 []) (inputs t))) by (apply nth_error_Some; congruence).
  set (ins1 := set_nth i _ _).
  assert (L1 : length ins1 = length (map (fun i0 => set_unlocking i0 []) (inputs t))) by apply set_nth_length.
  assert (Hsome : forall ins2 : list txin, length ins2 = length ins1 -> nth_error ins2 i <> None).
  { intros ins2 L2. apply nth_error_Some. lia. }
  destruct (inN f [SH_SINGLE; SH_Legacy_InputOutput]).
  - destruct (nth_error (outputs t) i); cbn [bind]; [|discriminate].
    destruct (SH_ANYONECANPAY <=? f)%N; cbn [bind]; [|discriminate].
    destruct (nth_error (map_except 0 i _ ins1) i) eqn:E; cbn [bind]; [discriminate|].
    exfalso. apply (Hsome _ (map_except_length _ _ _ _)) in E. exact E.
  - destruct (inN f [SH_NONE; SH_Legacy_Input]); cbn [bind].
    + destruct (SH_ANYONECANPAY <=? f)%N; cbn [bind]; [|discriminate].
      destruct (nth_error (map_except 0 i _ ins1) i) eqn:E; cbn [bind]; [discriminate|].
      exfalso. apply (Hsome _ (map_except_length _ _ _ _)) in E. exact E.
    + destruct (SH_ANYONECANPAY <=? f)%N; cbn [bind]; [|discriminate].
      destruct (nth_error ins1 i) eqn:E; cbn [bind]; [discriminate|].
      exfalso. apply (Hsome _ eq_refl) in E. exact E.
Qed.

Lemma sighash_preimage_no_panic H t i f sub v : sighash_preimage H t i f sub v <> Panic.
Proof.
  unfold sighash_preimage. destruct (is_forkid_variant f); [|apply sighash_legacy_no_panic].
  unfold sighash_bip143. destruct (nth_error (inputs t) i); [|discriminate].
  unfold Model.Sighash.hash_outputs.
  destruct (hash_outputs_single f).
  - destruct (Nat.ltb (length (outputs t)) i); [discriminate|]. destruct (nth_error (outputs t) i); discriminate.
  - destruct (hash_outputs_all f); discriminate.
Qed.

Theorem sig_preimage_total : forall (c : txctx) cs sg, SP c cs sg <> Panic.
Proof.
  intros c cs sg. unfold sig_preimage. destruct (last_opt sg) as [b|]; [|discriminate].
  destruct (is_flag b); [|discriminate]. unfold calculate_sighash_preimage.
  destruct (nth_error (inputs (ctx_tx c)) (ctx_idx c)) as [i|]; [|discriminate].
  destruct (locking i) as [l|]; [|discriminate].
  destruct (Nat.ltb (length l) (cs - length (unlocking i))); [discriminate|].
  destruct (satoshis i); [|discriminate]. apply sighash_preimage_no_panic.
Qed.
Theorem sig_verify_total : forall (c : txctx) pre sg pk, SV c pre sg pk <> Panic.
Proof. exact sig_verify_no_panic. Qed.

(* ------------------------------------------------------------------ *)
(* order-preserving matching: structural facts *)
Section MsOk.
  Context {A B : Type} (V : A -> B -> Prop).

  Lemma ms_ok_prefix sigs ks p : ms_ok V sigs ks -> ms_ok V sigs (p ++ ks).
  Proof.
    intros Hm. induction p as [|k p IH]; [exact Hm|]. cbn [app].
    destruct sigs as [|s r]; [apply ms_done|]. apply ms_skip. exact IH.
  Qed.

  Lemma ms_ok_cons_inv s r ks :
    ms_ok V (s :: r) ks -> exists p k rest, ks = p ++ k :: rest /\ V s k /\ ms_ok V r rest.
  Proof.
    intros Hm. remember (s :: r) as sr eqn:E. induction Hm as [ks|s' r' k ks Hv Hm _|s' r' k ks Hm IH]; [discriminate| |].
    - inversion E; subst. exists [], k, ks. repeat split; assumption.
    - destruct (IH E) as (p & k0 & rest & -> & Hv & Hr). exists (k :: p), k0, rest. repeat split; assumption.
  Qed.

  (* the same with the chosen keys named *)
  Lemma ms_ok_injection sigs ks : ms_ok V sigs ks <-> ms_injection V sigs ks.
  Proof.
    unfold ms_injection. split.
    - intros Hm. induction Hm as [ks|s r k ks Hv Hm IH|s r k ks Hm IH].
      + exists []. split; [apply sub_nil|constructor].
      + destruct IH as (sel & Hs & Hf). exists (k :: sel). split; [apply sub_take; exact Hs|constructor; assumption].
      + destruct IH as (sel & Hs & Hf). exists sel. split; [apply sub_skip; exact Hs|exact Hf].
    - intros (sel & Hs & Hf). revert sigs Hf. induction Hs as [l|x s l Hs IH|x s l Hs IH]; intros sigs Hf.
      + inversion Hf; subst. apply ms_done.
      + inversion Hf as [|a b la lb Hv Hf']; subst. apply ms_take; [exact Hv|apply IH; exact Hf'].
      + destruct sigs as [|a la]; [apply ms_done|]. apply ms_skip. apply IH. exact Hf.
  Qed.

  (* the exhaustive search of the specification decides it *)
  Lemma ms_search_spec (vb : A -> B -> bool) :
    (forall a b, vb a b = true <-> V a b) ->
    forall sigs ks, ms_search vb sigs ks = true <-> ms_ok V sigs ks.
  Proof.
    intros Hvb. induction sigs as [|s r IH]; intros ks; cbn [ms_search].
    - split; [intros _; apply ms_done|reflexivity].
    - induction ks as [|k ks IHk].
      + split; [discriminate|]. intros Hm. inversion Hm.
      + destruct (vb s k) eqn:Ev.
        * destruct (ms_search vb r ks) eqn:Er.
          -- split; [intros _|reflexivity]. apply ms_take; [apply Hvb; exact Ev|apply IH; exact Er].
          -- rewrite IHk. split; [apply ms_skip|]. intros Hm. inversion Hm as [|? ? ? ? Hv Hr|? ? ? ? Hr]; subst; [|exact Hr].
             apply IH in Hr. congruence.
        * rewrite IHk. split; [apply ms_skip|]. intros Hm. inversion Hm as [|? ? ? ? Hv Hr|? ? ? ? Hr]; subst; [|exact Hr].
          apply Hvb in Hv. congruence.
  Qed.
End MsOk.

(* ------------------------------------------------------------------ *)
(* pops *)
Lemma pop_bytes_snoc (s : list bytes) x : pop_bytes (s ++ [x]) = Ok (x, s).
Proof. unfold pop_bytes. rewrite split_last_app. reflexivity. Qed.

Definition small_num (k : nat) : bytes := [n2b (N.of_nat k)].

Lemma pop_number_small (s : list bytes) k : 1 <= k <= 16 -> pop_number (s ++ [small_num k]) = Ok (Z.of_nat k, s).
Proof.
  intros Hk. unfold pop_number. rewrite pop_bytes_snoc. cbn [bind].
  do 17 (destruct k as [|k]; [try lia; try (vm_compute; reflexivity)|]). lia.
Qed.

(* ------------------------------------------------------------------ *)
Section Ops.
  Variables (c : txctx) (i : txin) (l : list bit) (v : N) (st : state).
  Hypothesis Hin : nth_error (inputs (ctx_tx c)) (ctx_idx c) = Some i.
  Hypothesis Hlock : locking i = Some l.
  Hypothesis Hsat : satoshis i = Some v.
  Hypothesis Hoff : codesep st - length (unlocking i) <= length l.
  Hypothesis Hplain : plain_bits l = true.
  Let cs := codesep st.
  Let code := flatten (skipn (cs - length (unlocking i)) l).
  Let wt := view_tx (ctx_tx c).
  Let Vspec (sg pk : bytes) : Prop := spec_sig_valid wt (ctx_idx c) code v sg pk = true.
  Let Vimpl (sg pk : bytes) : Prop := pair_ok c cs sg pk.

  Notation cksig := (checksig txctx SP SV).
  Notation msig := (multisig txctx SP SV).
  Notation loop := (multisig_loop txctx SP SV).
  Notation tryk := (try_keys txctx SV).

  Lemma Vimpl_Vspec sg pk : outside_flag sg = false -> (Vimpl sg pk <-> Vspec sg pk).
  Proof. intros Ho. exact (pair_ok_iff c i l v cs Hin Hlock Hsat Hoff Hplain sg pk Ho). Qed.

  (* ---- OP_CHECKSIG ---- *)
  Lemma checksig_shape s2 sg pk :
    stack st = s2 ++ [sg; pk] ->
    cksig st c = Err \/ exists b, cksig st c = Ok (b, with_stack st s2).
  Proof.
    intros Hst. unfold checksig. rewrite Hst. change (s2 ++ [sg; pk]) with (s2 ++ [sg] ++ [pk]).
    rewrite app_assoc, pop_bytes_snoc. cbn [bind]. rewrite pop_bytes_snoc. cbn [bind].
    pose proof (sig_preimage_total c (codesep st) sg) as Hp.
    destruct (SP c (codesep st) sg) as [pre| |]; cbn [bind]; [|left; reflexivity|contradiction].
    pose proof (sig_verify_total c pre sg pk) as Hv.
    destruct (SV c pre sg pk) as [b| |]; cbn [bind]; [|left; reflexivity|contradiction].
    right. exists b. reflexivity.
  Qed.

  Lemma checksig_accept_iff s2 sg pk :
    stack st = s2 ++ [sg; pk] -> outside_flag sg = false ->
    (cksig st c = Ok (true, with_stack st s2) <-> Vspec sg pk).
  Proof.
    intros Hst Ho. rewrite <- (Vimpl_Vspec sg pk Ho). unfold Vimpl, pair_ok, cs.
    unfold checksig. rewrite Hst. change (s2 ++ [sg; pk]) with (s2 ++ [sg] ++ [pk]).
    rewrite app_assoc, pop_bytes_snoc. cbn [bind]. rewrite pop_bytes_snoc. cbn [bind]. split.
    - destruct (SP c (codesep st) sg) as [pre| |]; cbn [bind]; try discriminate.
      destruct (SV c pre sg pk) as [b| |] eqn:Ev; cbn [bind]; try discriminate.
      intros E. inversion E; subst b. exists pre. split; [reflexivity|exact Ev].
    - intros (pre & Hp & Hv). rewrite Hp. cbn [bind]. rewrite Hv. reflexivity.
  Qed.

  (* ---- the scan of OP_CHECKMULTISIG ---- *)
  Lemma try_keys_sound pre sg : forall keys hit keys',
    tryk c pre sg keys = Ok (hit, keys') ->
    if hit then exists p k, keys = p ++ k :: keys' /\ SV c pre sg k = Ok true
    else keys' = [].
  Proof.
    induction keys as [|k r IH]; intros hit keys' E; cbn [try_keys] in E.
    - inversion E; subst. reflexivity.
    - destruct (SV c pre sg k) as [b| |] eqn:Ev; cbn [bind] in E; try discriminate.
      destruct b.
      + inversion E; subst. exists [], k. split; [reflexivity|exact Ev].
      + specialize (IH hit keys' E). destruct hit; [|exact IH].
        destruct IH as (p & k0 & -> & Hk0). exists (k :: p), k0. split; [reflexivity|exact Hk0].
  Qed.

  Lemma loop_sound : forall sigs keys z z',
    loop c cs sigs keys z = Ok z' ->
    (z <= z' <= z + Z.of_nat (length sigs))%Z /\
    (z' = (z + Z.of_nat (length sigs))%Z -> ms_ok Vimpl sigs keys).
  Proof.
    induction sigs as [|sg r IH]; intros keys z z' E; cbn [multisig_loop] in E.
    - inversion E; subst. cbn [length]. split; [lia|]. intros _. apply ms_done.
    - destruct (SP c cs sg) as [pre| |] eqn:Ep; cbn [bind] in E; try discriminate.
      destruct (tryk c pre sg keys) as [[hit keys']| |] eqn:Et; cbn [bind] in E; try discriminate.
      apply try_keys_sound in Et. destruct (IH _ _ _ E) as [Hr Hm]. cbn [length]. destruct hit.
      + split; [lia|]. intros Hz. destruct Et as (p & k & -> & Hk).
        apply ms_ok_prefix. apply ms_take; [exists pre; split; assumption|]. apply Hm. lia.
      + split; [lia|]. intros Hz. lia.
  Qed.

  Definition decodes (pk : bytes) : Prop := sec1_decode pk <> None.

  Lemma try_keys_complete pre sg zr :
    outside_flag sg = false -> SP c cs sg = Ok pre -> spec_sig_data wt (ctx_idx c) code v sg = Some zr ->
    forall p k rest, Forall decodes (p ++ k :: rest) -> Vspec sg k ->
    exists q keys', tryk c pre sg (p ++ k :: rest) = Ok (true, keys') /\ keys' = q ++ rest /\ Forall decodes keys'.
  Proof.
    intros Ho Hp Hd.
    assert (Hv : forall k', decodes k' -> SV c pre sg k' = Ok (spec_data_valid (Some zr) k')).
    { intros k' Hk'. unfold decodes in Hk'. destruct (sec1_decode k') as [Q|] eqn:EQ; [|congruence].
      destruct (pair_total c i l v cs Hin Hlock Hsat Hoff Hplain sg k' zr Q Ho Hd EQ) as (pre' & Hp' & Hv').
      rewrite Hp in Hp'. inversion Hp'; subst pre'. exact Hv'. }
    induction p as [|a p IH]; intros k rest Hf Hk; cbn [app try_keys].
    - inversion Hf as [|? ? Hdk Hdr]; subst. rewrite (Hv k Hdk). cbn [bind].
      unfold Vspec, spec_sig_valid, sig_valid in Hk. fold (spec_sig_data wt (ctx_idx c) code v sg) in Hk. rewrite Hd in Hk.
      unfold spec_data_valid. rewrite Hk. exists [], rest. split; [reflexivity|split; [reflexivity|exact Hdr]].
    - inversion Hf as [|? ? Hda Hdr]; subst. rewrite (Hv a Hda). cbn [bind].
      destruct (spec_data_valid (Some zr) a).
      + exists (p ++ [k]), (p ++ k :: rest). split; [reflexivity|split; [rewrite <- app_assoc; reflexivity|exact Hdr]].
      + exact (IH k rest Hdr Hk).
  Qed.

  Lemma Vspec_data sg k : Vspec sg k -> exists zr, spec_sig_data wt (ctx_idx c) code v sg = Some zr.
  Proof.
    unfold Vspec, spec_sig_valid, sig_valid. fold (spec_sig_data wt (ctx_idx c) code v sg).
    destruct (spec_sig_data wt (ctx_idx c) code v sg) as [zr|]; [eauto|discriminate].
  Qed.

  Lemma loop_complete : forall sigs keys z,
    Forall (fun sg => outside_flag sg = false) sigs -> Forall decodes keys -> ms_ok Vspec sigs keys ->
    loop c cs sigs keys z = Ok (z + Z.of_nat (length sigs))%Z.
  Proof.
    induction sigs as [|sg r IH]; intros keys z Ho Hdec Hm; cbn [multisig_loop length].
    - f_equal. lia.
    - inversion Ho as [|? ? Hosg Hor]; subst.
      apply ms_ok_cons_inv in Hm. destruct Hm as (p & k & rest & -> & Hk & Hr).
      destruct (Vspec_data sg k Hk) as (zr & Hd).
      assert (Hpre : exists pre, SP c cs sg = Ok pre).
      { apply (Vimpl_Vspec sg k Hosg) in Hk. destruct Hk as (pre & Hp & _). eauto. }
      destruct Hpre as (pre & Hp). rewrite Hp. cbn [bind].
      destruct (try_keys_complete pre sg zr Hosg Hp Hd p k rest Hdec Hk) as (q & keys' & -> & -> & Hdq).
      cbn [bind]. rewrite (IH (q ++ rest) (z + 1)%Z Hor Hdq (ms_ok_prefix _ _ _ _ Hr)). f_equal. lia.
  Qed.

  (* ---- OP_CHECKMULTISIG: the stack protocol ---- *)
  Lemma skipn_app_exact {A} (a b : list A) : skipn (length a) (a ++ b) = b.
  Proof. rewrite skipn_app, Nat.sub_diag, skipn_all. reflexivity. Qed.
  Lemma firstn_app_exact {A} (a b : list A) : firstn (length a) (a ++ b) = a.
  Proof. rewrite firstn_app, Nat.sub_diag, firstn_all. cbn [firstn]. apply app_nil_r. Qed.

  Lemma multisig_unfold s0 dummy sigs keys :
    1 <= length sigs <= length keys -> length keys <= 16 ->
    stack st = s0 ++ [dummy] ++ sigs ++ [small_num (length sigs)] ++ keys ++ [small_num (length keys)] ->
    msig st c = (do successes <- loop c cs sigs keys 0%Z;
                 Ok ((successes =? Z.of_nat (length sigs))%Z, with_stack st s0)).
  Proof.
    intros Hm Hn Hst. unfold multisig. rewrite Hst.
    replace (s0 ++ [dummy] ++ sigs ++ [small_num (length sigs)] ++ keys ++ [small_num (length keys)])
      with ((s0 ++ [dummy] ++ sigs ++ [small_num (length sigs)] ++ keys) ++ [small_num (length keys)])
      by (rewrite <- !app_assoc; reflexivity).
    rewrite pop_number_small by lia. cbn [bind].
    replace (Z.of_nat (length keys) <? 1)%Z with false by (symmetry; apply Z.ltb_ge; lia).
    set (s1 := s0 ++ [dummy] ++ sigs ++ [small_num (length sigs)] ++ keys).
    assert (L1 : length s1 = length (s0 ++ [dummy] ++ sigs ++ [small_num (length sigs)]) + length keys).
    { unfold s1. rewrite !app_length. cbn [length]. lia. }
    replace (Z.of_nat (length s1) <? Z.of_nat (length keys))%Z with false by (symmetry; apply Z.ltb_ge; lia).
    rewrite Nat2Z.id. rewrite usub_ok by lia. cbn [bind]. rewrite vsplit_off_ok by lia. cbn [bind].
    replace (length s1 - length keys) with (length (s0 ++ [dummy] ++ sigs ++ [small_num (length sigs)])) by lia.
    assert (E1 : s1 = (s0 ++ [dummy] ++ sigs ++ [small_num (length sigs)]) ++ keys)
      by (unfold s1; rewrite <- !app_assoc; reflexivity).
    rewrite E1, firstn_app_exact, skipn_app_exact.
    replace (s0 ++ [dummy] ++ sigs ++ [small_num (length sigs)])
      with ((s0 ++ [dummy] ++ sigs) ++ [small_num (length sigs)]) by (rewrite <- !app_assoc; reflexivity).
    rewrite pop_number_small by lia. cbn [bind].
    replace (Z.of_nat (length sigs) <? 1)%Z with false by (symmetry; apply Z.ltb_ge; lia).
    replace (Z.of_nat (length keys) <? Z.of_nat (length sigs))%Z with false by (symmetry; apply Z.ltb_ge; lia).
    assert (L3 : length (s0 ++ [dummy] ++ sigs) = length (s0 ++ [dummy]) + length sigs)
      by (rewrite !app_length; cbn [length]; lia).
    replace (Z.of_nat (length (s0 ++ [dummy] ++ sigs)) <? Z.of_nat (length sigs))%Z with false by (symmetry; apply Z.ltb_ge; lia).
    rewrite Nat2Z.id. rewrite usub_ok by lia. cbn [bind]. rewrite vsplit_off_ok by lia. cbn [bind].
    replace (length (s0 ++ [dummy] ++ sigs) - length sigs) with (length (s0 ++ [dummy])) by lia.
    replace (s0 ++ [dummy] ++ sigs) with ((s0 ++ [dummy]) ++ sigs) by (rewrite <- !app_assoc; reflexivity).
    rewrite firstn_app_exact, skipn_app_exact, pop_bytes_snoc. cbn [bind]. reflexivity.
  Qed.

  Lemma multisig_shape s0 dummy sigs keys :
    1 <= length sigs <= length keys -> length keys <= 16 ->
    stack st = s0 ++ [dummy] ++ sigs ++ [small_num (length sigs)] ++ keys ++ [small_num (length keys)] ->
    msig st c = Err \/ exists b, msig st c = Ok (b, with_stack st s0).
  Proof.
    intros Hm Hn Hst. rewrite (multisig_unfold s0 dummy sigs keys Hm Hn Hst).
    pose proof (np_multisig_loop txctx SP SV sig_preimage_total sig_verify_total c cs sigs keys 0%Z) as Hnp.
    destruct (loop c cs sigs keys 0%Z) as [z| |]; cbn [bind]; [right; eauto|left; reflexivity|].
    exfalso. apply Hnp. reflexivity.
  Qed.

  Lemma multisig_accept_sound s0 dummy sigs keys :
    1 <= length sigs <= length keys -> length keys <= 16 ->
    stack st = s0 ++ [dummy] ++ sigs ++ [small_num (length sigs)] ++ keys ++ [small_num (length keys)] ->
    Forall (fun sg => outside_flag sg = false) sigs ->
    msig st c = Ok (true, with_stack st s0) -> ms_ok Vspec sigs keys.
  Proof.
    intros Hm Hn Hst Ho. rewrite (multisig_unfold s0 dummy sigs keys Hm Hn Hst).
    destruct (loop c cs sigs keys 0%Z) as [z| |] eqn:El; cbn [bind]; try discriminate.
    intros E. inversion E as [Hz]. apply Z.eqb_eq in Hz.
    destruct (loop_sound _ _ _ _ El) as [_ Hok]. specialize (Hok ltac:(lia)).
    clear - Hok Ho Hin Hlock Hsat Hoff Hplain.
    induction Hok as [ks|s r k ks Hv Hr IH|s r k ks Hr IH].
    - apply ms_done.
    - inversion Ho; subst. apply ms_take; [apply Vimpl_Vspec; assumption|apply IH; assumption].
    - apply ms_skip. apply IH. exact Ho.
  Qed.

  Lemma multisig_accept_complete s0 dummy sigs keys :
    1 <= length sigs <= length keys -> length keys <= 16 ->
    stack st = s0 ++ [dummy] ++ sigs ++ [small_num (length sigs)] ++ keys ++ [small_num (length keys)] ->
    Forall (fun sg => outside_flag sg = false) sigs -> Forall decodes keys ->
    ms_ok Vspec sigs keys -> msig st c = Ok (true, with_stack st s0).
  Proof.
    intros Hm Hn Hst Ho Hdec Hok. rewrite (multisig_unfold s0 dummy sigs keys Hm Hn Hst).
    rewrite (loop_complete sigs keys 0%Z Ho Hdec Hok). cbn [bind]. rewrite Z.add_0_l, Z.eqb_refl. reflexivity.
  Qed.
End Ops.
