(* Proofs/LegacyProofs.v — C10: Script::remove_codeseparators removes every separator at every depth and
   nothing else; the legacy branch of the library's preimage computation equals the original Bitcoin
   signature-hash serialisation. *)
From BSV Require Import Base.Hex Model.Opcodes Model.Script Model.VarInt Model.Tx Model.Sighash
  Spec.ScriptTok Spec.SighashWire Spec.LegacySighash Proofs.ScriptProofs Proofs.SighashProofs.
Local Open Scope list_scope.

(* ------------------------------------------------------------------ *)
(* unfolding the nested fixpoints one level *)
Lemma strip_bit_if c p q :
  strip_bit (BIf c p q) =
    BIf c (remove_codeseparators p) (match q with None => None | Some q' => Some (remove_codeseparators q') end).
Proof. reflexivity. Qed.
Lemma plain_bit_if c p q :
  plain_bit (BIf c p q) = is_if c && plain_bits p && match q with None => true | Some q' => plain_bits q' end.
Proof. reflexivity. Qed.
Lemma no_separator_bit_if c p q :
  no_separator_bit (BIf c p q) = no_separator_bits p && match q with None => true | Some q' => no_separator_bits q' end.
Proof. reflexivity. Qed.

Lemma remove_cons x r :
  remove_codeseparators (x :: r) = if is_codesep x then remove_codeseparators r else strip_bit x :: remove_codeseparators r.
Proof. reflexivity. Qed.

(* ------------------------------------------------------------------ *)
(* 1. no separator remains anywhere (no side condition) *)
Lemma no_separator_after_remove s : no_separator_bits (remove_codeseparators s) = true.
Proof.
  apply (bits_ind' (fun b => is_codesep b = false -> no_separator_bit (strip_bit b) = true)
                   (fun l => no_separator_bits (remove_codeseparators l) = true)).
  - intros c Hc. cbn [strip_bit no_separator_bit]. cbn [is_codesep] in Hc. unfold OP_CODESEPARATOR in Hc. rewrite Hc. reflexivity.
  - reflexivity.
  - reflexivity.
  - reflexivity.
  - intros c p IHp _. rewrite strip_bit_if, no_separator_bit_if, IHp. reflexivity.
  - intros c p q IHp IHq _. rewrite strip_bit_if, no_separator_bit_if, IHp, IHq. reflexivity.
  - reflexivity.
  - intros b l Hb Hl. rewrite remove_cons. destruct (is_codesep b) eqn:E; [exact Hl|].
    cbn [no_separator_bits]. rewrite Hb, Hl by reflexivity. reflexivity.
Qed.

(* ------------------------------------------------------------------ *)
(* 2. everything else is preserved, in order: on the flat element view, removal is exactly the filter *)
Lemma flatten_cons x r : flatten (x :: r) = map tok_of_bit (flat x) ++ flatten r.
Proof. unfold flatten. cbn [flats]. apply map_app. Qed.
Lemma flatten_nil : flatten [] = [].
Proof. reflexivity. Qed.

Lemma erase_app a b : erase_separators (a ++ b) = erase_separators a ++ erase_separators b.
Proof. apply filter_app. Qed.

Lemma is_if_not_sep c : is_if c = true -> (c =? 171)%N = false.
Proof. unfold is_if. lia. Qed.

Lemma flat_tokens_if c p q :
  map tok_of_bit (flat (BIf c p q)) =
    TOp c :: flatten p ++ match q with None => [] | Some q' => TOp OP_ELSE :: flatten q' end ++ [TOp OP_ENDIF].
Proof.
  rewrite flat_if. unfold flatten. cbn [map tok_of_bit]. rewrite map_app. f_equal. f_equal.
  destruct q as [q'|]; cbn [map app tok_of_bit]; [rewrite map_app|]; reflexivity.
Qed.

Lemma flatten_remove s :
  plain_bits s = true -> flatten (remove_codeseparators s) = erase_separators (flatten s).
Proof.
  apply (bits_ind'
    (fun b => plain_bit b = true -> is_codesep b = false ->
              map tok_of_bit (flat (strip_bit b)) = erase_separators (map tok_of_bit (flat b)))
    (fun l => plain_bits l = true -> flatten (remove_codeseparators l) = erase_separators (flatten l))).
  - intros c _ Hc. cbn [strip_bit flat map tok_of_bit]. unfold erase_separators. cbn [filter is_separator].
    cbn [is_codesep] in Hc. unfold OP_CODESEPARATOR in Hc. rewrite Hc. reflexivity.
  - reflexivity.
  - reflexivity.
  - reflexivity.
  - intros c p IHp Hpl _. rewrite plain_bit_if in Hpl.
    apply andb_true_iff in Hpl as [Hpl _]. apply andb_true_iff in Hpl as [Hc Hp].
    rewrite strip_bit_if, !flat_tokens_if.
    unfold erase_separators at 1. cbn [filter is_separator]. rewrite (is_if_not_sep c Hc). cbn [negb].
    fold (erase_separators (flatten p ++ [] ++ [TOp OP_ENDIF])).
    rewrite !erase_app, IHp by exact Hp. reflexivity.
  - intros c p q IHp IHq Hpl _. rewrite plain_bit_if in Hpl.
    apply andb_true_iff in Hpl as [Hpl Hq]. apply andb_true_iff in Hpl as [Hc Hp].
    rewrite strip_bit_if, !flat_tokens_if.
    unfold erase_separators at 1. cbn [filter is_separator]. rewrite (is_if_not_sep c Hc). cbn [negb].
    fold (erase_separators (flatten p ++ (TOp OP_ELSE :: flatten q) ++ [TOp OP_ENDIF])).
    rewrite !erase_app, IHp by exact Hp.
    change (TOp OP_ELSE :: flatten q) with ([TOp OP_ELSE] ++ flatten q).
    rewrite erase_app, IHq by exact Hq. reflexivity.
  - reflexivity.
  - intros b l Hb Hl Hpl. cbn [plain_bits] in Hpl. apply andb_true_iff in Hpl as [Hpb Hpl'].
    rewrite remove_cons, (flatten_cons b l), erase_app.
    destruct (is_codesep b) eqn:E.
    + destruct b; try discriminate. cbn [is_codesep] in E. unfold OP_CODESEPARATOR in E.
      cbn [flat map tok_of_bit]. unfold erase_separators at 1. cbn [filter is_separator]. rewrite E. cbn [negb app].
      apply Hl; exact Hpl'.
    + rewrite flatten_cons, Hb, Hl by (assumption || reflexivity). reflexivity.
Qed.

(* 3. the flat element view serialises to the script's own bytes (for script values of the parser's form) *)
Lemma toks_bytes_app a b : toks_bytes (a ++ b) = toks_bytes a ++ toks_bytes b.
Proof. induction a as [|x a IH]; cbn [toks_bytes app]; [reflexivity | rewrite IH, app_assoc; reflexivity]. Qed.

Lemma toks_bytes_flatten s : plain_bits s = true -> toks_bytes (flatten s) = to_bytes s.
Proof.
  apply (bits_ind'
    (fun b => plain_bit b = true -> toks_bytes (map tok_of_bit (flat b)) = bit_bytes b)
    (fun l => plain_bits l = true -> toks_bytes (flatten l) = to_bytes l)).
  - intros c _. cbn [flat map tok_of_bit toks_bytes tok_bytes bit_bytes]. apply app_nil_r.
  - intros d Hd. cbn [plain_bit] in Hd. apply Nat.leb_le in Hd.
    cbn [flat map tok_of_bit toks_bytes tok_bytes bit_bytes].
    replace (N.of_nat (length d) <=? 75)%N with true by lia. apply app_nil_r.
  - intros c d Hc. cbn [plain_bit] in Hc.
    cbn [flat map tok_of_bit toks_bytes tok_bytes bit_bytes].
    replace (c <=? 75)%N with false by lia. rewrite app_nil_r. reflexivity.
  - intros d Hd. discriminate.
  - intros c p IHp Hpl. rewrite plain_bit_if in Hpl.
    apply andb_true_iff in Hpl as [Hpl _]. apply andb_true_iff in Hpl as [Hc Hp].
    rewrite flat_tokens_if, bit_bytes_if. cbn [toks_bytes tok_bytes app].
    rewrite toks_bytes_app, IHp by exact Hp. cbn [toks_bytes tok_bytes app]. rewrite ?app_nil_r. reflexivity.
  - intros c p q IHp IHq Hpl. rewrite plain_bit_if in Hpl.
    apply andb_true_iff in Hpl as [Hpl Hq]. apply andb_true_iff in Hpl as [Hc Hp].
    rewrite flat_tokens_if, bit_bytes_if. cbn [toks_bytes tok_bytes app].
    rewrite toks_bytes_app, IHp by exact Hp.
    cbn [toks_bytes tok_bytes app].
    rewrite toks_bytes_app, IHq by exact Hq. cbn [toks_bytes tok_bytes app]. rewrite ?app_nil_r. reflexivity.
  - reflexivity.
  - intros b l Hb Hl Hpl. cbn [plain_bits] in Hpl. apply andb_true_iff in Hpl as [Hpb Hpl'].
    rewrite flatten_cons, toks_bytes_app, Hb, Hl by assumption. reflexivity.
Qed.

Lemma plain_after_remove s : plain_bits s = true -> plain_bits (remove_codeseparators s) = true.
Proof.
  apply (bits_ind' (fun b => plain_bit b = true -> plain_bit (strip_bit b) = true)
                   (fun l => plain_bits l = true -> plain_bits (remove_codeseparators l) = true)).
  - intros; assumption.
  - intros; assumption.
  - intros; assumption.
  - intros; assumption.
  - intros c p IHp Hpl. rewrite plain_bit_if in Hpl.
    apply andb_true_iff in Hpl as [Hpl _]. apply andb_true_iff in Hpl as [Hc Hp].
    rewrite strip_bit_if, plain_bit_if, Hc, IHp by exact Hp. reflexivity.
  - intros c p q IHp IHq Hpl. rewrite plain_bit_if in Hpl.
    apply andb_true_iff in Hpl as [Hpl Hq]. apply andb_true_iff in Hpl as [Hc Hp].
    rewrite strip_bit_if, plain_bit_if, Hc, IHp, IHq by assumption. reflexivity.
  - reflexivity.
  - intros b l Hb Hl Hpl. cbn [plain_bits] in Hpl. apply andb_true_iff in Hpl as [Hpb Hpl'].
    rewrite remove_cons. destruct (is_codesep b); [apply Hl; exact Hpl'|].
    cbn [plain_bits]. rewrite Hb, Hl by assumption. reflexivity.
Qed.

(* the bytes the library puts into the signed input = the reference SerializeScriptCode *)
Lemma codesep_bytes s :
  plain_bits s = true -> to_bytes (remove_codeseparators s) = toks_bytes (erase_separators (flatten s)).
Proof.
  intros Hp. rewrite <- flatten_remove by exact Hp.
  symmetry. apply toks_bytes_flatten. apply plain_after_remove. exact Hp.
Qed.

Lemma codesep_removed s :
  no_separator_bits (remove_codeseparators s) = true /\
  (plain_bits s = true ->
     flatten (remove_codeseparators s) = erase_separators (flatten s) /\
     to_bytes (remove_codeseparators s) = toks_bytes (erase_separators (flatten s))).
Proof.
  split; [apply no_separator_after_remove|]. intros Hp. split; [apply flatten_remove | apply codesep_bytes]; exact Hp.
Qed.

(* ------------------------------------------------------------------ *)
(* every script the parser returns is of the plain form *)
Definition leaf_ok (b : bit) : bool :=
  match b with BIf _ _ _ => false | o => plain_bit o end.

Lemma plain_bits_app a b : plain_bits (a ++ b) = plain_bits a && plain_bits b.
Proof. induction a as [|x a IH]; cbn [plain_bits app]; [reflexivity | rewrite IH, andb_assoc; reflexivity]. Qed.

Lemma nest_plain : forall fuel m ts bs t r,
  forallb leaf_ok ts = true -> nest fuel m ts = Ok (bs, t, r) -> plain_bits bs = true /\ forallb leaf_ok r = true.
Proof.
  induction fuel as [|f IH]; intros m ts bs t r Hl H; [discriminate|].
  cbn [nest] in H. destruct ts as [|x ts'].
  - destruct m; inv H; split; reflexivity.
  - cbn [forallb] in Hl. apply andb_true_iff in Hl as [Hx Hl'].
    assert (Hplain : forall o, plain_bit o = true ->
              (do y <- nest f m ts'; let '(bs0, t0, r') := y in Ok (o :: bs0, t0, r')) = Ok (bs, t, r) ->
              plain_bits bs = true /\ forallb leaf_ok r = true).
    { intros o Hpo Ho. destruct (nest f m ts') as [[[bs' t'] r']| |] eqn:H3; cbn [bind] in Ho; try discriminate.
      inv Ho. apply IH in H3; [|exact Hl']. destruct H3 as [Hb Hr]. cbn [plain_bits]. rewrite Hpo, Hb. split; [reflexivity|exact Hr]. }
    destruct x as [c|d|c d|c p q|d];
      [ | apply (Hplain (BPush d) Hx H) | apply (Hplain (BPushData c d) Hx H) | cbn [leaf_ok] in Hx; discriminate Hx | apply (Hplain (BCoinbase d) Hx H)].
    destruct (is_if c) eqn:Hif.
    + destruct (nest f Pass ts') as [[[p tp] r1]| |] eqn:H1; try discriminate.
      apply IH in H1; [|exact Hl']. destruct H1 as [P1 F1].
      destruct tp; [discriminate| |].
      * destruct (nest f Fail r1) as [[[q tq] r2]| |] eqn:H2; try discriminate.
        apply IH in H2; [|exact F1]. destruct H2 as [P2 F2].
        destruct tq; try discriminate.
        destruct (nest f m r2) as [[[bs' t'] r']| |] eqn:H3; cbn [bind] in H; try discriminate.
        apply IH in H3; [|exact F2]. destruct H3 as [P3 F3].
        inv H. split; [|exact F3]. cbn [plain_bits]. rewrite plain_bit_if, Hif, P1, P2, P3. reflexivity.
      * destruct (nest f m r1) as [[[bs' t'] r']| |] eqn:H3; cbn [bind] in H; try discriminate.
        apply IH in H3; [|exact F1]. destruct H3 as [P3 F3].
        inv H. split; [|exact F3]. cbn [plain_bits]. rewrite plain_bit_if, Hif, P1, P3. reflexivity.
    + destruct m, (c =? OP_ELSE)%N, (c =? OP_ENDIF)%N;
        try (inv H; split; [reflexivity | exact Hl']);
        try (apply (Hplain (BOp c) eq_refl H)).
Qed.

Lemma tokenize_leaf_ok : forall f bs ts, tokenize f bs = Ok ts -> forallb leaf_ok ts = true.
Proof.
  induction f as [|f IH]; intros bs ts H; (destruct bs as [|b r]; [inv H; reflexivity|]); [discriminate|].
  cbn [tokenize] in H.
  destruct (negb (b2n b =? 0)%N && (b2n b <? 76)%N) eqn:Hd.
  - destruct (tokenize f _) as [rest| |] eqn:E; cbn [bind] in H; try discriminate. inv H.
    cbn [forallb leaf_ok plain_bit]. rewrite (IH _ _ E), andb_true_r.
    apply Nat.leb_le. rewrite firstn_length. lia.
  - destruct (is_opcode (b2n b)); [|discriminate].
    destruct ((b2n b =? 76)%N || (b2n b =? 77)%N || (b2n b =? 78)%N) eqn:Hp.
    + destruct (read_le _ r) as [[len r1]|]; [|discriminate].
      destruct (read_exactN _ r1) as [[d r2]|]; [|discriminate].
      destruct (tokenize f r2) as [rest| |] eqn:E; cbn [bind] in H; try discriminate. inv H.
      cbn [forallb leaf_ok plain_bit]. rewrite Hp, (IH _ _ E). reflexivity.
    + destruct (tokenize f r) as [rest| |] eqn:E; cbn [bind] in H; try discriminate. inv H.
      cbn [forallb leaf_ok plain_bit]. rewrite (IH _ _ E). reflexivity.
Qed.

Lemma from_bytes_plain bs s : from_bytes bs = Ok s -> plain_bits s = true.
Proof.
  unfold from_bytes, nest_top. intros H.
  destruct (tokenize (length bs) bs) as [ts| |] eqn:E; cbn [bind] in H; try discriminate.
  destruct (nest (S (length ts)) Top ts) as [[[b t] r]| |] eqn:En; cbn [bind] in H; try discriminate.
  inv H. apply nest_plain in En; [tauto|]. eapply tokenize_leaf_ok; exact E.
Qed.

(* ------------------------------------------------------------------ *)
(* list edits of the legacy algorithm, expressed position by position *)
Lemma mapi_from_ext {A B} (f g : nat -> A -> B) l : forall k0,
  (forall k a, k0 <= k -> f k a = g k a) -> mapi_from k0 f l = mapi_from k0 g l.
Proof.
  induction l as [|x l IH]; intros k0 E; cbn [mapi_from]; [reflexivity|].
  rewrite E by lia. f_equal. apply IH. intros k a Hk. apply E. lia.
Qed.

Lemma mapi_from_map {A B C} (g : nat -> B -> C) (v : A -> B) l : forall k0,
  mapi_from k0 g (map v l) = mapi_from k0 (fun k a => g k (v a)) l.
Proof. induction l as [|x l IH]; intros k0; cbn [mapi_from map]; [reflexivity | rewrite IH; reflexivity]. Qed.

Lemma map_mapi_from {A B C} (v : B -> C) (g : nat -> A -> B) l : forall k0,
  map v (mapi_from k0 g l) = mapi_from k0 (fun k a => v (g k a)) l.
Proof. induction l as [|x l IH]; intros k0; cbn [mapi_from map]; [reflexivity | rewrite IH; reflexivity]. Qed.

Lemma mapi_from_length {A B} (g : nat -> A -> B) l : forall k0, length (mapi_from k0 g l) = length l.
Proof. induction l as [|x l IH]; intros k0; cbn [mapi_from length]; [reflexivity | rewrite IH; reflexivity]. Qed.

Lemma mapi_from_const {A B} (g : A -> B) l : forall k0, mapi_from k0 (fun _ a => g a) l = map g l.
Proof. induction l as [|x l IH]; intros k0; cbn [mapi_from map]; [reflexivity | rewrite IH; reflexivity]. Qed.

Lemma set_nth_map {A B} (g h : A -> B) l : forall i k0 y,
  nth_error l i = Some y ->
  set_nth i (h y) (map g l) = mapi_from k0 (fun k a => if Nat.eqb k (k0 + i) then h a else g a) l.
Proof.
  induction l as [|x l IH]; intros [|i] k0 y E; cbn [nth_error] in E; try discriminate.
  - inv E. cbn [map set_nth mapi_from]. rewrite Nat.add_0_r, Nat.eqb_refl. f_equal.
    rewrite <- (mapi_from_const g l (S k0)). apply mapi_from_ext. intros k a Hk.
    replace (Nat.eqb k k0) with false by (symmetry; apply Nat.eqb_neq; lia). reflexivity.
  - cbn [map set_nth mapi_from].
    replace (Nat.eqb k0 (k0 + S i)) with false by (symmetry; apply Nat.eqb_neq; lia). f_equal.
    rewrite (IH i (S k0) y E). apply mapi_from_ext. intros k a _.
    replace (S k0 + i) with (k0 + S i) by lia. reflexivity.
Qed.

Lemma map_except_mapi {A B} (f : B -> B) (g : nat -> A -> B) j l : forall k0,
  map_except k0 j f (mapi_from k0 g l) = mapi_from k0 (fun k a => if Nat.eqb k j then g k a else f (g k a)) l.
Proof. induction l as [|x l IH]; intros k0; cbn [mapi_from map_except]; [reflexivity | rewrite IH; reflexivity]. Qed.

Lemma nth_error_mapi_from {A B} (g : nat -> A -> B) l : forall i k0,
  nth_error (mapi_from k0 g l) i = option_map (g (k0 + i)) (nth_error l i).
Proof.
  induction l as [|x l IH]; intros [|i] k0; cbn [mapi_from nth_error option_map]; try reflexivity.
  - rewrite Nat.add_0_r. reflexivity.
  - rewrite IH. replace (S k0 + i) with (k0 + S i) by lia. reflexivity.
Qed.

Lemma firstn1_skipn {A} (l : list A) : forall i x, nth_error l i = Some x -> firstn 1 (skipn i l) = [x].
Proof.
  induction l as [|y l IH]; intros [|i] x E; cbn [nth_error] in E; try discriminate.
  - inv E. reflexivity.
  - cbn [skipn]. apply IH. exact E.
Qed.

Lemma map_repeat' {A B} (f : A -> B) x n : map f (repeat x n) = repeat (f x) n.
Proof. induction n as [|n IH]; cbn [repeat map]; [reflexivity | rewrite IH; reflexivity]. Qed.

Lemma single_outputs {A} (d : A) l : forall i k0 o,
  nth_error l i = Some o ->
  mapi_from k0 (fun k x => if Nat.eqb k (k0 + i) then x else d) (firstn (S i) l) = repeat d i ++ [o].
Proof.
  induction l as [|y l IH]; intros [|i] k0 o E; cbn [nth_error] in E; try discriminate.
  - inv E. cbn [firstn mapi_from repeat app]. rewrite Nat.add_0_r, Nat.eqb_refl. reflexivity.
  - cbn [firstn mapi_from repeat app].
    replace (Nat.eqb k0 (k0 + S i)) with false by (symmetry; apply Nat.eqb_neq; lia). f_equal.
    rewrite <- (IH i (S k0) o E). apply mapi_from_ext. intros k a _.
    replace (S k0 + i) with (k0 + S i) by lia. reflexivity.
Qed.

(* ------------------------------------------------------------------ *)
(* C10 *)
Definition legacy_flags : list N :=
  [SH_ALL; SH_NONE; SH_SINGLE; SH_Legacy_InputOutputs; SH_Legacy_Input; SH_Legacy_InputOutput].
(* the two remaining enum values reach the same function and behave like ALL / ALL|ANYONECANPAY *)
Definition legacy_path_flags : list N := legacy_flags ++ [SH_FORKID; SH_ANYONECANPAY].

Lemma legacy_variants_bits :
  forallb (fun f => negb (forkid_bit f) && is_sighash f) legacy_flags = true
  /\ map (fun f => (base_type f, anyonecanpay f)) legacy_flags
     = [(1, false); (2, false); (3, false); (1, true); (2, true); (3, true)]%N.
Proof. split; vm_compute; reflexivity. Qed.

(* one input of the rewritten transaction, as the library computes it *)
Definition model_in (i : nat) (script : list bit) (z : bool) (k : nat) (a : txin) : txin :=
  if Nat.eqb k i then set_unlocking (set_unlocking a []) script
  else if z then set_sequence (set_unlocking a []) 0 else set_unlocking a [].

Section C10.
  Variable H : bytes -> bytes.

  (* the algorithm with the three flag tests as booleans *)
  Lemma legacy_core t i f sub (hs hn acp : bool) :
    plain_bits sub = true ->
    inN f [SH_SINGLE; SH_Legacy_InputOutput] = hs -> (base_type f =? BASE_SINGLE)%N = hs ->
    inN f [SH_NONE; SH_Legacy_Input] = hn -> (base_type f =? BASE_NONE)%N = hn ->
    (SH_ANYONECANPAY <=? f)%N = acp -> anyonecanpay f = acp ->
    hs && hn = false ->
    sighash_legacy t i f sub =
      match legacy_preimage (view_tx t) i f (flatten sub) with Some p => Ok p | None => Err end.
  Proof.
    intros Hpl Hs1 Hs2 Hn1 Hn2 Ha1 Ha2 Hex.
    unfold sighash_legacy, legacy_preimage.
    rewrite Hs1, Hs2, Hn1, Hn2, Ha1, Ha2. clear Hs1 Hs2 Hn1 Hn2 Ha1 Ha2.
    rewrite <- (codesep_bytes sub Hpl).
    set (script := remove_codeseparators sub).
    change (w_ins (view_tx t)) with (map view_in (inputs t)).
    change (w_outs (view_tx t)) with (map view_out (outputs t)).
    change (w_version (view_tx t)) with (version t). change (w_lock (view_tx t)) with (locktime t).
    rewrite !map_length, nth_error_map.
    destruct (nth_error (inputs t) i) as [inp|] eqn:Ei; cbn [option_map].
    2:{ apply nth_error_None in Ei.
        replace (Nat.leb (length (inputs t)) i) with true by (symmetry; apply Nat.leb_le; lia). reflexivity. }
    assert (Hi : i < length (inputs t)) by (apply nth_error_Some; congruence).
    replace (Nat.leb (length (inputs t)) i) with false by (symmetry; apply Nat.leb_gt; lia).
    (* inputs after blanking and substitution *)
    rewrite (set_nth_map (fun a => set_unlocking a []) (fun a => set_unlocking (set_unlocking a []) script)
                         (inputs t) i 0 inp Ei).
    cbn [Nat.add].
    assert (E1 : mapi_from 0 (fun k a => if Nat.eqb k i then set_unlocking (set_unlocking a []) script else set_unlocking a [])
                           (inputs t) = mapi_from 0 (model_in i script false) (inputs t)) by reflexivity.
    rewrite E1. clear E1.
    assert (E2 : map_except 0 i (fun a => set_sequence a 0) (mapi_from 0 (model_in i script false) (inputs t))
                 = mapi_from 0 (model_in i script true) (inputs t)).
    { rewrite map_except_mapi. apply mapi_from_ext. intros k a _. unfold model_in.
      destruct (Nat.eqb k i); reflexivity. }
    rewrite E2. clear E2.
    (* the specification's inputs are the view of the library's *)
    assert (Ev : forall z,
      mapi (fun k w => mk_win (w_prev_hash w) (w_prev_n w)
                              (if Nat.eqb k i then to_bytes script else [])
                              (if negb (Nat.eqb k i) && z then 0%N else w_seq w))
           (map view_in (inputs t))
      = map view_in (mapi_from 0 (model_in i script z) (inputs t))).
    { intros z. unfold mapi. rewrite mapi_from_map, map_mapi_from. apply mapi_from_ext. intros k a _.
      unfold model_in. destruct (Nat.eqb k i), z; reflexivity. }
    rewrite (Ev (hs || hn)). clear Ev.
    (* ANYONECANPAY selection, same on both sides *)
    assert (Eacp : forall z outs2,
      (do ins3 <- (if acp then match nth_error (mapi_from 0 (model_in i script z) (inputs t)) i with
                               | Some x => Ok [x] | None => Panic end
                   else Ok (mapi_from 0 (model_in i script z) (inputs t)));
       Ok (tx_bytes (mk_tx (version t) ins3 outs2 (locktime t)) ++ le_bytes 4 f))
      = Ok (ser_tx (mk_wtx (version t)
                           (if acp then firstn 1 (skipn i (map view_in (mapi_from 0 (model_in i script z) (inputs t))))
                            else map view_in (mapi_from 0 (model_in i script z) (inputs t)))
                           (map view_out outs2) (locktime t)) ++ u32le f)).
    { intros z outs2. destruct acp; cbn [bind].
      - rewrite nth_error_mapi_from, Ei. cbn [option_map bind Nat.add].
        rewrite (firstn1_skipn _ i (view_in (model_in i script z i inp))).
        + rewrite tx_view. reflexivity.
        + rewrite nth_error_map, nth_error_mapi_from, Ei. reflexivity.
      - rewrite tx_view. reflexivity. }
    destruct hs.
    - (* SINGLE *)
      destruct hn; [discriminate|]. cbn [orb andb].
      destruct (nth_error (outputs t) i) as [o|] eqn:Eo; cbn [option_map bind].
      + assert (i < length (outputs t)) by (apply nth_error_Some; congruence).
        replace (Nat.leb (length (outputs t)) i) with false by (symmetry; apply Nat.leb_gt; lia).
        rewrite Eacp. unfold mapi.
        assert (Es := single_outputs null_out (map view_out (outputs t)) i 0 (view_out o)).
        cbn [Nat.add] in Es. rewrite Es by (rewrite nth_error_map, Eo; reflexivity).
        rewrite map_app, map_repeat'. reflexivity.
      + apply nth_error_None in Eo.
        replace (Nat.leb (length (outputs t)) i) with true by (symmetry; apply Nat.leb_le; lia). reflexivity.
    - cbn [andb orb]. destruct hn; cbn [bind]; rewrite Eacp; reflexivity.
  Qed.

  Lemma legacy_total t i f sub v :
    In f legacy_path_flags -> plain_bits sub = true ->
    sighash_preimage H t i f sub v =
      match legacy_preimage (view_tx t) i f (flatten sub) with Some p => Ok p | None => Err end.
  Proof.
    intros Hf Hpl. unfold sighash_preimage.
    unfold legacy_path_flags, legacy_flags, SH_ALL, SH_NONE, SH_SINGLE, SH_Legacy_InputOutputs, SH_Legacy_Input,
           SH_Legacy_InputOutput, SH_FORKID, SH_ANYONECANPAY in Hf. cbn [app In] in Hf.
    destruct Hf as [<-|[<-|[<-|[<-|[<-|[<-|[<-|[<-|[]]]]]]]]];
      match goal with |- context [is_forkid_variant ?f] =>
        let b := eval vm_compute in (is_forkid_variant f) in change (is_forkid_variant f) with b end;
      cbv iota;
      match goal with |- sighash_legacy _ _ ?f _ = _ =>
        let hs := eval vm_compute in (base_type f =? BASE_SINGLE)%N in
        let hn := eval vm_compute in (base_type f =? BASE_NONE)%N in
        let ac := eval vm_compute in (anyonecanpay f) in
        apply (legacy_core t i f sub hs hn ac Hpl); vm_compute; reflexivity end.
  Qed.

  Lemma legacy_eq_spec t i f sub v :
    In f legacy_flags -> plain_bits sub = true -> i < length (inputs t) ->
    (base_type f = BASE_SINGLE -> i < length (outputs t)) ->
    exists p, legacy_preimage (view_tx t) i f (flatten sub) = Some p /\ sighash_preimage H t i f sub v = Ok p.
  Proof.
    intros Hf Hpl Hi Hs.
    rewrite (legacy_total t i f sub v) by (try exact Hpl; unfold legacy_path_flags; apply in_or_app; left; exact Hf).
    destruct (legacy_preimage (view_tx t) i f (flatten sub)) as [p|] eqn:E; [exists p; split; reflexivity|].
    exfalso. unfold legacy_preimage in E. cbn [w_ins w_outs view_tx] in E. rewrite !map_length in E.
    replace (Nat.leb (length (inputs t)) i) with false in E by (symmetry; apply Nat.leb_gt; lia).
    destruct (base_type f =? BASE_SINGLE)%N eqn:Eb; cbn [andb] in E; [|discriminate].
    apply N.eqb_eq in Eb. specialize (Hs Eb).
    replace (Nat.leb (length (outputs t)) i) with false in E by (symmetry; apply Nat.leb_gt; lia). discriminate.
  Qed.

  Lemma legacy_single_oob_err t i f sub v :
    In f legacy_flags -> plain_bits sub = true -> base_type f = BASE_SINGLE -> length (outputs t) <= i ->
    sighash_preimage H t i f sub v = Err.
  Proof.
    intros Hf Hpl Hb Ho.
    rewrite (legacy_total t i f sub v) by (try exact Hpl; unfold legacy_path_flags; apply in_or_app; left; exact Hf).
    unfold legacy_preimage. cbn [w_ins w_outs view_tx]. rewrite !map_length, Hb.
    replace (Nat.leb (length (outputs t)) i) with true by (symmetry; apply Nat.leb_le; lia).
    destruct (Nat.leb (length (inputs t)) i); reflexivity.
  Qed.

  Lemma legacy_idx_oob_err t i f sub v :
    In f legacy_flags -> plain_bits sub = true -> length (inputs t) <= i -> sighash_preimage H t i f sub v = Err.
  Proof.
    intros Hf Hpl Hi.
    rewrite (legacy_total t i f sub v) by (try exact Hpl; unfold legacy_path_flags; apply in_or_app; left; exact Hf).
    unfold legacy_preimage. cbn [w_ins view_tx]. rewrite map_length.
    replace (Nat.leb (length (inputs t)) i) with true by (symmetry; apply Nat.leb_le; lia). reflexivity.
  Qed.
End C10.
