(* Proofs/InterpSigProofs.v — C15, part 1: the two transaction-side functions of the CHECKSIG family
   (Model/InterpSig.v: sig_preimage, sig_verify) in terms of the independent specification
   (Spec/SpendSpec.v), then checksig and multisig at the level of the interpreter state.
   Reference instance of the curve (ref_prims, arithmetic on Z). *)
From BSV Require Import Base.Bytes Base.Hex.
From BSV Require Import Prim.Num Prim.Secp256k1 Prim.Der Prim.Sha256 Prim.Ripemd160.
From BSV Require Import Model.Opcodes Model.Script Model.VarInt Model.Tx Model.HashApi Model.Sighash Model.Ecdsa Model.Sig
  Model.Interp Model.InterpSig.
From BSV Require Import Spec.ScriptTok Spec.SighashWire Spec.Bip143 Spec.LegacySighash Spec.SpendSpec.
From BSV Require Import Proofs.ScriptProofs Proofs.SighashProofs Proofs.LegacyProofs Proofs.HashApiProofs.
Local Open Scope list_scope.
Local Open Scope nat_scope.

Definition Hd (b : bytes) : bytes := sha256 (sha256 b).          (* double SHA-256 *)
Definition H160 (b : bytes) : bytes := ripemd160 (sha256 b).

(* the specification instantiated with the published primitives *)
Definition spec_sighash := sighash_spec Hd.
Definition spec_sig_data := sig_data Hd.
Definition spec_data_valid := data_valid sec1_decode prim_verify.
Definition spec_sig_valid := sig_valid Hd sec1_decode prim_verify.

(* ------------------------------------------------------------------ *)
(* small list facts *)
Lemma last_opt_app {A} (l : list A) x : last_opt (l ++ [x]) = Some x.
Proof.
  induction l as [|y l IH]; [reflexivity|].
  cbn [app last_opt]. destruct (l ++ [x]) eqn:E; [destruct l; discriminate|]. exact IH.
Qed.
Lemma last_opt_nil_iff {A} (l : list A) : last_opt l = None <-> l = [].
Proof.
  split; [|intros ->; reflexivity].
  destruct l as [|x l] using rev_ind; [reflexivity|]. rewrite last_opt_app. discriminate.
Qed.
Lemma last_opt_some {A} (l : list A) x : last_opt l = Some x -> l = removelast l ++ [x].
Proof.
  destruct l as [|y l _] using rev_ind; [discriminate|].
  rewrite last_opt_app. intros E. inversion E; subst. rewrite removelast_last. reflexivity.
Qed.

Lemma split_sig_last sg :
  split_sig sg = match last_opt sg with Some b => Some (removelast sg, b2n b) | None => None end.
Proof.
  unfold split_sig. destruct sg as [|y l _] using rev_ind; [reflexivity|].
  rewrite rev_app_distr. cbn [rev app]. rewrite rev_involutive, last_opt_app, removelast_last. reflexivity.
Qed.
Lemma split_sig_app der b : split_sig (der ++ [b]) = Some (der, b2n b).
Proof. rewrite split_sig_last, last_opt_app, removelast_last. reflexivity. Qed.

(* ------------------------------------------------------------------ *)
(* the flag byte *)
Definition all_flags : list N := std_forkid_flags ++ std_legacy_flags ++ [64; 128]%N.

Lemma is_flag_mem b : is_flag b = mem_N (b2n b) all_flags.
Proof. destruct b; vm_compute; reflexivity. Qed.

Lemma std_forkid_eq : std_forkid_flags = forkid_flags. Proof. reflexivity. Qed.
Lemma std_legacy_eq : std_legacy_flags = legacy_flags. Proof. reflexivity. Qed.

Lemma mem_N_In f l : mem_N f l = true <-> In f l.
Proof.
  unfold mem_N. rewrite existsb_exists. split.
  - intros (x & Hx & E). apply N.eqb_eq in E. subst. exact Hx.
  - intros Hx. exists f. split; [exact Hx|apply N.eqb_refl].
Qed.

Lemma forkid_not_legacy f : mem_N f std_forkid_flags = true -> mem_N f std_legacy_flags = false.
Proof.
  intros Hf. apply mem_N_In in Hf. cbn [std_forkid_flags In] in Hf.
  destruct Hf as [<-|[<-|[<-|[<-|[<-|[<-|[]]]]]]]; reflexivity.
Qed.

(* a signature element whose flag byte is one of the two enum values outside the twelve standard ones *)
Definition outside_flag (sg : bytes) : bool :=
  match split_sig sg with Some (_, f) => (f =? 64)%N || (f =? 128)%N | None => false end.

(* ------------------------------------------------------------------ *)
(* the hash function: the library's Hash::sha_256d is double SHA-256, and the specifications only see
   their hash argument through its values *)
Lemma bip143_preimage_ext (H1 H2 : bytes -> bytes) t n ht sc amt :
  (forall x, H1 x = H2 x) -> bip143_preimage H1 t n ht sc amt = bip143_preimage H2 t n ht sc amt.
Proof.
  intros E. unfold bip143_preimage, hash_prevouts, Spec.Bip143.hash_sequence, Spec.Bip143.hash_outputs.
  rewrite !E. destruct (nth_error (w_ins t) n); [|reflexivity].
  destruct (nth_error (w_outs t) n); rewrite ?E; reflexivity.
Qed.

(* ------------------------------------------------------------------ *)
(* the preimage *)
Section Ctx.
  Variables (c : txctx) (i : txin) (l : list bit) (v : N) (cs : nat).
  Hypothesis Hin : nth_error (inputs (ctx_tx c)) (ctx_idx c) = Some i.
  Hypothesis Hlock : locking i = Some l.
  Hypothesis Hsat : satoshis i = Some v.
  Let off := cs - length (unlocking i).
  Hypothesis Hoff : off <= length l.
  Hypothesis Hplain : plain_bits l = true.
  Let sub := skipn off l.
  Let code := flatten sub.
  Let wt := view_tx (ctx_tx c).

  Lemma plain_sub : plain_bits sub = true.
  Proof.
    unfold sub. rewrite <- (firstn_skipn off l) in Hplain. rewrite plain_bits_app in Hplain.
    apply andb_true_iff in Hplain. tauto.
  Qed.

  Lemma calc_preimage_spec f :
    mem_N f (std_forkid_flags ++ std_legacy_flags) = true ->
    calculate_sighash_preimage c f cs = of_option (spec_sighash wt (ctx_idx c) f code v).
  Proof.
    intros Hf. unfold calculate_sighash_preimage. rewrite Hin, Hlock, Hsat.
    fold off. replace (Nat.ltb (length l) off) with false by (symmetry; apply Nat.ltb_ge; exact Hoff).
    fold sub. unfold spec_sighash, sighash_spec.
    apply mem_N_In in Hf. apply in_app_or in Hf. destruct Hf as [Hf|Hf].
    - replace (mem_N f std_forkid_flags) with true by (symmetry; apply mem_N_In; exact Hf).
      rewrite (bip143_total sha_256d) by (rewrite <- std_forkid_eq; exact Hf).
      unfold code. rewrite toks_bytes_flatten by exact plain_sub.
      rewrite (bip143_preimage_ext sha_256d Hd) by exact sha_256d_def.
      fold wt. destruct (bip143_preimage Hd wt (ctx_idx c) f (to_bytes sub) v);
        destruct (single_without_output wt (ctx_idx c) f); reflexivity.
    - assert (Hnf : mem_N f std_forkid_flags = false).
      { destruct (mem_N f std_forkid_flags) eqn:E; [|reflexivity].
        apply forkid_not_legacy in E. apply mem_N_In in Hf. congruence. }
      rewrite Hnf. replace (mem_N f std_legacy_flags) with true by (symmetry; apply mem_N_In; exact Hf).
      rewrite (legacy_total sha_256d) by
        (try exact plain_sub; unfold legacy_path_flags; apply in_or_app; left; rewrite <- std_legacy_eq; exact Hf).
      fold wt. fold code. destruct (legacy_preimage wt (ctx_idx c) f code); reflexivity.
  Qed.

  (* sig_preimage on a signature element whose flag is not one of the two bare enum values *)
  Lemma sig_preimage_spec sg :
    outside_flag sg = false ->
    sig_preimage c cs sg =
      match split_sig sg with
      | Some (_, f) => of_option (spec_sighash wt (ctx_idx c) f code v)
      | None => Err
      end.
  Proof.
    unfold outside_flag, sig_preimage. rewrite split_sig_last.
    destruct (last_opt sg) as [b|]; [|reflexivity].
    intros Hout. rewrite is_flag_mem. unfold all_flags.
    destruct (mem_N (b2n b) (std_forkid_flags ++ std_legacy_flags)) eqn:Estd.
    - replace (mem_N (b2n b) (std_forkid_flags ++ std_legacy_flags ++ [64%N; 128%N])) with true.
      + apply calc_preimage_spec. exact Estd.
      + symmetry. apply mem_N_In. apply mem_N_In in Estd. rewrite app_assoc. apply in_or_app. left. exact Estd.
    - assert (Hno : mem_N (b2n b) (std_forkid_flags ++ std_legacy_flags ++ [64%N; 128%N]) = false).
      { destruct (mem_N (b2n b) (std_forkid_flags ++ std_legacy_flags ++ [64%N; 128%N])) eqn:E; [|reflexivity].
        apply mem_N_In in E. rewrite app_assoc in E. apply in_app_or in E. destruct E as [E|E].
        - apply mem_N_In in E. congruence.
        - cbn [In] in E. destruct E as [E|[E|[]]]; rewrite <- E in Hout; discriminate. }
      rewrite Hno. unfold spec_sighash, sighash_spec.
      assert (mem_N (b2n b) std_forkid_flags = false /\ mem_N (b2n b) std_legacy_flags = false) as [-> ->].
      { split.
        - destruct (mem_N (b2n b) std_forkid_flags) eqn:E; [|reflexivity].
          apply mem_N_In in E. assert (In (b2n b) (std_forkid_flags ++ std_legacy_flags)) by (apply in_or_app; tauto).
          apply mem_N_In in H. congruence.
        - destruct (mem_N (b2n b) std_legacy_flags) eqn:E; [|reflexivity].
          apply mem_N_In in E. assert (In (b2n b) (std_forkid_flags ++ std_legacy_flags)) by (apply in_or_app; tauto).
          apply mem_N_In in H. congruence. }
      reflexivity.
  Qed.

  Lemma sig_preimage_no_panic sg : sig_preimage c cs sg <> Panic.
  Proof.
    unfold sig_preimage. destruct (last_opt sg) as [b|]; [|discriminate].
    destruct (is_flag b) eqn:Eflag; [|discriminate].
    rewrite is_flag_mem in Eflag. unfold all_flags in Eflag.
    apply mem_N_In in Eflag. rewrite app_assoc in Eflag. apply in_app_or in Eflag. destruct Eflag as [E|E].
    - rewrite calc_preimage_spec by (apply mem_N_In; exact E).
      destruct (spec_sighash wt (ctx_idx c) (b2n b) code v); discriminate.
    - unfold calculate_sighash_preimage. rewrite Hin, Hlock, Hsat. fold off.
      replace (Nat.ltb (length l) off) with false by (symmetry; apply Nat.ltb_ge; exact Hoff).
      rewrite (legacy_total sha_256d) by
        (try exact plain_sub; unfold legacy_path_flags; apply in_or_app; right; exact E).
      destruct (legacy_preimage _ _ _ _); discriminate.
  Qed.
End Ctx.

(* ------------------------------------------------------------------ *)
(* verification of one (signature element, key element) pair against a preimage *)
Lemma message_digest_sha256d pre : message_digest SHSha256d pre = Hd pre.
Proof. unfold message_digest. apply get_hash_digest_sha256d. Qed.

Lemma sig_verify_spec c pre sg pk :
  sig_verify ref_prims c pre sg pk =
    match split_sig sg with
    | None => Err
    | Some (der, f) =>
        match der_decode der with
        | None => Err
        | Some rs =>
            if mem_N f all_flags then
              match sec1_decode pk with
              | None => Err
              | Some Q => Ok (prim_verify Q (digest_scalar Hd pre) rs)
              end
            else Err
        end
    end.
Proof.
  unfold sig_verify, sighashsig_from_bytes. rewrite split_sig_last.
  destruct (last_opt sg) as [b|]; [|reflexivity].
  destruct (der_decode (removelast sg)) as [rs|]; [|reflexivity].
  rewrite is_flag_mem. destruct (mem_N (b2n b) all_flags); [|reflexivity].
  cbn [bind]. unfold pubkey_from_bytes. cbn [p_decode ref_prims].
  destruct (sec1_decode pk) as [Q|] eqn:EQ; [|reflexivity].
  cbn [bind]. unfold tx_verify, verify_hashbuf_impl. cbn [pk_point p_decode p_verify ref_prims ss_buffer ss_sig].
  rewrite EQ, message_digest_sha256d. unfold mk_sig. cbn [sig_r sig_s]. unfold scalar_be, digest_scalar.
  destruct rs as [r s]. cbn [fst snd].
  destruct (prim_verify Q (be_Z (Hd pre) mod secp_n)%Z (r, s)); reflexivity.
Qed.

Lemma sig_verify_no_panic c pre sg pk : sig_verify ref_prims c pre sg pk <> Panic.
Proof.
  rewrite sig_verify_spec. destruct (split_sig sg) as [[der f]|]; [|discriminate].
  destruct (der_decode der); [|discriminate]. destruct (mem_N f all_flags); [|discriminate].
  destruct (sec1_decode pk); discriminate.
Qed.

(* ------------------------------------------------------------------ *)
(* one pair: the two calls together succeed with `true` exactly when the specification calls the signature
   element valid for the key element *)
Section Pair.
  Variables (c : txctx) (i : txin) (l : list bit) (v : N) (cs : nat).
  Hypothesis Hin : nth_error (inputs (ctx_tx c)) (ctx_idx c) = Some i.
  Hypothesis Hlock : locking i = Some l.
  Hypothesis Hsat : satoshis i = Some v.
  Hypothesis Hoff : cs - length (unlocking i) <= length l.
  Hypothesis Hplain : plain_bits l = true.
  Let code := flatten (skipn (cs - length (unlocking i)) l).
  Let wt := view_tx (ctx_tx c).

  Definition pair_ok (sg pk : bytes) : Prop :=
    exists pre, sig_preimage c cs sg = Ok pre /\ sig_verify ref_prims c pre sg pk = Ok true.

  Lemma std_flag_all f : mem_N f (std_forkid_flags ++ std_legacy_flags) = true -> mem_N f all_flags = true.
  Proof.
    intros Hf. apply mem_N_In. apply mem_N_In in Hf. unfold all_flags. rewrite app_assoc. apply in_or_app. tauto.
  Qed.
  Lemma spec_sighash_std t n f cd amt p :
    spec_sighash t n f cd amt = Some p -> mem_N f (std_forkid_flags ++ std_legacy_flags) = true.
  Proof.
    unfold spec_sighash, sighash_spec. intros E. apply mem_N_In. apply in_or_app.
    destruct (mem_N f std_forkid_flags) eqn:E1; [left; apply mem_N_In; exact E1|].
    destruct (mem_N f std_legacy_flags) eqn:E2; [right; apply mem_N_In; exact E2|discriminate].
  Qed.

  Lemma pair_ok_iff sg pk :
    outside_flag sg = false ->
    (pair_ok sg pk <-> spec_sig_valid wt (ctx_idx c) code v sg pk = true).
  Proof.
    intros Hout. unfold pair_ok.
    rewrite (sig_preimage_spec c i l v cs Hin Hlock Hsat Hoff Hplain sg Hout).
    fold code wt. unfold spec_sig_valid, sig_valid, sig_data, data_valid.
    destruct (split_sig sg) as [[der f]|] eqn:Esp.
    2:{ split; [intros (pre & E & _); discriminate|discriminate]. }
    fold (spec_sighash wt (ctx_idx c) f code v).
    destruct (spec_sighash wt (ctx_idx c) f code v) as [p|] eqn:Epre.
    2:{ split; [intros (pre & E & _); discriminate|discriminate]. }
    cbn [of_option]. split.
    - intros (pre & E & Hv). inversion E; subst pre. rewrite sig_verify_spec, Esp in Hv.
      destruct (der_decode der) as [rs|]; [|discriminate].
      destruct (mem_N f all_flags); [|discriminate].
      destruct (sec1_decode pk) as [Q|]; [|discriminate]. inversion Hv. reflexivity.
    - intros Hv. exists p. split; [reflexivity|]. rewrite sig_verify_spec, Esp.
      destruct (der_decode der) as [rs|]; [|discriminate].
      rewrite (std_flag_all f (spec_sighash_std _ _ _ _ _ _ Epre)).
      destruct (sec1_decode pk) as [Q|]; [|discriminate]. rewrite Hv. reflexivity.
  Qed.

  (* a well-formed signature element against a well-formed key element: both calls succeed and the answer is
     the specification's *)
  Lemma pair_total sg pk zr Q :
    outside_flag sg = false ->
    spec_sig_data wt (ctx_idx c) code v sg = Some zr -> sec1_decode pk = Some Q ->
    exists pre, sig_preimage c cs sg = Ok pre /\
                sig_verify ref_prims c pre sg pk = Ok (spec_data_valid (Some zr) pk).
  Proof.
    intros Hout Hd HQ.
    rewrite (sig_preimage_spec c i l v cs Hin Hlock Hsat Hoff Hplain sg Hout). fold code wt.
    unfold spec_sig_data, sig_data in Hd. unfold spec_data_valid, data_valid. rewrite HQ.
    destruct (split_sig sg) as [[der f]|] eqn:Esp; [|discriminate].
    fold (spec_sighash wt (ctx_idx c) f code v) in Hd.
    destruct (spec_sighash wt (ctx_idx c) f code v) as [p|] eqn:Epre; [|discriminate].
    destruct (der_decode der) as [rs|] eqn:Eder; [|discriminate]. inversion Hd; subst zr.
    exists p. split; [reflexivity|]. rewrite sig_verify_spec, Esp, Eder, HQ.
    rewrite (std_flag_all f (spec_sighash_std _ _ _ _ _ _ Epre)). reflexivity.
  Qed.
End Pair.

(* ------------------------------------------------------------------ *)
(* what `valid` says, spelled out: the flag byte selects the specified signature hash; the DER part and the key
   element decode; the ECDSA verification primitive accepts on z = double-SHA256(preimage) mod n *)
Lemma sig_valid_explicit wt n code v sg pk :
  spec_sig_valid wt n code v sg pk = true <->
  exists der f pre rs Q,
    sg = der ++ [f] /\
    sighash_spec Hd wt n (b2n f) code v = Some pre /\
    der_decode der = Some rs /\ sec1_decode pk = Some Q /\
    prim_verify Q (be_Z (sha256 (sha256 pre)) mod secp_n)%Z rs = true.
Proof.
  unfold spec_sig_valid, sig_valid, sig_data, data_valid. rewrite split_sig_last. split.
  - destruct (last_opt sg) as [b|] eqn:El; [|discriminate].
    destruct (sighash_spec Hd wt n (b2n b) code v) as [pre|] eqn:Ep; [|discriminate].
    destruct (der_decode (removelast sg)) as [rs|] eqn:Ed; [|discriminate].
    destruct (sec1_decode pk) as [Q|] eqn:EQ; [|discriminate].
    intros Hv. exists (removelast sg), b, pre, rs, Q. repeat split; try assumption. apply last_opt_some. exact El.
  - intros (der & f & pre & rs & Q & -> & Ep & Ed & EQ & Hv).
    rewrite last_opt_app, removelast_last, Ep, Ed, EQ. exact Hv.
Qed.

(* the specification's signature hash is, per flag family, the C03 / C10 specification *)
Lemma sighash_spec_forkid wt n f code v :
  In f std_forkid_flags ->
  sighash_spec Hd wt n f code v =
    if single_without_output wt n f then None else bip143_preimage Hd wt n f (toks_bytes code) v.
Proof. intros H. unfold sighash_spec. apply mem_N_In in H. rewrite H. reflexivity. Qed.
Lemma sighash_spec_legacy wt n f code v :
  In f std_legacy_flags -> sighash_spec Hd wt n f code v = legacy_preimage wt n f code.
Proof.
  intros H. unfold sighash_spec. apply mem_N_In in H. rewrite H.
  destruct (mem_N f std_forkid_flags) eqn:E; [|reflexivity]. apply forkid_not_legacy in E. congruence.
Qed.
