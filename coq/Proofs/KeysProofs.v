(* Proofs/KeysProofs.v — lemmas behind Props/C07.v, about Model/Keys.v with the reference curve. *)
From BSV Require Import Base.Bytes Base.Hex.
From BSV Require Import Prim.Num Prim.Secp256k1 Prim.Base58 Prim.Sha256 Prim.Ripemd160.
From BSV Require Import Model.HashApi Model.Opcodes Model.Script Model.Asm Model.Keys.
From BSV Require Import Spec.AsmSpec.
From BSV Require Import Proofs.HashApiProofs Proofs.PrimHash Proofs.Secp256k1Proofs Proofs.AsmProofs.
Local Open Scope Z_scope.

(* ------------------------------------------------------------------ *)
(* lengths of the hashes *)
Lemma sha_256d_length m : length (sha_256d m) = 32%nat.
Proof. rewrite sha_256d_def. apply (hash_output_lengths (sha256 m)). Qed.

Lemma hash_160_length m : length (hash_160 m) = 20%nat.
Proof. rewrite hash_160_def. apply (hash_output_lengths (sha256 m)). Qed.

Lemma checksum4_length p : length (checksum4 p) = 4%nat.
Proof. unfold checksum4. rewrite firstn_length, sha_256d_length. reflexivity. Qed.

Lemma checksum4_b58check p : checksum4 p = take 4 (sha256 (sha256 p)).
Proof. unfold checksum4, take. rewrite sha_256d_def. reflexivity. Qed.

(* list slicing *)
Lemma firstn_app_exact {A} (a b : list A) n : n = length a -> firstn n (a ++ b) = a.
Proof. intros ->. rewrite firstn_app, Nat.sub_diag, firstn_all. cbn [firstn]. apply app_nil_r. Qed.
Lemma skipn_app_exact {A} (a b : list A) n : n = length a -> skipn n (a ++ b) = b.
Proof. intros ->. rewrite skipn_app, Nat.sub_diag, skipn_all. reflexivity. Qed.

Lemma bytes_eqb_neq a b : a <> b -> bytes_eqb a b = false.
Proof. intros H. destruct (bytes_eqb a b) eqn:E; [apply bytes_eqb_eq in E; contradiction | reflexivity]. Qed.

Lemma length_one_more {A} (l : list A) n : length l = S n -> exists a t, l = a :: t /\ length t = n.
Proof. destruct l as [|a t]; [discriminate|]. cbn [length]. intros H. exists a, t. split; [reflexivity | lia]. Qed.

(* ------------------------------------------------------------------ *)
(* private keys *)
Lemma in_scalar_spec v : in_scalar v = true <-> 1 <= v < secp_n.
Proof. unfold in_scalar. rewrite andb_true_iff, Z.leb_le, Z.ltb_lt. tauto. Qed.

Lemma secp_n_lt : secp_n < 2 ^ 256. Proof. reflexivity. Qed.

Lemma priv_from_bytes_be32 k :
  1 <= k < secp_n -> priv_from_bytes (be32 k) = Ok {| sk_scalar := k; sk_compressed := true |}.
Proof.
  intros Hk. pose proof secp_n_lt. unfold priv_from_bytes. rewrite be32_length. cbn [Nat.eqb negb].
  rewrite be_Z_be32 by lia. replace (in_scalar k) with true by (symmetry; apply in_scalar_spec; exact Hk).
  reflexivity.
Qed.

Lemma priv_from_bytes_ok bs k :
  priv_from_bytes bs = Ok k ->
  length bs = 32%nat /\ bs = be32 (sk_scalar k) /\ sk_compressed k = true /\ 1 <= sk_scalar k < secp_n.
Proof.
  unfold priv_from_bytes. destruct (Nat.eqb (length bs) 32) eqn:El; [|discriminate]. apply Nat.eqb_eq in El.
  cbn [negb]. destruct (in_scalar (be_Z bs)) eqn:Es; [|discriminate]. intros H. inversion H; subst k; clear H.
  cbn [sk_scalar sk_compressed]. apply in_scalar_spec in Es. rewrite be32_be_Z by exact El. auto.
Qed.

Lemma priv_from_bytes_total bs : priv_from_bytes bs <> Panic.
Proof. unfold priv_from_bytes. destruct (negb _); [discriminate|]. destruct (in_scalar _); discriminate. Qed.

Lemma priv_from_hex_hex bs : priv_from_hex (hex_of_bytes bs) = priv_from_bytes bs.
Proof. unfold priv_from_hex. rewrite bytes_of_hex_of_bytes. reflexivity. Qed.

(* PrivateKey::from_bytes / from_hex accept exactly the 32-byte big-endian encodings of 1 .. n-1 *)
Lemma priv_from_bytes_iff bs :
  (exists k, priv_from_bytes bs = Ok k) <-> (length bs = 32%nat /\ 1 <= be_Z bs < secp_n).
Proof.
  split.
  - intros [k H]. apply priv_from_bytes_ok in H. destruct H as (Hl & Hb & _ & Hr).
    split; [exact Hl|]. rewrite Hb. pose proof secp_n_lt. rewrite be_Z_be32 by lia. exact Hr.
  - intros [Hl Hr]. exists {| sk_scalar := be_Z bs; sk_compressed := true |}.
    rewrite <- (be32_be_Z bs Hl) at 1. apply priv_from_bytes_be32. exact Hr.
Qed.

Lemma priv_hex_roundtrip k :
  1 <= sk_scalar k < secp_n ->
  priv_from_hex (priv_to_hex k) = Ok {| sk_scalar := sk_scalar k; sk_compressed := true |}.
Proof. intros Hk. unfold priv_to_hex, priv_to_bytes. rewrite priv_from_hex_hex. exact (priv_from_bytes_be32 _ Hk). Qed.

(* ------------------------------------------------------------------ *)
(* WIF *)
Lemma wif_payload_length p k :
  length (wif_payload p k) = if sk_compressed k then 34%nat else 33%nat.
Proof.
  unfold wif_payload, priv_to_bytes. cbn [length]. rewrite app_length, be32_length.
  destruct (sk_compressed k); reflexivity.
Qed.

Lemma wif_decode_payload p k :
  1 <= sk_scalar k < secp_n ->
  from_wif (b58_encode (wif_payload p k ++ checksum4 (wif_payload p k))) = Ok k.
Proof.
  intros Hk. unfold from_wif. rewrite b58_roundtrip.
  pose proof (wif_payload_length p k) as Lp. pose proof (checksum4_length (wif_payload p k)) as Lc.
  rewrite app_length, Lc.
  replace (Nat.ltb (length (wif_payload p k) + 4) 5) with false
    by (symmetry; apply Nat.ltb_ge; destruct (sk_compressed k); lia).
  replace (length (wif_payload p k) + 4 - 4)%nat with (length (wif_payload p k)) by lia.
  cbv zeta. rewrite firstn_app_exact, skipn_app_exact by reflexivity.
  rewrite bytes_eqb_refl. cbn [negb].
  destruct k as [d c]. cbn [sk_scalar sk_compressed] in *.
  unfold wif_is_compressed. rewrite Lp. unfold wif_payload, priv_to_bytes. cbn [sk_scalar sk_compressed].
  destruct c.
  - change (Nat.ltb 34 34) with false. cbv iota.
    cbn [rev]. rewrite rev_app_distr. cbn [rev app]. change (byte_eqb x01 x01) with true. cbv iota.
    cbn [skipn]. change (34 - 2)%nat with 32%nat.
    rewrite firstn_app_exact by (symmetry; apply be32_length).
    rewrite priv_from_hex_hex, priv_from_bytes_be32 by exact Hk. reflexivity.
  - change (Nat.ltb 33 34) with true. cbv iota. cbn [skipn]. rewrite app_nil_r.
    rewrite priv_from_hex_hex, priv_from_bytes_be32 by exact Hk. reflexivity.
Qed.

Lemma wif_roundtrip k : 1 <= sk_scalar k < secp_n -> from_wif (to_wif k) = Ok k.
Proof. intros Hk. unfold to_wif. apply wif_decode_payload. exact Hk. Qed.

Lemma from_wif_total s : from_wif s <> Panic.
Proof.
  unfold from_wif. destruct (b58_decode s) as [wb|]; [|discriminate].
  destruct (Nat.ltb (length wb) 5); [discriminate|]. cbv zeta.
  destruct (negb (bytes_eqb _ _)); [discriminate|].
  rewrite priv_from_hex_hex.
  match goal with |- context [priv_from_bytes ?b] => pose proof (priv_from_bytes_total b) as T; destruct (priv_from_bytes b) end;
    cbn [bind]; congruence.
Qed.

Lemma from_wif_bad_base58 s : b58_decode s = None -> from_wif s = Err.
Proof. intros H. unfold from_wif. rewrite H. reflexivity. Qed.

Lemma from_wif_short s wb : b58_decode s = Some wb -> (length wb < 5)%nat -> from_wif s = Err.
Proof.
  intros H L. unfold from_wif. rewrite H.
  replace (Nat.ltb (length wb) 5) with true by (symmetry; apply Nat.ltb_lt; exact L). reflexivity.
Qed.

Lemma wif_bad_checksum_rejected s wb :
  b58_decode s = Some wb ->
  checksum4 (firstn (length wb - 4) wb) <> skipn (length wb - 4) wb ->
  from_wif s = Err.
Proof.
  intros H Hc. unfold from_wif. rewrite H. destruct (Nat.ltb (length wb) 5); [reflexivity|].
  cbv zeta. rewrite (bytes_eqb_neq _ _ Hc). reflexivity.
Qed.

(* what an accepted WIF string is: version byte (any), 32 key bytes in range, optional 01, checksum *)
Lemma from_wif_sound s k :
  from_wif s = Ok k ->
  1 <= sk_scalar k < secp_n /\
  exists p, s = b58_encode (wif_payload p k ++ checksum4 (wif_payload p k)).
Proof.
  unfold from_wif. destruct (b58_decode s) as [wb|] eqn:Ed; [|discriminate].
  apply b58_decode_encode in Ed.
  destruct (Nat.ltb (length wb) 5) eqn:El; [discriminate|]. apply Nat.ltb_ge in El.
  cbv zeta. set (n := (length wb - 4)%nat).
  destruct (bytes_eqb (checksum4 (firstn n wb)) (skipn n wb)) eqn:Ec; [|discriminate].
  apply bytes_eqb_eq in Ec. cbn [negb].
  assert (Ewb : wb = firstn n wb ++ checksum4 (firstn n wb)) by (rewrite Ec; symmetry; apply firstn_skipn).
  assert (Ln : length (firstn n wb) = n) by (apply firstn_length_le; unfold n; lia).
  revert Ewb Ln. generalize (firstn n wb) as wo. intros wo Ewb Ln.
  rewrite priv_from_hex_hex.
  destruct (priv_from_bytes _) as [k0| |] eqn:Ek; cbn [bind]; try discriminate.
  intros H. inversion H; subst k; clear H. cbn [compress_public_key sk_scalar sk_compressed].
  apply priv_from_bytes_ok in Ek. destruct Ek as (Lk & Bk & _ & Rk).
  split; [exact Rk|].
  assert (Hn1 : (1 <= n)%nat) by (unfold n; lia).
  unfold wif_is_compressed in *.
  destruct (Nat.ltb (length wo) 34) eqn:E34.
  - (* uncompressed by length *)
    destruct wo as [|p t]; [cbn [length] in Ln; lia|]. cbn [skipn] in *.
    exists p. unfold wif_payload, priv_to_bytes. cbn [compress_public_key sk_scalar sk_compressed].
    rewrite <- Bk, app_nil_r, <- Ewb. symmetry. exact Ed.
  - apply Nat.ltb_ge in E34.
    destruct (rev wo) as [|lb rt] eqn:Er.
    + (* impossible: wo is not empty *)
      apply (f_equal (@length byte)) in Er. rewrite rev_length in Er. cbn [length] in Er. lia.
    + assert (Ewo : wo = rev rt ++ [lb]) by (rewrite <- (rev_involutive wo), Er; reflexivity).
      destruct (byte_eqb lb x01) eqn:Eb.
      * apply byte_eqb_eq in Eb. subst lb.
        assert (Lr : length (rev rt) = (length wo - 1)%nat)
          by (rewrite Ewo, app_length; cbn [length]; lia).
        destruct (rev rt) as [|p mid] eqn:Em; [cbn [length] in Lr; lia|].
        rewrite Ewo in Lk, Bk. cbn [app skipn] in Lk, Bk.
        rewrite Ewo in Lr. cbn [app length] in Lr. rewrite app_length in Lr. cbn [length] in Lr.
        assert (Lmid : length mid = 32%nat).
        { rewrite firstn_length in Lk. cbn [length] in Lk. rewrite app_length in Lk. cbn [length] in Lk. lia. }
        cbn [length] in Bk. rewrite app_length in Bk. cbn [length] in Bk.
        replace (S (length mid + 1) - 2)%nat with (length mid) in Bk by lia.
        rewrite firstn_app_exact in Bk by reflexivity.
        exists p. unfold wif_payload, priv_to_bytes. cbn [compress_public_key sk_scalar sk_compressed].
        rewrite <- Bk. subst wo. rewrite <- Ed, Ewb. reflexivity.
      * destruct wo as [|p t]; [cbn [length] in Ln; lia|]. cbn [skipn] in *.
        exists p. unfold wif_payload, priv_to_bytes. cbn [compress_public_key sk_scalar sk_compressed].
        rewrite <- Bk, app_nil_r, <- Ewb. symmetry. exact Ed.
Qed.

Lemma wif_bad_length_rejected s wb :
  b58_decode s = Some wb -> length wb <> 37%nat -> length wb <> 38%nat -> from_wif s = Err.
Proof.
  intros Hd H37 H38. destruct (from_wif s) as [k| |] eqn:E; [exfalso | reflexivity | exfalso; exact (from_wif_total s E)].
  apply from_wif_sound in E. destruct E as (_ & p & Es).
  rewrite Es, b58_roundtrip in Hd.
  assert (Ew : wb = wif_payload p k ++ checksum4 (wif_payload p k)) by congruence. clear Hd. subst wb.
  rewrite app_length, checksum4_length, wif_payload_length in H37, H38. destruct (sk_compressed k); lia.
Qed.

(* a valid WIF whose four checksum bytes were replaced by anything else is rejected *)
Lemma wif_corrupt_checksum_rejected p k ck :
  ck <> checksum4 (wif_payload p k) -> length ck = 4%nat ->
  from_wif (b58_encode (wif_payload p k ++ ck)) = Err.
Proof.
  intros Hne Hl. apply (wif_bad_checksum_rejected _ (wif_payload p k ++ ck)); [apply b58_roundtrip|].
  rewrite app_length, Hl. replace (length (wif_payload p k) + 4 - 4)%nat with (length (wif_payload p k)) by lia.
  rewrite firstn_app_exact, skipn_app_exact by reflexivity. congruence.
Qed.

(* WIF is Base58Check of  80 || key || [01]  (the Base58Check of Prim/Base58.v over SHA-256d) *)
Lemma to_wif_base58check k :
  to_wif k = b58check_encode (fun m => sha256 (sha256 m)) (wif_payload x80 k).
Proof. unfold to_wif, b58check_encode. rewrite checksum4_b58check. reflexivity. Qed.

(* ------------------------------------------------------------------ *)
(* addresses *)
Definition addr_wf (a : address) : Prop :=
  length (a_hash a) = 20%nat /\ a_checksum a = checksum4 (a_prefix a :: a_hash a).

Lemma addr_to_string_base58check a :
  addr_to_string a = b58check_encode (fun m => sha256 (sha256 m)) (a_prefix a :: a_hash a).
Proof. unfold addr_to_string, b58check_encode. rewrite checksum4_b58check. reflexivity. Qed.

Lemma addr_roundtrip_gen p h ck :
  length h = 20%nat ->
  addr_from_string (addr_to_string {| a_prefix := p; a_hash := h; a_checksum := ck |})
  = Ok {| a_prefix := p; a_hash := h; a_checksum := checksum4 (p :: h) |}.
Proof.
  intros Hl. unfold addr_from_string, addr_to_string. cbn [a_prefix a_hash]. rewrite b58_roundtrip.
  pose proof (checksum4_length (p :: h)) as Lc.
  rewrite app_length, Lc. cbn [length]. rewrite Hl. change (Nat.eqb (21 + 4) 25) with true. cbn [negb].
  change (21 + 4 - 4)%nat with 21%nat. cbv zeta.
  rewrite firstn_app_exact, skipn_app_exact by (cbn [length]; lia).
  rewrite bytes_eqb_refl. cbn [negb app skipn]. change (21 - 1)%nat with 20%nat.
  rewrite firstn_app_exact by lia. reflexivity.
Qed.

Lemma addr_roundtrip a : addr_wf a -> addr_from_string (addr_to_string a) = Ok a.
Proof.
  destruct a as [p h ck]. unfold addr_wf. cbn [a_prefix a_hash a_checksum]. intros [Hl ->].
  apply addr_roundtrip_gen. exact Hl.
Qed.

Lemma addr_from_string_total s : addr_from_string s <> Panic.
Proof.
  unfold addr_from_string. destruct (b58_decode s) as [db|]; [|discriminate].
  destruct (Nat.eqb (length db) 25) eqn:E; [|discriminate]. cbn [negb]. cbv zeta.
  destruct (negb _); [discriminate|]. destruct db; [discriminate E | discriminate].
Qed.

Lemma addr_reject_base58 s : b58_decode s = None -> addr_from_string s = Err.
Proof. intros H. unfold addr_from_string. rewrite H. reflexivity. Qed.

Lemma addr_reject s db :
  b58_decode s = Some db ->
  (length db <> 25%nat \/ checksum4 (firstn 21 db) <> skipn 21 db) ->
  addr_from_string s = Err.
Proof.
  intros H C. unfold addr_from_string. rewrite H.
  destruct (Nat.eqb (length db) 25) eqn:E; [|reflexivity]. apply Nat.eqb_eq in E.
  destruct C as [C|C]; [contradiction|]. cbn [negb]. rewrite E. change (25 - 4)%nat with 21%nat.
  cbv zeta. rewrite (bytes_eqb_neq _ _ C). reflexivity.
Qed.

Lemma addr_from_string_sound s a :
  addr_from_string s = Ok a -> addr_wf a /\ s = addr_to_string a.
Proof.
  unfold addr_from_string. destruct (b58_decode s) as [db|] eqn:Ed; [|discriminate].
  apply b58_decode_encode in Ed.
  destruct (Nat.eqb (length db) 25) eqn:E; [|discriminate]. apply Nat.eqb_eq in E. cbn [negb].
  rewrite E. change (25 - 4)%nat with 21%nat. cbv zeta.
  destruct (bytes_eqb (checksum4 (firstn 21 db)) (skipn 21 db)) eqn:Ec; [|discriminate].
  apply bytes_eqb_eq in Ec. cbn [negb].
  destruct db as [|p t]; [discriminate|]. intros H.
  assert (Ha : a = {| a_prefix := p; a_hash := firstn 20 t; a_checksum := skipn 20 t |})
    by (injection H as <-; reflexivity).
  clear H. subst a.
  cbn [length] in E. assert (Lt : length t = 24%nat) by lia.
  assert (F : firstn 21 (p :: t) = p :: firstn 20 t) by reflexivity. rewrite F in Ec.
  change (skipn 21 (p :: t)) with (skipn 20 t) in Ec.
  unfold addr_wf, addr_to_string. cbn [a_prefix a_hash a_checksum].
  split; [split|].
  - rewrite firstn_length. lia.
  - symmetry. exact Ec.
  - rewrite Ec. rewrite <- Ed. f_equal. cbn [app]. f_equal. symmetry. apply firstn_skipn.
Qed.

Lemma addr_from_pubkey_hash_ok h :
  length h = 20%nat ->
  addr_from_pubkey_hash h = Ok {| a_prefix := x00; a_hash := h; a_checksum := checksum4 (x00 :: h) |}.
Proof. intros H. unfold addr_from_pubkey_hash. rewrite H. reflexivity. Qed.

Lemma addr_from_pubkey_hash_err h : length h <> 20%nat -> addr_from_pubkey_hash h = Err.
Proof. intros H. unfold addr_from_pubkey_hash. apply Nat.eqb_neq in H. rewrite H. reflexivity. Qed.

Lemma addr_from_pubkey_ok pk :
  addr_from_pubkey pk = Ok {| a_prefix := x00; a_hash := hash_160 (pk_point pk);
                              a_checksum := checksum4 (x00 :: hash_160 (pk_point pk)) |}.
Proof. unfold addr_from_pubkey. apply addr_from_pubkey_hash_ok, hash_160_length. Qed.

(* every constructor yields a well-formed address *)
Lemma addr_wf_from_hash h a : addr_from_pubkey_hash h = Ok a -> addr_wf a.
Proof.
  unfold addr_from_pubkey_hash. destruct (Nat.eqb (length h) 20) eqn:E; [|discriminate]. apply Nat.eqb_eq in E.
  intros H. inversion H; subst a. split; [exact E | reflexivity].
Qed.
Lemma addr_wf_set_chain a p a' : length (a_hash a) = 20%nat -> addr_set_chain a p = Ok a' -> addr_wf a'.
Proof. intros Hl H. inversion H; subst a'. split; [exact Hl | reflexivity]. Qed.

(* the address string of a key under any prefix decodes to that prefix and HASH160 of the key *)
Lemma addr_string_of_key pk p a a' :
  addr_from_pubkey pk = Ok a -> addr_set_chain a p = Ok a' ->
  addr_from_string (addr_to_string a') = Ok a' /\ a_prefix a' = p /\
  a_hash a' = ripemd160 (sha256 (pk_point pk)).
Proof.
  rewrite addr_from_pubkey_ok. intros H. inversion H; subst a; clear H.
  unfold addr_set_chain. cbn [a_hash]. intros H. inversion H; subst a'; clear H.
  cbn [a_prefix a_hash]. split; [|split; [reflexivity | apply hash_160_def]].
  apply addr_roundtrip. split; [apply hash_160_length | reflexivity].
Qed.

(* ------------------------------------------------------------------ *)
(* public keys *)
Lemma decode_ep bs P : sec1_decode bs = Some P ->
  exists tag, ep_from_bytes bs = Some tag /\
              tag_is_compressed tag = Nat.eqb (length bs) 33.
Proof.
  unfold sec1_decode, sec1_decode_g, ep_from_bytes, tag_is_compressed.
  destruct bs as [|tag rest]; [discriminate|].
  destruct (byte_eqb tag x02 || byte_eqb tag x03) eqn:Et.
  - destruct (Nat.eqb (length rest) 32) eqn:El; [|discriminate]. apply Nat.eqb_eq in El. intros _.
    exists tag. cbn [length]. rewrite El.
    assert (byte_eqb tag x00 = false) as ->.
    { apply orb_true_iff in Et. destruct Et as [Et|Et]; apply byte_eqb_eq in Et; subst tag; reflexivity. }
    rewrite Et. cbn [orb]. split; reflexivity.
  - destruct (byte_eqb tag x04) eqn:E4; [|discriminate]. apply byte_eqb_eq in E4. subst tag.
    destruct (Nat.eqb (length rest) 64) eqn:El; [|discriminate]. apply Nat.eqb_eq in El. intros _.
    exists x04. cbn [length]. rewrite El. split; reflexivity.
Qed.

Lemma pubkey_accept_iff bs :
  (exists pk, pub_from_bytes curve_ref bs = Ok pk) <-> (exists P, sec1_decode bs = Some P).
Proof.
  unfold pub_from_bytes. cbn [ci_decode curve_ref]. split.
  - intros [pk H]. destruct (ep_from_bytes bs); [|discriminate].
    destruct (sec1_decode bs) as [P|]; [exists P; reflexivity | discriminate].
  - intros [P H]. destruct (decode_ep bs P H) as (tag & -> & _). rewrite H. eexists. reflexivity.
Qed.

Lemma pub_from_bytes_total bs : pub_from_bytes curve_ref bs <> Panic.
Proof. unfold pub_from_bytes. destruct (ep_from_bytes bs); [|discriminate]. destruct (ci_decode _ _); discriminate. Qed.

(* an accepted byte string is the SEC1 encoding of a non-identity curve point with canonical
   coordinates; the stored bytes are the input and the flag says which of the two forms it is *)
Lemma pubkey_accepted_is_point bs pk :
  pub_from_bytes curve_ref bs = Ok pk ->
  pk_point pk = bs /\
  exists x y, 0 <= x < secp_p /\ 0 <= y < secp_p /\ on_curve (Some (x, y)) = true /\
              sec1_decode bs = Some (Some (x, y)) /\
              pk_compressed pk = Nat.eqb (length bs) 33 /\
              (length bs = 33%nat \/ length bs = 65%nat) /\
              (y <> 0 -> bs = sec1_encode (pk_compressed pk) (Some (x, y))).
Proof.
  unfold pub_from_bytes. cbn [ci_decode curve_ref].
  destruct (ep_from_bytes bs) as [tag|] eqn:Ee; [|discriminate].
  destruct (sec1_decode bs) as [P|] eqn:Ed; [|discriminate].
  intros H. inversion H; subst pk; clear H. cbn [pub_of_encoded pk_point pk_compressed].
  split; [reflexivity|].
  destruct (decode_ep bs P Ed) as (tag' & Ee' & Ht). rewrite Ee in Ee'. inversion Ee'; subst tag'; clear Ee'.
  destruct (sec1_decode_sound bs P Ed) as (x & y & -> & Hx & Hy & Hc & Hl).
  exists x, y. split; [exact Hx|]. split; [exact Hy|]. split; [exact Hc|]. split; [reflexivity|].
  split; [exact Ht|]. split; [exact Hl|].
  intros Hy0. rewrite Ht. apply sec1_decode_exact; assumption.
Qed.

(* conversely every such encoding is accepted (compressed form: under sqrt_ok) *)
Lemma pubkey_point_accepted c x y :
  sqrt_ok -> 0 <= x < secp_p -> 0 <= y < secp_p -> on_curve (Some (x, y)) = true ->
  pub_from_bytes curve_ref (sec1_encode c (Some (x, y)))
  = Ok {| pk_point := sec1_encode c (Some (x, y)); pk_compressed := c |}.
Proof.
  intros S Hx Hy Hc. unfold pub_from_bytes. cbn [ci_decode curve_ref].
  rewrite (sec1_roundtrip c x y S Hx Hy Hc).
  unfold sec1_encode. destruct c.
  - destruct (Z.odd y); cbn [ep_from_bytes length]; rewrite be32_length; reflexivity.
  - cbn [ep_from_bytes length]. rewrite app_length, !be32_length. reflexivity.
Qed.

Lemma pubkey_identity_rejected : pub_from_bytes curve_ref [x00] = Err.
Proof. reflexivity. Qed.

Lemma pubkey_bad_tag_rejected tag rest :
  tag <> x02 -> tag <> x03 -> tag <> x04 -> pub_from_bytes curve_ref (tag :: rest) = Err.
Proof.
  intros H2 H3 H4. unfold pub_from_bytes. cbn [ci_decode curve_ref].
  assert (D : sec1_decode (tag :: rest) = None).
  { unfold sec1_decode, sec1_decode_g.
    assert (byte_eqb tag x02 = false) as -> by (destruct (byte_eqb tag x02) eqn:E; [apply byte_eqb_eq in E; contradiction | reflexivity]).
    assert (byte_eqb tag x03 = false) as -> by (destruct (byte_eqb tag x03) eqn:E; [apply byte_eqb_eq in E; contradiction | reflexivity]).
    assert (byte_eqb tag x04 = false) as -> by (destruct (byte_eqb tag x04) eqn:E; [apply byte_eqb_eq in E; contradiction | reflexivity]).
    reflexivity. }
  rewrite D. destruct (ep_from_bytes (tag :: rest)); reflexivity.
Qed.

Lemma pubkey_bad_length_rejected bs :
  length bs <> 33%nat -> length bs <> 65%nat -> pub_from_bytes curve_ref bs = Err.
Proof.
  intros H33 H65. destruct (pub_from_bytes curve_ref bs) as [pk| |] eqn:E;
    [exfalso | reflexivity | exfalso; exact (pub_from_bytes_total bs E)].
  apply pubkey_accepted_is_point in E. destruct E as (_ & x & y & _ & _ & _ & _ & _ & Hl & _). lia.
Qed.

(* --- compress / decompress --- *)
Lemma odd_last_be32 y : 0 <= y ->
  match rev (be32 y) with l :: _ => N.odd (b2n l) | [] => false end = Z.odd y.
Proof.
  intros Hy. unfold be32, be_bytes. rewrite rev_involutive. cbn [le_bytes].
  rewrite b2n_n2b_mod.
  assert (E : N.odd (Z.to_N y mod 256) = N.odd (Z.to_N y)).
  { rewrite <- !N.bit0_odd. change 256%N with (2 ^ 8)%N. apply N.mod_pow2_bits_low. lia. }
  rewrite E. destruct y as [|q|q]; [reflexivity | | lia]. cbn [Z.to_N]. destruct q; reflexivity.
Qed.

Definition pk_of (c : bool) (P : point) : pubkey_t := {| pk_point := sec1_encode c P; pk_compressed := c |}.

Lemma decompress_compressed x y :
  sqrt_ok -> 0 <= x < secp_p -> 0 <= y < secp_p -> on_curve (Some (x, y)) = true ->
  pub_to_decompressed curve_ref (pk_of true (Some (x, y))) = Ok (pk_of false (Some (x, y))).
Proof.
  intros S Hx Hy Hc. pose proof secp_p_lt as L. unfold pub_to_decompressed, pk_of. cbn [pk_point ci_lift curve_ref].
  unfold sec1_encode at 1 2 3.
  assert (Ht : forall t, t = x02 \/ t = x03 ->
            ep_from_bytes (t :: be32 x) = Some t /\ tag_is_compressed t = true).
  { intros t [-> | ->]; cbn [ep_from_bytes length]; rewrite be32_length; split; reflexivity. }
  pose proof (lift_x_complete x y S Hx Hy Hc) as HL.
  destruct (Z.odd y) eqn:Eo.
  - destruct (Ht x03 (or_intror eq_refl)) as [-> ->]. cbn [skipn]. rewrite be_Z_be32 by lia.
    change (byte_eqb x03 x03) with true. rewrite HL. reflexivity.
  - destruct (Ht x02 (or_introl eq_refl)) as [-> ->]. cbn [skipn]. rewrite be_Z_be32 by lia.
    change (byte_eqb x02 x03) with false. rewrite HL. reflexivity.
Qed.

Lemma ep_uncompressed x y : ep_from_bytes (x04 :: be32 x ++ be32 y) = Some x04.
Proof. cbn [ep_from_bytes length]. rewrite app_length, !be32_length. reflexivity. Qed.

Lemma decompress_uncompressed x y :
  pub_to_decompressed curve_ref (pk_of false (Some (x, y))) = Ok (pk_of false (Some (x, y))).
Proof. unfold pub_to_decompressed, pk_of. cbn [pk_point sec1_encode]. rewrite ep_uncompressed. reflexivity. Qed.

Lemma compress_uncompressed x y :
  0 <= y -> pub_to_compressed (pk_of false (Some (x, y))) = Ok (pk_of true (Some (x, y))).
Proof.
  intros Hy. unfold pub_to_compressed, pk_of. cbn [pk_point sec1_encode]. rewrite ep_uncompressed.
  change (byte_eqb x04 x04) with true. cbv iota.
  change (skipn 1 (x04 :: be32 x ++ be32 y)) with (be32 x ++ be32 y).
  change (skipn 33 (x04 :: be32 x ++ be32 y)) with (skipn 32 (be32 x ++ be32 y)).
  rewrite firstn_be32_app, skipn_be32_app.
  cbv zeta. rewrite (odd_last_be32 y Hy). destruct (Z.odd y); reflexivity.
Qed.

Lemma compress_compressed x y :
  pub_to_compressed (pk_of true (Some (x, y))) = Ok (pk_of true (Some (x, y))).
Proof.
  unfold pub_to_compressed, pk_of. cbn [pk_point sec1_encode].
  destruct (Z.odd y); cbn [ep_from_bytes length]; rewrite be32_length; reflexivity.
Qed.

Lemma compress_decompress_inverse x y :
  sqrt_ok -> 0 <= x < secp_p -> 0 <= y < secp_p -> on_curve (Some (x, y)) = true ->
  let P := Some (x, y) in
  pub_to_decompressed curve_ref (pk_of true P) = Ok (pk_of false P)
  /\ pub_to_compressed (pk_of false P) = Ok (pk_of true P)
  /\ pub_to_decompressed curve_ref (pk_of false P) = Ok (pk_of false P)
  /\ pub_to_compressed (pk_of true P) = Ok (pk_of true P).
Proof.
  intros S Hx Hy Hc. cbv zeta.
  exact (conj (decompress_compressed x y S Hx Hy Hc)
        (conj (compress_uncompressed x y (proj1 Hy))
        (conj (decompress_uncompressed x y) (compress_compressed x y)))).
Qed.

(* PrivateKey::to_public_key: the SEC1 encoding of d*G in the key's compression form *)
Lemma to_public_key_spec d c x y :
  pubkey d = Some (x, y) ->
  to_public_key curve_ref {| sk_scalar := d; sk_compressed := c |} = Ok (pk_of c (Some (x, y))).
Proof.
  intros Hp. unfold to_public_key, pub_from_private. cbn [sk_scalar sk_compressed ci_pubkey curve_ref].
  rewrite Hp. destruct c; cbn [negb]; [reflexivity|]. apply decompress_uncompressed.
Qed.

(* ------------------------------------------------------------------ *)
(* scripts *)
Definition p2pkh_bits (h : bytes) : list bit := [BOp 118; BOp 169; BPush h; BOp 136; BOp 172].

Lemma locking_asm_render h : locking_asm h = to_asm false (p2pkh_bits h).
Proof. reflexivity. Qed.

Lemma locking_script_spec a :
  length (a_hash a) = 20%nat ->
  addr_locking_script a = Ok (p2pkh_bits (a_hash a)) /\
  to_bytes (p2pkh_bits (a_hash a)) = [x76; xa9; x14] ++ a_hash a ++ [x88; xac].
Proof.
  intros Hl. split.
  - unfold addr_locking_script. rewrite locking_asm_render. apply asm_roundtrip_tree.
    + reflexivity.
    + reflexivity.
    + reflexivity.
    + unfold minimal_pushes, p2pkh_bits. cbn [forallb all_leaves minimal_leaf]. rewrite Hl. reflexivity.
    + unfold ambiguous_numeric_push, p2pkh_bits. cbn [forallb all_leaves not_numeric_push].
      destruct (a_hash a) as [|b0 [|b1 t]]; try discriminate Hl. reflexivity.
  - unfold p2pkh_bits. cbn [to_bytes bit_bytes app]. rewrite Hl. reflexivity.
Qed.

Lemma unlocking_asm_render sig pkb : unlocking_asm sig pkb = to_asm false [BPush sig; BPush pkb].
Proof. reflexivity. Qed.

Lemma unlock_iff_hash a pk sig :
  addr_unlocking_script a pk sig =
  if bytes_eqb (hash_160 (pk_point pk)) (a_hash a) then from_asm (unlocking_asm sig (pk_point pk)) else Err.
Proof.
  unfold addr_unlocking_script. rewrite addr_from_pubkey_ok. cbn [bind a_hash].
  destruct (bytes_eqb _ _); reflexivity.
Qed.

Lemma unlock_accepts_own_key pk p a a' sig :
  addr_from_pubkey pk = Ok a -> addr_set_chain a p = Ok a' ->
  (2 <= length sig <= 75)%nat -> (2 <= length (pk_point pk) <= 75)%nat ->
  addr_unlocking_script a' pk sig = Ok [BPush sig; BPush (pk_point pk)].
Proof.
  rewrite addr_from_pubkey_ok. intros H. inversion H; subst a; clear H.
  unfold addr_set_chain. cbn [a_hash]. intros H. inversion H; subst a'; clear H.
  intros Ls Lp. rewrite unlock_iff_hash. cbn [a_hash]. rewrite bytes_eqb_refl.
  rewrite unlocking_asm_render. apply asm_roundtrip_tree.
  - reflexivity.
  - reflexivity.
  - reflexivity.
  - unfold minimal_pushes. cbn [forallb all_leaves minimal_leaf].
    apply andb_true_iff. split; [|apply andb_true_iff; split; [|reflexivity]]; apply andb_true_iff; split; lia.
  - unfold ambiguous_numeric_push. cbn [forallb all_leaves not_numeric_push].
    destruct sig as [|s0 [|s1 st]]; cbn [length] in Ls; try lia.
    destruct (pk_point pk) as [|q0 [|q1 qt]]; cbn [length] in Lp; try lia. reflexivity.
Qed.

Lemma unlock_rejects_other_hash a pk sig :
  a_hash a <> hash_160 (pk_point pk) -> addr_unlocking_script a pk sig = Err.
Proof.
  intros H. rewrite unlock_iff_hash. rewrite bytes_eqb_neq by congruence. reflexivity.
Qed.
