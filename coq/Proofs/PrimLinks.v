(* Proofs/PrimLinks.v — constants defined independently in several Prim files agree. *)
From BSV Require Import Base.Bytes.
From BSV Require Import Prim.Num Prim.Secp256k1 Prim.Der Proofs.Secp256k1Proofs.
Local Open Scope Z_scope.

Lemma der_n_is_secp_n : der_n = secp_n.
Proof. reflexivity. Qed.

Lemma der_range_is_in_scalar v : der_range v = in_scalar v.
Proof. reflexivity. Qed.

(* a signature produced by prim_sign is DER-encodable and re-parses *)
Lemma der_roundtrip_signed d k z r s v :
  prim_sign d k z = Some (r, s, v) -> der_decode (der_encode r s) = Some (r, s).
Proof.
  intros H. apply prim_sign_range in H. destruct H as (Hr & Hs & _).
  assert (secp_n / 2 < secp_n) by reflexivity.
  apply der_roundtrip; rewrite der_n_is_secp_n; lia.
Qed.
Print Assumptions der_roundtrip_signed.
