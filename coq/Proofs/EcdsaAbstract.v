(* Proofs/EcdsaAbstract.v — ECDSA/ECDH over an abstract group.

   The sign / verify / recover / ecdh functions are LITERALLY those of
   Prim/Secp256k1.v (section Ecdsa: prim_sign_g, prim_verify_g, recover_point_g,
   recover_g, ecdh_g), here applied to an abstract carrier with the group laws as
   section hypotheses.  Nothing in this file is specific to secp256k1; the concrete
   formulas of Prim/Secp256k1.v are NOT proved to satisfy these hypotheses. *)
From BSV Require Import Base.Bytes.
From BSV Require Import Prim.Num Prim.Secp256k1.
From Coq Require Import Zdiv Setoid Morphisms.
Local Open Scope Z_scope.

(* ------------------------------------------------------------------ *)
(* What a successful prim_sign_g computed (no group law needed).        *)
Section SignSpec.
  Variables (pt : Type) (g_smul : Z -> pt -> pt) (g_gen : pt) (g_x : pt -> Z)
            (g_yodd : pt -> bool) (n : Z) (inv_n : Z -> Z).

  Lemma prim_sign_g_spec d k z r s v :
    prim_sign_g pt g_smul g_gen g_x g_yodd n inv_n d k z = Some (r, s, v) ->
    let R := g_smul k g_gen in
    let s0 := (inv_n k * ((z + r * d) mod n)) mod n in
    k <> 0 /\ r = g_x R mod n /\ r <> 0 /\ s0 <> 0 /\
    ((s0 <= n / 2 /\ s = s0 /\ v = g_yodd R) \/
     (n / 2 < s0 /\ s = n - s0 /\ v = negb (g_yodd R))).
  Proof.
    unfold prim_sign_g.
    destruct (k =? 0) eqn:Ek; [discriminate|].
    set (r0 := g_x (g_smul k g_gen) mod n).
    set (s0 := (inv_n k * ((z + r0 * d) mod n)) mod n).
    destruct (s0 =? 0) eqn:Es; [discriminate|].
    destruct (r0 =? 0) eqn:Er; [discriminate|].
    apply Z.eqb_neq in Ek, Es, Er.
    intros H. assert (Hr : r0 = r) by congruence. subst r.
    cbv zeta. fold s0. repeat (split; [assumption || reflexivity|]).
    destruct (n / 2 <? s0) eqn:Eh; [apply Z.ltb_lt in Eh; right | apply Z.ltb_ge in Eh; left];
      (split; [exact Eh|]); split; try congruence.
    - assert (xorb (g_yodd (g_smul k g_gen)) true = v) by congruence.
      rewrite <- H0. apply xorb_true_r.
    - assert (xorb (g_yodd (g_smul k g_gen)) false = v) by congruence.
      rewrite <- H0. apply xorb_false_r.
  Qed.
End SignSpec.

(* ------------------------------------------------------------------ *)
(* Congruences modulo n behind verification and recovery.               *)
Section Congruences.
  Variable n : Z.
  Local Instance eqm_equiv : Equivalence (eqm n) := eqm_setoid n.
  Local Instance eqm_add : Proper (eqm n ==> eqm n ==> eqm n) Z.add := Zplus_eqm n.
  Local Instance eqm_sub : Proper (eqm n ==> eqm n ==> eqm n) Z.sub := Zminus_eqm n.
  Local Instance eqm_mul : Proper (eqm n ==> eqm n ==> eqm n) Z.mul := Zmult_eqm n.
  Local Instance eqm_opp : Proper (eqm n ==> eqm n) Z.opp := Zopp_eqm n.

  Lemma eqm_of_eq a b : a = b -> eqm n a b.
  Proof. intros ->. reflexivity. Qed.

  (* e = 1 (s kept) or e = -1 (s replaced by n - s); w = z + r d *)
  Variables (k ki r ri s si z d e : Z).
  Hypothesis Hk : eqm n (k * ki) 1.
  Hypothesis Hse : eqm n (s * e) (ki * (z + r * d)).

  Lemma verify_congruence :
    eqm n (s * si) 1 ->
    eqm n ((z * si) mod n + (r * si) mod n * d) (e * k).
  Proof.
    intros Hs. rewrite !(Zmod_eqm n).
    transitivity ((k * ki) * ((z + r * d) * si)).
    - rewrite Hk. apply eqm_of_eq. ring.
    - transitivity (k * ((ki * (z + r * d)) * si)); [apply eqm_of_eq; ring|].
      rewrite <- Hse.
      transitivity (e * k * (s * si)); [apply eqm_of_eq; ring|].
      rewrite Hs. apply eqm_of_eq. ring.
  Qed.

  Lemma recover_congruence :
    eqm n (r * ri) 1 ->
    eqm n ((- ((ri * z) mod n)) mod n + (ri * s) mod n * (e * k)) d.
  Proof.
    intros Hr. rewrite !(Zmod_eqm n).
    transitivity (ri * (- z + (s * e) * k)); [apply eqm_of_eq; ring|].
    rewrite Hse.
    transitivity (ri * (- z + (k * ki) * (z + r * d))); [apply eqm_of_eq; ring|].
    rewrite Hk.
    transitivity ((r * ri) * d); [apply eqm_of_eq; ring|].
    rewrite Hr. apply eqm_of_eq. ring.
  Qed.
End Congruences.

Section Congruences2.
  Variable n : Z.
  Local Instance eqm_equiv2 : Equivalence (eqm n) := eqm_setoid n.
  Local Instance eqm_add2 : Proper (eqm n ==> eqm n ==> eqm n) Z.add := Zplus_eqm n.
  Local Instance eqm_sub2 : Proper (eqm n ==> eqm n ==> eqm n) Z.sub := Zminus_eqm n.
  Local Instance eqm_mul2 : Proper (eqm n ==> eqm n ==> eqm n) Z.mul := Zmult_eqm n.
  Local Instance eqm_opp2 : Proper (eqm n ==> eqm n) Z.opp := Zopp_eqm n.

  (* equal first coefficients u1 = -(r^-1 z) force equal message scalars *)
  Lemma other_z_congruence r ri z z' :
    eqm n (r * ri) 1 ->
    eqm n ((- ((ri * z') mod n)) mod n - (- ((ri * z) mod n)) mod n) 0 ->
    eqm n z' z.
  Proof.
    intros Hr H. rewrite !(Zmod_eqm n) in H.
    assert (E : eqm n (ri * z') (ri * z)).
    { transitivity (ri * z - (- (ri * z') - - (ri * z))); [apply eqm_of_eq; ring|].
      rewrite H. apply eqm_of_eq. ring. }
    transitivity ((r * ri) * z'); [rewrite Hr; apply eqm_of_eq; ring|].
    transitivity (r * (ri * z')); [apply eqm_of_eq; ring|].
    rewrite E.
    transitivity ((r * ri) * z); [apply eqm_of_eq; ring|].
    rewrite Hr. apply eqm_of_eq. ring.
  Qed.
End Congruences2.

(* ------------------------------------------------------------------ *)
Section AbstractGroup.
  Variable pt : Type.
  Variables (padd : pt -> pt -> pt) (pneg : pt -> pt) (pzero : pt).
  Variable smul : Z -> pt -> pt.
  Variable G : pt.
  Variable n : Z.
  Variable xcoord : pt -> Z.
  Variable yodd : pt -> bool.
  Variable is_inf : pt -> bool.
  Variable lift : Z -> bool -> option pt.
  Variable inv_n : Z -> Z.

  (* abelian group *)
  Hypothesis padd_assoc : forall P Q R, padd P (padd Q R) = padd (padd P Q) R.
  Hypothesis padd_comm : forall P Q, padd P Q = padd Q P.
  Hypothesis padd_0_l : forall P, padd pzero P = P.
  Hypothesis padd_neg_r : forall P, padd P (pneg P) = pzero.
  (* smul is the action of Z *)
  Hypothesis smul_add : forall a b P, smul (a + b) P = padd (smul a P) (smul b P).
  Hypothesis smul_mul : forall a b P, smul (a * b) P = smul a (smul b P).
  Hypothesis smul_1 : forall P, smul 1 P = P.
  (* G has order dividing n; every non-zero residue is invertible and inv_n inverts it
     (for secp256k1: n is prime and inv_n = Secp256k1.sinv, see modinv_correct) *)
  Hypothesis n_gt_1 : 1 < n.
  Hypothesis smul_n_G : smul n G = pzero.
  Hypothesis inv_n_ok : forall a, 0 < a < n -> (a * inv_n a) mod n = 1.
  (* coordinates (k256 convention: the identity has x = 0) *)
  Hypothesis xcoord_neg : forall P, xcoord (pneg P) = xcoord P.
  Hypothesis xcoord_zero : xcoord pzero = 0.

  Local Notation sign := (prim_sign_g pt smul G xcoord yodd n inv_n).
  Local Notation verify := (prim_verify_g pt smul padd G xcoord n inv_n).
  Local Notation recover_point := (recover_point_g pt smul padd G lift n inv_n).
  Local Notation recover := (recover_g pt smul padd G is_inf lift n inv_n).
  Local Notation ecdh := (ecdh_g pt smul xcoord).

  (* --- consequences of the laws --- *)
  Lemma padd_0_r P : padd P pzero = P.
  Proof. rewrite padd_comm. apply padd_0_l. Qed.

  Lemma padd_cancel_r P Q R : padd P R = padd Q R -> P = Q.
  Proof.
    intros H. rewrite <- (padd_0_r P), <- (padd_0_r Q), <- (padd_neg_r R), !padd_assoc, H. reflexivity.
  Qed.

  Lemma pneg_unique P Q : padd P Q = pzero -> Q = pneg P.
  Proof.
    intros H. apply (padd_cancel_r _ _ P). rewrite (padd_comm Q P), H, (padd_comm _ P), padd_neg_r. reflexivity.
  Qed.

  Lemma smul_0 P : smul 0 P = pzero.
  Proof.
    apply (padd_cancel_r _ _ (smul 0 P)). rewrite <- smul_add, padd_0_l. reflexivity.
  Qed.

  Lemma smul_neg a P : smul (- a) P = pneg (smul a P).
  Proof. apply pneg_unique. rewrite <- smul_add, Z.add_opp_diag_r. apply smul_0. Qed.

  Lemma smul_pzero a : smul a pzero = pzero.
  Proof. rewrite <- (smul_0 G), <- smul_mul, Z.mul_0_r. reflexivity. Qed.

  Lemma smul_mod_G a : smul (a mod n) G = smul a G.
  Proof.
    rewrite (Z.div_mod a n) at 2 by lia.
    rewrite smul_add, (Z.mul_comm n), smul_mul, smul_n_G, smul_pzero, padd_0_l. reflexivity.
  Qed.

  Lemma smul_eqm_G a b : eqm n a b -> smul a G = smul b G.
  Proof. unfold eqm. intros H. rewrite <- (smul_mod_G a), H. apply smul_mod_G. Qed.

  Lemma lincomb_G u1 u2 a : padd (smul u1 G) (smul u2 (smul a G)) = smul (u1 + u2 * a) G.
  Proof. rewrite smul_add, smul_mul. reflexivity. Qed.

  Lemma inv_n_eqm a : 0 < a < n -> eqm n (a * inv_n a) 1.
  Proof. intros H. unfold eqm. rewrite inv_n_ok by exact H. symmetry. apply Z.mod_1_l. lia. Qed.

  (* --- ECDH --- *)
  Theorem ecdh_point_symmetric a b : smul a (smul b G) = smul b (smul a G).
  Proof. rewrite <- !smul_mul, Z.mul_comm. reflexivity. Qed.

  Theorem ecdh_symmetric a b : ecdh a (smul b G) = ecdh b (smul a G).
  Proof. unfold ecdh_g. rewrite ecdh_point_symmetric. reflexivity. Qed.

  (* --- ECDSA --- *)
  (* the facts shared by verification and recovery: s*e = k^-1 (z + r d) with e = +-1 *)
  Lemma sign_facts d k z r s v :
    0 < k < n -> sign d k z = Some (r, s, v) ->
    1 <= r < n /\ 1 <= s <= n / 2 /\ r = xcoord (smul k G) mod n /\
    exists e, (e = 1 /\ v = yodd (smul k G) \/ e = -1 /\ v = negb (yodd (smul k G))) /\
              eqm n (s * e) (inv_n k * (z + r * d)).
  Proof.
    intros Hk H. pose proof (prim_sign_g_spec _ _ _ _ _ _ _ _ _ _ _ _ _ H) as S.
    cbv zeta in S. destruct S as (_ & Hr & Hr0 & Hs0 & Hs).
    set (s0 := (inv_n k * ((z + r * d) mod n)) mod n) in *.
    assert (Bs : 0 <= s0 < n) by (apply Z.mod_pos_bound; lia).
    assert (Br : 0 <= r < n) by (rewrite Hr; apply Z.mod_pos_bound; lia).
    assert (E0 : eqm n s0 (inv_n k * (z + r * d))).
    { unfold s0, eqm. rewrite Zmod_mod, Zmult_mod_idemp_r. reflexivity. }
    split; [lia|].
    destruct Hs as [(Hlo & -> & ->)|(Hhi & -> & ->)].
    - split; [lia|]. split; [exact Hr|]. exists 1. split; [left; auto|].
      rewrite Z.mul_1_r. exact E0.
    - split; [lia|]. split; [exact Hr|]. exists (-1). split; [right; auto|].
      unfold eqm in *. rewrite <- E0.
      replace ((n - s0) * -1) with (s0 + (-1) * n) by ring. apply Z_mod_plus_full.
  Qed.

  Lemma sig_in_range_true r s : 1 <= r < n -> 1 <= s <= n / 2 -> sig_in_range n r s = true.
  Proof.
    intros Hr Hs. unfold sig_in_range.
    assert (n / 2 < n) by (apply Z.div_lt; lia).
    rewrite !andb_true_iff, !Z.leb_le, !Z.ltb_lt. lia.
  Qed.

  Lemma xcoord_pm e k :
    e = 1 \/ e = -1 -> xcoord (smul (e * k) G) = xcoord (smul k G).
  Proof.
    intros [->| ->].
    - rewrite Z.mul_1_l. reflexivity.
    - replace (-1 * k) with (- k) by ring. rewrite smul_neg. apply xcoord_neg.
  Qed.

  (* a signature produced by the sign equations verifies under the signer's public key,
     also when s was replaced by n - s *)
  Theorem ecdsa_correct d k z r s v :
    0 < k < n -> sign d k z = Some (r, s, v) -> verify (smul d G) z (r, s) = true.
  Proof.
    intros Hk H. destruct (sign_facts d k z r s v Hk H) as (Hr & Hs & Hrx & e & He & Hse).
    unfold prim_verify_g. rewrite sig_in_range_true by assumption. cbn [negb].
    replace (n / 2 <? s) with false by (symmetry; apply Z.ltb_ge; lia).
    assert (n / 2 < n) by (apply Z.div_lt; lia).
    rewrite lincomb_G.
    rewrite (smul_eqm_G _ (e * k)).
    - rewrite xcoord_pm by tauto. rewrite <- Hrx. apply Z.eqb_refl.
    - apply (verify_congruence n k (inv_n k) r s (inv_n s) z d e).
      + apply inv_n_eqm. exact Hk.
      + exact Hse.
      + apply inv_n_eqm. lia.
  Qed.

  (* --- public key recovery --- *)
  Hypothesis is_inf_spec : forall P, is_inf P = true <-> P = pzero.
  Hypothesis lift_ok : forall P, P <> pzero -> lift (xcoord P) (yodd P) = Some P.
  Hypothesis yodd_neg : forall P, P <> pzero -> yodd (pneg P) = negb (yodd P).

  Lemma pneg_nonzero P : P <> pzero -> pneg P <> pzero.
  Proof.
    intros H E. apply H. rewrite <- (padd_0_r P). rewrite <- E at 1. apply padd_neg_r.
  Qed.

  (* the recorded bit selects R = kG or its negative so that recovery returns d*G;
     needs x(kG) < n, i.e. r is x(kG) itself (k256 never records the other case) *)
  Theorem recover_signer_point d k z r s v :
    0 < k < n -> 0 <= xcoord (smul k G) < n ->
    sign d k z = Some (r, s, v) -> recover_point r s v z = Some (smul d G).
  Proof.
    intros Hk Hx H. destruct (sign_facts d k z r s v Hk H) as (Hr & Hs & Hrx & e & He & Hse).
    rewrite Z.mod_small in Hrx by exact Hx.
    set (R := smul k G) in *.
    assert (RZ : R <> pzero) by (intros E; rewrite E, xcoord_zero in Hrx; lia).
    assert (HL : lift r v = Some (smul (e * k) G)).
    { destruct He as [[-> ->]|[-> ->]].
      - rewrite Z.mul_1_l, Hrx. apply lift_ok. exact RZ.
      - replace (-1 * k) with (- k) by ring. rewrite smul_neg. fold R.
        rewrite Hrx, <- (xcoord_neg R), <- yodd_neg by exact RZ.
        apply lift_ok. apply pneg_nonzero. exact RZ. }
    unfold recover_point_g. rewrite HL, lincomb_G. f_equal.
    rewrite <- (smul_mod_G d). rewrite <- (smul_mod_G (_ + _)). f_equal.
    apply (recover_congruence n k (inv_n k) r (inv_n r) s z d e).
    - apply inv_n_eqm. exact Hk.
    - exact Hse.
    - apply inv_n_eqm. lia.
  Qed.

  Theorem recover_signer d k z r s v :
    0 < k < n -> 0 <= xcoord (smul k G) < n -> smul d G <> pzero ->
    sign d k z = Some (r, s, v) -> recover r s v z = Ok (smul d G).
  Proof.
    intros Hk Hx HQ H. unfold recover_g.
    change (recover_point_g pt smul padd G lift n inv_n r s v z) with (recover_point r s v z).
    rewrite (recover_signer_point d k z r s v Hk Hx H).
    destruct (sign_facts d k z r s v Hk H) as (Hr & Hs & _).
    rewrite sig_in_range_true by assumption. cbn [negb].
    destruct (is_inf (smul d G)) eqn:E; [|reflexivity].
    apply is_inf_spec in E. contradiction.
  Qed.

  (* --- recovery with another message scalar does not give the signer's key;
         needs G of order exactly n --- *)
  Hypothesis order_exact : forall a, smul a G = pzero -> a mod n = 0.

  Theorem recover_other_z d k z z' r s v :
    0 < k < n -> 0 <= xcoord (smul k G) < n ->
    sign d k z = Some (r, s, v) -> ~ eqm n z' z ->
    recover_point r s v z' <> Some (smul d G).
  Proof.
    intros Hk Hx H Hz H2.
    pose proof (recover_signer_point d k z r s v Hk Hx H) as H1.
    destruct (sign_facts d k z r s v Hk H) as (Hr & _).
    unfold recover_point_g in H1, H2.
    destruct (lift r v) as [R'|]; [|discriminate].
    set (X := smul ((inv_n r * s) mod n) R') in *.
    set (u1 := (- ((inv_n r * z) mod n)) mod n) in *.
    set (u1' := (- ((inv_n r * z') mod n)) mod n) in *.
    assert (E : smul u1' G = smul u1 G).
    { apply (padd_cancel_r _ _ X). congruence. }
    assert (Z0 : smul (u1' - u1) G = pzero).
    { unfold Z.sub. rewrite smul_add, smul_neg, E. apply padd_neg_r. }
    apply order_exact in Z0. apply Hz.
    apply (other_z_congruence n r (inv_n r)).
    - apply inv_n_eqm. lia.
    - unfold eqm. rewrite Zmod_0_l. exact Z0.
  Qed.
End AbstractGroup.

Print Assumptions ecdsa_correct.
Print Assumptions ecdh_symmetric.
Print Assumptions recover_signer.
Print Assumptions recover_other_z.
