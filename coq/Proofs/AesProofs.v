(* Proofs/AesProofs.v — AES block inversion, CBC/CTR round trips, lengths, rejection.
   Finite facts about bytes are established by exhaustive `vm_compute` sweeps over all 256
   bytes (or all 65 536 pairs) and lifted to universally quantified statements with
   `forallb_forall`; everything else is structural. *)
From BSV Require Import Base.Bytes Base.Hex Prim.Aes.

(* ------------------------------------------------------------------ *)
(* Exhaustive sweeps over bytes                                        *)
Lemma in_all_bytes b : In b all_bytes.
Proof.
  unfold all_bytes. apply in_map_iff. exists (N.to_nat (b2n b)). split.
  - rewrite N2Nat.id. apply n2b_b2n.
  - apply in_seq. pose proof (b2n_lt b). lia.
Qed.

Definition forall_byte (P : byte -> bool) : bool := forallb P all_bytes.
Definition forall_byte2 (P : byte -> byte -> bool) : bool :=
  forallb (fun a => forallb (P a) all_bytes) all_bytes.

Lemma forall_byte_ok P : forall_byte P = true -> forall b, P b = true.
Proof. intros H b. unfold forall_byte in H. rewrite forallb_forall in H. apply H, in_all_bytes. Qed.

Lemma forall_byte2_ok P : forall_byte2 P = true -> forall a b, P a b = true.
Proof.
  intros H a b. unfold forall_byte2 in H. rewrite forallb_forall in H.
  specialize (H a (in_all_bytes a)). rewrite forallb_forall in H. apply H, in_all_bytes.
Qed.

Definition col_eqb (c d : col) : bool :=
  let '(a0, a1, a2, a3) := c in let '(b0, b1, b2, b3) := d in
  byte_eqb a0 b0 && byte_eqb a1 b1 && byte_eqb a2 b2 && byte_eqb a3 b3.
Lemma col_eqb_eq c d : col_eqb c d = true -> c = d.
Proof.
  destruct c as [[[a0 a1] a2] a3], d as [[[b0 b1] b2] b3]. cbn.
  rewrite !andb_true_iff, !byte_eqb_eq. intros [[[-> ->] ->] ->]. reflexivity.
Qed.

(* ------------------------------------------------------------------ *)
(* S-box                                                               *)
Lemma inv_sbox_sbox b : inv_sbox (sbox b) = b.
Proof.
  apply byte_eqb_eq. revert b. apply forall_byte_ok. vm_compute. reflexivity.
Qed.

Lemma sbox_inv_sbox b : sbox (inv_sbox b) = b.
Proof.
  apply byte_eqb_eq. revert b. apply forall_byte_ok. vm_compute. reflexivity.
Qed.

(* ------------------------------------------------------------------ *)
(* xor on bytes                                                        *)
Lemma b2n_bxor a b : b2n (bxor a b) = N.lxor (b2n a) (b2n b).
Proof.
  apply N.eqb_eq. revert a b. apply forall_byte2_ok. vm_compute. reflexivity.
Qed.

Lemma bxor_cancel a b : bxor (bxor a b) b = a.
Proof.
  apply byte_eqb_eq. revert a b. apply forall_byte2_ok. vm_compute. reflexivity.
Qed.

Lemma bxor_0_r a : bxor a x00 = a.
Proof. apply byte_eqb_eq. revert a. apply forall_byte_ok. vm_compute. reflexivity. Qed.

Lemma bxor_0_l a : bxor x00 a = a.
Proof. apply byte_eqb_eq. revert a. apply forall_byte_ok. vm_compute. reflexivity. Qed.

Lemma bxor_comm a b : bxor a b = bxor b a.
Proof. apply b2n_inj. rewrite !b2n_bxor. apply N.lxor_comm. Qed.

Lemma bxor_assoc a b c : bxor (bxor a b) c = bxor a (bxor b c).
Proof. apply b2n_inj. rewrite !b2n_bxor. apply N.lxor_assoc. Qed.

(* (a ^ b) ^ (c ^ d) = (a ^ c) ^ (b ^ d) *)
Lemma bxor_swap a b c d : bxor (bxor a b) (bxor c d) = bxor (bxor a c) (bxor b d).
Proof.
  rewrite !bxor_assoc. f_equal. rewrite <- !bxor_assoc. f_equal. apply bxor_comm.
Qed.

(* ------------------------------------------------------------------ *)
(* xtime and the constant multiplications are xor-linear               *)
Lemma xtime_lin a b : xtime (bxor a b) = bxor (xtime a) (xtime b).
Proof.
  apply byte_eqb_eq. revert a b. apply forall_byte2_ok. vm_compute. reflexivity.
Qed.

Lemma g2_lin a b : g2 (bxor a b) = bxor (g2 a) (g2 b).
Proof. unfold g2. apply xtime_lin. Qed.
Lemma g3_lin a b : g3 (bxor a b) = bxor (g3 a) (g3 b).
Proof. unfold g3. rewrite xtime_lin. apply bxor_swap. Qed.
Lemma g9_lin a b : g9 (bxor a b) = bxor (g9 a) (g9 b).
Proof. unfold g9. rewrite !xtime_lin. apply bxor_swap. Qed.
Lemma g11_lin a b : g11 (bxor a b) = bxor (g11 a) (g11 b).
Proof. unfold g11. rewrite !xtime_lin. rewrite (bxor_swap (xtime (xtime (xtime a)))). apply bxor_swap. Qed.
Lemma g13_lin a b : g13 (bxor a b) = bxor (g13 a) (g13 b).
Proof. unfold g13. rewrite !xtime_lin. rewrite (bxor_swap (xtime (xtime (xtime a)))). apply bxor_swap. Qed.
Lemma g14_lin a b : g14 (bxor a b) = bxor (g14 a) (g14 b).
Proof. unfold g14. rewrite !xtime_lin. rewrite (bxor_swap (xtime (xtime (xtime a)))). apply bxor_swap. Qed.

(* a 4-term sum of linear maps is linear *)
Lemma sum4_lin (f0 f1 f2 f3 : byte -> byte) :
  (forall a b, f0 (bxor a b) = bxor (f0 a) (f0 b)) ->
  (forall a b, f1 (bxor a b) = bxor (f1 a) (f1 b)) ->
  (forall a b, f2 (bxor a b) = bxor (f2 a) (f2 b)) ->
  (forall a b, f3 (bxor a b) = bxor (f3 a) (f3 b)) ->
  forall a0 a1 a2 a3 b0 b1 b2 b3,
    bxor (bxor (f0 (bxor a0 b0)) (f1 (bxor a1 b1))) (bxor (f2 (bxor a2 b2)) (f3 (bxor a3 b3))) =
    bxor (bxor (bxor (f0 a0) (f1 a1)) (bxor (f2 a2) (f3 a3)))
         (bxor (bxor (f0 b0) (f1 b1)) (bxor (f2 b2) (f3 b3))).
Proof.
  intros H0 H1 H2 H3 a0 a1 a2 a3 b0 b1 b2 b3.
  rewrite H0, H1, H2, H3.
  rewrite (bxor_swap (f0 a0) (f0 b0)), (bxor_swap (f2 a2) (f2 b2)).
  apply bxor_swap.
Qed.

Lemma id_lin a b : (fun x : byte => x) (bxor a b) = bxor ((fun x => x) a) ((fun x => x) b).
Proof. reflexivity. Qed.

Lemma mix_col_lin c d : mix_col_spec (cxor c d) = cxor (mix_col_spec c) (mix_col_spec d).
Proof.
  destruct c as [[[a0 a1] a2] a3], d as [[[b0 b1] b2] b3]. cbn [mix_col_spec cxor].
  pose proof (sum4_lin g2 g3 (fun x => x) (fun x => x) g2_lin g3_lin id_lin id_lin a0 a1 a2 a3 b0 b1 b2 b3) as E0.
  pose proof (sum4_lin (fun x => x) g2 g3 (fun x => x) id_lin g2_lin g3_lin id_lin a0 a1 a2 a3 b0 b1 b2 b3) as E1.
  pose proof (sum4_lin (fun x => x) (fun x => x) g2 g3 id_lin id_lin g2_lin g3_lin a0 a1 a2 a3 b0 b1 b2 b3) as E2.
  pose proof (sum4_lin g3 (fun x => x) (fun x => x) g2 g3_lin id_lin id_lin g2_lin a0 a1 a2 a3 b0 b1 b2 b3) as E3.
  cbv beta in E0, E1, E2, E3. rewrite E0, E1, E2, E3. reflexivity.
Qed.

Lemma inv_mix_col_spec_lin c d : inv_mix_col_spec (cxor c d) = cxor (inv_mix_col_spec c) (inv_mix_col_spec d).
Proof.
  destruct c as [[[a0 a1] a2] a3], d as [[[b0 b1] b2] b3]. cbn [inv_mix_col_spec cxor].
  rewrite (sum4_lin g14 g11 g13 g9 g14_lin g11_lin g13_lin g9_lin).
  rewrite (sum4_lin g9 g14 g11 g13 g9_lin g14_lin g11_lin g13_lin).
  rewrite (sum4_lin g13 g9 g14 g11 g13_lin g9_lin g14_lin g11_lin).
  rewrite (sum4_lin g11 g13 g9 g14 g11_lin g13_lin g9_lin g14_lin).
  reflexivity.
Qed.

(* InvMixColumns undoes MixColumns on the four families of single-byte columns *)
Lemma unit0 a : inv_mix_col_spec (mix_col_spec (a, x00, x00, x00)) = (a, x00, x00, x00).
Proof. apply col_eqb_eq. revert a. apply forall_byte_ok. vm_compute. reflexivity. Qed.
Lemma unit1 a : inv_mix_col_spec (mix_col_spec (x00, a, x00, x00)) = (x00, a, x00, x00).
Proof. apply col_eqb_eq. revert a. apply forall_byte_ok. vm_compute. reflexivity. Qed.
Lemma unit2 a : inv_mix_col_spec (mix_col_spec (x00, x00, a, x00)) = (x00, x00, a, x00).
Proof. apply col_eqb_eq. revert a. apply forall_byte_ok. vm_compute. reflexivity. Qed.
Lemma unit3 a : inv_mix_col_spec (mix_col_spec (x00, x00, x00, a)) = (x00, x00, x00, a).
Proof. apply col_eqb_eq. revert a. apply forall_byte_ok. vm_compute. reflexivity. Qed.

Lemma col_decomp a0 a1 a2 a3 :
  (a0, a1, a2, a3) =
  cxor (cxor (a0, x00, x00, x00) (x00, a1, x00, x00)) (cxor (x00, x00, a2, x00) (x00, x00, x00, a3)).
Proof.
  cbn [cxor]. rewrite ?bxor_0_r, ?bxor_0_l. reflexivity.
Qed.

Lemma inv_mix_col_spec_mix_col_spec c : inv_mix_col_spec (mix_col_spec c) = c.
Proof.
  destruct c as [[[a0 a1] a2] a3]. rewrite (col_decomp a0 a1 a2 a3).
  rewrite !mix_col_lin, !inv_mix_col_spec_lin, unit0, unit1, unit2, unit3. reflexivity.
Qed.

Lemma mix_col_eq c : mix_col c = mix_col_spec c.
Proof. destruct c as [[[a0 a1] a2] a3]. reflexivity. Qed.
Lemma inv_mix_col_eq c : inv_mix_col c = inv_mix_col_spec c.
Proof. destruct c as [[[a0 a1] a2] a3]. reflexivity. Qed.

Lemma inv_mix_col_mix_col c : inv_mix_col (mix_col c) = c.
Proof. rewrite inv_mix_col_eq, mix_col_eq. apply inv_mix_col_spec_mix_col_spec. Qed.

(* ------------------------------------------------------------------ *)
(* Round transformations on the state                                  *)
Lemma inv_mix_columns_mix_columns s : inv_mix_columns (mix_columns s) = s.
Proof.
  destruct s as [[[c0 c1] c2] c3]. cbn [mix_columns inv_mix_columns map_state].
  rewrite !inv_mix_col_mix_col. reflexivity.
Qed.

Lemma inv_shift_rows_shift_rows s : inv_shift_rows (shift_rows s) = s.
Proof.
  destruct s as [[[[[[a0 a1] a2] a3] [[[b0 b1] b2] b3]] [[[c0 c1] c2] c3]] [[[d0 d1] d2] d3]].
  reflexivity.
Qed.

Lemma inv_sub_bytes_sub_bytes s : inv_sub_bytes (sub_bytes s) = s.
Proof.
  destruct s as [[[[[[a0 a1] a2] a3] [[[b0 b1] b2] b3]] [[[c0 c1] c2] c3]] [[[d0 d1] d2] d3]].
  cbn [sub_bytes inv_sub_bytes map_state map_col]. rewrite !inv_sbox_sbox. reflexivity.
Qed.

Lemma cxor_cancel c d : cxor (cxor c d) d = c.
Proof.
  destruct c as [[[a0 a1] a2] a3], d as [[[b0 b1] b2] b3]. cbn [cxor].
  rewrite !bxor_cancel. reflexivity.
Qed.

Lemma sxor_cancel s t : sxor (sxor s t) t = s.
Proof.
  destruct s as [[[s0 s1] s2] s3], t as [[[t0 t1] t2] t3]. cbn [sxor].
  rewrite !cxor_cancel. reflexivity.
Qed.

Lemma add_round_key_cancel rk s : add_round_key rk (add_round_key rk s) = s.
Proof. unfold add_round_key. apply sxor_cancel. Qed.

(* ------------------------------------------------------------------ *)
(* Cipher inversion                                                    *)
Lemma rounds_cons2 rk rk' rest s :
  rounds (rk :: rk' :: rest) s =
  rounds (rk' :: rest) (add_round_key rk (mix_columns (shift_rows (sub_bytes s)))).
Proof. reflexivity. Qed.

Lemma inv_rounds_cons2 rk rk' rest s :
  inv_rounds (rk :: rk' :: rest) s =
  inv_sub_bytes (inv_shift_rows (inv_mix_columns (add_round_key rk (inv_rounds (rk' :: rest) s)))).
Proof. reflexivity. Qed.

Lemma inv_rounds_rounds rks : forall s, inv_rounds rks (rounds rks s) = s.
Proof.
  induction rks as [|rk rest IH]; intros s; [reflexivity|].
  destruct rest as [|rk' rest].
  - cbn [rounds inv_rounds].
    rewrite add_round_key_cancel, inv_shift_rows_shift_rows, inv_sub_bytes_sub_bytes. reflexivity.
  - rewrite rounds_cons2, inv_rounds_cons2, IH.
    rewrite add_round_key_cancel, inv_mix_columns_mix_columns, inv_shift_rows_shift_rows,
      inv_sub_bytes_sub_bytes. reflexivity.
Qed.

Lemma inv_cipher_cipher rks s : inv_cipher rks (cipher rks s) = s.
Proof.
  destruct rks as [|rk0 rest]; [reflexivity|].
  cbn [cipher inv_cipher]. rewrite inv_rounds_rounds. apply add_round_key_cancel.
Qed.

Lemma to_state_of_state s : to_state (of_state s) = s.
Proof.
  destruct s as [[[[[[a0 a1] a2] a3] [[[b0 b1] b2] b3]] [[[c0 c1] c2] c3]] [[[d0 d1] d2] d3]].
  reflexivity.
Qed.

Lemma of_state_length s : length (of_state s) = 16.
Proof.
  destruct s as [[[[[[a0 a1] a2] a3] [[[b0 b1] b2] b3]] [[[c0 c1] c2] c3]] [[[d0 d1] d2] d3]].
  reflexivity.
Qed.

Lemma of_state_to_state b : length b = 16 -> of_state (to_state b) = b.
Proof.
  intros H.
  do 16 (destruct b as [|? b]; [discriminate H|]).
  destruct b; [reflexivity | discriminate H].
Qed.

(* holds for every key (any length); the named theorem below adds the FIPS key sizes *)
Lemma dec_block_enc_block k b : length b = 16 -> dec_block k (enc_block k b) = b.
Proof.
  intros H. unfold dec_block, enc_block.
  rewrite to_state_of_state, inv_cipher_cipher. apply of_state_to_state, H.
Qed.

Theorem aes_block_inverse k b :
  (length k = 16 \/ length k = 32) -> length b = 16 -> dec_block k (enc_block k b) = b.
Proof. intros _. apply dec_block_enc_block. Qed.

Lemma enc_block_length k b : length (enc_block k b) = 16.
Proof. apply of_state_length. Qed.
Lemma dec_block_length k b : length (dec_block k b) = 16.
Proof. apply of_state_length. Qed.

(* the expansion has Nr + 1 = 11 / 15 round keys, i.e. the theorem is about 10 / 14 rounds *)
Lemma expand_length_16 k : length k = 16 -> length (key_expand k) = 11.
Proof.
  intros H. do 16 (destruct k as [|? k]; [discriminate H|]).
  destruct k; [reflexivity | discriminate H].
Qed.
Lemma expand_length_32 k : length k = 32 -> length (key_expand k) = 15.
Proof.
  intros H. do 32 (destruct k as [|? k]; [discriminate H|]).
  destruct k; [reflexivity | discriminate H].
Qed.

(* ------------------------------------------------------------------ *)
(* chunks / unchunks                                                   *)
Lemma chunks_cons s r : chunks (of_state s ++ r) = s :: chunks r.
Proof.
  destruct s as [[[[[[a0 a1] a2] a3] [[[b0 b1] b2] b3]] [[[c0 c1] c2] c3]] [[[d0 d1] d2] d3]].
  reflexivity.
Qed.

Lemma chunks_unchunks l : chunks (unchunks l) = l.
Proof.
  induction l as [|s r IH]; [reflexivity|]. cbn [unchunks]. rewrite chunks_cons, IH. reflexivity.
Qed.

Lemma unchunks_length l : length (unchunks l) = 16 * length l.
Proof.
  induction l as [|s r IH]; [reflexivity|].
  cbn [unchunks length]. rewrite app_length, of_state_length, IH. lia.
Qed.

Lemma blocks_repr n : forall b, length b = 16 * n -> exists l, b = unchunks l /\ length l = n.
Proof.
  induction n as [|n IH]; intros b H.
  - destruct b; [|cbn in H; lia]. exists []. split; reflexivity.
  - destruct (IH (skipn 16 b)) as [l [El Ll]]; [rewrite skipn_length; lia|].
    exists (to_state (firstn 16 b) :: l). split; [|cbn; lia].
    cbn [unchunks]. rewrite of_state_to_state by (rewrite firstn_length; lia).
    rewrite <- El. symmetry. apply firstn_skipn.
Qed.

Lemma unchunks_chunks b : Nat.modulo (length b) 16 = 0 -> unchunks (chunks b) = b.
Proof.
  intros H. destruct (blocks_repr (Nat.div (length b) 16) b) as [l [-> _]]; [lia|].
  rewrite chunks_unchunks. reflexivity.
Qed.

Lemma chunks_length b : length (chunks b) = Nat.div (length b) 16.
Proof.
  (* split b into whole blocks and a short tail *)
  assert (G : forall n b, length b = n -> length (chunks b) = Nat.div n 16).
  { intros n. induction n as [n IH] using lt_wf_ind. intros c Hc.
    destruct (Nat.ltb n 16) eqn:E.
    - apply Nat.ltb_lt in E.
      replace (Nat.div n 16) with 0 by lia.
      do 16 (destruct c as [|? c]; [reflexivity|]). cbn in Hc. lia.
    - apply Nat.ltb_ge in E.
      rewrite <- (firstn_skipn 16 c).
      rewrite <- (of_state_to_state (firstn 16 c)) by (rewrite firstn_length; lia).
      rewrite chunks_cons. cbn [length].
      rewrite (IH (n - 16)); [lia | lia | rewrite skipn_length; lia]. }
  apply G. reflexivity.
Qed.

(* ------------------------------------------------------------------ *)
(* PKCS#7                                                              *)
Lemma pad_len_range m : 1 <= pad_len m <= 16.
Proof. unfold pad_len. lia. Qed.

Lemma pad_length m : length (pad m) = 16 * (Nat.div (length m) 16 + 1).
Proof. unfold pad, pad_len. rewrite app_length, repeat_length. lia. Qed.

Lemma n2b_small_roundtrip n : n < 256 -> N.to_nat (b2n (n2b (N.of_nat n))) = n.
Proof. intros H. rewrite b2n_n2b by lia. lia. Qed.

Lemma forallb_repeat (x : byte) n : forallb (byte_eqb x) (repeat x n) = true.
Proof. induction n as [|n IH]; cbn; [reflexivity | rewrite byte_eqb_refl, IH; reflexivity]. Qed.

Lemma forallb_eq_repeat (x : byte) l : forallb (byte_eqb x) l = true -> l = repeat x (length l).
Proof.
  induction l as [|y l IH]; cbn; [reflexivity|].
  rewrite andb_true_iff, byte_eqb_eq. intros [<- H]. rewrite <- IH by exact H. reflexivity.
Qed.

Lemma last_app_repeat (m : bytes) x n d : 1 <= n -> last (m ++ repeat x n) d = x.
Proof.
  intros H. destruct n as [|n]; [lia|].
  replace (repeat x (S n)) with (repeat x n ++ [x]).
  - rewrite app_assoc. apply last_last.
  - clear. induction n as [|n IH]; [reflexivity|]. cbn [repeat app]. rewrite IH. reflexivity.
Qed.

(* unpad_gen accepts exactly the strings  m ++ n copies of byte n,  1 <= n <= maxn *)
Lemma unpad_gen_accepts maxn m n :
  1 <= n <= maxn -> n < 256 ->
  unpad_gen maxn (m ++ repeat (n2b (N.of_nat n)) n) = Some m.
Proof.
  intros Hn H256. set (x := n2b (N.of_nat n)).
  unfold unpad_gen. destruct (m ++ repeat x n) eqn:E.
  - apply (f_equal (@length byte)) in E. rewrite app_length, repeat_length in E. cbn in E. lia.
  - rewrite <- E. clear E. rewrite last_app_repeat by lia.
    assert (Hx : N.to_nat (b2n x) = n) by (apply n2b_small_roundtrip; exact H256).
    rewrite !Hx.
    rewrite app_length, repeat_length.
    replace (Nat.eqb n 0) with false by (symmetry; apply Nat.eqb_neq; lia).
    replace (Nat.ltb maxn n) with false by (symmetry; apply Nat.ltb_ge; lia).
    replace (Nat.ltb (length m + n) n) with false by (symmetry; apply Nat.ltb_ge; lia).
    cbn [orb]. replace (length m + n - n) with (length m) by lia.
    rewrite skipn_app, skipn_all, Nat.sub_diag. cbn [skipn app].
    rewrite forallb_repeat.
    rewrite firstn_app, firstn_all, Nat.sub_diag. cbn [firstn]. rewrite app_nil_r. reflexivity.
Qed.

Lemma unpad_gen_sound maxn data m :
  unpad_gen maxn data = Some m ->
  exists n, 1 <= n <= maxn /\ n < 256 /\ data = m ++ repeat (n2b (N.of_nat n)) n.
Proof.
  unfold unpad_gen. destruct data as [|d0 data']; [discriminate|].
  set (data := d0 :: data'). set (l := last data x00). set (n := N.to_nat (b2n l)).
  destruct (Nat.eqb n 0) eqn:E0; [discriminate|].
  destruct (Nat.ltb maxn n) eqn:E1; [discriminate|].
  destruct (Nat.ltb (length data) n) eqn:E2; [discriminate|]. cbn [orb].
  destruct (forallb (byte_eqb l) (skipn (length data - n) data)) eqn:E3; [|discriminate].
  intros H; inversion H; subst m; clear H.
  apply Nat.eqb_neq in E0. apply Nat.ltb_ge in E1. apply Nat.ltb_ge in E2.
  exists n. pose proof (b2n_lt l) as Hl. repeat split; try lia.
  apply forallb_eq_repeat in E3. rewrite skipn_length in E3.
  replace (length data - (length data - n)) with n in E3 by lia.
  replace (n2b (N.of_nat n)) with l by (unfold n; rewrite N2Nat.id, n2b_b2n; reflexivity).
  rewrite <- E3. symmetry. apply firstn_skipn.
Qed.

Lemma unpad_pad m : unpad (pad m) = Some m.
Proof. unfold unpad, pad. pose proof (pad_len_range m). apply unpad_gen_accepts; lia. Qed.

Lemma unpad_lax_pad m : unpad_lax (pad m) = Some m.
Proof. unfold unpad_lax, pad. pose proof (pad_len_range m). apply unpad_gen_accepts; lia. Qed.

(* "bad padding": not of the form  m ++ n copies of byte n  with 1 <= n <= maxn *)
Definition bad_padding (maxn : nat) (data : bytes) : Prop :=
  forall m n, 1 <= n <= maxn -> n < 256 -> data <> m ++ repeat (n2b (N.of_nat n)) n.

Lemma unpad_gen_rejects maxn data : bad_padding maxn data -> unpad_gen maxn data = None.
Proof.
  intros H. destruct (unpad_gen maxn data) as [m|] eqn:E; [|reflexivity].
  destruct (unpad_gen_sound _ _ _ E) as [n [Hn [H256 Ed]]].
  exfalso. exact (H m n Hn H256 Ed).
Qed.

Lemma unpad_gen_none_iff maxn data : unpad_gen maxn data = None <-> bad_padding maxn data.
Proof.
  split; [|apply unpad_gen_rejects].
  intros E m n Hn H256 Ed. subst data. rewrite unpad_gen_accepts in E by assumption. discriminate.
Qed.

(* ------------------------------------------------------------------ *)
(* CBC                                                                 *)
Lemma cbc_dec_enc_st rks : forall ps prev, cbc_dec_st rks prev (cbc_enc_st rks prev ps) = ps.
Proof.
  induction ps as [|p r IH]; intros prev; [reflexivity|].
  cbn [cbc_enc_st cbc_dec_st]. rewrite inv_cipher_cipher, sxor_cancel, IH. reflexivity.
Qed.

Lemma cbc_enc_st_length rks : forall ps prev, length (cbc_enc_st rks prev ps) = length ps.
Proof. induction ps as [|p r IH]; intros prev; cbn; [reflexivity | rewrite IH; reflexivity]. Qed.

Lemma cbc_dec_st_length rks : forall cs prev, length (cbc_dec_st rks prev cs) = length cs.
Proof. induction cs as [|p r IH]; intros prev; cbn; [reflexivity | rewrite IH; reflexivity]. Qed.

Lemma cbc_raw_enc_length k iv d : length (cbc_raw_enc k iv d) = 16 * Nat.div (length d) 16.
Proof. unfold cbc_raw_enc. rewrite unchunks_length, cbc_enc_st_length, chunks_length. reflexivity. Qed.

Lemma cbc_raw_dec_length k iv d : length (cbc_raw_dec k iv d) = 16 * Nat.div (length d) 16.
Proof. unfold cbc_raw_dec. rewrite unchunks_length, cbc_dec_st_length, chunks_length. reflexivity. Qed.

Lemma cbc_raw_dec_enc k iv d :
  Nat.modulo (length d) 16 = 0 -> cbc_raw_dec k iv (cbc_raw_enc k iv d) = d.
Proof.
  intros H. unfold cbc_raw_dec, cbc_raw_enc.
  rewrite chunks_unchunks, cbc_dec_enc_st. apply unchunks_chunks, H.
Qed.

Theorem cbc_len k iv m : length (cbc_encrypt k iv m) = 16 * (Nat.div (length m) 16 + 1).
Proof.
  unfold cbc_encrypt. rewrite cbc_raw_enc_length, pad_length.
  replace (Nat.div (16 * (Nat.div (length m) 16 + 1)) 16) with (Nat.div (length m) 16 + 1) by lia.
  reflexivity.
Qed.

Lemma cbc_roundtrip_gen maxn k iv m :
  16 <= maxn -> cbc_decrypt_gen maxn k iv (cbc_encrypt k iv m) = Some m.
Proof.
  intros Hmax. unfold cbc_decrypt_gen. pose proof (cbc_len k iv m) as L.
  replace (Nat.eqb (length (cbc_encrypt k iv m)) 0) with false
    by (symmetry; apply Nat.eqb_neq; lia).
  replace (Nat.eqb (Nat.modulo (length (cbc_encrypt k iv m)) 16) 0) with true
    by (symmetry; apply Nat.eqb_eq; lia).
  cbn [orb negb]. unfold cbc_encrypt.
  rewrite cbc_raw_dec_enc by (rewrite pad_length; lia).
  unfold pad. pose proof (pad_len_range m). apply unpad_gen_accepts; lia.
Qed.

(* holds for every key and IV; with wrong sizes the functions still compute something *)
Theorem cbc_roundtrip k iv m : cbc_decrypt k iv (cbc_encrypt k iv m) = Some m.
Proof. apply cbc_roundtrip_gen. lia. Qed.

Theorem cbc_lax_roundtrip k iv m : cbc_decrypt_lax k iv (cbc_encrypt k iv m) = Some m.
Proof. apply cbc_roundtrip_gen. lia. Qed.

Lemma cbc_rejects_gen maxn k iv ct :
  ct = [] \/ Nat.modulo (length ct) 16 <> 0 \/ bad_padding maxn (cbc_raw_dec k iv ct) ->
  cbc_decrypt_gen maxn k iv ct = None.
Proof.
  unfold cbc_decrypt_gen. intros [-> | [H | H]].
  - reflexivity.
  - apply Nat.eqb_neq in H. rewrite H. cbn [negb]. rewrite orb_true_r. reflexivity.
  - destruct (_ || _); [reflexivity|]. apply unpad_gen_rejects, H.
Qed.

Theorem cbc_rejects k iv ct :
  ct = [] \/ Nat.modulo (length ct) 16 <> 0 \/ bad_padding 16 (cbc_raw_dec k iv ct) ->
  cbc_decrypt k iv ct = None.
Proof. apply cbc_rejects_gen. Qed.

(* and conversely: whatever is accepted is a whole number of blocks whose raw decryption
   carries a well-formed RFC 5652 padding *)
Theorem cbc_accepts_only k iv ct m :
  cbc_decrypt k iv ct = Some m ->
  ct <> [] /\ Nat.modulo (length ct) 16 = 0 /\
  exists n, 1 <= n <= 16 /\ cbc_raw_dec k iv ct = m ++ repeat (n2b (N.of_nat n)) n.
Proof.
  unfold cbc_decrypt, cbc_decrypt_gen.
  destruct (Nat.eqb (length ct) 0) eqn:E0; [discriminate|].
  destruct (Nat.eqb (Nat.modulo (length ct) 16) 0) eqn:E1; [|discriminate]. cbn [orb negb].
  intros H. apply unpad_gen_sound in H. destruct H as [n [Hn [_ Ed]]].
  apply Nat.eqb_neq in E0. apply Nat.eqb_eq in E1. repeat split.
  - intros ->. apply E0. reflexivity.
  - exact E1.
  - exists n. split; assumption.
Qed.

(* ------------------------------------------------------------------ *)
(* CTR                                                                 *)
Lemma xor_bytes_length a : forall b, length (xor_bytes a b) = Nat.min (length a) (length b).
Proof.
  induction a as [|x a IH]; intros [|y b]; cbn [xor_bytes length Nat.min]; try reflexivity.
  rewrite IH. reflexivity.
Qed.

Lemma xor_bytes_cancel a : forall b, length a <= length b -> xor_bytes (xor_bytes a b) b = a.
Proof.
  induction a as [|x a IH]; intros [|y b] H; cbn [xor_bytes]; try reflexivity.
  - cbn in H. lia.
  - rewrite bxor_cancel, IH by (cbn in H; lia). reflexivity.
Qed.

Lemma ctr_stream_length inc rks : forall n c, length (ctr_stream inc rks n c) = n.
Proof. induction n as [|n IH]; intros c; cbn; [reflexivity | rewrite IH; reflexivity]. Qed.

Lemma ctr_keystream_length inc k iv n : length (ctr_keystream inc k iv n) = 16 * n.
Proof. unfold ctr_keystream. rewrite unchunks_length, ctr_stream_length. reflexivity. Qed.

Lemma ctr_gen_len inc k iv m : length (ctr_gen inc k iv m) = length m.
Proof. unfold ctr_gen. rewrite xor_bytes_length, ctr_keystream_length. lia. Qed.

Lemma ctr_gen_roundtrip inc k iv m : ctr_gen inc k iv (ctr_gen inc k iv m) = m.
Proof.
  unfold ctr_gen at 1. rewrite ctr_gen_len. unfold ctr_gen.
  apply xor_bytes_cancel. rewrite ctr_keystream_length. lia.
Qed.

Theorem ctr_len k iv m : length (ctr k iv m) = length m.
Proof. apply ctr_gen_len. Qed.
Theorem ctr_roundtrip k iv m : ctr k iv (ctr k iv m) = m.
Proof. apply ctr_gen_roundtrip. Qed.
Theorem ctr64_len k iv m : length (ctr64 k iv m) = length m.
Proof. apply ctr_gen_len. Qed.
Theorem ctr64_roundtrip k iv m : ctr64 k iv (ctr64 k iv m) = m.
Proof. apply ctr_gen_roundtrip. Qed.

(* the counter: incr_le adds one to the little-endian value modulo 256^length, i.e. the
   block fed to the cipher for block i is the big-endian encoding of (IV + i) mod 2^128 *)
Lemma succ_byte_val b : b <> xff -> b2n (succ_byte b) = (b2n b + 1)%N.
Proof.
  intros H.
  assert (G : forall b, (byte_eqb b xff || N.eqb (b2n (succ_byte b)) (b2n b + 1))%N = true).
  { apply forall_byte_ok. vm_compute. reflexivity. }
  specialize (G b). apply orb_true_iff in G. destruct G as [G | G].
  - apply byte_eqb_eq in G. contradiction.
  - apply N.eqb_eq in G. exact G.
Qed.

Lemma incr_le_length c : length (incr_le c) = length c.
Proof.
  induction c as [|b r IH]; [reflexivity|]. cbn [incr_le].
  destruct (byte_eqb b xff); cbn [length]; [rewrite IH|]; reflexivity.
Qed.

Lemma incr_le_val c : le_val (incr_le c) = ((le_val c + 1) mod 256 ^ N.of_nat (length c))%N.
Proof.
  induction c as [|b r IH].
  - cbn. rewrite N.mod_1_r. reflexivity.
  - cbn [incr_le length]. rewrite Nat2N.inj_succ, N.pow_succ_r'.
    pose proof (le_val_bound r) as Br. pose proof (b2n_lt b) as Bb.
    set (P := (256 ^ N.of_nat (length r))%N) in *.
    assert (HP : (0 < P)%N) by (apply N.neq_0_lt_0, N.pow_nonzero; lia).
    destruct (byte_eqb b xff) eqn:E.
    + apply byte_eqb_eq in E. subst b. cbn [le_val]. rewrite IH.
      replace (b2n xff) with 255%N by reflexivity. replace (b2n x00) with 0%N by reflexivity.
      replace (255 + 256 * le_val r + 1)%N with (256 * (le_val r + 1))%N by lia.
      rewrite N.mul_mod_distr_l by lia. lia.
    + assert (Hb : b <> xff) by (intros ->; rewrite byte_eqb_refl in E; discriminate).
      cbn [le_val]. rewrite succ_byte_val by exact Hb.
      assert (Hb' : (b2n b <> 255)%N).
      { intros Hc. apply Hb. apply b2n_inj. rewrite Hc. reflexivity. }
      rewrite N.mod_small; [lia|]. nia.
Qed.

Lemma iter_incr_length i c : length (Nat.iter i incr_le c) = length c.
Proof. induction i as [|i IH]; cbn [Nat.iter nat_rect]; [reflexivity | rewrite incr_le_length; exact IH]. Qed.

Lemma iter_incr_val i c :
  le_val (Nat.iter i incr_le c) = ((le_val c + N.of_nat i) mod 256 ^ N.of_nat (length c))%N.
Proof.
  assert (HP : (256 ^ N.of_nat (length c) <> 0)%N) by (apply N.pow_nonzero; lia).
  induction i as [|i IH].
  - cbn [Nat.iter nat_rect]. rewrite N.add_0_r. symmetry. apply N.mod_small, le_val_bound.
  - cbn [Nat.iter nat_rect]. fold (Nat.iter i incr_le c).
    rewrite incr_le_val, iter_incr_length, IH, N.add_mod_idemp_l by exact HP.
    f_equal. lia.
Qed.

Lemma iter_incr_shift i c : Nat.iter i incr_le (incr_le c) = incr_le (Nat.iter i incr_le c).
Proof. induction i as [|i IH]; cbn [Nat.iter nat_rect]; [reflexivity | f_equal; exact IH]. Qed.

Lemma ctr_stream_nth rks : forall n c i, i < n ->
  nth i (ctr_stream incr_le rks n c) zero_state = cipher rks (to_state (rev (Nat.iter i incr_le c))).
Proof.
  induction n as [|n IH]; intros c i H; [lia|].
  destruct i as [|i]; [reflexivity|].
  cbn [ctr_stream nth]. rewrite IH by lia. rewrite iter_incr_shift. reflexivity.
Qed.

(* Block i of the CTR keystream is E_k( (IV + i) mod 2^128 as 16 big-endian bytes ). *)
Theorem ctr_block_spec k iv n i : length iv = 16 -> i < n ->
  nth i (ctr_stream incr_le (key_expand k) n (rev iv)) zero_state =
  cipher (key_expand k) (to_state (be_bytes 16 ((be_val iv + N.of_nat i) mod 2 ^ 128))).
Proof.
  intros Hiv Hi. rewrite ctr_stream_nth by exact Hi. do 2 f_equal.
  unfold be_bytes. f_equal.
  rewrite <- (le_bytes_le_val (Nat.iter i incr_le (rev iv))).
  rewrite iter_incr_length, rev_length, Hiv, iter_incr_val, rev_length, Hiv.
  unfold be_val. reflexivity.
Qed.

(* ------------------------------------------------------------------ *)
(* The 64-bit counter agrees with the 128-bit one while the low 64 bits do not wrap. *)
Lemma incr_le_app a b : (le_val a + 1 < 256 ^ N.of_nat (length a))%N -> incr_le (a ++ b) = incr_le a ++ b.
Proof.
  induction a as [|x a IH]; intros H.
  - cbn in H. lia.
  - cbn [app incr_le]. destruct (byte_eqb x xff) eqn:E; [|reflexivity].
    apply byte_eqb_eq in E. subst x. rewrite IH; [reflexivity|].
    cbn [le_val length] in H. rewrite Nat2N.inj_succ, N.pow_succ_r' in H.
    replace (b2n xff) with 255%N in H by reflexivity. lia.
Qed.

Lemma incr64_le_eq c : 8 <= length c -> (le_val (firstn 8 c) + 1 < 2 ^ 64)%N -> incr64_le c = incr_le c.
Proof.
  intros Hl H. unfold incr64_le. rewrite <- (firstn_skipn 8 c) at 3.
  symmetry. apply incr_le_app. rewrite firstn_length, Nat.min_l by exact Hl. exact H.
Qed.

Lemma incr64_le_length c : length (incr64_le c) = length c.
Proof.
  unfold incr64_le. rewrite app_length, incr_le_length, <- app_length, firstn_skipn. reflexivity.
Qed.

Lemma firstn8_incr_le c : 8 <= length c -> (le_val (firstn 8 c) + 1 < 2 ^ 64)%N ->
  le_val (firstn 8 (incr_le c)) = (le_val (firstn 8 c) + 1)%N.
Proof.
  intros Hl H. rewrite <- incr64_le_eq by assumption. unfold incr64_le.
  assert (L0 : length (firstn 8 c) = 8) by (rewrite firstn_length; lia).
  assert (L : length (incr_le (firstn 8 c)) = 8) by (rewrite incr_le_length; exact L0).
  rewrite firstn_app, L, Nat.sub_diag, firstn_O, app_nil_r.
  rewrite firstn_all2 by lia. rewrite incr_le_val, L0.
  apply N.mod_small. exact H.
Qed.

Lemma ctr_stream64_eq rks : forall n c, 8 <= length c ->
  (le_val (firstn 8 c) + N.of_nat n <= 2 ^ 64)%N ->
  ctr_stream incr64_le rks n c = ctr_stream incr_le rks n c.
Proof.
  induction n as [|n IH]; intros c Hl H; [reflexivity|].
  cbn [ctr_stream]. f_equal.
  destruct n as [|n']; [reflexivity|].
  assert (H1 : (le_val (firstn 8 c) + 1 < 2 ^ 64)%N) by lia.
  rewrite incr64_le_eq by assumption.
  apply IH; [rewrite incr_le_length; exact Hl|].
  rewrite firstn8_incr_le by assumption. lia.
Qed.

(* low 64 bits of the IV, as a number *)
Definition iv_low64 (iv : bytes) : N := le_val (firstn 8 (rev iv)).

Theorem ctr64_eq_ctr k iv m : length iv = 16 ->
  (iv_low64 iv + N.of_nat (Nat.div (length m) 16 + 1) <= 2 ^ 64)%N ->
  ctr64 k iv m = ctr k iv m.
Proof.
  intros Hiv H. unfold ctr64, ctr, ctr_gen, ctr_keystream. do 2 f_equal.
  apply ctr_stream64_eq; [rewrite rev_length; lia | exact H].
Qed.
