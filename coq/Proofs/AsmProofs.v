(* Proofs/AsmProofs.v — C17: rendering, tokenisation and re-nesting lemmas. *)
From BSV Require Import Base.Hex Gen.Opcodes_gen Model.Opcodes Model.Script Model.Asm Spec.ScriptTok Spec.AsmSpec
  Proofs.ScriptProofs Proofs.StringLemmas.
Open Scope list_scope.

Ltac inv H := inversion H; subst; clear H.
Ltac split_andb :=
  repeat match goal with
         | H : (_ && _)%bool = true |- _ => apply andb_true_iff in H; destruct H
         end.

(* ================================================================== *)
(* 1. re-nesting: `nest` on the flattening of a canonical tree gives the tree back *)

Lemma nest_rem_len : forall f m ts bs t r, nest f m ts = Ok (bs, t, r) -> length r <= length ts.
Proof.
  induction f as [|f IH]; intros m ts bs t r H; [discriminate|].
  cbn [nest] in H. destruct ts as [|x ts'].
  - destruct m; inv H; cbn; lia.
  - assert (Hplain : forall o, (do y <- nest f m ts'; let '(bs0, t0, r') := y in Ok (o :: bs0, t0, r')) = Ok (bs, t, r) ->
                               length r <= length (x :: ts')).
    { intros o Ho. destruct (nest f m ts') as [[[bs' t'] r']| |] eqn:H3; cbn [bind] in Ho; try discriminate.
      inv Ho. apply IH in H3. cbn [length]. lia. }
    destruct x as [c|d|c d|c p q|d]; try (eapply Hplain; exact H).
    destruct (is_if c).
    + destruct (nest f Pass ts') as [[[p tp] r1]| |] eqn:H1; try discriminate.
      apply IH in H1. destruct tp; [discriminate| |].
      * destruct (nest f Fail r1) as [[[q tq] r2]| |] eqn:H2; try discriminate.
        apply IH in H2. destruct tq; try discriminate.
        destruct (nest f m r2) as [[[bs' t'] r']| |] eqn:H3; cbn [bind] in H; try discriminate.
        apply IH in H3. inv H. cbn [length]. lia.
      * destruct (nest f m r1) as [[[bs' t'] r']| |] eqn:H3; cbn [bind] in H; try discriminate.
        apply IH in H3. inv H. cbn [length]. lia.
    + destruct m, (c =? OP_ELSE)%N, (c =? OP_ENDIF)%N;
        try (inv H; cbn [length]; lia); try (eapply Hplain; exact H).
Qed.

(* any fuel above the input length gives the same result *)
Lemma nest_fuel : forall f f' m ts, length ts < f -> length ts < f' -> nest f m ts = nest f' m ts.
Proof.
  induction f as [|f IH]; intros f' m ts H H'; [lia|].
  destruct f' as [|f']; [lia|].
  cbn [nest]. destruct ts as [|x ts']; [reflexivity|]. cbn [length] in H, H'.
  assert (E : forall m' r, length r <= length ts' -> nest f m' r = nest f' m' r) by (intros; apply IH; lia).
  destruct x as [c|d|c d|c p q|d]; try (rewrite (E m ts') by lia; reflexivity).
  destruct (is_if c).
  - rewrite (E Pass ts') by lia.
    destruct (nest f' Pass ts') as [[[p tp] r1]| |] eqn:E1; try reflexivity.
    pose proof (nest_rem_len _ _ _ _ _ _ E1) as L1. destruct tp; try reflexivity.
    + rewrite (E Fail r1) by lia.
      destruct (nest f' Fail r1) as [[[q tq] r2]| |] eqn:E2; try reflexivity.
      pose proof (nest_rem_len _ _ _ _ _ _ E2) as L2. destruct tq; try reflexivity.
      rewrite (E m r2) by lia. reflexivity.
    + rewrite (E m r1) by lia. reflexivity.
  - destruct m, (c =? OP_ELSE)%N, (c =? OP_ENDIF)%N; try reflexivity; rewrite (E _ ts') by lia; reflexivity.
Qed.

Lemma canon_bit_if c p q :
  canon_bit (BIf c p q) = is_if c && canon_in Pass p && match q with None => true | Some q' => canon_in Fail q' end.
Proof. reflexivity. Qed.

Lemma flat_ne b : flat b <> [].
Proof. destruct b; cbn; discriminate. Qed.

Lemma flats_ne l : l <> [] -> flats l <> [].
Proof.
  destruct l as [|b l]; [congruence|]. intros _. cbn [flats].
  pose proof (flat_ne b). destruct (flat b); [congruence | cbn; discriminate].
Qed.

Lemma is_if_not_else_endif c : is_if c = true -> (c =? OP_ELSE)%N = false /\ (c =? OP_ENDIF)%N = false /\ (c =? 0)%N = false.
Proof. unfold is_if, OP_ELSE, OP_ENDIF. lia. Qed.

Definition nest_k (b : list bit) (x : outcome (list bit * term * list bit)) : outcome (list bit * term * list bit) :=
  do y <- x; let '(bs, t, r) := y in Ok (b ++ bs, t, r).

Lemma nest_unflatten :
  forall l m k f, canon_in m l = true -> length (flats l ++ k) < f ->
                  nest f m (flats l ++ k) = nest_k l (nest f m k).
Proof.
  apply (bits_ind'
    (fun b => forall m k f, ok_head m b && canon_bit b = true -> length (flat b ++ k) < f ->
                            nest f m (flat b ++ k) = nest_k [b] (nest f m k))
    (fun l => forall m k f, canon_in m l = true -> length (flats l ++ k) < f ->
                            nest f m (flats l ++ k) = nest_k l (nest f m k))).
  - (* BOp *)
    intros c m k f Hc Hl. cbn [flat app length] in *. destruct f as [|f]; [lia|].
    apply andb_true_iff in Hc. destruct Hc as [Hh Hn]. cbn [canon_bit] in Hn. apply negb_true_iff in Hn.
    rewrite (nest_fuel (S f) f m k) by lia.
    cbn [nest]. rewrite Hn.
    unfold nest_k.
    destruct m; cbn [ok_head] in Hh.
    + destruct (c =? OP_ELSE)%N, (c =? OP_ENDIF)%N; destruct (nest f Top k) as [[[bs t] r]| |]; reflexivity.
    + apply andb_true_iff in Hh. destruct Hh as [H1 H2]. apply negb_true_iff in H1, H2. rewrite H1, H2.
      destruct (nest f Pass k) as [[[bs t] r]| |]; reflexivity.
    + apply negb_true_iff in Hh. rewrite Hh.
      destruct (c =? OP_ELSE)%N; destruct (nest f Fail k) as [[[bs t] r]| |]; reflexivity.
  - (* BPush *)
    intros d m k f _ Hl. cbn [flat app length] in *. destruct f as [|f]; [lia|].
    rewrite (nest_fuel (S f) f m k) by lia. cbn [nest]. unfold nest_k.
    destruct (nest f m k) as [[[bs t] r]| |]; reflexivity.
  - (* BPushData *)
    intros c d m k f _ Hl. cbn [flat app length] in *. destruct f as [|f]; [lia|].
    rewrite (nest_fuel (S f) f m k) by lia. cbn [nest]. unfold nest_k.
    destruct (nest f m k) as [[[bs t] r]| |]; reflexivity.
  - (* BCoinbase *)
    intros d m k f _ Hl. cbn [flat app length] in *. destruct f as [|f]; [lia|].
    rewrite (nest_fuel (S f) f m k) by lia. cbn [nest]. unfold nest_k.
    destruct (nest f m k) as [[[bs t] r]| |]; reflexivity.
  - (* BIf c p None *)
    intros c p IHp m k f Hc Hl.
    apply andb_true_iff in Hc. destruct Hc as [_ Hc]. rewrite canon_bit_if in Hc.
    apply andb_true_iff in Hc. destruct Hc as [Hc _]. apply andb_true_iff in Hc. destruct Hc as [Hif Hp].
    rewrite flat_if in *. cbn [app] in *. rewrite <- app_assoc in *. cbn [app] in *.
    cbn [length] in Hl. rewrite app_length in Hl. cbn [length] in Hl.
    destruct f as [|f]; [lia|]. destruct f as [|f]; [lia|].
    rewrite (nest_fuel (S (S f)) (S f) m k) by lia.
    remember (S f) as g eqn:Hg. cbn [nest]. rewrite Hif.
    rewrite (IHp Pass (BOp OP_ENDIF :: k) g Hp) by (rewrite app_length; cbn [length]; lia).
    assert (E : nest g Pass (BOp OP_ENDIF :: k) = Ok ([], TEndif, k)) by (subst g; reflexivity).
    rewrite E. unfold nest_k at 1. cbn [bind]. rewrite app_nil_r. unfold nest_k.
    destruct (nest g m k) as [[[bs t] r]| |]; reflexivity.
  - (* BIf c p (Some q) *)
    intros c p q IHp IHq m k f Hc Hl.
    apply andb_true_iff in Hc. destruct Hc as [_ Hc]. rewrite canon_bit_if in Hc.
    apply andb_true_iff in Hc. destruct Hc as [Hc Hq]. apply andb_true_iff in Hc. destruct Hc as [Hif Hp].
    rewrite flat_if in *. cbn [app] in *. rewrite <- app_assoc in *. cbn [app] in *. rewrite <- app_assoc in *. cbn [app] in *.
    cbn [length] in Hl. rewrite app_length in Hl. cbn [length] in Hl. rewrite app_length in Hl. cbn [length] in Hl.
    destruct f as [|f]; [lia|]. destruct f as [|f]; [lia|].
    rewrite (nest_fuel (S (S f)) (S f) m k) by lia.
    remember (S f) as g eqn:Hg. cbn [nest]. rewrite Hif.
    rewrite (IHp Pass (BOp OP_ELSE :: flats q ++ BOp OP_ENDIF :: k) g Hp)
      by (rewrite app_length; cbn [length]; rewrite app_length; cbn [length]; lia).
    assert (E : nest g Pass (BOp OP_ELSE :: flats q ++ BOp OP_ENDIF :: k) = Ok ([], TElse, flats q ++ BOp OP_ENDIF :: k)) by (subst g; reflexivity).
    rewrite E. unfold nest_k at 1. cbn [bind]. rewrite app_nil_r.
    rewrite (IHq Fail (BOp OP_ENDIF :: k) g Hq) by (rewrite app_length; cbn [length]; lia).
    assert (E2 : nest g Fail (BOp OP_ENDIF :: k) = Ok ([], TEndif, k)) by (subst g; reflexivity).
    rewrite E2. unfold nest_k at 1. cbn [bind]. rewrite app_nil_r. unfold nest_k.
    destruct (nest g m k) as [[[bs t] r]| |]; reflexivity.
  - (* nil *)
    intros m k f _ _. cbn [flats app]. unfold nest_k. destruct (nest f m k) as [[[bs t] r]| |]; reflexivity.
  - (* cons *)
    intros b l Hb Hl m k f Hc Hlen. cbn [flats]. rewrite <- app_assoc.
    unfold canon_in in Hc. cbn [forallb] in Hc. apply andb_true_iff in Hc. destruct Hc as [Hcb Hcl].
    cbn [flats] in Hlen. rewrite <- app_assoc in Hlen.
    rewrite Hb; [| exact Hcb | exact Hlen].
    rewrite Hl; [| exact Hcl | rewrite app_length in Hlen; lia].
    unfold nest_k. destruct (nest f m k) as [[[bs t] r]| |]; reflexivity.
Qed.

Lemma nest_top_unflatten s : canonical s = true -> nest_top (flats s) = Ok s.
Proof.
  intros H. unfold nest_top.
  pose proof (nest_unflatten s Top [] (S (length (flats s))) H) as E.
  rewrite app_nil_r in E. rewrite E by lia. cbn. rewrite app_nil_r. reflexivity.
Qed.

(* what `nest` returns is canonical *)
Lemma nest_canon : forall f m ts bs t r,
  is_flat ts = true -> nest f m ts = Ok (bs, t, r) -> canon_in m bs = true.
Proof.
  induction f as [|f IH]; intros m ts bs t r Hfl H; [discriminate|].
  cbn [nest] in H. destruct ts as [|x ts'].
  - destruct m; inv H; reflexivity.
  - assert (Hfl' : is_flat ts' = true) by (destruct x; cbn in Hfl; congruence).
    assert (Hplain : forall o, (do y <- nest f m ts'; let '(bs0, t0, r') := y in Ok (o :: bs0, t0, r')) = Ok (bs, t, r) ->
                               ok_head m o && canon_bit o = true -> canon_in m bs = true).
    { intros o Ho Hc. destruct (nest f m ts') as [[[bs' t'] r']| |] eqn:H3; cbn [bind] in Ho; try discriminate.
      inv Ho. apply IH in H3; [|exact Hfl']. unfold canon_in in *. cbn [forallb]. rewrite Hc, H3. reflexivity. }
    destruct x as [c|d|c d|c p q|d]; try (eapply Hplain; [exact H | reflexivity]); [|cbn in Hfl; discriminate].
    destruct (is_if c) eqn:Hif.
    + destruct (nest f Pass ts') as [[[p tp] r1]| |] eqn:H1; try discriminate.
      pose proof (nest_flats _ _ _ _ _ _ Hfl' H1) as [_ F1].
      apply IH in H1; [|exact Hfl'].
      destruct tp; [discriminate| |].
      * destruct (nest f Fail r1) as [[[q tq] r2]| |] eqn:H2; try discriminate.
        pose proof (nest_flats _ _ _ _ _ _ F1 H2) as [_ F2].
        apply IH in H2; [|exact F1].
        destruct tq; try discriminate.
        destruct (nest f m r2) as [[[bs' t'] r']| |] eqn:H3; cbn [bind] in H; try discriminate.
        apply IH in H3; [|exact F2]. inv H.
        unfold canon_in. cbn [forallb]. rewrite canon_bit_if, Hif, H1, H2. cbn [ok_head andb]. exact H3.
      * destruct (nest f m r1) as [[[bs' t'] r']| |] eqn:H3; cbn [bind] in H; try discriminate.
        apply IH in H3; [|exact F1]. inv H.
        unfold canon_in. cbn [forallb]. rewrite canon_bit_if, Hif, H1. cbn [ok_head andb]. exact H3.
    + destruct m, (c =? OP_ELSE)%N eqn:He, (c =? OP_ENDIF)%N eqn:Hd;
        try (inv H; reflexivity);
        try (eapply Hplain; [exact H | cbn [ok_head canon_bit]; rewrite ?He, ?Hd, Hif; reflexivity]).
Qed.

Lemma nest_top_canonical ts s : is_flat ts = true -> nest_top ts = Ok s -> canonical s = true.
Proof.
  unfold nest_top. intros Hfl H.
  destruct (nest (S (length ts)) Top ts) as [[[b t] r]| |] eqn:E; cbn [bind] in H; try discriminate.
  inv H. exact (nest_canon _ _ _ _ _ _ Hfl E).
Qed.

(* ================================================================== *)
(* 2. leaves of a tree vs. its flattening *)

Lemma all_leaves_if P c p q :
  all_leaves P (BIf c p q) = forallb (all_leaves P) p && match q with None => true | Some q' => forallb (all_leaves P) q' end.
Proof. reflexivity. Qed.

Lemma leaves_flats (P : bit -> bool) :
  (forall c, is_if c = true -> P (BOp c) = true) -> P (BOp OP_ELSE) = true -> P (BOp OP_ENDIF) = true ->
  forall s m, canon_in m s = true -> forallb (all_leaves P) s = true -> forallb P (flats s) = true.
Proof.
  intros Hif Helse Hendif.
  apply (bits_ind'
    (fun b => canon_bit b = true -> all_leaves P b = true -> forallb P (flat b) = true)
    (fun l => forall m, canon_in m l = true -> forallb (all_leaves P) l = true -> forallb P (flats l) = true)).
  - intros c _ H. cbn in *. rewrite H. reflexivity.
  - intros d _ H. cbn in *. rewrite H. reflexivity.
  - intros c d _ H. cbn in *. rewrite H. reflexivity.
  - intros d _ H. cbn in *. rewrite H. reflexivity.
  - intros c p IHp Hc H. rewrite canon_bit_if in Hc. rewrite all_leaves_if in H.
    apply andb_true_iff in Hc. destruct Hc as [Hc _]. apply andb_true_iff in Hc. destruct Hc as [Hc Hp].
    apply andb_true_iff in H. destruct H as [H _].
    rewrite flat_if. cbn [forallb app]. rewrite !forallb_app. cbn [forallb].
    rewrite (Hif c Hc), (IHp Pass Hp H), Hendif. reflexivity.
  - intros c p q IHp IHq Hc H. rewrite canon_bit_if in Hc. rewrite all_leaves_if in H.
    apply andb_true_iff in Hc. destruct Hc as [Hc Hq]. apply andb_true_iff in Hc. destruct Hc as [Hc Hp].
    apply andb_true_iff in H. destruct H as [H H'].
    rewrite flat_if. cbn [forallb app]. rewrite !forallb_app. cbn [forallb]. rewrite !forallb_app. cbn [forallb].
    rewrite (Hif c Hc), (IHp Pass Hp H), (IHq Fail Hq H'), Helse, Hendif. reflexivity.
  - reflexivity.
  - intros b l Hb Hl m Hc H. unfold canon_in in Hc. cbn [forallb] in Hc, H.
    apply andb_true_iff in Hc. destruct Hc as [Hcb Hcl]. apply andb_true_iff in Hcb. destruct Hcb as [_ Hcb].
    apply andb_true_iff in H. destruct H as [H1 H2].
    cbn [flats]. rewrite forallb_app, (Hb Hcb H1), (Hl m Hcl H2). reflexivity.
Qed.

Lemma flats_leaves (P : bit -> bool) : forall s, forallb P (flats s) = true -> forallb (all_leaves P) s = true.
Proof.
  apply (bits_ind'
    (fun b => forallb P (flat b) = true -> all_leaves P b = true)
    (fun l => forallb P (flats l) = true -> forallb (all_leaves P) l = true)).
  - intros c H. cbn in *. rewrite andb_true_r in H. exact H.
  - intros d H. cbn in *. rewrite andb_true_r in H. exact H.
  - intros c d H. cbn in *. rewrite andb_true_r in H. exact H.
  - intros d H. cbn in *. rewrite andb_true_r in H. exact H.
  - intros c p IHp H. rewrite flat_if in H. cbn [forallb app] in H. rewrite !forallb_app in H.
    rewrite all_leaves_if. apply andb_true_iff in H. destruct H as [_ H]. apply andb_true_iff in H. destruct H as [H _].
    rewrite (IHp H). reflexivity.
  - intros c p q IHp IHq H. rewrite flat_if in H. cbn [forallb app] in H. rewrite !forallb_app in H. cbn [forallb] in H.
    rewrite ?forallb_app in H. cbn [forallb] in H.
    rewrite all_leaves_if. split_andb. rewrite IHp, IHq by assumption. reflexivity.
  - reflexivity.
  - intros b l Hb Hl H. cbn [flats] in H. rewrite forallb_app in H. apply andb_true_iff in H. destruct H as [H1 H2].
    cbn [forallb]. rewrite (Hb H1), (Hl H2). reflexivity.
Qed.

(* ================================================================== *)
(* 3. the rendering of a tree is the space-joined rendering of its flattening *)

Lemma bit_asm_if ext c p q :
  bit_asm ext (BIf c p q) =
    join " " ([op_text c] ++ nonempty_part (to_asm ext p)
              ++ match q with None => [] | Some q' => op_text OP_ELSE :: nonempty_part (to_asm ext q') end
              ++ [op_text OP_ENDIF]).
Proof. reflexivity. Qed.

Lemma join_part a b l :
  (l <> [] -> join " " l <> "") -> join " " (a ++ nonempty_part (join " " l) ++ b) = join " " (a ++ l ++ b).
Proof.
  intros H. destruct l as [|x l]; [reflexivity|].
  assert (Hne : x :: l <> []) by discriminate. specialize (H Hne).
  unfold nonempty_part. destruct (join " " (x :: l)) eqn:E; [congruence|]. cbn [is_empty]. rewrite <- E.
  apply join_mid. exact Hne.
Qed.

Definition ne_render (ext : bool) (b : bit) : bool := negb (is_empty (bit_asm ext b)).

Lemma join_render_ne ext l : forallb (ne_render ext) l = true -> l <> [] -> join " " (map (bit_asm ext) l) <> "".
Proof.
  destruct l as [|b l]; [congruence|]. cbn [forallb map]. intros H _. apply andb_true_iff in H. destruct H as [H _].
  apply join_hd_ne. unfold ne_render in H. destruct (bit_asm ext b); [discriminate | discriminate].
Qed.

Lemma map_ne {A B} (f : A -> B) l : l <> [] -> map f l <> [].
Proof. destruct l; [congruence | cbn; discriminate]. Qed.

Lemma bit_asm_op_nz ext c : (c =? 0)%N = false -> bit_asm ext (BOp c) = op_text c.
Proof. intros H. cbn [bit_asm]. unfold OP_0. rewrite H. reflexivity. Qed.

Lemma render_flat ext :
  forall s m, canon_in m s = true -> forallb (ne_render ext) (flats s) = true ->
              to_asm ext s = join " " (map (bit_asm ext) (flats s)).
Proof.
  unfold to_asm.
  apply (bits_ind'
    (fun b => canon_bit b = true -> forallb (ne_render ext) (flat b) = true ->
              bit_asm ext b = join " " (map (bit_asm ext) (flat b)))
    (fun l => forall m, canon_in m l = true -> forallb (ne_render ext) (flats l) = true ->
              join " " (map (bit_asm ext) l) = join " " (map (bit_asm ext) (flats l)))).
  - reflexivity.
  - reflexivity.
  - reflexivity.
  - reflexivity.
  - intros c p IHp Hc H. rewrite canon_bit_if in Hc.
    apply andb_true_iff in Hc. destruct Hc as [Hc _]. apply andb_true_iff in Hc. destruct Hc as [Hc Hp].
    destruct (is_if_not_else_endif c Hc) as (_ & _ & Hz).
    rewrite flat_if in *. cbn [forallb app] in H. rewrite !forallb_app in H.
    apply andb_true_iff in H. destruct H as [_ H]. apply andb_true_iff in H. destruct H as [H _].
    rewrite bit_asm_if. unfold to_asm. rewrite (IHp Pass Hp H).
    rewrite join_part by (intros Hn; apply join_render_ne; [exact H | intros E; apply Hn; rewrite E; reflexivity]).
    cbn [map app]. rewrite !map_app. cbn [map]. rewrite (bit_asm_op_nz ext c Hz). reflexivity.
  - intros c p q IHp IHq Hc H. rewrite canon_bit_if in Hc.
    apply andb_true_iff in Hc. destruct Hc as [Hc Hq]. apply andb_true_iff in Hc. destruct Hc as [Hc Hp].
    destruct (is_if_not_else_endif c Hc) as (_ & _ & Hz).
    rewrite flat_if in *. cbn [forallb app] in H. rewrite !forallb_app in H. cbn [forallb] in H. rewrite ?forallb_app in H.
    apply andb_true_iff in H. destruct H as [_ H]. apply andb_true_iff in H. destruct H as [H H'].
    apply andb_true_iff in H'. destruct H' as [_ H']. apply andb_true_iff in H'. destruct H' as [H' _].
    rewrite bit_asm_if. unfold to_asm. rewrite (IHp Pass Hp H), (IHq Fail Hq H').
    rewrite join_part by (intros Hn; apply join_render_ne; [exact H | intros E; apply Hn; rewrite E; reflexivity]).
    change (op_text OP_ELSE :: nonempty_part (join " " (map (bit_asm ext) (flats q))))
      with ([op_text OP_ELSE] ++ nonempty_part (join " " (map (bit_asm ext) (flats q)))).
    rewrite <- !app_assoc.
    rewrite (app_assoc (map (bit_asm ext) (flats p)) [op_text OP_ELSE]).
    rewrite (app_assoc [op_text c]).
    rewrite join_part by (intros Hn; apply join_render_ne; [exact H' | intros E; apply Hn; rewrite E; reflexivity]).
    cbn [map app]. rewrite !map_app. cbn [map]. rewrite !map_app. cbn [map]. rewrite (bit_asm_op_nz ext c Hz).
    rewrite <- !app_assoc. reflexivity.
  - reflexivity.
  - intros b l Hb Hl m Hc H. unfold canon_in in Hc. cbn [forallb] in Hc.
    apply andb_true_iff in Hc. destruct Hc as [Hcb Hcl]. apply andb_true_iff in Hcb. destruct Hcb as [_ Hcb].
    cbn [flats] in *. rewrite forallb_app in H. apply andb_true_iff in H. destruct H as [H1 H2].
    rewrite map_app. cbn [map].
    destruct l as [|b' l'].
    + cbn [flats map]. rewrite app_nil_r. cbn [join]. exact (Hb Hcb H1).
    + assert (Hn : b' :: l' <> []) by discriminate.
      rewrite join_cons by (apply map_ne; exact Hn).
      rewrite join_app by (apply map_ne; [apply flat_ne | apply flats_ne; exact Hn]).
      rewrite (Hb Hcb H1), (Hl m Hcl H2). reflexivity.
Qed.
