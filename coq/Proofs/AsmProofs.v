(* Proofs/AsmProofs.v — C17: rendering, tokenisation and re-nesting lemmas. *)
From BSV Require Import Base.Hex Gen.Opcodes_gen Model.Opcodes Model.Script Model.Asm Spec.ScriptTok Spec.AsmSpec
  Proofs.ScriptProofs Proofs.StringLemmas.
Open Scope list_scope.

Ltac inv H := inversion H; subst; clear H.
Ltac split_andb :=
  repeat match goal with
         | H : (_ && _)%bool = true |- _ => apply andb_true_iff in H; destruct H
         end.

(* ================================================================== *)
(* 1. re-nesting: `nest` on the flattening of a canonical tree gives the tree back *)

Lemma nest_rem_len : forall f m ts bs t r, nest f m ts = Ok (bs, t, r) -> length r <= length ts.
Proof.
  induction f as [|f IH]; intros m ts bs t r H; [discriminate|].
  cbn [nest] in H. destruct ts as [|x ts'].
  - destruct m; inv H; cbn; lia.
  - assert (Hplain : forall o, (do y <- nest f m ts'; let '(bs0, t0, r') := y in Ok (o :: bs0, t0, r')) = Ok (bs, t, r) ->
                               length r <= length (x :: ts')).
    { intros o Ho. destruct (nest f m ts') as [[[bs' t'] r']| |] eqn:H3; cbn [bind] in Ho; try discriminate.
      inv Ho. apply IH in H3. cbn [length]. lia. }
    destruct x as [c|d|c d|c p q|d]; try (eapply Hplain; exact H).
    destruct (is_if c).
    + destruct (nest f Pass ts') as [[[p tp] r1]| |] eqn:H1; try discriminate.
      apply IH in H1. destruct tp; [discriminate| |].
      * destruct (nest f Fail r1) as [[[q tq] r2]| |] eqn:H2; try discriminate.
        apply IH in H2. destruct tq; try discriminate.
        destruct (nest f m r2) as [[[bs' t'] r']| |] eqn:H3; cbn [bind] in H; try discriminate.
        apply IH in H3. inv H. cbn [length]. lia.
      * destruct (nest f m r1) as [[[bs' t'] r']| |] eqn:H3; cbn [bind] in H; try discriminate.
        apply IH in H3. inv H. cbn [length]. lia.
    + destruct m, (c =? OP_ELSE)%N, (c =? OP_ENDIF)%N;
        try (inv H; cbn [length]; lia); try (eapply Hplain; exact H).
Qed.

(* any fuel above the input length gives the same result *)
Lemma nest_fuel : forall f f' m ts, length ts < f -> length ts < f' -> nest f m ts = nest f' m ts.
Proof.
  induction f as [|f IH]; intros f' m ts H H'; [lia|].
  destruct f' as [|f']; [lia|].
  cbn [nest]. destruct ts as [|x ts']; [reflexivity|]. cbn [length] in H, H'.
  assert (E : forall m' r, length r <= length ts' -> nest f m' r = nest f' m' r) by (intros; apply IH; lia).
  destruct x as [c|d|c d|c p q|d]; try (rewrite (E m ts') by lia; reflexivity).
  destruct (is_if c).
  - rewrite (E Pass ts') by lia.
    destruct (nest f' Pass ts') as [[[p tp] r1]| |] eqn:E1; try reflexivity.
    pose proof (nest_rem_len _ _ _ _ _ _ E1) as L1. destruct tp; try reflexivity.
    + rewrite (E Fail r1) by lia.
      destruct (nest f' Fail r1) as [[[q tq] r2]| |] eqn:E2; try reflexivity.
      pose proof (nest_rem_len _ _ _ _ _ _ E2) as L2. destruct tq; try reflexivity.
      rewrite (E m r2) by lia. reflexivity.
    + rewrite (E m r1) by lia. reflexivity.
  - destruct m, (c =? OP_ELSE)%N, (c =? OP_ENDIF)%N; try reflexivity; rewrite (E _ ts') by lia; reflexivity.
Qed.

Lemma canon_bit_if c p q :
  canon_bit (BIf c p q) = is_if c && canon_in Pass p && match q with None => true | Some q' => canon_in Fail q' end.
Proof. reflexivity. Qed.

Lemma flat_ne b : flat b <> [].
Proof. destruct b; cbn; discriminate. Qed.

Lemma flats_ne l : l <> [] -> flats l <> [].
Proof.
  destruct l as [|b l]; [congruence|]. intros _. cbn [flats].
  pose proof (flat_ne b). destruct (flat b); [congruence | cbn; discriminate].
Qed.

Lemma is_if_not_else_endif c : is_if c = true -> (c =? OP_ELSE)%N = false /\ (c =? OP_ENDIF)%N = false /\ (c =? 0)%N = false.
Proof. unfold is_if, OP_ELSE, OP_ENDIF. lia. Qed.

Definition nest_k (b : list bit) (x : outcome (list bit * term * list bit)) : outcome (list bit * term * list bit) :=
  do y <- x; let '(bs, t, r) := y in Ok (b ++ bs, t, r).

Lemma nest_unflatten :
  forall l m k f, canon_in m l = true -> length (flats l ++ k) < f ->
                  nest f m (flats l ++ k) = nest_k l (nest f m k).
Proof.
  apply (bits_ind'
    (fun b => forall m k f, ok_head m b && canon_bit b = true -> length (flat b ++ k) < f ->
                            nest f m (flat b ++ k) = nest_k [b] (nest f m k))
    (fun l => forall m k f, canon_in m l = true -> length (flats l ++ k) < f ->
                            nest f m (flats l ++ k) = nest_k l (nest f m k))).
  - (* BOp *)
    intros c m k f Hc Hl. cbn [flat app length] in *. destruct f as [|f]; [lia|].
    apply andb_true_iff in Hc. destruct Hc as [Hh Hn]. cbn [canon_bit] in Hn. apply negb_true_iff in Hn.
    rewrite (nest_fuel (S f) f m k) by lia.
    cbn [nest]. rewrite Hn.
    unfold nest_k.
    destruct m; cbn [ok_head] in Hh.
    + destruct (c =? OP_ELSE)%N, (c =? OP_ENDIF)%N; destruct (nest f Top k) as [[[bs t] r]| |]; reflexivity.
    + apply andb_true_iff in Hh. destruct Hh as [H1 H2]. apply negb_true_iff in H1, H2. rewrite H1, H2.
      destruct (nest f Pass k) as [[[bs t] r]| |]; reflexivity.
    + apply negb_true_iff in Hh. rewrite Hh.
      destruct (c =? OP_ELSE)%N; destruct (nest f Fail k) as [[[bs t] r]| |]; reflexivity.
  - (* BPush *)
    intros d m k f _ Hl. cbn [flat app length] in *. destruct f as [|f]; [lia|].
    rewrite (nest_fuel (S f) f m k) by lia. cbn [nest]. unfold nest_k.
    destruct (nest f m k) as [[[bs t] r]| |]; reflexivity.
  - (* BPushData *)
    intros c d m k f _ Hl. cbn [flat app length] in *. destruct f as [|f]; [lia|].
    rewrite (nest_fuel (S f) f m k) by lia. cbn [nest]. unfold nest_k.
    destruct (nest f m k) as [[[bs t] r]| |]; reflexivity.
  - (* BCoinbase *)
    intros d m k f _ Hl. cbn [flat app length] in *. destruct f as [|f]; [lia|].
    rewrite (nest_fuel (S f) f m k) by lia. cbn [nest]. unfold nest_k.
    destruct (nest f m k) as [[[bs t] r]| |]; reflexivity.
  - (* BIf c p None *)
    intros c p IHp m k f Hc Hl.
    apply andb_true_iff in Hc. destruct Hc as [_ Hc]. rewrite canon_bit_if in Hc.
    apply andb_true_iff in Hc. destruct Hc as [Hc _]. apply andb_true_iff in Hc. destruct Hc as [Hif Hp].
    rewrite flat_if in *. cbn [app] in *. rewrite <- app_assoc in *. cbn [app] in *.
    cbn [length] in Hl. rewrite app_length in Hl. cbn [length] in Hl.
    destruct f as [|f]; [lia|]. destruct f as [|f]; [lia|].
    rewrite (nest_fuel (S (S f)) (S f) m k) by lia.
    remember (S f) as g eqn:Hg. cbn [nest]. rewrite Hif.
    rewrite (IHp Pass (BOp OP_ENDIF :: k) g Hp) by (rewrite app_length; cbn [length]; lia).
    assert (E : nest g Pass (BOp OP_ENDIF :: k) = Ok ([], TEndif, k)) by (subst g; reflexivity).
    rewrite E. unfold nest_k at 1. cbn [bind]. rewrite app_nil_r. unfold nest_k.
    destruct (nest g m k) as [[[bs t] r]| |]; reflexivity.
  - (* BIf c p (Some q) *)
    intros c p q IHp IHq m k f Hc Hl.
    apply andb_true_iff in Hc. destruct Hc as [_ Hc]. rewrite canon_bit_if in Hc.
    apply andb_true_iff in Hc. destruct Hc as [Hc Hq]. apply andb_true_iff in Hc. destruct Hc as [Hif Hp].
    rewrite flat_if in *. cbn [app] in *. rewrite <- app_assoc in *. cbn [app] in *. rewrite <- app_assoc in *. cbn [app] in *.
    cbn [length] in Hl. rewrite app_length in Hl. cbn [length] in Hl. rewrite app_length in Hl. cbn [length] in Hl.
    destruct f as [|f]; [lia|]. destruct f as [|f]; [lia|].
    rewrite (nest_fuel (S (S f)) (S f) m k) by lia.
    remember (S f) as g eqn:Hg. cbn [nest]. rewrite Hif.
    rewrite (IHp Pass (BOp OP_ELSE :: flats q ++ BOp OP_ENDIF :: k) g Hp)
      by (rewrite app_length; cbn [length]; rewrite app_length; cbn [length]; lia).
    assert (E : nest g Pass (BOp OP_ELSE :: flats q ++ BOp OP_ENDIF :: k) = Ok ([], TElse, flats q ++ BOp OP_ENDIF :: k)) by (subst g; reflexivity).
    rewrite E. unfold nest_k at 1. cbn [bind]. rewrite app_nil_r.
    rewrite (IHq Fail (BOp OP_ENDIF :: k) g Hq) by (rewrite app_length; cbn [length]; lia).
    assert (E2 : nest g Fail (BOp OP_ENDIF :: k) = Ok ([], TEndif, k)) by (subst g; reflexivity).
    rewrite E2. unfold nest_k at 1. cbn [bind]. rewrite app_nil_r. unfold nest_k.
    destruct (nest g m k) as [[[bs t] r]| |]; reflexivity.
  - (* nil *)
    intros m k f _ _. cbn [flats app]. unfold nest_k. destruct (nest f m k) as [[[bs t] r]| |]; reflexivity.
  - (* cons *)
    intros b l Hb Hl m k f Hc Hlen. cbn [flats]. rewrite <- app_assoc.
    unfold canon_in in Hc. cbn [forallb] in Hc. apply andb_true_iff in Hc. destruct Hc as [Hcb Hcl].
    cbn [flats] in Hlen. rewrite <- app_assoc in Hlen.
    rewrite Hb; [| exact Hcb | exact Hlen].
    rewrite Hl; [| exact Hcl | rewrite app_length in Hlen; lia].
    unfold nest_k. destruct (nest f m k) as [[[bs t] r]| |]; reflexivity.
Qed.

Lemma nest_top_unflatten s : canonical s = true -> nest_top (flats s) = Ok s.
Proof.
  intros H. unfold nest_top.
  pose proof (nest_unflatten s Top [] (S (length (flats s))) H) as E.
  rewrite app_nil_r in E. rewrite E by lia. cbn. rewrite app_nil_r. reflexivity.
Qed.

(* what `nest` returns is canonical *)
Lemma nest_canon : forall f m ts bs t r,
  is_flat ts = true -> nest f m ts = Ok (bs, t, r) -> canon_in m bs = true.
Proof.
  induction f as [|f IH]; intros m ts bs t r Hfl H; [discriminate|].
  cbn [nest] in H. destruct ts as [|x ts'].
  - destruct m; inv H; reflexivity.
  - assert (Hfl' : is_flat ts' = true) by (destruct x; cbn in Hfl; congruence).
    assert (Hplain : forall o, (do y <- nest f m ts'; let '(bs0, t0, r') := y in Ok (o :: bs0, t0, r')) = Ok (bs, t, r) ->
                               ok_head m o && canon_bit o = true -> canon_in m bs = true).
    { intros o Ho Hc. destruct (nest f m ts') as [[[bs' t'] r']| |] eqn:H3; cbn [bind] in Ho; try discriminate.
      inv Ho. apply IH in H3; [|exact Hfl']. unfold canon_in in *. cbn [forallb]. rewrite Hc, H3. reflexivity. }
    destruct x as [c|d|c d|c p q|d]; try (eapply Hplain; [exact H | reflexivity]); [|cbn in Hfl; discriminate].
    destruct (is_if c) eqn:Hif.
    + destruct (nest f Pass ts') as [[[p tp] r1]| |] eqn:H1; try discriminate.
      pose proof (nest_flats _ _ _ _ _ _ Hfl' H1) as [_ F1].
      apply IH in H1; [|exact Hfl'].
      destruct tp; [discriminate| |].
      * destruct (nest f Fail r1) as [[[q tq] r2]| |] eqn:H2; try discriminate.
        pose proof (nest_flats _ _ _ _ _ _ F1 H2) as [_ F2].
        apply IH in H2; [|exact F1].
        destruct tq; try discriminate.
        destruct (nest f m r2) as [[[bs' t'] r']| |] eqn:H3; cbn [bind] in H; try discriminate.
        apply IH in H3; [|exact F2]. inv H.
        unfold canon_in. cbn [forallb]. rewrite canon_bit_if, Hif, H1, H2. cbn [ok_head andb]. exact H3.
      * destruct (nest f m r1) as [[[bs' t'] r']| |] eqn:H3; cbn [bind] in H; try discriminate.
        apply IH in H3; [|exact F1]. inv H.
        unfold canon_in. cbn [forallb]. rewrite canon_bit_if, Hif, H1. cbn [ok_head andb]. exact H3.
    + destruct m, (c =? OP_ELSE)%N eqn:He, (c =? OP_ENDIF)%N eqn:Hd;
        try (inv H; reflexivity);
        try (eapply Hplain; [exact H | cbn [ok_head canon_bit]; rewrite ?He, ?Hd, Hif; reflexivity]).
Qed.

Lemma nest_top_canonical ts s : is_flat ts = true -> nest_top ts = Ok s -> canonical s = true.
Proof.
  unfold nest_top. intros Hfl H.
  destruct (nest (S (length ts)) Top ts) as [[[b t] r]| |] eqn:E; cbn [bind] in H; try discriminate.
  inv H. exact (nest_canon _ _ _ _ _ _ Hfl E).
Qed.

(* ================================================================== *)
(* 2. leaves of a tree vs. its flattening *)

Lemma all_leaves_if P c p q :
  all_leaves P (BIf c p q) = forallb (all_leaves P) p && match q with None => true | Some q' => forallb (all_leaves P) q' end.
Proof. reflexivity. Qed.

Lemma leaves_flats (P : bit -> bool) :
  (forall c, is_if c = true -> P (BOp c) = true) -> P (BOp OP_ELSE) = true -> P (BOp OP_ENDIF) = true ->
  forall s m, canon_in m s = true -> forallb (all_leaves P) s = true -> forallb P (flats s) = true.
Proof.
  intros Hif Helse Hendif.
  apply (bits_ind'
    (fun b => canon_bit b = true -> all_leaves P b = true -> forallb P (flat b) = true)
    (fun l => forall m, canon_in m l = true -> forallb (all_leaves P) l = true -> forallb P (flats l) = true)).
  - intros c _ H. cbn in *. rewrite H. reflexivity.
  - intros d _ H. cbn in *. rewrite H. reflexivity.
  - intros c d _ H. cbn in *. rewrite H. reflexivity.
  - intros d _ H. cbn in *. rewrite H. reflexivity.
  - intros c p IHp Hc H. rewrite canon_bit_if in Hc. rewrite all_leaves_if in H.
    apply andb_true_iff in Hc. destruct Hc as [Hc _]. apply andb_true_iff in Hc. destruct Hc as [Hc Hp].
    apply andb_true_iff in H. destruct H as [H _].
    rewrite flat_if. cbn [forallb app]. rewrite !forallb_app. cbn [forallb].
    rewrite (Hif c Hc), (IHp Pass Hp H), Hendif. reflexivity.
  - intros c p q IHp IHq Hc H. rewrite canon_bit_if in Hc. rewrite all_leaves_if in H.
    apply andb_true_iff in Hc. destruct Hc as [Hc Hq]. apply andb_true_iff in Hc. destruct Hc as [Hc Hp].
    apply andb_true_iff in H. destruct H as [H H'].
    rewrite flat_if. cbn [forallb app]. rewrite !forallb_app. cbn [forallb]. rewrite !forallb_app. cbn [forallb].
    rewrite (Hif c Hc), (IHp Pass Hp H), (IHq Fail Hq H'), Helse, Hendif. reflexivity.
  - reflexivity.
  - intros b l Hb Hl m Hc H. unfold canon_in in Hc. cbn [forallb] in Hc, H.
    apply andb_true_iff in Hc. destruct Hc as [Hcb Hcl]. apply andb_true_iff in Hcb. destruct Hcb as [_ Hcb].
    apply andb_true_iff in H. destruct H as [H1 H2].
    cbn [flats]. rewrite forallb_app, (Hb Hcb H1), (Hl m Hcl H2). reflexivity.
Qed.

Lemma flats_leaves (P : bit -> bool) : forall s, forallb P (flats s) = true -> forallb (all_leaves P) s = true.
Proof.
  apply (bits_ind'
    (fun b => forallb P (flat b) = true -> all_leaves P b = true)
    (fun l => forallb P (flats l) = true -> forallb (all_leaves P) l = true)).
  - intros c H. cbn in *. rewrite andb_true_r in H. exact H.
  - intros d H. cbn in *. rewrite andb_true_r in H. exact H.
  - intros c d H. cbn in *. rewrite andb_true_r in H. exact H.
  - intros d H. cbn in *. rewrite andb_true_r in H. exact H.
  - intros c p IHp H. rewrite flat_if in H. cbn [forallb app] in H. rewrite !forallb_app in H.
    rewrite all_leaves_if. apply andb_true_iff in H. destruct H as [_ H]. apply andb_true_iff in H. destruct H as [H _].
    rewrite (IHp H). reflexivity.
  - intros c p q IHp IHq H. rewrite flat_if in H. cbn [forallb app] in H. rewrite !forallb_app in H. cbn [forallb] in H.
    rewrite ?forallb_app in H. cbn [forallb] in H.
    rewrite all_leaves_if. split_andb. rewrite IHp, IHq by assumption. reflexivity.
  - reflexivity.
  - intros b l Hb Hl H. cbn [flats] in H. rewrite forallb_app in H. apply andb_true_iff in H. destruct H as [H1 H2].
    cbn [forallb]. rewrite (Hb H1), (Hl H2). reflexivity.
Qed.

(* ================================================================== *)
(* 3. the rendering of a tree is the space-joined rendering of its flattening *)

Lemma bit_asm_if ext c p q :
  bit_asm ext (BIf c p q) =
    join " " ([op_text c] ++ nonempty_part (to_asm ext p)
              ++ match q with None => [] | Some q' => op_text OP_ELSE :: nonempty_part (to_asm ext q') end
              ++ [op_text OP_ENDIF]).
Proof. reflexivity. Qed.

Lemma join_part a b l :
  (l <> [] -> join " " l <> "") -> join " " (a ++ nonempty_part (join " " l) ++ b) = join " " (a ++ l ++ b).
Proof.
  intros H. destruct l as [|x l]; [reflexivity|].
  assert (Hne : x :: l <> []) by discriminate. specialize (H Hne).
  unfold nonempty_part. destruct (join " " (x :: l)) eqn:E; [congruence|]. cbn [is_empty]. rewrite <- E.
  apply join_mid. exact Hne.
Qed.

Definition ne_render (ext : bool) (b : bit) : bool := negb (is_empty (bit_asm ext b)).

Lemma join_render_ne ext l : forallb (ne_render ext) l = true -> l <> [] -> join " " (map (bit_asm ext) l) <> "".
Proof.
  destruct l as [|b l]; [congruence|]. cbn [forallb map]. intros H _. apply andb_true_iff in H. destruct H as [H _].
  apply join_hd_ne. unfold ne_render in H. destruct (bit_asm ext b); [discriminate | discriminate].
Qed.

Lemma map_ne {A B} (f : A -> B) l : l <> [] -> map f l <> [].
Proof. destruct l; [congruence | cbn; discriminate]. Qed.

Lemma bit_asm_op_nz ext c : (c =? 0)%N = false -> bit_asm ext (BOp c) = op_text c.
Proof. intros H. cbn [bit_asm]. unfold OP_0. rewrite H. reflexivity. Qed.

Lemma render_flat ext :
  forall s m, canon_in m s = true -> forallb (ne_render ext) (flats s) = true ->
              to_asm ext s = join " " (map (bit_asm ext) (flats s)).
Proof.
  unfold to_asm.
  apply (bits_ind'
    (fun b => canon_bit b = true -> forallb (ne_render ext) (flat b) = true ->
              bit_asm ext b = join " " (map (bit_asm ext) (flat b)))
    (fun l => forall m, canon_in m l = true -> forallb (ne_render ext) (flats l) = true ->
              join " " (map (bit_asm ext) l) = join " " (map (bit_asm ext) (flats l)))).
  - reflexivity.
  - reflexivity.
  - reflexivity.
  - reflexivity.
  - intros c p IHp Hc H. rewrite canon_bit_if in Hc.
    apply andb_true_iff in Hc. destruct Hc as [Hc _]. apply andb_true_iff in Hc. destruct Hc as [Hc Hp].
    destruct (is_if_not_else_endif c Hc) as (_ & _ & Hz).
    rewrite flat_if in *. cbn [forallb app] in H. rewrite !forallb_app in H.
    apply andb_true_iff in H. destruct H as [_ H]. apply andb_true_iff in H. destruct H as [H _].
    rewrite bit_asm_if. unfold to_asm. rewrite (IHp Pass Hp H).
    rewrite join_part by (intros Hn; apply join_render_ne; [exact H | intros E; apply Hn; rewrite E; reflexivity]).
    cbn [map app]. rewrite !map_app. cbn [map]. rewrite (bit_asm_op_nz ext c Hz). reflexivity.
  - intros c p q IHp IHq Hc H. rewrite canon_bit_if in Hc.
    apply andb_true_iff in Hc. destruct Hc as [Hc Hq]. apply andb_true_iff in Hc. destruct Hc as [Hc Hp].
    destruct (is_if_not_else_endif c Hc) as (_ & _ & Hz).
    rewrite flat_if in *. cbn [forallb app] in H. rewrite !forallb_app in H. cbn [forallb] in H. rewrite ?forallb_app in H.
    apply andb_true_iff in H. destruct H as [_ H]. apply andb_true_iff in H. destruct H as [H H'].
    apply andb_true_iff in H'. destruct H' as [_ H']. apply andb_true_iff in H'. destruct H' as [H' _].
    rewrite bit_asm_if. unfold to_asm. rewrite (IHp Pass Hp H), (IHq Fail Hq H').
    rewrite join_part by (intros Hn; apply join_render_ne; [exact H | intros E; apply Hn; rewrite E; reflexivity]).
    change (op_text OP_ELSE :: nonempty_part (join " " (map (bit_asm ext) (flats q))))
      with ([op_text OP_ELSE] ++ nonempty_part (join " " (map (bit_asm ext) (flats q)))).
    rewrite <- !app_assoc.
    rewrite (app_assoc (map (bit_asm ext) (flats p)) [op_text OP_ELSE]).
    rewrite (app_assoc [op_text c]).
    rewrite join_part by (intros Hn; apply join_render_ne; [exact H' | intros E; apply Hn; rewrite E; reflexivity]).
    cbn [map app]. rewrite !map_app. cbn [map]. rewrite !map_app. cbn [map]. rewrite (bit_asm_op_nz ext c Hz).
    rewrite <- !app_assoc. reflexivity.
  - reflexivity.
  - intros b l Hb Hl m Hc H. unfold canon_in in Hc. cbn [forallb] in Hc.
    apply andb_true_iff in Hc. destruct Hc as [Hcb Hcl]. apply andb_true_iff in Hcb. destruct Hcb as [_ Hcb].
    cbn [flats] in *. rewrite forallb_app in H. apply andb_true_iff in H. destruct H as [H1 H2].
    rewrite map_app. cbn [map].
    destruct l as [|b' l'].
    + cbn [flats map]. rewrite app_nil_r. cbn [join]. exact (Hb Hcb H1).
    + assert (Hn : b' :: l' <> []) by discriminate.
      rewrite join_cons by (apply map_ne; exact Hn).
      rewrite join_app by (apply map_ne; first [apply flat_ne | apply flats_ne; exact Hn]).
      rewrite (Hb Hcb H1), (Hl m Hcl H2). reflexivity.
Qed.

(* ================================================================== *)
(* 4. facts about the generated opcode table and the alias table (re-checked on every build) *)

Definition nws (c : ascii) : bool := negb (is_ws c).
Definition clean (s : string) : bool := negb (is_empty s) && all_chars nws s.

Lemma names_clean : forallb (fun p => clean (fst p)) opcode_table = true.
Proof. vm_compute. reflexivity. Qed.
Lemma names_not_alias : forallb (fun p => match alias_of (fst p) with None => true | Some _ => false end) opcode_table = true.
Proof. vm_compute. reflexivity. Qed.
Lemma names_lookup :
  forallb (fun p => match opcode_of_name (fst p) with Some v => (v =? snd p)%N | None => false end) opcode_table = true.
Proof. vm_compute. reflexivity. Qed.
(* no opcode name is a valid even-length hex string *)
Lemma names_not_hex : forallb (fun p => match bytes_of_hex (fst p) with None => true | Some _ => false end) opcode_table = true.
Proof. vm_compute. reflexivity. Qed.
Lemma alias_short : forallb (fun p => Nat.leb (slength (fst p)) 2) alias_table = true.
Proof. vm_compute. reflexivity. Qed.
Lemma alias_names_ok : map fst alias_table = alias_names.
Proof. reflexivity. Qed.

Lemma opcode_name_in c n : opcode_name c = Some n -> In (n, c) opcode_table.
Proof. apply lookup_name_in. Qed.

Lemma is_opcode_name c : is_opcode c = true -> exists n, opcode_name c = Some n.
Proof. unfold is_opcode. destruct (opcode_name c); [eauto | discriminate]. Qed.

(* ------------------------------------------------------------------ *)
(* trim on text without whitespace *)
Lemma ltrim_clean s : all_chars nws s = true -> ltrim s = s.
Proof.
  destruct s as [|c r]; [reflexivity|]. cbn [all_chars ltrim]. intros H. apply andb_true_iff in H. destruct H as [H _].
  unfold nws in H. apply negb_true_iff in H. rewrite H. reflexivity.
Qed.

Lemma rtrim_clean s : all_chars nws s = true -> rtrim s = s.
Proof.
  induction s as [|c r IH]; [reflexivity|]. cbn [all_chars]. intros H. apply andb_true_iff in H. destruct H as [Hc Hr].
  cbn [rtrim]. rewrite (IH Hr). destruct r; [|reflexivity].
  unfold nws in Hc. apply negb_true_iff in Hc. rewrite Hc. reflexivity.
Qed.

Lemma trim_clean s : all_chars nws s = true -> trim s = s.
Proof. intros H. unfold trim. rewrite (ltrim_clean s H). apply rtrim_clean; exact H. Qed.

(* ------------------------------------------------------------------ *)
(* the rendering of one element, and parsing it back *)
Definition leaf_wf (b : bit) : bool :=
  match b with BOp c => is_opcode c | BIf _ _ _ => false | _ => true end.

(* everything the round trip needs of a flat element *)
Definition leaf_good (b : bit) : bool := leaf_wf b && minimal_leaf b && not_coinbase b && not_numeric_push b.

Lemma hex_clean d : all_chars nws (hex_of_bytes d) = true.
Proof. apply all_chars_hex_of_bytes. apply forall_lt16; reflexivity. Qed.

Lemma render_clean b : leaf_good b = true -> clean (bit_asm false b) = true.
Proof.
  unfold leaf_good. intros H. split_andb.
  destruct b as [c|d|c d|c p q|d]; try discriminate.
  - cbn [bit_asm]. destruct (c =? OP_0)%N; [reflexivity|].
    cbn [leaf_wf] in *. match goal with H : is_opcode c = true |- _ => destruct (is_opcode_name c H) as [n Hn] end.
    unfold op_text. rewrite Hn. apply opcode_name_in in Hn.
    pose proof names_clean as T. rewrite forallb_forall in T. exact (T _ Hn).
  - cbn [bit_asm]. unfold clean. rewrite hex_clean, andb_true_r.
    match goal with H : minimal_leaf (BPush d) = true |- _ => cbn [minimal_leaf] in H end.
    destruct d; [cbn in *; discriminate | reflexivity].
  - cbn [bit_asm]. unfold clean. rewrite hex_clean, andb_true_r.
    match goal with H : minimal_leaf (BPushData c d) = true |- _ => cbn [minimal_leaf] in H end.
    destruct d; [cbn [length] in *; lia | reflexivity].
Qed.

Lemma alias_hex_none d : d <> [] -> numeric_looking d = false -> alias_of (hex_of_bytes d) = None.
Proof.
  intros Hd Hn. destruct (alias_of (hex_of_bytes d)) as [v|] eqn:E; [|reflexivity]. exfalso.
  pose proof (lookup_val_in _ _ _ E) as Hin.
  pose proof alias_short as T. rewrite forallb_forall in T. specialize (T _ Hin). cbn [fst] in T.
  apply Nat.leb_le in T. rewrite hex_of_bytes_length in T.
  destruct d as [|b [|b' d']]; [congruence | | cbn [length] in T; lia].
  clear T Hin Hd. destruct b; vm_compute in E; try discriminate; vm_compute in Hn; discriminate.
Qed.

Lemma name_hex_none d : opcode_of_name (hex_of_bytes d) = None.
Proof.
  destruct (opcode_of_name (hex_of_bytes d)) as [v|] eqn:E; [|reflexivity]. exfalso.
  pose proof (lookup_val_in _ _ _ E) as Hin.
  pose proof names_not_hex as T. rewrite forallb_forall in T. specialize (T _ Hin). cbn [fst] in T.
  rewrite bytes_of_hex_of_bytes in T. discriminate.
Qed.

Lemma map_token_clean u : all_chars nws u = true ->
  map_token u = match alias_of u with
                | Some c => Ok (BOp c)
                | None => match opcode_of_name u with
                          | Some c => Ok (BOp c)
                          | None => match bytes_of_hex u with Some d => Ok (push_bit d) | None => Err end
                          end
                end.
Proof. intros H. unfold map_token. rewrite (trim_clean u H). reflexivity. Qed.

Lemma map_token_render b : leaf_good b = true -> map_token (bit_asm false b) = Ok b.
Proof.
  intros Hg. pose proof (render_clean b Hg) as Hc. unfold clean in Hc. apply andb_true_iff in Hc. destruct Hc as [_ Hc].
  rewrite (map_token_clean _ Hc). clear Hc.
  unfold leaf_good in Hg. split_andb.
  destruct b as [c|d|c d|c p q|d]; try discriminate.
  - cbn [bit_asm]. destruct (c =? OP_0)%N eqn:Hz.
    + apply N.eqb_eq in Hz. subst c. reflexivity.
    + cbn [leaf_wf] in *. match goal with H : is_opcode c = true |- _ => destruct (is_opcode_name c H) as [n Hn] end.
      unfold op_text. rewrite Hn. apply opcode_name_in in Hn.
      pose proof names_not_alias as T1. rewrite forallb_forall in T1. specialize (T1 _ Hn). cbn [fst] in T1.
      destruct (alias_of n); [discriminate|].
      pose proof names_lookup as T2. rewrite forallb_forall in T2. specialize (T2 _ Hn). cbn [fst snd] in T2.
      destruct (opcode_of_name n) as [v|]; [|discriminate]. apply N.eqb_eq in T2. subst v. reflexivity.
  - cbn [bit_asm].
    match goal with H : minimal_leaf (BPush d) = true |- _ => cbn [minimal_leaf] in H; rename H into Hm end.
    match goal with H : not_numeric_push (BPush d) = true |- _ => cbn [not_numeric_push] in H; apply negb_true_iff in H; rename H into Hn end.
    rewrite alias_hex_none; [| destruct d; [cbn in Hm; discriminate | discriminate] | exact Hn].
    rewrite name_hex_none, bytes_of_hex_of_bytes.
    unfold push_bit, get_pushdata_opcode. replace (N.of_nat (length d) <=? 75)%N with true by lia. reflexivity.
  - cbn [bit_asm].
    match goal with H : minimal_leaf (BPushData c d) = true |- _ => cbn [minimal_leaf] in H; rename H into Hm end.
    rewrite alias_hex_none.
    + rewrite name_hex_none, bytes_of_hex_of_bytes.
      unfold push_bit, get_pushdata_opcode, OP_PUSHDATA1, OP_PUSHDATA2, OP_PUSHDATA4.
      set (n := N.of_nat (length d)) in *.
      destruct (n <=? 75)%N eqn:E1; [lia|].
      destruct (n <=? 255)%N eqn:E2; [replace c with 76%N by lia; reflexivity|].
      destruct (n <=? 65535)%N eqn:E3; [replace c with 77%N by lia; reflexivity|].
      replace c with 78%N by lia; reflexivity.
    + destruct d; [cbn [length] in Hm; lia | discriminate].
    + destruct d as [|b [|b' d']]; try reflexivity. cbn [length] in Hm. lia.
Qed.

Lemma map_tokens_render l : forallb leaf_good l = true -> map_tokens (map (bit_asm false) l) = Ok l.
Proof.
  induction l as [|b l IH]; [reflexivity|]. cbn [forallb map map_tokens]. intros H. apply andb_true_iff in H. destruct H as [Hb Hl].
  rewrite (map_token_render b Hb). cbn [bind]. rewrite (IH Hl). reflexivity.
Qed.

(* ================================================================== *)
(* 5. split_whitespace *)
Lemma ws_split_ne s : ws_split s <> [].
Proof. destruct s as [|c r]; cbn [ws_split]; [discriminate|]. destruct (is_ws c); [discriminate|]. destruct (ws_split r); discriminate. Qed.

Lemma ws_split_clean_app t y :
  all_chars nws t = true ->
  ws_split (t +++ y) = match ws_split y with h :: tl => (t +++ h) :: tl | [] => [t] end.
Proof.
  induction t as [|c t IH]; cbn [String.append all_chars]; intros H.
  - destruct (ws_split y) eqn:E; [exfalso; exact (ws_split_ne y E) | reflexivity].
  - apply andb_true_iff in H. destruct H as [Hc Ht]. cbn [ws_split].
    unfold nws in Hc. apply negb_true_iff in Hc. rewrite Hc, (IH Ht).
    destruct (ws_split y) eqn:E; [exfalso; exact (ws_split_ne y E) | reflexivity].
Qed.

Lemma asm_tokens_ws c y : is_ws c = true -> asm_tokens (String c y) = asm_tokens y.
Proof. intros H. unfold asm_tokens, split_whitespace. cbn [ws_split]. rewrite H. reflexivity. Qed.

Definition starts_ws (y : string) : Prop := match y with EmptyString => True | String c _ => is_ws c = true end.

Lemma asm_tokens_clean_app t y : clean t = true -> starts_ws y -> asm_tokens (t +++ y) = t :: asm_tokens y.
Proof.
  unfold clean. intros H Hy. apply andb_true_iff in H. destruct H as [Hne Hc].
  unfold asm_tokens, split_whitespace. rewrite (ws_split_clean_app t y Hc).
  destruct y as [|c y'].
  - cbn [ws_split filter]. rewrite sapp_nil_r. rewrite Hne. reflexivity.
  - cbn in Hy. cbn [ws_split]. rewrite Hy. cbn [filter is_empty negb]. rewrite sapp_nil_r, Hne. reflexivity.
Qed.

Lemma asm_tokens_join toks : forallb clean toks = true -> asm_tokens (join " " toks) = toks.
Proof.
  induction toks as [|t r IH]; [reflexivity|]. cbn [forallb]. intros H. apply andb_true_iff in H. destruct H as [Ht Hr].
  destruct r as [|t' r'].
  - cbn [join]. rewrite <- (sapp_nil_r t) at 1. rewrite asm_tokens_clean_app by (auto; exact I). reflexivity.
  - rewrite join_cons by discriminate.
    rewrite asm_tokens_clean_app by (auto; reflexivity).
    change (" " +++ join " " (t' :: r')) with (String " " (join " " (t' :: r'))).
    rewrite asm_tokens_ws by reflexivity. rewrite (IH Hr). reflexivity.
Qed.

(* `pad_ws` is defined in Spec/AsmSpec.v; `padded_ok` is `padded` over the model's `is_ws` *)
Fixpoint padded_ok (first : bool) (l : list (string * string)) : bool :=
  match l with
  | [] => true
  | (w, t) :: r => all_chars is_ws w && (first || negb (is_empty w)) && clean t && padded_ok false r
  end.

Lemma asm_tokens_ws_app w y : all_chars is_ws w = true -> asm_tokens (w +++ y) = asm_tokens y.
Proof.
  induction w as [|c w IH]; [reflexivity|]. cbn [all_chars String.append]. intros H. apply andb_true_iff in H. destruct H as [Hc Hw].
  rewrite asm_tokens_ws by exact Hc. exact (IH Hw).
Qed.

Lemma pad_starts_ws l e : padded_ok false l = true -> all_chars is_ws e = true -> starts_ws (pad_ws l e).
Proof.
  destruct l as [|[w t] r]; cbn [pad_ws padded_ok]; intros H He.
  - destruct e as [|c e']; [exact I|]. cbn in *. apply andb_true_iff in He. tauto.
  - split_andb. destruct w as [|c w']; [discriminate|]. cbn in *. split_andb. assumption.
Qed.

Lemma asm_tokens_pad l e : forall first, padded_ok first l = true -> all_chars is_ws e = true ->
  asm_tokens (pad_ws l e) = map snd l.
Proof.
  induction l as [|[w t] r IH]; intros first H He.
  - cbn [pad_ws map]. rewrite <- (sapp_nil_r e). rewrite asm_tokens_ws_app by exact He. reflexivity.
  - cbn [pad_ws map snd]. cbn [padded_ok] in H. split_andb.
    rewrite asm_tokens_ws_app by assumption.
    rewrite asm_tokens_clean_app by (try assumption; apply pad_starts_ws; assumption).
    erewrite IH by eassumption. reflexivity.
Qed.

(* ================================================================== *)
(* 6. round trip *)

Lemma forallb_map {A B} (f : A -> B) (P : B -> bool) l : forallb P (map f l) = forallb (fun x => P (f x)) l.
Proof. induction l as [|x l IH]; cbn [map forallb]; [reflexivity | rewrite IH; reflexivity]. Qed.

Lemma forallb_impl {A} (P Q : A -> bool) l : (forall x, P x = true -> Q x = true) -> forallb P l = true -> forallb Q l = true.
Proof.
  intros H. induction l as [|x l IH]; cbn [forallb]; [reflexivity|]. intros E. apply andb_true_iff in E. destruct E as [E1 E2].
  rewrite (H x E1), (IH E2). reflexivity.
Qed.

Lemma clean_ne_render b : clean (bit_asm false b) = true -> ne_render false b = true.
Proof. unfold clean, ne_render. intros H. apply andb_true_iff in H. tauto. Qed.

Lemma roundtrip_flat s :
  canonical s = true -> forallb leaf_good (flats s) = true -> from_asm (to_asm false s) = Ok s.
Proof.
  intros Hc Hg.
  assert (Hcl : forallb (fun b => clean (bit_asm false b)) (flats s) = true)
    by (eapply forallb_impl; [apply render_clean | exact Hg]).
  assert (Hne : forallb (ne_render false) (flats s) = true)
    by (eapply forallb_impl; [apply clean_ne_render | exact Hcl]).
  rewrite (render_flat false s Top Hc Hne).
  unfold from_asm. rewrite asm_tokens_join by (rewrite forallb_map; exact Hcl).
  rewrite (map_tokens_render _ Hg). cbn [bind]. apply nest_top_unflatten. exact Hc.
Qed.

Lemma wf_bit_if c p q : wf_bit (BIf c p q) = is_if c && wf_bits p && match q with None => true | Some q' => wf_bits q' end.
Proof. reflexivity. Qed.

Lemma wf_leaves : forall s, wf_bits s = true -> forallb (all_leaves leaf_wf) s = true.
Proof.
  apply (bits_ind'
    (fun b => wf_bit b = true -> all_leaves leaf_wf b = true)
    (fun l => wf_bits l = true -> forallb (all_leaves leaf_wf) l = true)).
  - intros c H. exact H.
  - reflexivity.
  - reflexivity.
  - reflexivity.
  - intros c p IHp H. rewrite wf_bit_if in H. rewrite all_leaves_if. split_andb. rewrite IHp by assumption. reflexivity.
  - intros c p q IHp IHq H. rewrite wf_bit_if in H. rewrite all_leaves_if. split_andb. rewrite IHp, IHq by assumption. reflexivity.
  - reflexivity.
  - intros b l Hb Hl H. cbn [wf_bits] in H. cbn [forallb]. split_andb. rewrite Hb, Hl by assumption. reflexivity.
Qed.

Lemma is_if_opcode c : is_if c = true -> is_opcode c = true.
Proof.
  unfold is_if. intros H.
  assert (c = 99 \/ c = 100 \/ c = 101 \/ c = 102)%N as [-> | [-> | [-> | ->]]] by lia; vm_compute; reflexivity.
Qed.

Lemma leaf_good_flats s :
  canonical s = true -> forallb (all_leaves leaf_wf) s = true -> no_coinbase s = true -> minimal_pushes s = true ->
  ambiguous_numeric_push s = false -> forallb leaf_good (flats s) = true.
Proof.
  intros Hc Hw Hn Hm Ha. unfold ambiguous_numeric_push in Ha. apply negb_false_iff in Ha.
  assert (F1 : forallb leaf_wf (flats s) = true)
    by (apply (leaves_flats leaf_wf) with (m := Top); try assumption; [exact is_if_opcode | reflexivity | reflexivity]).
  assert (F2 : forallb not_coinbase (flats s) = true)
    by (apply (leaves_flats not_coinbase) with (m := Top); try assumption; reflexivity).
  assert (F3 : forallb minimal_leaf (flats s) = true)
    by (apply (leaves_flats minimal_leaf) with (m := Top); try assumption; reflexivity).
  assert (F4 : forallb not_numeric_push (flats s) = true)
    by (apply (leaves_flats not_numeric_push) with (m := Top); try assumption; reflexivity).
  rewrite forallb_forall in *. intros b Hb. unfold leaf_good.
  rewrite (F1 b Hb), (F2 b Hb), (F3 b Hb), (F4 b Hb). reflexivity.
Qed.

(* C17 (1): the tree itself comes back *)
Lemma asm_roundtrip_tree s :
  canonical s = true -> wf_bits s = true -> no_coinbase s = true -> minimal_pushes s = true ->
  ambiguous_numeric_push s = false -> from_asm (to_asm false s) = Ok s.
Proof.
  intros Hc Hw Hn Hm Ha. apply roundtrip_flat; [exact Hc|].
  apply leaf_good_flats; try assumption. apply wf_leaves; exact Hw.
Qed.

Lemma asm_roundtrip s :
  canonical s = true -> wf_bits s = true -> no_coinbase s = true -> minimal_pushes s = true ->
  ambiguous_numeric_push s = false ->
  exists s', from_asm (to_asm false s) = Ok s' /\ to_bytes s' = to_bytes s.
Proof. intros. exists s. split; [apply asm_roundtrip_tree; assumption | reflexivity]. Qed.

(* ------------------------------------------------------------------ *)
(* what from_bytes returns *)
Definition parsed_leaf (b : bit) : bool :=
  match b with
  | BOp c => is_opcode c
  | BPush d => (N.of_nat (length d) <=? 75)%N
  | BPushData c d => (c =? 76)%N || (c =? 77)%N || (c =? 78)%N
  | _ => false
  end.

Lemma tokenize_leaves : forall f bs ts, tokenize f bs = Ok ts -> forallb parsed_leaf ts = true.
Proof.
  induction f as [|f IH]; intros bs ts H; (destruct bs as [|b r]; [inv H; reflexivity|]); [discriminate|].
  cbn [tokenize] in H.
  destruct (negb (b2n b =? 0)%N && (b2n b <? 76)%N) eqn:Hd.
  - destruct (tokenize f _) as [rest| |] eqn:E; cbn [bind] in H; try discriminate. inv H.
    cbn [forallb parsed_leaf]. rewrite (IH _ _ E), andb_true_r.
    pose proof (firstn_le_length (N.to_nat (b2n b)) r). lia.
  - destruct (is_opcode (b2n b)) eqn:Hop; [|discriminate].
    destruct ((b2n b =? 76)%N || (b2n b =? 77)%N || (b2n b =? 78)%N) eqn:Hpd.
    + destruct (read_le _ r) as [[len r1]|]; [|discriminate].
      destruct (read_exactN _ r1) as [[d r2]|]; [|discriminate].
      destruct (tokenize f r2) as [rest| |] eqn:E; cbn [bind] in H; try discriminate. inv H.
      cbn [forallb parsed_leaf]. rewrite Hpd, (IH _ _ E). reflexivity.
    + destruct (tokenize f r) as [rest| |] eqn:E; cbn [bind] in H; try discriminate. inv H.
      cbn [forallb parsed_leaf]. rewrite Hop, (IH _ _ E). reflexivity.
Qed.

Lemma from_bytes_facts bs s :
  from_bytes bs = Ok s -> canonical s = true /\ forallb parsed_leaf (flats s) = true.
Proof.
  unfold from_bytes. intros H.
  destruct (tokenize (length bs) bs) as [ts| |] eqn:E; cbn [bind] in H; try discriminate.
  pose proof (tokenize_flat _ _ _ E) as Hfl.
  split; [exact (nest_top_canonical _ _ Hfl H)|].
  rewrite (nest_top_flats _ _ Hfl H). exact (tokenize_leaves _ _ _ E).
Qed.

Lemma parsed_leaf_wf b : parsed_leaf b = true -> leaf_wf b = true /\ not_coinbase b = true.
Proof. destruct b; cbn; intros H; try discriminate; auto. Qed.

(* C17 (1) for everything the byte parser returns *)
Lemma asm_roundtrip_parsed bs s :
  from_bytes bs = Ok s -> minimal_pushes s = true -> ambiguous_numeric_push s = false ->
  from_asm (to_asm false s) = Ok s.
Proof.
  intros H Hm Ha. destruct (from_bytes_facts bs s H) as [Hc Hp].
  apply roundtrip_flat; [exact Hc|].
  apply leaf_good_flats; try assumption.
  - apply flats_leaves. eapply forallb_impl; [|exact Hp]. intros b Hb. apply parsed_leaf_wf in Hb. tauto.
  - apply flats_leaves. eapply forallb_impl; [|exact Hp]. intros b Hb. apply parsed_leaf_wf in Hb. tauto.
Qed.


(* ------------------------------------------------------------------ *)
(* C17 (5): the class is a genuine failure *)
Lemma refuted_on_class :
  let s := [BPush [x11]] in
  from_bytes [x01; x11] = Ok s /\ canonical s = true /\ wf_bits s = true /\ no_coinbase s = true /\ minimal_pushes s = true /\
  ambiguous_numeric_push s = true /\ to_asm false s = "11" /\
  forall s', from_asm (to_asm false s) = Ok s' -> to_bytes s' <> to_bytes s.
Proof.
  cbv zeta. repeat split; try (vm_compute; reflexivity).
  intros s' H. vm_compute in H. inv H. vm_compute. discriminate.
Qed.

(* ================================================================== *)
(* 7. which tokens are accepted, and what they denote *)

Lemma alias_dec_alias u : alias_of u = dec_alias u.
Proof.
  destruct (alias_of u) as [c|] eqn:E.
  - apply lookup_val_in in E. cbn in E.
    repeat (destruct E as [E|E]; [inv E; reflexivity|]). contradiction.
  - destruct (dec_alias u) as [c|] eqn:D; [exfalso|reflexivity].
    unfold dec_alias in D.
    destruct (Nat.leb (slength u) 2); [|discriminate].
    destruct (N_of_dec u) as [k|]; [|discriminate].
    destruct (k <=? 16)%N eqn:K; [|discriminate].
    destruct (String.eqb (dec_of_N k) u) eqn:S; [|discriminate].
    apply String.eqb_eq in S. subst u. clear D.
    assert (k = 0 \/ k = 1 \/ k = 2 \/ k = 3 \/ k = 4 \/ k = 5 \/ k = 6 \/ k = 7 \/ k = 8 \/ k = 9 \/ k = 10 \/
            k = 11 \/ k = 12 \/ k = 13 \/ k = 14 \/ k = 15 \/ k = 16)%N as C by lia.
    repeat (destruct C as [->|C]; [vm_compute in E; discriminate|]). subst k. vm_compute in E. discriminate.
Qed.

Lemma map_token_no_panic t : map_token t <> Panic.
Proof.
  unfold map_token. destruct (alias_of (trim t)); [discriminate|].
  destruct (opcode_of_name (trim t)); [discriminate|]. destruct (bytes_of_hex (trim t)); discriminate.
Qed.

Lemma asm_accepts_exactly t : (exists b, map_token t = Ok b) <-> accepted_token (trim t).
Proof.
  unfold map_token, accepted_token. set (u := trim t). split.
  - intros [b H].
    destruct (alias_of u) as [c|] eqn:E1.
    { left. rewrite <- alias_names_ok. apply lookup_val_in in E1. apply (in_map fst) in E1. exact E1. }
    destruct (opcode_of_name u) as [c|] eqn:E2.
    { right; left. apply lookup_val_in in E2. apply (in_map fst) in E2. exact E2. }
    right; right. destruct (bytes_of_hex u) as [d|] eqn:E3; [|discriminate].
    unfold even_hex. apply bytes_of_hex_accepts. eauto.
  - intros [H | [H | H]].
    + rewrite <- alias_names_ok in H. apply lookup_val_complete in H. destruct H as [v H].
      unfold alias_of. rewrite H. eauto.
    + destruct (alias_of u); [eauto|].
      apply lookup_val_complete in H. destruct H as [v H]. unfold opcode_of_name. rewrite H. eauto.
    + destruct (alias_of u); [eauto|]. destruct (opcode_of_name u); [eauto|].
      unfold even_hex in H. apply bytes_of_hex_accepts in H. destruct H as [d H]. rewrite H. eauto.
Qed.

Lemma push_class_direct n : (n <= 75)%N -> push_class n = n.
Proof.
  intros H. unfold push_class, minimal_prefix. replace (n <=? 75)%N with true by lia.
  apply b2n_n2b. lia.
Qed.

Lemma tok_of_push_bit d : tok_of_bit (push_bit d) = TPush (push_class (N.of_nat (length d))) d.
Proof.
  unfold push_bit, get_pushdata_opcode, push_class, minimal_prefix, OP_PUSHDATA1, OP_PUSHDATA2, OP_PUSHDATA4.
  set (n := N.of_nat (length d)).
  destruct (n <=? 75)%N eqn:E1.
  - cbn [tok_of_bit]. fold n. rewrite b2n_n2b by lia. reflexivity.
  - destruct (n <=? 255)%N; [reflexivity|]. destruct (n <=? 65535)%N; reflexivity.
Qed.

(* every accepted token denotes what the specification says; every other token is rejected *)
Lemma asm_token_denotes t :
  match spec_token (trim t) with
  | Some tk => exists b, map_token t = Ok b /\ tok_of_bit b = tk
  | None => map_token t = Err
  end.
Proof.
  unfold map_token, spec_token. rewrite <- alias_dec_alias.
  destruct (alias_of (trim t)); [eauto|].
  destruct (opcode_of_name (trim t)); [eauto|].
  destruct (bytes_of_hex (trim t)) as [d|]; [|reflexivity].
  eexists; split; [reflexivity | apply tok_of_push_bit].
Qed.

(* ================================================================== *)
(* 8. whitespace *)
Lemma is_ws_ws_char c : is_ws c = ws_char c.
Proof. destruct c as [[] [] [] [] [] [] [] []]; reflexivity. Qed.

Lemma ws_split_pieces s : ws_split s = ws_pieces s.
Proof.
  induction s as [|c r IH]; [reflexivity|]. cbn [ws_split ws_pieces]. rewrite is_ws_ws_char, IH. reflexivity.
Qed.

(* the tokens the library reads are the maximal runs of non-whitespace characters *)
Lemma asm_tokens_spec s : asm_tokens s = ws_tokens s.
Proof.
  unfold asm_tokens, split_whitespace, ws_tokens. rewrite ws_split_pieces.
  apply filter_ext. intros [|c r]; reflexivity.
Qed.

Lemma padded_clean l : forall first, padded_ok first l = true -> forallb clean (map snd l) = true.
Proof.
  induction l as [|[w t] r IH]; intros first H; [reflexivity|].
  cbn [padded_ok] in H. cbn [map snd forallb]. split_andb.
  match goal with H : clean t = true |- _ => rewrite H end. eapply IH; eassumption.
Qed.

(* C17 (3): arbitrary whitespace before, between and after the tokens is the same as single spaces *)
Lemma whitespace_ignored l e :
  padded_ok true l = true -> all_chars is_ws e = true ->
  from_asm (pad_ws l e) = from_asm (join " " (map snd l)).
Proof.
  intros H He. unfold from_asm.
  rewrite (asm_tokens_pad l e true H He).
  rewrite (asm_tokens_join _ (padded_clean l true H)). reflexivity.
Qed.

(* ================================================================== *)
(* 9. the renderings of a parsed script, stated on the independent flat tokens *)

Lemma ext_render_ne b : parsed_leaf b = true -> ne_render true b = true.
Proof.
  unfold ne_render. destruct b as [c|d|c d|c p q|d]; cbn [parsed_leaf]; intros H; try discriminate.
  - cbn [bit_asm]. destruct (c =? OP_0)%N; [reflexivity|].
    destruct (is_opcode_name c H) as [n Hn]. unfold op_text. rewrite Hn. apply opcode_name_in in Hn.
    pose proof names_clean as T. rewrite forallb_forall in T. specialize (T _ Hn). unfold clean in T. cbn [fst] in T.
    apply andb_true_iff in T. tauto.
  - reflexivity.
  - cbn [bit_asm]. destruct (op_text c +++ " " +++ dec_of_N (N.of_nat (length d)) +++ " " +++ hex_of_bytes d) eqn:E; [|reflexivity].
    exfalso. revert E. apply sapp_cons_ne.
Qed.

Lemma ext_tok_render b : parsed_leaf b = true -> bit_asm true b = ext_tok (tok_of_bit b).
Proof.
  destruct b as [c|d|c d|c p q|d]; cbn [parsed_leaf]; intros H; try discriminate.
  - cbn [bit_asm tok_of_bit ext_tok]. destruct (c =? OP_0)%N eqn:E; [apply N.eqb_eq in E; subst c|]; reflexivity.
  - cbn [bit_asm tok_of_bit ext_tok]. unfold push_word. rewrite H. reflexivity.
  - cbn [bit_asm tok_of_bit ext_tok]. unfold push_word. replace (c <=? 75)%N with false by lia. reflexivity.
Qed.

Lemma tokenize_spec_flatten bs s ts :
  from_bytes bs = Ok s -> tokenize_spec bs = TokOk ts -> ts = flatten s.
Proof.
  intros H Ht.
  assert (Hn : truncated_tail bs = false) by (unfold truncated_tail; rewrite Ht; reflexivity).
  destruct (script_roundtrip bs s H Hn) as [_ E]. rewrite Ht in E. inv E. reflexivity.
Qed.

(* C17 (4): the extended rendering names, for every push, its opcode and its decimal length *)
Lemma extended_states_push bs s ts :
  from_bytes bs = Ok s -> tokenize_spec bs = TokOk ts -> to_asm true s = render_ext ts.
Proof.
  intros H Ht. rewrite (tokenize_spec_flatten bs s ts H Ht).
  destruct (from_bytes_facts bs s H) as [Hc Hp].
  rewrite (render_flat true s Top Hc) by (eapply forallb_impl; [apply ext_render_ne | exact Hp]).
  unfold render_ext, flatten. rewrite map_map. f_equal.
  apply map_ext_in. intros b Hb. apply ext_tok_render. rewrite forallb_forall in Hp. exact (Hp b Hb).
Qed.

Definition bit_data_nonempty (b : bit) : bool :=
  match b with BPush [] => false | BPushData _ [] => false | _ => true end.

Lemma plain_render_ne b : parsed_leaf b = true -> bit_data_nonempty b = true -> ne_render false b = true.
Proof.
  unfold ne_render. destruct b as [c|d|c d|c p q|d]; cbn [parsed_leaf]; intros H Hd; try discriminate.
  - cbn [bit_asm]. destruct (c =? OP_0)%N; [reflexivity|].
    destruct (is_opcode_name c H) as [n Hn]. unfold op_text. rewrite Hn. apply opcode_name_in in Hn.
    pose proof names_clean as T. rewrite forallb_forall in T. specialize (T _ Hn). unfold clean in T. cbn [fst] in T.
    apply andb_true_iff in T. tauto.
  - destruct d; [discriminate | reflexivity].
  - destruct d; [discriminate | reflexivity].
Qed.

Lemma plain_tok_render b : parsed_leaf b = true -> bit_asm false b = plain_tok (tok_of_bit b).
Proof. destruct b as [c|d|c d|c p q|d]; cbn [parsed_leaf]; intros H; try discriminate; reflexivity. Qed.

Lemma plain_rendering bs s ts :
  from_bytes bs = Ok s -> tokenize_spec bs = TokOk ts -> forallb bit_data_nonempty (flats s) = true ->
  to_asm false s = render_plain ts.
Proof.
  intros H Ht Hd. rewrite (tokenize_spec_flatten bs s ts H Ht).
  destruct (from_bytes_facts bs s H) as [Hc Hp].
  rewrite (render_flat false s Top Hc).
  - unfold render_plain, flatten. rewrite map_map. f_equal.
    apply map_ext_in. intros b Hb. apply plain_tok_render. rewrite forallb_forall in Hp. exact (Hp b Hb).
  - rewrite forallb_forall in *. intros b Hb. apply plain_render_ne; auto.
Qed.

(* ================================================================== *)
(* 10. totality: the text parser never panics *)
Lemma map_tokens_no_panic l : map_tokens l <> Panic.
Proof.
  induction l as [|t r IH]; cbn [map_tokens]; [discriminate|].
  pose proof (map_token_no_panic t). destruct (map_token t); cbn [bind]; try congruence.
  destruct (map_tokens r); cbn [bind]; congruence.
Qed.

Lemma nest_no_panic : forall f m ts, nest f m ts <> Panic.
Proof.
  induction f as [|f IH]; intros m ts; [discriminate|].
  cbn [nest]. destruct ts as [|x ts']; [destruct m; discriminate|].
  assert (Hplain : forall o, (do y <- nest f m ts'; let '(bs0, t0, r') := y in Ok (o :: bs0, t0, r')) <> Panic).
  { intros o. pose proof (IH m ts'). destruct (nest f m ts') as [[[bs' t'] r']| |]; cbn [bind]; congruence. }
  destruct x as [c|d|c d|c p q|d]; try apply Hplain.
  destruct (is_if c).
  - pose proof (IH Pass ts'). destruct (nest f Pass ts') as [[[p tp] r1]| |]; try congruence.
    destruct tp; try discriminate.
    + pose proof (IH Fail r1). destruct (nest f Fail r1) as [[[q tq] r2]| |]; try congruence.
      destruct tq; try discriminate.
      pose proof (IH m r2). destruct (nest f m r2) as [[[bs' t'] r']| |]; cbn [bind]; congruence.
    + pose proof (IH m r1). destruct (nest f m r1) as [[[bs' t'] r']| |]; cbn [bind]; congruence.
  - destruct m, (c =? OP_ELSE)%N, (c =? OP_ENDIF)%N; try discriminate; apply Hplain.
Qed.

Lemma from_asm_no_panic s : from_asm s <> Panic.
Proof.
  unfold from_asm. pose proof (map_tokens_no_panic (asm_tokens s)).
  destruct (map_tokens (asm_tokens s)) as [bits| |]; cbn [bind]; try congruence.
  unfold nest_top. pose proof (nest_no_panic (S (length bits)) Top bits).
  destruct (nest (S (length bits)) Top bits) as [[[b t] r]| |]; cbn [bind]; congruence.
Qed.

(* ================================================================== *)
(* 11. the statements in terms of the specification's own definitions *)
Lemma all_chars_ext (P Q : ascii -> bool) s : (forall c, P c = Q c) -> all_chars P s = all_chars Q s.
Proof. intros H. induction s as [|c r IH]; cbn [all_chars]; [reflexivity | rewrite H, IH; reflexivity]. Qed.

Lemma clean_token_clean t : clean_token t = clean t.
Proof.
  unfold clean_token, clean, nws. destruct t as [|c r]; [reflexivity|]. cbn [is_empty negb andb].
  apply all_chars_ext. intros x. rewrite is_ws_ws_char. reflexivity.
Qed.

Lemma padded_padded_ok l : forall first, padded first l = padded_ok first l.
Proof.
  induction l as [|[w t] r IH]; intros first; [reflexivity|]. cbn [padded padded_ok].
  rewrite IH, clean_token_clean, (all_chars_ext ws_char is_ws) by (intros; symmetry; apply is_ws_ws_char).
  destruct w; reflexivity.
Qed.

Lemma whitespace_ignored_spec l e :
  padded true l = true -> all_chars ws_char e = true ->
  from_asm (pad_ws l e) = from_asm (join " " (map snd l)).
Proof.
  intros H He. apply whitespace_ignored.
  - rewrite <- padded_padded_ok. exact H.
  - rewrite (all_chars_ext is_ws ws_char) by apply is_ws_ws_char. exact He.
Qed.

Lemma plain_rendering_spec bs s ts :
  from_bytes bs = Ok s -> tokenize_spec bs = TokOk ts -> forallb data_nonempty ts = true ->
  to_asm false s = render_plain ts.
Proof.
  intros H Ht Hd. apply (plain_rendering bs s ts H Ht).
  rewrite (tokenize_spec_flatten bs s ts H Ht) in Hd. unfold flatten in Hd. rewrite forallb_map in Hd.
  eapply forallb_impl; [|exact Hd]. intros b. destruct b as [c|d|c d|c p q|d]; cbn; try reflexivity.
  - destruct d; auto.
  - destruct d; auto.
Qed.

Lemma from_bytes_canonical bs s : from_bytes bs = Ok s -> canonical s = true /\ no_coinbase s = true.
Proof.
  intros H. destruct (from_bytes_facts bs s H) as [Hc Hp]. split; [exact Hc|].
  apply flats_leaves. eapply forallb_impl; [|exact Hp]. intros b Hb. apply parsed_leaf_wf in Hb. tauto.
Qed.

Lemma opcode_names_not_hex n c : In (n, c) opcode_table -> bytes_of_hex n = None.
Proof.
  intros H. pose proof names_not_hex as T. rewrite forallb_forall in T. specialize (T _ H). cbn [fst] in T.
  destruct (bytes_of_hex n); [discriminate | reflexivity].
Qed.
