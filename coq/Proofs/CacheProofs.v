(* Proofs/CacheProofs.v — C04: the memoised sub-hashes never go stale; the cached preimage computation
   equals the uncached one on the current contents after any history. *)
From BSV Require Import Base.Hex Model.Opcodes Model.Script Model.VarInt Model.Tx Model.Sighash Model.Cache.
Local Open Scope list_scope.

Section C04.
  Variable H : bytes -> bytes.

  (* each slot is absent or holds the hash of the current inputs / sequences / outputs *)
  Definition slot_ok (o : option bytes) (h : bytes) : Prop :=
    match o with None => True | Some x => x = h end.
  Definition Inv (s : state) : Prop :=
    slot_ok (c_inputs (st_cache s)) (H (outpoints_bytes (st_tx s))) /\
    slot_ok (c_sequence (st_cache s)) (H (sequences_bytes (st_tx s))) /\
    slot_ok (c_outputs (st_cache s)) (H (outputs_bytes (st_tx s))).

  Ltac fin := cbn [fst snd]; (split; [|split]); (assumption || reflexivity).

  Lemma inv_unfold s :
    Inv s <->
    (match c_inputs (st_cache s) with None => True | Some x => x = H (outpoints_bytes (st_tx s)) end /\
     match c_sequence (st_cache s) with None => True | Some x => x = H (sequences_bytes (st_tx s)) end /\
     match c_outputs (st_cache s) with None => True | Some x => x = H (outputs_bytes (st_tx s)) end).
  Proof. reflexivity. Qed.

  Lemma inv_init t : Inv (fresh t).
  Proof. repeat split. Qed.

  (* ---------------------------------------------------------------- *)
  (* the three memoised functions *)
  Lemma hash_inputs_c_ok s f :
    Inv s ->
    snd (hash_inputs_c H s f) = hash_inputs H (st_tx s) f /\
    st_tx (fst (hash_inputs_c H s f)) = st_tx s /\ Inv (fst (hash_inputs_c H s f)).
  Proof.
    intros I. pose proof I as (I1 & I2 & I3). unfold hash_inputs_c, hash_inputs.
    destruct (hash_inputs_zero f); [fin|].
    destruct (c_inputs (st_cache s)) as [x|] eqn:E; cbn [fst snd].
    - cbn [slot_ok] in I1. subst x. fin.
    - repeat split; cbn; (assumption || reflexivity).
  Qed.

  Lemma hash_sequence_c_ok s f :
    Inv s ->
    snd (hash_sequence_c H s f) = hash_sequence H (st_tx s) f /\
    st_tx (fst (hash_sequence_c H s f)) = st_tx s /\ Inv (fst (hash_sequence_c H s f)).
  Proof.
    intros I. pose proof I as (I1 & I2 & I3). unfold hash_sequence_c, hash_sequence.
    destruct (hash_sequence_hashed f); [|fin].
    destruct (c_sequence (st_cache s)) as [x|] eqn:E; cbn [fst snd].
    - cbn [slot_ok] in I2. subst x. fin.
    - repeat split; cbn; (assumption || reflexivity).
  Qed.

  Lemma hash_outputs_c_ok s f idx :
    Inv s ->
    snd (hash_outputs_c H s f idx) = hash_outputs H (st_tx s) f idx /\
    st_tx (fst (hash_outputs_c H s f idx)) = st_tx s /\ Inv (fst (hash_outputs_c H s f idx)).
  Proof.
    intros I. pose proof I as (I1 & I2 & I3). unfold hash_outputs_c, hash_outputs.
    destruct (hash_outputs_single f); [fin|].
    destruct (hash_outputs_all f); [|fin].
    destruct (c_outputs (st_cache s)) as [x|] eqn:E; cbn [fst snd].
    - cbn [slot_ok] in I3. subst x. fin.
    - repeat split; cbn; (assumption || reflexivity).
  Qed.

  (* ---------------------------------------------------------------- *)
  (* the cached preimage: same answer as the uncached computation, contents untouched, invariant kept *)
  Lemma sighash_cached_ok s idx f sub v :
    Inv s ->
    snd (sighash_cached H s idx f sub v) = sighash_preimage H (st_tx s) idx f sub v /\
    st_tx (fst (sighash_cached H s idx f sub v)) = st_tx s /\
    Inv (fst (sighash_cached H s idx f sub v)).
  Proof.
    intros I. unfold sighash_cached, sighash_preimage.
    destruct (is_forkid_variant f); [|fin].
    unfold sighash_bip143_c, sighash_bip143.
    destruct (nth_error (inputs (st_tx s)) idx) as [input|]; [|fin].
    destruct (hash_outputs_c_ok s f idx I) as (O1 & O2 & O3).
    destruct (hash_outputs_c H s f idx) as [s1 ho]. cbn [fst snd] in O1, O2, O3.
    rewrite <- O1. destruct ho as [hashed| |]; cbn [bind]; [|fin|fin].
    destruct (hash_inputs_c_ok s1 f O3) as (A1 & A2 & A3).
    destruct (hash_inputs_c H s1 f) as [s2 hi]. cbn [fst snd] in A1, A2, A3.
    destruct (hash_sequence_c_ok s2 f A3) as (B1 & B2 & B3).
    destruct (hash_sequence_c H s2 f) as [s3 hs]. cbn [fst snd] in B1, B2, B3.
    cbn [fst snd]. rewrite A1, B1, A2, O2. split; [reflexivity|]. split; [congruence | exact B3].
  Qed.

  Lemma history_independent s idx f sub v :
    Inv s -> snd (sighash_cached H s idx f sub v) = sighash_preimage H (st_tx s) idx f sub v.
  Proof. intros I. apply (sighash_cached_ok s idx f sub v I). Qed.

  (* ---------------------------------------------------------------- *)
  (* every operation keeps the invariant and acts on the contents like the cache-free semantics *)
  Lemma clear_in_inv s t' : outputs t' = outputs (st_tx s) -> Inv s -> Inv (clear_in s t').
  Proof.
    intros E (I1 & I2 & I3). unfold clear_in, Inv; cbn [st_tx st_cache c_inputs c_sequence c_outputs slot_ok].
    repeat split. unfold outputs_bytes in *. rewrite E. exact I3.
  Qed.
  Lemma clear_out_inv s t' : inputs t' = inputs (st_tx s) -> Inv s -> Inv (clear_out s t').
  Proof.
    intros E (I1 & I2 & I3). unfold clear_out, Inv; cbn [st_tx st_cache c_inputs c_sequence c_outputs slot_ok].
    unfold outpoints_bytes, sequences_bytes in *. rewrite E. repeat split; assumption.
  Qed.
  Lemma keep_inv s t' :
    inputs t' = inputs (st_tx s) -> outputs t' = outputs (st_tx s) -> Inv s -> Inv (keep s t').
  Proof.
    intros E1 E2 (I1 & I2 & I3). unfold keep, Inv; cbn [st_tx st_cache].
    unfold outpoints_bytes, sequences_bytes, outputs_bytes in *. rewrite E1, E2. repeat split; assumption.
  Qed.

  (* add_inputs / add_outputs: one add_input / add_output per element *)
  Lemma fold_add_inputs_ok l : forall s,
    Inv s ->
    Inv (fold_left (fun s0 i => clear_in s0 (add_input (st_tx s0) i)) l s) /\
    st_tx (fold_left (fun s0 i => clear_in s0 (add_input (st_tx s0) i)) l s) = fold_left add_input l (st_tx s).
  Proof.
    induction l as [|i l IH]; intros s I; cbn [fold_left]; [split; [exact I|reflexivity]|].
    apply (IH (clear_in s (add_input (st_tx s) i))). apply clear_in_inv; [reflexivity|exact I].
  Qed.
  Lemma fold_add_outputs_ok l : forall s,
    Inv s ->
    Inv (fold_left (fun s0 x => clear_out s0 (add_output (st_tx s0) x)) l s) /\
    st_tx (fold_left (fun s0 x => clear_out s0 (add_output (st_tx s0) x)) l s) = fold_left add_output l (st_tx s).
  Proof.
    induction l as [|x l IH]; intros s I; cbn [fold_left]; [split; [exact I|reflexivity]|].
    apply (IH (clear_out s (add_output (st_tx s) x))). apply clear_out_inv; [reflexivity|exact I].
  Qed.

  Lemma step_ok s o s' out :
    Inv s -> step H s o = Ok (s', out) ->
    Inv s' /\ step_pure H (st_tx s) o = Ok (st_tx s', out).
  Proof.
    intros I E. unfold step, step_gen in E. unfold step_pure.
    destruct o as [i|i|k i|k i|x|x|k x|k x|v|v| |f idx sub value|li|lo|hf|f idx sub value| ].
    - inversion E; subst. split; [apply clear_in_inv; [reflexivity|exact I] | reflexivity].
    - inversion E; subst. split; [apply clear_in_inv; [reflexivity|exact I] | reflexivity].
    - destruct (vec_insert k i (inputs (st_tx s))) as [l| |]; cbn [bind] in E |- *; try discriminate.
      inversion E; subst. split; [apply clear_in_inv; [reflexivity|exact I] | reflexivity].
    - destruct (vec_set k i (inputs (st_tx s))) as [l| |]; cbn [bind] in E |- *; try discriminate.
      inversion E; subst. split; [apply clear_in_inv; [reflexivity|exact I] | reflexivity].
    - inversion E; subst. split; [apply clear_out_inv; [reflexivity|exact I] | reflexivity].
    - inversion E; subst. split; [apply clear_out_inv; [reflexivity|exact I] | reflexivity].
    - destruct (vec_insert k x (outputs (st_tx s))) as [l| |]; cbn [bind] in E |- *; try discriminate.
      inversion E; subst. split; [apply clear_out_inv; [reflexivity|exact I] | reflexivity].
    - destruct (vec_set k x (outputs (st_tx s))) as [l| |]; cbn [bind] in E |- *; try discriminate.
      inversion E; subst. split; [apply clear_out_inv; [reflexivity|exact I] | reflexivity].
    - inversion E; subst. split; [apply keep_inv; [reflexivity|reflexivity|exact I] | reflexivity].
    - inversion E; subst. split; [apply keep_inv; [reflexivity|reflexivity|exact I] | reflexivity].
    - inversion E; subst. split; [exact I | reflexivity].
    - destruct (sighash_cached_ok s idx f sub value I) as (C1 & C2 & C3).
      destruct (sighash_cached H s idx f sub value) as [s1 r]. cbn [fst snd] in C1, C2, C3.
      rewrite <- C1.
      destruct r as [p| |]; try discriminate; inversion E; subst; (split; [exact C3 | rewrite C2; reflexivity]).
    - inversion E; subst. destruct (fold_add_inputs_ok li s I) as (F1 & F2). split; [exact F1 | rewrite F2; reflexivity].
    - inversion E; subst. destruct (fold_add_outputs_ok lo s I) as (F1 & F2). split; [exact F1 | rewrite F2; reflexivity].
    - destruct (hash_inputs_c_ok s hf I) as (A1 & A2 & A3).
      destruct (hash_inputs_c H s hf) as [s1 h]. cbn [fst snd] in A1, A2, A3.
      inversion E; subst. split; [exact A3 | rewrite A2; reflexivity].
    - destruct (sighash_cached_ok s idx f sub value I) as (C1 & C2 & C3).
      destruct (sighash_cached H s idx f sub value) as [s1 r]. cbn [fst snd] in C1, C2, C3.
      rewrite <- C1.
      destruct r as [p| |]; try discriminate; inversion E; subst; (split; [exact C3 | rewrite C2; reflexivity]).
    - inversion E; subst. split; [exact I | reflexivity].
  Qed.

  Lemma step_is_pure s o s' out :
    Inv s -> step H s o = Ok (s', out) -> step_pure H (st_tx s) o = Ok (st_tx s', out).
  Proof. intros I E. apply (step_ok s o s' out I E). Qed.

  Lemma inv_step s o s' out : Inv s -> step H s o = Ok (s', out) -> Inv s'.
  Proof. intros I E. apply (step_ok s o s' out I E). Qed.

  (* a panicking step panics in the cache-free semantics too (and conversely): misuse is misuse *)
  Lemma step_panic s o : Inv s -> step H s o = Panic -> step_pure H (st_tx s) o = Panic.
  Proof.
    intros I E. unfold step, step_gen in E. unfold step_pure.
    destruct o as [i|i|k i|k i|x|x|k x|k x|v|v| |f idx sub value|li|lo|hf|f idx sub value| ]; try discriminate.
    - destruct (vec_insert k i (inputs (st_tx s))); cbn [bind] in *; try discriminate; reflexivity.
    - destruct (vec_set k i (inputs (st_tx s))); cbn [bind] in *; try discriminate; reflexivity.
    - destruct (vec_insert k x (outputs (st_tx s))); cbn [bind] in *; try discriminate; reflexivity.
    - destruct (vec_set k x (outputs (st_tx s))); cbn [bind] in *; try discriminate; reflexivity.
    - destruct (sighash_cached_ok s idx f sub value I) as (C1 & _ & _).
      destruct (sighash_cached H s idx f sub value) as [s1 r]. cbn [fst snd] in C1.
      rewrite <- C1. destruct r; try discriminate; reflexivity.
    - destruct (hash_inputs_c H s hf); discriminate.
    - destruct (sighash_cached_ok s idx f sub value I) as (C1 & _ & _).
      destruct (sighash_cached H s idx f sub value) as [s1 r]. cbn [fst snd] in C1.
      rewrite <- C1. destruct r; try discriminate; reflexivity.
  Qed.

  Lemma step_never_err s o : step H s o <> Err.
  Proof.
    unfold step, step_gen.
    destruct o as [i|i|k i|k i|x|x|k x|k x|v|v| |f idx sub value|li|lo|hf|f idx sub value| ]; try discriminate.
    - unfold vec_insert. destruct (Nat.ltb _ _); discriminate.
    - unfold vec_set. destruct (Nat.ltb _ _); discriminate.
    - unfold vec_insert. destruct (Nat.ltb _ _); discriminate.
    - unfold vec_set. destruct (Nat.ltb _ _); discriminate.
    - destruct (sighash_cached H s idx f sub value) as [s1 [p| |]]; discriminate.
    - destruct (hash_inputs_c H s hf); discriminate.
    - destruct (sighash_cached H s idx f sub value) as [s1 [p| |]]; discriminate.
  Qed.

  (* ---------------------------------------------------------------- *)
  (* histories of any length *)
  Lemma run_ok : forall ops s s' outs,
    Inv s -> run H ops s = Ok (s', outs) ->
    Inv s' /\ run_pure H ops (st_tx s) = Ok (st_tx s', outs).
  Proof.
    induction ops as [|o r IH]; intros s s' outs I E; cbn [run run_gen run_pure] in *.
    - inversion E; subst. split; [exact I | reflexivity].
    - fold (step H s o) in E. fold (run H r) in E.
      destruct (step H s o) as [[s1 out]| |] eqn:Es; cbn [bind] in E; try discriminate.
      destruct (step_ok s o s1 out I Es) as (I1 & P1). rewrite P1. cbn [bind].
      destruct (run H r s1) as [[s2 outs2]| |] eqn:Er; cbn [bind] in E; try discriminate.
      destruct (IH s1 s2 outs2 I1 Er) as (I2 & P2). rewrite P2. cbn [bind].
      inversion E; subst. split; [exact I2 | reflexivity].
  Qed.

  Lemma reachable_inv ops s s' outs : Inv s -> run H ops s = Ok (s', outs) -> Inv s'.
  Proof. intros I E. apply (run_ok ops s s' outs I E). Qed.

  (* what a whole history returns does not depend on the cache: it is what the cache-free semantics returns *)
  Lemma run_outputs_pure ops t s' outs :
    run H ops (fresh t) = Ok (s', outs) -> run_pure H ops t = Ok (st_tx s', outs).
  Proof. intros E. apply (run_ok ops (fresh t) s' outs (inv_init t) E). Qed.

  (* after any history, any sighash call answers like the uncached computation on the current contents *)
  Lemma after_history_uncached ops t s' outs idx f sub v :
    run H ops (fresh t) = Ok (s', outs) ->
    snd (sighash_cached H s' idx f sub v) = sighash_preimage H (st_tx s') idx f sub v.
  Proof. intros E. apply history_independent. apply (reachable_inv ops (fresh t) s' outs (inv_init t) E). Qed.

  (* ... and like the same call on a freshly parsed copy of the current serialisation; the serialise/parse
     round trip of the current contents (property C01) is a hypothesis *)
  Definition roundtrips (t : tx) : Prop := tx_from_bytes (tx_bytes t) = Ok t.

  Lemma equals_fresh_parse s idx f sub v :
    Inv s -> roundtrips (st_tx s) ->
    Ok (snd (sighash_cached H s idx f sub v)) =
      (do t' <- tx_from_bytes (tx_bytes (st_tx s)); Ok (snd (sighash_cached H (fresh t') idx f sub v))).
  Proof.
    intros I R. unfold roundtrips in R. rewrite R. cbn [bind].
    rewrite (history_independent s idx f sub v I).
    rewrite (history_independent (fresh (st_tx s)) idx f sub v (inv_init (st_tx s))). reflexivity.
  Qed.
End C04.
