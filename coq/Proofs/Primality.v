(* Primality certificates (Lucas / Pratt) over Z, standard library only.

   - Fermat's little theorem for [Znumtheory.prime] (multiplication by a is a permutation of 1..p-1);
   - exponents k with a^k = 1 (mod p) are closed under gcd;
   - Lucas' criterion with the fully factored N-1 (in the gcd form, so that it can be checked prime divisor
     by prime divisor of N);
   - an executable checker for a flat list of certificates (every prime factor used must have been certified
     earlier in the list, 2 being known), with its soundness theorem.

   Nothing here mentions secp256k1; the concrete certificates are in Proofs/SecpPrimes.v. *)
From Coq Require Import ZArith Znumtheory Zpow_facts List Lia Permutation Bool Wf_Z.
Import ListNotations.
Local Open Scope Z_scope.

(* ------------------------------------------------------------------ *)
(* products of lists                                                    *)
Definition zprod (l : list Z) : Z := fold_right Z.mul 1 l.

Lemma zprod_cons x l : zprod (x :: l) = x * zprod l.
Proof. reflexivity. Qed.

Lemma zprod_perm l l' : Permutation l l' -> zprod l = zprod l'.
Proof.
  induction 1 as [|x l l' _ IH|x y l|l l' l'' _ IH1 _ IH2]; rewrite ?zprod_cons.
  - reflexivity.
  - rewrite IH. reflexivity.
  - ring.
  - congruence.
Qed.

Lemma NoDup_map_inj_on {A B} (f : A -> B) (l : list A) :
  (forall x y, In x l -> In y l -> f x = f y -> x = y) -> NoDup l -> NoDup (map f l).
Proof.
  induction l as [|x l IH]; intros Hinj Hnd; cbn [map]; [constructor|].
  inversion Hnd as [|? ? Hnin Hnd']; subst. constructor.
  - intro Hin. apply in_map_iff in Hin. destruct Hin as (y & E & Hy).
    assert (y = x) by (apply Hinj; [right; exact Hy | left; reflexivity | exact E]).
    subst y. contradiction.
  - apply IH; [|exact Hnd']. intros a b Ha Hb. apply Hinj; right; assumption.
Qed.

(* ------------------------------------------------------------------ *)
(* Fermat's little theorem                                              *)
Section Fermat.
  Variable p : Z.
  Hypothesis Hp : prime p.
  Variable a : Z.
  Hypothesis Ha : ~ (p | a).

  Let p_ge_2 : 2 <= p := prime_ge_2 p Hp.
  Let L : list Z := map Z.of_nat (seq 1 (Z.to_nat (p - 1))).
  Let f (x : Z) : Z := (a * x) mod p.

  Lemma fermat_in_L x : In x L <-> 1 <= x < p.
  Proof.
    unfold L. rewrite in_map_iff. split.
    - intros (n & <- & Hn). apply in_seq in Hn. lia.
    - intros H. exists (Z.to_nat x). split; [lia|]. apply in_seq. lia.
  Qed.

  Lemma fermat_L_not_div x : In x L -> ~ (p | x).
  Proof.
    rewrite fermat_in_L. intros Hx D. apply Z.divide_pos_le in D; lia.
  Qed.

  Lemma fermat_L_nodup : NoDup L.
  Proof.
    unfold L. apply FinFun.Injective_map_NoDup; [|apply seq_NoDup].
    intros x y. apply Nat2Z.inj.
  Qed.

  Lemma fermat_f_in x : In x L -> In (f x) L.
  Proof.
    intros Hx. pose proof (fermat_L_not_div x Hx) as Hnd. apply fermat_in_L.
    unfold f. pose proof (Z.mod_pos_bound (a * x) p ltac:(lia)) as Hb.
    assert (Hne : (a * x) mod p <> 0).
    { intro E. apply Z.mod_divide in E; [|lia]. apply prime_mult in E; [|exact Hp].
      destruct E as [E|E]; [exact (Ha E) | exact (Hnd E)]. }
    lia.
  Qed.

  Lemma fermat_f_inj x y : In x L -> In y L -> f x = f y -> x = y.
  Proof.
    rewrite !fermat_in_L. unfold f. intros Hx Hy E.
    assert (D : (p | a * (x - y))).
    { apply Z.mod_divide; [lia|]. rewrite Z.mul_sub_distr_l, Zminus_mod, E, Z.sub_diag.
      apply Z.mod_0_l. lia. }
    apply prime_mult in D; [|exact Hp]. destruct D as [D|D]; [contradiction|].
    destruct (Z.eq_dec x y) as [|Hne]; [assumption|]. exfalso.
    destruct D as [k Hk]. assert (k = 0 \/ 1 <= k \/ k <= -1) as [Hk0|[Hk1|Hk1]] by lia; nia.
  Qed.

  Lemma fermat_perm : Permutation (map f L) L.
  Proof.
    apply NoDup_Permutation_bis.
    - apply NoDup_map_inj_on; [exact fermat_f_inj | exact fermat_L_nodup].
    - rewrite map_length. apply Nat.le_refl.
    - intros y Hy. apply in_map_iff in Hy. destruct Hy as (x & <- & Hx). apply fermat_f_in. exact Hx.
  Qed.

  Lemma zprod_map_f l : zprod (map f l) mod p = (a ^ Z.of_nat (length l) * zprod l) mod p.
  Proof.
    induction l as [|x l IH]; cbn [map length].
    - reflexivity.
    - rewrite !zprod_cons, Nat2Z.inj_succ, Z.pow_succ_r by lia. unfold f at 1.
      rewrite Z.mul_mod_idemp_l by lia.
      rewrite <- (Z.mul_mod_idemp_r (a * x)) by lia. rewrite IH.
      rewrite Z.mul_mod_idemp_r by lia. f_equal. ring.
  Qed.

  Lemma zprod_not_div l : (forall x, In x l -> ~ (p | x)) -> ~ (p | zprod l).
  Proof.
    induction l as [|x l IH]; intros H D.
    - change (zprod []) with 1 in D. apply Z.divide_1_r in D. lia.
    - rewrite zprod_cons in D. apply prime_mult in D; [|exact Hp]. destruct D as [D|D].
      + exact (H x (or_introl eq_refl) D).
      + apply IH; [|exact D]. intros y Hy. apply H. right. exact Hy.
  Qed.

  Theorem fermat_little : a ^ (p - 1) mod p = 1.
  Proof.
    pose proof (zprod_map_f L) as E.
    rewrite (zprod_perm _ _ fermat_perm) in E.
    assert (Hlen : Z.of_nat (length L) = p - 1).
    { unfold L. rewrite map_length, seq_length. lia. }
    rewrite Hlen in E.
    set (P := zprod L) in *. set (X := a ^ (p - 1)) in *.
    assert (D : (p | (X - 1) * P)).
    { apply Z.mod_divide; [lia|]. rewrite Z.mul_sub_distr_r, Z.mul_1_l, Zminus_mod, <- E, Z.sub_diag.
      apply Z.mod_0_l. lia. }
    apply prime_mult in D; [|exact Hp]. destruct D as [D|D].
    - destruct D as [k Hk]. replace X with (1 + k * p) by lia.
      rewrite Z_mod_plus_full. apply Z.mod_1_l. lia.
    - exfalso. revert D. apply zprod_not_div. exact fermat_L_not_div.
  Qed.
End Fermat.

(* ------------------------------------------------------------------ *)
(* every N > 1 has a prime divisor                                      *)
Lemma prime_divisor N : 1 < N -> exists p, prime p /\ (p | N).
Proof.
  intros H. assert (H0 : 0 <= N) by lia. revert H. pattern N. apply Z_lt_induction; [|exact H0].
  clear N H0. intros N IH H1.
  destruct (prime_dec N) as [HpN|Hnp].
  - exists N. split; [assumption | apply Z.divide_refl].
  - destruct (not_prime_divide N H1 Hnp) as (d & Hd & Hdiv).
    destruct (IH d ltac:(lia) ltac:(lia)) as (q & Hq & Hqd).
    exists q. split; [exact Hq | eapply Z.divide_trans; eassumption].
Qed.

(* ------------------------------------------------------------------ *)
(* exponents at which a is 1 modulo m                                   *)
Section Order.
  Variables m a : Z.
  Hypothesis m_gt1 : 1 < m.

  Definition one_at (k : Z) : Prop := a ^ k mod m = 1.

  Lemma one_at_mul n k : 0 <= n -> 0 <= k -> one_at n -> one_at (n * k).
  Proof.
    unfold one_at. intros Hn Hk H. rewrite Z.pow_mul_r by assumption.
    rewrite Zpower_mod by lia. rewrite H, Z.pow_1_l by assumption. apply Z.mod_1_l. exact m_gt1.
  Qed.

  Lemma one_at_mod k n : 0 <= k -> 0 < n -> one_at k -> one_at n -> one_at (k mod n).
  Proof.
    intros Hk Hn H1 H2. unfold one_at in *.
    pose proof (Z.mod_pos_bound k n Hn) as Hb.
    assert (Hq : 0 <= k / n) by (apply Z.div_pos; lia).
    assert (E : k = n * (k / n) + k mod n) by (apply Z.div_mod; lia).
    rewrite E in H1. rewrite Z.pow_add_r in H1 by nia.
    rewrite Z.mul_mod in H1 by lia.
    rewrite (one_at_mul n (k / n) ltac:(lia) Hq H2) in H1.
    rewrite Z.mul_1_l, Z.mod_mod in H1 by lia. exact H1.
  Qed.

  Lemma one_at_gcd : forall n, 0 <= n -> forall k, 0 <= k -> one_at k -> one_at n -> one_at (Z.gcd k n).
  Proof.
    intros n Hn. pattern n. apply Z_lt_induction; [|exact Hn]. clear n Hn.
    intros n IH k Hk H1 H2.
    destruct (Z.eq_dec n 0) as [->|Hne].
    - rewrite Z.gcd_0_r, Z.abs_eq by assumption. exact H1.
    - assert (Hn : 0 <= n).
      { destruct (Z_lt_le_dec n 0) as [Hneg|]; [|assumption]. exfalso.
        unfold one_at in H2. rewrite Z.pow_neg_r in H2 by assumption. rewrite Z.mod_0_l in H2 by lia. lia. }
      pose proof (Z.mod_pos_bound k n ltac:(lia)) as Hb.
      rewrite Z.gcd_comm, <- Z.gcd_mod by assumption. rewrite Z.gcd_comm.
      apply IH; [lia | lia | exact H2 |]. apply one_at_mod; [assumption | lia | assumption | assumption].
  Qed.
End Order.

(* ------------------------------------------------------------------ *)
(* divisibility lemmas                                                  *)
Lemma coprime_mul_divide a b g : (a | g) -> (b | g) -> rel_prime a b -> (a * b | g).
Proof.
  intros [k Hk] Hb Hr. subst g.
  assert (D : (b | k)).
  { apply Gauss with a; [rewrite Z.mul_comm; exact Hb | apply rel_prime_sym; exact Hr]. }
  destruct D as [k' ->]. exists k'. ring.
Qed.

(* if g divides M but not M/q, then g contains the full power of q that M contains *)
Lemma full_power_divides g M q e :
  prime q -> 0 <= e -> (g | M) -> (q ^ e | M) -> ~ (g | M / q) -> (q ^ e | g).
Proof.
  intros Hq He [c Hc] Hqe Hn.
  pose proof (prime_ge_2 q Hq) as Hq2.
  assert (Hqc : ~ (q | c)).
  { intros [c' Hc']. apply Hn. subst c M. exists c'.
    replace (c' * q * g) with (c' * g * q) by ring. apply Z.div_mul. lia. }
  apply Gauss with c; [rewrite <- Hc; exact Hqe|].
  apply rel_prime_sym. apply rel_prime_Zpower_r; [exact He|].
  apply rel_prime_sym. apply prime_rel_prime; assumption.
Qed.

(* ------------------------------------------------------------------ *)
(* factorisations as lists of (prime, exponent)                         *)
Definition ppow (qe : Z * positive) : Z := fst qe ^ Zpos (snd qe).
Definition fprod (fs : list (Z * positive)) : Z := zprod (map ppow fs).

Fixpoint distinct (l : list Z) : bool :=
  match l with
  | [] => true
  | q :: l' => forallb (fun x => negb (x =? q)) l' && distinct l'
  end.

Lemma rel_prime_fprod x fs :
  (forall qe, In qe fs -> rel_prime x (ppow qe)) -> rel_prime x (fprod fs).
Proof.
  induction fs as [|qe fs IH]; intros H.
  - apply rel_prime_sym, rel_prime_1.
  - unfold fprod. cbn [map]. rewrite zprod_cons. apply rel_prime_mult.
    + apply H. left. reflexivity.
    + apply IH. intros qe' Hin. apply H. right. exact Hin.
Qed.

Lemma fprod_divides fs g :
  Forall (fun qe => prime (fst qe)) fs -> distinct (map fst fs) = true ->
  (forall qe, In qe fs -> (ppow qe | g)) -> (fprod fs | g).
Proof.
  induction fs as [|[q e] fs IH]; intros Hpr Hd Hdiv.
  - apply Z.divide_1_l.
  - unfold fprod. cbn [map]. rewrite zprod_cons.
    inversion Hpr as [|? ? Hq Hpr']; subst. cbn [map fst distinct] in Hd.
    apply andb_true_iff in Hd. destruct Hd as [Hne Hd].
    apply coprime_mul_divide.
    + apply Hdiv. left. reflexivity.
    + apply IH; [exact Hpr' | exact Hd |]. intros qe Hin. apply Hdiv. right. exact Hin.
    + apply rel_prime_fprod. intros [q' e'] Hin. unfold ppow. cbn [fst snd].
      apply rel_prime_Zpower; [lia | lia |].
      assert (Hq' : prime q').
      { rewrite Forall_forall in Hpr'. exact (Hpr' (q', e') Hin). }
      assert (Hneq : q' <> q).
      { rewrite forallb_forall in Hne. specialize (Hne q' (in_map fst _ _ Hin)).
        apply negb_true_iff, Z.eqb_neq in Hne. exact Hne. }
      apply prime_rel_prime; [exact Hq|]. intro D. apply Hneq. symmetry.
      apply prime_div_prime; assumption.
Qed.

(* ------------------------------------------------------------------ *)
(* Lucas' criterion                                                     *)
Theorem lucas_criterion N a fs :
  1 < N -> N - 1 = fprod fs ->
  Forall (fun qe => prime (fst qe)) fs -> distinct (map fst fs) = true ->
  a ^ (N - 1) mod N = 1 ->
  (forall qe, In qe fs -> Z.gcd (a ^ ((N - 1) / fst qe) mod N - 1) N = 1) ->
  prime N.
Proof.
  intros HN Hfac Hpr Hd Ha Hq.
  destruct (prime_divisor N HN) as (p & Hp & HpN).
  pose proof (prime_ge_2 p Hp) as Hp2.
  assert (modp : forall x, (x mod N) mod p = x mod p).
  { intros x. symmetry. apply Zmod_div_mod; [lia | lia | exact HpN]. }
  assert (Ha_p : one_at p a (N - 1)).
  { unfold one_at. rewrite <- modp, Ha. apply Z.mod_1_l. lia. }
  assert (Hnd : ~ (p | a)).
  { intros [k Hk]. unfold one_at in Ha_p. subst a.
    replace (N - 1) with (Z.succ (N - 2)) in Ha_p by lia.
    rewrite Z.pow_succ_r in Ha_p by lia.
    replace (k * p * (k * p) ^ (N - 2)) with (k * (k * p) ^ (N - 2) * p) in Ha_p by ring.
    rewrite Z_mod_mult in Ha_p. lia. }
  assert (Hf_p : one_at p a (p - 1)) by (apply fermat_little; assumption).
  set (g := Z.gcd (N - 1) (p - 1)).
  assert (Hg : one_at p a g).
  { apply one_at_gcd; [lia | lia | lia | exact Ha_p | exact Hf_p]. }
  assert (Hg1 : (g | N - 1)) by apply Z.gcd_divide_l.
  assert (Hg2 : (g | p - 1)) by apply Z.gcd_divide_r.
  assert (Hg0 : 0 <= g) by apply Z.gcd_nonneg.
  assert (HF : (fprod fs | g)).
  { apply fprod_divides; [exact Hpr | exact Hd |]. intros [q e] Hin. unfold ppow. cbn [fst snd].
    assert (Hqp : prime q) by (rewrite Forall_forall in Hpr; exact (Hpr (q, e) Hin)).
    pose proof (prime_ge_2 q Hqp) as Hq2.
    assert (Hqe : (q ^ Zpos e | N - 1)).
    { rewrite Hfac. unfold fprod. clear - Hin. induction fs as [|x l IH]; [destruct Hin|].
      cbn [map]. rewrite zprod_cons. destruct Hin as [->|Hin].
      - unfold ppow. cbn [fst snd]. apply Z.divide_mul_l, Z.divide_refl.
      - apply Z.divide_mul_r, IH. exact Hin. }
    apply (full_power_divides g (N - 1) q (Zpos e)); [exact Hqp | lia | exact Hg1 | exact Hqe |].
    intros [c Hc].
    assert (Hdq : 0 <= (N - 1) / q) by (apply Z.div_pos; lia).
    assert (Hgpos : 0 < g).
    { destruct (Z.eq_dec g 0) as [E0|]; [|lia]. rewrite E0 in Hg1. apply Z.divide_0_l in Hg1. lia. }
    assert (Hc0 : 0 <= c) by nia.
    assert (H1 : one_at p a ((N - 1) / q)).
    { rewrite Hc, Z.mul_comm. apply one_at_mul; [lia | exact Hg0 | exact Hc0 | exact Hg]. }
    unfold one_at in H1.
    specialize (Hq (q, e) Hin). cbn [fst] in Hq.
    assert (Dp : (p | a ^ ((N - 1) / q) mod N - 1)).
    { apply Z.mod_divide; [lia|]. rewrite Zminus_mod, modp, H1.
      rewrite (Z.mod_1_l p) by lia. rewrite Z.sub_diag. apply Z.mod_0_l. lia. }
    assert (D1 : (p | 1)).
    { rewrite <- Hq. apply Z.gcd_greatest; [exact Dp | exact HpN]. }
    apply Z.divide_1_r in D1. lia. }
  rewrite <- Hfac in HF.
  assert (Hle : N - 1 <= p - 1).
  { apply Z.divide_pos_le; [lia|]. eapply Z.divide_trans; [exact HF | exact Hg2]. }
  assert (HpleN : p <= N) by (apply Z.divide_pos_le; [lia | exact HpN]).
  replace N with p by lia. exact Hp.
Qed.

(* ------------------------------------------------------------------ *)
(* executable checker                                                   *)
(* one certificate: the number, a witness, the factorisation of the number minus one *)
Definition entry : Type := (Z * Z * list (Z * positive))%type.
Definition entry_n (en : entry) : Z := fst (fst en).

Definition check_entry (known : list Z) (en : entry) : bool :=
  let '(n, a, fs) := en in
  (1 <? n) && (n - 1 =? fprod fs) && distinct (map fst fs)
  && forallb (fun qe => existsb (Z.eqb (fst qe)) known) fs
  && (Zpow_mod a (n - 1) n =? 1)
  && forallb (fun qe => Z.gcd (Zpow_mod a ((n - 1) / fst qe) n - 1) n =? 1) fs.

Fixpoint check_all (known : list Z) (es : list entry) : bool :=
  match es with
  | [] => true
  | en :: es' => check_entry known en && check_all (entry_n en :: known) es'
  end.

Lemma check_entry_sound known en :
  Forall prime known -> check_entry known en = true -> prime (entry_n en).
Proof.
  destruct en as [[n a] fs]. unfold check_entry, entry_n. cbn [fst].
  intros Hk H. repeat (apply andb_true_iff in H; let H2 := fresh "C" in destruct H as [H H2]).
  apply Z.ltb_lt in H. apply Z.eqb_eq in C3. apply Z.eqb_eq in C0.
  rewrite Zpow_mod_correct in C0 by lia.
  apply (lucas_criterion n a fs); [exact H | exact C3 | | exact C2 | exact C0 |].
  - rewrite Forall_forall. intros qe Hin. rewrite forallb_forall in C1. specialize (C1 qe Hin).
    apply existsb_exists in C1. destruct C1 as (x & Hx & E). apply Z.eqb_eq in E. subst x.
    rewrite Forall_forall in Hk. exact (Hk _ Hx).
  - intros qe Hin. rewrite forallb_forall in C. specialize (C qe Hin). apply Z.eqb_eq in C.
    rewrite Zpow_mod_correct in C by lia. exact C.
Qed.

Theorem check_all_sound es : forall known,
  Forall prime known -> check_all known es = true -> Forall prime (map entry_n es).
Proof.
  induction es as [|en es IH]; intros known Hk H; cbn [map]; [constructor|].
  cbn [check_all] in H. apply andb_true_iff in H. destruct H as [H1 H2].
  pose proof (check_entry_sound known en Hk H1) as Hp.
  constructor; [exact Hp|]. apply (IH (entry_n en :: known)); [constructor; assumption | exact H2].
Qed.

Corollary certified_prime es N :
  check_all [2] es = true -> In N (map entry_n es) -> prime N.
Proof.
  intros H Hin. pose proof (check_all_sound es [2] (Forall_cons _ prime_2 (Forall_nil _)) H) as Hall.
  rewrite Forall_forall in Hall. exact (Hall N Hin).
Qed.
