(* Proofs/HashApiProofs.v — C13: the repository's hash / HMAC / PBKDF2 wrappers (Model/HashApi.v)
   equal the compositions of the published algorithms (the Prim directory).                      *)
From BSV Require Import Base.Bytes Base.Hex Prim.MD Prim.Sha256 Prim.Sha512 Prim.Sha1 Prim.Ripemd160
     Prim.Hmac Prim.Pbkdf2 Spec.HashSpec Model.HashApi.

(* ------------------------------------------------------------------ *)
(* 1. one-shot functions                                               *)
Lemma sha_1_def m : sha_1 m = sha1 m.
Proof. reflexivity. Qed.
Lemma sha_256_def m : sha_256 m = sha256 m.
Proof. reflexivity. Qed.
Lemma sha_512_def m : sha_512 m = sha512 m.
Proof. reflexivity. Qed.
Lemma ripemd_160_def m : ripemd_160 m = ripemd160 m.
Proof. reflexivity. Qed.
Lemma sha_256d_def m : sha_256d m = sha256 (sha256 m).
Proof. reflexivity. Qed.
Lemma hash_160_def m : hash_160 m = ripemd160 (sha256 m).
Proof. reflexivity. Qed.

(* which published function each adapter / engine computes *)
Definition adapter_id (k : adapter_kind) : hash_id :=
  match k with ASha256d => HSha256d | ASha256r => HSha256 | AHash160 => HHash160 end.
Definition engine_id (k : engine_kind) : hash_id :=
  match k with ESha1 => HSha1 | ESha256 => HSha256 | ESha512 => HSha512 | ERipemd160 => HRipemd160 end.
Definition adapter_spec (k : adapter_kind) : bytes -> bytes := hash_spec (adapter_id k).

Lemma adapter_fn_spec k m : adapter_fn k m = adapter_spec k m.
Proof. destruct k; reflexivity. Qed.

(* ------------------------------------------------------------------ *)
(* 2. streaming adapters                                               *)
Lemma fold_update_engine chunks a :
  a_engine (fold_left ad_update chunks a) = a_engine a ++ List.concat chunks.
Proof.
  revert a; induction chunks as [|c r IH]; intros a; cbn [fold_left List.concat].
  - rewrite app_nil_r. reflexivity.
  - rewrite IH. cbn [ad_update a_engine]. rewrite app_assoc. reflexivity.
Qed.

Lemma fold_update_reverse chunks a :
  a_reverse (fold_left ad_update chunks a) = a_reverse a.
Proof.
  revert a; induction chunks as [|c r IH]; intros a; cbn [fold_left]; [reflexivity|].
  rewrite IH. reflexivity.
Qed.

(* however the input is split, finalize gives the function of the concatenation *)
Lemma adapter_chunking k chunks :
  ad_finalize k (fold_left ad_update chunks ad_new) = adapter_spec k (List.concat chunks).
Proof.
  unfold ad_finalize. rewrite fold_update_reverse, fold_update_engine, adapter_fn_spec. reflexivity.
Qed.

(* general form: any starting state, flag taken into account *)
Lemma adapter_chunking_from k chunks a :
  ad_finalize k (fold_left ad_update chunks a) =
  let h := adapter_spec k (a_engine a ++ List.concat chunks) in if a_reverse a then rev h else h.
Proof.
  unfold ad_finalize. rewrite fold_update_reverse, fold_update_engine, adapter_fn_spec. reflexivity.
Qed.

(* reverse() may be taken before or after feeding the data; the output is exactly the byte reversal *)
Lemma reverse_is_rev k chunks1 chunks2 :
  ad_finalize k (fold_left ad_update chunks2 (ad_reverse (fold_left ad_update chunks1 ad_new)))
  = rev (adapter_spec k (List.concat (chunks1 ++ chunks2))).
Proof.
  rewrite adapter_chunking_from. cbn [ad_reverse a_reverse a_engine].
  rewrite fold_update_engine, concat_app. reflexivity.
Qed.

Lemma reverse_idempotent a : ad_reverse (ad_reverse a) = ad_reverse a.
Proof. reflexivity. Qed.

(* reset forgets the absorbed data (and keeps the reverse flag) *)
Lemma reset_forgets k chunks a :
  ad_finalize k (fold_left ad_update chunks (ad_reset a)) =
  let h := adapter_spec k (List.concat chunks) in if a_reverse a then rev h else h.
Proof. rewrite adapter_chunking_from. reflexivity. Qed.

(* finalize_fixed_reset: the output of the current state, then a reset state *)
Lemma finalize_reset_spec k chunks :
  let '(out, a') := d_finalize_reset (adapter_impl k) (fold_left ad_update chunks ad_new) in
  out = adapter_spec k (List.concat chunks) /\ a' = ad_new.
Proof.
  cbn [d_finalize_reset adapter_impl d_finalize d_reset]. split.
  - apply adapter_chunking.
  - unfold ad_reset, ad_new. rewrite fold_update_reverse. reflexivity.
Qed.

(* get_hash_digest: what the signing code finalizes *)
Lemma get_hash_digest_sha256 m : ad_finalize ASha256r (get_hash_digest SHSha256 m) = sha256 m.
Proof. reflexivity. Qed.
Lemma get_hash_digest_sha256d m : ad_finalize ASha256r (get_hash_digest SHSha256d m) = sha256 (sha256 m).
Proof. reflexivity. Qed.
Lemma get_hash_digest_reversed algo m :
  ad_finalize ASha256r (ad_reverse (get_hash_digest algo m)) =
  rev (match algo with SHSha256 => sha256 m | SHSha256d => sha256 (sha256 m) end).
Proof. destruct algo; reflexivity. Qed.

(* ------------------------------------------------------------------ *)
(* 3. HMAC: the hmac crate's construction over a digest that satisfies the streaming law
      is RFC 2104 HMAC of the digest's function with the digest's block size.        *)
Definition streaming (D : digest_impl) (H : bytes -> bytes) : Prop :=
  forall chunks, d_finalize D (fold_left (d_update D) chunks (d_default D)) = H (List.concat chunks).

Lemma engine_streaming k : streaming (engine_impl k) (engine_fn k).
Proof.
  intros chunks. cbn [engine_impl d_finalize d_update d_default].
  assert (E : forall a, fold_left (fun e d => e ++ d) chunks a = a ++ List.concat chunks).
  { induction chunks as [|c r IH]; intros a; cbn [fold_left List.concat].
    - rewrite app_nil_r. reflexivity.
    - rewrite IH, app_assoc. reflexivity. }
  rewrite E. reflexivity.
Qed.

Lemma adapter_streaming k : streaming (adapter_impl k) (adapter_spec k).
Proof. intros chunks. apply adapter_chunking. Qed.

Lemma bxor_x00_r p : bxor p x00 = p.
Proof. unfold bxor. change (b2n x00) with 0%N. rewrite N.lxor_0_r. apply n2b_b2n. Qed.

Lemma bxor_x00_l p : bxor x00 p = p.
Proof. unfold bxor. change (b2n x00) with 0%N. rewrite N.lxor_0_l. apply n2b_b2n. Qed.

Lemma xor_in_place_pad p n k :
  length k <= n -> xor_in_place (repeat p n) k = xor_pad p (k ++ zeros (n - length k)).
Proof.
  revert k; induction n as [|n IH]; intros k Hk.
  - destruct k as [|x k]; [reflexivity | cbn [length] in Hk; lia].
  - destruct k as [|x k].
    + cbn [length app]. rewrite Nat.sub_0_r. cbn [repeat xor_in_place].
      unfold xor_pad, zeros. change (repeat x00 (S n)) with (x00 :: repeat x00 n).
      cbn [map]. rewrite bxor_x00_r. f_equal.
      clear. induction n as [|n IH]; [reflexivity|]. cbn [repeat map]. rewrite bxor_x00_r, <- IH. reflexivity.
    + cbn [length] in *. cbn [repeat xor_in_place app]. unfold xor_pad. cbn [map]. f_equal.
      replace (S n - S (length k)) with (n - length k) by lia.
      apply IH. lia.
Qed.

Section CrateHmac.
  Variable D : digest_impl.
  Variable H : bytes -> bytes.
  Hypothesis D_streaming : streaming D H.
  Hypothesis H_fits : forall x, length (H x) <= d_block D.

  Lemma D_one a : d_finalize D (d_update D (d_default D) a) = H a.
  Proof. rewrite <- (app_nil_r a) at 2. apply (D_streaming [a]). Qed.
  Lemma D_two a b : d_finalize D (d_update D (d_update D (d_default D) a) b) = H (a ++ b).
  Proof. pose proof (D_streaming [a; b]) as E. cbn [fold_left List.concat] in E. rewrite app_nil_r in E. exact E. Qed.
  Lemma D_three a b c :
    d_finalize D (d_update D (d_update D (d_update D (d_default D) a) b) c) = H (a ++ b ++ c).
  Proof. pose proof (D_streaming [a; b; c]) as E. cbn [fold_left List.concat] in E. rewrite app_nil_r in E. exact E. Qed.

  (* the key block the crate xors into ipad/opad is RFC 2104's padded key *)
  Lemma crate_key_pads p key :
    xor_in_place (repeat p (d_block D))
      (if Nat.leb (length key) (d_block D) then key
       else let output := d_finalize D (d_update D (d_default D) key) in
            firstn (Nat.min (length output) (d_block D)) output)
    = xor_pad p (hmac_key H (d_block D) key).
  Proof.
    unfold hmac_key. destruct (Nat.leb (length key) (d_block D)) eqn:E.
    - apply Nat.leb_le in E.
      replace (Nat.ltb (d_block D) (length key)) with false by (symmetry; apply Nat.ltb_ge; lia).
      apply xor_in_place_pad. exact E.
    - apply Nat.leb_gt in E.
      replace (Nat.ltb (d_block D) (length key)) with true by (symmetry; apply Nat.ltb_lt; lia).
      cbn zeta. rewrite D_one. pose proof (H_fits key) as Hf.
      rewrite Nat.min_l by exact Hf. rewrite firstn_all.
      apply xor_in_place_pad. exact Hf.
  Qed.

  Lemma crate_hmac_is_rfc2104 key msg :
    crate_hmac_finalize (crate_hmac_update (crate_hmac_new D key) msg) = hmac H (d_block D) key msg.
  Proof.
    unfold crate_hmac_finalize, crate_hmac_update, crate_hmac_new. cbn [hm_digest hm_opad_digest].
    rewrite !crate_key_pads. rewrite D_two, D_two. reflexivity.
  Qed.

  (* any chunking of the message *)
  Lemma crate_hmac_chunked key chunks :
    crate_hmac_finalize (fold_left crate_hmac_update chunks (crate_hmac_new D key))
    = hmac H (d_block D) key (List.concat chunks).
  Proof.
    assert (E : forall h, hm_opad_digest (fold_left crate_hmac_update chunks h) = hm_opad_digest h
                       /\ hm_digest (fold_left crate_hmac_update chunks h)
                          = fold_left (d_update D) chunks (hm_digest h)).
    { induction chunks as [|c r IH]; intros h; cbn [fold_left]; [split; reflexivity|].
      destruct (IH (crate_hmac_update h c)) as [E1 E2]. rewrite E1, E2. split; reflexivity. }
    unfold crate_hmac_finalize. destruct (E (crate_hmac_new D key)) as [E1 E2]. rewrite E1, E2.
    unfold crate_hmac_new. cbn [hm_digest hm_opad_digest]. rewrite !crate_key_pads.
    pose proof (D_streaming (xor_pad x36 (hmac_key H (d_block D) key) :: chunks)) as S1.
    cbn [fold_left List.concat] in S1. rewrite S1, D_two. reflexivity.
  Qed.

  Lemma crate_prf_is_hmac pw msg : crate_prf D pw msg = hmac H (d_block D) pw msg.
  Proof. apply crate_hmac_is_rfc2104. Qed.

  Lemma crate_prf2_is_hmac pw m1 m2 : crate_prf2 D pw m1 m2 = hmac H (d_block D) pw (m1 ++ m2).
  Proof.
    pose proof (crate_hmac_chunked pw [m1; m2]) as E. cbn [fold_left List.concat] in E.
    rewrite app_nil_r in E. exact E.
  Qed.
End CrateHmac.

Lemma engine_fn_spec k : engine_fn k = hash_spec (engine_id k).
Proof. destruct k; reflexivity. Qed.

Lemma engine_hmac_spec k key msg :
  crate_hmac_finalize (crate_hmac_update (crate_hmac_new (engine_impl k) key) msg) = hmac_spec (engine_id k) key msg.
Proof.
  unfold hmac_spec. rewrite <- engine_fn_spec.
  replace (hash_block (engine_id k)) with (d_block (engine_impl k)) by (destruct k; reflexivity).
  apply (crate_hmac_is_rfc2104 (engine_impl k) (engine_fn k) (engine_streaming k)).
  intros x. rewrite engine_fn_spec, hash_spec_length. destruct k; cbn; lia.
Qed.

Lemma adapter_hmac_spec k key msg :
  crate_hmac_finalize (crate_hmac_update (crate_hmac_new (adapter_impl k) key) msg) = hmac_spec (adapter_id k) key msg.
Proof.
  unfold hmac_spec.
  replace (hash_block (adapter_id k)) with (d_block (adapter_impl k)) by (destruct k; reflexivity).
  apply (crate_hmac_is_rfc2104 (adapter_impl k) (adapter_spec k) (adapter_streaming k)).
  intros x. unfold adapter_spec. rewrite hash_spec_length. destruct k; cbn; lia.
Qed.

(* the six public functions; note the argument order (input, key) of the API vs (key, msg) of RFC 2104 *)
Lemma sha_1_hmac_spec input key : sha_1_hmac input key = hmac_spec HSha1 key input.
Proof. apply (engine_hmac_spec ESha1). Qed.
Lemma sha_256_hmac_spec input key : sha_256_hmac input key = hmac_spec HSha256 key input.
Proof. apply (engine_hmac_spec ESha256). Qed.
Lemma sha_512_hmac_spec input key : sha_512_hmac input key = hmac_spec HSha512 key input.
Proof. apply (engine_hmac_spec ESha512). Qed.
Lemma ripemd_160_hmac_spec input key : ripemd_160_hmac input key = hmac_spec HRipemd160 key input.
Proof. apply (engine_hmac_spec ERipemd160). Qed.
(* composite digests: HMAC over the *composite* function with the adapter's block size (64);
   keys longer than 64 bytes are replaced by sha256d(key) / hash160(key)                    *)
Lemma sha_256d_hmac_spec input key : sha_256d_hmac input key = hmac_spec HSha256d key input.
Proof. apply (adapter_hmac_spec ASha256d). Qed.
Lemma hash_160_hmac_spec input key : hash_160_hmac input key = hmac_spec HHash160 key input.
Proof. apply (adapter_hmac_spec AHash160). Qed.
(* HMAC over the Sha256r adapter (what RFC 6979 nonce generation is instantiated with) is HMAC-SHA256 *)
Lemma sha256r_hmac_spec key msg :
  crate_hmac_finalize (crate_hmac_update (crate_hmac_new (adapter_impl ASha256r) key) msg) = hmac_sha256 key msg.
Proof. apply (adapter_hmac_spec ASha256r). Qed.
(* the same functions under their Prim names *)
Lemma hmac_spec_sha1 : hmac_spec HSha1 = hmac_sha1. Proof. reflexivity. Qed.
Lemma hmac_spec_sha256 : hmac_spec HSha256 = hmac_sha256. Proof. reflexivity. Qed.
Lemma hmac_spec_sha512 : hmac_spec HSha512 = hmac_sha512. Proof. reflexivity. Qed.
Lemma hmac_spec_ripemd160 : hmac_spec HRipemd160 = hmac_ripemd160. Proof. reflexivity. Qed.

(* ------------------------------------------------------------------ *)
(* 4. PBKDF2: the crate's chunk-wise in-place xor equals RFC 2898's block concatenation + truncation *)
Lemma xor_in_place_zeros n u : n <= length u -> xor_in_place (zeros n) u = firstn n u.
Proof.
  revert u; induction n as [|n IH]; intros u Hn.
  - destruct u; reflexivity.
  - destruct u as [|x u]; [cbn [length] in Hn; lia|]. cbn [length] in Hn.
    unfold zeros in *. cbn [repeat xor_in_place firstn]. rewrite bxor_x00_l, IH by lia. reflexivity.
Qed.

Lemma xor_in_place_firstn k a b :
  length a = length b -> xor_in_place (firstn k a) b = firstn k (xor_bytes a b).
Proof.
  revert a b; induction k as [|k IH]; intros a b Hl.
  - cbn [firstn]. destruct b; reflexivity.
  - destruct a as [|x a], b as [|y b]; cbn [length] in Hl; try discriminate; [reflexivity|].
    cbn [firstn xor_in_place xor_bytes]. rewrite IH by lia. reflexivity.
Qed.

Section CratePbkdf2Proof.
  Variable D : digest_impl.
  Variable H : bytes -> bytes.
  Variable n : nat.
  Hypothesis D_streaming : streaming D H.
  Hypothesis H_fits : forall x, length (H x) <= d_block D.
  Hypothesis H_length : forall x, length (H x) = n.
  Hypothesis n_pos : 0 < n.

  Let prf := hmac H (d_block D).

  Lemma prf_length k m : length (prf k m) = n.
  Proof. unfold prf. apply hmac_length, H_length. Qed.

  Lemma cr_body_spec pw salt rounds i cl :
    cl <= n -> cr_body D pw salt rounds i cl = firstn cl (pb_F prf pw salt rounds (i + 1)).
  Proof.
    intros Hcl. unfold cr_body, pb_F. cbn zeta.
    rewrite (crate_prf2_is_hmac D H D_streaming H_fits). fold prf.
    set (u1 := prf pw (salt ++ be_bytes 4 (i + 1))).
    assert (Hu1 : length u1 = n) by apply prf_length.
    rewrite xor_in_place_zeros by lia.
    assert (R : forall cnt,
               let s1 := N.iter cnt (cr_step D pw) (u1, firstn cl u1) in
               let s2 := N.iter cnt (pb_step prf pw) (u1, u1) in
               fst s1 = fst s2 /\ snd s1 = firstn cl (snd s2)
               /\ length (fst s2) = n /\ length (snd s2) = n).
    { intros cnt. induction cnt as [|cnt IH] using N.peano_ind.
      - cbn. auto.
      - cbn zeta in *. rewrite !N.iter_succ.
        destruct IH as (E1 & E2 & L1 & L2).
        set (s1 := N.iter cnt (cr_step D pw) (u1, firstn cl u1)) in *.
        set (s2 := N.iter cnt (pb_step prf pw) (u1, u1)) in *.
        unfold cr_step, pb_step. cbn [fst snd].
        rewrite (crate_prf_is_hmac D H D_streaming H_fits). fold prf. rewrite E1, E2.
        repeat split.
        + apply xor_in_place_firstn. rewrite L2, prf_length. reflexivity.
        + apply prf_length.
        + rewrite xor_bytes_length, L2, prf_length. apply Nat.min_id. }
    apply (R (rounds - 1)%N).
  Qed.

  Lemma cr_chunks_spec pw salt rounds fuel remaining i m :
    remaining <= fuel -> remaining <= m * n ->
    cr_chunks D n pw salt rounds fuel remaining i = firstn remaining (pb_T prf pw salt rounds m (i + 1)).
  Proof.
    revert remaining i m; induction fuel as [|f IH]; intros remaining i m Hf Hm.
    - assert (remaining = 0) by lia. subst. reflexivity.
    - cbn [cr_chunks]. destruct (Nat.eqb remaining 0) eqn:E0.
      + apply Nat.eqb_eq in E0. subst. reflexivity.
      + apply Nat.eqb_neq in E0.
        destruct m as [|m]; [lia|]. cbn [pb_T].
        rewrite firstn_app, (pb_F_length prf n prf_length).
        destruct (Nat.le_gt_cases remaining n) as [Hle|Hgt].
        * rewrite Nat.min_r by exact Hle. rewrite cr_body_spec by exact Hle.
          replace (remaining - n) with 0 by lia. replace (remaining - remaining) with 0 by lia.
          cbn [firstn]. f_equal.
          destruct f; cbn [cr_chunks]; reflexivity.
        * rewrite Nat.min_l by lia. rewrite cr_body_spec by lia.
          rewrite (firstn_all2 (n := remaining)) by (rewrite (pb_F_length prf n prf_length); lia).
          rewrite <- (pb_F_length prf n prf_length pw salt rounds (i + 1)%N) at 1. rewrite firstn_all.
          f_equal. rewrite (IH (remaining - n) (i + 1)%N m) by lia. reflexivity.
  Qed.

  Lemma crate_pbkdf2_is_rfc2898 pw salt rounds outlen :
    crate_pbkdf2 D n pw salt rounds outlen = pbkdf2 prf n pw salt rounds outlen.
  Proof.
    unfold crate_pbkdf2, pbkdf2. change 1%N with (0 + 1)%N.
    apply cr_chunks_spec; [lia | apply pb_blocks_enough; exact n_pos].
  Qed.
End CratePbkdf2Proof.

(* RFC 2898 with the HMAC of the selected hash *)
Definition pbkdf2_id (algo : pbkdf2_hashes) : hash_id :=
  match algo with PSHA1 => HSha1 | PSHA256 => HSha256 | PSHA512 => HSha512 end.

Lemma crate_pbkdf2_engine_spec algo pw salt rounds outlen :
  crate_pbkdf2 (engine_impl (pbkdf2_engine algo)) (pbkdf2_outsize algo) pw salt rounds outlen
  = pbkdf2_spec (pbkdf2_id algo) pw salt rounds outlen.
Proof.
  unfold pbkdf2_spec, hmac_spec.
  replace (hash_len (pbkdf2_id algo)) with (pbkdf2_outsize algo) by (destruct algo; reflexivity).
  replace (hash_block (pbkdf2_id algo)) with (d_block (engine_impl (pbkdf2_engine algo))) by (destruct algo; reflexivity).
  replace (hash_spec (pbkdf2_id algo)) with (engine_fn (pbkdf2_engine algo)) by (destruct algo; reflexivity).
  apply (crate_pbkdf2_is_rfc2898 (engine_impl (pbkdf2_engine algo)) (engine_fn (pbkdf2_engine algo))
           (pbkdf2_outsize algo) (engine_streaming (pbkdf2_engine algo))).
  - intros x. destruct algo; cbn [pbkdf2_engine engine_fn engine_impl d_block engine_block];
      rewrite ?sha1_length, ?sha256_length, ?sha512_length; lia.
  - intros x. destruct algo; cbn [pbkdf2_engine engine_fn pbkdf2_outsize];
      first [apply sha1_length | apply sha256_length | apply sha512_length].
  - destruct algo; cbn; lia.
Qed.

Lemma pbkdf2_impl_spec oc pw salt algo rounds outlen :
  (N.of_nat outlen <= 4294967295 * N.of_nat (pbkdf2_outsize algo))%N ->
  pbkdf2_impl oc pw salt algo rounds outlen
  = Ok {| kdf_hash := pbkdf2_spec (pbkdf2_id algo) pw salt rounds outlen; kdf_salt := salt |}.
Proof.
  intros Hlen. unfold pbkdf2_impl. cbn zeta.
  replace (4294967295 * N.of_nat (pbkdf2_outsize algo) <? N.of_nat outlen)%N with false
    by (symmetry; apply N.ltb_ge; exact Hlen).
  rewrite andb_false_r, crate_pbkdf2_engine_spec. reflexivity.
Qed.

(* without overflow checks (release profile) there is no length condition at all *)
Lemma pbkdf2_impl_spec_release pw salt algo rounds outlen :
  pbkdf2_impl false pw salt algo rounds outlen
  = Ok {| kdf_hash := pbkdf2_spec (pbkdf2_id algo) pw salt rounds outlen; kdf_salt := salt |}.
Proof. unfold pbkdf2_impl. cbn zeta. cbn [andb]. rewrite crate_pbkdf2_engine_spec. reflexivity. Qed.

Lemma pbkdf2_output_length oc pw salt algo rounds outlen k :
  pbkdf2_impl oc pw salt algo rounds outlen = Ok k -> length (kdf_hash k) = outlen /\ kdf_salt k = salt.
Proof.
  unfold pbkdf2_impl. cbn zeta.
  destruct (oc && _)%bool; [discriminate|]. intros E. inversion E; subst; clear E. cbn [kdf_hash kdf_salt].
  split; [|reflexivity]. rewrite crate_pbkdf2_engine_spec. apply pbkdf2_spec_length.
Qed.

(* pbkdf2_spec under the Prim names *)
Lemma pbkdf2_spec_sha1 : pbkdf2_spec HSha1 = pbkdf2_hmac_sha1. Proof. reflexivity. Qed.
Lemma pbkdf2_spec_sha256 : pbkdf2_spec HSha256 = pbkdf2_hmac_sha256. Proof. reflexivity. Qed.
Lemma pbkdf2_spec_sha512 : pbkdf2_spec HSha512 = pbkdf2_hmac_sha512. Proof. reflexivity. Qed.

(* ------------------------------------------------------------------ *)
(* from_mnemonic: PBKDF2-HMAC-SHA512, 2048 rounds, 64 bytes, salt as the code passes it; then HMAC-SHA512
   keyed with "Bitcoin seed" over the seed *)
Lemma mnemonic_seed_spec oc mnemonic passphrase :
  mnemonic_seed oc mnemonic passphrase
  = Ok (pbkdf2_hmac_sha512 mnemonic (mnemonic_salt passphrase) 2048 64).
Proof.
  unfold mnemonic_seed. rewrite pbkdf2_impl_spec by (vm_compute; discriminate).
  cbn [bind kdf_hash pbkdf2_id]. rewrite pbkdf2_spec_sha512. reflexivity.
Qed.

Lemma seed_master_spec seed :
  seed_master seed =
  let i := hmac_sha512 (bytes_of_string "Bitcoin seed") seed in (firstn 32 i, skipn 32 i).
Proof. unfold seed_master. rewrite sha_512_hmac_spec. reflexivity. Qed.
