(* Proofs/TxProofs.v — C01: compact sizes, wire encoder vs. serialiser, parser vs. encoder, accessors. *)
From BSV Require Import Base.Hex Model.Opcodes Model.Script Model.VarInt Model.Tx Spec.ScriptTok Spec.TxWire Proofs.ScriptProofs.

Local Open Scope N_scope.

Lemma pow256_1 : 256 ^ N.of_nat 1 = 256. Proof. reflexivity. Qed.
Lemma pow256_2 : 256 ^ N.of_nat 2 = 65536. Proof. reflexivity. Qed.
Lemma pow256_4 : 256 ^ N.of_nat 4 = 4294967296. Proof. reflexivity. Qed.
Lemma pow256_8 : 256 ^ N.of_nat 8 = 18446744073709551616. Proof. reflexivity. Qed.

Definition u64 : N := 18446744073709551616.
Definition u32 : N := 4294967296.

(* ------------------------------------------------------------------ *)
(* 1. compact sizes *)
Lemma compact_eq_write_varint n : compact n = write_varint n.
Proof.
  unfold compact, write_varint.
  destruct (n <? 253) eqn:E1; [replace (n <=? 252) with true by lia; reflexivity|].
  replace (n <=? 252) with false by lia.
  destruct (n <? 65536) eqn:E2; [replace (n <=? 65535) with true by lia; reflexivity|].
  replace (n <=? 65535) with false by lia.
  destruct (n <? 4294967296) eqn:E3; [replace (n <=? 4294967295) with true by lia; reflexivity|].
  replace (n <=? 4294967295) with false by lia. reflexivity.
Qed.

Lemma get_varint_bytes_eq_write_varint n : get_varint_bytes n = write_varint n.
Proof. reflexivity. Qed.

Lemma varint_roundtrip n r : n < u64 -> read_varint (write_varint n ++ r) = Ok (n, r).
Proof.
  unfold u64. intros Hn. unfold write_varint.
  destruct (n <=? 252) eqn:E1.
  - cbn [app read_varint]. rewrite b2n_n2b by lia.
    replace (n =? 255) with false by lia. replace (n =? 254) with false by lia. replace (n =? 253) with false by lia.
    reflexivity.
  - destruct (n <=? 65535) eqn:E2; [|destruct (n <=? 4294967295) eqn:E3].
    + cbn [app read_varint]. rewrite b2n_n2b by lia. cbn [N.eqb]. change (253 =? 255) with false. change (253 =? 254) with false.
      change (253 =? 253) with true. cbv iota. rewrite read_le_app by (rewrite pow256_2; lia). reflexivity.
    + cbn [app read_varint]. rewrite b2n_n2b by lia. change (254 =? 255) with false. change (254 =? 254) with true.
      cbv iota. rewrite read_le_app by (rewrite pow256_4; lia). reflexivity.
    + cbn [app read_varint]. rewrite b2n_n2b by lia. change (255 =? 255) with true.
      cbv iota. rewrite read_le_app by (rewrite pow256_8; lia). reflexivity.
Qed.

Lemma write_varint_length n :
  length (write_varint n) = if n <=? 252 then 1%nat else if n <=? 65535 then 3%nat else if n <=? 4294967295 then 5%nat else 9%nat.
Proof.
  unfold write_varint. destruct (n <=? 252); [reflexivity|]. destruct (n <=? 65535); [reflexivity|].
  destruct (n <=? 4294967295); reflexivity.
Qed.

Lemma read_le_inv k bs n r : read_le k bs = Some (n, r) -> exists a, bs = a ++ r /\ length a = k /\ n = le_val a /\ n < 256 ^ N.of_nat k.
Proof.
  unfold read_le. destruct (read_exact k bs) as [[a r']|] eqn:E; [|discriminate].
  intros H; inversion H; subst. apply read_exact_spec in E. destruct E as [-> <-].
  exists a. repeat split. apply le_val_bound.
Qed.

Lemma read_varint_inv bs n r :
  read_varint bs = Ok (n, r) ->
  n < u64 /\ exists p, bs = p ++ r /\ (1 <= length p)%nat /\
    ((length p = 1%nat /\ n <= 252) \/ (length p = 3%nat /\ n < 65536) \/ (length p = 5%nat /\ n < 4294967296) \/ length p = 9%nat).
Proof.
  unfold u64. destruct bs as [|b bs']; [discriminate|]. cbn [read_varint].
  pose proof (b2n_lt b) as Hb.
  destruct (b2n b =? 255) eqn:E1; [|destruct (b2n b =? 254) eqn:E2; [|destruct (b2n b =? 253) eqn:E3]].
  - destruct (read_le 8 bs') as [[v r']|] eqn:E; [|discriminate]. cbn [of_option]. intros H; inversion H; subst.
    apply read_le_inv in E. destruct E as (a & -> & La & _ & Hv). rewrite pow256_8 in Hv. split; [exact Hv|].
    exists (b :: a). cbn [app length]. rewrite La. split; [reflexivity|]. split; lia.
  - destruct (read_le 4 bs') as [[v r']|] eqn:E; [|discriminate]. cbn [of_option]. intros H; inversion H; subst.
    apply read_le_inv in E. destruct E as (a & -> & La & _ & Hv). rewrite pow256_4 in Hv. split; [lia|].
    exists (b :: a). cbn [app length]. rewrite La. split; [reflexivity|]. split; lia.
  - destruct (read_le 2 bs') as [[v r']|] eqn:E; [|discriminate]. cbn [of_option]. intros H; inversion H; subst.
    apply read_le_inv in E. destruct E as (a & -> & La & _ & Hv). rewrite pow256_2 in Hv. split; [lia|].
    exists (b :: a). cbn [app length]. rewrite La. split; [reflexivity|]. split; lia.
  - intros H; inversion H; subst. split; [lia|]. exists [b]. cbn [app length]. split; [reflexivity|]. split; lia.
Qed.

(* the writer's form is the shortest among all encodings the reader maps to the same number *)
Lemma write_varint_shortest bs n r :
  read_varint bs = Ok (n, r) -> (length (write_varint n) + length r <= length bs)%nat.
Proof.
  intros H. apply read_varint_inv in H. destruct H as (_ & p & -> & _ & C).
  rewrite app_length, write_varint_length.
  destruct C as [[L B]|[[L B]|[[L B]|L]]]; rewrite L.
  - replace (n <=? 252) with true by lia. lia.
  - destruct (n <=? 252); [lia|]. replace (n <=? 65535) with true by lia. lia.
  - destruct (n <=? 252); [lia|]. destruct (n <=? 65535); [lia|]. replace (n <=? 4294967295) with true by lia. lia.
  - destruct (n <=? 252); [lia|]. destruct (n <=? 65535); [lia|]. destruct (n <=? 4294967295); lia.
Qed.

(* ------------------------------------------------------------------ *)
(* 2. the serialiser is the wire encoder applied to the raw fields of the value *)
Definition in_fields_of (i : txin) : in_fields := mk_in (prev_tx_id i) (vout i) (to_bytes (unlocking i)) (sequence i).
Definition out_fields_of (o : txout) : out_fields := mk_out (value o) (to_bytes (script_pub_key o)).
Definition fields_of (t : tx) : tx_fields :=
  mk_fields (version t) (map in_fields_of (inputs t)) (map out_fields_of (outputs t)) (locktime t).

Lemma txin_bytes_spec i : txin_bytes i = encode_in (in_fields_of i).
Proof. unfold txin_bytes, encode_in, in_fields_of. cbn [f_prev f_vout f_script f_seq]. rewrite compact_eq_write_varint. reflexivity. Qed.
Lemma txout_bytes_spec o : txout_bytes o = encode_out (out_fields_of o).
Proof. unfold txout_bytes, encode_out, out_fields_of. cbn [f_value f_pk]. rewrite compact_eq_write_varint. reflexivity. Qed.

Lemma serialise_is_spec t : tx_bytes t = encode_tx_spec (fields_of t).
Proof.
  unfold tx_bytes, encode_tx_spec, fields_of. cbn [f_version f_ins f_outs f_locktime].
  rewrite !map_length, !map_map, !compact_eq_write_varint.
  rewrite (map_ext _ _ txin_bytes_spec), (map_ext _ _ txout_bytes_spec). reflexivity.
Qed.

(* ------------------------------------------------------------------ *)
(* 3. parsing an encoding *)
Definition script_ok (s : bytes) : Prop := (exists b, from_bytes s = Ok b) /\ truncated_tail s = false.
Definition in_ok (i : in_fields) : Prop := in_range i /\ (null_outpoint i = false -> script_ok (f_script i)).
Definition out_ok (o : out_fields) : Prop := out_range o /\ script_ok (f_pk o).
Definition fields_ok (f : tx_fields) : Prop :=
  f_version f < u32 /\ f_locktime f < u32
  /\ N.of_nat (length (f_ins f)) < u64 /\ N.of_nat (length (f_outs f)) < u64
  /\ Forall in_ok (f_ins f) /\ Forall out_ok (f_outs f).

Lemma null_outpoint_model i : null_outpoint i = is_coinbase_outpoint (f_prev i) (f_vout i).
Proof. reflexivity. Qed.

Lemma read32_padded_app a r : length a = 32%nat -> read32_padded (a ++ r) = (a, r).
Proof.
  intros L. unfold read32_padded.
  assert (F : firstn 32 a = a) by (rewrite <- L; apply firstn_all).
  assert (S : skipn 32 a = []) by (rewrite <- L; apply skipn_all).
  rewrite firstn_app, skipn_app, L, Nat.sub_diag, F, S. cbn [firstn skipn app]. rewrite app_nil_r, L, Nat.sub_diag.
  cbn [repeat]. rewrite app_nil_r. reflexivity.
Qed.

Lemma txin_read_encode i r :
  in_ok i -> exists ti, txin_read (encode_in i ++ r) = Ok (ti, r) /\ in_fields_of ti = i.
Proof.
  intros [(Lid & Hvo & Hsq & Hlen) Hscr]. destruct i as [prev vo scr sq]. cbn [f_prev f_vout f_script f_seq] in *.
  unfold encode_in, txin_read. cbn [f_prev f_vout f_script f_seq].
  rewrite <- !app_assoc. rewrite read32_padded_app by (rewrite rev_length; exact Lid).
  rewrite rev_involutive.
  rewrite read_le_app by (rewrite pow256_4; exact Hvo). cbn [of_option bind].
  rewrite compact_eq_write_varint, varint_roundtrip by exact Hlen. cbn [bind].
  rewrite read_exactN_app. cbn [of_option bind].
  rewrite read_le_app by (rewrite pow256_4; exact Hsq). cbn [of_option bind].
  rewrite null_outpoint_model in Hscr. cbn [f_prev f_vout] in Hscr.
  destruct (is_coinbase_outpoint prev vo) eqn:Ecb.
  - cbn [bind]. eexists; split; [reflexivity|]. unfold in_fields_of. cbn. rewrite app_nil_r. reflexivity.
  - destruct (Hscr eq_refl) as [[b Hb] Ht]. rewrite Hb. cbn [bind]. eexists; split; [reflexivity|].
    unfold in_fields_of. cbn [prev_tx_id vout unlocking sequence].
    destruct (script_roundtrip _ _ Hb Ht) as [-> _]. reflexivity.
Qed.

Lemma txout_read_encode o r :
  out_ok o -> exists to, txout_read (encode_out o ++ r) = Ok (to, r) /\ out_fields_of to = o.
Proof.
  intros [(Hv & Hlen) [[b Hb] Ht]]. destruct o as [v scr]. cbn [f_value f_pk] in *.
  unfold encode_out, txout_read. cbn [f_value f_pk]. rewrite <- !app_assoc.
  rewrite read_le_app by (rewrite pow256_8; exact Hv). cbn [of_option bind].
  rewrite compact_eq_write_varint, varint_roundtrip by exact Hlen. cbn [bind].
  rewrite read_exactN_app. cbn [of_option bind]. rewrite Hb. cbn [bind].
  eexists; split; [reflexivity|]. unfold out_fields_of. cbn [value script_pub_key].
  destruct (script_roundtrip _ _ Hb Ht) as [-> _]. reflexivity.
Qed.

(* the count loop: fuel at least the number of items is enough *)
Lemma read_many_encode {A B} (rd : bytes -> outcome (A * bytes)) (enc : B -> bytes) (R : B -> A -> Prop) :
  forall l,
    (forall x, In x l -> forall r, exists a, rd (enc x ++ r) = Ok (a, r) /\ R x a) ->
    forall fuel r, (length l <= fuel)%nat ->
      exists al, read_many rd fuel (N.of_nat (length l)) (List.concat (map enc l) ++ r) = Ok (al, r) /\ Forall2 R l al.
Proof.
  induction l as [|x l IH]; intros Hrd fuel r Hf.
  - exists []. split; [|constructor]. destruct fuel; reflexivity.
  - destruct fuel as [|f]; [cbn in Hf; lia|]. cbn [length map List.concat]. rewrite <- app_assoc.
    cbn [read_many]. replace (N.of_nat (S (length l)) =? 0) with false by lia.
    destruct (Hrd x (or_introl eq_refl) (List.concat (map enc l) ++ r)) as (a & Ea & Ra). rewrite Ea. cbn [bind].
    replace (N.of_nat (S (length l)) - 1) with (N.of_nat (length l)) by lia.
    destruct (IH (fun y Hy => Hrd y (or_intror Hy)) f r) as (al & Eal & Ral); [cbn in Hf; lia|].
    rewrite Eal. cbn [bind]. exists (a :: al). split; [reflexivity|constructor; assumption].
Qed.

Lemma concat_length_ge {B} (enc : B -> bytes) l :
  (forall x, In x l -> (1 <= length (enc x))%nat) -> (length l <= length (List.concat (map enc l)))%nat.
Proof.
  induction l as [|x l IH]; intros H; cbn [map List.concat length]; [lia|].
  rewrite app_length. pose proof (H x (or_introl eq_refl)). specialize (IH (fun y Hy => H y (or_intror Hy))). lia.
Qed.

Lemma encode_in_length i : (1 <= length (encode_in i))%nat.
Proof. unfold encode_in. rewrite !app_length, le_bytes_length. lia. Qed.
Lemma encode_out_length o : (1 <= length (encode_out o))%nat.
Proof. unfold encode_out. rewrite !app_length, le_bytes_length. lia. Qed.

Lemma Forall2_map_eq {A B} (g : A -> B) l al : Forall2 (fun x a => g a = x) l al -> map g al = l.
Proof. induction 1; cbn [map]; [reflexivity | congruence]. Qed.

(* Every byte string that is the wire encoding of in-range fields whose scripts the script parser accepts
   (outside C02's class; coinbase data is arbitrary) parses, the parsed value re-serialises to exactly the
   same bytes, and its fields are the encoded ones — for any number of inputs and outputs and any script
   lengths.  Bytes after the lock time are ignored by the parser. *)
Lemma parse_encode_fields f r :
  fields_ok f -> exists t, tx_from_bytes (encode_tx_spec f ++ r) = Ok t /\ fields_of t = f.
Proof.
  intros (Hver & Hlt & Hnin & Hnout & Hins & Houts). destruct f as [ver ins outs lt]. cbn [f_version f_ins f_outs f_locktime] in *.
  unfold encode_tx_spec, tx_from_bytes. cbn [f_version f_ins f_outs f_locktime]. rewrite <- !app_assoc.
  rewrite read_le_app by (rewrite pow256_4; exact Hver). cbn [of_option bind].
  rewrite compact_eq_write_varint, varint_roundtrip by exact Hnin. cbn [bind].
  rewrite Forall_forall in Hins, Houts.
  match goal with |- context [read_many txin_read ?fu _ (_ ++ ?rest)] =>
    destruct (read_many_encode txin_read encode_in (fun x a => in_fields_of a = x) ins
                (fun x Hx r0 => txin_read_encode x r0 (Hins x Hx)) fu rest) as (tins & Etins & Rins) end.
  { rewrite app_length. pose proof (concat_length_ge encode_in ins (fun x _ => encode_in_length x)). lia. }
  rewrite Etins. cbn [bind].
  rewrite compact_eq_write_varint, varint_roundtrip by exact Hnout. cbn [bind].
  match goal with |- context [read_many txout_read ?fu _ (_ ++ ?rest)] =>
    destruct (read_many_encode txout_read encode_out (fun x a => out_fields_of a = x) outs
                (fun x Hx r0 => txout_read_encode x r0 (Houts x Hx)) fu rest) as (touts & Etouts & Routs) end.
  { rewrite app_length. pose proof (concat_length_ge encode_out outs (fun x _ => encode_out_length x)). lia. }
  rewrite Etouts. cbn [bind].
  rewrite read_le_app by (rewrite pow256_4; exact Hlt). cbn [of_option bind].
  eexists; split; [reflexivity|].
  unfold fields_of. cbn [version inputs outputs locktime].
  rewrite (Forall2_map_eq _ _ _ Rins), (Forall2_map_eq _ _ _ Routs). reflexivity.
Qed.

Theorem parse_encode f r :
  fields_ok f ->
  exists t, tx_from_bytes (encode_tx_spec f ++ r) = Ok t /\ tx_bytes t = encode_tx_spec f /\ fields_of t = f.
Proof.
  intros H. destruct (parse_encode_fields f r H) as (t & E & F). exists t. split; [exact E|]. split; [|exact F].
  rewrite serialise_is_spec, F. reflexivity.
Qed.

(* ------------------------------------------------------------------ *)
(* 4. accessors, on the raw fields of the value *)
Section Accessors.
  Variable H : bytes -> bytes.     (* the transaction-id hash (double SHA-256 in the library); the clause holds for any function *)

  Lemma tx_id_spec t : tx_id H t = rev (H (encode_tx_spec (fields_of t))).
  Proof. unfold tx_id. rewrite serialise_is_spec. reflexivity. Qed.
End Accessors.

Lemma tx_size_spec t : tx_size t = N.of_nat (length (encode_tx_spec (fields_of t))).
Proof. unfold tx_size. rewrite serialise_is_spec. reflexivity. Qed.

Lemma tx_outpoints_spec t : tx_outpoints t = spec_outpoints (fields_of t).
Proof. unfold tx_outpoints, spec_outpoints, fields_of. cbn [f_ins]. rewrite map_map. reflexivity. Qed.

Lemma txin_outpoint_le_spec i : txin_outpoint_bytes i true = spec_outpoint (in_fields_of i).
Proof. reflexivity. Qed.

Lemma tx_is_coinbase_spec t : tx_is_coinbase t = spec_is_coinbase (fields_of t).
Proof.
  unfold tx_is_coinbase, spec_is_coinbase, fields_of. cbn [f_ins].
  destruct (inputs t) as [|i [|j l]]; reflexivity.
Qed.

(* exactly one input, and it spends the null outpoint (32 zero bytes, index 0xffffffff) *)
Lemma tx_is_coinbase_iff t :
  tx_is_coinbase t = true <->
  exists i, inputs t = [i] /\ prev_tx_id i = repeat x00 32 /\ vout i = 4294967295.
Proof.
  unfold tx_is_coinbase, is_coinbase_outpoint. split.
  - destruct (inputs t) as [|i [|j l]]; try discriminate. intros E. apply andb_true_iff in E. destruct E as [E1 E2].
    apply bytes_eqb_eq in E1. exists i. repeat split; [exact E1 | lia].
  - intros (i & -> & E1 & E2). rewrite E1, E2. unfold zeros32. rewrite bytes_eqb_refl. reflexivity.
Qed.

Definition sat_step (oc : bool) (acc : outcome N) (o : txout) : outcome N :=
  do a <- acc; let s := a + value o in
  if s <=? u64max then Ok s else if oc then Panic else Ok (s mod 18446744073709551616).

Lemma sum_values_map l : sum_values (map out_fields_of l) = fold_right (fun o s => value o + s) 0 l.
Proof. induction l as [|o l IH]; cbn [map sum_values fold_right f_value out_fields_of]; [reflexivity | rewrite IH; reflexivity]. Qed.

Lemma sat_fold_ok oc l : forall acc,
  acc + sum_values (map out_fields_of l) < u64 ->
  fold_left (sat_step oc) l (Ok acc) = Ok (acc + sum_values (map out_fields_of l)).
Proof.
  unfold u64. induction l as [|o l IH]; intros acc Hs; cbn [map sum_values fold_left f_value out_fields_of] in *.
  - f_equal. lia.
  - unfold sat_step at 2. cbn [bind]. unfold u64max. replace (acc + value o <=? 18446744073709551615) with true by lia.
    rewrite IH by lia. f_equal. lia.
Qed.

(* the total of the outputs, whenever a u64 can hold it (either build profile) *)
Lemma satoshis_out_spec oc t :
  spec_total_out (fields_of t) < u64 -> satoshis_out oc t = Ok (spec_total_out (fields_of t)).
Proof.
  intros Hs. unfold satoshis_out, spec_total_out, fields_of in *. cbn [f_outs] in *.
  change (fold_left (sat_step oc) (outputs t) (Ok 0) = Ok (sum_values (map out_fields_of (outputs t)))).
  rewrite sat_fold_ok by (rewrite N.add_0_l; exact Hs). rewrite N.add_0_l. reflexivity.
Qed.

Lemma sat_fold_panic l : fold_left (sat_step true) l Panic = Panic.
Proof. induction l as [|o l IH]; cbn [fold_left]; [reflexivity | exact IH]. Qed.

Lemma sat_fold_overflow l : forall acc,
  u64 <= acc + sum_values (map out_fields_of l) -> acc < u64 ->
  fold_left (sat_step true) l (Ok acc) = Panic.
Proof.
  unfold u64. induction l as [|o l IH]; intros acc Hs Ha; cbn [map sum_values fold_left f_value out_fields_of] in *.
  - lia.
  - unfold sat_step at 2. cbn [bind]. unfold u64max.
    destruct (acc + value o <=? 18446744073709551615) eqn:E.
    + apply IH; lia.
    + apply sat_fold_panic.
Qed.

(* the finding: from 2^64 on the accessor panics in the overflow-checking profile *)
Lemma satoshis_out_overflow t :
  u64 <= spec_total_out (fields_of t) -> satoshis_out true t = Panic.
Proof.
  intros Hs. unfold satoshis_out, spec_total_out, fields_of in *. cbn [f_outs] in *.
  change (fold_left (sat_step true) (outputs t) (Ok 0) = Panic).
  apply sat_fold_overflow; [rewrite N.add_0_l; exact Hs | unfold u64; lia].
Qed.

(* ------------------------------------------------------------------ *)
(* 5. construction API: Transaction::new; TxIn::new; add_input ...; TxOut::new; add_output ... *)
Definition api_in : Type := bytes * N * list bit * option N.
Definition api_out : Type := N * list bit.
Definition api_add_in (t : tx) (a : api_in) : tx :=
  let '(id, vo, scr, sq) := a in add_input t (txin_new id vo scr sq).
Definition api_add_out (t : tx) (a : api_out) : tx :=
  let '(v, scr) := a in add_output t (txout_new v scr).
Definition build (ver lt : N) (ins : list api_in) (outs : list api_out) : tx :=
  fold_left api_add_out outs (fold_left api_add_in ins (tx_new ver lt)).

Definition api_in_fields (a : api_in) : in_fields :=
  let '(id, vo, scr, sq) := a in mk_in id vo (to_bytes scr) (match sq with Some v => v | None => 4294967295 end).
Definition api_out_fields (a : api_out) : out_fields := let '(v, scr) := a in mk_out v (to_bytes scr).

Lemma fold_add_in l : forall t,
  fields_of (fold_left api_add_in l t) =
  mk_fields (version t) (map in_fields_of (inputs t) ++ map api_in_fields l) (map out_fields_of (outputs t)) (locktime t).
Proof.
  induction l as [|[[[id vo] scr] sq] l IH]; intros t; cbn [fold_left map].
  - rewrite app_nil_r. reflexivity.
  - rewrite IH. unfold api_add_in, add_input. cbn [version inputs outputs locktime]. rewrite map_app. cbn [map].
    rewrite <- app_assoc. reflexivity.
Qed.
Lemma fold_add_out l : forall t,
  fields_of (fold_left api_add_out l t) =
  mk_fields (version t) (map in_fields_of (inputs t)) (map out_fields_of (outputs t) ++ map api_out_fields l) (locktime t).
Proof.
  induction l as [|[v scr] l IH]; intros t; cbn [fold_left map].
  - rewrite app_nil_r. reflexivity.
  - rewrite IH. unfold api_add_out, add_output. cbn [version inputs outputs locktime]. rewrite map_app. cbn [map].
    rewrite <- app_assoc. reflexivity.
Qed.

Theorem construction_api ver lt ins outs :
  tx_bytes (build ver lt ins outs) = encode_tx_spec (mk_fields ver (map api_in_fields ins) (map api_out_fields outs) lt).
Proof.
  rewrite serialise_is_spec. unfold build. rewrite fold_add_out.
  pose proof (fold_add_in ins (tx_new ver lt)) as F. unfold fields_of in F at 1.
  injection F as F1 F2 F3 F4. rewrite F1, F2, F3, F4. reflexivity.
Qed.

(* rebuilding a value through the API from its own fields gives the same bytes *)
Definition api_of_in (i : txin) : api_in := (prev_tx_id i, vout i, unlocking i, Some (sequence i)).
Definition api_of_out (o : txout) : api_out := (value o, script_pub_key o).
Corollary construction_api_same_bytes t :
  tx_bytes (build (version t) (locktime t) (map api_of_in (inputs t)) (map api_of_out (outputs t))) = tx_bytes t.
Proof.
  rewrite construction_api, serialise_is_spec. unfold fields_of. rewrite !map_map. reflexivity.
Qed.
