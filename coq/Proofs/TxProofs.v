(* Proofs/TxProofs.v — C01: compact sizes, wire encoder vs. serialiser, parser vs. encoder, accessors. *)
From BSV Require Import Base.Hex Model.Opcodes Model.Script Model.VarInt Model.Tx Model.TxExt Spec.ScriptTok Spec.TxWire Proofs.ScriptProofs.

Local Open Scope N_scope.

Lemma pow256_1 : 256 ^ N.of_nat 1 = 256. Proof. reflexivity. Qed.
Lemma pow256_2 : 256 ^ N.of_nat 2 = 65536. Proof. reflexivity. Qed.
Lemma pow256_4 : 256 ^ N.of_nat 4 = 4294967296. Proof. reflexivity. Qed.
Lemma pow256_8 : 256 ^ N.of_nat 8 = 18446744073709551616. Proof. reflexivity. Qed.

Definition u64 : N := 18446744073709551616.
Definition u32 : N := 4294967296.

(* ------------------------------------------------------------------ *)
(* 1. compact sizes *)
Lemma compact_eq_write_varint n : compact n = write_varint n.
Proof.
  unfold compact, write_varint.
  destruct (n <? 253) eqn:E1; [replace (n <=? 252) with true by lia; reflexivity|].
  replace (n <=? 252) with false by lia.
  destruct (n <? 65536) eqn:E2; [replace (n <=? 65535) with true by lia; reflexivity|].
  replace (n <=? 65535) with false by lia.
  destruct (n <? 4294967296) eqn:E3; [replace (n <=? 4294967295) with true by lia; reflexivity|].
  replace (n <=? 4294967295) with false by lia. reflexivity.
Qed.

Lemma write_varint_is_compact n : write_varint n = compact n.
Proof. symmetry. apply compact_eq_write_varint. Qed.

Lemma get_varint_bytes_eq_write_varint n : get_varint_bytes n = write_varint n.
Proof. reflexivity. Qed.

Lemma varint_roundtrip n r : n < u64 -> read_varint (write_varint n ++ r) = Ok (n, r).
Proof.
  unfold u64. intros Hn. unfold write_varint.
  destruct (n <=? 252) eqn:E1.
  - cbn [app read_varint]. rewrite b2n_n2b by lia.
    replace (n =? 255) with false by lia. replace (n =? 254) with false by lia. replace (n =? 253) with false by lia.
    reflexivity.
  - destruct (n <=? 65535) eqn:E2; [|destruct (n <=? 4294967295) eqn:E3].
    + cbn [app read_varint]. rewrite b2n_n2b by lia. cbn [N.eqb]. change (253 =? 255) with false. change (253 =? 254) with false.
      change (253 =? 253) with true. cbv iota. rewrite read_le_app by (rewrite pow256_2; lia). reflexivity.
    + cbn [app read_varint]. rewrite b2n_n2b by lia. change (254 =? 255) with false. change (254 =? 254) with true.
      cbv iota. rewrite read_le_app by (rewrite pow256_4; lia). reflexivity.
    + cbn [app read_varint]. rewrite b2n_n2b by lia. change (255 =? 255) with true.
      cbv iota. rewrite read_le_app by (rewrite pow256_8; lia). reflexivity.
Qed.

Lemma write_varint_length n :
  length (write_varint n) = if n <=? 252 then 1%nat else if n <=? 65535 then 3%nat else if n <=? 4294967295 then 5%nat else 9%nat.
Proof.
  unfold write_varint. destruct (n <=? 252); [reflexivity|]. destruct (n <=? 65535); [reflexivity|].
  destruct (n <=? 4294967295); reflexivity.
Qed.

Lemma read_le_inv k bs n r : read_le k bs = Some (n, r) -> exists a, bs = a ++ r /\ length a = k /\ n = le_val a /\ n < 256 ^ N.of_nat k.
Proof.
  unfold read_le. destruct (read_exact k bs) as [[a r']|] eqn:E; [|discriminate].
  intros H; inversion H; subst. apply read_exact_spec in E. destruct E as [-> <-].
  exists a. repeat split. apply le_val_bound.
Qed.

Lemma read_varint_inv bs n r :
  read_varint bs = Ok (n, r) ->
  n < u64 /\ exists p, bs = p ++ r /\ (1 <= length p)%nat /\
    ((length p = 1%nat /\ n <= 252) \/ (length p = 3%nat /\ n < 65536) \/ (length p = 5%nat /\ n < 4294967296) \/ length p = 9%nat).
Proof.
  unfold u64. destruct bs as [|b bs']; [discriminate|]. cbn [read_varint].
  pose proof (b2n_lt b) as Hb.
  destruct (b2n b =? 255) eqn:E1; [|destruct (b2n b =? 254) eqn:E2; [|destruct (b2n b =? 253) eqn:E3]].
  - destruct (read_le 8 bs') as [[v r']|] eqn:E; [|discriminate]. cbn [of_option]. intros H; inversion H; subst.
    apply read_le_inv in E. destruct E as (a & -> & La & _ & Hv). rewrite pow256_8 in Hv. split; [exact Hv|].
    exists (b :: a). cbn [app length]. rewrite La. split; [reflexivity|]. split; lia.
  - destruct (read_le 4 bs') as [[v r']|] eqn:E; [|discriminate]. cbn [of_option]. intros H; inversion H; subst.
    apply read_le_inv in E. destruct E as (a & -> & La & _ & Hv). rewrite pow256_4 in Hv. split; [lia|].
    exists (b :: a). cbn [app length]. rewrite La. split; [reflexivity|]. split; lia.
  - destruct (read_le 2 bs') as [[v r']|] eqn:E; [|discriminate]. cbn [of_option]. intros H; inversion H; subst.
    apply read_le_inv in E. destruct E as (a & -> & La & _ & Hv). rewrite pow256_2 in Hv. split; [lia|].
    exists (b :: a). cbn [app length]. rewrite La. split; [reflexivity|]. split; lia.
  - intros H; inversion H; subst. split; [lia|]. exists [b]. cbn [app length]. split; [reflexivity|]. split; lia.
Qed.

(* the writer's form is the shortest among all encodings the reader maps to the same number *)
Lemma write_varint_shortest bs n r :
  read_varint bs = Ok (n, r) -> (length (write_varint n) + length r <= length bs)%nat.
Proof.
  intros H. apply read_varint_inv in H. destruct H as (_ & p & -> & _ & C).
  rewrite app_length, write_varint_length.
  destruct C as [[L B]|[[L B]|[[L B]|L]]]; rewrite L.
  - replace (n <=? 252) with true by lia. lia.
  - destruct (n <=? 252); [lia|]. replace (n <=? 65535) with true by lia. lia.
  - destruct (n <=? 252); [lia|]. destruct (n <=? 65535); [lia|]. replace (n <=? 4294967295) with true by lia. lia.
  - destruct (n <=? 252); [lia|]. destruct (n <=? 65535); [lia|]. destruct (n <=? 4294967295); lia.
Qed.

(* ------------------------------------------------------------------ *)
(* 2. the serialiser is the wire encoder applied to the raw fields of the value *)
Definition in_fields_of (i : txin) : in_fields := mk_in (prev_tx_id i) (vout i) (to_bytes (unlocking i)) (sequence i).
Definition out_fields_of (o : txout) : out_fields := mk_out (value o) (to_bytes (script_pub_key o)).
Definition fields_of (t : tx) : tx_fields :=
  mk_fields (version t) (map in_fields_of (inputs t)) (map out_fields_of (outputs t)) (locktime t).

Lemma txin_bytes_spec i : txin_bytes i = encode_in (in_fields_of i).
Proof. unfold txin_bytes, encode_in, in_fields_of. cbn [f_prev f_vout f_script f_seq]. rewrite compact_eq_write_varint. reflexivity. Qed.
Lemma txout_bytes_spec o : txout_bytes o = encode_out (out_fields_of o).
Proof. unfold txout_bytes, encode_out, out_fields_of. cbn [f_value f_pk]. rewrite compact_eq_write_varint. reflexivity. Qed.

Lemma serialise_is_spec t : tx_bytes t = encode_tx_spec (fields_of t).
Proof.
  unfold tx_bytes, encode_tx_spec, fields_of. cbn [f_version f_ins f_outs f_locktime].
  rewrite !map_length, !map_map, !compact_eq_write_varint.
  rewrite (map_ext _ _ txin_bytes_spec), (map_ext _ _ txout_bytes_spec). reflexivity.
Qed.

(* ------------------------------------------------------------------ *)
(* 3. parsing an encoding *)
Definition script_ok (s : bytes) : Prop := (exists b, from_bytes s = Ok b) /\ truncated_tail s = false.
Definition in_ok (i : in_fields) : Prop := in_range i /\ (null_outpoint i = false -> script_ok (f_script i)).
Definition out_ok (o : out_fields) : Prop := out_range o /\ script_ok (f_pk o).
Definition fields_ok (f : tx_fields) : Prop :=
  f_version f < u32 /\ f_locktime f < u32
  /\ N.of_nat (length (f_ins f)) < u64 /\ N.of_nat (length (f_outs f)) < u64
  /\ Forall in_ok (f_ins f) /\ Forall out_ok (f_outs f).

Lemma null_outpoint_model i : null_outpoint i = is_coinbase_outpoint (f_prev i) (f_vout i).
Proof. reflexivity. Qed.

Lemma read32_padded_app a r : length a = 32%nat -> read32_padded (a ++ r) = (a, r).
Proof.
  intros L. unfold read32_padded.
  assert (F : firstn 32 a = a) by (rewrite <- L; apply firstn_all).
  assert (S : skipn 32 a = []) by (rewrite <- L; apply skipn_all).
  rewrite firstn_app, skipn_app, L, Nat.sub_diag, F, S. cbn [firstn skipn app]. rewrite app_nil_r, L, Nat.sub_diag.
  cbn [repeat]. rewrite app_nil_r. reflexivity.
Qed.

Lemma txin_read_encode i r :
  in_ok i -> exists ti, txin_read (encode_in i ++ r) = Ok (ti, r) /\ in_fields_of ti = i.
Proof.
  intros [(Lid & Hvo & Hsq & Hlen) Hscr]. destruct i as [prev vo scr sq]. cbn [f_prev f_vout f_script f_seq] in *.
  unfold encode_in, txin_read. cbn [f_prev f_vout f_script f_seq].
  rewrite <- !app_assoc. rewrite read32_padded_app by (rewrite rev_length; exact Lid).
  rewrite rev_involutive.
  rewrite read_le_app by (rewrite pow256_4; exact Hvo). cbn [of_option bind].
  rewrite compact_eq_write_varint, varint_roundtrip by exact Hlen. cbn [bind].
  rewrite read_exactN_app. cbn [of_option bind].
  rewrite read_le_app by (rewrite pow256_4; exact Hsq). cbn [of_option bind].
  rewrite null_outpoint_model in Hscr. cbn [f_prev f_vout] in Hscr.
  destruct (is_coinbase_outpoint prev vo) eqn:Ecb.
  - cbn [bind]. eexists; split; [reflexivity|]. unfold in_fields_of. cbn. rewrite app_nil_r. reflexivity.
  - destruct (Hscr eq_refl) as [[b Hb] Ht]. rewrite Hb. cbn [bind]. eexists; split; [reflexivity|].
    unfold in_fields_of. cbn [prev_tx_id vout unlocking sequence].
    destruct (script_roundtrip _ _ Hb Ht) as [-> _]. reflexivity.
Qed.

Lemma txout_read_encode o r :
  out_ok o -> exists to, txout_read (encode_out o ++ r) = Ok (to, r) /\ out_fields_of to = o.
Proof.
  intros [(Hv & Hlen) [[b Hb] Ht]]. destruct o as [v scr]. cbn [f_value f_pk] in *.
  unfold encode_out, txout_read. cbn [f_value f_pk]. rewrite <- !app_assoc.
  rewrite read_le_app by (rewrite pow256_8; exact Hv). cbn [of_option bind].
  rewrite compact_eq_write_varint, varint_roundtrip by exact Hlen. cbn [bind].
  rewrite read_exactN_app. cbn [of_option bind]. rewrite Hb. cbn [bind].
  eexists; split; [reflexivity|]. unfold out_fields_of. cbn [value script_pub_key].
  destruct (script_roundtrip _ _ Hb Ht) as [-> _]. reflexivity.
Qed.

(* the count loop: fuel at least the number of items is enough *)
Lemma read_many_encode {A B} (rd : bytes -> outcome (A * bytes)) (enc : B -> bytes) (R : B -> A -> Prop) :
  forall l,
    (forall x, In x l -> forall r, exists a, rd (enc x ++ r) = Ok (a, r) /\ R x a) ->
    forall fuel r, (length l <= fuel)%nat ->
      exists al, read_many rd fuel (N.of_nat (length l)) (List.concat (map enc l) ++ r) = Ok (al, r) /\ Forall2 R l al.
Proof.
  induction l as [|x l IH]; intros Hrd fuel r Hf.
  - exists []. split; [|constructor]. destruct fuel; reflexivity.
  - destruct fuel as [|f]; [cbn in Hf; lia|]. cbn [length map List.concat]. rewrite <- app_assoc.
    cbn [read_many]. replace (N.of_nat (S (length l)) =? 0) with false by lia.
    destruct (Hrd x (or_introl eq_refl) (List.concat (map enc l) ++ r)) as (a & Ea & Ra). rewrite Ea. cbn [bind].
    replace (N.of_nat (S (length l)) - 1) with (N.of_nat (length l)) by lia.
    destruct (IH (fun y Hy => Hrd y (or_intror Hy)) f r) as (al & Eal & Ral); [cbn in Hf; lia|].
    rewrite Eal. cbn [bind]. exists (a :: al). split; [reflexivity|constructor; assumption].
Qed.

Lemma concat_length_ge {B} (enc : B -> bytes) l :
  (forall x, In x l -> (1 <= length (enc x))%nat) -> (length l <= length (List.concat (map enc l)))%nat.
Proof.
  induction l as [|x l IH]; intros H; cbn [map List.concat length]; [lia|].
  rewrite app_length. pose proof (H x (or_introl eq_refl)). specialize (IH (fun y Hy => H y (or_intror Hy))). lia.
Qed.

Lemma encode_in_length i : (1 <= length (encode_in i))%nat.
Proof. unfold encode_in. rewrite !app_length, le_bytes_length. lia. Qed.
Lemma encode_out_length o : (1 <= length (encode_out o))%nat.
Proof. unfold encode_out. rewrite !app_length, le_bytes_length. lia. Qed.

Lemma Forall2_map_eq {A B} (g : A -> B) l al : Forall2 (fun x a => g a = x) l al -> map g al = l.
Proof. induction 1; cbn [map]; [reflexivity | congruence]. Qed.

(* Every byte string that is the wire encoding of in-range fields whose scripts the script parser accepts
   (outside C02's class; coinbase data is arbitrary) parses, the parsed value re-serialises to exactly the
   same bytes, and its fields are the encoded ones — for any number of inputs and outputs and any script
   lengths.  Bytes after the lock time are ignored by the parser. *)
Lemma parse_encode_fields f r :
  fields_ok f -> exists t, tx_from_bytes (encode_tx_spec f ++ r) = Ok t /\ fields_of t = f.
Proof.
  intros (Hver & Hlt & Hnin & Hnout & Hins & Houts). destruct f as [ver ins outs lt]. cbn [f_version f_ins f_outs f_locktime] in *.
  unfold encode_tx_spec, tx_from_bytes. cbn [f_version f_ins f_outs f_locktime]. rewrite <- !app_assoc.
  rewrite read_le_app by (rewrite pow256_4; exact Hver). cbn [of_option bind].
  rewrite compact_eq_write_varint, varint_roundtrip by exact Hnin. cbn [bind].
  rewrite Forall_forall in Hins, Houts.
  match goal with |- context [read_many txin_read ?fu _ (_ ++ ?rest)] =>
    destruct (read_many_encode txin_read encode_in (fun x a => in_fields_of a = x) ins
                (fun x Hx r0 => txin_read_encode x r0 (Hins x Hx)) fu rest) as (tins & Etins & Rins) end.
  { rewrite app_length. pose proof (concat_length_ge encode_in ins (fun x _ => encode_in_length x)). lia. }
  rewrite Etins. cbn [bind].
  rewrite compact_eq_write_varint, varint_roundtrip by exact Hnout. cbn [bind].
  match goal with |- context [read_many txout_read ?fu _ (_ ++ ?rest)] =>
    destruct (read_many_encode txout_read encode_out (fun x a => out_fields_of a = x) outs
                (fun x Hx r0 => txout_read_encode x r0 (Houts x Hx)) fu rest) as (touts & Etouts & Routs) end.
  { rewrite app_length. pose proof (concat_length_ge encode_out outs (fun x _ => encode_out_length x)). lia. }
  rewrite Etouts. cbn [bind].
  rewrite read_le_app by (rewrite pow256_4; exact Hlt). cbn [of_option bind].
  eexists; split; [reflexivity|].
  unfold fields_of. cbn [version inputs outputs locktime].
  rewrite (Forall2_map_eq _ _ _ Rins), (Forall2_map_eq _ _ _ Routs). reflexivity.
Qed.

Theorem parse_encode f r :
  fields_ok f ->
  exists t, tx_from_bytes (encode_tx_spec f ++ r) = Ok t /\ tx_bytes t = encode_tx_spec f /\ fields_of t = f.
Proof.
  intros H. destruct (parse_encode_fields f r H) as (t & E & F). exists t. split; [exact E|]. split; [|exact F].
  rewrite serialise_is_spec, F. reflexivity.
Qed.

(* ------------------------------------------------------------------ *)
(* 4. accessors, on the raw fields of the value *)
Section Accessors.
  Variable H : bytes -> bytes.     (* the transaction-id hash (double SHA-256 in the library); the clause holds for any function *)

  Lemma tx_id_spec t : tx_id H t = rev (H (encode_tx_spec (fields_of t))).
  Proof. unfold tx_id. rewrite serialise_is_spec. reflexivity. Qed.
End Accessors.

Lemma tx_size_spec t : tx_size t = N.of_nat (length (encode_tx_spec (fields_of t))).
Proof. unfold tx_size. rewrite serialise_is_spec. reflexivity. Qed.

Lemma tx_outpoints_spec t : tx_outpoints t = spec_outpoints (fields_of t).
Proof. unfold tx_outpoints, spec_outpoints, fields_of. cbn [f_ins]. rewrite map_map. reflexivity. Qed.

Lemma txin_outpoint_le_spec i : txin_outpoint_bytes i true = spec_outpoint (in_fields_of i).
Proof. reflexivity. Qed.

Lemma tx_is_coinbase_spec t : tx_is_coinbase t = spec_is_coinbase (fields_of t).
Proof.
  unfold tx_is_coinbase, spec_is_coinbase, fields_of. cbn [f_ins].
  destruct (inputs t) as [|i [|j l]]; reflexivity.
Qed.

(* exactly one input, and it spends the null outpoint (32 zero bytes, index 0xffffffff) *)
Lemma tx_is_coinbase_iff t :
  tx_is_coinbase t = true <->
  exists i, inputs t = [i] /\ prev_tx_id i = repeat x00 32 /\ vout i = 4294967295.
Proof.
  unfold tx_is_coinbase, is_coinbase_outpoint. split.
  - destruct (inputs t) as [|i [|j l]]; try discriminate. intros E. apply andb_true_iff in E. destruct E as [E1 E2].
    apply bytes_eqb_eq in E1. exists i. split; [reflexivity|]. split; [exact E1 | lia].
  - intros (i & -> & E1 & E2). rewrite E1, E2. unfold zeros32. rewrite bytes_eqb_refl. reflexivity.
Qed.

Definition sat_step (oc : bool) (acc : outcome N) (o : txout) : outcome N :=
  do a <- acc; let s := a + value o in
  if s <=? u64max then Ok s else if oc then Panic else Ok (s mod 18446744073709551616).

Lemma sum_values_map l : sum_values (map out_fields_of l) = fold_right (fun o s => value o + s) 0 l.
Proof. induction l as [|o l IH]; cbn [map sum_values fold_right f_value out_fields_of]; [reflexivity | rewrite IH; reflexivity]. Qed.

Lemma sat_fold_ok oc l : forall acc,
  acc + sum_values (map out_fields_of l) < u64 ->
  fold_left (sat_step oc) l (Ok acc) = Ok (acc + sum_values (map out_fields_of l)).
Proof.
  unfold u64. induction l as [|o l IH]; intros acc Hs; cbn [map sum_values fold_left f_value out_fields_of] in *.
  - f_equal. lia.
  - unfold sat_step at 2. cbn [bind]. unfold u64max. replace (acc + value o <=? 18446744073709551615) with true by lia.
    rewrite IH by lia. f_equal. lia.
Qed.

(* the total of the outputs, whenever a u64 can hold it (either build profile) *)
Lemma satoshis_out_spec oc t :
  spec_total_out (fields_of t) < u64 -> satoshis_out oc t = Ok (spec_total_out (fields_of t)).
Proof.
  intros Hs. unfold satoshis_out, spec_total_out, fields_of in *. cbn [f_outs] in *.
  change (fold_left (sat_step oc) (outputs t) (Ok 0) = Ok (sum_values (map out_fields_of (outputs t)))).
  rewrite sat_fold_ok by (rewrite N.add_0_l; exact Hs). rewrite N.add_0_l. reflexivity.
Qed.

Lemma sat_fold_panic l : fold_left (sat_step true) l Panic = Panic.
Proof. induction l as [|o l IH]; cbn [fold_left]; [reflexivity | exact IH]. Qed.

Lemma sat_fold_overflow l : forall acc,
  u64 <= acc + sum_values (map out_fields_of l) -> acc < u64 ->
  fold_left (sat_step true) l (Ok acc) = Panic.
Proof.
  unfold u64. induction l as [|o l IH]; intros acc Hs Ha; cbn [map sum_values fold_left f_value out_fields_of] in *.
  - lia.
  - unfold sat_step at 2. cbn [bind]. unfold u64max.
    destruct (acc + value o <=? 18446744073709551615) eqn:E.
    + apply IH; lia.
    + apply sat_fold_panic.
Qed.

(* the finding: from 2^64 on the accessor panics in the overflow-checking profile *)
Lemma satoshis_out_overflow t :
  u64 <= spec_total_out (fields_of t) -> satoshis_out true t = Panic.
Proof.
  intros Hs. unfold satoshis_out, spec_total_out, fields_of in *. cbn [f_outs] in *.
  change (fold_left (sat_step true) (outputs t) (Ok 0) = Panic).
  apply sat_fold_overflow; [rewrite N.add_0_l; exact Hs | unfold u64; lia].
Qed.

Lemma accessors_of_fields (H : bytes -> bytes) t oc :
  tx_size t = N.of_nat (length (encode_tx_spec (fields_of t))) /\ tx_id H t = rev (H (encode_tx_spec (fields_of t)))
  /\ tx_outpoints t = spec_outpoints (fields_of t) /\ tx_is_coinbase t = spec_is_coinbase (fields_of t)
  /\ (spec_total_out (fields_of t) < u64 -> satoshis_out oc t = Ok (spec_total_out (fields_of t))).
Proof.
  exact (conj (tx_size_spec t) (conj (tx_id_spec H t) (conj (tx_outpoints_spec t)
          (conj (tx_is_coinbase_spec t) (satoshis_out_spec oc t))))).
Qed.

(* ------------------------------------------------------------------ *)
(* 5. construction API: Transaction::new; TxIn::new; add_input ...; TxOut::new; add_output ... *)
Definition api_in : Type := bytes * N * list bit * option N.
Definition api_out : Type := N * list bit.
Definition api_add_in (t : tx) (a : api_in) : tx :=
  let '(id, vo, scr, sq) := a in add_input t (txin_new id vo scr sq).
Definition api_add_out (t : tx) (a : api_out) : tx :=
  let '(v, scr) := a in add_output t (txout_new v scr).
Definition build (ver lt : N) (ins : list api_in) (outs : list api_out) : tx :=
  fold_left api_add_out outs (fold_left api_add_in ins (tx_new ver lt)).

Definition api_in_fields (a : api_in) : in_fields :=
  let '(id, vo, scr, sq) := a in mk_in id vo (to_bytes scr) (match sq with Some v => v | None => 4294967295 end).
Definition api_out_fields (a : api_out) : out_fields := let '(v, scr) := a in mk_out v (to_bytes scr).

Lemma fold_add_in l : forall t,
  fields_of (fold_left api_add_in l t) =
  mk_fields (version t) (map in_fields_of (inputs t) ++ map api_in_fields l) (map out_fields_of (outputs t)) (locktime t).
Proof.
  induction l as [|[[[id vo] scr] sq] l IH]; intros t; cbn [fold_left map].
  - rewrite app_nil_r. reflexivity.
  - rewrite IH. unfold api_add_in, add_input. cbn [version inputs outputs locktime]. rewrite map_app. cbn [map].
    rewrite <- app_assoc. reflexivity.
Qed.
Lemma fold_add_out l : forall t,
  fields_of (fold_left api_add_out l t) =
  mk_fields (version t) (map in_fields_of (inputs t)) (map out_fields_of (outputs t) ++ map api_out_fields l) (locktime t).
Proof.
  induction l as [|[v scr] l IH]; intros t; cbn [fold_left map].
  - rewrite app_nil_r. reflexivity.
  - rewrite IH. unfold api_add_out, add_output. cbn [version inputs outputs locktime]. rewrite map_app. cbn [map].
    rewrite <- app_assoc. reflexivity.
Qed.

Theorem construction_api ver lt ins outs :
  tx_bytes (build ver lt ins outs) = encode_tx_spec (mk_fields ver (map api_in_fields ins) (map api_out_fields outs) lt).
Proof.
  rewrite serialise_is_spec. unfold build. rewrite fold_add_out.
  pose proof (fold_add_in ins (tx_new ver lt)) as F. unfold fields_of in F at 1.
  injection F as F1 F2 F3 F4. rewrite F1, F2, F3, F4. reflexivity.
Qed.

(* rebuilding a value through the API from its own fields gives the same bytes *)
Definition api_of_in (i : txin) : api_in := (prev_tx_id i, vout i, unlocking i, Some (sequence i)).
Definition api_of_out (o : txout) : api_out := (value o, script_pub_key o).
Corollary construction_api_same_bytes t :
  tx_bytes (build (version t) (locktime t) (map api_of_in (inputs t)) (map api_of_out (outputs t))) = tx_bytes t.
Proof.
  rewrite construction_api, serialise_is_spec. unfold fields_of. rewrite !map_map. reflexivity.
Qed.

(* ------------------------------------------------------------------ *)
(* 6. what the script parser produces re-parses: needed for the normalisation clause *)
Local Close Scope N_scope.

Definition tok_wf (b : bit) : Prop :=
  match b with
  | BOp c => (c < 256)%N /\ is_opcode c = true /\ negb (c =? 0)%N && (c <? 76)%N = false
             /\ (c =? 76)%N || (c =? 77)%N || (c =? 78)%N = false
  | BPush d => length d <= 75
  | BPushData c d => (c = 76 \/ c = 77 \/ c = 78)%N /\ (N.of_nat (length d) < 256 ^ N.of_nat (pushdata_width c))%N
  | _ => False
  end.

Lemma tokenize_wf : forall f bs ts, tokenize f bs = Ok ts -> Forall tok_wf ts /\ length (to_bytes ts) <= length bs.
Proof.
  induction f as [|f IH]; intros bs ts H; (destruct bs as [|b r]; [inv H; split; [constructor|cbn; lia]|]); [discriminate|].
  cbn [tokenize] in H. pose proof (b2n_lt b) as Hb.
  destruct (negb (b2n b =? 0)%N && (b2n b <? 76)%N) eqn:E1.
  - destruct (tokenize f _) as [rest| |] eqn:E; cbn [bind] in H; try discriminate. inv H.
    apply IH in E. destruct E as [W L]. split.
    + constructor; [|exact W]. cbn [tok_wf]. rewrite firstn_length. lia.
    + cbn [to_bytes bit_bytes length app]. rewrite app_length.
      pose proof (firstn_skipn (N.to_nat (b2n b)) r) as FS. apply (f_equal (@length byte)) in FS. rewrite app_length in FS. lia.
  - destruct (is_opcode (b2n b)) eqn:Eop; [|discriminate].
    destruct ((b2n b =? 76)%N || (b2n b =? 77)%N || (b2n b =? 78)%N) eqn:E2.
    + destruct (read_le _ r) as [[len r1]|] eqn:Er; [|discriminate].
      destruct (read_exactN _ r1) as [[d r2]|] eqn:Ed; [|discriminate].
      destruct (tokenize f r2) as [rest| |] eqn:E; cbn [bind] in H; try discriminate. inv H.
      apply IH in E. destruct E as [W L].
      apply read_le_inv in Er. destruct Er as (a & -> & La & _ & Hlen).
      apply read_exactN_spec in Ed. destruct Ed as [-> Hd].
      split.
      * constructor; [|exact W]. cbn [tok_wf]. split; [lia|]. rewrite Hd.
        unfold pushdata_width. exact Hlen.
      * cbn [to_bytes bit_bytes length app]. rewrite !app_length, le_bytes_length. unfold pushdata_width. lia.
    + destruct (tokenize f r) as [rest| |] eqn:E; cbn [bind] in H; try discriminate. inv H.
      apply IH in E. destruct E as [W L]. split.
      * constructor; [|exact W]. cbn [tok_wf]. auto.
      * cbn [to_bytes bit_bytes length app]. lia.
Qed.

Definition norm (b : bit) : bit := match b with BPush [] => BOp 0 | x => x end.

Lemma is_opcode_0 : is_opcode 0 = true. Proof. vm_compute. reflexivity. Qed.
Lemma is_opcode_76 : is_opcode 76 = true. Proof. vm_compute. reflexivity. Qed.
Lemma is_opcode_77 : is_opcode 77 = true. Proof. vm_compute. reflexivity. Qed.
Lemma is_opcode_78 : is_opcode 78 = true. Proof. vm_compute. reflexivity. Qed.

Lemma firstn_app_exact {A} (a b : list A) : firstn (length a) (a ++ b) = a.
Proof. rewrite firstn_app, Nat.sub_diag, firstn_all. cbn. apply app_nil_r. Qed.
Lemma skipn_app_exact {A} (a b : list A) : skipn (length a) (a ++ b) = b.
Proof. rewrite skipn_app, Nat.sub_diag, skipn_all. reflexivity. Qed.

Lemma firstn_app_len {A} n (a b : list A) : length a = n -> firstn n (a ++ b) = a.
Proof. intros <-. apply firstn_app_exact. Qed.
Lemma skipn_app_len {A} n (a b : list A) : length a = n -> skipn n (a ++ b) = b.
Proof. intros <-. apply skipn_app_exact. Qed.

(* re-tokenizing the serialisation of tokenizer output: same tokens (an empty push, the residue of a
   direct push truncated to nothing, comes back as OP_0 — same byte), and the independent tokenizer
   accepts it too, so it is outside C02's class *)
Lemma retokenize : forall ts, Forall tok_wf ts -> forall f, length (to_bytes ts) <= f ->
  tokenize f (to_bytes ts) = Ok (map norm ts) /\ exists tks, tok_spec f (to_bytes ts) = TokOk tks.
Proof.
  induction ts as [|x ts IH]; intros W f Hf.
  - split; [destruct f; reflexivity | exists []; destruct f; reflexivity].
  - inversion W as [|? ? Wx Wts]; subst. cbn [to_bytes map] in *. rewrite app_length in Hf.
    destruct x as [c|d|c d|c p q|d]; cbn [tok_wf] in Wx; try contradiction.
    + (* opcode *)
      destruct Wx as (Hc & Hop & H1 & H2). cbn [bit_bytes app length] in *.
      destruct f as [|f]; [lia|]. destruct (IH Wts f ltac:(lia)) as (IHa & tks & IHb).
      cbn [tokenize tok_spec]. rewrite b2n_n2b by exact Hc. rewrite H1, Hop, H2, IHa. cbn [bind norm]. split; [reflexivity|].
      replace ((1 <=? c)%N && (c <=? 75)%N) with false by lia.
      replace ((76 <=? c)%N && (c <=? 78)%N) with false by lia.
      rewrite ?Hop, IHb. cbn [tcons]. eauto.
    + (* direct push *)
      cbn [bit_bytes app length] in *. destruct f as [|f]; [lia|].
      destruct (IH Wts f ltac:(lia)) as (IHa & tks & IHb).
      cbn [tokenize tok_spec]. rewrite b2n_n2b by lia.
      destruct d as [|d0 d'].
      * cbn [length app]. change (N.of_nat 0) with 0%N. change (negb (0 =? 0)%N && (0 <? 76)%N) with false.
        cbv iota. rewrite is_opcode_0. change ((0 =? 76)%N || (0 =? 77)%N || (0 =? 78)%N) with false. cbv iota.
        rewrite IHa. cbn [bind norm]. split; [reflexivity|].
        change ((1 <=? 0)%N && (0 <=? 75)%N) with false. change ((76 <=? 0)%N && (0 <=? 78)%N) with false. cbv iota.
        rewrite ?is_opcode_0, IHb. cbn [tcons]. eauto.
      * set (dd := d0 :: d') in *. assert (Hl : 1 <= length dd) by (unfold dd; cbn; lia).
        replace (negb (N.of_nat (length dd) =? 0)%N && (N.of_nat (length dd) <? 76)%N) with true by lia.
        rewrite Nat2N.id, firstn_app_exact, skipn_app_exact, IHa. cbn [bind]. split; [reflexivity|].
        replace ((1 <=? N.of_nat (length dd))%N && (N.of_nat (length dd) <=? 75)%N) with true by lia.
        rewrite app_length. replace (N.of_nat (length dd + length (to_bytes ts)) <? N.of_nat (length dd))%N with false by lia.
        rewrite ?Nat2N.id, ?firstn_app_exact, ?skipn_app_exact, IHb. cbn [tcons]. eauto.
    + (* OP_PUSHDATAn *)
      destruct Wx as (Hc & Hlen).
      assert (Hw : length (le_bytes (pushdata_width c) (N.of_nat (length d))) = pushdata_width c) by apply le_bytes_length.
      cbn [bit_bytes app length] in *. rewrite !app_length, Hw in Hf. destruct f as [|f]; [lia|].
      destruct (IH Wts f ltac:(lia)) as (IHa & tks & IHb).
      cbn [tokenize tok_spec]. rewrite b2n_n2b by lia.
      replace (negb (c =? 0)%N && (c <? 76)%N) with false by lia.
      replace ((c =? 76)%N || (c =? 77)%N || (c =? 78)%N) with true by lia.
      assert (Hop : is_opcode c = true) by (destruct Hc as [->|[->| ->]]; [apply is_opcode_76|apply is_opcode_77|apply is_opcode_78]).
      rewrite Hop.
      change (if (c =? 76)%N then 1 else if (c =? 77)%N then 2 else 4) with (pushdata_width c).
      rewrite <- !app_assoc. rewrite read_le_app by exact Hlen. rewrite read_exactN_app, IHa. cbn [bind]. split; [reflexivity|].
      replace ((1 <=? c)%N && (c <=? 75)%N) with false by lia.
      replace ((76 <=? c)%N && (c <=? 78)%N) with true by lia.
      change (len_width c) with (pushdata_width c).
      rewrite !app_length, Hw.
      replace (Nat.ltb (pushdata_width c + (length d + length (to_bytes ts))) (pushdata_width c)) with false
        by (symmetry; apply Nat.ltb_ge; lia).
      rewrite !(firstn_app_len _ _ _ Hw), !(skipn_app_len _ _ _ Hw).
      rewrite le_val_le_bytes_small by exact Hlen.
      rewrite app_length. replace (N.of_nat (length d + length (to_bytes ts)) <? N.of_nat (length d))%N with false by lia.
      rewrite ?Nat2N.id, ?firstn_app_exact, ?skipn_app_exact, IHb. cbn [tcons]. eauto.
Qed.

(* nesting is insensitive to that renaming: OP_0 and a push are both plain elements *)
Lemma nest_norm : forall fuel m ts bs t r,
  nest fuel m ts = Ok (bs, t, r) -> exists bs', nest fuel m (map norm ts) = Ok (bs', t, map norm r).
Proof.
  induction fuel as [|f IH]; intros m ts bs t r H; [discriminate|].
  cbn [nest] in H. destruct ts as [|x ts'].
  - destruct m; inv H. exists []. reflexivity.
  - cbn [map].
    assert (Hplain : forall o o',
      (do y <- nest f m ts'; let '(bs0, t0, r') := y in Ok (o :: bs0, t0, r')) = Ok (bs, t, r) ->
      exists bs', (do y <- nest f m (map norm ts'); let '(bs0, t0, r') := y in Ok (o' :: bs0, t0, r')) = Ok (bs', t, map norm r)).
    { intros o o' Ho. destruct (nest f m ts') as [[[bs1 t1] r1]| |] eqn:E; cbn [bind] in Ho; try discriminate. inv Ho.
      apply IH in E. destruct E as (bs' & E). rewrite E. cbn [bind]. eauto. }
    destruct x as [c|d|c d|c p q|d].
    + cbn [norm nest]. destruct (is_if c) eqn:Hif.
      * destruct (nest f Pass ts') as [[[p tp] r1]| |] eqn:H1; try discriminate.
        apply IH in H1. destruct H1 as (p' & H1). rewrite H1.
        destruct tp; [discriminate| |].
        -- destruct (nest f Fail r1) as [[[q tq] r2]| |] eqn:H2; try discriminate.
           apply IH in H2. destruct H2 as (q' & H2). rewrite H2.
           destruct tq; try discriminate.
           destruct (nest f m r2) as [[[bs1 t1] r3]| |] eqn:H3; cbn [bind] in H; try discriminate. inv H.
           apply IH in H3. destruct H3 as (b3 & H3). rewrite H3. cbn [bind]. eauto.
        -- destruct (nest f m r1) as [[[bs1 t1] r3]| |] eqn:H3; cbn [bind] in H; try discriminate. inv H.
           apply IH in H3. destruct H3 as (b3 & H3). rewrite H3. cbn [bind]. eauto.
      * destruct m, (c =? OP_ELSE)%N, (c =? OP_ENDIF)%N;
          try (inv H; eexists; reflexivity); try (eapply Hplain; exact H).
    + destruct d as [|d0 d'].
      * cbn [norm nest]. change (is_if 0) with false. cbv iota.
        change (0 =? OP_ELSE)%N with false. change (0 =? OP_ENDIF)%N with false.
        destruct m; eapply Hplain; exact H.
      * cbn [norm nest]. eapply Hplain; exact H.
    + cbn [norm nest]. eapply Hplain; exact H.
    + cbn [norm nest]. eapply Hplain; exact H.
    + cbn [norm nest]. eapply Hplain; exact H.
Qed.

Lemma to_bytes_norm ts : to_bytes (map norm ts) = to_bytes ts.
Proof.
  induction ts as [|x ts IH]; cbn [map to_bytes]; [reflexivity|]. rewrite IH. f_equal.
  destruct x as [c|[|d0 d']|c d|c p q|d]; reflexivity.
Qed.

Lemma is_flat_norm ts : is_flat ts = true -> is_flat (map norm ts) = true.
Proof.
  induction ts as [|x ts IH]; cbn [map is_flat]; [reflexivity|].
  destruct x as [c|[|d0 d']|c d|c p q|d]; cbn [norm is_flat]; auto.
Qed.

(* The serialisation of a parsed script is itself accepted, lies outside C02's class, and is not longer
   than what was parsed.  (Hence it is a fixed point of parse-then-serialise, by C02's round-trip.) *)
Lemma reparse_script sb s :
  from_bytes sb = Ok s ->
  script_ok (to_bytes s) /\ length (to_bytes s) <= length sb.
Proof.
  unfold from_bytes. intros H.
  destruct (tokenize (length sb) sb) as [ts| |] eqn:Et; cbn [bind] in H; try discriminate.
  pose proof (tokenize_flat _ _ _ Et) as Hfl.
  pose proof (nest_top_flats _ _ Hfl H) as Hfs.
  assert (Eb : to_bytes s = to_bytes ts) by (rewrite <- to_bytes_flats, Hfs; reflexivity).
  destruct (tokenize_wf _ _ _ Et) as [W L].
  destruct (retokenize ts W (length (to_bytes ts)) (Nat.le_refl _)) as (Rt & tks & Rs).
  rewrite Eb. split; [|exact L]. split.
  - unfold from_bytes. rewrite Rt. cbn [bind].
    unfold nest_top in *.
    destruct (nest (S (length ts)) Top ts) as [[[b t] r]| |] eqn:En; cbn [bind] in H; try discriminate.
    apply nest_norm in En. destruct En as (b' & En). rewrite map_length, En. cbn [bind]. eauto.
  - unfold truncated_tail, tokenize_spec. rewrite Rs. reflexivity.
Qed.

(* ------------------------------------------------------------------ *)
(* 7. what the parser returns is in range and re-encodable: normalisation *)
Local Open Scope N_scope.

Lemma read32_padded_length bs : length (fst (read32_padded bs)) = 32%nat.
Proof.
  unfold read32_padded. cbn [fst]. rewrite app_length, repeat_length.
  pose proof (firstn_le_length 32 bs). lia.
Qed.

Lemma txin_read_ok bs i r : txin_read bs = Ok (i, r) -> in_ok (in_fields_of i).
Proof.
  unfold txin_read. pose proof (read32_padded_length bs) as L32.
  destruct (read32_padded bs) as [idle r0]. cbn [fst] in L32.
  destruct (read_le 4 r0) as [[vo r1]|] eqn:E1; cbn [of_option bind]; [|discriminate].
  destruct (read_varint r1) as [[slen r2]| |] eqn:E2; cbn [bind]; try discriminate.
  destruct (read_exactN slen r2) as [[sb r3]|] eqn:E3; cbn [of_option bind]; [|discriminate].
  destruct (read_le 4 r3) as [[sq r4]|] eqn:E4; cbn [of_option bind]; [|discriminate].
  apply read_le_inv in E1. destruct E1 as (_ & _ & _ & _ & Hvo). rewrite pow256_4 in Hvo.
  apply read_le_inv in E4. destruct E4 as (_ & _ & _ & _ & Hsq). rewrite pow256_4 in Hsq.
  apply read_varint_inv in E2. destruct E2 as (Hslen & _).
  apply read_exactN_spec in E3. destruct E3 as (_ & Hsb).
  destruct (is_coinbase_outpoint (rev idle) vo) eqn:Ecb.
  - cbn [bind]. intros H; inversion H; subst. unfold in_ok, in_range, in_fields_of. cbn [f_prev f_vout f_script f_seq prev_tx_id vout unlocking sequence].
    rewrite rev_length. cbn [to_bytes bit_bytes]. rewrite app_nil_r.
    split; [split; [exact L32 | split; [exact Hvo | split; [exact Hsq | exact Hslen]]]|].
    rewrite null_outpoint_model. cbn [f_prev f_vout]. rewrite Ecb. discriminate.
  - destruct (from_bytes sb) as [scr| |] eqn:Es; cbn [bind]; try discriminate.
    intros H; inversion H; subst. unfold in_ok, in_range, in_fields_of. cbn [f_prev f_vout f_script f_seq prev_tx_id vout unlocking sequence].
    rewrite rev_length. destruct (reparse_script _ _ Es) as [Hok Hl].
    split; [split; [exact L32 | split; [exact Hvo | split; [exact Hsq | unfold u64 in *; lia]]]|]. intros _. exact Hok.
Qed.

Lemma txout_read_ok bs o r : txout_read bs = Ok (o, r) -> out_ok (out_fields_of o).
Proof.
  unfold txout_read.
  destruct (read_le 8 bs) as [[v r1]|] eqn:E1; cbn [of_option bind]; [|discriminate].
  destruct (read_varint r1) as [[slen r2]| |] eqn:E2; cbn [bind]; try discriminate.
  destruct (read_exactN slen r2) as [[sb r3]|] eqn:E3; cbn [of_option bind]; [|discriminate].
  destruct (from_bytes sb) as [scr| |] eqn:Es; cbn [bind]; try discriminate.
  intros H; inversion H; subst.
  apply read_le_inv in E1. destruct E1 as (_ & _ & _ & _ & Hv). rewrite pow256_8 in Hv.
  apply read_varint_inv in E2. destruct E2 as (Hslen & _).
  apply read_exactN_spec in E3. destruct E3 as (_ & Hsb).
  destruct (reparse_script _ _ Es) as [Hok Hl].
  unfold out_ok, out_range, out_fields_of. cbn [f_value f_pk value script_pub_key].
  split; [split; [exact Hv | unfold u64 in *; lia] | exact Hok].
Qed.

Lemma read_many_inv {A} (rd : bytes -> outcome (A * bytes)) (P : A -> Prop) :
  (forall bs a r, rd bs = Ok (a, r) -> P a) ->
  forall fuel n bs l r, read_many rd fuel n bs = Ok (l, r) -> Forall P l /\ N.of_nat (length l) = n.
Proof.
  intros HP. induction fuel as [|f IH]; intros n bs l r H; cbn [read_many] in H;
    destruct (n =? 0) eqn:En; try discriminate; try (inversion H; subst; split; [constructor | cbn; lia]).
  destruct (rd bs) as [[a r1]| |] eqn:Ea; cbn [bind] in H; try discriminate.
  destruct (read_many rd f (n - 1) r1) as [[l1 r2]| |] eqn:El; cbn [bind] in H; try discriminate.
  inversion H; subst. apply IH in El. destruct El as [Fl Ll]. apply HP in Ea.
  split; [constructor; assumption | cbn [length]; lia].
Qed.

Lemma parse_fields_ok bs t : tx_from_bytes bs = Ok t -> fields_ok (fields_of t).
Proof.
  unfold tx_from_bytes.
  destruct (read_le 4 bs) as [[ver r0]|] eqn:E0; cbn [of_option bind]; [|discriminate].
  destruct (read_varint r0) as [[nin r1]| |] eqn:E1; cbn [bind]; try discriminate.
  destruct (read_many txin_read _ nin r1) as [[ins r2]| |] eqn:E2; cbn [bind]; try discriminate.
  destruct (read_varint r2) as [[nout r3]| |] eqn:E3; cbn [bind]; try discriminate.
  destruct (read_many txout_read _ nout r3) as [[outs r4]| |] eqn:E4; cbn [bind]; try discriminate.
  destruct (read_le 4 r4) as [[lt r5]|] eqn:E5; cbn [of_option bind]; [|discriminate].
  intros H; inversion H; subst.
  apply read_le_inv in E0. destruct E0 as (_ & _ & _ & _ & Hver). rewrite pow256_4 in Hver.
  apply read_le_inv in E5. destruct E5 as (_ & _ & _ & _ & Hlt). rewrite pow256_4 in Hlt.
  apply read_varint_inv in E1. destruct E1 as (Hnin & _).
  apply read_varint_inv in E3. destruct E3 as (Hnout & _).
  apply (read_many_inv txin_read (fun i => in_ok (in_fields_of i)) txin_read_ok) in E2. destruct E2 as [Fi Li].
  apply (read_many_inv txout_read (fun o => out_ok (out_fields_of o)) txout_read_ok) in E4. destruct E4 as [Fo Lo].
  unfold fields_ok, fields_of. cbn [f_version f_ins f_outs f_locktime version inputs outputs locktime].
  rewrite !map_length, Li, Lo.
  split; [exact Hver|]. split; [exact Hlt|]. split; [exact Hnin|]. split; [exact Hnout|]. split; apply Forall_map; assumption.
Qed.

(* Whatever byte string the parser accepts (non-minimal compact sizes, trailing bytes, a script from C02's class
   that was shortened, ...), the serialisation of the result is accepted again and re-serialises to itself. *)
Theorem normalises_to_fixpoint bs t :
  tx_from_bytes bs = Ok t ->
  exists t', tx_from_bytes (tx_bytes t) = Ok t' /\ tx_bytes t' = tx_bytes t /\ fields_of t' = fields_of t.
Proof.
  intros H. apply parse_fields_ok in H.
  destruct (parse_encode (fields_of t) [] H) as (t' & E & B & F). rewrite app_nil_r in E.
  exists t'. rewrite serialise_is_spec. auto.
Qed.

(* ------------------------------------------------------------------ *)
(* 8. the independent decoder: it inverts the encoder, its output is in range, and a byte string it calls
   canonical IS the encoding of the decoded fields *)
Lemma take_exact_app n a r : length a = n -> take_exact n (a ++ r) = Some (a, r).
Proof.
  intros L. unfold take_exact. rewrite app_length.
  replace (Nat.ltb (length a + length r) n) with false by (symmetry; apply Nat.ltb_ge; lia).
  rewrite (firstn_app_len _ _ _ L), (skipn_app_len _ _ _ L). reflexivity.
Qed.
Lemma take_exact_inv n bs a r : take_exact n bs = Some (a, r) -> bs = a ++ r /\ length a = n.
Proof.
  unfold take_exact. destruct (Nat.ltb (length bs) n) eqn:E; [discriminate|]. apply Nat.ltb_ge in E.
  intros H; inversion H; subst. split; [symmetry; apply firstn_skipn | apply firstn_length_le; exact E].
Qed.
Lemma take_int_app w n r : n < 256 ^ N.of_nat w -> take_int w (le_bytes w n ++ r) = Some (n, r).
Proof. intros H. unfold take_int. rewrite take_exact_app by apply le_bytes_length. rewrite le_val_le_bytes_small by exact H. reflexivity. Qed.
Lemma take_int_inv w bs v r :
  take_int w bs = Some (v, r) -> exists a, bs = a ++ r /\ length a = w /\ v = le_val a /\ v < 256 ^ N.of_nat w.
Proof.
  unfold take_int. destruct (take_exact w bs) as [[a r']|] eqn:E; [|discriminate]. intros H; inversion H; subst.
  apply take_exact_inv in E. destruct E as [-> <-]. exists a. repeat split. apply le_val_bound.
Qed.
Lemma take_len_app a r : take_len (N.of_nat (length a)) (a ++ r) = Some (a, r).
Proof.
  unfold take_len. rewrite app_length. replace (N.of_nat (length a + length r) <? N.of_nat (length a)) with false by lia.
  rewrite Nat2N.id, firstn_app_exact, skipn_app_exact. reflexivity.
Qed.
Lemma take_len_inv n bs a r : take_len n bs = Some (a, r) -> bs = a ++ r /\ N.of_nat (length a) = n.
Proof.
  unfold take_len. destruct (N.of_nat (length bs) <? n) eqn:E; [discriminate|]. intros H; inversion H; subst.
  split; [symmetry; apply firstn_skipn | rewrite firstn_length_le by lia; lia].
Qed.

Lemma b2n_fd : b2n xfd = 253. Proof. reflexivity. Qed.
Lemma b2n_fe : b2n xfe = 254. Proof. reflexivity. Qed.
Lemma b2n_ff : b2n xff = 255. Proof. reflexivity. Qed.

Lemma read_compact_compact n r : n < u64 -> read_compact (compact n ++ r) = Some (n, true, r).
Proof.
  unfold u64, compact. intros Hn.
  destruct (n <? 253) eqn:E1; [|destruct (n <? 65536) eqn:E2; [|destruct (n <? 4294967296) eqn:E3]]; cbn [app read_compact].
  - rewrite b2n_n2b by lia. rewrite E1. reflexivity.
  - rewrite b2n_fd. change (253 <? 253) with false. change (253 =? 253) with true. cbv iota.
    rewrite take_int_app by (rewrite pow256_2; lia). replace (253 <=? n) with true by lia. reflexivity.
  - rewrite b2n_fe. change (254 <? 253) with false. change (254 =? 253) with false. change (254 =? 254) with true. cbv iota.
    rewrite take_int_app by (rewrite pow256_4; lia). replace (65536 <=? n) with true by lia. reflexivity.
  - rewrite b2n_ff. change (255 <? 253) with false. change (255 =? 253) with false. change (255 =? 254) with false. cbv iota.
    rewrite take_int_app by (rewrite pow256_8; lia). replace (4294967296 <=? n) with true by lia. reflexivity.
Qed.

Lemma read_compact_inv bs n m r :
  read_compact bs = Some (n, m, r) -> n < u64 /\ (m = true -> bs = compact n ++ r).
Proof.
  unfold u64. destruct bs as [|b bs']; [discriminate|]. cbn [read_compact]. pose proof (b2n_lt b) as Hb.
  destruct (b2n b <? 253) eqn:E0.
  - intros H; inversion H; subst. split; [lia|]. intros _. unfold compact. rewrite E0, n2b_b2n. reflexivity.
  - destruct (b2n b =? 253) eqn:E1; [|destruct (b2n b =? 254) eqn:E2].
    + destruct (take_int 2 bs') as [[v r']|] eqn:E; [|discriminate]. intros H; inversion H; subst.
      apply take_int_inv in E. destruct E as (a & -> & La & -> & Hv). rewrite pow256_2 in Hv. split; [lia|].
      intros Hm. unfold compact. replace (le_val a <? 253) with false by lia. replace (le_val a <? 65536) with true by lia.
      rewrite <- La, le_bytes_le_val. cbn [app]. f_equal. apply b2n_inj. rewrite b2n_fd. lia.
    + destruct (take_int 4 bs') as [[v r']|] eqn:E; [|discriminate]. intros H; inversion H; subst.
      apply take_int_inv in E. destruct E as (a & -> & La & -> & Hv). rewrite pow256_4 in Hv. split; [lia|].
      intros Hm. unfold compact. replace (le_val a <? 253) with false by lia. replace (le_val a <? 65536) with false by lia.
      replace (le_val a <? 4294967296) with true by lia.
      rewrite <- La, le_bytes_le_val. cbn [app]. f_equal. apply b2n_inj. rewrite b2n_fe. lia.
    + destruct (take_int 8 bs') as [[v r']|] eqn:E; [|discriminate]. intros H; inversion H; subst.
      apply take_int_inv in E. destruct E as (a & -> & La & -> & Hv). rewrite pow256_8 in Hv. split; [lia|].
      intros Hm. unfold compact. replace (le_val a <? 253) with false by lia. replace (le_val a <? 65536) with false by lia.
      replace (le_val a <? 4294967296) with false by lia.
      rewrite <- La, le_bytes_le_val. cbn [app]. f_equal. apply b2n_inj. rewrite b2n_ff. lia.
Qed.

Lemma decode_in_encode i r : in_range i -> decode_in (encode_in i ++ r) = Some (i, true, r).
Proof.
  intros (Lid & Hvo & Hsq & Hlen). destruct i as [prev vo scr sq]. cbn [f_prev f_vout f_script f_seq] in *.
  unfold encode_in, decode_in. cbn [f_prev f_vout f_script f_seq]. rewrite <- !app_assoc.
  rewrite take_exact_app by (rewrite rev_length; exact Lid).
  rewrite take_int_app by (rewrite pow256_4; exact Hvo).
  rewrite read_compact_compact by exact Hlen. rewrite take_len_app.
  rewrite take_int_app by (rewrite pow256_4; exact Hsq). rewrite rev_involutive. reflexivity.
Qed.
Lemma decode_out_encode o r : out_range o -> decode_out (encode_out o ++ r) = Some (o, true, r).
Proof.
  intros (Hv & Hlen). destruct o as [v scr]. cbn [f_value f_pk] in *.
  unfold encode_out, decode_out. cbn [f_value f_pk]. rewrite <- !app_assoc.
  rewrite take_int_app by (rewrite pow256_8; exact Hv).
  rewrite read_compact_compact by exact Hlen. rewrite take_len_app. reflexivity.
Qed.

Lemma decode_in_inv bs i m r : decode_in bs = Some (i, m, r) -> in_range i /\ (m = true -> bs = encode_in i ++ r).
Proof.
  unfold decode_in.
  destruct (take_exact 32 bs) as [[idw r0]|] eqn:E0; [|discriminate].
  destruct (take_int 4 r0) as [[vo r1]|] eqn:E1; [|discriminate].
  destruct (read_compact r1) as [[[len m'] r2]|] eqn:E2; [|discriminate].
  destruct (take_len len r2) as [[scr r3]|] eqn:E3; [|discriminate].
  destruct (take_int 4 r3) as [[sq r4]|] eqn:E4; [|discriminate].
  intros H; inversion H; subst.
  apply take_exact_inv in E0. destruct E0 as [-> L0].
  apply take_int_inv in E1. destruct E1 as (a1 & -> & La1 & -> & Hvo). rewrite pow256_4 in Hvo.
  apply read_compact_inv in E2. destruct E2 as (Hlen & Hm).
  apply take_len_inv in E3. destruct E3 as [-> Ls].
  apply take_int_inv in E4. destruct E4 as (a4 & -> & La4 & -> & Hsq). rewrite pow256_4 in Hsq.
  unfold in_range, encode_in. cbn [f_prev f_vout f_script f_seq]. rewrite rev_length, rev_involutive.
  split; [split; [exact L0 | split; [exact Hvo | split; [exact Hsq | rewrite Ls; exact Hlen]]]|].
  assert (B1 : le_bytes 4 (le_val a1) = a1) by (rewrite <- La1; apply le_bytes_le_val).
  assert (B4 : le_bytes 4 (le_val a4) = a4) by (rewrite <- La4; apply le_bytes_le_val).
  intros ->. rewrite (Hm eq_refl). rewrite Ls, B1, B4, <- !app_assoc. reflexivity.
Qed.
Lemma decode_out_inv bs o m r : decode_out bs = Some (o, m, r) -> out_range o /\ (m = true -> bs = encode_out o ++ r).
Proof.
  unfold decode_out.
  destruct (take_int 8 bs) as [[v r1]|] eqn:E1; [|discriminate].
  destruct (read_compact r1) as [[[len m'] r2]|] eqn:E2; [|discriminate].
  destruct (take_len len r2) as [[scr r3]|] eqn:E3; [|discriminate].
  intros H; inversion H; subst.
  apply take_int_inv in E1. destruct E1 as (a1 & -> & La1 & -> & Hv). rewrite pow256_8 in Hv.
  apply read_compact_inv in E2. destruct E2 as (Hlen & Hm).
  apply take_len_inv in E3. destruct E3 as [-> Ls].
  unfold out_range, encode_out. cbn [f_value f_pk].
  split; [split; [exact Hv | rewrite Ls; exact Hlen]|].
  assert (B1 : le_bytes 8 (le_val a1) = a1) by (rewrite <- La1; apply le_bytes_le_val).
  intros ->. rewrite (Hm eq_refl). rewrite Ls, B1, <- !app_assoc. reflexivity.
Qed.

Lemma decode_list_encode {A} (item : bytes -> option (A * bool * bytes)) (enc : A -> bytes) :
  forall l, (forall x, In x l -> forall r, item (enc x ++ r) = Some (x, true, r)) ->
  forall fuel r, (length l <= fuel)%nat ->
    decode_list item fuel (N.of_nat (length l)) (List.concat (map enc l) ++ r) = Some (l, true, r).
Proof.
  induction l as [|x l IH]; intros Hit fuel r Hf.
  - destruct fuel; reflexivity.
  - destruct fuel as [|f]; [cbn in Hf; lia|]. cbn [length map List.concat]. rewrite <- app_assoc.
    cbn [decode_list]. replace (N.of_nat (S (length l)) =? 0) with false by lia.
    rewrite (Hit x (or_introl eq_refl)).
    replace (N.of_nat (S (length l)) - 1) with (N.of_nat (length l)) by lia.
    rewrite (IH (fun y Hy => Hit y (or_intror Hy)) f r) by (cbn in Hf; lia). reflexivity.
Qed.

Lemma decode_list_inv {A} (item : bytes -> option (A * bool * bytes)) (enc : A -> bytes) (P : A -> Prop) :
  (forall bs a m r, item bs = Some (a, m, r) -> P a /\ (m = true -> bs = enc a ++ r)) ->
  forall fuel count bs l m r, decode_list item fuel count bs = Some (l, m, r) ->
    Forall P l /\ N.of_nat (length l) = count /\ (m = true -> bs = List.concat (map enc l) ++ r).
Proof.
  intros Hit. induction fuel as [|f IH]; intros count bs l m r H; cbn [decode_list] in H;
    destruct (count =? 0) eqn:Ec; try discriminate;
    try (inversion H; subst; split; [constructor | split; [cbn; lia | reflexivity]]).
  destruct (item bs) as [[[a ma] r1]|] eqn:Ea; [|discriminate].
  destruct (decode_list item f (count - 1) r1) as [[[l1 ml] r2]|] eqn:El; [|discriminate].
  inversion H; subst. apply IH in El. destruct El as (Fl & Ll & Ml). apply Hit in Ea. destruct Ea as [Pa Ma].
  split; [constructor; assumption|]. split; [cbn [length]; lia|].
  intros Hm. apply andb_true_iff in Hm. destruct Hm as [-> ->]. cbn [map List.concat].
  rewrite (Ma eq_refl), (Ml eq_refl), <- app_assoc. reflexivity.
Qed.

Theorem decode_encode f r : fields_range f -> decode_tx_spec (encode_tx_spec f ++ r) = Some (mk_decoded f true r).
Proof.
  intros (Hver & Hlt & Hnin & Hnout & Hins & Houts). destruct f as [ver ins outs lt]. cbn [f_version f_ins f_outs f_locktime] in *.
  unfold encode_tx_spec, decode_tx_spec. cbn [f_version f_ins f_outs f_locktime]. rewrite <- !app_assoc.
  rewrite take_int_app by (rewrite pow256_4; exact Hver).
  rewrite read_compact_compact by exact Hnin.
  rewrite Forall_forall in Hins, Houts.
  rewrite (decode_list_encode decode_in encode_in ins (fun x Hx r0 => decode_in_encode x r0 (Hins x Hx))).
  2:{ rewrite app_length. pose proof (concat_length_ge encode_in ins (fun x _ => encode_in_length x)). lia. }
  rewrite read_compact_compact by exact Hnout.
  rewrite (decode_list_encode decode_out encode_out outs (fun x Hx r0 => decode_out_encode x r0 (Houts x Hx))).
  2:{ rewrite app_length. pose proof (concat_length_ge encode_out outs (fun x _ => encode_out_length x)). lia. }
  rewrite take_int_app by (rewrite pow256_4; exact Hlt). reflexivity.
Qed.

Theorem decode_inv bs d :
  decode_tx_spec bs = Some d ->
  fields_range (d_fields d) /\ (d_minimal d = true -> bs = encode_tx_spec (d_fields d) ++ d_rest d).
Proof.
  unfold decode_tx_spec.
  destruct (take_int 4 bs) as [[ver r0]|] eqn:E0; [|discriminate].
  destruct (read_compact r0) as [[[nin m1] r1]|] eqn:E1; [|discriminate].
  destruct (decode_list decode_in _ nin r1) as [[[ins m2] r2]|] eqn:E2; [|discriminate].
  destruct (read_compact r2) as [[[nout m3] r3]|] eqn:E3; [|discriminate].
  destruct (decode_list decode_out _ nout r3) as [[[outs m4] r4]|] eqn:E4; [|discriminate].
  destruct (take_int 4 r4) as [[lt r5]|] eqn:E5; [|discriminate].
  intros H; inversion H; subst. cbn [d_fields d_minimal d_rest].
  apply take_int_inv in E0. destruct E0 as (a0 & -> & La0 & -> & Hver). rewrite pow256_4 in Hver.
  apply read_compact_inv in E1. destruct E1 as (Hnin & Hm1).
  apply (decode_list_inv decode_in encode_in in_range decode_in_inv) in E2. destruct E2 as (Fi & Li & Mi).
  apply read_compact_inv in E3. destruct E3 as (Hnout & Hm3).
  apply (decode_list_inv decode_out encode_out out_range decode_out_inv) in E4. destruct E4 as (Fo & Lo & Mo).
  apply take_int_inv in E5. destruct E5 as (a5 & -> & La5 & -> & Hlt). rewrite pow256_4 in Hlt.
  unfold fields_range, encode_tx_spec. cbn [f_version f_ins f_outs f_locktime].
  split; [rewrite Li, Lo; split; [exact Hver|]; split; [exact Hlt|]; split; [exact Hnin|]; split; [exact Hnout|]; split; assumption|].
  intros Hm. apply andb_true_iff in Hm. destruct Hm as [Hm ->]. apply andb_true_iff in Hm. destruct Hm as [Hm ->].
  apply andb_true_iff in Hm. destruct Hm as [-> ->].
  assert (B0 : le_bytes 4 (le_val a0) = a0) by (rewrite <- La0; apply le_bytes_le_val).
  assert (B5 : le_bytes 4 (le_val a5) = a5) by (rewrite <- La5; apply le_bytes_le_val).
  rewrite (Hm1 eq_refl), (Mi eq_refl), (Hm3 eq_refl), (Mo eq_refl), Li, Lo, B0, B5, <- !app_assoc.
  reflexivity.
Qed.

(* the canonical byte strings are exactly the encodings of in-range fields *)
Theorem canonical_iff bs :
  canonical bs = true <-> exists f, fields_range f /\ bs = encode_tx_spec f.
Proof.
  unfold canonical. split.
  - destruct (decode_tx_spec bs) as [d|] eqn:E; [|discriminate]. intros Hc. apply andb_true_iff in Hc. destruct Hc as [Hm Hr].
    apply decode_inv in E. destruct E as [Hrange Henc]. destruct (d_rest d); [|discriminate].
    exists (d_fields d). split; [exact Hrange|]. rewrite (Henc Hm), app_nil_r. reflexivity.
  - intros (f & Hf & ->). rewrite <- (app_nil_r (encode_tx_spec f)), decode_encode by exact Hf. reflexivity.
Qed.

Lemma fields_ok_range f : fields_ok f -> fields_range f.
Proof.
  intros (Hver & Hlt & Hnin & Hnout & Hins & Houts). unfold fields_range.
  split; [exact Hver|]. split; [exact Hlt|]. split; [exact Hnin|]. split; [exact Hnout|]. split.
  - eapply Forall_impl; [|exact Hins]. intros i [Hr _]. exact Hr.
  - eapply Forall_impl; [|exact Houts]. intros o [Hr _]. exact Hr.
Qed.

(* ------------------------------------------------------------------ *)
(* 9. the property in its own words: a well-formed (canonical) byte string whose scripts the script parser
   accepts (outside C02's class; coinbase data arbitrary) parses, re-serialises to exactly itself, and every
   accessor reports what the independent decoder reads from it *)
Definition scripts_ok (f : tx_fields) : Prop :=
  Forall (fun i => null_outpoint i = false -> script_ok (f_script i)) (f_ins f) /\ Forall (fun o => script_ok (f_pk o)) (f_outs f).

Lemma fields_ok_of f : fields_range f -> scripts_ok f -> fields_ok f.
Proof.
  intros (Hver & Hlt & Hnin & Hnout & Hins & Houts) [Si So]. unfold fields_ok.
  split; [exact Hver|]. split; [exact Hlt|]. split; [exact Hnin|]. split; [exact Hnout|]. split.
  - rewrite Forall_forall in *. intros i Hi. split; auto.
  - rewrite Forall_forall in *. intros o Ho. split; auto.
Qed.

Theorem canonical_roundtrip bs f :
  canonical bs = true -> decode_fields_spec bs = Some f -> scripts_ok f ->
  exists t, tx_from_bytes bs = Ok t /\ tx_bytes t = bs /\ fields_of t = f.
Proof.
  unfold canonical, decode_fields_spec. destruct (decode_tx_spec bs) as [d|] eqn:E; [|discriminate].
  intros Hc Hf Hs. inversion Hf; subst. apply andb_true_iff in Hc. destruct Hc as [Hm Hr].
  apply decode_inv in E. destruct E as [Hrange Henc]. destruct (d_rest d); [|discriminate].
  specialize (Henc Hm). rewrite app_nil_r in Henc.
  destruct (parse_encode (d_fields d) [] (fields_ok_of _ Hrange Hs)) as (t & Et & Bt & Ft).
  rewrite app_nil_r in Et. exists t. rewrite Henc. split; [exact Et|]. split; [exact Bt | exact Ft].
Qed.

Section AccessorsOnBytes.
  Variable H : bytes -> bytes.
  Theorem accessors_report_decoded bs f t oc :
    canonical bs = true -> decode_fields_spec bs = Some f -> scripts_ok f -> tx_from_bytes bs = Ok t ->
    tx_size t = N.of_nat (length bs) /\ tx_id H t = rev (H bs)
    /\ version t = f_version f /\ locktime t = f_locktime f
    /\ map prev_tx_id (inputs t) = map f_prev (f_ins f) /\ map vout (inputs t) = map f_vout (f_ins f)
    /\ map sequence (inputs t) = map f_seq (f_ins f)
    /\ map (fun i => to_bytes (unlocking i)) (inputs t) = map f_script (f_ins f)
    /\ map value (outputs t) = map f_value (f_outs f)
    /\ map (fun o => to_bytes (script_pub_key o)) (outputs t) = map f_pk (f_outs f)
    /\ tx_outpoints t = spec_outpoints f
    /\ tx_is_coinbase t = spec_is_coinbase f
    /\ (spec_total_out f < u64 -> satoshis_out oc t = Ok (spec_total_out f)).
  Proof.
    intros Hc Hf Hs Ht. destruct (canonical_roundtrip bs f Hc Hf Hs) as (t' & Et & Bt & Ft).
    rewrite Et in Ht. inversion Ht; subst t'. clear Ht.
    split; [unfold tx_size; rewrite Bt; reflexivity|]. split; [unfold tx_id; rewrite Bt; reflexivity|].
    rewrite tx_outpoints_spec, tx_is_coinbase_spec. rewrite <- Ft.
    unfold fields_of. cbn [f_version f_ins f_outs f_locktime]. rewrite !map_map. cbn [in_fields_of out_fields_of f_prev f_vout f_seq f_script f_value f_pk].
    do 10 (split; [reflexivity|]). apply satoshis_out_spec.
  Qed.
End AccessorsOnBytes.

(* ------------------------------------------------------------------ *)
(* 10. the parser and the independent decoder read the same fields from EVERY byte string the parser accepts
   (canonical or not): numbers and ids are identical, scripts are the decoder's raw bytes run through the
   script parser (coinbase data kept verbatim) *)
Lemma read_exact_take_exact n bs : read_exact n bs = take_exact n bs.
Proof.
  unfold read_exact, take_exact. destruct (Nat.leb n (length bs)) eqn:E.
  - apply Nat.leb_le in E. replace (Nat.ltb (length bs) n) with false by (symmetry; apply Nat.ltb_ge; exact E). reflexivity.
  - apply Nat.leb_gt in E. replace (Nat.ltb (length bs) n) with true by (symmetry; apply Nat.ltb_lt; exact E). reflexivity.
Qed.
Lemma read_le_take_int w bs : read_le w bs = take_int w bs.
Proof. unfold read_le, take_int. rewrite read_exact_take_exact. reflexivity. Qed.
Lemma read_exactN_take_len n bs : read_exactN n bs = take_len n bs.
Proof.
  unfold read_exactN, take_len. destruct (n <=? N.of_nat (length bs)) eqn:E.
  - replace (N.of_nat (length bs) <? n) with false by lia. reflexivity.
  - replace (N.of_nat (length bs) <? n) with true by lia. reflexivity.
Qed.
Lemma read_varint_read_compact bs :
  read_varint bs = match read_compact bs with Some (n, _, r) => Ok (n, r) | None => Err end.
Proof.
  destruct bs as [|b bs']; [reflexivity|]. cbn [read_varint read_compact]. pose proof (b2n_lt b) as Hb.
  destruct (b2n b =? 255) eqn:E1; [|destruct (b2n b =? 254) eqn:E2; [|destruct (b2n b =? 253) eqn:E3]].
  - replace (b2n b <? 253) with false by lia. replace (b2n b =? 253) with false by lia. replace (b2n b =? 254) with false by lia.
    rewrite read_le_take_int. destruct (take_int 8 bs') as [[v r]|]; reflexivity.
  - replace (b2n b <? 253) with false by lia. replace (b2n b =? 253) with false by lia.
    rewrite read_le_take_int. destruct (take_int 4 bs') as [[v r]|]; reflexivity.
  - replace (b2n b <? 253) with false by lia.
    rewrite read_le_take_int. destruct (take_int 2 bs') as [[v r]|]; reflexivity.
  - replace (b2n b <? 253) with true by lia. reflexivity.
Qed.

Definition in_agrees (i : txin) (fi : in_fields) : Prop :=
  prev_tx_id i = f_prev fi /\ vout i = f_vout fi /\ sequence i = f_seq fi
  /\ (if null_outpoint fi then unlocking i = [BCoinbase (f_script fi)] else from_bytes (f_script fi) = Ok (unlocking i)).
Definition out_agrees (o : txout) (fo : out_fields) : Prop :=
  value o = f_value fo /\ from_bytes (f_pk fo) = Ok (script_pub_key o).

Lemma read32_padded_take bs r0 idle :
  read32_padded bs = (idle, r0) ->
  match take_exact 32 bs with Some (a, r) => idle = a /\ r0 = r | None => r0 = [] \/ (length r0 < 4)%nat end.
Proof.
  unfold read32_padded, take_exact. intros H.
  assert (E1 : idle = firstn 32 bs ++ repeat x00 (32 - length (firstn 32 bs))) by congruence.
  assert (E2 : r0 = skipn 32 bs) by congruence. clear H. subst idle r0.
  destruct (Nat.ltb (length bs) 32) eqn:E.
  - left. apply skipn_all2. apply Nat.ltb_lt in E. lia.
  - apply Nat.ltb_ge in E. rewrite firstn_length_le by exact E. rewrite Nat.sub_diag. cbn [repeat]. rewrite app_nil_r. auto.
Qed.

Lemma txin_read_decode bs i r :
  txin_read bs = Ok (i, r) -> exists fi m, decode_in bs = Some (fi, m, r) /\ in_agrees i fi.
Proof.
  unfold txin_read, decode_in.
  destruct (read32_padded bs) as [idle r0] eqn:E32. apply read32_padded_take in E32.
  rewrite read_le_take_int.
  destruct (take_exact 32 bs) as [[a ra]|].
  - destruct E32 as [-> ->].
    destruct (take_int 4 ra) as [[vo r1]|]; cbn [of_option bind]; [|discriminate].
    rewrite read_varint_read_compact.
    destruct (read_compact r1) as [[[slen m] r2]|]; cbn [bind]; [|discriminate].
    rewrite read_exactN_take_len.
    destruct (take_len slen r2) as [[sb r3]|]; cbn [of_option bind]; [|discriminate].
    rewrite read_le_take_int.
    destruct (take_int 4 r3) as [[sq r4]|]; cbn [of_option bind]; [|discriminate].
    destruct (is_coinbase_outpoint (rev a) vo) eqn:Ecb.
    + cbn [bind]. intros H; inversion H; subst. eexists; eexists; split; [reflexivity|].
      unfold in_agrees. rewrite null_outpoint_model. cbn [f_prev f_vout f_seq f_script prev_tx_id vout sequence unlocking].
      rewrite Ecb. auto.
    + destruct (from_bytes sb) as [scr| |] eqn:Es; cbn [bind]; try discriminate.
      intros H; inversion H; subst. eexists; eexists; split; [reflexivity|].
      unfold in_agrees. rewrite null_outpoint_model. cbn [f_prev f_vout f_seq f_script prev_tx_id vout sequence unlocking].
      rewrite Ecb. auto.
  - (* fewer than 32 bytes: nothing is left for the output index *)
    assert (Hno : take_int 4 r0 = None).
    { unfold take_int, take_exact. destruct E32 as [-> | Hl]; [reflexivity|].
      replace (Nat.ltb (length r0) 4) with true by (symmetry; apply Nat.ltb_lt; exact Hl). reflexivity. }
    rewrite Hno. cbn [of_option bind]. discriminate.
Qed.

Lemma txout_read_decode bs o r :
  txout_read bs = Ok (o, r) -> exists fo m, decode_out bs = Some (fo, m, r) /\ out_agrees o fo.
Proof.
  unfold txout_read, decode_out. rewrite read_le_take_int.
  destruct (take_int 8 bs) as [[v r1]|]; cbn [of_option bind]; [|discriminate].
  rewrite read_varint_read_compact.
  destruct (read_compact r1) as [[[slen m] r2]|]; cbn [bind]; [|discriminate].
  rewrite read_exactN_take_len.
  destruct (take_len slen r2) as [[sb r3]|]; cbn [of_option bind]; [|discriminate].
  destruct (from_bytes sb) as [scr| |] eqn:Es; cbn [bind]; try discriminate.
  intros H; inversion H; subst. eexists; eexists; split; [reflexivity|]. split; [reflexivity | exact Es].
Qed.

Lemma read_many_decode {A B} (rd : bytes -> outcome (A * bytes)) (item : bytes -> option (B * bool * bytes)) (R : A -> B -> Prop) :
  (forall bs a r, rd bs = Ok (a, r) -> exists b m, item bs = Some (b, m, r) /\ R a b) ->
  forall fuel n bs l r, read_many rd fuel n bs = Ok (l, r) ->
    exists bl m, decode_list item fuel n bs = Some (bl, m, r) /\ Forall2 R l bl.
Proof.
  intros HR. induction fuel as [|f IH]; intros n bs l r H; cbn [read_many decode_list] in *;
    destruct (n =? 0) eqn:En; try discriminate;
    try (inversion H; subst; eexists; eexists; split; [reflexivity | constructor]).
  destruct (rd bs) as [[a r1]| |] eqn:Ea; cbn [bind] in H; try discriminate.
  destruct (read_many rd f (n - 1) r1) as [[l1 r2]| |] eqn:El; cbn [bind] in H; try discriminate.
  inversion H; subst. apply HR in Ea. destruct Ea as (b & m & Eb & Rab). apply IH in El. destruct El as (bl & ml & Ebl & Rl).
  rewrite Eb, Ebl. eexists; eexists; split; [reflexivity | constructor; assumption].
Qed.

Theorem parse_decode_agree bs t :
  tx_from_bytes bs = Ok t ->
  exists d, decode_tx_spec bs = Some d
    /\ version t = f_version (d_fields d) /\ locktime t = f_locktime (d_fields d)
    /\ Forall2 in_agrees (inputs t) (f_ins (d_fields d)) /\ Forall2 out_agrees (outputs t) (f_outs (d_fields d)).
Proof.
  unfold tx_from_bytes, decode_tx_spec. rewrite read_le_take_int.
  destruct (take_int 4 bs) as [[ver r0]|]; cbn [of_option bind]; [|discriminate].
  rewrite read_varint_read_compact.
  destruct (read_compact r0) as [[[nin m1] r1]|]; cbn [bind]; [|discriminate].
  destruct (read_many txin_read _ nin r1) as [[ins r2]| |] eqn:E2; cbn [bind]; try discriminate.
  apply (read_many_decode txin_read decode_in in_agrees txin_read_decode) in E2. destruct E2 as (fins & m2 & E2 & Rins). rewrite E2.
  rewrite read_varint_read_compact.
  destruct (read_compact r2) as [[[nout m3] r3]|]; cbn [bind]; [|discriminate].
  destruct (read_many txout_read _ nout r3) as [[outs r4]| |] eqn:E4; cbn [bind]; try discriminate.
  apply (read_many_decode txout_read decode_out out_agrees txout_read_decode) in E4. destruct E4 as (fouts & m4 & E4 & Routs). rewrite E4.
  rewrite read_le_take_int.
  destruct (take_int 4 r4) as [[lt r5]|]; cbn [of_option bind]; [|discriminate].
  intros H; inversion H; subst. eexists; split; [reflexivity|].
  cbn [d_fields f_version f_locktime f_ins f_outs version locktime inputs outputs]. auto.
Qed.

(* ------------------------------------------------------------------ *)
(* 11. the extended-format annotations (locking script / satoshis attached to an input by a signer) do not enter
   the wire serialisation *)
Lemma in_fields_of_set_locking i s : in_fields_of (txin_set_locking_script i s) = in_fields_of i.
Proof. reflexivity. Qed.
Lemma in_fields_of_set_satoshis i v : in_fields_of (txin_set_satoshis i v) = in_fields_of i.
Proof. reflexivity. Qed.
Lemma in_fields_of_annotate i lk sa : in_fields_of (txin_annotate i lk sa) = in_fields_of i.
Proof. destruct lk, sa; reflexivity. Qed.

Lemma txin_bytes_annotate i lk sa :
  txin_bytes (txin_annotate i lk sa) = txin_bytes i
  /\ txin_unlocking_script_size (txin_annotate i lk sa) = txin_unlocking_script_size i.
Proof. destruct lk, sa; split; reflexivity. Qed.

Lemma nth_error_split_list {A} (l : list A) k x : nth_error l k = Some x -> l = firstn k l ++ x :: skipn (S k) l.
Proof.
  revert k; induction l as [|y l IH]; intros [|k] H; cbn in H; try discriminate.
  - inversion H; subst. reflexivity.
  - cbn [firstn skipn app]. f_equal. apply IH. exact H.
Qed.

(* get_input; annotate; set_input at the same index leaves the serialisation unchanged *)
Lemma tx_set_input_same_fields t k i i' t' :
  tx_get_input t k = Some i -> in_fields_of i' = in_fields_of i -> tx_set_input t k i' = Ok t' ->
  fields_of t' = fields_of t.
Proof.
  unfold tx_get_input, tx_set_input. intros Hg Hf Hs.
  destruct (Nat.ltb k (length (inputs t))); [|discriminate]. inversion Hs; subst. clear Hs.
  unfold fields_of. cbn [version inputs outputs locktime]. f_equal.
  rewrite (nth_error_split_list _ _ _ Hg) at 3. rewrite !map_app. cbn [map]. rewrite Hf. reflexivity.
Qed.

Definition api_in_ext : Type := api_in * option (list bit) * option N.
Definition api_add_in_ext (t : tx) (a : api_in_ext) : tx :=
  let '(x, lk, sa) := a in let '(id, vo, scr, sq) := x in add_input t (txin_annotate (txin_new id vo scr sq) lk sa).
Definition build_ext (ver lt : N) (ins : list api_in_ext) (outs : list api_out) : tx :=
  fold_left api_add_out outs (fold_left api_add_in_ext ins (tx_new ver lt)).

Lemma fold_add_in_ext l : forall t,
  fields_of (fold_left api_add_in_ext l t) =
  mk_fields (version t) (map in_fields_of (inputs t) ++ map (fun a => api_in_fields (fst (fst a))) l)
            (map out_fields_of (outputs t)) (locktime t).
Proof.
  induction l as [|[[[[[id vo] scr] sq] lk] sa] l IH]; intros t; cbn [fold_left map].
  - rewrite app_nil_r. reflexivity.
  - rewrite IH. unfold api_add_in_ext, add_input. cbn [version inputs outputs locktime fst]. rewrite map_app. cbn [map].
    rewrite in_fields_of_annotate, <- app_assoc. reflexivity.
Qed.

(* a transaction assembled through the API serialises to the encoding of the PLAIN field values, whatever
   annotations its inputs carried when they were added *)
Theorem construction_api_ext ver lt ins outs :
  tx_bytes (build_ext ver lt ins outs) =
  encode_tx_spec (mk_fields ver (map (fun a => api_in_fields (fst (fst a))) ins) (map api_out_fields outs) lt).
Proof.
  rewrite serialise_is_spec. unfold build_ext. rewrite fold_add_out.
  pose proof (fold_add_in_ext ins (tx_new ver lt)) as F. unfold fields_of in F at 1.
  injection F as F1 F2 F3 F4. rewrite F1, F2, F3, F4. reflexivity.
Qed.

Theorem extended_fields_not_on_wire :
  (forall i lk sa, txin_bytes (txin_annotate i lk sa) = txin_bytes i)
  /\ (forall t k i lk sa t', tx_get_input t k = Some i -> tx_set_input t k (txin_annotate i lk sa) = Ok t' -> tx_bytes t' = tx_bytes t)
  /\ (forall ver lt ins outs,
        tx_bytes (build_ext ver lt ins outs) = tx_bytes (build ver lt (map (fun a => fst (fst a)) ins) outs)).
Proof.
  split; [intros; apply txin_bytes_annotate|]. split.
  - intros t k i lk sa t' Hg Hs. rewrite !serialise_is_spec.
    rewrite (tx_set_input_same_fields t k i _ t' Hg (in_fields_of_annotate i lk sa) Hs). reflexivity.
  - intros. rewrite construction_api_ext, construction_api, map_map. reflexivity.
Qed.
