(* Proofs/EcdsaSecp.v — the abstract-group theorems of Proofs/EcdsaAbstract.v instantiated with the CONCRETE
   functions of Prim/Secp256k1.v (reference instance on Z), under one explicit premise:

     secp256k1_group : Prop

   which now consists of THREE statements about valid points (on the curve, coordinates in [0, p)):
     sg_add_assoc    padd P (padd Q R) = padd (padd P Q) R             (associativity of chord-and-tangent)
     sg_mul_add      smul (a + b) P = padd (smul a P) (smul b P)       (the ladder computes the Z-action ...)
     sg_mul_mul      smul (a * b) P = smul a (smul b P)                (... of the group)
   These are NOT proved here (no elliptic-curve library is available; associativity is out of reach).

   Everything else the abstract section asks for is PROVED for the concrete formulas:
     Proofs/SecpGroupPartial.v : closure of padd, pneg and smul, commutativity, P + (-P) = O, 1*P = P, parity of -P
       (no curve point has y = 0), lift_x inverts (xcoord, yodd), and "G has order exactly n" as a consequence of
       the two scalar laws above, n*G = O and the primality of n;
     Proofs/SecpPrimes.v : p and n are prime (checked Pratt certificates), Euler's criterion for the square root;
     here: n * G = O by evaluation (Proofs/Secp256k1Order.v), O + P = P, x(-P) = x(P), x(O) = 0, is_inf, 1 < n,
       modular inverses from extended Euclid (modinv_correct), validity of G and of the results of lift_x.

   The hypotheses are relativised to valid points because on junk pairs (x, y) the formulas are of course not a
   group; the abstract section is then applied to the subset type { P | validb P = true }. *)
From BSV Require Import Base.Bytes.
From BSV Require Import Prim.Num Prim.Secp256k1 Proofs.Secp256k1Proofs Proofs.Secp256k1Order Proofs.EcdsaAbstract Proofs.SecpPrimes.
From BSV Require Export Proofs.SecpGroupPartial.   (* validb, valid and the proved group facts *)
From Coq Require Import Eqdep_dec Zdiv Setoid Morphisms.
Local Open Scope Z_scope.

(* validb / valid are defined in Proofs/SecpGroupPartial.v *)

Record secp256k1_group : Prop := {
  (* associativity; the identity is None (padd None P = P holds by computation) *)
  sg_add_assoc : forall P Q R, valid P -> valid Q -> valid R -> padd P (padd Q R) = padd (padd P Q) R;
  (* smul is the action of Z *)
  sg_mul_add : forall a b P, valid P -> smul (a + b) P = padd (smul a P) (smul b P);
  sg_mul_mul : forall a b P, valid P -> smul (a * b) P = smul a (smul b P)
}.

(* The former fields of the record, now theorems (Proofs/SecpGroupPartial.v, Proofs/SecpPrimes.v); the names
   and the (unused) first argument are kept so that the proofs citing them did not have to change. *)
Definition sg_mul_closed (_ : secp256k1_group) : forall k P, valid P -> valid (smul k P) := secp_mul_closed.
Definition sg_add_closed (_ : secp256k1_group) : forall P Q, valid P -> valid Q -> valid (padd P Q) := secp_add_closed.
Definition sg_neg_closed (_ : secp256k1_group) : forall P, valid P -> valid (pneg P) := secp_neg_closed.
Definition sg_add_comm (_ : secp256k1_group) : forall P Q, valid P -> valid Q -> padd P Q = padd Q P := secp_add_comm.
Definition sg_add_neg (_ : secp256k1_group) : forall P, valid P -> padd P (pneg P) = None := secp_add_neg.
Definition sg_mul_1 (_ : secp256k1_group) : forall P, valid P -> smul 1 P = P := secp_mul_1.
Definition sg_lift (_ : secp256k1_group) : forall P, valid P -> P <> None -> lift_x (xcoord P) (yodd P) = Some P := secp_lift.
Definition sg_yodd_neg (_ : secp256k1_group) : forall P, valid P -> P <> None -> yodd (pneg P) = negb (yodd P) := secp_yodd_neg.
Definition sg_order_exact (H : secp256k1_group) : forall a, smul a G = None -> a mod secp_n = 0 :=
  secp_order_exact_from_laws (sg_mul_add H) (sg_mul_mul H).

(* ------------------------------------------------------------------ *)
(* Facts proved for the concrete functions.                            *)
Lemma valid_None : valid None.
Proof. reflexivity. Qed.

Lemma valid_G : valid G.
Proof. vm_compute. reflexivity. Qed.

Lemma padd_None_l P : padd None P = P.
Proof. reflexivity. Qed.

Lemma xcoord_pneg P : xcoord (pneg P) = xcoord P.
Proof. destruct P as [[x y]|]; reflexivity. Qed.

Lemma is_inf_None P : is_inf P = true <-> P = None.
Proof. destruct P as [[x y]|]; cbn [is_inf]; split; intros H; congruence. Qed.

Lemma lift_x_valid x odd P : lift_x x odd = Some P -> valid P.
Proof.
  intros H. apply lift_x_sound in H. destruct H as (y & -> & Hx & Hy & Hc).
  unfold valid, validb. rewrite Hc.
  apply in_field_spec in Hx. apply in_field_spec in Hy. rewrite Hx, Hy. reflexivity.
Qed.

Lemma secp_n_gt_1 : 1 < secp_n.
Proof. reflexivity. Qed.

(* ------------------------------------------------------------------ *)
(* The subset type of valid points and its operations.                 *)
Definition vpt : Type := { P : point | validb P = true }.
Definition vp (a : vpt) : point := proj1_sig a.

Lemma vpt_eq (a b : vpt) : vp a = vp b -> a = b.
Proof.
  destruct a as [P HP], b as [Q HQ]. cbn [vp proj1_sig]. intros <-. f_equal.
  apply UIP_dec. apply Bool.bool_dec.
Qed.

Lemma vp_valid (a : vpt) : valid (vp a).
Proof. exact (proj2_sig a). Qed.

Section Instance.
  Hypothesis H : secp256k1_group.

  Definition v_add (a b : vpt) : vpt :=
    exist _ (padd (vp a) (vp b)) (sg_add_closed H _ _ (vp_valid a) (vp_valid b)).
  Definition v_neg (a : vpt) : vpt := exist _ (pneg (vp a)) (sg_neg_closed H _ (vp_valid a)).
  Definition v_mul (k : Z) (a : vpt) : vpt := exist _ (smul k (vp a)) (sg_mul_closed H k _ (vp_valid a)).
  Definition v_zero : vpt := exist _ None valid_None.
  Definition v_G : vpt := exist _ G valid_G.
  Definition v_x (a : vpt) : Z := xcoord (vp a).
  Definition v_yodd (a : vpt) : bool := yodd (vp a).
  Definition v_isinf (a : vpt) : bool := is_inf (vp a).
  Definition v_lift (x : Z) (odd : bool) : option vpt :=
    match lift_x x odd as o return (forall P, o = Some P -> valid P) -> option vpt with
    | Some P => fun f => Some (exist _ P (f P eq_refl))
    | None => fun _ => None
    end (lift_x_valid x odd).

  Lemma v_lift_spec x odd : option_map vp (v_lift x odd) = lift_x x odd.
  Proof.
    unfold v_lift. generalize (lift_x_valid x odd).
    destruct (lift_x x odd) as [P|]; intros f; reflexivity.
  Qed.

  (* the section hypotheses of EcdsaAbstract, for the subset type *)
  Lemma v_add_assoc P Q R : v_add P (v_add Q R) = v_add (v_add P Q) R.
  Proof. apply vpt_eq. cbn [vp proj1_sig v_add]. apply (sg_add_assoc H); apply vp_valid. Qed.
  Lemma v_add_comm P Q : v_add P Q = v_add Q P.
  Proof. apply vpt_eq. cbn [vp proj1_sig v_add]. apply (sg_add_comm H); apply vp_valid. Qed.
  Lemma v_add_0_l P : v_add v_zero P = P.
  Proof. apply vpt_eq. reflexivity. Qed.
  Lemma v_add_neg_r P : v_add P (v_neg P) = v_zero.
  Proof. apply vpt_eq. cbn [vp proj1_sig v_add v_neg v_zero]. apply (sg_add_neg H); apply vp_valid. Qed.
  Lemma v_mul_add a b P : v_mul (a + b) P = v_add (v_mul a P) (v_mul b P).
  Proof. apply vpt_eq. cbn [vp proj1_sig v_add v_mul]. apply (sg_mul_add H); apply vp_valid. Qed.
  Lemma v_mul_mul a b P : v_mul (a * b) P = v_mul a (v_mul b P).
  Proof. apply vpt_eq. cbn [vp proj1_sig v_mul]. apply (sg_mul_mul H); apply vp_valid. Qed.
  Lemma v_mul_1 P : v_mul 1 P = P.
  Proof. apply vpt_eq. cbn [vp proj1_sig v_mul]. apply (sg_mul_1 H); apply vp_valid. Qed.
  Lemma v_mul_n_G : v_mul secp_n v_G = v_zero.
  Proof. apply vpt_eq. cbn [vp proj1_sig v_mul v_G v_zero]. exact order_G. Qed.
  Lemma v_inv_ok a : 0 < a < secp_n -> (a * sinv a) mod secp_n = 1.
  Proof. apply sinv_ok. exact secp_n_coprime. Qed.
  Lemma v_x_neg P : v_x (v_neg P) = v_x P.
  Proof. apply xcoord_pneg. Qed.
  Lemma v_x_zero : v_x v_zero = 0.
  Proof. reflexivity. Qed.
  Lemma v_isinf_spec P : v_isinf P = true <-> P = v_zero.
  Proof.
    unfold v_isinf. rewrite is_inf_None. split.
    - intros E. apply vpt_eq. exact E.
    - intros ->. reflexivity.
  Qed.
  Lemma v_nonzero P : P <> v_zero -> vp P <> None.
  Proof. intros N E. apply N. apply vpt_eq. exact E. Qed.
  Lemma v_lift_ok P : P <> v_zero -> v_lift (v_x P) (v_yodd P) = Some P.
  Proof.
    intros N. pose proof (sg_lift H (vp P) (vp_valid P) (v_nonzero P N)) as L.
    pose proof (v_lift_spec (v_x P) (v_yodd P)) as S. unfold v_x, v_yodd in *. rewrite L in S.
    destruct (v_lift (xcoord (vp P)) (yodd (vp P))) as [P'|]; [|discriminate].
    cbn [option_map] in S. f_equal. apply vpt_eq. congruence.
  Qed.
  Lemma v_yodd_neg P : P <> v_zero -> v_yodd (v_neg P) = negb (v_yodd P).
  Proof. intros N. apply (sg_yodd_neg H); [apply vp_valid | apply v_nonzero; exact N]. Qed.
  Lemma v_order_exact a : v_mul a v_G = v_zero -> a mod secp_n = 0.
  Proof. intros E. apply (sg_order_exact H). exact (f_equal vp E). Qed.

  (* the concrete primitives are the generic ones on the subset type, seen through vp *)
  Lemma v_sign d k z :
    prim_sign_g vpt v_mul v_G v_x v_yodd secp_n sinv d k z = prim_sign d k z.
  Proof. reflexivity. Qed.
  Lemma v_verify (Q : vpt) z rs :
    prim_verify_g vpt v_mul v_add v_G v_x secp_n sinv Q z rs = prim_verify (vp Q) z rs.
  Proof. reflexivity. Qed.
  Lemma v_recover_point r s odd z :
    option_map vp (recover_point_g vpt v_mul v_add v_G v_lift secp_n sinv r s odd z) = recover_point r s odd z.
  Proof.
    unfold recover_point, recover_point_g. rewrite <- (v_lift_spec r odd).
    destruct (v_lift r odd) as [R|]; reflexivity.
  Qed.
  Lemma v_recover r s odd z :
    omap vp (recover_g vpt v_mul v_add v_G v_isinf v_lift secp_n sinv r s odd z) = recover r s odd z.
  Proof.
    unfold recover, recover_g. destruct (negb (sig_in_range secp_n r s)); [reflexivity|].
    change (recover_point_g point smul padd G lift_x secp_n sinv r s odd z) with (recover_point r s odd z).
    rewrite <- v_recover_point.
    destruct (recover_point_g vpt v_mul v_add v_G v_lift secp_n sinv r s odd z) as [P|]; [|reflexivity].
    cbn [option_map]. unfold v_isinf. destruct (is_inf (vp P)); reflexivity.
  Qed.

  (* ---------------------------------------------------------------- *)
  Theorem secp_ecdsa_correct d k z r s v :
    0 < k < secp_n -> prim_sign d k z = Some (r, s, v) -> prim_verify (smul d G) z (r, s) = true.
  Proof.
    intros Hk Hs. rewrite <- v_sign in Hs.
    change (smul d G) with (vp (v_mul d v_G)). rewrite <- v_verify.
    exact (ecdsa_correct vpt v_add v_neg v_zero v_mul v_G secp_n v_x v_yodd v_isinf v_lift sinv
             v_add_assoc v_add_comm v_add_0_l v_add_neg_r v_mul_add v_mul_mul v_mul_1
             secp_n_gt_1 v_mul_n_G v_inv_ok v_x_neg d k z r s v Hk Hs).
  Qed.

  Theorem secp_ecdh_symmetric a b : ecdh a (smul b G) = ecdh b (smul a G).
  Proof.
    exact (ecdh_symmetric vpt v_mul v_G v_x v_mul_mul a b).
  Qed.

  Theorem secp_ecdh_point_symmetric a b : smul a (smul b G) = smul b (smul a G).
  Proof.
    exact (f_equal vp (ecdh_point_symmetric vpt v_mul v_G v_mul_mul a b)).
  Qed.

  Theorem secp_recover_signer d k z r s v :
    0 < k < secp_n -> 0 <= xcoord (smul k G) < secp_n -> smul d G <> None ->
    prim_sign d k z = Some (r, s, v) -> recover r s v z = Ok (smul d G).
  Proof.
    intros Hk Hx HQ Hs. rewrite <- v_sign in Hs.
    rewrite <- v_recover.
    rewrite (recover_signer vpt v_add v_neg v_zero v_mul v_G secp_n v_x v_yodd v_isinf v_lift sinv
               v_add_assoc v_add_comm v_add_0_l v_add_neg_r v_mul_add v_mul_mul v_mul_1
               secp_n_gt_1 v_mul_n_G v_inv_ok v_x_neg v_x_zero v_isinf_spec v_lift_ok v_yodd_neg
               d k z r s v Hk Hx).
    - reflexivity.
    - intros E. apply HQ. exact (f_equal vp E).
    - exact Hs.
  Qed.

  Theorem secp_recover_other_z d k z z' r s v :
    0 < k < secp_n -> 0 <= xcoord (smul k G) < secp_n ->
    prim_sign d k z = Some (r, s, v) -> ~ eqm secp_n z' z ->
    recover_point r s v z' <> Some (smul d G).
  Proof.
    intros Hk Hx Hs Hz E. rewrite <- v_sign in Hs.
    rewrite <- v_recover_point in E.
    refine (recover_other_z vpt v_add v_neg v_zero v_mul v_G secp_n v_x v_yodd v_isinf v_lift sinv
               v_add_assoc v_add_comm v_add_0_l v_add_neg_r v_mul_add v_mul_mul v_mul_1
               secp_n_gt_1 v_mul_n_G v_inv_ok v_x_neg v_x_zero v_isinf_spec v_lift_ok v_yodd_neg v_order_exact
               d k z z' r s v Hk Hx Hs Hz _).
    destruct (recover_point_g vpt v_mul v_add v_G v_lift secp_n sinv r s v z') as [P|]; [|discriminate].
    cbn [option_map] in E. f_equal. apply vpt_eq. cbn [vp proj1_sig v_mul v_G]. congruence.
  Qed.

  (* ---------------------------------------------------------------- *)
  (* A genuine signature never hits the "recovers to the identity" guard of the repository
     (Signature::recovers_identity: s*R == z*G with R = decompress(r, recovery bit)). *)
  Local Instance eqm_equiv_s : Equivalence (eqm secp_n) := eqm_setoid secp_n.
  Local Instance eqm_add_s : Proper (eqm secp_n ==> eqm secp_n ==> eqm secp_n) Z.add := Zplus_eqm secp_n.
  Local Instance eqm_sub_s : Proper (eqm secp_n ==> eqm secp_n ==> eqm secp_n) Z.sub := Zminus_eqm secp_n.
  Local Instance eqm_mul_s : Proper (eqm secp_n ==> eqm secp_n ==> eqm secp_n) Z.mul := Zmult_eqm secp_n.

  Local Notation a_sign_facts :=
    (sign_facts vpt v_add v_neg v_zero v_mul v_G secp_n v_x v_yodd v_isinf v_lift sinv
       v_add_assoc v_add_comm v_add_0_l v_add_neg_r v_mul_add v_mul_mul v_mul_1 secp_n_gt_1 v_inv_ok v_x_neg).
  Local Notation a_smul_eqm_G :=
    (smul_eqm_G vpt v_add v_neg v_zero v_mul v_G secp_n v_x v_yodd v_isinf v_lift sinv
       v_add_assoc v_add_comm v_add_0_l v_add_neg_r v_mul_add v_mul_mul v_mul_1 secp_n_gt_1 v_mul_n_G v_inv_ok v_x_neg).
  Local Notation a_smul_neg :=
    (smul_neg vpt v_add v_neg v_zero v_mul v_add_assoc v_add_comm v_add_0_l v_add_neg_r v_mul_add).
  Local Notation a_smul_0 :=
    (smul_0 vpt v_add v_neg v_zero v_mul v_add_assoc v_add_comm v_add_0_l v_add_neg_r v_mul_add).
  Local Notation a_pneg_nonzero := (pneg_nonzero vpt v_add v_neg v_zero v_add_comm v_add_0_l v_add_neg_r).

  Lemma eqm_1 a : 0 < a < secp_n -> eqm secp_n (a * sinv a) 1.
  Proof. intros Ha. unfold eqm. rewrite (v_inv_ok a Ha). reflexivity. Qed.

  Lemma v_genuine_not_identity d k z r s v R :
    0 < k < secp_n -> 0 <= v_x (v_mul k v_G) < secp_n -> v_mul d v_G <> v_zero ->
    prim_sign_g vpt v_mul v_G v_x v_yodd secp_n sinv d k z = Some (r, s, v) ->
    v_lift r v = Some R -> v_mul s R <> v_mul z v_G.
  Proof.
    intros Hk Hx HQ Hs HR E.
    destruct (a_sign_facts d k z r s v Hk Hs) as (Hr & Hsr & Hrx & e & He & Hse).
    rewrite Z.mod_small in Hrx by exact Hx.
    set (Rk := v_mul k v_G) in *.
    assert (RZ : Rk <> v_zero) by (intros E0; rewrite E0, v_x_zero in Hrx; lia).
    assert (HL : v_lift r v = Some (v_mul (e * k) v_G)).
    { destruct He as [[-> ->]|[-> ->]].
      - rewrite Z.mul_1_l, Hrx. apply v_lift_ok. exact RZ.
      - replace (-1 * k) with (- k) by ring. rewrite a_smul_neg. fold Rk.
        rewrite Hrx, <- (v_x_neg Rk), <- v_yodd_neg by exact RZ.
        apply v_lift_ok. apply a_pneg_nonzero. exact RZ. }
    rewrite HL in HR. inversion HR; subst R; clear HR.
    rewrite <- v_mul_mul in E.
    assert (Z0 : v_mul (s * (e * k) - z) v_G = v_zero).
    { unfold Z.sub. rewrite v_mul_add, a_smul_neg, E. apply v_add_neg_r. }
    apply v_order_exact in Z0.
    (* s e k = z + r d, hence r d = 0 modulo n *)
    assert (E1 : eqm secp_n (s * (e * k)) (z + r * d)).
    { transitivity ((s * e) * k); [unfold eqm; f_equal; ring|].
      rewrite Hse.
      transitivity ((k * sinv k) * (z + r * d)); [unfold eqm; f_equal; ring|].
      rewrite (eqm_1 k Hk). unfold eqm; f_equal; ring. }
    assert (E2 : eqm secp_n (r * d) 0).
    { transitivity ((z + r * d) - z); [unfold eqm; f_equal; ring|].
      rewrite <- E1. unfold eqm. rewrite Z0. reflexivity. }
    apply HQ.
    rewrite (a_smul_eqm_G d (sinv r * (r * d))).
    - rewrite (a_smul_eqm_G (sinv r * (r * d)) 0); [apply a_smul_0|].
      rewrite E2. unfold eqm; f_equal; ring.
    - transitivity ((r * sinv r) * d); [|unfold eqm; f_equal; ring].
      rewrite (eqm_1 r) by lia. unfold eqm; f_equal; ring.
  Qed.

  Theorem secp_genuine_not_identity d k z r s v R :
    0 < k < secp_n -> 0 <= xcoord (smul k G) < secp_n -> smul d G <> None ->
    prim_sign d k z = Some (r, s, v) -> lift_x r v = Some R -> smul s R <> smul z G.
  Proof.
    intros Hk Hx HQ Hs HR E. rewrite <- v_sign in Hs.
    pose proof (v_lift_spec r v) as S. rewrite HR in S.
    destruct (v_lift r v) as [R'|] eqn:EL; [|discriminate]. cbn [option_map] in S.
    assert (ER : vp R' = R) by congruence. subst R.
    refine (v_genuine_not_identity d k z r s v R' Hk Hx _ Hs EL _).
    - intros E0. apply HQ. exact (f_equal vp E0).
    - apply vpt_eq. exact E.
  Qed.
End Instance.

Print Assumptions secp_ecdsa_correct.
Print Assumptions secp_recover_signer.
