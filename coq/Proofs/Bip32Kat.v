(* Proofs/Bip32Kat.v — BIP32 test vectors 1, 2 and 3 (from the BIP), evaluated by vm_compute on the BigZ
   curve instance [ec_fast] for BOTH the specification (Spec/Bip32Spec.v) and the implementation model
   (Model/Bip32.v).  They tie Spec/Bip32Spec.v (and through it Prim HMAC-SHA512 / SHA-256 / RIPEMD-160 /
   Base58 / secp256k1) to the published standard.  Execution-only: these Examples run BigZ (Uint63
   primitives), so they are not pinned in Props/C08.v; they are built with it (EXTRA_TARGETS). *)
From BSV Require Import Base.Hex Prim.Secp256k1 Model.EcIface Model.Bip32 Spec.Bip32Spec.
Local Open Scope string_scope.

Definition hexs (h : string) : bytes := match bytes_of_hex h with Some b => b | None => [] end.
Definition chars (s : string) : list ascii := list_ascii_of_string s.
Definition H (i : N) : N := (i + 2147483648)%N.

(* specification: master, descend, serialise both ways *)
Definition spec_chain (seed : string) (path : list N) : option (string * string) :=
  match master (hexs seed) with
  | Some m => match descend_priv ec_fast m path with
              | Some x => Some (serialize_priv x, serialize_pub ec_fast (neuter ec_fast x))
              | None => None
              end
  | None => None
  end.

(* implementation model: from_seed, derive_from_path on the textual path, to_string both ways *)
Definition model_chain (seed : string) (path : string) : outcome (string * string) :=
  do m <- xprv_from_seed ec_fast (hexs seed);
  do x <- (match chars path with [_] => Ok m | p => xprv_derive_path ec_fast m p end);
  Ok (xprv_to_string x, xpub_to_string (xpub_from_xprv x)).

Definition tv1 := "000102030405060708090a0b0c0d0e0f".
Definition tv2 := "fffcf9f6f3f0edeae7e4e1dedbd8d5d2cfccc9c6c3c0bdbab7b4b1aeaba8a5a29f9c999693908d8a8784817e7b7875726f6c696663605d5a5754514e4b484542".
Definition tv3 := "4b381541583be4423346c643850da4b320e46a87ae3d2a4e6da11eba819cd4acba45d239319ac14f863b8d5ab5a0d0c64d2e8a1e7d1457df2e5a3c51c73235be".

(* --- test vector 1 --- *)
Definition tv1_m := ("xprv9s21ZrQH143K3QTDL4LXw2F7HEK3wJUD2nW2nRk4stbPy6cq3jPPqjiChkVvvNKmPGJxWUtg6LnF5kejMRNNU3TGtRBeJgk33yuGBxrMPHi",
                     "xpub661MyMwAqRbcFtXgS5sYJABqqG9YLmC4Q1Rdap9gSE8NqtwybGhePY2gZ29ESFjqJoCu1Rupje8YtGqsefD265TMg7usUDFdp6W1EGMcet8").
Example tv1_m_spec : spec_chain tv1 [] = Some tv1_m.
Proof. vm_compute. reflexivity. Qed.
Example tv1_m_model : model_chain tv1 "m" = Ok tv1_m.
Proof. vm_compute. reflexivity. Qed.

Definition tv1_0h := ("xprv9uHRZZhk6KAJC1avXpDAp4MDc3sQKNxDiPvvkX8Br5ngLNv1TxvUxt4cV1rGL5hj6KCesnDYUhd7oWgT11eZG7XnxHrnYeSvkzY7d2bhkJ7",
                      "xpub68Gmy5EdvgibQVfPdqkBBCHxA5htiqg55crXYuXoQRKfDBFA1WEjWgP6LHhwBZeNK1VTsfTFUHCdrfp1bgwQ9xv5ski8PX9rL2dZXvgGDnw").
Example tv1_0h_spec : spec_chain tv1 [H 0] = Some tv1_0h.
Proof. vm_compute. reflexivity. Qed.
Example tv1_0h_model : model_chain tv1 "m/0'" = Ok tv1_0h.
Proof. vm_compute. reflexivity. Qed.

Definition tv1_0h_1 := ("xprv9wTYmMFdV23N2TdNG573QoEsfRrWKQgWeibmLntzniatZvR9BmLnvSxqu53Kw1UmYPxLgboyZQaXwTCg8MSY3H2EU4pWcQDnRnrVA1xe8fs",
                        "xpub6ASuArnXKPbfEwhqN6e3mwBcDTgzisQN1wXN9BJcM47sSikHjJf3UFHKkNAWbWMiGj7Wf5uMash7SyYq527Hqck2AxYysAA7xmALppuCkwQ").
Example tv1_0h_1_spec : spec_chain tv1 [H 0; 1%N] = Some tv1_0h_1.
Proof. vm_compute. reflexivity. Qed.
Example tv1_0h_1_model : model_chain tv1 "m/0H/1" = Ok tv1_0h_1.
Proof. vm_compute. reflexivity. Qed.

Definition tv1_0h_1_2h := ("xprv9z4pot5VBttmtdRTWfWQmoH1taj2axGVzFqSb8C9xaxKymcFzXBDptWmT7FwuEzG3ryjH4ktypQSAewRiNMjANTtpgP4mLTj34bhnZX7UiM",
                           "xpub6D4BDPcP2GT577Vvch3R8wDkScZWzQzMMUm3PWbmWvVJrZwQY4VUNgqFJPMM3No2dFDFGTsxxpG5uJh7n7epu4trkrX7x7DogT5Uv6fcLW5").
Example tv1_0h_1_2h_spec : spec_chain tv1 [H 0; 1%N; H 2] = Some tv1_0h_1_2h.
Proof. vm_compute. reflexivity. Qed.
Example tv1_0h_1_2h_model : model_chain tv1 "M/0h/1/2'" = Ok tv1_0h_1_2h.
Proof. vm_compute. reflexivity. Qed.

Definition tv1_full := ("xprvA41z7zogVVwxVSgdKUHDy1SKmdb533PjDz7J6N6mV6uS3ze1ai8FHa8kmHScGpWmj4WggLyQjgPie1rFSruoUihUZREPSL39UNdE3BBDu76",
                        "xpub6H1LXWLaKsWFhvm6RVpEL9P4KfRZSW7abD2ttkWP3SSQvnyA8FSVqNTEcYFgJS2UaFcxupHiYkro49S8yGasTvXEYBVPamhGW6cFJodrTHy").
Example tv1_full_spec : spec_chain tv1 [H 0; 1%N; H 2; 2%N; 1000000000%N] = Some tv1_full.
Proof. vm_compute. reflexivity. Qed.
Example tv1_full_model : model_chain tv1 "m/0'/1/2'/2/1000000000" = Ok tv1_full.
Proof. vm_compute. reflexivity. Qed.

(* --- test vector 2 --- *)
Definition tv2_m := ("xprv9s21ZrQH143K31xYSDQpPDxsXRTUcvj2iNHm5NUtrGiGG5e2DtALGdso3pGz6ssrdK4PFmM8NSpSBHNqPqm55Qn3LqFtT2emdEXVYsCzC2U",
                     "xpub661MyMwAqRbcFW31YEwpkMuc5THy2PSt5bDMsktWQcFF8syAmRUapSCGu8ED9W6oDMSgv6Zz8idoc4a6mr8BDzTJY47LJhkJ8UB7WEGuduB").
Example tv2_m_spec : spec_chain tv2 [] = Some tv2_m.
Proof. vm_compute. reflexivity. Qed.
Example tv2_m_model : model_chain tv2 "m" = Ok tv2_m.
Proof. vm_compute. reflexivity. Qed.

Definition tv2_0 := ("xprv9vHkqa6EV4sPZHYqZznhT2NPtPCjKuDKGY38FBWLvgaDx45zo9WQRUT3dKYnjwih2yJD9mkrocEZXo1ex8G81dwSM1fwqWpWkeS3v86pgKt",
                     "xpub69H7F5d8KSRgmmdJg2KhpAK8SR3DjMwAdkxj3ZuxV27CprR9LgpeyGmXUbC6wb7ERfvrnKZjXoUmmDznezpbZb7ap6r1D3tgFxHmwMkQTPH").
Example tv2_0_spec : spec_chain tv2 [0%N] = Some tv2_0.
Proof. vm_compute. reflexivity. Qed.
Example tv2_0_model : model_chain tv2 "m/0" = Ok tv2_0.
Proof. vm_compute. reflexivity. Qed.

Definition tv2_0_maxh := ("xprv9wSp6B7kry3Vj9m1zSnLvN3xH8RdsPP1Mh7fAaR7aRLcQMKTR2vidYEeEg2mUCTAwCd6vnxVrcjfy2kRgVsFawNzmjuHc2YmYRmagcEPdU9",
                          "xpub6ASAVgeehLbnwdqV6UKMHVzgqAG8Gr6riv3Fxxpj8ksbH9ebxaEyBLZ85ySDhKiLDBrQSARLq1uNRts8RuJiHjaDMBU4Zn9h8LZNnBC5y4a").
Example tv2_0_maxh_spec : spec_chain tv2 [0%N; H 2147483647] = Some tv2_0_maxh.
Proof. vm_compute. reflexivity. Qed.
Example tv2_0_maxh_model : model_chain tv2 "m/0/2147483647'" = Ok tv2_0_maxh.
Proof. vm_compute. reflexivity. Qed.

Definition tv2_full := ("xprvA2nrNbFZABcdryreWet9Ea4LvTJcGsqrMzxHx98MMrotbir7yrKCEXw7nadnHM8Dq38EGfSh6dqA9QWTyefMLEcBYJUuekgW4BYPJcr9E7j",
                        "xpub6FnCn6nSzZAw5Tw7cgR9bi15UV96gLZhjDstkXXxvCLsUXBGXPdSnLFbdpq8p9HmGsApME5hQTZ3emM2rnY5agb9rXpVGyy3bdW6EEgAtqt").
Example tv2_full_spec : spec_chain tv2 [0%N; H 2147483647; 1%N; H 2147483646; 2%N] = Some tv2_full.
Proof. vm_compute. reflexivity. Qed.
Example tv2_full_model : model_chain tv2 "m/0/2147483647H/1/2147483646h/2" = Ok tv2_full.
Proof. vm_compute. reflexivity. Qed.

(* public derivation of the normal first step of test vector 2 *)
Example tv2_0_public_spec :
  option_map (serialize_pub ec_fast)
    (match master (hexs tv2) with Some m => child_pub ec_fast (neuter ec_fast m) 0 | None => None end) = Some (snd tv2_0).
Proof. vm_compute. reflexivity. Qed.
Example tv2_0_public_model :
  omap xpub_to_string (do x <- xpub_from_seed ec_fast (hexs tv2); xpub_derive_path ec_fast x (chars "m/0")) = Ok (snd tv2_0).
Proof. vm_compute. reflexivity. Qed.

(* --- test vector 3 (leading zeros are retained) --- *)
Definition tv3_m := ("xprv9s21ZrQH143K25QhxbucbDDuQ4naNntJRi4KUfWT7xo4EKsHt2QJDu7KXp1A3u7Bi1j8ph3EGsZ9Xvz9dGuVrtHHs7pXeTzjuxBrCmmhgC6",
                     "xpub661MyMwAqRbcEZVB4dScxMAdx6d4nFc9nvyvH3v4gJL378CSRZiYmhRoP7mBy6gSPSCYk6SzXPTf3ND1cZAceL7SfJ1Z3GC8vBgp2epUt13").
Example tv3_m_spec : spec_chain tv3 [] = Some tv3_m.
Proof. vm_compute. reflexivity. Qed.
Definition tv3_0h := ("xprv9uPDJpEQgRQfDcW7BkF7eTya6RPxXeJCqCJGHuCJ4GiRVLzkTXBAJMu2qaMWPrS7AANYqdq6vcBcBUdJCVVFceUvJFjaPdGZ2y9WACViL4L",
                      "xpub68NZiKmJWnxxS6aaHmn81bvJeTESw724CRDs6HbuccFQN9Ku14VQrADWgqbhhTHBaohPX4CjNLf9fq9MYo6oDaPPLPxSb7gwQN3ih19Zm4Y").
Example tv3_0h_spec : spec_chain tv3 [H 0] = Some tv3_0h.
Proof. vm_compute. reflexivity. Qed.
Example tv3_0h_model : model_chain tv3 "m/0'" = Ok tv3_0h.
Proof. vm_compute. reflexivity. Qed.

(* serialised keys read back (specification reader and implementation model) *)
Example tv1_m_parse :
  option_map serialize_priv (parse_priv (fst tv1_m)) = Some (fst tv1_m) /\
  omap xprv_to_string (xprv_from_string ec_fast (fst tv1_m)) = Ok (fst tv1_m) /\
  option_map (serialize_pub ec_fast) (parse_pub ec_fast (snd tv1_m)) = Some (snd tv1_m) /\
  omap xpub_to_string (xpub_from_string ec_fast (snd tv1_m)) = Ok (snd tv1_m) /\
  xprv_from_string ec_fast (snd tv1_m) = Err /\ xpub_from_string ec_fast (fst tv1_m) = Err.
Proof. repeat split; vm_compute; reflexivity. Qed.
