(* Proofs/InterpSigRun.v — C15, part 3: running the finalised script of an input.
     A. the finalised script (serialise both scripts, concatenate, parse again) of straight-line scripts is the
        concatenation of their elements;
     B. straight-line execution: elements of the family alphabet (direct pushes, OP_0, OP_1..OP_16, OP_DUP,
        OP_HASH160, OP_EQUALVERIFY) and OP_CODESEPARATOR run in sequence; separators change nothing but the recorded
        offset, which ends up just behind the last separator executed;
     C. subscript_spec: the offset, reduced by the number of unlocking elements, cuts the locking script exactly at the
        script code of the specification (after the last separator that precedes the signature check). *)
From BSV Require Import Base.Bytes Base.Hex.
From BSV Require Import Prim.Num Prim.Secp256k1 Prim.Der Prim.Sha256.
From BSV Require Import Model.Opcodes Model.Script Model.VarInt Model.Tx Model.HashApi Model.Sighash Model.Ecdsa Model.Sig
  Model.Interp Model.InterpSig.
From BSV Require Import Spec.ScriptTok Spec.SighashWire Spec.LegacySighash Spec.SpendSpec.
From BSV Require Import Proofs.ScriptProofs Proofs.SighashProofs Proofs.LegacyProofs Proofs.InterpTotal Proofs.InterpSigProofs
  Proofs.InterpSigOps.
Local Open Scope list_scope.
Local Open Scope nat_scope.

(* ------------------------------------------------------------------ *)
(* the alphabet of the three families *)
Definition fam_op (c : N) : bool :=
  ((c =? 0) || ((81 <=? c) && (c <=? 96)) || (c =? 118) || (c =? 136) || (c =? 169)
   || (c =? 171) || (c =? 172) || (c =? 173) || (c =? 174) || (c =? 175))%N.
Definition straight_bit (b : bit) : bool :=
  match b with
  | BOp c => fam_op c
  | BPush d => Nat.leb 1 (length d) && Nat.leb (length d) 75
  | _ => false
  end.
Definition straight (s : list bit) : bool := forallb straight_bit s.

Lemma fam_op_cases c : fam_op c = true ->
  In c [0; 81; 82; 83; 84; 85; 86; 87; 88; 89; 90; 91; 92; 93; 94; 95; 96; 118; 136; 169; 171; 172; 173; 174; 175]%N.
Proof.
  unfold fam_op. intros H.
  assert (c = 0 \/ (81 <= c <= 96) \/ c = 118 \/ c = 136 \/ c = 169 \/ c = 171 \/ c = 172 \/ c = 173 \/ c = 174 \/ c = 175)%N as C.
  { repeat (apply orb_true_iff in H; destruct H as [H|H]); try (apply N.eqb_eq in H; lia).
    apply andb_true_iff in H. destruct H as [H1 H2]. apply N.leb_le in H1. apply N.leb_le in H2. lia. }
  cbn [In]. destruct C as [C|[C|C]]; [lia| |lia].
  assert (c = 81 \/ c = 82 \/ c = 83 \/ c = 84 \/ c = 85 \/ c = 86 \/ c = 87 \/ c = 88 \/ c = 89 \/ c = 90 \/ c = 91
          \/ c = 92 \/ c = 93 \/ c = 94 \/ c = 95 \/ c = 96)%N by lia. intuition lia.
Qed.

Ltac fam_cases H :=
  apply fam_op_cases in H; cbn [In] in H;
  repeat (destruct H as [H|H]; [subst|]); [..|contradiction].

(* evaluate closed boolean tests on N (N operations are `simpl never`) *)
Ltac ev_bool t :=
  let v := eval vm_compute in t in
  lazymatch v with
  | true => change t with true
  | false => change t with false
  end.
Ltac ev_cond :=
  repeat match goal with
  | |- context [(?a =? ?b)%N] => ev_bool (a =? b)%N
  | |- context [(?a <? ?b)%N] => ev_bool (a <? b)%N
  | |- context [(?a <=? ?b)%N] => ev_bool (a <=? b)%N
  | |- context [is_opcode ?a] => ev_bool (is_opcode a)
  | |- context [is_if ?a] => ev_bool (is_if a)
  end; cbn [negb andb orb].

Lemma straight_app a b : straight (a ++ b) = straight a && straight b.
Proof. apply forallb_app. Qed.

Lemma straight_plain s : straight s = true -> plain_bits s = true.
Proof.
  induction s as [|b r IH]; [reflexivity|]. cbn [straight forallb plain_bits]. intros H.
  apply andb_true_iff in H. destruct H as [Hb Hr]. rewrite (IH Hr), andb_true_r.
  destruct b; cbn [straight_bit] in Hb; try discriminate; cbn [plain_bit]; [reflexivity|].
  apply andb_true_iff in Hb. tauto.
Qed.

Lemma straight_flats s : straight s = true -> flats s = s.
Proof.
  induction s as [|b r IH]; [reflexivity|]. cbn [straight forallb flats]. intros H.
  apply andb_true_iff in H. destruct H as [Hb Hr]. rewrite (IH Hr).
  destruct b; cbn [straight_bit] in Hb; try discriminate; reflexivity.
Qed.
Lemma straight_flatten s : straight s = true -> flatten s = map tok_of_bit s.
Proof. intros H. unfold flatten. rewrite (straight_flats s H). reflexivity. Qed.

(* ------------------------------------------------------------------ *)
(* A. parsing the concatenation *)
Lemma tokenize_straight : forall s f, straight s = true -> length s <= f -> tokenize f (to_bytes s) = Ok s.
Proof.
  induction s as [|b r IH]; intros f Hs Hf; [apply tokenize_nil|].
  cbn [straight forallb] in Hs. apply andb_true_iff in Hs. destruct Hs as [Hb Hr].
  cbn [length] in Hf. destruct f as [|f]; [lia|].
  cbn [to_bytes]. destruct b as [c|d|c d|c p q|d]; cbn [straight_bit] in Hb; try discriminate.
  - cbn [bit_bytes app]. rewrite tokenize_cons. cbv zeta.
    fam_cases Hb; rewrite b2n_n2b by lia; ev_cond; cbv iota;
      (rewrite IH by (try assumption; lia)); reflexivity.
  - apply andb_true_iff in Hb. destruct Hb as [H1 H2]. apply Nat.leb_le in H1. apply Nat.leb_le in H2.
    cbn [bit_bytes]. rewrite <- app_comm_cons. rewrite tokenize_cons. cbv zeta.
    rewrite b2n_n2b by lia.
    replace (N.of_nat (length d) =? 0)%N with false by (symmetry; apply N.eqb_neq; lia).
    replace (N.of_nat (length d) <? 76)%N with true by (symmetry; apply N.ltb_lt; lia).
    cbn [negb andb]. rewrite Nat2N.id.
    rewrite skipn_app, Nat.sub_diag, skipn_all. cbn [skipn app].
    rewrite firstn_app, Nat.sub_diag, firstn_all. cbn [firstn]. rewrite app_nil_r.
    rewrite IH by (try assumption; lia). reflexivity.
Qed.

Lemma nest_straight : forall s f, straight s = true -> length s < f -> nest f Top s = Ok (s, TEnd, []).
Proof.
  induction s as [|b r IH]; intros f Hs Hf; (destruct f as [|f]; [cbn [length] in Hf; lia|]); [reflexivity|].
  cbn [straight forallb] in Hs. apply andb_true_iff in Hs. destruct Hs as [Hb Hr]. cbn [length] in Hf.
  destruct b as [c|d|c d|c p q|d]; cbn [straight_bit] in Hb; try discriminate.
  - cbn [nest]. fam_cases Hb; ev_cond; cbv iota; unfold OP_ELSE, OP_ENDIF; ev_cond; cbv iota;
      (rewrite IH by (try assumption; lia)); reflexivity.
  - cbn [nest]. rewrite IH by (try assumption; lia). reflexivity.
Qed.

Lemma from_bytes_straight s : straight s = true -> from_bytes (to_bytes s) = Ok s.
Proof.
  intros Hs. unfold from_bytes.
  assert (Hlen : length s <= length (to_bytes s)).
  { clear -Hs. induction s as [|b r IH]; [reflexivity|].
    cbn [straight forallb] in Hs. apply andb_true_iff in Hs. destruct Hs as [Hb Hr].
    cbn [to_bytes length]. rewrite app_length. specialize (IH Hr).
    destruct b; cbn [straight_bit] in Hb; try discriminate; cbn [bit_bytes length]; lia. }
  rewrite tokenize_straight by assumption. cbn [bind]. unfold nest_top.
  rewrite nest_straight by (try assumption; lia). reflexivity.
Qed.

Lemma finalised_straight i l :
  locking i = Some l -> straight (unlocking i) = true -> straight l = true ->
  finalised_script i = Ok (unlocking i ++ l).
Proof.
  intros Hl Hu Hs. unfold finalised_script. rewrite Hl, <- to_bytes_app.
  apply from_bytes_straight. rewrite straight_app, Hu, Hs. reflexivity.
Qed.

(* ------------------------------------------------------------------ *)
(* B. straight-line execution *)
Definition is_sep (b : bit) : bool := match b with BOp c => (c =? 171)%N | _ => false end.
Definition is_chk (b : bit) : bool :=
  match b with BOp c => (c =? 172)%N || (c =? 173)%N || (c =? 174)%N || (c =? 175)%N | _ => false end.
Definition remove_seps (s : list bit) : list bit := filter (fun b => negb (is_sep b)) s.

(* stack effect of the simple elements *)
Definition dup_fn (s : vec) : outcome vec :=
  match split_last s with None => Err | Some (_, top) => Ok (s ++ [top]) end.
Definition hash160_fn (s : vec) : outcome vec :=
  do p <- pop_bytes s; let '(d, s') := p in Ok (s' ++ [hash_160 d]).
Definition equalverify_fn (s : vec) : outcome vec :=
  do p <- pop_bytes s; let '(a, s1) := p in
  do q <- pop_bytes s1; let '(b, s2) := q in
  do _ <- verify (bytes_eqb a b); Ok s2.

Definition simple_fn (b : bit) : option (vec -> outcome vec) :=
  match b with
  | BPush d => Some (fun s => Ok (s ++ [d]))
  | BOp c =>
      if (c =? 0)%N then Some (push_number 0)
      else if (81 <=? c)%N && (c <=? 96)%N then Some (push_number (Z.of_N c - 80))
      else if (c =? 118)%N then Some dup_fn
      else if (c =? 169)%N then Some hash160_fn
      else if (c =? 136)%N then Some equalverify_fn
      else None
  | _ => None
  end.
Definition code_of_bit (b : bit) : N := match b with BOp c => c | _ => OP_DATA end.

Definition is_simple (b : bit) : bool := match simple_fn b with Some _ => true | None => false end.
Definition pre_bit (b : bit) : bool := is_sep b || is_simple b.        (* may stand before / after the check *)

(* one element at position k *)
Definition step_fn (k : nat) (b : bit) (st : state) : outcome state :=
  if is_sep b then Ok (push_executed (with_codesep st (k + 1)) 171)
  else match simple_fn b with
       | Some f => do s' <- f (stack st); Ok (push_executed (with_stack st s') (code_of_bit b))
       | None => Err
       end.
Fixpoint exec (k : nat) (p : list bit) (st : state) : outcome state :=
  match p with
  | [] => Ok st
  | b :: r => do st' <- step_fn k b st; exec (S k) r st'
  end.

Section Run.
  Variable P : ec_prims.
  Notation next := (next_impl txctx sig_preimage (sig_verify P)).
  Notation runf := (run_fuel txctx sig_preimage (sig_verify P)).
  Notation mopc := (match_opcode txctx sig_preimage (sig_verify P)).

  Lemma step_simple bits k st tx b :
    nth_error bits k = Some b -> pre_bit b = true ->
    next (mkInterp bits k st tx) =
      match step_fn k b st with
      | Ok st' => StepOk (mkInterp bits (k + 1) st' tx)
      | Err => StepErr (match b with BOp c => mkInterp bits k (push_executed st c) tx | _ => mkInterp bits k st tx end)
      | Panic => StepPanic
      end.
  Proof.
    intros Hb Hp. unfold Interp.next_impl. cbn [script_bits script_index]. rewrite Hb.
    unfold step_fn, pre_bit, is_simple in *.
    destruct b as [c|d|c d|c p q|d]; cbn [is_sep simple_fn] in *; try discriminate.
    - cbn [match_script_bit istate script_index tx_script].
      destruct (c =? 171)%N eqn:Esep.
      + apply N.eqb_eq in Esep. subst c. cbn [Interp.match_opcode op_codeseparator]. reflexivity.
      + cbn [orb] in Hp.
        destruct (c =? 0)%N eqn:E0.
        { apply N.eqb_eq in E0. subst c. cbn [Interp.match_opcode code_of_bit]. unfold op_push_number, lift_stack.
          destruct (push_number 0 (stack st)); reflexivity. }
        destruct ((81 <=? c)%N && (c <=? 96)%N) eqn:En.
        { apply andb_true_iff in En. destruct En as [E1 E2]. apply N.leb_le in E1. apply N.leb_le in E2.
          assert (c = 81 \/ c = 82 \/ c = 83 \/ c = 84 \/ c = 85 \/ c = 86 \/ c = 87 \/ c = 88 \/ c = 89 \/ c = 90 \/ c = 91
                  \/ c = 92 \/ c = 93 \/ c = 94 \/ c = 95 \/ c = 96)%N as C by lia.
          assert (Hfin : forall z : Z,
                    (match lift_stack st (push_number z (stack st)) with
                     | Ok next_state => ({| script_bits := bits; script_index := k; istate := st; tx_script := tx |}, Ok (push_executed next_state c))
                     | Err => ({| script_bits := bits; script_index := k; istate := push_executed st c; tx_script := tx |}, Err)
                     | Panic => ({| script_bits := bits; script_index := k; istate := st; tx_script := tx |}, Panic)
                     end) = (match push_number z (stack st) with
                             | Ok s' => ({| script_bits := bits; script_index := k; istate := st; tx_script := tx |}, Ok (push_executed (with_stack st s') c))
                             | Err => ({| script_bits := bits; script_index := k; istate := push_executed st c; tx_script := tx |}, Err)
                             | Panic => ({| script_bits := bits; script_index := k; istate := st; tx_script := tx |}, Panic)
                             end)).
          { intros z. unfold lift_stack. destruct (push_number z (stack st)); reflexivity. }
          cbn [code_of_bit].
          repeat (destruct C as [C|C];
                  [subst c; cbn [Interp.match_opcode]; unfold op_push_number;
                   match goal with |- context [(Z.of_N ?a - 80)%Z] =>
                     let v := eval vm_compute in (Z.of_N a - 80)%Z in change (Z.of_N a - 80)%Z with v end;
                   rewrite Hfin; match goal with |- context [push_number ?z ?s] => destruct (push_number z s) end; reflexivity|]).
          subst c; cbn [Interp.match_opcode]; unfold op_push_number;
            match goal with |- context [(Z.of_N ?a - 80)%Z] =>
              let v := eval vm_compute in (Z.of_N a - 80)%Z in change (Z.of_N a - 80)%Z with v end;
            rewrite Hfin; match goal with |- context [push_number ?z ?s] => destruct (push_number z s) end; reflexivity. }
        destruct (c =? 118)%N eqn:E118.
        { apply N.eqb_eq in E118. subst c. cbn [Interp.match_opcode code_of_bit]. unfold op_dup, dup_fn.
          destruct (split_last (stack st)) as [[? ?]|]; reflexivity. }
        destruct (c =? 169)%N eqn:E169.
        { apply N.eqb_eq in E169. subst c. cbn [Interp.match_opcode code_of_bit]. unfold op_hash, hash160_fn.
          destruct (pop_bytes (stack st)) as [[? ?]| |]; reflexivity. }
        destruct (c =? 136)%N eqn:E136; [|discriminate].
        apply N.eqb_eq in E136. subst c. cbn [Interp.match_opcode code_of_bit]. unfold op_equalverify, equalverify_fn.
        destruct (pop_bytes (stack st)) as [[a s1]| |]; cbn [bind]; try reflexivity.
        destruct (pop_bytes s1) as [[b s2]| |]; cbn [bind]; try reflexivity.
        destruct (verify (bytes_eqb a b)) as [[]| |]; reflexivity.
    - cbn [match_script_bit istate script_index tx_script code_of_bit bind]. reflexivity.
  Qed.

  Lemma run_exec : forall p bits k st tx f,
    (forall j b, nth_error p j = Some b -> nth_error bits (k + j) = Some b) ->
    forallb pre_bit p = true ->
    match exec k p st with
    | Ok st' => runf (length p + f) (mkInterp bits k st tx) = runf f (mkInterp bits (k + length p) st' tx)
    | Err => exists j, runf (length p + S f) (mkInterp bits k st tx) = RunErr j
    | Panic => True
    end.
  Proof.
    induction p as [|b r IH]; intros bits k st tx f Hnth Hp; cbn [exec length].
    - rewrite Nat.add_0_r. reflexivity.
    - cbn [forallb] in Hp. apply andb_true_iff in Hp. destruct Hp as [Hb Hr].
      assert (Hk : nth_error bits k = Some b) by (rewrite <- (Nat.add_0_r k); apply Hnth; reflexivity).
      pose proof (step_simple bits k st tx b Hk Hb) as Hstep.
      destruct (step_fn k b st) as [st1| |] eqn:Est; cbn [bind]; [| |exact I].
      + assert (Hnth' : forall j b0, nth_error r j = Some b0 -> nth_error bits (S k + j) = Some b0).
        { intros j b0 Hj. replace (S k + j) with (k + S j) by lia. apply Hnth. exact Hj. }
        specialize (IH bits (S k) st1 tx f Hnth' Hr).
        destruct (exec (S k) r st1) as [st'| |]; [| |exact I].
        * cbn [Nat.add Interp.run_fuel]. rewrite Hstep. replace (k + 1) with (S k) by lia.
          rewrite IH. replace (S k + length r) with (k + S (length r)) by lia. reflexivity.
        * destruct IH as (j & Hj). exists j. cbn [Nat.add Interp.run_fuel]. rewrite Hstep.
          replace (k + 1) with (S k) by lia. exact Hj.
      + eexists. cbn [Nat.add Interp.run_fuel]. rewrite Hstep. reflexivity.
  Qed.
End Run.

(* what the executor does to the fields of the state *)
Fixpoint stack_exec (p : list bit) (s : vec) : outcome vec :=
  match p with
  | [] => Ok s
  | b :: r => match simple_fn b with
              | Some f => do s' <- f s; stack_exec r s'
              | None => Err
              end
  end.

(* offset recorded after running p from position k: just behind the last separator, else unchanged *)
Fixpoint last_sep (k : nat) (p : list bit) (c0 : nat) : nat :=
  match p with
  | [] => c0
  | b :: r => last_sep (S k) r (if is_sep b then k + 1 else c0)
  end.

Lemma exec_fields : forall p k st,
  forallb pre_bit p = true ->
  match exec k p st with
  | Ok st' => stack_exec (remove_seps p) (stack st) = Ok (stack st') /\ alt_stack st' = alt_stack st /\
              finished st' = finished st /\ codesep st' = last_sep k p (codesep st)
  | Err => stack_exec (remove_seps p) (stack st) = Err
  | Panic => stack_exec (remove_seps p) (stack st) = Panic
  end.
Proof.
  induction p as [|b r IH]; intros k st Hp; cbn [exec remove_seps filter last_sep].
  - repeat split; reflexivity.
  - cbn [forallb] in Hp. apply andb_true_iff in Hp. destruct Hp as [Hb Hr].
    unfold step_fn. destruct (is_sep b) eqn:Esep; cbn [negb bind].
    + specialize (IH (S k) (push_executed (with_codesep st (k + 1)) 171) Hr).
      cbn [stack alt_stack finished codesep push_executed with_codesep] in IH. exact IH.
    + unfold pre_bit, is_simple in Hb. rewrite Esep in Hb. cbn [orb] in Hb. cbn [stack_exec].
      destruct (simple_fn b) as [f|]; [|discriminate].
      destruct (f (stack st)) as [s'| |]; cbn [bind]; try reflexivity.
      specialize (IH (S k) (push_executed (with_stack st s') (code_of_bit b)) Hr).
      cbn [stack alt_stack finished codesep push_executed with_stack] in IH. exact IH.
Qed.

(* ------------------------------------------------------------------ *)
(* C. the recorded offset and the script code of the specification *)
Definition has_sep (p : list bit) : bool := existsb is_sep p.
(* number of elements of p up to and including its last separator *)
Fixpoint sep_pos (p : list bit) : nat :=
  match p with
  | [] => 0
  | b :: r => if has_sep r then S (sep_pos r) else if is_sep b then 1 else 0
  end.

Lemma last_sep_pos : forall p k c0, last_sep k p c0 = if has_sep p then k + sep_pos p else c0.
Proof.
  induction p as [|b r IH]; intros k c0; cbn [last_sep has_sep existsb sep_pos]; [reflexivity|].
  rewrite IH. fold (has_sep r). destruct (has_sep r); [rewrite orb_true_r; lia|].
  rewrite orb_false_r. destruct (is_sep b); lia.
Qed.

Lemma no_sep_pushes u : forallb (fun b => is_simple b && negb (is_sep b)) u = true -> has_sep u = false.
Proof.
  induction u as [|b r IH]; [reflexivity|]. cbn [forallb has_sep existsb]. intros H.
  apply andb_true_iff in H. destruct H as [Hb Hr]. apply andb_true_iff in Hb. destruct Hb as [_ Hb].
  apply negb_true_iff in Hb. rewrite Hb. exact (IH Hr).
Qed.

Lemma has_sep_app a b : has_sep (a ++ b) = has_sep a || has_sep b.
Proof. apply existsb_app. Qed.
Lemma sep_pos_app_nosep u p : has_sep u = false -> has_sep p = true -> sep_pos (u ++ p) = length u + sep_pos p.
Proof.
  intros Hu Hp. induction u as [|b r IH]; [reflexivity|].
  cbn [has_sep existsb] in Hu. apply orb_false_iff in Hu. destruct Hu as [Hb Hr].
  cbn [app sep_pos length]. rewrite has_sep_app, Hp, orb_true_r. rewrite (IH Hr). reflexivity.
Qed.

(* the offset seen by the check that follows `u ++ pA` (run from position 0 with offset 0), reduced by |u| *)
Lemma offset_after u pA :
  has_sep u = false -> last_sep 0 (u ++ pA) 0 - length u = sep_pos pA.
Proof.
  intros Hu. rewrite last_sep_pos, has_sep_app, Hu. cbn [orb Nat.add].
  destruct (has_sep pA) eqn:Hp.
  - rewrite sep_pos_app_nosep by assumption. lia.
  - cbn [Nat.sub]. clear -Hp. induction pA as [|b r IH]; [reflexivity|].
    cbn [has_sep existsb] in Hp. apply orb_false_iff in Hp. destruct Hp as [Hb Hr].
    cbn [sep_pos]. fold (has_sep r) in Hr. rewrite Hr, Hb. reflexivity.
Qed.

Lemma tok_is_check b : straight_bit b = true -> is_check (tok_of_bit b) = is_chk b.
Proof. destruct b; cbn [straight_bit]; try discriminate; reflexivity. Qed.
Lemma tok_is_sep b : straight_bit b = true -> is_separator (tok_of_bit b) = is_sep b.
Proof. destruct b; cbn [straight_bit]; try discriminate; reflexivity. Qed.

Lemma code_of_bits : forall pA pre chk pB s,
  straight pA = true -> forallb (fun b => negb (is_chk b)) pA = true -> is_chk chk = true -> straight_bit chk = true ->
  let l := pre ++ pA ++ chk :: pB in
  code_of (map tok_of_bit (skipn s l)) (map tok_of_bit (pA ++ chk :: pB))
  = map tok_of_bit (skipn (if has_sep pA then length pre + sep_pos pA else s) l).
Proof.
  induction pA as [|b r IH]; intros pre chk pB s Hs Hn Hc Hcs l.
  - cbn [app map code_of has_sep existsb]. rewrite (tok_is_check chk Hcs), Hc. reflexivity.
  - cbn [straight forallb] in Hs, Hn. apply andb_true_iff in Hs. destruct Hs as [Hb Hr].
    apply andb_true_iff in Hn. destruct Hn as [Hnb Hnr]. apply negb_true_iff in Hnb.
    cbn [app map code_of]. rewrite (tok_is_check b Hb), Hnb, (tok_is_sep b Hb).
    assert (El : l = (pre ++ [b]) ++ r ++ chk :: pB) by (unfold l; rewrite <- app_assoc; reflexivity).
    cbn [has_sep existsb sep_pos]. fold (has_sep r).
    destruct (is_sep b) eqn:Eb.
    + assert (Er : map tok_of_bit (r ++ chk :: pB) = map tok_of_bit (skipn (length pre + 1) l)).
      { rewrite El. replace (length pre + 1) with (length (pre ++ [b])) by (rewrite app_length; cbn [length]; lia).
        rewrite skipn_app, Nat.sub_diag, skipn_all. reflexivity. }
      rewrite Er at 1. specialize (IH (pre ++ [b]) chk pB (length pre + 1) Hr Hnr Hc Hcs). cbv zeta in IH.
      rewrite <- El in IH. rewrite IH. rewrite app_length. cbn [length orb].
      destruct (has_sep r); do 2 f_equal; lia.
    + specialize (IH (pre ++ [b]) chk pB s Hr Hnr Hc Hcs). cbv zeta in IH. rewrite <- El in IH. rewrite IH.
      rewrite app_length. cbn [length orb]. destruct (has_sep r); do 2 f_equal; lia.
Qed.

(* subscript_spec: for a locking script  pA ++ chk :: pB  of family elements in which chk is the first signature
   check, the elements after the last separator of pA are the script code of the specification *)
Theorem subscript_spec pA chk pB :
  straight pA = true -> forallb (fun b => negb (is_chk b)) pA = true -> is_chk chk = true -> straight_bit chk = true ->
  script_code (map tok_of_bit (pA ++ chk :: pB)) = map tok_of_bit (skipn (sep_pos pA) (pA ++ chk :: pB)).
Proof.
  intros Hs Hn Hc Hcs. unfold script_code.
  pose proof (code_of_bits pA [] chk pB 0 Hs Hn Hc Hcs) as H. cbv zeta in H. cbn [app length Nat.add skipn] in H.
  rewrite H. destruct (has_sep pA) eqn:Hp; [reflexivity|].
  f_equal. f_equal. clear -Hp. induction pA as [|b r IH]; [reflexivity|].
  cbn [has_sep existsb] in Hp. apply orb_false_iff in Hp. destruct Hp as [Hb Hr].
  cbn [sep_pos]. fold (has_sep r) in Hr. rewrite Hr, Hb. reflexivity.
Qed.

(* without a separator in front of the check the script code is the whole locking script *)
Lemma code_of_no_sep : forall ts start, forallb (fun x => negb (is_separator x)) ts = true -> code_of start ts = start.
Proof.
  induction ts as [|x r IH]; intros start H; cbn [code_of]; [reflexivity|].
  cbn [forallb] in H. apply andb_true_iff in H. destruct H as [Hx Hr]. apply negb_true_iff in Hx. rewrite Hx.
  destruct (is_check x); [reflexivity|apply IH; exact Hr].
Qed.
Lemma script_code_no_sep l : forallb (fun x => negb (is_separator x)) l = true -> script_code l = l.
Proof. intros H. unfold script_code. apply code_of_no_sep. exact H. Qed.
