(* Proofs/StringLemmas.v — generic lemmas about `string`: append, `join`, per-character predicates,
   association lists keyed by strings, hex text. *)
From BSV Require Import Base.Hex Model.Opcodes Spec.AsmSpec.

(* ------------------------------------------------------------------ *)
(* append *)
Lemma sapp_nil_r s : s +++ "" = s.
Proof. induction s as [|c r IH]; cbn [String.append]; [reflexivity | rewrite IH; reflexivity]. Qed.

Lemma sapp_assoc a b c : (a +++ b) +++ c = a +++ b +++ c.
Proof. induction a as [|x a IH]; cbn [String.append]; [reflexivity | rewrite IH; reflexivity]. Qed.

Lemma slength_app a b : slength (a +++ b) = slength a + slength b.
Proof. induction a as [|x a IH]; cbn [String.append String.length]; [reflexivity | rewrite IH; reflexivity]. Qed.

Lemma sapp_cons_ne a c b : a +++ String c b <> "".
Proof. destruct a; cbn [String.append]; discriminate. Qed.

Lemma sapp_ne_l a b : a <> "" -> a +++ b <> "".
Proof. destruct a; cbn [String.append]; [congruence | discriminate]. Qed.

(* per-character predicate *)
(* (`all_chars` is defined in Spec/AsmSpec.v) *)
Lemma all_chars_app P a b : all_chars P (a +++ b) = all_chars P a && all_chars P b.
Proof. induction a as [|x a IH]; cbn [String.append all_chars]; [reflexivity | rewrite IH, andb_assoc; reflexivity]. Qed.

Lemma all_chars_impl (P Q : ascii -> bool) s : (forall c, P c = true -> Q c = true) -> all_chars P s = true -> all_chars Q s = true.
Proof.
  intros H. induction s as [|c r IH]; cbn [all_chars]; [reflexivity|].
  rewrite !andb_true_iff. intros [A B]. split; auto.
Qed.

(* two characters at a time *)
Lemma string_ind2 (P : string -> Prop) :
  P "" -> (forall c, P (String c "")) -> (forall c1 c2 r, P r -> P (String c1 (String c2 r))) -> forall s, P s.
Proof.
  intros H0 H1 H2.
  refine (fix go s := match s with EmptyString => H0 | String c1 EmptyString => H1 c1 | String c1 (String c2 r) => H2 c1 c2 r (go r) end).
Qed.

(* ------------------------------------------------------------------ *)
(* join *)
Lemma join_cons sep x r : r <> [] -> join sep (x :: r) = x +++ sep +++ join sep r.
Proof. destruct r; [congruence | reflexivity]. Qed.

Lemma join_app sep a b : a <> [] -> b <> [] -> join sep (a ++ b) = join sep a +++ sep +++ join sep b.
Proof.
  intros Ha Hb. induction a as [|x a IH]; [congruence|].
  destruct a as [|y a].
  - cbn [app]. rewrite join_cons by exact Hb. reflexivity.
  - change ((x :: y :: a) ++ b) with (x :: ((y :: a) ++ b)).
    rewrite join_cons by (cbn; discriminate). rewrite IH by discriminate.
    rewrite (join_cons sep x (y :: a)) by discriminate. rewrite !sapp_assoc. reflexivity.
Qed.

Lemma join_hd_ne sep x r : x <> "" -> join sep (x :: r) <> "".
Proof. intros H. destruct r; cbn [join]; [exact H | apply sapp_ne_l; exact H]. Qed.

(* a joined sub-list can be spliced in *)
Lemma join_mid sep a l b : l <> [] -> join sep (a ++ [join sep l] ++ b) = join sep (a ++ l ++ b).
Proof.
  intros Hl.
  assert (T : join sep ([join sep l] ++ b) = join sep (l ++ b)).
  { destruct b as [|y b]; [cbn [app]; rewrite app_nil_r; reflexivity|].
    assert (Hb : y :: b <> []) by discriminate.
    rewrite (join_app sep l (y :: b) Hl Hb). reflexivity. }
  destruct a as [|x a]; [exact T|].
  assert (Ha : x :: a <> []) by discriminate.
  assert (H1 : [join sep l] ++ b <> []) by (cbn; discriminate).
  assert (H2 : l ++ b <> []) by (destruct l; [congruence | cbn; discriminate]).
  rewrite (join_app sep (x :: a) _ Ha H1), (join_app sep (x :: a) _ Ha H2), T. reflexivity.
Qed.

(* ------------------------------------------------------------------ *)
(* association lists keyed by strings (the opcode / alias tables) *)
Lemma lookup_val_in t s v : lookup_val t s = Some v -> In (s, v) t.
Proof.
  induction t as [|[s' v'] t IH]; cbn [lookup_val]; [discriminate|].
  destruct (String.eqb s' s) eqn:E.
  - apply String.eqb_eq in E. intros H; inversion H; subst. left; reflexivity.
  - intros H; right; auto.
Qed.

Lemma lookup_val_complete t s : In s (map fst t) -> exists v, lookup_val t s = Some v.
Proof.
  induction t as [|[s' v'] t IH]; cbn [map fst In lookup_val]; [tauto|].
  intros [->|H].
  - rewrite String.eqb_refl. eauto.
  - destruct (String.eqb s' s); eauto.
Qed.

Lemma lookup_name_in t b s : lookup_name t b = Some s -> In (s, b) t.
Proof.
  induction t as [|[s' v'] t IH]; cbn [lookup_name]; [discriminate|].
  destruct (v' =? b)%N eqn:E.
  - apply N.eqb_eq in E. intros H; inversion H; subst. left; reflexivity.
  - intros H; right; auto.
Qed.

(* ------------------------------------------------------------------ *)
(* hex text *)
Lemma char_nib_hex_digit c : (exists n, char_nib c = Some n) <-> hex_digit c = true.
Proof.
  unfold char_nib, hex_digit. set (n := N_of_ascii c).
  destruct ((48 <=? n)%N && (n <=? 57)%N); [split; eauto|].
  destruct ((97 <=? n)%N && (n <=? 102)%N); [split; eauto|].
  destruct ((65 <=? n)%N && (n <=? 70)%N); [split; eauto|].
  cbn. split; [intros [x H]; discriminate | discriminate].
Qed.

Lemma bytes_of_hex_accepts s :
  (exists d, bytes_of_hex s = Some d) <-> (Nat.even (slength s) && all_chars hex_digit s = true).
Proof.
  induction s as [| c | c1 c2 r IH] using string_ind2.
  - cbn. split; eauto.
  - cbn. split; [intros [d H]; discriminate | discriminate].
  - cbn [bytes_of_hex String.length all_chars Nat.even].
    pose proof (char_nib_hex_digit c1) as H1. pose proof (char_nib_hex_digit c2) as H2.
    destruct (char_nib c1) as [h|].
    + destruct (char_nib c2) as [l|].
      * assert (E1 : hex_digit c1 = true) by (apply H1; eauto).
        assert (E2 : hex_digit c2 = true) by (apply H2; eauto).
        rewrite E1, E2. cbn [andb]. rewrite <- IH.
        destruct (bytes_of_hex r) as [bs|]; split; intros [d H]; try discriminate; eauto.
      * assert (E2 : hex_digit c2 = false).
        { destruct (hex_digit c2); [|reflexivity]. destruct H2 as [_ H2]. destruct (H2 eq_refl); discriminate. }
        rewrite E2. cbn [andb]. rewrite !andb_false_r. split; [intros [d H]; discriminate | discriminate].
    + assert (E1 : hex_digit c1 = false).
      { destruct (hex_digit c1); [|reflexivity]. destruct H1 as [_ H1]. destruct (H1 eq_refl); discriminate. }
      rewrite E1. cbn [andb]. rewrite !andb_false_r. split; [intros [d H]; discriminate | discriminate].
Qed.

(* hex_of_bytes produces lower-case hex digits only *)
Lemma nib_char_cases n : exists k, (k < 16)%N /\ nib_char n = nib_char k.
Proof.
  destruct (N.ltb n 16) eqn:E.
  - exists n. split; [lia | reflexivity].
  - exists 15%N. split; [lia|].
    unfold nib_char. destruct n as [|p]; [discriminate|].
    do 4 (destruct p as [p|p|]; try reflexivity; try discriminate).
    all: try (destruct p; reflexivity).
Qed.

Lemma all_chars_hex_of_bytes (P : ascii -> bool) :
  (forall k, (k < 16)%N -> P (nib_char k) = true) -> forall d, all_chars P (hex_of_bytes d) = true.
Proof.
  intros H d. induction d as [|b r IH]; cbn [hex_of_bytes all_chars]; [reflexivity|].
  destruct (nib_char_cases (b2n b / 16)) as (k1 & L1 & ->).
  destruct (nib_char_cases (b2n b mod 16)) as (k2 & L2 & ->).
  rewrite !H by assumption. exact IH.
Qed.

Lemma forall_lt16 (P : N -> Prop) :
  P 0%N -> P 1%N -> P 2%N -> P 3%N -> P 4%N -> P 5%N -> P 6%N -> P 7%N -> P 8%N -> P 9%N -> P 10%N -> P 11%N ->
  P 12%N -> P 13%N -> P 14%N -> P 15%N -> forall k, (k < 16)%N -> P k.
Proof.
  intros. assert (k = 0 \/ k = 1 \/ k = 2 \/ k = 3 \/ k = 4 \/ k = 5 \/ k = 6 \/ k = 7 \/ k = 8 \/ k = 9 \/
          k = 10 \/ k = 11 \/ k = 12 \/ k = 13 \/ k = 14 \/ k = 15)%N as C by lia.
  repeat (destruct C as [->|C]; [assumption|]). subst; assumption.
Qed.

Lemma hex_of_bytes_ne d : d <> [] -> hex_of_bytes d <> "".
Proof. destruct d; [congruence | cbn [hex_of_bytes]; discriminate]. Qed.
