(* Proofs/InterpNum.v — the library's script-number and boolean codecs (stack_trait.rs over
   num-bigint) are the specification's: to_bigint = num_of, push_bigint pushes num_enc,
   CastToBool = truthy = "number is not zero", push_number = num_enc on the i32 range. *)
From BSV Require Import Base.Hex Model.Opcodes Model.Script Model.Interp Spec.ScriptTok Spec.InterpBSV Proofs.InterpTotal.
Open Scope Z_scope.

(* ------------------------------------------------------------------ *)
(* byte facts, by enumeration of the 256 bytes *)
Lemma clear_top_val b : b2n (clear_top b) = (b2n b mod 128)%N.
Proof. destruct b; vm_compute; reflexivity. Qed.
Lemma top_bit_val b : top_bit b = (128 <=? b2n b)%N.
Proof. destruct b; vm_compute; reflexivity. Qed.
Lemma set_top_val b : (b2n b < 128)%N -> set_top b = n2b (b2n b + 128).
Proof. destruct b; vm_compute; intros H; try reflexivity; discriminate H. Qed.
Lemma n2b_mod n : n2b (n mod 256) = n2b n.
Proof. unfold n2b. rewrite N.mod_mod by lia. reflexivity. Qed.
Lemma n2b_inj_small a b : (a < 256)%N -> (b < 256)%N -> n2b a = n2b b -> a = b.
Proof. intros Ha Hb H. rewrite <- (b2n_n2b a Ha), <- (b2n_n2b b Hb), H. reflexivity. Qed.

(* ------------------------------------------------------------------ *)
(* decode *)
Lemma split_last_cons {A} (x : A) r i z : split_last r = Some (i, z) -> split_last (x :: r) = Some (x :: i, z).
Proof. intros H. cbn [split_last]. rewrite H. reflexivity. Qed.

Lemma num_mag_split : forall d i z, split_last d = Some (i, z) ->
  num_mag d = (le_val (i ++ [clear_top z]), top_bit z).
Proof.
  induction d as [|b r IH]; intros i z H; [discriminate|].
  destruct r as [|b' r'].
  - cbn [split_last] in H. inv H. cbn [num_mag app le_val]. rewrite clear_top_val, top_bit_val.
    f_equal. lia.
  - destruct (split_last (b' :: r')) as [[i' z']|] eqn:E.
    + rewrite (split_last_cons b _ _ _ E) in H. inv H.
      change (num_mag (b :: b' :: r')) with (let '(m, s) := num_mag (b' :: r') in ((b2n b + 256 * m)%N, s)).
      rewrite (IH _ _ eq_refl). reflexivity.
    + apply split_last_none in E. discriminate.
Qed.

Lemma to_bigint_num_of d : to_bigint d = num_of d.
Proof.
  unfold to_bigint, num_of. destruct (split_last d) as [[i z]|] eqn:E.
  - rewrite (num_mag_split _ _ _ E). reflexivity.
  - apply split_last_none in E. subst d. reflexivity.
Qed.

(* ------------------------------------------------------------------ *)
(* truth *)
Lemma cast_to_bool_truthy d : cast_to_bool d = truthy d.
Proof.
  induction d as [|b r IH]; [reflexivity|].
  destruct r as [|b' r'].
  - cbn [cast_to_bool truthy]. destruct (b2n b =? 0)%N, (b2n b =? 128)%N; reflexivity.
  - change (truthy (b :: b' :: r')) with (negb (b2n b =? 0)%N || truthy (b' :: r')).
    change (cast_to_bool (b :: b' :: r')) with
      (if (b2n b =? 0)%N then cast_to_bool (b' :: r') else negb (false && (b2n b =? 128)%N)).
    rewrite IH. destruct (b2n b =? 0)%N; reflexivity.
Qed.

Lemma num_mag_zero d : (fst (num_mag d) =? 0)%N = negb (truthy d).
Proof.
  induction d as [|b r IH]; [reflexivity|].
  destruct r as [|b' r'].
  - cbn [num_mag truthy fst]. pose proof (b2n_lt b).
    destruct (N.eqb_spec (b2n b) 0), (N.eqb_spec (b2n b) 128); cbn [negb andb]; lia.
  - change (truthy (b :: b' :: r')) with (negb (b2n b =? 0)%N || truthy (b' :: r')).
    change (num_mag (b :: b' :: r')) with (let '(m, s) := num_mag (b' :: r') in ((b2n b + 256 * m)%N, s)).
    destruct (num_mag (b' :: r')) as [m s]. cbn [fst] in *.
    destruct (N.eqb_spec (b2n b) 0), (truthy (b' :: r')); cbn [negb orb] in *; lia.
Qed.
Lemma truthy_num d : truthy d = negb (num_of d =? 0).
Proof.
  pose proof (num_mag_zero d) as H. unfold num_of. destruct (num_mag d) as [m s]. cbn [fst] in H.
  destruct (truthy d), s; cbn [negb] in *; lia.
Qed.

(* ------------------------------------------------------------------ *)
(* fuel-free recursion equations *)
Lemma size_div256 a : (a <> 0)%N -> (N.size (a / 256) < N.size a)%N.
Proof.
  intros Ha. destruct (N.eqb_spec (a / 256) 0) as [->|Hq].
  - rewrite (N.size_log2 a Ha). change (N.size 0) with 0%N. lia.
  - rewrite (N.size_log2 a Ha), (N.size_log2 _ Hq).
    change 256%N with (2 ^ 8)%N. rewrite <- N.shiftr_div_pow2, N.log2_shiftr.
    assert (8 <= N.log2 a)%N.
    { apply N.log2_le_pow2; [lia|]. change (2 ^ 8)%N with 256%N.
      destruct (N.lt_ge_cases a 256) as [L|L]; [|exact L]. rewrite N.div_small in Hq by exact L. contradiction. }
    lia.
Qed.

Definition sgn (neg : bool) : N := if neg then 128%N else 0%N.
Definition enc (a : N) (neg : bool) : bytes := enc_fuel (S (N.to_nat (N.size a))) a neg.

Lemma enc_fuel_indep : forall f a neg, (N.to_nat (N.size a) <= f)%nat -> enc_fuel (S f) a neg = enc a neg.
Proof.
  induction f as [f IH] using lt_wf_ind. intros a neg Hf. unfold enc.
  cbn [enc_fuel]. destruct (a <? 128)%N eqn:L; [reflexivity|]. f_equal.
  assert (Ha : (a <> 0)%N) by lia. pose proof (size_div256 a Ha) as Hs.
  destruct f as [|f']; [lia|].
  destruct (N.to_nat (N.size a)) as [|g] eqn:G; [lia|].
  rewrite (IH f') by lia. rewrite (IH g); [reflexivity | lia | lia].
Qed.
Lemma enc_eq a neg :
  enc a neg = if (a <? 128)%N then [n2b (a + sgn neg)] else n2b a :: enc (a / 256) neg.
Proof.
  unfold enc at 1. cbn [enc_fuel]. destruct (a <? 128)%N eqn:L; [reflexivity|]. f_equal.
  assert (Ha : (a <> 0)%N) by lia. pose proof (size_div256 a Ha) as Hs.
  destruct (N.to_nat (N.size a)) as [|g] eqn:G; [lia|]. apply enc_fuel_indep. lia.
Qed.
Lemma num_enc_enc z : z <> 0 -> num_enc z = enc (Z.abs_N z) (z <? 0).
Proof. intros H. unfold num_enc. replace (z =? 0) with false by lia. reflexivity. Qed.

Lemma le_digits_fuel_indep : forall f n, (N.to_nat (N.size n) <= f)%nat -> le_digits_fuel f n = le_digits n.
Proof.
  induction f as [f IH] using lt_wf_ind. intros n Hf. unfold le_digits.
  destruct (N.eqb_spec n 0) as [->|Hn].
  - destruct f; reflexivity.
  - pose proof (size_div256 n Hn) as Hs.
    destruct f as [|f']; [destruct (N_size_pos n Hn); lia|].
    destruct (N.to_nat (N.size n)) as [|g] eqn:G; [destruct (N_size_pos n Hn); lia|].
    cbn [le_digits_fuel]. replace (n =? 0)%N with false by lia. f_equal.
    rewrite (IH f') by lia. rewrite (IH g); [reflexivity | lia | lia].
Qed.
Lemma le_digits_eq n : le_digits n = if (n =? 0)%N then [] else n2b n :: le_digits (n / 256).
Proof.
  destruct (N.eqb_spec n 0) as [->|Hn]; [reflexivity|].
  unfold le_digits at 1. destruct (N_size_pos n Hn) as [g G]. rewrite G.
  cbn [le_digits_fuel]. replace (n =? 0)%N with false by lia. f_equal.
  apply le_digits_fuel_indep. pose proof (size_div256 n Hn). lia.
Qed.

(* ------------------------------------------------------------------ *)
(* encode: push_bigint *)
Definition seal (ds : bytes) (neg : bool) : bytes :=
  match split_last ds with
  | None => []
  | Some (i, l) => if top_bit l then ds ++ [if neg then x80 else x00]
                   else if neg then i ++ [set_top l] else ds
  end.

Lemma seal_cons x ds neg : ds <> [] -> seal (x :: ds) neg = x :: seal ds neg.
Proof.
  intros H. destruct (split_last_nonempty ds H) as (i & l & E). unfold seal.
  rewrite (split_last_cons x _ _ _ E), E. destruct (top_bit l), neg; reflexivity.
Qed.

Lemma le_digits_nonempty n : (n <> 0)%N -> le_digits n <> [].
Proof. intros H. rewrite le_digits_eq. replace (n =? 0)%N with false by lia. discriminate. Qed.

Lemma seal_le_digits : forall a neg, (a <> 0)%N -> seal (le_digits a) neg = enc a neg.
Proof.
  induction a as [a IH] using (well_founded_induction N.lt_wf_0). intros neg Ha.
  rewrite le_digits_eq, enc_eq. replace (a =? 0)%N with false by lia.
  destruct (N.ltb_spec a 128) as [L|L].
  - rewrite N.div_small by lia. rewrite le_digits_eq. change (0 =? 0)%N with true. cbv iota.
    unfold seal. cbn [split_last]. rewrite top_bit_val, b2n_n2b by lia.
    replace (128 <=? a)%N with false by lia.
    destruct neg; cbn [sgn]; [rewrite set_top_val by (rewrite b2n_n2b; lia); rewrite b2n_n2b by lia; reflexivity|].
    cbn [app]. f_equal. f_equal. lia.
  - destruct (N.ltb_spec a 256) as [L2|L2].
    + rewrite N.div_small by lia. rewrite le_digits_eq, enc_eq. change (0 =? 0)%N with true. change (0 <? 128)%N with true. cbv iota.
      unfold seal. cbn [split_last]. rewrite top_bit_val, b2n_n2b by lia.
      replace (128 <=? a)%N with true by lia. destruct neg; reflexivity.
    + assert (Hq : (a / 256 <> 0)%N) by (pose proof (N.div_le_lower_bound a 256 1); lia).
      rewrite seal_cons by (apply le_digits_nonempty; exact Hq).
      f_equal. apply IH; [|exact Hq]. apply N.div_lt; lia.
Qed.

Lemma enc_not_single_zero a neg : (a <> 0)%N -> is_single_zero (enc a neg) = false.
Proof.
  intros Ha. rewrite enc_eq. destruct (N.ltb_spec a 128) as [L|L].
  - cbn [is_single_zero]. rewrite b2n_n2b by (destruct neg; cbn [sgn]; lia). destruct neg; cbn [sgn]; lia.
  - rewrite enc_eq. destruct (a / 256 <? 128)%N; reflexivity.
Qed.

Lemma push_bigint_enc z v : push_bigint z v = Ok (v ++ [num_enc z]).
Proof.
  unfold push_bigint, biguint_to_bytes_le.
  destruct (Z.eqb_spec z 0) as [->|Hz]; [reflexivity|].
  assert (Ha : (Z.abs_N z <> 0)%N) by lia.
  replace (Z.abs_N z =? 0)%N with false by lia.
  pose proof (seal_le_digits (Z.abs_N z) (z <? 0) Ha) as S.
  unfold seal in S.
  destruct (split_last (le_digits (Z.abs_N z))) as [[i l]|] eqn:E.
  - rewrite S, <- num_enc_enc by exact Hz.
    rewrite (num_enc_enc z Hz), enc_not_single_zero by exact Ha. reflexivity.
  - apply split_last_none in E. exfalso. exact (le_digits_nonempty _ Ha E).
Qed.

Lemma push_bool_enc b v : push_bool b v = Ok (v ++ [bool_enc b]).
Proof. destruct b; reflexivity. Qed.

(* ------------------------------------------------------------------ *)
(* push_number on 0 .. 2^31-1 (OP_DEPTH, OP_SIZE, OP_NOT, constants) *)
Lemma zbyte_n2b z : 0 <= z -> zbyte z = n2b (Z.to_N z).
Proof.
  intros H. unfold zbyte. rewrite <- (n2b_mod (Z.to_N z)). f_equal.
  rewrite Z2N.inj_mod by lia. reflexivity.
Qed.
Lemma hi0 z : 0 <= z -> n2b (N.lor (b2n (zbyte z)) 0) = n2b (Z.to_N z).
Proof. intros H. rewrite N.lor_0_r, n2b_b2n. apply zbyte_n2b; exact H. Qed.
Lemma shiftr_to_N z n : 0 <= z -> 0 <= n -> Z.to_N (Z.shiftr z n) = (Z.to_N z / Z.to_N (2 ^ n))%N.
Proof. intros H1 H2. rewrite Z.shiftr_div_pow2 by lia. apply Z2N.inj_div; [lia | apply Z.pow_nonneg; lia]. Qed.

Lemma push_number_nonneg z v : 0 <= z <= 2147483647 -> push_number z v = Ok (v ++ [num_enc z]).
Proof.
  intros Hz. unfold push_number.
  replace ((2147483647 <? z) || (z <? -2147483648)) with false by lia.
  replace (z <? 0) with false by lia.
  destruct (Z.eqb_spec z 0) as [->|Hnz]; [reflexivity|].
  rewrite num_enc_enc by exact Hnz. replace (z <? 0) with false by lia.
  set (a := Z.abs_N z). assert (Ea : a = Z.to_N z) by lia.
  assert (S8 : Z.to_N (Z.shiftr z 8) = (a / 256)%N).
  { rewrite Ea, shiftr_to_N by lia. reflexivity. }
  assert (S16 : Z.to_N (Z.shiftr z 16) = (a / 256 / 256)%N).
  { rewrite Ea, shiftr_to_N by lia. rewrite N.div_div by lia. reflexivity. }
  assert (S24 : Z.to_N (Z.shiftr z 24) = (a / 256 / 256 / 256)%N).
  { rewrite Ea, shiftr_to_N by lia. rewrite !N.div_div by lia. reflexivity. }
  assert (P8 : 0 <= Z.shiftr z 8) by (apply Z.shiftr_nonneg; lia).
  assert (P16 : 0 <= Z.shiftr z 16) by (apply Z.shiftr_nonneg; lia).
  assert (P24 : 0 <= Z.shiftr z 24) by (apply Z.shiftr_nonneg; lia).
  rewrite !hi0, !zbyte_n2b, ?S8, ?S16, ?S24 by lia. rewrite <- Ea.
  destruct (Z.ltb_spec z 128) as [L1|L1].
  { rewrite enc_eq. replace (a <? 128)%N with true by lia. cbn [sgn]. rewrite N.add_0_r. reflexivity. }
  rewrite enc_eq. replace (a <? 128)%N with false by lia.
  destruct (Z.ltb_spec z 32768) as [L2|L2].
  { rewrite enc_eq. replace (a / 256 <? 128)%N with true by lia. cbn [sgn]. rewrite N.add_0_r. reflexivity. }
  rewrite enc_eq. replace (a / 256 <? 128)%N with false by lia.
  destruct (Z.ltb_spec z 8388608) as [L3|L3].
  { rewrite enc_eq. replace (a / 256 / 256 <? 128)%N with true by lia. cbn [sgn]. rewrite N.add_0_r. reflexivity. }
  rewrite enc_eq. replace (a / 256 / 256 <? 128)%N with false by lia.
  rewrite enc_eq. replace (a / 256 / 256 / 256 <? 128)%N with true by lia. cbn [sgn]. rewrite N.add_0_r. reflexivity.
Qed.

Lemma push_number_m1 v : push_number (-1) v = Ok (v ++ [num_enc (-1)]).
Proof. reflexivity. Qed.

(* ------------------------------------------------------------------ *)
(* the cheap shifts of the model are the mathematical ones *)
Lemma bigint_shl_spec a b : bigint_shl a b = Z.shiftl a b.
Proof. unfold bigint_shl. destruct (Z.eqb_spec a 0) as [->|]; [rewrite Z.shiftl_0_l|]; reflexivity. Qed.
Lemma bigint_shr_spec a b : 0 <= b -> bigint_shr a b = Z.shiftr a b.
Proof.
  intros Hb. unfold bigint_shr. destruct (Z.ltb_spec (Z.log2 (Z.abs a)) b) as [L|L]; [|reflexivity].
  rewrite Z.shiftr_div_pow2 by exact Hb.
  assert (P : 0 < 2 ^ b) by (apply Z.pow_pos_nonneg; lia).
  assert (B : Z.abs a < 2 ^ b).
  { destruct (Z.eq_dec a 0) as [->|N]; [cbn; lia|].
    apply Z.log2_lt_pow2; lia. }
  destruct (Z.ltb_spec a 0) as [Ng|Ng].
  - apply Z.div_unique with (r := a + 2 ^ b); lia.
  - symmetry. apply Z.div_small. lia.
Qed.
