(* Proofs/EciesProofs.v — lemmas behind Props/C11.v.

   Generic part: for every [O : ecies_ops] satisfying [ecies_laws] (SHA-512 gives 64 bytes, HMAC gives 32,
   CBC decryption inverts CBC encryption for 16-byte key and IV) and every curve interface satisfying
   [ecdh_laws].  Concrete part: [ecies_std E] (the models of src/hash and src/encryption) satisfies
   [ecies_laws] — by Proofs/HashApiProofs.v and Proofs/AesApiProofs.v (api_roundtrip, i.e. cbc_roundtrip of
   Proofs/AesProofs.v) — and its output is the independent BIE1 construction of Spec/Bie1.v. *)
From BSV Require Import Base.Bytes Base.Hex.
From BSV Require Import Prim.Sha256 Prim.Sha512 Prim.Hmac Prim.Aes Prim.Secp256k1.
From BSV Require Import Spec.HashSpec Model.HashApi Proofs.HashApiProofs Model.AesApi Proofs.AesProofs Proofs.AesApiProofs.
From BSV Require Import Model.EcIface Model.Ecies Spec.Bie1.
Local Open Scope Z_scope.

(* ------------------------------------------------------------------ *)
(* the laws *)
Definition ecies_laws (O : ecies_ops) : Prop :=
  (forall m, length (eo_sha512 O m) = 64%nat) /\
  (forall i k, length (eo_hmac256 O i k) = 32%nat) /\
  (forall k iv m, length k = 16%nat -> length iv = 16%nat ->
                  exists c, eo_cbc_enc O k iv m = Ok c /\ eo_cbc_dec O k iv c = Ok m) /\
  (forall k iv m, eo_cbc_enc O k iv m <> Panic /\ eo_cbc_dec O k iv m <> Panic).

Definition ecdh_laws (E : ec_ops) : Prop :=
  (* a(bG) = b(aG) *)
  (forall a b, ec_smul E a (ec_smul E b (ec_G E)) = ec_smul E b (ec_smul E a (ec_G E))) /\
  (* a valid secret scalar has a public key that is not the identity *)
  (forall a, in_scalar a = true -> ec_is_inf E (ec_smul E a (ec_G E)) = false) /\
  (* SEC1: decoding inverts encoding; a compressed encoding has 33 bytes *)
  (forall c a, ec_is_inf E (ec_smul E a (ec_G E)) = false ->
               ec_dec E (ec_enc E c (ec_smul E a (ec_G E))) = Some (ec_smul E a (ec_G E))) /\
  (forall a, ec_is_inf E (ec_smul E a (ec_G E)) = false -> length (ec_enc E true (ec_smul E a (ec_G E))) = 33%nat).

(* ------------------------------------------------------------------ *)
(* list facts *)
Lemma firstn_app_exact {A} (a b : list A) n : length a = n -> firstn n (a ++ b) = a.
Proof. intros <-. rewrite firstn_app, Nat.sub_diag, firstn_O, app_nil_r. apply firstn_all. Qed.
Lemma skipn_app_exact {A} (a b : list A) n : length a = n -> skipn n (a ++ b) = b.
Proof. intros <-. rewrite skipn_app, Nat.sub_diag, skipn_O, skipn_all. reflexivity. Qed.

Lemma skipn_skipn {A} x y (l : list A) : skipn x (skipn y l) = skipn (x + y) l.
Proof.
  revert l; induction y as [|y IH]; intros l; [rewrite Nat.add_0_r; reflexivity|].
  destruct l as [|c r]; [rewrite !skipn_nil; reflexivity|].
  rewrite Nat.add_succ_r. cbn [skipn]. apply IH.
Qed.

Lemma join_pk (s : bytes) :
  (69 <= length s)%nat ->
  firstn 4 s ++ firstn 33 (skipn 4 s) ++ firstn (length s - 32 - 37) (skipn 37 s) ++ skipn (length s - 32) s = s.
Proof.
  intros Hl. pose proof (firstn_skipn 33 (skipn 4 s)) as E2. rewrite skipn_skipn in E2.
  pose proof (firstn_skipn (length s - 32 - 37) (skipn 37 s)) as E3. rewrite skipn_skipn in E3.
  replace (length s - 32 - 37 + 37)%nat with (length s - 32)%nat in E3 by lia.
  rewrite E3. change 37%nat with (33 + 4)%nat. rewrite E2. apply firstn_skipn.
Qed.

Lemma join_nopk (s : bytes) :
  (36 <= length s)%nat ->
  firstn 4 s ++ firstn (length s - 32 - 4) (skipn 4 s) ++ skipn (length s - 32) s = s.
Proof.
  intros Hl. pose proof (firstn_skipn (length s - 32 - 4) (skipn 4 s)) as E3. rewrite skipn_skipn in E3.
  replace (length s - 32 - 4 + 4)%nat with (length s - 32)%nat in E3 by lia.
  rewrite E3. apply firstn_skipn.
Qed.

Lemma bind_ok_inv {A B} (e : outcome A) (f : A -> outcome B) b :
  bind e f = Ok b -> exists a, e = Ok a /\ f a = Ok b.
Proof. destruct e; cbn [bind]; intros H; try discriminate. eauto. Qed.

Lemma slice_ok a b h : (b <= length h)%nat -> slice a b h = Ok (firstn (b - a) (skipn a h)).
Proof. intros H. unfold slice. destruct (Nat.ltb_spec (length h) b); [lia|reflexivity]. Qed.

Lemma magic_length : length magic = 4%nat. Proof. reflexivity. Qed.

(* ------------------------------------------------------------------ *)
Section NoLaws.
  Variable O : ecies_ops.
  Local Notation E := (eo_ec O).

  (* ---------------------------------------------------------------- MAC logic *)
  Theorem tamper_needs_forgery c d pk m :
    decrypt O c d pk = Ok m ->
    exists k, derive_cipher_keys O d pk = Ok k /\
              ct_mac c = eo_hmac256 O (mac_preimage (ct_pub c) (ct_body c)) (ck_km k) /\
              eo_cbc_dec O (ck_ke k) (ck_iv k) (ct_body c) = Ok m.
  Proof.
    unfold decrypt. intros H. apply bind_ok_inv in H. destruct H as (k & Hk & H).
    exists k. split; [exact Hk|]. unfold decrypt_with in H.
    destruct (bytes_eqb (ct_mac c) _) eqn:Em; cbn [negb] in H; [|discriminate].
    apply bytes_eqb_eq in Em. auto.
  Qed.

  Theorem mac_flip_rejected c d pk m mac' :
    decrypt O c d pk = Ok m -> mac' <> ct_mac c ->
    decrypt O (MkCt (ct_pub c) (ct_body c) mac') d pk = Err.
  Proof.
    intros H Hne. destruct (tamper_needs_forgery c d pk m H) as (k & Hk & Hm & _).
    unfold decrypt. rewrite Hk. cbn [bind]. unfold decrypt_with. cbn [ct_pub ct_body ct_mac].
    destruct (bytes_eqb mac' _) eqn:Em; [|reflexivity].
    apply bytes_eqb_eq in Em. exfalso. apply Hne. congruence.
  Qed.

  (* any stored MAC that is not the HMAC of the stored fields is rejected, whatever the fields are *)
  Theorem wrong_mac_rejected c d pk k :
    derive_cipher_keys O d pk = Ok k ->
    ct_mac c <> eo_hmac256 O (mac_preimage (ct_pub c) (ct_body c)) (ck_km k) ->
    decrypt O c d pk = Err.
  Proof.
    intros Hk Hne. unfold decrypt. rewrite Hk. cbn [bind]. unfold decrypt_with.
    destruct (bytes_eqb (ct_mac c) _) eqn:Em; [|reflexivity].
    apply bytes_eqb_eq in Em. contradiction.
  Qed.

  (* accepting two different bodies / embedded keys under one key pair = two valid (message, tag) pairs *)
  Theorem tamper_body_forgery c c' d pk m m' :
    decrypt O c d pk = Ok m -> decrypt O c' d pk = Ok m' ->
    (ct_pub c', ct_body c') <> (ct_pub c, ct_body c) ->
    exists k, derive_cipher_keys O d pk = Ok k /\
      ct_mac c = eo_hmac256 O (mac_preimage (ct_pub c) (ct_body c)) (ck_km k) /\
      ct_mac c' = eo_hmac256 O (mac_preimage (ct_pub c') (ct_body c')) (ck_km k).
  Proof.
    intros H H' _. destruct (tamper_needs_forgery _ _ _ _ H) as (k & Hk & Hm & _).
    destruct (tamper_needs_forgery _ _ _ _ H') as (k' & Hk' & Hm' & _).
    assert (k' = k) by congruence. subst k'. exists k. auto.
  Qed.

  (* decrypting with another key pair succeeds only if the stored MAC is also the HMAC under the other key *)
  Theorem wrong_key_needs_collision c d pk m d' pk' m' :
    decrypt O c d pk = Ok m -> decrypt O c d' pk' = Ok m' ->
    exists k k', derive_cipher_keys O d pk = Ok k /\ derive_cipher_keys O d' pk' = Ok k' /\
      eo_hmac256 O (mac_preimage (ct_pub c) (ct_body c)) (ck_km k) =
      eo_hmac256 O (mac_preimage (ct_pub c) (ct_body c)) (ck_km k').
  Proof.
    intros H H'. destruct (tamper_needs_forgery _ _ _ _ H) as (k & Hk & Hm & _).
    destruct (tamper_needs_forgery _ _ _ _ H') as (k' & Hk' & Hm' & _).
    exists k, k'. split; [exact Hk|]. split; [exact Hk'|]. congruence.
  Qed.

  (* ---------------------------------------------------------------- serialisation *)
  Definition has_pk (c : ciphertext) : bool := match ct_pub c with Some _ => true | None => false end.
  Definition ct_wf (c : ciphertext) : Prop :=
    length (ct_mac c) = 32%nat /\
    match ct_pub c with Some p => length p = 33%nat /\ ec_dec E p <> None | None => True end.

  Theorem ct_roundtrip c : ct_wf c -> from_bytes O (to_bytes c) (has_pk c) = Ok c.
  Proof.
    intros [Hm Hp]. destruct c as [pub body mac]. cbn [ct_mac ct_pub] in *.
    unfold from_bytes, to_bytes, has_pk. cbn [ct_pub ct_body ct_mac].
    destruct pub as [p|]; cbn [opt_bytes].
    - destruct Hp as [Lp Hd].
      assert (Ln : length (magic ++ p ++ body ++ mac) = (69 + length body)%nat)
        by (rewrite !app_length, magic_length, Lp, Hm; lia).
      rewrite Ln. destruct (Nat.ltb_spec (69 + length body) 69); [lia|].
      rewrite (firstn_app_exact magic) by reflexivity. rewrite bytes_eqb_refl. cbn [negb].
      rewrite (skipn_app_exact magic) by reflexivity.
      rewrite (firstn_app_exact p) by exact Lp.
      unfold pubkey_of_bytes. destruct (ec_dec E p); [|contradiction]. cbn [bind].
      replace (magic ++ p ++ body ++ mac) with ((magic ++ p) ++ body ++ mac) by (rewrite <- app_assoc; reflexivity).
      rewrite (skipn_app_exact (magic ++ p)) by (rewrite app_length, magic_length, Lp; reflexivity).
      replace (69 + length body - 32 - 37)%nat with (length body) by lia.
      rewrite (firstn_app_exact body) by reflexivity.
      replace ((magic ++ p) ++ body ++ mac) with (((magic ++ p) ++ body) ++ mac) by (rewrite <- !app_assoc; reflexivity).
      rewrite (skipn_app_exact ((magic ++ p) ++ body)) by (rewrite !app_length, magic_length, Lp; lia).
      reflexivity.
    - cbn [app].
      assert (Ln : length (magic ++ body ++ mac) = (36 + length body)%nat)
        by (rewrite !app_length, magic_length, Hm; lia).
      rewrite Ln. destruct (Nat.ltb_spec (36 + length body) 36); [lia|].
      rewrite (firstn_app_exact magic) by reflexivity. rewrite bytes_eqb_refl. cbn [negb].
      rewrite (skipn_app_exact magic) by reflexivity.
      replace (36 + length body - 32 - 4)%nat with (length body) by lia.
      rewrite (firstn_app_exact body) by reflexivity.
      replace (magic ++ body ++ mac) with ((magic ++ body) ++ mac) by (rewrite <- app_assoc; reflexivity).
      rewrite (skipn_app_exact (magic ++ body)) by (rewrite !app_length, magic_length; lia).
      reflexivity.
  Qed.

  (* what from_bytes accepts is the serialisation of its result *)
  Opaque firstn skipn.
  Theorem from_bytes_sound s hp c : from_bytes O s hp = Ok c -> to_bytes c = s /\ has_pk c = hp /\ ct_wf c.
  Proof.
    unfold from_bytes. intros H.
    destruct (Nat.ltb_spec (length s) (if hp then 69%nat else 36%nat)) as [|Hl]; [discriminate|].
    destruct (bytes_eqb (firstn 4 s) magic) eqn:Em; cbn [negb] in H; [|discriminate].
    apply bytes_eqb_eq in Em.
    destruct hp.
    - apply bind_ok_inv in H. destruct H as (pk & Hpk & H). inversion H; subst c; clear H.
      unfold pubkey_of_bytes in Hpk. destruct (ec_dec E (firstn 33 (skipn 4 s))) eqn:Hd; [|discriminate].
      unfold to_bytes, has_pk, ct_wf. cbn [ct_pub ct_body ct_mac opt_bytes].
      split; [|split; [reflexivity|split]].
      + rewrite <- Em. exact (join_pk s Hl).
      + rewrite skipn_length. lia.
      + split; [rewrite firstn_length, skipn_length; lia | rewrite Hd; discriminate].
    - inversion H; subst c; clear H.
      unfold to_bytes, has_pk, ct_wf. cbn [ct_pub ct_body ct_mac opt_bytes app].
      split; [|split; [reflexivity|split; [|exact I]]].
      + rewrite <- Em. exact (join_nopk s Hl).
      + rewrite skipn_length. lia.
  Qed.

  Transparent firstn skipn.

  Theorem from_bytes_total s hp : from_bytes O s hp <> Panic.
  Proof.
    unfold from_bytes. destruct (Nat.ltb _ _); [discriminate|].
    destruct (negb _); [discriminate|]. destruct hp; [|discriminate].
    unfold pubkey_of_bytes. destruct (ec_dec E _); cbn [bind]; discriminate.
  Qed.

  (* every accepted serialised ciphertext is  payload || HMAC(km, payload)  with payload starting with the magic:
     producing another accepted byte string for the same keys is producing a valid tag for another payload *)
  Theorem accepted_form s hp c d pk m :
    from_bytes O s hp = Ok c -> decrypt O c d pk = Ok m ->
    exists k payload, derive_cipher_keys O d pk = Ok k /\
                      s = payload ++ eo_hmac256 O payload (ck_km k) /\ firstn 4 payload = magic.
  Proof.
    intros Hf Hd. apply from_bytes_sound in Hf. destruct Hf as (Hs & _ & _).
    destruct (tamper_needs_forgery _ _ _ _ Hd) as (k & Hk & Hm & _).
    exists k, (mac_preimage (ct_pub c) (ct_body c)). split; [exact Hk|]. split.
    - rewrite <- Hs, <- Hm. unfold to_bytes, mac_preimage. rewrite <- !app_assoc. reflexivity.
    - unfold mac_preimage. apply (firstn_app_exact magic). reflexivity.
  Qed.

  Theorem tamper_is_forgery s s' hp hp' c c' d pk m m' :
    from_bytes O s hp = Ok c -> decrypt O c d pk = Ok m ->
    from_bytes O s' hp' = Ok c' -> decrypt O c' d pk = Ok m' ->
    s' <> s ->
    exists k payload payload', derive_cipher_keys O d pk = Ok k /\ payload' <> payload /\
      s = payload ++ eo_hmac256 O payload (ck_km k) /\ s' = payload' ++ eo_hmac256 O payload' (ck_km k).
  Proof.
    intros Hf Hd Hf' Hd' Hne.
    destruct (accepted_form _ _ _ _ _ _ Hf Hd) as (k & p & Hk & Hs & _).
    destruct (accepted_form _ _ _ _ _ _ Hf' Hd') as (k' & p' & Hk' & Hs' & _).
    assert (k' = k) by congruence. subst k'.
    exists k, p, p'. split; [exact Hk|]. split; [|split; assumption].
    intros ->. apply Hne. congruence.
  Qed.

End NoLaws.

(* ------------------------------------------------------------------ *)
Section Generic.
  Variable O : ecies_ops.
  Local Notation E := (eo_ec O).
  Hypothesis LO : ecies_laws O.

  Let sha_len := proj1 LO.
  Let hmac_len := proj1 (proj2 LO).
  Let cbc_rt := proj1 (proj2 (proj2 LO)).
  Let cbc_np := proj2 (proj2 (proj2 LO)).

  (* the keys derived from a shared point *)
  Definition keys_of (S : ec_pt E) : cipher_keys :=
    let h := eo_sha512 O (ec_enc E true S) in
    MkKeys (firstn 16 h) (firstn 16 (skipn 16 h)) (firstn 32 (skipn 32 h)).

  Lemma keys_of_lengths S :
    length (ck_iv (keys_of S)) = 16%nat /\ length (ck_ke (keys_of S)) = 16%nat /\ length (ck_km (keys_of S)) = 32%nat.
  Proof.
    unfold keys_of. cbn [ck_iv ck_ke ck_km].
    rewrite !firstn_length, !skipn_length, !sha_len. repeat split; reflexivity.
  Qed.

  Lemma derive_spec d pk P :
    ec_dec E pk = Some P ->
    derive_cipher_keys O d pk = if ec_is_inf E (ec_smul E d P) then Err else Ok (keys_of (ec_smul E d P)).
  Proof.
    intros Hd. unfold derive_cipher_keys. rewrite Hd. cbn [of_option bind].
    destruct (ec_is_inf E (ec_smul E d P)); [reflexivity|].
    rewrite !slice_ok by (rewrite sha_len; lia). cbn [bind]. reflexivity.
  Qed.

  Lemma derive_inv d pk k :
    derive_cipher_keys O d pk = Ok k ->
    exists P, ec_dec E pk = Some P /\ ec_is_inf E (ec_smul E d P) = false /\ k = keys_of (ec_smul E d P).
  Proof.
    intros H. destruct (ec_dec E pk) as [P|] eqn:Hd.
    - rewrite (derive_spec d pk P Hd) in H. destruct (ec_is_inf E (ec_smul E d P)) eqn:Ei; [discriminate|].
      inversion H. exists P. auto.
    - unfold derive_cipher_keys in H. rewrite Hd in H. discriminate.
  Qed.

  Theorem decrypt_total c d pk : decrypt O c d pk <> Panic.
  Proof.
    unfold decrypt, derive_cipher_keys.
    destruct (ec_dec E pk) as [P|]; cbn [of_option bind]; [|discriminate].
    destruct (ec_is_inf E (ec_smul E d P)); [discriminate|].
    rewrite !slice_ok by (rewrite sha_len; lia). cbn [bind].
    unfold decrypt_with. destruct (negb _); [discriminate|]. apply cbc_np.
  Qed.

  Theorem encrypt_total m d pk x : encrypt O m d pk x <> Panic.
  Proof.
    unfold encrypt, derive_cipher_keys.
    destruct (ec_dec E pk) as [P|]; cbn [of_option bind]; [|discriminate].
    destruct (ec_is_inf E (ec_smul E d P)); [discriminate|].
    rewrite !slice_ok by (rewrite sha_len; lia). cbn [bind].
    unfold encrypt_with. pose proof (proj1 (cbc_np (ck_ke (keys_of (ec_smul E d P))) (ck_iv (keys_of (ec_smul E d P))) m)) as Hn.
    unfold keys_of in Hn. cbn [ck_ke ck_iv] in Hn.
    destruct (eo_cbc_enc O _ _ m); cbn [bind]; [discriminate|discriminate|contradiction].
  Qed.

  (* ---------------------------------------------------------------- round trip *)
  Hypothesis LE : ecdh_laws E.
  Let ecdh_sym := proj1 LE.
  Let pub_not_inf := proj1 (proj2 LE).
  Let dec_enc_G := proj1 (proj2 (proj2 LE)).
  Let enc_len := proj2 (proj2 (proj2 LE)).

  Lemma pub_dec d comp :
    in_scalar d = true -> ec_dec E (to_public_key O d comp) = Some (ec_smul E d (ec_G E)).
  Proof. intros H. unfold to_public_key. apply dec_enc_G. apply pub_not_inf. exact H. Qed.

  Theorem encrypt_wf m a pk x c : in_scalar a = true -> encrypt O m a pk x = Ok c -> ct_wf O c /\ has_pk c = negb x.
  Proof.
    intros Ha H. unfold encrypt in H. apply bind_ok_inv in H. destruct H as (k & _ & H).
    unfold encrypt_with in H. apply bind_ok_inv in H. destruct H as (ct & _ & H). inversion H; subst c; clear H.
    unfold ct_wf, has_pk. cbn [ct_pub ct_mac]. split; [split; [apply hmac_len|]|].
    - destruct x; [exact I|]. split.
      + unfold to_public_key. apply enc_len. apply pub_not_inf. exact Ha.
      + rewrite (pub_dec a true Ha). discriminate.
    - destruct x; reflexivity.
  Qed.

  Theorem decrypt_encrypt m a b cb ca x c :
    in_scalar a = true -> in_scalar b = true ->
    encrypt O m a (to_public_key O b cb) x = Ok c ->
    decrypt O c b (to_public_key O a ca) = Ok m.
  Proof.
    intros Ha Hb H. unfold encrypt in H. apply bind_ok_inv in H. destruct H as (k & Hk & H).
    rewrite (derive_spec a _ _ (pub_dec b cb Hb)) in Hk.
    destruct (ec_is_inf E (ec_smul E a (ec_smul E b (ec_G E)))) eqn:Ei; [discriminate|].
    inversion Hk; subst k; clear Hk.
    unfold decrypt. rewrite (derive_spec b _ _ (pub_dec a ca Ha)).
    rewrite <- ecdh_sym, Ei. cbn [bind].
    set (k := keys_of (ec_smul E a (ec_smul E b (ec_G E)))) in *.
    unfold encrypt_with in H. apply bind_ok_inv in H. destruct H as (ct & Hct & H). inversion H; subst c; clear H.
    unfold decrypt_with. cbn [ct_pub ct_body ct_mac]. rewrite bytes_eqb_refl. cbn [negb].
    destruct (keys_of_lengths (ec_smul E a (ec_smul E b (ec_G E)))) as (Liv & Lke & _). fold k in Liv, Lke.
    destruct (cbc_rt (ck_ke k) (ck_iv k) m Lke Liv) as (c0 & He & Hd).
    assert (c0 = ct) by congruence. subst c0. exact Hd.
  Qed.

  (* encryption succeeds whenever the shared point is not the identity (always, in a group of prime order) *)
  Theorem encrypt_succeeds m a b cb x :
    in_scalar b = true ->
    ec_is_inf E (ec_smul E a (ec_smul E b (ec_G E))) = false ->
    exists c, encrypt O m a (to_public_key O b cb) x = Ok c.
  Proof.
    intros Hb Hi. unfold encrypt. rewrite (derive_spec a _ _ (pub_dec b cb Hb)), Hi. cbn [bind].
    set (k := keys_of (ec_smul E a (ec_smul E b (ec_G E)))).
    destruct (keys_of_lengths (ec_smul E a (ec_smul E b (ec_G E)))) as (Liv & Lke & _). fold k in Liv, Lke.
    destruct (cbc_rt (ck_ke k) (ck_iv k) m Lke Liv) as (c0 & He & _).
    unfold encrypt_with. rewrite He. cbn [bind]. eexists. reflexivity.
  Qed.

  (* ... also after the ciphertext has been serialised and parsed back *)
  Theorem decrypt_after_serialise m a b cb ca x c :
    in_scalar a = true -> in_scalar b = true ->
    encrypt O m a (to_public_key O b cb) x = Ok c ->
    (do c' <- from_bytes O (to_bytes c) (negb x); decrypt O c' b (to_public_key O a ca)) = Ok m.
  Proof.
    intros Ha Hb H. destruct (encrypt_wf _ _ _ _ _ Ha H) as [Hwf Hpk].
    rewrite <- Hpk, (ct_roundtrip O c Hwf). cbn [bind]. eapply decrypt_encrypt; eassumption.
  Qed.

  (* with the embedded key: the recipient reads the sender key from the ciphertext *)
  Theorem decrypt_with_extracted_key m a b cb c :
    in_scalar a = true -> in_scalar b = true ->
    encrypt O m a (to_public_key O b cb) false = Ok c ->
    (do c' <- from_bytes O (to_bytes c) true; do sender <- extract_public_key O c'; decrypt O c' b sender) = Ok m.
  Proof.
    intros Ha Hb H. destruct (encrypt_wf _ _ _ _ _ Ha H) as [Hwf Hpk]. cbn [negb] in Hpk.
    rewrite <- Hpk, (ct_roundtrip O c Hwf). cbn [bind].
    assert (Hp : ct_pub c = Some (to_public_key O a true)).
    { unfold encrypt in H. apply bind_ok_inv in H. destruct H as (k & _ & H0).
      unfold encrypt_with in H0. apply bind_ok_inv in H0. destruct H0 as (ct & _ & H0). inversion H0. reflexivity. }
    unfold extract_public_key. rewrite Hp. unfold pubkey_of_bytes. rewrite (pub_dec a true Ha). cbn [bind].
    eapply decrypt_encrypt; eassumption.
  Qed.
End Generic.

(* ------------------------------------------------------------------ *)
(* the instance that is executed *)
Lemma ecies_std_laws E : ecies_laws (ecies_std E).
Proof.
  unfold ecies_laws. cbn [eo_sha512 eo_hmac256 eo_cbc_enc eo_cbc_dec ecies_std].
  split; [intros m; rewrite sha_512_def; apply sha512_length|].
  split; [intros i k; rewrite sha_256_hmac_spec, hmac_spec_sha256; apply hmac_sha256_length|].
  split.
  - intros k iv m Hk Hiv. apply api_roundtrip. unfold sizes_ok. rewrite Hk, Hiv. reflexivity.
  - intros k iv m. pose proof (api_total AES128_CBC k iv m) as (H1 & H2 & _). split; assumption.
Qed.

Lemma magic_bie1 : magic = bie1_magic. Proof. reflexivity. Qed.

(* byte-identical to the independent construction *)
Opaque firstn skipn.
Theorem layout_eq_bie1 E m a pk B x c :
  ec_dec E pk = Some B ->
  encrypt (ecies_std E) m a pk x = Ok c ->
  bie1_encrypt E a B (negb x) m = Some (to_bytes c).
Proof.
  intros Hd H. unfold encrypt in H. apply bind_ok_inv in H. destruct H as (k & Hk & H).
  rewrite (derive_spec (ecies_std E) (ecies_std_laws E) a pk B Hd) in Hk.
  cbn [eo_ec ecies_std] in Hk.
  unfold bie1_encrypt, bie1_seal. destruct (ec_is_inf E (ec_smul E a B)); [discriminate|].
  inversion Hk; subst k; clear Hk.
  unfold encrypt_with in H. apply bind_ok_inv in H. destruct H as (ct & Hct & H). inversion H; subst c; clear H.
  unfold keys_of, key_schedule, compressed in *. cbn [eo_sha512 eo_hmac256 eo_cbc_enc eo_ec ecies_std ck_iv ck_ke ck_km] in *.
  rewrite sha_512_def in Hct.
  set (h := sha512 (ec_enc E true (ec_smul E a B))) in *.
  change (sha_512 (ec_enc E true (ec_smul E a B))) with h.
  assert (Lh : length h = 64%nat) by apply sha512_length.
  assert (Ekm : firstn 32 (skipn 32 h) = skipn 32 h) by (apply firstn_all2; rewrite skipn_length; lia).
  rewrite Ekm.
  rewrite encrypt_cbc_standard in Hct.
  2: reflexivity.
  2: { unfold sizes_ok. rewrite !firstn_length, !skipn_length, Lh. reflexivity. }
  inversion Hct; subst ct; clear Hct.
  unfold to_bytes, mac_preimage. cbn [ct_pub ct_body ct_mac].
  rewrite sha_256_hmac_spec, hmac_spec_sha256, magic_bie1. f_equal.
  unfold to_public_key. cbn [eo_ec ecies_std].
  destruct x; cbn [negb opt_bytes app]; rewrite <- ?app_assoc; reflexivity.
Qed.
Transparent firstn skipn.

(* ------------------------------------------------------------------ *)
(* [ecdh_laws] is satisfiable: the toy group of Proofs/Bip32Proofs.v (integers modulo n, generator 1).
   Consistency of the premises only; it says nothing about secp256k1. *)
From BSV Require Import Proofs.Secp256k1Proofs Model.Bip32 Spec.Bip32Spec Proofs.Bip32Proofs.

Lemma toy_ecdh_laws : ecdh_laws ec_toy.
Proof.
  unfold ecdh_laws. split; [|split; [|split]].
  - intros a b. cbn [ec_smul ec_G ec_toy]. rewrite !Z.mul_1_r.
    rewrite Zmult_mod_idemp_r, (Z.mul_comm a b), <- Zmult_mod_idemp_r. reflexivity.
  - intros a Ha. destruct (ec_is_inf ec_toy (ec_smul ec_toy a (ec_G ec_toy))) eqn:Ei; [|reflexivity].
    apply toy_inf_iff_G in Ei. apply in_scalar_range in Ha. rewrite Z.mod_small in Ei by lia. lia.
  - exact toy_dec_enc_G.
  - intros a _. cbn [ec_enc ec_toy length]. rewrite be32_length. reflexivity.
Qed.

(* ------------------------------------------------------------------ *)
(* parse-then-decrypt of the executed instance is the independent BIE1 decryption *)
Opaque firstn skipn.
Lemma payload_pk (s : bytes) :
  (69 <= length s)%nat ->
  firstn (length s - 32) s = firstn 4 s ++ firstn 33 (skipn 4 s) ++ firstn (length s - 32 - 37) (skipn 37 s).
Proof.
  intros Hl. apply (app_inv_tail (skipn (length s - 32) s)).
  rewrite firstn_skipn, <- !app_assoc. symmetry. apply join_pk. exact Hl.
Qed.
Lemma payload_nopk (s : bytes) :
  (36 <= length s)%nat ->
  firstn (length s - 32) s = firstn 4 s ++ firstn (length s - 32 - 4) (skipn 4 s).
Proof.
  intros Hl. apply (app_inv_tail (skipn (length s - 32) s)).
  rewrite firstn_skipn, <- !app_assoc. symmetry. apply join_nopk. exact Hl.
Qed.

Theorem decrypt_eq_bie1 E b pk A hp s :
  ec_dec E pk = Some A ->
  (do c <- from_bytes (ecies_std E) s hp; decrypt (ecies_std E) c b pk) = of_option (bie1_decrypt E b A hp s).
Proof.
  intros Hd. unfold bie1_decrypt, bie1_open, decrypt.
  rewrite (derive_spec (ecies_std E) (ecies_std_laws E) b pk A Hd). cbn [eo_ec ecies_std].
  destruct (ec_is_inf E (ec_smul E b A)) eqn:Ei.
  { cbn [of_option]. pose proof (from_bytes_total (ecies_std E) s hp) as Hn.
    destruct (from_bytes (ecies_std E) s hp); cbn [bind]; [reflexivity|reflexivity|contradiction]. }
  unfold keys_of, key_schedule, compressed. cbn [eo_sha512 eo_ec ecies_std bind]. rewrite sha_512_def.
  set (h := sha512 (ec_enc E true (ec_smul E b A))).
  assert (Lh : length h = 64%nat) by apply sha512_length.
  assert (Ekm : firstn 32 (skipn 32 h) = skipn 32 h) by (apply firstn_all2; rewrite skipn_length; lia).
  rewrite Ekm.
  assert (Hsz : sizes_ok AES128_CBC (firstn 16 (skipn 16 h)) (firstn 16 h) = true)
    by (unfold sizes_ok; rewrite !firstn_length, !skipn_length, Lh; reflexivity).
  unfold from_bytes.
  replace (if hp then 69%nat else 36%nat) with ((if hp then 37 else 4) + 32)%nat by (destruct hp; reflexivity).
  destruct (Nat.ltb_spec (length s) ((if hp then 37 else 4) + 32)) as [Hlt|Hl]; [reflexivity|].
  assert (E4 : firstn 4 (firstn (length s - 32) s) = firstn 4 s).
  { rewrite firstn_firstn. f_equal. destruct hp; lia. }
  rewrite E4, <- magic_bie1.
  destruct (bytes_eqb (firstn 4 s) magic) eqn:Em; cbn [negb]; [|reflexivity].
  apply bytes_eqb_eq in Em.
  destruct hp.
  - assert (Epk : firstn 33 (skipn 4 (firstn (length s - 32) s)) = firstn 33 (skipn 4 s)).
    { rewrite skipn_firstn_comm, firstn_firstn. f_equal. lia. }
    rewrite Epk. unfold pubkey_of_bytes. cbn [eo_ec ecies_std andb].
    destruct (ec_dec E (firstn 33 (skipn 4 s))); cbn [bind of_option]; [|reflexivity].
    unfold decrypt_with, mac_preimage. cbn [ct_pub ct_body ct_mac opt_bytes eo_hmac256 eo_cbc_dec ck_iv ck_ke ck_km ecies_std].
    rewrite sha_256_hmac_spec, hmac_spec_sha256.
    rewrite (payload_pk s Hl), <- Em.
    destruct (bytes_eqb (skipn (length s - 32) s) _); cbn [negb]; [|reflexivity].
    rewrite decrypt_cbc_standard by (reflexivity || exact Hsz). f_equal. f_equal.
    rewrite <- (payload_pk s Hl), skipn_firstn_comm. reflexivity.
  - cbn [andb]. unfold decrypt_with, mac_preimage.
    cbn [bind ct_pub ct_body ct_mac opt_bytes app eo_hmac256 eo_cbc_dec ck_iv ck_ke ck_km ecies_std].
    rewrite sha_256_hmac_spec, hmac_spec_sha256.
    rewrite (payload_nopk s Hl), <- Em.
    destruct (bytes_eqb (skipn (length s - 32) s) _); cbn [negb]; [|reflexivity].
    rewrite decrypt_cbc_standard by (reflexivity || exact Hsz). f_equal. f_equal.
    rewrite <- (payload_nopk s Hl), skipn_firstn_comm. reflexivity.
Qed.
Transparent firstn skipn.

(* from_bytes is the independent split of Spec/Bie1.v (length guard, magic, embedded key, the three offsets) *)
Definition ct_of_split (t : option bytes * bytes * bytes) : ciphertext := MkCt (fst (fst t)) (snd (fst t)) (snd t).

Theorem from_bytes_eq_split O s hp :
  from_bytes O s hp = of_option (option_map ct_of_split (bie1_split (eo_ec O) hp s)).
Proof.
  unfold from_bytes, bie1_split. rewrite <- magic_bie1.
  replace (if hp then 69%nat else 36%nat) with ((if hp then 37 else 4) + 32)%nat by (destruct hp; reflexivity).
  destruct (Nat.ltb (length s) ((if hp then 37 else 4) + 32)); [reflexivity|].
  destruct (bytes_eqb (firstn 4 s) magic); cbn [negb]; [|reflexivity].
  destruct hp; [|reflexivity].
  unfold pubkey_of_bytes. destruct (ec_dec (eo_ec O) (firstn 33 (skipn 4 s))); reflexivity.
Qed.
