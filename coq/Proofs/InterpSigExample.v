(* Proofs/InterpSigExample.v — the non-vacuity computation of Props/C15.v (kept apart because it takes minutes on the
   reference instance: two ECDSA verifications with arithmetic on Z). *)
From BSV Require Import Base.Bytes Base.Hex.
From BSV Require Import Prim.Secp256k1 Prim.Sha256 Prim.Ripemd160.
From BSV Require Import Model.Opcodes Model.Script Model.Tx Model.Ecdsa Model.Interp Model.InterpSig.
From BSV Require Import Spec.ScriptTok Spec.SighashWire Spec.SpendSpec Proofs.ScriptProofs.
Local Open Scope list_scope.

Definition ex_tx : string := "0200000001000102030405060708090a0b0c0d0e0f101112131415161718191a1b1c1d1e1f0100000049483045022100a40f00e9ae227bc015de86e661a6d634847fe6809077482ea776b894ea7ee2f10220031ceff503c843abe1d4e360930010833303571aba3a1726e5d067e71a50783141feffffff01e8030000000000001976a914111111111111111111111111111111111111111188ac07000000".
Definition ex_lock : string := "ab410479be667ef9dcbbac55a06295ce870b07029bfcdb2dce28d959f2815b16f81798483ada7726a3c4655da4fbfc0e1108a8fd17b448a68554199c47d08ffb10d4b8ac".
Definition ex_spend (value : N) : option tx :=
  match bytes_of_hex ex_tx, bytes_of_hex ex_lock with
  | Some tb, Some lb =>
      match tx_from_bytes tb, from_bytes lb with
      | Ok t, Ok l => Some (set_inputs t (map (fun i => set_locking_script (set_satoshis i value) l) (inputs t)))
      | _, _ => None
      end
  | _, _ => None
  end.
Definition stack_of (r : outcome (run_result txctx)) : option (list bytes) :=
  match r with Ok (RunOk j) => Some (stack (istate j)) | _ => None end.


Lemma example_accepts :
  option_map (fun t => stack_of (spend ref_prims t 0)) (ex_spend 5000) = Some (Some [[x01]]) /\
  option_map (fun t => stack_of (spend ref_prims t 0)) (ex_spend 5001) = Some (Some [[]]).
Proof. split; vm_compute; reflexivity. Qed.

(* the verdict of the specification on the same spend (one more verification), and on the spend with the flag byte of the
   signature replaced by a value that is not a hash type (no curve arithmetic needed) *)
Definition ex_verdict (t : tx) : option verdict :=
  match inputs t with
  | i :: _ =>
      match locking i, satoshis i with
      | Some l, Some v =>
          Some (fst (expected (fun b => sha256 (sha256 b)) (fun b => ripemd160 (sha256 b)) sec1_decode prim_verify
                              (view_tx t) 0 v (flatten l) (flatten (unlocking i))))
      | _, _ => None
      end
  | [] => None
  end.
Definition bad_flag (t : tx) : tx :=
  set_inputs t (map (fun i => mk_txin (prev_tx_id i) (vout i)
                                      (match unlocking i with [BPush sg] => [BPush (removelast sg ++ [x05])] | u => u end)
                                      (sequence i) (locking i) (satoshis i)) (inputs t)).
Lemma example_verdicts :
  option_map ex_verdict (ex_spend 5000) = Some (Some Accept) /\
  option_map (fun t => ex_verdict (bad_flag t)) (ex_spend 5000) = Some (Some Reject).
Proof. split; vm_compute; reflexivity. Qed.
