(* Proofs/Secp256k1Refine.v — running on BigZ is justified: every generic function of
   Prim/Secp256k1.v, instantiated with any number implementation satisfying [num_ok],
   computes through n_to_Z what its Z instance computes (section Refine: field
   add/sub/mul/sqr/dbl/neg/pow, egcd, modinv, Jacobian double and mixed add,
   Jacobian->affine, jsmul_pos, gneg, gsmul, gadd, g_on_curve, glift_x).  Hence the
   [_fast] entry points (BigZ inside) EQUAL the reference entry points:
   smul_BigZ_refines, padd_, on_curve_, lift_x_, sinv_, prim_sign_, prim_verify_,
   recover_point_, recover_, ecdh_, sec1_decode_BigZ_refines.
   These theorems depend on the Uint63 primitive-integer axioms of the standard library
   (through Bignums' BigZ.spec_* lemmas) and on nothing else. *)
From BSV Require Import Base.Bytes.
From BSV Require Import Prim.Num Prim.Secp256k1.
Local Open Scope Z_scope.

(* ------------------------------------------------------------------ *)
(* Refinement: generic code over any correct number implementation      *)
(* computes, through n_to_Z, what its Z instance computes.              *)
Section Refine.
  Context {T : Type} (o : num_ops T) (ok : num_ok o).
  Local Notation tz := (n_to_Z o).

  Lemma tz_of_Z z : tz (n_of_Z o z) = z.
  Proof. apply (ok_of_Z o ok). Qed.

  Lemma fadd_ref m a b : tz (fadd o m a b) = fadd Z_ops (tz m) (tz a) (tz b).
  Proof. unfold fadd. cbn [n_mod n_add Z_ops]. rewrite (ok_mod o ok), (ok_add o ok). reflexivity. Qed.
  Lemma fsub_ref m a b : tz (fsub o m a b) = fsub Z_ops (tz m) (tz a) (tz b).
  Proof. unfold fsub. cbn [n_mod n_sub Z_ops]. rewrite (ok_mod o ok), (ok_sub o ok). reflexivity. Qed.
  Lemma fmul_ref m a b : tz (fmul o m a b) = fmul Z_ops (tz m) (tz a) (tz b).
  Proof. unfold fmul. cbn [n_mod n_mul Z_ops]. rewrite (ok_mod o ok), (ok_mul o ok). reflexivity. Qed.
  Lemma fsqr_ref m a : tz (fsqr o m a) = fsqr Z_ops (tz m) (tz a).
  Proof. unfold fsqr. apply fmul_ref. Qed.
  Lemma fdbl_ref m a : tz (fdbl o m a) = fdbl Z_ops (tz m) (tz a).
  Proof. unfold fdbl. apply fadd_ref. Qed.
  Lemma fneg_ref m a : tz (fneg o m a) = fneg Z_ops (tz m) (tz a).
  Proof. unfold fneg. rewrite fsub_ref, tz_of_Z. reflexivity. Qed.
  Lemma eqb_ref a b : n_eqb o a b = (tz a =? tz b).
  Proof. apply (ok_eqb o ok). Qed.

  Lemma fpow_ref m b e : tz (fpow o m b e) = fpow Z_ops (tz m) (tz b) e.
  Proof.
    induction e as [e IH|e IH|]; cbn [fpow].
    - rewrite fmul_ref, fsqr_ref, IH. reflexivity.
    - rewrite fsqr_ref, IH. reflexivity.
    - cbn [n_mod Z_ops]. apply (ok_mod o ok).
  Qed.

  Lemma egcd_ref fuel : forall r0 r1 t0 t1,
    (let '(g, t) := egcd o fuel r0 r1 t0 t1 in (tz g, tz t)) =
    egcd Z_ops fuel (tz r0) (tz r1) (tz t0) (tz t1).
  Proof.
    induction fuel as [|f IH]; intros r0 r1 t0 t1; cbn [egcd]; [reflexivity|].
    rewrite eqb_ref, tz_of_Z. cbn [n_eqb n_of_Z n_div n_sub n_mul Z_ops].
    destruct (tz r1 =? 0); [reflexivity|].
    rewrite IH, !(ok_sub o ok), !(ok_mul o ok), (ok_div o ok). reflexivity.
  Qed.

  Lemma modinv_ref m a : tz (modinv o m a) = modinv Z_ops (tz m) (tz a).
  Proof.
    unfold modinv. cbn [n_to_Z n_mod n_of_Z Z_ops].
    pose proof (egcd_ref (inv_fuel (tz m)) m (n_mod o a m) (n_of_Z o 0) (n_of_Z o 1)) as E.
    rewrite (ok_mod o ok), !tz_of_Z in E. rewrite <- E.
    destruct (egcd o _ _ _ _ _) as [g t]. apply (ok_mod o ok).
  Qed.

  Definition jz (P : jac (T := T)) : jac (T := Z) := let '(X, Y, Z) := P in (tz X, tz Y, tz Z).

  Ltac ref_rw :=
    repeat first [ rewrite fadd_ref | rewrite fsub_ref | rewrite fmul_ref | rewrite fsqr_ref
                 | rewrite fdbl_ref | rewrite fneg_ref | rewrite modinv_ref | rewrite tz_of_Z ].

  Lemma jdbl_ref p P : jz (jdbl o p P) = jdbl Z_ops (tz p) (jz P).
  Proof.
    destruct P as [[X Y] Z]. unfold jdbl, jz. cbv zeta. ref_rw. reflexivity.
  Qed.

  Lemma jadd_mixed_ref p P x2 y2 :
    jz (jadd_mixed o p P x2 y2) = jadd_mixed Z_ops (tz p) (jz P) (tz x2) (tz y2).
  Proof.
    destruct P as [[X Y] Z]. unfold jadd_mixed. cbn [jz]. cbv zeta.
    rewrite !eqb_ref. cbn [n_eqb n_of_Z Z_ops]. ref_rw.
    destruct (tz Z =? 0); [cbn [jz]; ref_rw; reflexivity|].
    match goal with |- context [if ?c then _ else _] => destruct c end.
    - match goal with |- context [if ?c then _ else _] => destruct c end.
      + rewrite jdbl_ref. cbn [jz]. ref_rw. reflexivity.
      + cbn [jz]. ref_rw. reflexivity.
    - cbn [jz]. ref_rw. reflexivity.
  Qed.

  Local Notation pz := (pt_to_Z o).

  Lemma jac_to_affine_ref p P : pz (jac_to_affine o p P) = jac_to_affine Z_ops (tz p) (jz P).
  Proof.
    destruct P as [[X Y] Z]. unfold jac_to_affine. cbn [jz]. cbv zeta.
    rewrite eqb_ref. cbn [n_eqb n_of_Z Z_ops]. ref_rw.
    destruct (tz Z =? 0); cbn [pt_to_Z]; ref_rw; reflexivity.
  Qed.

  Lemma jsmul_pos_ref p k x y :
    jz (jsmul_pos o p k x y) = jsmul_pos Z_ops (tz p) k (tz x) (tz y).
  Proof.
    induction k as [k IH|k IH|]; cbn [jsmul_pos].
    - rewrite jadd_mixed_ref, jdbl_ref, IH. reflexivity.
    - rewrite jdbl_ref, IH. reflexivity.
    - cbn [jz n_of_Z Z_ops]. rewrite tz_of_Z. reflexivity.
  Qed.

  Lemma gneg_ref p P : pz (gneg o p P) = gneg Z_ops (tz p) (pz P).
  Proof. destruct P as [[x y]|]; cbn [gneg pt_to_Z]; [rewrite fneg_ref|]; reflexivity. Qed.

  Lemma gsmul_ref p k P : pz (gsmul o p k P) = gsmul Z_ops (tz p) k (pz P).
  Proof.
    destruct P as [[x y]|]; [|reflexivity]. cbn [gsmul pt_to_Z].
    destruct k as [|k|k]; [reflexivity| |].
    - rewrite jac_to_affine_ref, jsmul_pos_ref. reflexivity.
    - rewrite gneg_ref, jac_to_affine_ref, jsmul_pos_ref. reflexivity.
  Qed.

  Lemma gadd_ref p P Q : pz (gadd o p P Q) = gadd Z_ops (tz p) (pz P) (pz Q).
  Proof.
    destruct P as [[x1 y1]|], Q as [[x2 y2]|]; try reflexivity.
    unfold gadd. cbn [pt_to_Z]. cbv zeta.
    rewrite !eqb_ref. cbn [n_eqb n_of_Z Z_ops]. ref_rw.
    destruct (tz x1 =? tz x2).
    - match goal with |- context [if ?c then _ else _] => destruct c end; [reflexivity|].
      cbn [pt_to_Z]. ref_rw. reflexivity.
    - cbn [pt_to_Z]. ref_rw. reflexivity.
  Qed.

  Lemma g_on_curve_ref p P : g_on_curve o p P = g_on_curve Z_ops (tz p) (pz P).
  Proof.
    destruct P as [[x y]|]; [|reflexivity]. cbn [g_on_curve pt_to_Z].
    unfold on_curve_xy, curve_rhs. rewrite eqb_ref. cbn [n_eqb n_of_Z Z_ops]. ref_rw. reflexivity.
  Qed.

  Lemma glift_x_ref p e x odd : pz (glift_x o p e x odd) = glift_x Z_ops (tz p) e (tz x) odd.
  Proof.
    unfold glift_x, curve_rhs. cbv zeta. rewrite eqb_ref, (ok_even o ok).
    cbn [n_eqb n_even n_of_Z Z_ops]. ref_rw. rewrite !fpow_ref. ref_rw.
    match goal with |- context [if ?c then _ else _] => destruct c end; [|reflexivity].
    cbn [pt_to_Z]. f_equal. f_equal.
    match goal with |- context [if ?c then _ else _] => destruct c end; ref_rw; rewrite ?fpow_ref; ref_rw; reflexivity.
  Qed.

  Lemma pt_to_of_Z P : pz (pt_of_Z o P) = P.
  Proof. destruct P as [[x y]|]; cbn [pt_of_Z pt_to_Z]; [rewrite !tz_of_Z|]; reflexivity. Qed.
End Refine.

(* ------------------------------------------------------------------ *)
(* The execution instance equals the reference instance.               *)
Lemma bz_to_Z z : n_to_Z BigZ_ops (bz z) = z.
Proof. apply (ok_of_Z BigZ_ops BigZ_ops_ok). Qed.

Theorem smul_BigZ_refines k P : smul_fast k P = smul k P.
Proof.
  unfold smul_fast, smul.
  rewrite (gsmul_ref BigZ_ops BigZ_ops_ok), (pt_to_of_Z BigZ_ops BigZ_ops_ok), bz_to_Z. reflexivity.
Qed.

Theorem padd_BigZ_refines P Q : padd_fast P Q = padd P Q.
Proof.
  unfold padd_fast, padd.
  rewrite (gadd_ref BigZ_ops BigZ_ops_ok), !(pt_to_of_Z BigZ_ops BigZ_ops_ok), bz_to_Z. reflexivity.
Qed.

Theorem on_curve_BigZ_refines P : on_curve_fast P = on_curve P.
Proof.
  unfold on_curve_fast, on_curve.
  rewrite (g_on_curve_ref BigZ_ops BigZ_ops_ok), (pt_to_of_Z BigZ_ops BigZ_ops_ok), bz_to_Z. reflexivity.
Qed.

Theorem lift_x_BigZ_refines x odd : lift_x_fast x odd = lift_x x odd.
Proof.
  unfold lift_x_fast, lift_x. destruct (in_field x); [|reflexivity].
  pose proof (glift_x_ref BigZ_ops BigZ_ops_ok (bz secp_p) secp_sqrt_exp (bz x) odd) as E.
  rewrite !bz_to_Z in E. rewrite <- E.
  destruct (glift_x BigZ_ops _ _ _ _) as [[a b]|]; reflexivity.
Qed.

Theorem sinv_BigZ_refines a : sinv_fast a = sinv a.
Proof.
  unfold sinv_fast, sinv. rewrite (modinv_ref BigZ_ops BigZ_ops_ok), !bz_to_Z. reflexivity.
Qed.

Theorem prim_sign_BigZ_refines d k z : prim_sign_fast d k z = prim_sign d k z.
Proof.
  unfold prim_sign_fast, prim_sign, prim_sign_g.
  rewrite smul_BigZ_refines, sinv_BigZ_refines. reflexivity.
Qed.

Theorem prim_verify_BigZ_refines Q z rs : prim_verify_fast Q z rs = prim_verify Q z rs.
Proof.
  unfold prim_verify_fast, prim_verify, prim_verify_g. destruct rs as [r s].
  rewrite !smul_BigZ_refines, padd_BigZ_refines, sinv_BigZ_refines. reflexivity.
Qed.

Theorem recover_point_BigZ_refines r s odd z : recover_point_fast r s odd z = recover_point r s odd z.
Proof.
  unfold recover_point_fast, recover_point, recover_point_g.
  rewrite lift_x_BigZ_refines. destruct (lift_x r odd); [|reflexivity].
  rewrite !smul_BigZ_refines, padd_BigZ_refines, sinv_BigZ_refines. reflexivity.
Qed.

Theorem recover_BigZ_refines r s odd z : recover_fast r s odd z = recover r s odd z.
Proof.
  unfold recover_fast, recover, recover_g.
  change (recover_point_g point smul_fast padd_fast G lift_x_fast secp_n sinv_fast r s odd z)
    with (recover_point_fast r s odd z).
  rewrite recover_point_BigZ_refines. reflexivity.
Qed.

Theorem ecdh_BigZ_refines d Q : ecdh_fast d Q = ecdh d Q.
Proof. unfold ecdh_fast, ecdh, ecdh_g. rewrite smul_BigZ_refines. reflexivity. Qed.

Theorem sec1_decode_BigZ_refines bs : sec1_decode_fast bs = sec1_decode bs.
Proof.
  unfold sec1_decode_fast, sec1_decode, sec1_decode_g.
  destruct bs as [|tag rest]; [reflexivity|].
  rewrite lift_x_BigZ_refines, on_curve_BigZ_refines. reflexivity.
Qed.

Print Assumptions smul_BigZ_refines.
