(* Proofs/ConstsTie.v — the named constants used by the hand-written models equal the literals regenerated from the
   Rust source on every run (coq/Gen/Consts_gen.v, tools/gen_tables.py).  A changed constant in /repo makes this file
   fail to build, which the checks of C07, C08, C11 and C12 report as a broken proof obligation (and the
   correspondence then supplies the failing input). *)
From BSV Require Import Base.Hex Gen.Consts_gen Model.Bip32 Model.Bsm Model.Ecies Model.Keys.

Lemma bip32_constants_tied :
  Bip32.HARDENED_KEY_OFFSET = GEN_HARDENED_KEY_OFFSET /\
  Bip32.XPRIV_VERSION_BYTE = GEN_XPRIV_VERSION_BYTE /\ Bip32.XPUB_VERSION_BYTE = GEN_XPUB_VERSION_BYTE /\
  GEN_MAINNET_XPRIV = GEN_XPRIV_VERSION_BYTE /\ GEN_MAINNET_XPUB = GEN_XPUB_VERSION_BYTE.
Proof. repeat split; reflexivity. Qed.

Lemma bsm_magic_tied : map b2n Bsm.MAGIC_BYTES = GEN_BSM_MAGIC_BYTES /\ length Bsm.MAGIC_BYTES = 24.
Proof. split; vm_compute; reflexivity. Qed.

Lemma ecies_magic_tied : map b2n Ecies.magic = GEN_ECIES_MAGIC /\ GEN_PUB_KEY_OFFSET = 4%N.
Proof. split; vm_compute; reflexivity. Qed.

(* the default address prefix (ChainParams::default().p2pkh, used by P2PKHAddress::from_pubkey / from_pubkey_hash).
   ChainParams fields that the modelled code never reads (privkey, xpub, xpriv, p2sh, magic) are deliberately NOT tied:
   changing them does not affect any property. *)
Lemma default_prefix_tied : b2n x00 = GEN_MAINNET_P2PKH.
Proof. vm_compute; reflexivity. Qed.
