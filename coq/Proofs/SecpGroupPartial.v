(* Proofs/SecpGroupPartial.v — fields of the former premise [secp256k1_group] (Proofs/EcdsaSecp.v) that are
   PROVED for the concrete formulas of Prim/Secp256k1.v (reference instance over Z):

     secp_neg_closed   valid P -> valid (pneg P)
     secp_add_neg      valid P -> padd P (pneg P) = None
     secp_yodd_neg     valid P -> P <> None -> yodd (pneg P) = negb (yodd P)
                       (no curve point has y = 0: -7 is not a cube modulo p, by (-7)^((p-1)/3) <> 1 and Fermat)
     secp_lift         valid P -> P <> None -> lift_x (xcoord P) (yodd P) = Some P      (from sqrt_ok_holds)
     secp_add_comm     valid P -> valid Q -> padd P Q = padd Q P
     secp_add_closed   valid P -> valid Q -> valid (padd P Q)
     secp_mul_1        valid P -> smul 1 P = P
     secp_mul_closed   valid P -> valid (smul k P)      (Y^2 = X^3 + 7 Z^6 is invariant under jdbl / jadd_mixed)
     secp_order_exact_from_laws   the two scalar-action laws imply: smul a G = None -> a mod n = 0

   Method: Z with congruence modulo a prime p is declared as an integral domain for [nsatz] (setoid equality
   [eqm p]); the field operations of Prim/Secp256k1 are congruent to the plain ring operations, the modular inverse
   is a variable i with d*i = 1, and each statement becomes a polynomial ideal-membership problem.  The modulus is a
   section variable, so the 256-bit constants stay out of the proof terms.  No axioms. *)
From BSV Require Import Base.Bytes.
From BSV Require Import Prim.Num Prim.Secp256k1 Proofs.Secp256k1Proofs Proofs.Primality Proofs.SecpPrimes Proofs.Secp256k1Order.
From Coq Require Import Znumtheory Zdiv Zpow_facts Setoid Morphisms Nsatz.
Local Open Scope Z_scope.

Section GenericCurve.
  Variable p : Z.
  Hypothesis Hp : prime p.
  Hypothesis p3 : 65536 < p.
  (* no point of the curve has y = 0 (i.e. -7 is not a cube modulo p) *)
  Hypothesis no_y0 : forall x, ((x * x * x + 7) mod p) <> 0.

  Local Instance eqm_equiv : Equivalence (eqm p) := eqm_setoid p.
  Local Instance eqm_add : Proper (eqm p ==> eqm p ==> eqm p) Z.add := Zplus_eqm p.
  Local Instance eqm_sub : Proper (eqm p ==> eqm p ==> eqm p) Z.sub := Zminus_eqm p.
  Local Instance eqm_mul : Proper (eqm p ==> eqm p ==> eqm p) Z.mul := Zmult_eqm p.
  Local Instance eqm_opp : Proper (eqm p ==> eqm p) Z.opp := Zopp_eqm p.

  (* Z with congruence modulo p as a commutative ring without zero divisors, for nsatz *)
  Local Instance Fops : @Ring_ops Z 0 1 Z.add Z.mul Z.sub Z.opp (eqm p). Defined.
  Local Instance Fri : Ring (Ro := Fops).
  Proof. constructor; try exact _; intros; cbv -[Z.add Z.mul Z.sub Z.opp Z.modulo]; f_equal; ring. Defined.
  Local Instance Fcri : Cring (Rr := Fri).
  Proof. red. intros. cbv -[Z.add Z.mul Z.sub Z.opp Z.modulo]; f_equal; ring. Defined.
  Local Instance Fdi : Integral_domain (Rcr := Fcri).
  Proof.
    constructor.
    - intros x y H. cbv -[Z.add Z.mul Z.sub Z.opp Z.modulo] in H |- *. rewrite Zmod_0_l in H |- *.
      assert (D : (p | x * y)) by (apply Z.mod_divide; [lia | exact H]).
      apply prime_mult in D; [|exact Hp].
      destruct D as [D|D]; [left|right]; apply Z.mod_divide in D; try lia; exact D.
    - cbv -[Z.add Z.mul Z.sub Z.opp Z.modulo]. rewrite Zmod_0_l, Z.mod_1_l by lia. discriminate.
  Defined.

  Lemma nz_const c : 0 < Z.abs c < p -> c mod p <> 0.
  Proof.
    intros H E. apply Z.mod_divide in E; [|lia].
    destruct (Z.eq_dec c 0) as [->|N]; [cbn in H; lia|].
    apply Z.divide_abs_r in E. apply Z.divide_pos_le in E; lia.
  Qed.

  Ltac fdiscr := cbv -[Z.modulo]; rewrite Zmod_0_l; apply nz_const; cbn; lia.
  Ltac fnsatz :=
    apply (@psos_r1b Z 0 1 Z.add Z.mul Z.sub Z.opp (eqm p) Fops Fri Fcri);
    repeat equalities_to_goal;
    nsatz_generic 6%N 1%Z (@nil Z) (@nil Z); try fdiscr.

  (* ---------------------------------------------------------------- *)
  Definition canon (a : Z) : Prop := 0 <= a < p.

  Lemma canon_mod a : canon (a mod p).
  Proof. apply Z.mod_pos_bound. lia. Qed.

  Lemma eqm_canon_eq a b : canon a -> canon b -> eqm p a b -> a = b.
  Proof. unfold canon, eqm. intros Ha Hb H. rewrite !Z.mod_small in H by assumption. exact H. Qed.

  Lemma eqm_integral a b : eqm p (a * b) 0 -> ~ eqm p a 0 -> eqm p b 0.
  Proof.
    intros H Na. destruct (@integral_domain_product _ _ _ _ _ _ _ _ _ _ _ Fdi a b H) as [E|E]; [contradiction|exact E].
  Qed.

  Lemma eqm_sub_0 a b : eqm p (a - b) 0 -> eqm p a b.
  Proof. intros H. fnsatz. Qed.

  Lemma canon_neq a b : canon a -> canon b -> a <> b -> ~ eqm p (a - b) 0.
  Proof. intros Ha Hb N E. apply N. apply eqm_canon_eq; [assumption..|]. apply eqm_sub_0. exact E. Qed.

  (* field operations of Prim/Secp256k1 (Z instance) up to congruence *)
  Lemma eqm_fadd a b : eqm p (fadd Z_ops p a b) (a + b).
  Proof. apply Zmod_eqm. Qed.
  Lemma eqm_fsub a b : eqm p (fsub Z_ops p a b) (a - b).
  Proof. apply Zmod_eqm. Qed.
  Lemma eqm_fmul a b : eqm p (fmul Z_ops p a b) (a * b).
  Proof. apply Zmod_eqm. Qed.
  Lemma eqm_fneg a : eqm p (fneg Z_ops p a) (- a).
  Proof. unfold fneg. rewrite eqm_fsub. reflexivity. Qed.
  Lemma canon_fadd a b : canon (fadd Z_ops p a b). Proof. apply canon_mod. Qed.
  Lemma canon_fsub a b : canon (fsub Z_ops p a b). Proof. apply canon_mod. Qed.
  Lemma canon_fmul a b : canon (fmul Z_ops p a b). Proof. apply canon_mod. Qed.
  Lemma canon_fneg a : canon (fneg Z_ops p a). Proof. apply canon_mod. Qed.

  (* the modular inverse *)
  Lemma modinv_eqm a : ~ eqm p a 0 -> eqm p (a * modinv Z_ops p a) 1.
  Proof.
    intros Na. unfold eqm. rewrite modinv_correct; [symmetry; apply Z.mod_1_l; lia | lia |].
    apply Zgcd_1_rel_prime. apply rel_prime_sym. apply prime_rel_prime; [exact Hp|].
    intros D. apply Na. unfold eqm. rewrite Zmod_0_l. apply Z.mod_divide; [lia | exact D].
  Qed.

  (* the curve equation *)
  Lemma eqm_curve_rhs x : eqm p (curve_rhs Z_ops p x) (x * x * x + 7).
  Proof. unfold curve_rhs. cbn [n_of_Z Z_ops]. rewrite eqm_fadd, !eqm_fmul. reflexivity. Qed.

  Lemma on_curve_xy_eqm x y : on_curve_xy Z_ops p x y = true <-> eqm p (y * y) (x * x * x + 7).
  Proof.
    unfold on_curve_xy. cbn [n_eqb Z_ops]. rewrite Z.eqb_eq. split.
    - intros H. rewrite <- eqm_fmul, H. apply eqm_curve_rhs.
    - intros H. apply eqm_canon_eq; [apply canon_fmul | apply canon_fadd |].
      rewrite eqm_fmul, H. symmetry. apply eqm_curve_rhs.
  Qed.

  (* valid points: canonical coordinates on the curve *)
  Definition gvalid (P : option (Z * Z)) : Prop :=
    match P with
    | None => True
    | Some (x, y) => canon x /\ canon y /\ eqm p (y * y) (x * x * x + 7)
    end.

  Lemma valid_y_nz x y : gvalid (Some (x, y)) -> ~ eqm p y 0.
  Proof.
    intros (Hx & Hy & Hc) E. apply (no_y0 x).
    assert (H : eqm p (x * x * x + 7) 0) by (rewrite <- Hc, E; reflexivity).
    unfold eqm in H. rewrite Zmod_0_l in H. exact H.
  Qed.

  (* 1. negation *)
  Lemma gneg_valid P : gvalid P -> gvalid (gneg Z_ops p P).
  Proof.
    destruct P as [[x y]|]; [|trivial]. intros (Hx & Hy & Hc). cbn [gneg gvalid].
    split; [exact Hx|]. split; [apply canon_fneg|].
    rewrite eqm_fneg. rewrite <- Hc. unfold eqm. f_equal. ring.
  Qed.

  (* 2. P + (-P) = O *)
  Lemma gadd_gneg P : gvalid P -> gadd Z_ops p P (gneg Z_ops p P) = None.
  Proof.
    destruct P as [[x y]|]; [|reflexivity]. intros _. cbn [gneg gadd n_eqb Z_ops].
    rewrite Z.eqb_refl.
    assert (E : fadd Z_ops p y (fneg Z_ops p y) = 0).
    { apply eqm_canon_eq; [apply canon_fadd | unfold canon; lia |].
      rewrite eqm_fadd, eqm_fneg. unfold eqm. f_equal. ring. }
    rewrite E. reflexivity.
  Qed.

  (* 3. parity of -y *)
  Lemma p_odd : Z.odd p = true.
  Proof.
    destruct (Z.odd p) eqn:E; [reflexivity|exfalso].
    rewrite <- Z.negb_even in E. apply negb_false_iff in E. apply Z.even_spec in E.
    destruct E as [k Hk]. destruct Hp as [_ Hrel].
    assert (R : rel_prime 2 p) by (apply Hrel; lia).
    apply Zgcd_1_rel_prime in R. rewrite Hk, Z.gcd_mul_diag_l in R; lia.
  Qed.

  Lemma gneg_yodd x y :
    gvalid (Some (x, y)) -> Z.odd (fneg Z_ops p y) = negb (Z.odd y).
  Proof.
    intros V. pose proof (valid_y_nz x y V) as Ny. destruct V as (Hx & Hy & Hc).
    assert (y <> 0) by (intros ->; apply Ny; reflexivity).
    rewrite fneg_Z by (unfold canon in Hy; lia).
    rewrite Z.odd_sub, p_odd. destruct (Z.odd y); reflexivity.
  Qed.
  (* ---------------------------------------------------------------- *)
  (* the two non-trivial branches of gadd, and what they compute *)
  Definition chord_l (x1 y1 x2 y2 : Z) : Z :=
    fmul Z_ops p (fsub Z_ops p y2 y1) (modinv Z_ops p (fsub Z_ops p x2 x1)).
  Definition tangent_l (x1 y1 : Z) : Z :=
    fmul Z_ops p (let a := fmul Z_ops p x1 x1 in fadd Z_ops p (fadd Z_ops p a a) a)
                 (modinv Z_ops p (fadd Z_ops p y1 y1)).
  Definition sum_x (l x1 x2 : Z) : Z := fsub Z_ops p (fsub Z_ops p (fmul Z_ops p l l) x1) x2.
  Definition sum_y (l x1 y1 x3 : Z) : Z := fsub Z_ops p (fmul Z_ops p l (fsub Z_ops p x1 x3)) y1.

  Lemma gadd_chord x1 y1 x2 y2 :
    x1 <> x2 ->
    gadd Z_ops p (Some (x1, y1)) (Some (x2, y2)) =
    let l := chord_l x1 y1 x2 y2 in let x3 := sum_x l x1 x2 in Some (x3, sum_y l x1 y1 x3).
  Proof.
    intros N. unfold gadd, chord_l, sum_x, sum_y. cbn [n_eqb Z_ops]. apply Z.eqb_neq in N. rewrite N.
    cbv zeta. reflexivity.
  Qed.

  Lemma gadd_same_x x y1 y2 :
    gadd Z_ops p (Some (x, y1)) (Some (x, y2)) =
    if fadd Z_ops p y1 y2 =? 0 then None
    else let l := tangent_l x y1 in let x3 := sum_x l x x in Some (x3, sum_y l x y1 x3).
  Proof.
    unfold gadd, tangent_l, sum_x, sum_y. cbn [n_eqb n_of_Z Z_ops]. rewrite Z.eqb_refl.
    cbv zeta. reflexivity.
  Qed.

  Lemma eqm_sum_x l x1 x2 : eqm p (sum_x l x1 x2) (l * l - x1 - x2).
  Proof. unfold sum_x. rewrite !eqm_fsub, eqm_fmul. reflexivity. Qed.
  Lemma eqm_sum_y l x1 y1 x3 : eqm p (sum_y l x1 y1 x3) (l * (x1 - x3) - y1).
  Proof. unfold sum_y. rewrite !eqm_fsub, eqm_fmul, eqm_fsub. reflexivity. Qed.

  Lemma chord_l_spec x1 y1 x2 y2 :
    canon x1 -> canon x2 -> x1 <> x2 ->
    eqm p (chord_l x1 y1 x2 y2 * (x2 - x1)) (y2 - y1).
  Proof.
    intros H1 H2 N. unfold chord_l.
    assert (Nd : ~ eqm p (fsub Z_ops p x2 x1) 0).
    { rewrite eqm_fsub. apply canon_neq; auto. }
    pose proof (modinv_eqm _ Nd) as I. revert I.
    generalize (modinv Z_ops p (fsub Z_ops p x2 x1)) as i. intros i I.
    rewrite eqm_fsub in I. rewrite eqm_fmul, eqm_fsub.
    clear H1 H2 N Nd. fnsatz.
  Qed.

  Lemma tangent_l_spec x1 y1 :
    ~ eqm p (y1 + y1) 0 ->
    eqm p (tangent_l x1 y1 * (y1 + y1)) (x1 * x1 + x1 * x1 + x1 * x1).
  Proof.
    intros N. unfold tangent_l. cbv zeta.
    assert (Nd : ~ eqm p (fadd Z_ops p y1 y1) 0) by (rewrite eqm_fadd; exact N).
    pose proof (modinv_eqm _ Nd) as I. revert I.
    generalize (modinv Z_ops p (fadd Z_ops p y1 y1)) as i. intros i I.
    rewrite eqm_fadd in I. rewrite eqm_fmul, !eqm_fadd, eqm_fmul.
    clear N Nd. fnsatz.
  Qed.

  (* the algebra: the third intersection point is on the curve *)
  Lemma chord_on_curve x1 y1 x2 y2 l x3 y3 :
    eqm p (y1 * y1) (x1 * x1 * x1 + 7) -> eqm p (y2 * y2) (x2 * x2 * x2 + 7) ->
    eqm p (l * (x2 - x1)) (y2 - y1) ->
    eqm p x3 (l * l - x1 - x2) -> eqm p y3 (l * (x1 - x3) - y1) ->
    ~ eqm p (x2 - x1) 0 ->
    eqm p (y3 * y3) (x3 * x3 * x3 + 7).
  Proof.
    intros C1 C2 L X Y N. apply eqm_sub_0. apply (eqm_integral (x2 - x1)); [|exact N].
    clear N. fnsatz.
  Qed.

  Lemma tangent_on_curve x1 y1 l x3 y3 :
    eqm p (y1 * y1) (x1 * x1 * x1 + 7) ->
    eqm p (l * (y1 + y1)) (x1 * x1 + x1 * x1 + x1 * x1) ->
    eqm p x3 (l * l - x1 - x1) -> eqm p y3 (l * (x1 - x3) - y1) ->
    ~ eqm p (y1 + y1) 0 ->
    eqm p (y3 * y3) (x3 * x3 * x3 + 7).
  Proof.
    intros C1 L X Y N. apply eqm_sub_0.
    apply (eqm_integral (y1 + y1)); [|exact N]. apply (eqm_integral (y1 + y1)); [|exact N].
    clear N. fnsatz.
  Qed.

  (* same x: the points are equal or opposite *)
  Lemma same_x_cases x y1 y2 :
    gvalid (Some (x, y1)) -> gvalid (Some (x, y2)) ->
    fadd Z_ops p y1 y2 <> 0 -> y1 = y2.
  Proof.
    intros (Hx & H1 & C1) (_ & H2 & C2) N.
    apply eqm_canon_eq; [assumption..|]. apply eqm_sub_0.
    apply (eqm_integral (y1 + y2)).
    - clear N H1 H2 Hx. fnsatz.
    - intros E. apply N. apply eqm_canon_eq; [apply canon_fadd | unfold canon; lia |].
      rewrite eqm_fadd. exact E.
  Qed.

  Lemma double_y_nz x y : gvalid (Some (x, y)) -> ~ eqm p (y + y) 0.
  Proof.
    intros V E. apply (valid_y_nz x y V).
    apply (eqm_integral 2); [rewrite <- E; unfold eqm; f_equal; ring|].
    unfold eqm. rewrite Zmod_0_l. apply nz_const. cbn. lia.
  Qed.

  (* 6. closure of addition *)
  Lemma gadd_valid P Q : gvalid P -> gvalid Q -> gvalid (gadd Z_ops p P Q).
  Proof.
    destruct P as [[x1 y1]|]; [|intros _ V; exact V].
    destruct Q as [[x2 y2]|]; [|intros V _; exact V].
    intros V1 V2. destruct (Z.eq_dec x1 x2) as [->|N].
    - rewrite gadd_same_x. destruct (fadd Z_ops p y1 y2 =? 0) eqn:E; [exact I|].
      apply Z.eqb_neq in E. pose proof (same_x_cases x2 y1 y2 V1 V2 E) as <-.
      pose proof (double_y_nz x2 y1 V1) as Ny. destruct V1 as (Hx & Hy & C1).
      cbv zeta. split; [apply canon_fsub|]. split; [apply canon_fsub|].
      apply (tangent_on_curve x2 y1 (tangent_l x2 y1)); auto.
      + apply tangent_l_spec. exact Ny.
      + apply eqm_sum_x.
      + apply eqm_sum_y.
    - rewrite gadd_chord by exact N. destruct V1 as (H1 & Hy1 & C1), V2 as (H2 & Hy2 & C2).
      cbv zeta. split; [apply canon_fsub|]. split; [apply canon_fsub|].
      apply (chord_on_curve x1 y1 x2 y2 (chord_l x1 y1 x2 y2)); auto.
      + apply chord_l_spec; auto.
      + apply eqm_sum_x.
      + apply eqm_sum_y.
      + apply canon_neq; auto.
  Qed.

  (* 5. commutativity *)
  Lemma gadd_comm P Q : gvalid P -> gvalid Q -> gadd Z_ops p P Q = gadd Z_ops p Q P.
  Proof.
    destruct P as [[x1 y1]|]; [|destruct Q as [[x2 y2]|]; reflexivity].
    destruct Q as [[x2 y2]|]; [|reflexivity].
    intros V1 V2. destruct (Z.eq_dec x1 x2) as [->|N].
    - rewrite !gadd_same_x.
      assert (E : fadd Z_ops p y1 y2 = fadd Z_ops p y2 y1) by (unfold fadd; cbn [n_add n_mod Z_ops]; rewrite Z.add_comm; reflexivity).
      rewrite <- E. destruct (fadd Z_ops p y1 y2 =? 0) eqn:E0; [reflexivity|].
      apply Z.eqb_neq in E0. rewrite (same_x_cases x2 y1 y2 V1 V2 E0). reflexivity.
    - rewrite (gadd_chord x1 y1 x2 y2) by exact N. rewrite (gadd_chord x2 y2 x1 y1) by auto.
      destruct V1 as (H1 & Hy1 & C1), V2 as (H2 & Hy2 & C2).
      pose proof (chord_l_spec x1 y1 x2 y2 H1 H2 N) as L1.
      pose proof (chord_l_spec x2 y2 x1 y1 H2 H1 (not_eq_sym N)) as L2.
      assert (Nx : ~ eqm p (x2 - x1) 0) by (apply canon_neq; auto).
      assert (EL : chord_l x1 y1 x2 y2 = chord_l x2 y2 x1 y1).
      { apply eqm_canon_eq; [apply canon_fmul..|]. apply eqm_sub_0.
        apply (eqm_integral (x2 - x1)); [|exact Nx].
        revert L1 L2. generalize (chord_l x1 y1 x2 y2) (chord_l x2 y2 x1 y1). intros l l' L1 L2.
        fnsatz. }
      cbv zeta. rewrite <- EL. revert L1. generalize (chord_l x1 y1 x2 y2). intros l L1.
      assert (EX : sum_x l x1 x2 = sum_x l x2 x1).
      { apply eqm_canon_eq; [apply canon_fsub..|]. rewrite !eqm_sum_x. unfold eqm. f_equal. ring. }
      rewrite <- EX. f_equal. f_equal.
      apply eqm_canon_eq; [apply canon_fsub..|]. rewrite !eqm_sum_y.
      generalize (sum_x l x1 x2). intros x3. clear EX EL L2. fnsatz.
  Qed.

  (* 1 * P = P *)
  Lemma modinv_1 : modinv Z_ops p 1 = 1.
  Proof.
    assert (N : ~ eqm p 1 0) by (unfold eqm; rewrite Zmod_0_l, Z.mod_1_l by lia; discriminate).
    pose proof (modinv_eqm 1 N) as E. rewrite Z.mul_1_l in E.
    apply eqm_canon_eq; [apply modinv_range; lia | unfold canon; lia | exact E].
  Qed.

  Lemma gsmul_1 P : gvalid P -> gsmul Z_ops p 1 P = P.
  Proof.
    destruct P as [[x y]|]; [|reflexivity]. intros (Hx & Hy & _).
    cbn [gsmul jsmul_pos jac_to_affine n_eqb n_of_Z Z_ops]. cbn [Z.eqb]. rewrite modinv_1.
    unfold fmul. cbn [n_mod n_mul Z_ops]. unfold canon in *.
    rewrite !Z.mul_1_r, (Z.mod_small 1 p) by lia. rewrite !Z.mul_1_r.
    rewrite (Z.mod_small x p), (Z.mod_small y p) by lia. rewrite (Z.mod_small y p) by lia. reflexivity.
  Qed.

  (* ---------------------------------------------------------------- *)
  (* Jacobian coordinates: Y^2 = X^3 + 7 Z^6 is preserved by jdbl and jadd_mixed *)
  Definition jcurve (X Y Z : Z) : Prop :=
    eqm p (Y * Y) (X * X * X + 7 * (Z * Z * Z * Z * Z * Z)).

  Lemma jdbl_alg X Y Z D C8 X3 Y3 Z3 :
    jcurve X Y Z ->
    eqm p D (((X+Y*Y)*(X+Y*Y) - X*X - Y*Y*(Y*Y)) + ((X+Y*Y)*(X+Y*Y) - X*X - Y*Y*(Y*Y))) ->
    eqm p C8 (((Y*Y*(Y*Y) + Y*Y*(Y*Y)) + (Y*Y*(Y*Y) + Y*Y*(Y*Y))) + ((Y*Y*(Y*Y) + Y*Y*(Y*Y)) + (Y*Y*(Y*Y) + Y*Y*(Y*Y)))) ->
    eqm p X3 ((X*X+X*X+X*X)*(X*X+X*X+X*X) - (D + D)) ->
    eqm p Y3 ((X*X+X*X+X*X) * (D - X3) - C8) ->
    eqm p Z3 (Y*Z + Y*Z) ->
    jcurve X3 Y3 Z3.
  Proof. unfold jcurve. intros C ED EC EX EY EZ. Time fnsatz. Qed.

  Lemma jadd_alg X1 Y1 Z1 x2 y2 X3 Y3 Z3 H R :
    jcurve X1 Y1 Z1 -> eqm p (y2 * y2) (x2 * x2 * x2 + 7) ->
    eqm p H (x2 * (Z1*Z1) - X1) -> eqm p R (y2 * Z1 * (Z1*Z1) - Y1) ->
    eqm p X3 (R*R - H*(H*H) - (X1*(H*H) + X1*(H*H))) ->
    eqm p Y3 (R*(X1*(H*H) - X3) - Y1*(H*(H*H))) ->
    eqm p Z3 (Z1*H) ->
    jcurve X3 Y3 Z3.
  Proof. unfold jcurve. intros C1 C2 EH ER EX EY EZ. Time fnsatz. Qed.

  Lemma jdbl_alg2 X Y Z A B C XB T1 T2 T3 D E1 E F DD X3 C2 C4 C8 DX EY Y3 YZ Z3 :
    jcurve X Y Z ->
    eqm p A (X*X) -> eqm p B (Y*Y) -> eqm p C (B*B) -> eqm p XB (X+B) ->
    eqm p T1 (XB*XB) -> eqm p T2 (T1 - A) -> eqm p T3 (T2 - C) -> eqm p D (T3 + T3) ->
    eqm p E1 (A + A) -> eqm p E (E1 + A) -> eqm p F (E*E) -> eqm p DD (D + D) -> eqm p X3 (F - DD) ->
    eqm p C2 (C + C) -> eqm p C4 (C2 + C2) -> eqm p C8 (C4 + C4) ->
    eqm p DX (D - X3) -> eqm p EY (E * DX) -> eqm p Y3 (EY - C8) ->
    eqm p YZ (Y * Z) -> eqm p Z3 (YZ + YZ) ->
    jcurve X3 Y3 Z3.
  Proof. unfold jcurve. intros. Time fnsatz. Qed.

  Lemma jadd_alg2 X1 Y1 Z1 x2 y2 Z1Z1 U2 S1 S2 H R HH HHH V RR T1 V2 X3 VX RV YH Y3 Z3 :
    jcurve X1 Y1 Z1 -> eqm p (y2 * y2) (x2 * x2 * x2 + 7) ->
    eqm p Z1Z1 (Z1*Z1) -> eqm p U2 (x2*Z1Z1) -> eqm p S1 (y2*Z1) -> eqm p S2 (S1*Z1Z1) ->
    eqm p H (U2 - X1) -> eqm p R (S2 - Y1) -> eqm p HH (H*H) -> eqm p HHH (H*HH) -> eqm p V (X1*HH) ->
    eqm p RR (R*R) -> eqm p T1 (RR - HHH) -> eqm p V2 (V + V) -> eqm p X3 (T1 - V2) ->
    eqm p VX (V - X3) -> eqm p RV (R*VX) -> eqm p YH (Y1*HHH) -> eqm p Y3 (RV - YH) ->
    eqm p Z3 (Z1*H) ->
    jcurve X3 Y3 Z3.
  Proof. unfold jcurve. intros. Time fnsatz. Qed.

  Lemma affine_alg X Y Z zi zi2 x yz y :
    jcurve X Y Z -> eqm p (Z * zi) 1 -> eqm p zi2 (zi * zi) ->
    eqm p x (X * zi2) -> eqm p yz (Y * zi2) -> eqm p y (yz * zi) ->
    eqm p (y * y) (x * x * x + 7).
  Proof. unfold jcurve. intros. Time fnsatz. Qed.

  Lemma eqm_of_eq a b : a = b -> eqm p a b.
  Proof. intros ->. reflexivity. Qed.
  Lemma eqm_fdbl a : eqm p (fdbl Z_ops p a) (a + a).
  Proof. apply Zmod_eqm. Qed.

  Definition jvalid (P : Z * Z * Z) : Prop :=
    let '(X, Y, Z) := P in canon X /\ canon Y /\ canon Z /\ jcurve X Y Z.

  Lemma canon_fdbl a : canon (fdbl Z_ops p a). Proof. apply canon_mod. Qed.
  Lemma canon_1 : canon 1. Proof. unfold canon. lia. Qed.
  Lemma canon_0 : canon 0. Proof. unfold canon. lia. Qed.

  Ltac step := first [apply eqm_fmul | apply eqm_fsub | apply eqm_fadd | apply eqm_fdbl].

  Lemma jdbl_valid P : jvalid P -> jvalid (jdbl Z_ops p P).
  Proof.
    destruct P as [[X Y] Z]. intros (HX & HY & HZ & C). unfold jdbl. cbv zeta. unfold jvalid.
    split; [apply canon_fsub|]. split; [apply canon_fsub|]. split; [apply canon_fdbl|].
    eapply (jdbl_alg2 X Y Z); [exact C | ..]; step.
  Qed.

  Lemma jadd_mixed_valid P x2 y2 :
    jvalid P -> gvalid (Some (x2, y2)) -> jvalid (jadd_mixed Z_ops p P x2 y2).
  Proof.
    destruct P as [[X1 Y1] Z1]. intros (HX & HY & HZ & C) (Hx2 & Hy2 & C2).
    unfold jadd_mixed. cbn [n_eqb n_of_Z Z_ops]. cbv zeta.
    assert (V2 : jvalid (x2, y2, 1)).
    { unfold jvalid, jcurve. split; [exact Hx2|]. split; [exact Hy2|]. split; [apply canon_1|].
      eapply eqm_trans; [exact C2|]. apply eqm_of_eq. ring. }
    destruct (Z1 =? 0); [exact V2|].
    destruct (fsub Z_ops p (fmul Z_ops p x2 (fmul Z_ops p Z1 Z1)) X1 =? 0).
    - destruct (_ =? 0); [apply jdbl_valid; exact V2|].
      unfold jvalid, jcurve. split; [apply canon_1|]. split; [apply canon_1|]. split; [apply canon_0|].
      apply eqm_of_eq. ring.
    - unfold jvalid. split; [apply canon_fsub|]. split; [apply canon_fsub|]. split; [apply canon_fmul|].
      eapply (jadd_alg2 X1 Y1 Z1 x2 y2); [exact C | exact C2 | ..]; step.
  Qed.

  Lemma jac_to_affine_valid P : jvalid P -> gvalid (jac_to_affine Z_ops p P).
  Proof.
    destruct P as [[X Y] Z]. intros (HX & HY & HZ & C).
    unfold jac_to_affine. cbn [n_eqb n_of_Z Z_ops]. cbv zeta.
    destruct (Z =? 0) eqn:E; [exact I|]. apply Z.eqb_neq in E.
    assert (NZ : ~ eqm p Z 0).
    { intros EZ. apply E. apply eqm_canon_eq; [exact HZ | apply canon_0 | exact EZ]. }
    pose proof (modinv_eqm Z NZ) as EI. revert EI. generalize (modinv Z_ops p Z). intros zi EI.
    unfold gvalid. split; [apply canon_fmul|]. split; [apply canon_fmul|].
    eapply (affine_alg X Y Z zi); [exact C | exact EI | ..]; step.
  Qed.

  Lemma jsmul_pos_valid k x y :
    gvalid (Some (x, y)) -> jvalid (jsmul_pos Z_ops p k x y).
  Proof.
    intros V. induction k as [k IH|k IH|]; cbn [jsmul_pos].
    - apply jadd_mixed_valid; [apply jdbl_valid; exact IH | exact V].
    - apply jdbl_valid; exact IH.
    - destruct V as (Hx & Hy & C). cbn [n_of_Z Z_ops]. unfold jvalid, jcurve.
      split; [exact Hx|]. split; [exact Hy|]. split; [apply canon_1|]. eapply eqm_trans; [exact C|]. apply eqm_of_eq. ring.
  Qed.

  (* closure of scalar multiplication *)
  Lemma gsmul_valid k P : gvalid P -> gvalid (gsmul Z_ops p k P).
  Proof.
    destruct P as [[x y]|]; [|intros _; exact I]. intros V. cbn [gsmul].
    destruct k as [|k|k]; [exact I| |].
    - apply jac_to_affine_valid, jsmul_pos_valid, V.
    - apply gneg_valid, jac_to_affine_valid, jsmul_pos_valid, V.
  Qed.
End GenericCurve.

(* ------------------------------------------------------------------ *)
(* -7 is not a cube modulo p when (-7)^((p-1)/3) <> 1: no curve point has y = 0 *)
Section NoTwoTorsion.
  Variable p : Z.
  Hypothesis Hp : prime p.
  Variable e : positive.
  Hypothesis He : 3 * Zpos e = p - 1.
  Hypothesis H7 : 7 mod p <> 0.
  Hypothesis Hc : fpow Z_ops p (-7) e <> 1.

  Lemma no_y0_generic x : (x * x * x + 7) mod p <> 0.
  Proof.
    intros E. pose proof (prime_ge_2 p Hp) as P2. apply Hc.
    rewrite (fpow_spec p Hp).
    assert (Nx : ~ (p | x)).
    { intros [k ->]. apply H7. rewrite <- E.
      replace (k * p * (k * p) * (k * p) + 7) with (7 + (k * k * k * p * p) * p) by ring.
      rewrite Z_mod_plus_full. reflexivity. }
    assert (E3 : (x * x * x) mod p = (-7) mod p).
    { replace (x * x * x) with ((x * x * x + 7) + (-7)) by ring.
      rewrite Zplus_mod, E, Z.add_0_l, Zmod_mod. reflexivity. }
    rewrite Zpower_mod by lia. rewrite <- E3. rewrite <- Zpower_mod by lia.
    replace (x * x * x) with (x ^ 3) by ring. rewrite <- Z.pow_mul_r by lia.
    rewrite He. apply fermat_little; assumption.
  Qed.
End NoTwoTorsion.

(* ------------------------------------------------------------------ *)
(* secp256k1 *)
Definition secp_cube_exp : positive := Z.to_pos ((secp_p - 1) / 3).

Lemma secp_no_y0 x : (x * x * x + 7) mod secp_p <> 0.
Proof.
  apply (no_y0_generic secp_p secp_p_prime secp_cube_exp).
  - reflexivity.
  - vm_compute. discriminate.
  - vm_compute. discriminate.
Qed.

Lemma secp_p_gt_3 : 65536 < secp_p.
Proof. reflexivity. Qed.

Definition validb (P : point) : bool :=
  match P with
  | None => true
  | Some (x, y) => in_field x && in_field y && on_curve P
  end.
Definition valid (P : point) : Prop := validb P = true.

Ltac inst := first [exact secp_p_prime | exact secp_p_gt_3 | exact secp_no_y0].

Lemma valid_gvalid P : valid P <-> gvalid secp_p P.
Proof.
  destruct P as [[x y]|]; [|split; intros; [exact I | reflexivity]].
  unfold valid, validb, gvalid, canon, on_curve. cbn [g_on_curve].
  rewrite !andb_true_iff, !in_field_spec, (on_curve_xy_eqm secp_p) by inst. tauto.
Qed.

(* --- the fields of secp256k1_group proved for the concrete formulas --- *)
Theorem secp_neg_closed P : valid P -> valid (pneg P).
Proof. rewrite !valid_gvalid. apply (gneg_valid secp_p); inst. Qed.

Theorem secp_add_neg P : valid P -> padd P (pneg P) = None.
Proof. rewrite valid_gvalid. apply (gadd_gneg secp_p); inst. Qed.

Theorem secp_yodd_neg P : valid P -> P <> None -> yodd (pneg P) = negb (yodd P).
Proof.
  rewrite valid_gvalid. destruct P as [[x y]|]; [|congruence]. intros V _.
  apply (gneg_yodd secp_p) with (x := x); first [inst | exact V].
Qed.

Theorem secp_lift P : valid P -> P <> None -> lift_x (xcoord P) (yodd P) = Some P.
Proof.
  destruct P as [[x y]|]; [|congruence]. intros V _.
  unfold valid, validb in V. rewrite !andb_true_iff, !in_field_spec in V. destruct V as [[Hx Hy] Hc].
  apply lift_x_complete; [exact sqrt_ok_holds | assumption..].
Qed.

Theorem secp_add_comm P Q : valid P -> valid Q -> padd P Q = padd Q P.
Proof. rewrite !valid_gvalid. apply (gadd_comm secp_p); inst. Qed.

Theorem secp_add_closed P Q : valid P -> valid Q -> valid (padd P Q).
Proof. rewrite !valid_gvalid. apply (gadd_valid secp_p); inst. Qed.

Theorem secp_mul_1 P : valid P -> smul 1 P = P.
Proof. rewrite valid_gvalid. apply (gsmul_1 secp_p); inst. Qed.

Print Assumptions secp_neg_closed.
Print Assumptions secp_add_neg.
Print Assumptions secp_yodd_neg.
Print Assumptions secp_lift.
Print Assumptions secp_add_comm.
Print Assumptions secp_add_closed.
Print Assumptions secp_mul_1.

(* G has order exactly n: a consequence of the scalar-action laws (which stay in the premise),
   n*G = O (by evaluation), 1*G = G (above) and the primality of n *)
Lemma valid_G' : valid G.
Proof. vm_compute. reflexivity. Qed.

Theorem secp_order_exact_from_laws :
  (forall a b P, valid P -> smul (a + b) P = padd (smul a P) (smul b P)) ->
  (forall a b P, valid P -> smul (a * b) P = smul a (smul b P)) ->
  forall a, smul a G = None -> a mod secp_n = 0.
Proof.
  intros Hadd Hmul a Ha.
  destruct (Z.eq_dec (a mod secp_n) 0) as [E|N]; [exact E|exfalso].
  assert (ND : ~ (secp_n | a)).
  { intros D. apply N. apply Z.mod_divide; [discriminate | exact D]. }
  pose proof (prime_rel_prime secp_n secp_n_prime a ND) as R.
  apply rel_prime_bezout in R. destruct R as [u v B].
  assert (E : smul 1 G = None).
  { rewrite <- B. rewrite Hadd by exact valid_G'.
    rewrite !Hmul by exact valid_G'. rewrite order_G, Ha. reflexivity. }
  rewrite secp_mul_1 in E by exact valid_G'. discriminate E.
Qed.
Print Assumptions secp_order_exact_from_laws.

Theorem secp_mul_closed k P : valid P -> valid (smul k P).
Proof. rewrite !valid_gvalid. apply (gsmul_valid secp_p); inst. Qed.
Print Assumptions secp_mul_closed.
