(* The secp256k1 field prime p and group order n are prime (Pratt certificates checked by Proofs/Primality), and the
   number-theoretic facts the rest of the development used to carry as premises:
     - [sqrt_ok_holds]   the candidate square root alpha^((p+1)/4) of a square y^2 is y or -y  (was premise [sqrt_ok]);
     - [secp_n_coprime]  every non-zero residue modulo n is invertible (was field [sg_n_prime] of [secp256k1_group]);
     - [secp_p_fermat_inv] a * a^(p-2) = 1 (mod p). *)
From BSV Require Import Base.Bytes.
From BSV Require Import Prim.Num Prim.Secp256k1 Proofs.Secp256k1Proofs Proofs.Primality Proofs.SecpPrimes_cert.
From Coq Require Import Znumtheory Zpow_facts.
Local Open Scope Z_scope.

Lemma certified_prime_b es N :
  check_all [2] es = true -> existsb (Z.eqb N) (map entry_n es) = true -> prime N.
Proof.
  intros H E. apply existsb_exists in E. destruct E as (x & Hx & E). apply Z.eqb_eq in E. subst x.
  exact (certified_prime es N H Hx).
Qed.

Lemma secp_cert_ok : check_all [2] secp_cert = true.
Proof. vm_cast_no_check (eq_refl true). Qed.

Theorem secp_p_prime : prime secp_p.
Proof. apply (certified_prime_b secp_cert); [exact secp_cert_ok | vm_compute; reflexivity]. Qed.

Theorem secp_n_prime : prime secp_n.
Proof. apply (certified_prime_b secp_cert); [exact secp_cert_ok | vm_compute; reflexivity]. Qed.

(* ------------------------------------------------------------------ *)
(* generic consequences (modulus as a variable: the 256-bit constants stay out of the proof terms) *)
Section Generic.
  Variable p : Z.
  Hypothesis Hp : prime p.
  Let p_ge_2 : 2 <= p := prime_ge_2 p Hp.

  Lemma fpow_spec b e : fpow Z_ops p b e = b ^ Zpos e mod p.
  Proof.
    induction e as [e IH|e IH|]; cbn [fpow]; unfold fsqr, fmul; cbn [n_mod n_mul Z_ops].
    - rewrite IH, Pos2Z.inj_xI. rewrite Z.pow_add_r, Z.pow_1_r, Z.pow_twice_r by lia.
      rewrite <- Z.mul_mod by lia. rewrite Z.mul_mod_idemp_r by lia. f_equal. ring.
    - rewrite IH, Pos2Z.inj_xO. rewrite Z.pow_twice_r. rewrite <- Z.mul_mod by lia. reflexivity.
    - rewrite Z.pow_1_r. reflexivity.
  Qed.

  Lemma fermat_inv a : a mod p <> 0 -> (a * a ^ (p - 2)) mod p = 1.
  Proof.
    intros Ha. rewrite <- Z.pow_succ_r by lia. replace (Z.succ (p - 2)) with (p - 1) by lia.
    apply fermat_little; [exact Hp|]. intro D. apply Ha. apply Z.mod_divide; [lia | exact D].
  Qed.

  Lemma coprime_below a : 0 < a < p -> Z.gcd a p = 1.
  Proof.
    intros Ha. apply Zgcd_1_rel_prime. pose proof Hp as Hp'. destruct Hp' as [_ H]. apply H. lia.
  Qed.

  (* square roots when p = 3 (mod 4) *)
  Variable e : positive.
  Hypothesis He : 4 * Zpos e = p + 1.

  Lemma sqrt_candidate y :
    0 <= y < p ->
    let b := fpow Z_ops p ((y * y) mod p) e in b = y \/ b = (p - y) mod p.
  Proof.
    intros Hy. cbv zeta. rewrite fpow_spec. rewrite <- Zpower_mod by lia.
    set (E := Zpos e) in *. set (b := (y * y) ^ E mod p).
    pose proof (Z.mod_pos_bound ((y * y) ^ E) p ltac:(lia)) as Hb. fold b in Hb.
    destruct (Z.eq_dec y 0) as [->|Hy0].
    - left. subst b. rewrite Z.mul_0_l, Z.pow_0_l by lia. apply Z.mod_0_l. lia.
    - assert (Hnd : ~ (p | y)) by (intro D; apply Z.divide_pos_le in D; lia).
      assert (Hsq : (b * b) mod p = (y * y) mod p).
      { subst b. rewrite <- Z.mul_mod by lia. rewrite <- Z.pow_add_r by lia.
        rewrite <- Z.pow_2_r, <- Z.pow_mul_r by lia.
        replace (2 * (E + E)) with (Z.succ (Z.succ (p - 1))) by lia.
        rewrite !Z.pow_succ_r by lia. rewrite Z.mul_assoc.
        rewrite <- Z.mul_mod_idemp_r by lia. rewrite (fermat_little p Hp y Hnd).
        rewrite Z.mul_1_r, Z.pow_2_r. reflexivity. }
      assert (D : (p | (b - y) * (b + y))).
      { apply Z.mod_divide; [lia|]. replace ((b - y) * (b + y)) with (b * b - y * y) by ring.
        rewrite Zminus_mod, Hsq, Z.sub_diag. apply Z.mod_0_l. lia. }
      apply prime_mult in D; [|exact Hp]. destruct D as [[k Hk]|[k Hk]].
      + left. assert (k = 0) by nia. lia.
      + right. assert (k = 1) by nia. rewrite Z.mod_small by lia. lia.
  Qed.
End Generic.

(* ------------------------------------------------------------------ *)
Theorem sqrt_ok_holds : sqrt_ok.
Proof.
  unfold sqrt_ok. intros y Hy. apply (sqrt_candidate secp_p secp_p_prime secp_sqrt_exp); [reflexivity | exact Hy].
Qed.

Theorem secp_n_coprime : forall a, 0 < a < secp_n -> Z.gcd a secp_n = 1.
Proof. intros a Ha. exact (coprime_below secp_n secp_n_prime a Ha). Qed.

Theorem secp_p_fermat_inv : forall a, a mod secp_p <> 0 -> (a * a ^ (secp_p - 2)) mod secp_p = 1.
Proof. intros a Ha. exact (fermat_inv secp_p secp_p_prime a Ha). Qed.

Print Assumptions secp_p_prime.
Print Assumptions secp_n_prime.
Print Assumptions sqrt_ok_holds.
Print Assumptions secp_n_coprime.
Print Assumptions secp_p_fermat_inv.
