(* Proofs/SighashProofs.v — C03: the FORKID branch of the library's preimage computation equals the
   replay-protected digest specification; shared lemmas relating the library's serialisers to the
   wire-level view (used by C10 as well). *)
From BSV Require Import Base.Hex Gen.Sighash_gen Model.Opcodes Model.Script Model.VarInt Model.Tx Model.Sighash
  Spec.SighashWire Spec.Bip143.
Local Open Scope list_scope.

(* ------------------------------------------------------------------ *)
(* the constants of Model/Sighash.v are the discriminants of the Rust enum (table regenerated from the source) *)
Lemma sighash_variants_ok :
  forallb (fun p => match lookup_val sighash_table (fst p) with Some v => (v =? snd p)%N | None => false end)
    [("FORKID", SH_FORKID); ("ALL", SH_ALL); ("NONE", SH_NONE); ("SINGLE", SH_SINGLE); ("ANYONECANPAY", SH_ANYONECANPAY);
     ("InputsOutputs", SH_InputsOutputs); ("Inputs", SH_Inputs); ("InputsOutput", SH_InputsOutput);
     ("InputOutputs", SH_InputOutputs); ("Input", SH_Input); ("InputOutput", SH_InputOutput);
     ("Legacy_InputOutputs", SH_Legacy_InputOutputs); ("Legacy_Input", SH_Legacy_Input);
     ("Legacy_InputOutput", SH_Legacy_InputOutput)] = true
  /\ length sighash_table = 14.
Proof. split; vm_compute; reflexivity. Qed.

(* the six FORKID variants are exactly {ALL, NONE, SINGLE} x {-, ANYONECANPAY} with bit 6 set, and the six
   legacy ones the same without it *)
Lemma forkid_variants_bits :
  forallb (fun f => forkid_bit f && is_sighash f && ((base_type f =? 1) || (base_type f =? 2) || (base_type f =? 3))%N)
          [SH_InputsOutputs; SH_Inputs; SH_InputsOutput; SH_InputOutputs; SH_Input; SH_InputOutput] = true
  /\ map (fun f => (base_type f, anyonecanpay f))
         [SH_InputsOutputs; SH_Inputs; SH_InputsOutput; SH_InputOutputs; SH_Input; SH_InputOutput]
     = [(1, false); (2, false); (3, false); (1, true); (2, true); (3, true)]%N.
Proof. split; vm_compute; reflexivity. Qed.

(* ------------------------------------------------------------------ *)
(* serialisers of the library vs. the wire-level view *)
Lemma write_varint_compact n : write_varint n = compact_size n.
Proof.
  unfold write_varint, compact_size.
  destruct (n <=? 252)%N eqn:E1, (n <? 253)%N eqn:E2; try lia; [reflexivity|].
  destruct (n <=? 65535)%N eqn:E3, (n <? 65536)%N eqn:E4; try lia; [reflexivity|].
  destruct (n <=? 4294967295)%N eqn:E5, (n <? 4294967296)%N eqn:E6; try lia; reflexivity.
Qed.

Lemma compact_size_length n :
  length (compact_size n) =
    if (n <? 253)%N then 1 else if (n <? 65536)%N then 3 else if (n <? 4294967296)%N then 5 else 9.
Proof.
  unfold compact_size.
  destruct (n <? 253)%N; [reflexivity|]. destruct (n <? 65536)%N; [reflexivity|].
  destruct (n <? 4294967296)%N; reflexivity.
Qed.

Lemma Some_inj {A} (a b : A) : Some a = Some b -> a = b.
Proof. congruence. Qed.
Lemma u32le_length n : length (u32le n) = 4.
Proof. apply le_bytes_length. Qed.
Lemma u64le_length n : length (u64le n) = 8.
Proof. apply le_bytes_length. Qed.

Lemma outpoint_view i : txin_outpoint_bytes i true = ser_outpoint (view_in i).
Proof. reflexivity. Qed.

Lemma txout_view o : txout_bytes o = ser_out (view_out o).
Proof. unfold txout_bytes, ser_out, var_bytes, view_out, u64le; cbn [w_value w_pk]. rewrite write_varint_compact. reflexivity. Qed.

Lemma txin_view i : txin_bytes i = ser_in (view_in i).
Proof.
  unfold txin_bytes, ser_in, ser_outpoint, var_bytes, view_in, u32le; cbn [w_prev_hash w_prev_n w_script w_seq].
  rewrite write_varint_compact, <- !app_assoc. reflexivity.
Qed.

Lemma concat_map_view {A B} (f : A -> bytes) (g : B -> bytes) (v : A -> B) (l : list A) :
  (forall x, f x = g (v x)) -> List.concat (map f l) = List.concat (map g (map v l)).
Proof. intros E. rewrite map_map. f_equal. apply map_ext. exact E. Qed.

Lemma tx_view t : tx_bytes t = ser_tx (view_tx t).
Proof.
  unfold tx_bytes, ser_tx, view_tx, u32le; cbn [w_version w_ins w_outs w_lock].
  rewrite !map_length, !write_varint_compact.
  rewrite (concat_map_view txin_bytes ser_in view_in) by exact txin_view.
  rewrite (concat_map_view txout_bytes ser_out view_out) by exact txout_view.
  reflexivity.
Qed.

Lemma outpoints_view t : outpoints_bytes t = List.concat (map ser_outpoint (w_ins (view_tx t))).
Proof. unfold outpoints_bytes. apply concat_map_view. exact outpoint_view. Qed.
Lemma sequences_view t : sequences_bytes t = List.concat (map (fun i => u32le (w_seq i)) (w_ins (view_tx t))).
Proof. unfold sequences_bytes. apply (concat_map_view _ (fun i => u32le (w_seq i)) view_in). reflexivity. Qed.
Lemma outputs_view t : outputs_bytes t = List.concat (map ser_out (w_outs (view_tx t))).
Proof. unfold outputs_bytes. apply concat_map_view. exact txout_view. Qed.

(* ------------------------------------------------------------------ *)
(* C03 *)
Definition forkid_flags : list N :=
  [SH_InputsOutputs; SH_Inputs; SH_InputsOutput; SH_InputOutputs; SH_Input; SH_InputOutput].

(* evaluate the closed flag predicates after the flag has been fixed *)
Ltac eval_flag_preds :=
  repeat match goal with
  | |- context [is_forkid_variant ?f] => let b := eval vm_compute in (is_forkid_variant f) in change (is_forkid_variant f) with b
  | |- context [hash_inputs_zero ?f] => let b := eval vm_compute in (hash_inputs_zero f) in change (hash_inputs_zero f) with b
  | |- context [hash_sequence_hashed ?f] => let b := eval vm_compute in (hash_sequence_hashed f) in change (hash_sequence_hashed f) with b
  | |- context [hash_outputs_single ?f] => let b := eval vm_compute in (hash_outputs_single f) in change (hash_outputs_single f) with b
  | |- context [hash_outputs_all ?f] => let b := eval vm_compute in (hash_outputs_all f) in change (hash_outputs_all f) with b
  | |- context [anyonecanpay ?f] => let b := eval vm_compute in (anyonecanpay f) in change (anyonecanpay f) with b
  | |- context [base_type ?f] => let b := eval vm_compute in (base_type f) in change (base_type f) with b
  | |- context [(?a =? ?b)%N] => let c := eval vm_compute in (a =? b)%N in change (a =? b)%N with c
  end.

Section C03.
  Variable H : bytes -> bytes.

  (* the whole behaviour of the FORKID branch in terms of the specification *)
  Lemma bip143_total t i f sub v :
    In f forkid_flags ->
    sighash_preimage H t i f sub v =
      match bip143_preimage H (view_tx t) i f (to_bytes sub) v with
      | None => Err
      | Some p => if single_without_output (view_tx t) i f then Err else Ok p
      end.
  Proof.
    intros Hf.
    unfold sighash_preimage, sighash_bip143, bip143_preimage, single_without_output,
           Model.Sighash.hash_outputs, Model.Sighash.hash_inputs, Model.Sighash.hash_sequence,
           Spec.Bip143.hash_outputs, hash_prevouts, Spec.Bip143.hash_sequence.
    rewrite <- outpoints_view, <- sequences_view, <- outputs_view.
    change (w_ins (view_tx t)) with (map view_in (inputs t)).
    change (w_outs (view_tx t)) with (map view_out (outputs t)).
    change (w_version (view_tx t)) with (version t). change (w_lock (view_tx t)) with (locktime t).
    rewrite !nth_error_map, map_length.
    unfold forkid_flags, SH_InputsOutputs, SH_Inputs, SH_InputsOutput, SH_InputOutputs, SH_Input, SH_InputOutput in Hf.
    cbn [In] in Hf.
    destruct (nth_error (inputs t) i) as [inp|] eqn:Ei; cbn [option_map]; [|destruct Hf as [<-|[<-|[<-|[<-|[<-|[<-|[]]]]]]]; reflexivity].
    assert (Hsingle : forall F : bytes -> outcome bytes,
      (do ho <- (if Nat.ltb (length (outputs t)) i then Err
                 else match nth_error (outputs t) i with None => Err | Some o => Ok (H (txout_bytes o)) end); F ho)
      = if Nat.leb (length (outputs t)) i then Err
        else F (match option_map view_out (nth_error (outputs t) i) with Some o => H (ser_out o) | None => zero_hash end)).
    { intros F. destruct (nth_error (outputs t) i) as [o|] eqn:Eo; cbn [option_map].
      - assert (i < length (outputs t)) by (apply nth_error_Some; congruence).
        replace (Nat.ltb (length (outputs t)) i) with false by (symmetry; apply Nat.ltb_ge; lia).
        replace (Nat.leb (length (outputs t)) i) with false by (symmetry; apply Nat.leb_gt; lia).
        cbn [bind]. rewrite txout_view. reflexivity.
      - apply nth_error_None in Eo.
        replace (Nat.leb (length (outputs t)) i) with true by (symmetry; apply Nat.leb_le; lia).
        destruct (Nat.ltb (length (outputs t)) i); reflexivity. }
    destruct Hf as [<-|[<-|[<-|[<-|[<-|[<-|[]]]]]]]; eval_flag_preds; cbn [negb andb orb];
      try rewrite Hsingle; try (destruct (Nat.leb (length (outputs t)) i); [reflexivity|]);
      cbn [bind]; unfold var_bytes, u32le, u64le, zero32, zero_hash;
      rewrite write_varint_compact, <- ?app_assoc; reflexivity.
  Qed.

  Lemma bip143_eq_spec t i f sub v :
    In f forkid_flags -> i < length (inputs t) ->
    (base_type f = BASE_SINGLE -> i < length (outputs t)) ->
    exists p, bip143_preimage H (view_tx t) i f (to_bytes sub) v = Some p /\
              sighash_preimage H t i f sub v = Ok p.
  Proof.
    intros Hf Hi Hs. rewrite bip143_total by exact Hf.
    destruct (bip143_preimage H (view_tx t) i f (to_bytes sub) v) as [p|] eqn:E.
    - exists p. split; [reflexivity|].
      unfold single_without_output. destruct (base_type f =? BASE_SINGLE)%N eqn:Eb; [|reflexivity].
      apply N.eqb_eq in Eb. specialize (Hs Eb). cbn [w_outs view_tx]. rewrite map_length.
      replace (Nat.leb (length (outputs t)) i) with false by (symmetry; apply Nat.leb_gt; lia). reflexivity.
    - exfalso. unfold bip143_preimage in E. cbn [w_ins view_tx] in E. rewrite nth_error_map in E.
      destruct (nth_error (inputs t) i) eqn:En; [discriminate|]. apply nth_error_None in En. lia.
  Qed.

  (* the permitted difference *)
  Lemma bip143_single_oob t i f sub v :
    In f forkid_flags -> base_type f = BASE_SINGLE -> length (outputs t) <= i ->
    sighash_preimage H t i f sub v = Err.
  Proof.
    intros Hf Hb Ho. rewrite bip143_total by exact Hf.
    destruct (bip143_preimage _ _ _ _ _ _); [|reflexivity].
    unfold single_without_output. rewrite Hb. cbn [w_outs view_tx]. rewrite map_length.
    replace (Nat.leb (length (outputs t)) i) with true by (symmetry; apply Nat.leb_le; lia). reflexivity.
  Qed.

  Lemma idx_oob_err t i f sub v :
    In f forkid_flags -> length (inputs t) <= i -> sighash_preimage H t i f sub v = Err.
  Proof.
    intros Hf Hi. rewrite bip143_total by exact Hf.
    unfold bip143_preimage. cbn [w_ins view_tx]. rewrite nth_error_map.
    replace (nth_error (inputs t) i) with (@None txin) by (symmetry; apply nth_error_None; exact Hi). reflexivity.
  Qed.

  (* layout: ten fields at fixed offsets around the length-prefixed script code *)
  Hypothesis H_len : forall x, length (H x) = 32.

  Lemma hash_fields_length t ht n :
    length (hash_prevouts H t ht) = 32 /\ length (Spec.Bip143.hash_sequence H t ht) = 32 /\
    length (Spec.Bip143.hash_outputs H t ht n) = 32.
  Proof.
    unfold hash_prevouts, Spec.Bip143.hash_sequence, Spec.Bip143.hash_outputs, zero_hash.
    repeat split; repeat match goal with |- context [if ?b then _ else _] => destruct b end;
      try apply H_len; try apply repeat_length.
    destruct (nth_error (w_outs t) n); [apply H_len | apply repeat_length].
  Qed.

  Lemma bip143_layout t n ht sc amount p inp :
    bip143_preimage H t n ht sc amount = Some p ->
    nth_error (w_ins t) n = Some inp -> length (w_prev_hash inp) = 32 ->
    exists hp hs ho : bytes,
      length hp = 32 /\ length hs = 32 /\ length ho = 32 /\
      p = u32le (w_version t) ++ hp ++ hs ++ (w_prev_hash inp ++ u32le (w_prev_n inp))
          ++ (compact_size (N.of_nat (length sc)) ++ sc)
          ++ u64le amount ++ u32le (w_seq inp) ++ ho ++ u32le (w_lock t) ++ u32le ht /\
      length p = 156 + length (compact_size (N.of_nat (length sc))) + length sc.
  Proof.
    intros E En Hh. unfold bip143_preimage in E. rewrite En in E. apply Some_inj in E. subst p.
    destruct (hash_fields_length t ht n) as (L1 & L2 & L3).
    exists (hash_prevouts H t ht), (Spec.Bip143.hash_sequence H t ht), (Spec.Bip143.hash_outputs H t ht n).
    split; [exact L1|]. split; [exact L2|]. split; [exact L3|]. split; [reflexivity|].
    unfold ser_outpoint, var_bytes.
    rewrite !app_length, L1, L2, L3, Hh, !u32le_length, u64le_length. lia.
  Qed.

  (* C03-4, as far as it goes without the ECDSA theorems: what Transaction::sign hands to the signer (hash
     Sha256d) is exactly the specified preimage, and the flag byte is appended to the DER encoding *)
  Lemma sign_signs_spec_preimage (sig : Type) (signer : bytes -> bytes -> outcome sig) (der : sig -> bytes)
        t key f i sub v p :
    In f forkid_flags ->
    bip143_preimage H (view_tx t) i f (to_bytes sub) v = Some p ->
    single_without_output (view_tx t) i f = false ->
    tx_sign H sig signer der t key f i sub v = (do s <- signer key p; Ok (der s ++ [n2b f], p)).
  Proof.
    intros Hf Ep Es. unfold tx_sign. rewrite bip143_total by exact Hf. rewrite Ep, Es. reflexivity.
  Qed.
End C03.
