(* Proofs/CacheFresh.v — C04, clause "equals the result on a freshly parsed copy of the current
   serialisation", using the C01 theorems (Proofs/TxProofs.v): the preimage is a function of the wire-level
   view of the contents (C03 / C10 theorems), the view is determined by the raw fields, and parsing the
   serialisation of in-range contents gives a value with the same raw fields. *)
From BSV Require Import Base.Hex Model.Opcodes Model.Script Model.VarInt Model.Tx Model.Sighash Model.Cache
  Spec.ScriptTok Spec.TxWire Spec.SighashWire Spec.Bip143 Spec.LegacySighash
  Proofs.ScriptProofs Proofs.TxProofs Proofs.SighashProofs Proofs.LegacyProofs Proofs.CacheProofs.
Local Open Scope list_scope.

(* the wire-level view is determined by the raw fields *)
Definition win_of_fields (i : in_fields) : win := mk_win (rev (f_prev i)) (f_vout i) (f_script i) (f_seq i).
Definition wout_of_fields (o : out_fields) : wout := mk_wout (f_value o) (f_pk o).
Definition wtx_of_fields (f : tx_fields) : wtx :=
  mk_wtx (f_version f) (map win_of_fields (f_ins f)) (map wout_of_fields (f_outs f)) (f_locktime f).

Lemma view_tx_fields t : view_tx t = wtx_of_fields (fields_of t).
Proof.
  unfold view_tx, wtx_of_fields, fields_of. cbn [f_version f_ins f_outs f_locktime].
  rewrite !map_map. reflexivity.
Qed.

Lemma same_fields_same_view t t' : fields_of t' = fields_of t -> view_tx t' = view_tx t.
Proof. intros E. rewrite !view_tx_fields, E. reflexivity. Qed.

(* the fourteen values of the enum *)
Definition all_flags : list N := forkid_flags ++ legacy_path_flags.

Lemma is_sighash_all f : is_sighash f = true -> In f all_flags.
Proof.
  unfold is_sighash, sighash_of_u8.
  assert (T : Gen.Sighash_gen.sighash_table =
              [("ALL", 1); ("NONE", 2); ("SINGLE", 3); ("FORKID", 64); ("InputsOutputs", 65); ("Inputs", 66);
               ("InputsOutput", 67); ("ANYONECANPAY", 128); ("Legacy_InputOutputs", 129); ("Legacy_Input", 130);
               ("Legacy_InputOutput", 131); ("InputOutputs", 193); ("Input", 194); ("InputOutput", 195)]%string%N) by reflexivity.
  rewrite T. cbn [lookup_name].
  intros Hl.
  repeat match type of Hl with
  | context [(?a =? f)%N] =>
      destruct (N.eqb_spec a f) as [<-|_]; [vm_compute; tauto|]
  end.
  discriminate.
Qed.

(* a decidable sufficient condition for TxProofs.script_ok, for concrete examples *)
Lemma script_ok_dec (s : bytes) :
  (match from_bytes s with Ok _ => true | _ => false end) && negb (truncated_tail s) = true -> script_ok s.
Proof.
  intros H. apply andb_true_iff in H as [H1 H2]. split.
  - destruct (from_bytes s) as [b| |]; try discriminate. exists b; reflexivity.
  - destruct (truncated_tail s); [discriminate|reflexivity].
Qed.

Section Fresh.
  Variable H : bytes -> bytes.

  (* the preimage is a function of the wire-level view of the contents *)
  Lemma preimage_depends_on_view t t' idx f sub v :
    In f all_flags -> plain_bits sub = true -> view_tx t' = view_tx t ->
    sighash_preimage H t' idx f sub v = sighash_preimage H t idx f sub v.
  Proof.
    intros Hf Hp Ev. unfold all_flags in Hf. apply in_app_or in Hf as [Hf|Hf].
    - rewrite !(bip143_total H) by exact Hf. rewrite Ev. reflexivity.
    - rewrite !(legacy_total H) by assumption. rewrite Ev. reflexivity.
  Qed.

  Theorem equals_fresh_parse_full s idx f sub v :
    Inv H s -> fields_ok (fields_of (st_tx s)) -> is_sighash f = true -> plain_bits sub = true ->
    exists t', tx_from_bytes (tx_bytes (st_tx s)) = Ok t' /\
               snd (sighash_cached H s idx f sub v) = snd (sighash_cached H (fresh t') idx f sub v).
  Proof.
    intros I Fok Hf Hp.
    destruct (parse_encode (fields_of (st_tx s)) [] Fok) as (t' & Ep & _ & Ef).
    rewrite app_nil_r, <- serialise_is_spec in Ep.
    exists t'. split; [exact Ep|].
    rewrite (history_independent H s idx f sub v I).
    rewrite (history_independent H (fresh t') idx f sub v (inv_init H t')).
    symmetry. apply preimage_depends_on_view; [apply is_sighash_all; exact Hf | exact Hp |].
    apply same_fields_same_view. exact Ef.
  Qed.
End Fresh.
