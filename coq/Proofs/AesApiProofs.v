(* Proofs/AesApiProofs.v — the API model (Model/AesApi.v) coincides with the standard modes of
   Prim/Aes.v, hence inherits round trip, lengths and rejection; totality. *)
From BSV Require Import Base.Bytes Base.Hex Prim.Aes Proofs.AesProofs Model.AesApi.

Definition is_cbc (a : algo) : bool :=
  match a with AES128_CBC | AES256_CBC => true | _ => false end.

(* ------------------------------------------------------------------ *)
(* lax unpadding followed by the "at most one block" check = strict unpadding *)
Lemma unpad_strict_of_lax data :
  unpad data =
  match unpad_lax data with
  | Some m => if Nat.ltb 16 (length data - length m) then None else Some m
  | None => None
  end.
Proof.
  unfold unpad, unpad_lax, unpad_gen. destruct data as [|d0 data']; [reflexivity|].
  set (data := d0 :: data'). set (l := last data x00). set (n := N.to_nat (b2n l)).
  assert (Hn : n < 256) by (unfold n; pose proof (b2n_lt l); lia).
  replace (Nat.ltb 255 n) with false by (symmetry; apply Nat.ltb_ge; lia).
  destruct (Nat.eqb n 0) eqn:E0; [reflexivity|]. cbn [orb].
  destruct (Nat.ltb (length data) n) eqn:E2.
  - rewrite orb_true_r. reflexivity.
  - rewrite orb_false_r. apply Nat.ltb_ge in E2.
    destruct (forallb (byte_eqb l) (skipn (length data - n) data)) eqn:E3.
    + rewrite firstn_length, Nat.min_l by lia.
      replace (length data - (length data - n)) with n by lia.
      destruct (Nat.ltb 16 n); reflexivity.
    + destruct (Nat.ltb 16 n); reflexivity.
Qed.

Lemma decrypt_vec_lax k iv ct : decrypt_vec k iv ct = of_option (cbc_decrypt_lax k iv ct).
Proof.
  unfold decrypt_vec, cbc_decrypt_lax, cbc_decrypt_gen.
  destruct (Nat.eqb (Nat.modulo (length ct) 16) 0) eqn:E1; cbn [negb].
  - destruct ct as [|c0 ct']; [reflexivity|]. reflexivity.
  - rewrite orb_true_r. reflexivity.
Qed.

Lemma decrypt_cbc_strict k iv ct : decrypt_cbc k iv ct = of_option (cbc_decrypt k iv ct).
Proof.
  unfold decrypt_cbc, decrypt_vec, cbc_decrypt, cbc_decrypt_gen.
  destruct (Nat.eqb (Nat.modulo (length ct) 16) 0) eqn:E1; cbn [negb].
  - destruct ct as [|c0 ct']; [reflexivity|]. set (ct := c0 :: ct') in *.
    cbn [length Nat.eqb orb]. fold (unpad (cbc_raw_dec k iv ct)).
    rewrite unpad_strict_of_lax.
    apply Nat.eqb_eq in E1.
    replace (length (cbc_raw_dec k iv ct)) with (length ct) by (rewrite cbc_raw_dec_length; lia).
    destruct (unpad_lax (cbc_raw_dec k iv ct)) as [m|]; cbn [of_option bind]; [|reflexivity].
    destruct (Nat.ltb 16 (length ct - length m)); reflexivity.
  - rewrite orb_true_r. reflexivity.
Qed.

(* ------------------------------------------------------------------ *)
(* The API computes the standard modes                                 *)
Lemma encrypt_cbc_standard a k iv m :
  is_cbc a = true -> sizes_ok a k iv = true -> encrypt a k iv m = Ok (cbc_encrypt k iv m).
Proof. intros Ha Hs. unfold encrypt. rewrite Hs. destruct a; try discriminate Ha; reflexivity. Qed.

Lemma decrypt_cbc_standard a k iv ct :
  is_cbc a = true -> sizes_ok a k iv = true -> decrypt a k iv ct = of_option (cbc_decrypt k iv ct).
Proof.
  intros Ha Hs. unfold decrypt. rewrite Hs.
  destruct a; try discriminate Ha; apply decrypt_cbc_strict.
Qed.

Lemma ctr_in_domain_spec iv m :
  ctr_in_domain iv m = true ->
  (iv_low64 iv + N.of_nat (Nat.div (length m) 16 + 1) <= 2 ^ 64)%N.
Proof. unfold ctr_in_domain, iv_low64. intros H. apply N.leb_le in H. exact H. Qed.

Lemma sizes_ok_iv a k iv : sizes_ok a k iv = true -> length k = key_len a /\ length iv = 16.
Proof. unfold sizes_ok, iv_len. rewrite andb_true_iff, !Nat.eqb_eq. tauto. Qed.

Lemma encrypt_ctr_standard a k iv m :
  is_cbc a = false -> sizes_ok a k iv = true -> ctr_in_domain iv m = true ->
  encrypt a k iv m = Ok (ctr k iv m).
Proof.
  intros Ha Hs Hd. unfold encrypt. rewrite Hs. destruct (sizes_ok_iv _ _ _ Hs) as [_ Hiv].
  destruct a; try discriminate Ha; cbn [negb]; unfold aes_ctr;
    rewrite ctr64_eq_ctr by (try exact Hiv; apply ctr_in_domain_spec, Hd); reflexivity.
Qed.

Lemma decrypt_ctr_standard a k iv m :
  is_cbc a = false -> sizes_ok a k iv = true -> ctr_in_domain iv m = true ->
  decrypt a k iv m = Ok (ctr k iv m).
Proof.
  intros Ha Hs Hd. unfold decrypt. rewrite Hs. destruct (sizes_ok_iv _ _ _ Hs) as [_ Hiv].
  destruct a; try discriminate Ha; cbn [negb]; unfold aes_ctr;
    rewrite ctr64_eq_ctr by (try exact Hiv; apply ctr_in_domain_spec, Hd); reflexivity.
Qed.

(* ------------------------------------------------------------------ *)
(* Round trip, all four modes, every key/IV of the right size, every message
   (CTR: also outside the no-wrap domain, because the same keystream is regenerated). *)
Theorem api_roundtrip a k iv m :
  sizes_ok a k iv = true ->
  exists c, encrypt a k iv m = Ok c /\ decrypt a k iv c = Ok m.
Proof.
  intros Hs. destruct (is_cbc a) eqn:Ha.
  - exists (cbc_encrypt k iv m). split; [apply encrypt_cbc_standard; assumption|].
    rewrite decrypt_cbc_standard by assumption. rewrite cbc_roundtrip. reflexivity.
  - exists (ctr64 k iv m). unfold encrypt, decrypt. rewrite Hs. cbn [negb].
    destruct a; try discriminate Ha; unfold aes_ctr; rewrite ctr64_roundtrip; split; reflexivity.
Qed.

Theorem api_len a k iv m c :
  encrypt a k iv m = Ok c ->
  length c = if is_cbc a then 16 * (Nat.div (length m) 16 + 1) else length m.
Proof.
  unfold encrypt. destruct (sizes_ok a k iv); cbn [negb]; [|discriminate].
  destruct a; intros H; inversion H; subst c; cbn [is_cbc];
    first [apply cbc_len | apply ctr64_len].
Qed.

Theorem api_cbc_rejects a k iv ct :
  is_cbc a = true ->
  ct = [] \/ Nat.modulo (length ct) 16 <> 0 \/ bad_padding 16 (cbc_raw_dec k iv ct) ->
  decrypt a k iv ct = Err.
Proof.
  intros Ha H. destruct (sizes_ok a k iv) eqn:Hs.
  - rewrite decrypt_cbc_standard by assumption. rewrite cbc_rejects by exact H. reflexivity.
  - unfold decrypt. rewrite Hs. reflexivity.
Qed.

(* whatever CBC decryption returns is what a well-formed RFC 5652 padding encloses *)
Theorem api_cbc_accepts_only a k iv ct m :
  is_cbc a = true -> decrypt a k iv ct = Ok m ->
  ct <> [] /\ Nat.modulo (length ct) 16 = 0 /\
  exists n, 1 <= n <= 16 /\ cbc_raw_dec k iv ct = m ++ repeat (n2b (N.of_nat n)) n.
Proof.
  intros Ha H. destruct (sizes_ok a k iv) eqn:Hs.
  - rewrite decrypt_cbc_standard in H by assumption.
    destruct (cbc_decrypt k iv ct) as [m'|] eqn:E; [|discriminate H].
    inversion H; subst m'. apply cbc_accepts_only with (1 := E).
  - unfold decrypt in H. rewrite Hs in H. discriminate H.
Qed.

(* totality: never Panic; wrong sizes are Err *)
Theorem api_total a k iv m :
  encrypt a k iv m <> Panic /\ decrypt a k iv m <> Panic /\
  (sizes_ok a k iv = false -> encrypt a k iv m = Err /\ decrypt a k iv m = Err).
Proof.
  unfold encrypt, decrypt. destruct (sizes_ok a k iv); cbn [negb].
  - split; [destruct a; discriminate|]. split; [|discriminate].
    destruct a; try discriminate; rewrite decrypt_cbc_strict;
      destruct (cbc_decrypt k iv m); discriminate.
  - repeat split; discriminate.
Qed.

Theorem api_equals_standard a k iv m :
  sizes_ok a k iv = true ->
  if is_cbc a
  then encrypt a k iv m = Ok (cbc_encrypt k iv m) /\ decrypt a k iv m = of_option (cbc_decrypt k iv m)
  else ctr_in_domain iv m = true -> encrypt a k iv m = Ok (ctr k iv m) /\ decrypt a k iv m = Ok (ctr k iv m).
Proof.
  intros Hs. destruct (is_cbc a) eqn:Ha.
  - split; [apply encrypt_cbc_standard | apply decrypt_cbc_standard]; assumption.
  - intros Hd. split; [apply encrypt_ctr_standard | apply decrypt_ctr_standard]; assumption.
Qed.

(* ------------------------------------------------------------------ *)
(* Witnesses of the two defects of the unrepaired library.             *)
Definition w_key : bytes := hx "8899aabbccddeeff0011223344556677".
Definition w_iv : bytes := hx "a0a1a2a3a4a5a6a7a8a9aaabacadaeaf".
(* CBC encryption without padding of 32 bytes 0x20 *)
Definition w_ct : bytes := cbc_raw_enc w_key w_iv (repeat x20 32).

Lemma unrepaired_accepts_long_padding :
  decrypt_unrepaired AES128_CBC w_key w_iv w_ct = Ok [] /\
  bad_padding 16 (cbc_raw_dec w_key w_iv w_ct) /\
  decrypt AES128_CBC w_key w_iv w_ct = Err.
Proof.
  split; [vm_compute; reflexivity|]. split; [|vm_compute; reflexivity].
  apply unpad_gen_none_iff. vm_compute. reflexivity.
Qed.

Lemma unrepaired_ctr_panics :
  decrypt_unrepaired AES128_CTR [x00; x01; x02] w_iv [x00] = Panic /\
  decrypt AES128_CTR [x00; x01; x02] w_iv [x00] = Err.
Proof. split; vm_compute; reflexivity. Qed.
