(* Proofs/TemplateProofs.v — C19: template matching, extraction, self-match, criteria. *)
From BSV Require Import Base.Hex Gen.Opcodes_gen Model.Opcodes Model.Script Model.Asm Model.Template Model.Criteria
  Spec.ScriptTok Spec.AsmSpec Spec.TemplateSpec Proofs.ScriptProofs Proofs.StringLemmas Proofs.AsmProofs.
Open Scope list_scope.

Section WithDecoders.
  Variable is_sig : bytes -> bool.
  Variable is_pubkey : bytes -> bool.

  Local Notation token_matches := (token_matches is_sig is_pubkey).
  Local Notation match_loop := (match_loop is_sig is_pubkey).
  Local Notation match_impl := (match_impl is_sig is_pubkey).
  Local Notation is_match := (is_match is_sig is_pubkey).
  Local Notation satisfies := (satisfies is_sig is_pubkey).
  Local Notation template_matches := (template_matches is_sig is_pubkey).

  (* ================================================================ *)
  (* 1. one element *)
  Lemma len_ok_cmp k a n : len_ok k a n = true <-> cmp_holds k a n.
  Proof. destruct k; cbn [len_ok cmp_holds]; lia. Qed.

  Lemma token_matches_satisfies t b : token_matches t b = true <-> satisfies t b.
  Proof.
    destruct t as [tc|td|tc td| |len k| | |]; destruct b as [c|d|c d|c p q|d]; cbn [Template.token_matches TemplateSpec.satisfies push_data];
      try (split; [discriminate | intros H; try discriminate; try (destruct H as [x H]; try discriminate; destruct H; discriminate)]; fail).
    - rewrite N.eqb_eq. split; [intros ->; reflexivity | intros H; inv H; reflexivity].
    - rewrite bytes_eqb_eq. split; [intros ->; reflexivity | intros H; inv H; reflexivity].
    - rewrite andb_true_iff, N.eqb_eq, bytes_eqb_eq. split; [intros [-> ->]; reflexivity | intros H; inv H; auto].
    - split; eauto.
    - split; eauto.
    - rewrite len_ok_cmp. split; [intros H; eauto | intros [x [E H]]; inv E; exact H].
    - rewrite len_ok_cmp. split; [intros H; eauto | intros [x [E H]]; inv E; exact H].
    - split; [intros H; eauto | intros [x [E H]]; inv E; exact H].
    - split; [intros H; eauto | intros [x [E H]]; inv E; exact H].
    - rewrite Nat.eqb_eq. split; [intros H; eauto | intros [x [E H]]; inv E; exact H].
  Qed.

  Lemma token_extract_spec t b :
    token_matches t b = true ->
    token_extract t b = match kind_of t, push_data b with Some k, Some d => [(k, d)] | _, _ => [] end.
  Proof.
    destruct t; destruct b; cbn [Template.token_matches token_extract kind_of push_data]; intros H; try discriminate; reflexivity.
  Qed.

  (* ================================================================ *)
  (* 2. the loop *)
  Lemma match_loop_sound : forall ts s ms,
    length s = length ts -> match_loop ts s = Ok ms -> Forall2 satisfies ts s /\ ms = extraction ts s.
  Proof.
    induction ts as [|t ts IH]; intros s ms Hl H; destruct s as [|b s]; try discriminate.
    - cbn in H. inv H. split; [constructor | reflexivity].
    - cbn [Template.match_loop] in H. destruct (token_matches t b) eqn:E; [|discriminate].
      destruct (match_loop ts s) as [ms'| |] eqn:E'; cbn [bind] in H; try discriminate. inv H.
      cbn [length] in Hl. destruct (IH s ms' ltac:(lia) E') as [F ->].
      split; [constructor; [apply token_matches_satisfies; exact E | exact F]|].
      rewrite (token_extract_spec t b E). cbn [extraction].
      destruct (kind_of t); [destruct (push_data b)|]; reflexivity.
  Qed.

  Lemma match_loop_complete : forall ts s,
    Forall2 satisfies ts s -> match_loop ts s = Ok (extraction ts s).
  Proof.
    intros ts s F. induction F as [|t b ts s Hs F IH]; [reflexivity|].
    cbn [Template.match_loop]. apply token_matches_satisfies in Hs. rewrite Hs, IH. cbn [bind].
    rewrite (token_extract_spec t b Hs). cbn [extraction].
    destruct (kind_of t); [destruct (push_data b)|]; reflexivity.
  Qed.

  (* C19 (1) *)
  Lemma match_iff s ts : (exists ms, match_impl s ts = Ok ms) <-> template_matches ts s.
  Proof.
    unfold Template.match_impl, TemplateSpec.template_matches. destruct (Nat.eqb (length s) (length ts)) eqn:E; cbn [negb].
    - apply Nat.eqb_eq in E. split.
      + intros [ms H]. split; [exact E|]. exact (proj1 (match_loop_sound ts s ms E H)).
      + intros [_ F]. eexists. apply match_loop_complete. exact F.
    - apply Nat.eqb_neq in E. split; [intros [ms H]; discriminate | intros [H _]; congruence].
  Qed.

  (* C19 (2) *)
  Lemma extraction_spec s ts ms : match_impl s ts = Ok ms -> ms = extraction ts s.
  Proof.
    unfold Template.match_impl. destruct (Nat.eqb (length s) (length ts)) eqn:E; cbn [negb]; [|discriminate].
    apply Nat.eqb_eq in E. intros H. exact (proj2 (match_loop_sound ts s ms E H)).
  Qed.

  Lemma match_loop_no_panic : forall ts s, match_loop ts s <> Panic.
  Proof.
    induction ts as [|t ts IH]; intros s; destruct s as [|b s]; try discriminate.
    cbn [Template.match_loop]. destruct (token_matches t b); [|discriminate].
    specialize (IH s). destruct (match_loop ts s); cbn [bind]; congruence.
  Qed.
  Lemma match_no_panic s ts : match_impl s ts <> Panic.
  Proof. unfold Template.match_impl. destruct (negb _); [discriminate | apply match_loop_no_panic]. Qed.

  Lemma is_match_iff s ts : is_match s ts = true <-> template_matches ts s.
  Proof.
    rewrite <- match_iff. unfold Template.is_match. destruct (match_impl s ts) as [ms| |]; split; eauto; try discriminate;
      intros [x H]; discriminate.
  Qed.

  (* the decidable form used by the executable check is the same relation *)
  Lemma satisfies_b_iff t b : satisfies_b is_sig is_pubkey t b = true <-> satisfies t b.
  Proof.
    rewrite <- token_matches_satisfies.
    destruct t as [tc|td|tc td| |len k| | |]; destruct b as [c|d|c d|c p q|d];
      cbn [satisfies_b bit_eqb Template.token_matches push_data]; try tauto; try (split; discriminate).
    - rewrite !N.eqb_eq. split; congruence.
    - rewrite !bytes_eqb_eq. split; congruence.
    - rewrite !andb_true_iff, !N.eqb_eq, !bytes_eqb_eq. split; intros [-> ->]; auto.
  Qed.

  Lemma template_matches_b_iff ts s : template_matches_b is_sig is_pubkey ts s = true <-> template_matches ts s.
  Proof.
    unfold template_matches_b, TemplateSpec.template_matches. revert s.
    induction ts as [|t ts IH]; intros s; destruct s as [|b s]; cbn [forallb2 length].
    - split; [intros _; split; [reflexivity | constructor] | reflexivity].
    - split; [discriminate | intros [H _]; discriminate].
    - split; [discriminate | intros [H _]; discriminate].
    - rewrite andb_true_iff, IH, satisfies_b_iff. split.
      + intros [H1 [H2 H3]]. split; [lia | constructor; assumption].
      + intros [H1 H2]. inv H2. split; [assumption | split; [lia | assumption]].
  Qed.

  (* ================================================================ *)
  (* 3. criteria *)
  Lemma bounds_spec (c : criteria) (v : option N) :
    (negb (is_some (c_exact c) && negb (opt_eqb (c_exact c) v))
     && negb (is_some (c_min c) && opt_ltb v (c_min c))
     && negb (is_some (c_max c) && (negb (is_some v) || opt_ltb (c_max c) v))) = true
    <-> value_in_bounds c v.
  Proof.
    unfold value_in_bounds. destruct c as [t e mn mx]. cbn [c_exact c_min c_max].
    destruct e as [e|], mn as [mn|], mx as [mx|], v as [v|]; cbn [is_some opt_eqb opt_ltb negb andb orb];
      (split; [ intros H; repeat split; intros x Hx; try discriminate; inv Hx; try (eexists; split; [reflexivity|]); try (f_equal); lia
              | intros (H1 & H2 & H3);
                try (specialize (H1 _ eq_refl)); try (destruct (H2 _ eq_refl) as (x2 & E2 & L2)); try (destruct (H3 _ eq_refl) as (x3 & E3 & L3));
                try discriminate; try (inv H1); try (inv E2); try (inv E3); try lia; reflexivity ]).
  Qed.

  Lemma is_matching_output_iff o c :
    is_matching_output is_sig is_pubkey o c = true <-> output_selected is_sig is_pubkey c o.
  Proof.
    unfold is_matching_output, output_selected.
    rewrite <- (bounds_spec c (Some (o_value o))). cbn [is_some negb orb].
    destruct (c_template c) as [t|].
    - pose proof (is_match_iff (o_script o) t) as M.
      destruct (is_match (o_script o) t); cbn [negb].
      + split.
        * intros H. split; [intros t' E; inv E; apply M; reflexivity|].
          destruct (is_some (c_exact c) && negb (opt_eqb (c_exact c) (Some (o_value o)))); [discriminate|].
          destruct (is_some (c_min c) && opt_ltb (Some (o_value o)) (c_min c)); [discriminate|].
          destruct (is_some (c_max c) && opt_ltb (c_max c) (Some (o_value o))); [discriminate|]. reflexivity.
        * intros [_ H].
          destruct (is_some (c_exact c) && negb (opt_eqb (c_exact c) (Some (o_value o)))); [discriminate|].
          destruct (is_some (c_min c) && opt_ltb (Some (o_value o)) (c_min c)); [discriminate|].
          destruct (is_some (c_max c) && opt_ltb (c_max c) (Some (o_value o))); [discriminate|]. reflexivity.
      + split; [discriminate|]. intros [H _]. specialize (H t eq_refl). apply M in H. discriminate.
    - split.
      + intros H. split; [intros t' E; discriminate|].
        destruct (is_some (c_exact c) && negb (opt_eqb (c_exact c) (Some (o_value o)))); [discriminate|].
        destruct (is_some (c_min c) && opt_ltb (Some (o_value o)) (c_min c)); [discriminate|].
        destruct (is_some (c_max c) && opt_ltb (c_max c) (Some (o_value o))); [discriminate|]. reflexivity.
      + intros [_ H].
        destruct (is_some (c_exact c) && negb (opt_eqb (c_exact c) (Some (o_value o)))); [discriminate|].
        destruct (is_some (c_min c) && opt_ltb (Some (o_value o)) (c_min c)); [discriminate|].
        destruct (is_some (c_max c) && opt_ltb (c_max c) (Some (o_value o))); [discriminate|]. reflexivity.
  Qed.

  Lemma is_matching_input_iff i c :
    is_matching_input is_sig is_pubkey i c = true <-> input_selected is_sig is_pubkey c i.
  Proof.
    unfold is_matching_input, input_selected.
    rewrite <- (bounds_spec c (i_satoshis i)).
    set (B1 := is_some (c_exact c) && negb (opt_eqb (c_exact c) (i_satoshis i))).
    set (B2 := is_some (c_min c) && opt_ltb (i_satoshis i) (c_min c)).
    set (B3 := is_some (c_max c) && (negb (is_some (i_satoshis i)) || opt_ltb (c_max c) (i_satoshis i))).
    assert (Hb : (if B1 then false else if B2 then false else if B3 then false else true) = negb B1 && negb B2 && negb B3)
      by (destruct B1, B2, B3; reflexivity).
    destruct (c_template c) as [t|].
    - assert (M : (match finalised_script i with Ok s => is_match s t | _ => false end) = true
                  <-> exists s, input_script i s /\ template_matches t s).
      { unfold finalised_script, input_script. destruct (i_locking i) as [l|].
        - destruct (from_bytes (to_bytes (i_unlocking i) ++ to_bytes l)) as [s| |].
          + rewrite is_match_iff. split; [intros H; eauto | intros [s' [E H]]; inv E; exact H].
          + split; [discriminate | intros [s' [E _]]; discriminate].
          + split; [discriminate | intros [s' [E _]]; discriminate].
        - rewrite is_match_iff. split; [intros H; eauto | intros [s' [E H]]; subst; exact H]. }
      destruct (match finalised_script i with Ok s => is_match s t | _ => false end); cbn [negb].
      + rewrite Hb. split; [intros H; split; [intros t' E; inv E; apply M; reflexivity | exact H] | intros [_ H]; exact H].
      + split; [discriminate|]. intros [H _]. specialize (H t eq_refl). apply M in H. discriminate.
    - rewrite Hb. split; [intros H; split; [intros t' E; discriminate | exact H] | intros [_ H]; exact H].
  Qed.

  (* index selection *)
  Lemma indices_from_spec {A} (p : A -> bool) : forall l n k,
    In k (indices_from p n l) <-> n <= k /\ exists x, nth_error l (k - n) = Some x /\ p x = true.
  Proof.
    induction l as [|a l IH]; intros n k; cbn [indices_from].
    - split; [contradiction | intros [_ [x [H _]]]; destruct (k - n); discriminate].
    - assert (R : In k (indices_from p (S n) l) <-> S n <= k /\ exists x, nth_error (a :: l) (k - n) = Some x /\ p x = true).
      { rewrite IH. split.
        - intros [L [x [H P]]]. split; [exact L|]. exists x. split; [|exact P].
          replace (k - n) with (S (k - S n)) by lia. exact H.
        - intros [L [x [H P]]]. split; [exact L|]. exists x. split; [|exact P].
          replace (k - n) with (S (k - S n)) in H by lia. exact H. }
      destruct (p a) eqn:Pa.
      + cbn [In]. rewrite R. split.
        * intros [<- | [L H]]; [split; [lia|]; exists a; rewrite Nat.sub_diag; auto | split; [lia | exact H]].
        * intros [L [x [H P]]]. destruct (Nat.eq_dec n k) as [->|Hn]; [left; reflexivity|].
          right. split; [lia|]. eauto.
      + rewrite R. split.
        * intros [L H]; split; [lia | exact H].
        * intros [L [x [H P]]]. destruct (Nat.eq_dec n k) as [->|Hn].
          -- rewrite Nat.sub_diag in H. cbn in H. inv H. congruence.
          -- split; [lia|]. eauto.
  Qed.

  Lemma indices_from_ge {A} (p : A -> bool) l n k : In k (indices_from p n l) -> n <= k.
  Proof. intros H. apply indices_from_spec in H. tauto. Qed.

  Lemma indices_from_ascending {A} (p : A -> bool) : forall l n, ascending (indices_from p n l).
  Proof.
    induction l as [|a l IH]; intros n; cbn [indices_from]; [exact I|].
    destruct (p a); [|apply IH].
    specialize (IH (S n)). destruct (indices_from p (S n) l) as [|b r] eqn:E; [exact I|].
    split; [|exact IH]. assert (H : In b (indices_from p (S n) l)) by (rewrite E; left; reflexivity).
    apply indices_from_ge in H. lia.
  Qed.

  Lemma first_from_hd {A} (p : A -> bool) : forall l n, first_from p n l = hd_error (indices_from p n l).
  Proof. induction l as [|a l IH]; intros n; cbn [first_from indices_from]; [reflexivity|]. destruct (p a); [reflexivity | apply IH]. Qed.

  Lemma selects_indices {A} (p : A -> bool) (sel : A -> Prop) l :
    (forall x, p x = true <-> sel x) -> selects sel l (indices_from p 0 l).
  Proof.
    intros H. split; [apply indices_from_ascending|]. intros k. rewrite indices_from_spec, Nat.sub_0_r.
    split.
    - intros [_ [x [E P]]]. exists x. split; [exact E | apply H; exact P].
    - intros [x [E P]]. split; [lia|]. exists x. split; [exact E | apply H; exact P].
  Qed.

  (* C19 (4) *)
  Lemma match_outputs_spec outs c :
    selects (output_selected is_sig is_pubkey c) outs (match_outputs is_sig is_pubkey outs c) /\
    match_output is_sig is_pubkey outs c = hd_error (match_outputs is_sig is_pubkey outs c).
  Proof.
    split; [apply selects_indices; intros o; apply is_matching_output_iff | apply first_from_hd].
  Qed.

  Lemma match_inputs_spec ins c :
    selects (input_selected is_sig is_pubkey c) ins (match_inputs is_sig is_pubkey ins c) /\
    match_input is_sig is_pubkey ins c = hd_error (match_inputs is_sig is_pubkey ins c).
  Proof.
    split; [apply selects_indices; intros o; apply is_matching_input_iff | apply first_from_hd].
  Qed.
End WithDecoders.

(* ================================================================== *)
(* 4. str::split(' ') on a space-joined list of space-free tokens *)
Definition nsp (c : ascii) : bool := negb (Ascii.eqb c " ").

Lemma split_space_ne s : split_space s <> [].
Proof. destruct s as [|c r]; cbn [split_space]; [discriminate|]. destruct (Ascii.eqb c " "); [discriminate|]. destruct (split_space r); discriminate. Qed.

Lemma split_space_app t y :
  all_chars nsp t = true ->
  split_space (t +++ y) = match split_space y with h :: tl => (t +++ h) :: tl | [] => [t] end.
Proof.
  induction t as [|c t IH]; cbn [String.append all_chars]; intros H.
  - destruct (split_space y) eqn:E; [exfalso; exact (split_space_ne y E) | reflexivity].
  - apply andb_true_iff in H. destruct H as [Hc Ht]. cbn [split_space].
    unfold nsp in Hc. apply negb_true_iff in Hc. rewrite Hc, (IH Ht).
    destruct (split_space y) eqn:E; [exfalso; exact (split_space_ne y E) | reflexivity].
Qed.

Lemma split_space_join toks :
  toks <> [] -> forallb (all_chars nsp) toks = true -> split_space (join " " toks) = toks.
Proof.
  induction toks as [|t r IH]; [congruence|]. intros _. cbn [forallb]. intros H. apply andb_true_iff in H. destruct H as [Ht Hr].
  destruct r as [|t' r'].
  - cbn [join]. rewrite <- (sapp_nil_r t) at 1. rewrite (split_space_app t "" Ht). cbn [split_space]. rewrite sapp_nil_r. reflexivity.
  - rewrite join_cons by discriminate. rewrite (split_space_app t _ Ht).
    change (" " +++ join " " (t' :: r')) with (String " " (join " " (t' :: r'))). cbn [split_space].
    rewrite (Ascii.eqb_refl " "). rewrite IH by (try discriminate; exact Hr). rewrite sapp_nil_r. reflexivity.
Qed.

Lemma nws_nsp c : nws c = true -> nsp c = true.
Proof.
  unfold nws, nsp. destruct (Ascii.eqb_spec c " ") as [->|]; [cbn; discriminate | reflexivity].
Qed.

Lemma all_chars_impl (P Q : ascii -> bool) s : (forall c, P c = true -> Q c = true) -> all_chars P s = true -> all_chars Q s = true.
Proof.
  intros H. induction s as [|c r IH]; cbn [all_chars]; [reflexivity|].
  rewrite !andb_true_iff. intros [A B]. split; auto.
Qed.

(* ================================================================== *)
(* 5. the template derived from a script *)
Definition tok_of (b : bit) : mtoken :=
  match b with
  | BOp c => MOp c
  | BPush d => MPush d
  | BPushData c d => MPushData c d
  | _ => MAnyData
  end.

Lemma names_long : forallb (fun p => Nat.leb 3 (slength (fst p))) opcode_table = true.
Proof. vm_compute. reflexivity. Qed.

Lemma op_text_data : op_text OP_DATA = "OP_DATA".
Proof. reflexivity. Qed.

Lemma hex_not_opdata d : starts_with "OP_DATA" (hex_of_bytes d) = false.
Proof.
  destruct d as [|b r]; [reflexivity|]. cbn [hex_of_bytes]. unfold starts_with. cbn [strip_prefix].
  destruct (nib_char_cases (b2n b / 16)) as (k & L & ->).
  assert (E : Ascii.eqb "O" (nib_char k) = false) by (revert k L; apply forall_lt16; reflexivity).
  rewrite E. reflexivity.
Qed.

Lemma map_match_token_hex d :
  2 <= length d ->
  map_match_token (hex_of_bytes d) = Ok (push_token d).
Proof.
  intros H. unfold map_match_token.
  replace (Nat.ltb (slength (hex_of_bytes d)) 3) with false
    by (symmetry; apply Nat.ltb_ge; rewrite hex_of_bytes_length; lia).
  rewrite name_hex_none, op_text_data, hex_not_opdata, bytes_of_hex_of_bytes. reflexivity.
Qed.

Lemma map_match_token_render b :
  leaf_good b = true -> short_numeric_push b = false -> pseudo_opcode b = false ->
  map_match_token (bit_asm false b) = Ok (tok_of b).
Proof.
  intros Hg Hs Hp. unfold leaf_good in Hg. split_andb.
  destruct b as [c|d|c d|c p q|d]; try discriminate.
  - cbn [bit_asm tok_of]. destruct (c =? OP_0)%N eqn:Hz.
    + apply N.eqb_eq in Hz. subst c. reflexivity.
    + cbn [leaf_wf] in *. match goal with H : is_opcode c = true |- _ => destruct (is_opcode_name c H) as [n Hn] end.
      unfold op_text. rewrite Hn. apply opcode_name_in in Hn.
      pose proof names_long as T0. rewrite forallb_forall in T0. specialize (T0 _ Hn). cbn [fst] in T0. apply Nat.leb_le in T0.
      pose proof names_lookup as T2. rewrite forallb_forall in T2. specialize (T2 _ Hn). cbn [fst snd] in T2.
      unfold map_match_token.
      replace (Nat.ltb (slength n) 3) with false by (symmetry; apply Nat.ltb_ge; lia).
      destruct (opcode_of_name n) as [v|]; [|discriminate]. apply N.eqb_eq in T2. subst v.
      cbn [pseudo_opcode] in Hp. unfold OP_SIG, OP_PUBKEY, OP_PUBKEYHASH, OP_DATA.
      replace (c =? 252)%N with false by lia. replace (c =? 254)%N with false by lia.
      replace (c =? 253)%N with false by lia. replace (c =? 251)%N with false by lia. reflexivity.
  - cbn [bit_asm tok_of].
    match goal with H : minimal_leaf (BPush d) = true |- _ => cbn [minimal_leaf] in H; rename H into Hm end.
    destruct d as [|x [|y d']].
    + cbn in Hm. discriminate.
    + clear - Hs. destruct x; vm_compute in Hs; try discriminate; vm_compute; reflexivity.
    + rewrite map_match_token_hex by (cbn [length]; lia).
      unfold push_token, get_pushdata_opcode. replace (N.of_nat (length (x :: y :: d')) <=? 75)%N with true by lia. reflexivity.
  - cbn [bit_asm tok_of].
    match goal with H : minimal_leaf (BPushData c d) = true |- _ => cbn [minimal_leaf] in H; rename H into Hm end.
    rewrite map_match_token_hex by lia.
    unfold push_token, get_pushdata_opcode, OP_PUSHDATA1, OP_PUSHDATA2, OP_PUSHDATA4.
    set (n := N.of_nat (length d)) in *.
    destruct (n <=? 75)%N eqn:E1; [lia|].
    destruct (n <=? 255)%N eqn:E2; [replace c with 76%N by lia; reflexivity|].
    destruct (n <=? 65535)%N eqn:E3; [replace c with 77%N by lia; reflexivity|].
    replace c with 78%N by lia; reflexivity.
Qed.

Definition self_ok (b : bit) : bool := leaf_good b && negb (short_numeric_push b) && negb (pseudo_opcode b).

Lemma map_match_tokens_render l :
  forallb self_ok l = true -> map_match_tokens (map (bit_asm false) l) = Ok (map tok_of l).
Proof.
  induction l as [|b l IH]; [reflexivity|]. cbn [forallb map map_match_tokens]. intros H. apply andb_true_iff in H. destruct H as [Hb Hl].
  unfold self_ok in Hb. split_andb.
  rewrite (map_match_token_render b) by (try assumption; apply negb_true_iff; assumption).
  cbn [bind]. rewrite (IH Hl). reflexivity.
Qed.

Lemma match_loop_self is_sig is_pubkey l :
  forallb leaf_good l = true -> match_loop is_sig is_pubkey (map tok_of l) l = Ok [].
Proof.
  induction l as [|b l IH]; [reflexivity|]. cbn [forallb map]. intros H. apply andb_true_iff in H. destruct H as [Hb Hl].
  cbn [match_loop]. unfold leaf_good in Hb. split_andb.
  destruct b as [c|d|c d|c p q|d]; try discriminate; cbn [tok_of token_matches token_extract];
    rewrite ?N.eqb_refl, ?bytes_eqb_refl; cbn [andb]; rewrite (IH Hl); reflexivity.
Qed.

Lemma leaf_all_leaves P b : is_leaf b = true -> all_leaves P b = P b.
Proof. destruct b; cbn; intros H; try discriminate; reflexivity. Qed.

Lemma short_not_numeric b : short_numeric_push b = false -> not_numeric_push b = true.
Proof.
  destruct b as [c|d|c d|c p q|d]; try reflexivity.
  destruct d as [|x [|y d']]; try reflexivity. cbn [short_numeric_push not_numeric_push numeric_looking].
  intros H. apply negb_true_iff. lia.
Qed.

(* C19 (3) *)
Lemma self_match is_sig is_pubkey s :
  no_conditionals s = true -> wf_bits s = true -> no_coinbase s = true -> minimal_pushes s = true ->
  self_match_class s = false ->
  exists ts, template_from_script s = Ok ts /\ match_impl is_sig is_pubkey s ts = Ok [].
Proof.
  intros Hn Hw Hc Hm Hk.
  assert (Hne : s <> []) by (destruct s; [discriminate | discriminate]).
  assert (Hk' : existsb short_numeric_push s = false /\ existsb pseudo_opcode s = false).
  { destruct s; [congruence|]. cbn [self_match_class] in Hk. apply orb_false_iff in Hk. exact Hk. }
  destruct Hk' as [K1 K2].
  pose proof (wf_leaves s Hw) as Hw'. unfold no_coinbase, minimal_pushes, no_conditionals in *.
  assert (Hok : forallb self_ok s = true).
  { rewrite forallb_forall in *. intros b Hb.
    pose proof (Hn b Hb) as L.
    pose proof (Hw' b Hb) as A1. rewrite (leaf_all_leaves _ b L) in A1.
    pose proof (Hc b Hb) as A2. rewrite (leaf_all_leaves _ b L) in A2.
    pose proof (Hm b Hb) as A3. rewrite (leaf_all_leaves _ b L) in A3.
    assert (A4 : short_numeric_push b = false).
    { destruct (short_numeric_push b) eqn:E; [|reflexivity]. exfalso.
      assert (X : existsb short_numeric_push s = true) by (apply existsb_exists; eauto). congruence. }
    assert (A5 : pseudo_opcode b = false).
    { destruct (pseudo_opcode b) eqn:E; [|reflexivity]. exfalso.
      assert (X : existsb pseudo_opcode s = true) by (apply existsb_exists; eauto). congruence. }
    unfold self_ok, leaf_good. rewrite A1, A2, A3, A4, A5, (short_not_numeric b A4). reflexivity. }
  assert (Hgood : forallb leaf_good s = true).
  { eapply forallb_impl; [|exact Hok]. intros b H. unfold self_ok in H. apply andb_true_iff in H. destruct H as [H _].
    apply andb_true_iff in H. tauto. }
  exists (map tok_of s). split.
  - unfold template_from_script, template_from_asm, to_asm.
    rewrite split_space_join.
    + apply map_match_tokens_render. exact Hok.
    + apply map_ne. exact Hne.
    + rewrite forallb_map. eapply forallb_impl; [|exact Hgood]. intros b Hb.
      pose proof (render_clean b Hb) as C. unfold clean in C. apply andb_true_iff in C. destruct C as [_ C].
      eapply all_chars_impl; [apply nws_nsp | exact C].
  - unfold match_impl. rewrite map_length, Nat.eqb_refl. cbn [negb]. apply match_loop_self. exact Hgood.
Qed.

(* C19 (5): each class is a genuine failure, whatever the decoders are *)
Lemma self_match_refuted is_sig is_pubkey :
  (* (i) one-byte push 0x05: template [OP_5] *)
  (from_bytes [x01; x05] = Ok [BPush [x05]] /\ template_from_script [BPush [x05]] = Ok [MOp 85] /\
   match_impl is_sig is_pubkey [BPush [x05]] [MOp 85] = Err) /\
  (* (ii) opcode 0xfd: template [PublicKeyHash] *)
  (from_bytes [xfd] = Ok [BOp 253] /\ template_from_script [BOp 253] = Ok [MPublicKeyHash] /\
   match_impl is_sig is_pubkey [BOp 253] [MPublicKeyHash] = Err) /\
  (* (iii) the empty script: template [Push []] *)
  (from_bytes [] = Ok [] /\ template_from_script [] = Ok [MPush []] /\ match_impl is_sig is_pubkey [] [MPush []] = Err).
Proof. repeat split; reflexivity. Qed.

(* ================================================================== *)
(* 6. the library reads every template of the documented grammar as documented
      (outside the class of the tokens "00".."09") *)
Definition is_digit (c : ascii) : bool := match digit_val c with Some _ => true | None => false end.

Lemma strip_prefix_spec p : forall s r, strip_prefix p s = Some r -> s = p +++ r.
Proof.
  induction p as [|a p IH]; intros s r H; cbn [strip_prefix] in H; [inv H; reflexivity|].
  destruct s as [|b s]; [discriminate|]. destruct (Ascii.eqb_spec a b) as [->|]; [|discriminate].
  cbn [String.append]. f_equal. apply IH. exact H.
Qed.

Lemma dec_acc_digits : forall n acc v, dec_acc n acc = Some v -> all_chars is_digit n = true.
Proof.
  induction n as [|c n IH]; intros acc v H; [reflexivity|]. cbn [dec_acc] in H. cbn [all_chars]. unfold is_digit at 1.
  destruct (digit_val c); [|discriminate]. cbn [andb]. eapply IH. exact H.
Qed.
Lemma N_of_dec_digits n v : N_of_dec n = Some v -> n <> "" /\ all_chars is_digit n = true.
Proof.
  unfold N_of_dec. destruct n as [|c n]; [discriminate|]. intros H. split; [discriminate|]. eapply dec_acc_digits. exact H.
Qed.

(* the first character of the pattern does not occur: no match *)
Lemma find_after_absent a p : forall s, all_chars (fun c => negb (Ascii.eqb a c)) s = true -> find_after (String a p) s = None.
Proof.
  induction s as [|b s IH]; [reflexivity|]. cbn [all_chars]. intros H. apply andb_true_iff in H. destruct H as [Hb Hs].
  apply negb_true_iff in Hb. cbn [find_after strip_prefix]. rewrite Hb. exact (IH Hs).
Qed.

Lemma digit_not c a : is_digit c = true -> (a = ">" \/ a = "<" \/ a = "=" \/ a = "+")%char -> Ascii.eqb a c = false.
Proof.
  intros H Ha. destruct (Ascii.eqb_spec a c) as [<-|]; [|reflexivity].
  destruct Ha as [-> | [-> | [-> | ->]]]; vm_compute in H; discriminate.
Qed.

Lemma digits_absent a n : all_chars is_digit n = true -> (a = ">" \/ a = "<" \/ a = "=" \/ a = "+")%char ->
  all_chars (fun c => negb (Ascii.eqb a c)) n = true.
Proof. intros H Ha. eapply all_chars_impl; [|exact H]. intros c Hc. cbn beta. rewrite (digit_not c a Hc Ha). reflexivity. Qed.

Lemma parse_uint_digits max n v : N_of_dec n = Some v -> (v <=? max)%N = true -> parse_uint max n = Some v.
Proof.
  intros H Hv. destruct (N_of_dec_digits n v H) as [Hne Hd]. unfold parse_uint.
  destruct n as [|c n']; [congruence|].
  cbn [all_chars] in Hd. apply andb_true_iff in Hd. destruct Hd as [Hc _].
  assert (Hp : Ascii.eqb "+" c = false) by (apply digit_not; auto).
  assert (E : match String c n' with String "+" r => r | _ => String c n' end = String c n').
  { destruct c as [[] [] [] [] [] [] [] []]; try reflexivity. vm_compute in Hp. discriminate. }
  rewrite E, H, Hv. reflexivity.
Qed.

Lemma find_after_step a p b s :
  find_after (String a p) (String b s) =
    if Ascii.eqb a b then match strip_prefix p s with Some r => Some r | None => find_after (String a p) s end
    else find_after (String a p) s.
Proof. cbn [find_after strip_prefix]. destruct (Ascii.eqb a b); reflexivity. Qed.

Lemma find_after_app_absent a p s1 s2 :
  all_chars (fun c => negb (Ascii.eqb a c)) s1 = true -> find_after (String a p) (s1 +++ s2) = find_after (String a p) s2.
Proof.
  induction s1 as [|b s1 IH]; [reflexivity|]. cbn [all_chars String.append]. intros H. apply andb_true_iff in H. destruct H as [Hb Hs].
  apply negb_true_iff in Hb. rewrite find_after_step, Hb. exact (IH Hs).
Qed.

Lemma strip_eq_digits n : all_chars is_digit n = true -> strip_prefix "=" n = None.
Proof.
  destruct n as [|c n]; [reflexivity|]. cbn [all_chars strip_prefix]. intros H. apply andb_true_iff in H. destruct H as [H _].
  rewrite (digit_not c "=" H) by auto. reflexivity.
Qed.

Lemma data_token_spec r k n v :
  cmp_of_text r = Some (k, n) -> N_of_dec n = Some v -> (v <=? usize_max)%N = true ->
  data_token ("OP_DATA" +++ r) = Some (Ok (MData v k)).
Proof.
  intros Hc Hn Hv. destruct (N_of_dec_digits n v Hn) as [Hne Hd].
  pose proof (parse_uint_digits usize_max n v Hn Hv) as Hp.
  pose proof (find_after_absent ">" "=" n (digits_absent ">" n Hd ltac:(auto))) as A1.
  pose proof (find_after_absent "<" "=" n (digits_absent "<" n Hd ltac:(auto))) as A2.
  pose proof (find_after_absent "=" "" n (digits_absent "=" n Hd ltac:(auto))) as A3.
  pose proof (find_after_absent ">" "" n (digits_absent ">" n Hd ltac:(auto))) as A4.
  pose proof (find_after_absent "<" "" n (digits_absent "<" n Hd ltac:(auto))) as A5.
  pose proof (strip_eq_digits n Hd) as S0.
  assert (Pre : forall a p, (a = ">" \/ a = "<" \/ a = "=")%char ->
                            find_after (String a p) ("OP_DATA" +++ r) = find_after (String a p) r).
  { intros a p [-> | [-> | ->]]; apply find_after_app_absent; reflexivity. }
  unfold data_token. cbv beta zeta.
  rewrite !Pre by auto. clear Pre.
  assert (Q1 : Ascii.eqb ">" "<" = false) by reflexivity. assert (Q2 : Ascii.eqb ">" "=" = false) by reflexivity.
  assert (Q3 : Ascii.eqb "<" ">" = false) by reflexivity. assert (Q4 : Ascii.eqb "<" "=" = false) by reflexivity.
  assert (Q5 : Ascii.eqb "=" ">" = false) by reflexivity. assert (Q6 : Ascii.eqb "=" "<" = false) by reflexivity.
  assert (SP : forall x, strip_prefix "" x = Some x) by reflexivity.
  assert (SE : forall x, strip_prefix "=" (String "=" x) = Some x) by reflexivity.
  destruct r as [|c1 r1]; [discriminate|].
  unfold cmp_of_text in Hc.
  destruct (Ascii.eqb_spec c1 ">") as [->|N1].
  - destruct r1 as [|c2 r2]; [inv Hc; congruence|].
    destruct (Ascii.eqb_spec c2 "=") as [->|N2].
    + inv Hc. rewrite !find_after_step, !Ascii.eqb_refl, SE, Hp. reflexivity.
    + assert (Hc' : Some (CGreaterThan, String c2 r2) = Some (k, n)).
      { destruct c2 as [[] [] [] [] [] [] [] []]; try exact Hc. congruence. }
      injection Hc' as <- Hn'. rewrite Hn'.
      rewrite !find_after_step, ?Ascii.eqb_refl, ?Q1, ?Q2, ?Q3, ?Q4, ?Q5, ?Q6, ?S0, ?SP, ?A1, ?A2, ?A3, Hp. reflexivity.
  - destruct (Ascii.eqb_spec c1 "<") as [->|N3].
    + destruct r1 as [|c2 r2]; [inv Hc; congruence|].
      destruct (Ascii.eqb_spec c2 "=") as [->|N2].
      * inv Hc. rewrite !find_after_step, ?Ascii.eqb_refl, ?Q1, ?Q2, ?Q3, ?Q4, ?Q5, ?Q6, ?SE, ?A1, Hp. reflexivity.
      * assert (Hc' : Some (CLessThan, String c2 r2) = Some (k, n)).
        { destruct c2 as [[] [] [] [] [] [] [] []]; try exact Hc. congruence. }
        injection Hc' as <- Hn'. rewrite Hn'.
        rewrite !find_after_step, ?Ascii.eqb_refl, ?Q1, ?Q2, ?Q3, ?Q4, ?Q5, ?Q6, ?S0, ?SP, ?A1, ?A2, ?A3, ?A4, Hp. reflexivity.
    + destruct (Ascii.eqb_spec c1 "=") as [->|N4].
      * inv Hc. rewrite !find_after_step, ?Ascii.eqb_refl, ?Q1, ?Q2, ?Q3, ?Q4, ?Q5, ?Q6, ?SP, ?A1, ?A2, Hp. reflexivity.
      * exfalso. destruct c1 as [[] [] [] [] [] [] [] []]; try discriminate; congruence.
Qed.

Lemma push_token_spec d :
  push_token d = let c := push_class (N.of_nat (length d)) in if (c <=? 75)%N then MPush d else MPushData c d.
Proof.
  unfold push_token, get_pushdata_opcode, push_class, minimal_prefix, OP_PUSHDATA1, OP_PUSHDATA2, OP_PUSHDATA4.
  set (n := N.of_nat (length d)). cbv zeta.
  destruct (n <=? 75)%N eqn:E1.
  - cbn [b2n]. rewrite b2n_n2b by lia. rewrite E1. reflexivity.
  - destruct (n <=? 255)%N; [reflexivity|]. destruct (n <=? 65535)%N; reflexivity.
Qed.

Lemma digit_val_inv c x : digit_val c = Some x -> c = ascii_of_N (48 + x) /\ (x <= 9)%N.
Proof.
  unfold digit_val. destruct ((48 <=? N_of_ascii c)%N && (N_of_ascii c <=? 57)%N) eqn:E; [|discriminate].
  intros H. inv H. split; [|lia].
  replace (48 + (N_of_ascii c - 48))%N with (N_of_ascii c) by lia. symmetry. apply ascii_N_embedding.
Qed.

(* a two-character hex token that is neither "0d" nor an alias is not read as a number <= 16 *)
Lemma short_hex_not_numeric u d :
  Nat.ltb (slength u) 3 = true -> bytes_of_hex u = Some d -> u <> "" ->
  dec_alias u = None -> short_numeric_token u = false ->
  match parse_uint u8_max u with Some n => (n =? 0)%N = false /\ (n <=? 16)%N = false | None => True end.
Proof.
  intros Hl Hh Hne Ha Hs.
  destruct u as [|a [|b [|c u']]]; [congruence | discriminate | | cbn in Hl; discriminate].
  unfold parse_uint.
  destruct (Ascii.eqb_spec a "+") as [->|Np].
  - cbn in Hh. discriminate.
  - assert (E : match String a (String b "") with String "+" r => r | _ => String a (String b "") end = String a (String b "")).
    { destruct a as [[] [] [] [] [] [] [] []]; try reflexivity. congruence. }
    rewrite E. unfold N_of_dec. cbn [dec_acc].
    destruct (digit_val a) as [x|] eqn:Da; [|exact I].
    destruct (digit_val b) as [y|] eqn:Db; [|exact I].
    destruct (digit_val_inv a x Da) as [-> Lx]. destruct (digit_val_inv b y Db) as [-> Ly].
    replace (10 * (10 * 0 + x) + y)%N with (10 * x + y)%N by lia.
    destruct (10 * x + y <=? u8_max)%N; [|exact I].
    destruct (10 * x + y <=? 16)%N eqn:E16; [exfalso | split; lia].
    assert (x = 0 \/ x = 1)%N as [-> | ->] by lia.
    + cbn [short_numeric_token] in Hs. change (ascii_of_N (48 + 0)) with "0"%char in Hs. rewrite Db in Hs. discriminate.
    + assert (y = 0 \/ y = 1 \/ y = 2 \/ y = 3 \/ y = 4 \/ y = 5 \/ y = 6)%N as C by lia.
      repeat (destruct C as [->|C]; [vm_compute in Ha; discriminate|]). subst y. vm_compute in Ha. discriminate.
Qed.

Lemma map_match_token_spec u t :
  spec_mtoken u = Some t -> short_numeric_token u = false -> map_match_token u = Ok t.
Proof.
  unfold spec_mtoken. intros H Hs.
  destruct (dec_alias u) as [c|] eqn:D.
  - (* alias *)
    inv H. unfold dec_alias in D.
    destruct (Nat.leb (slength u) 2); [|discriminate].
    destruct (N_of_dec u) as [k|]; [|discriminate].
    destruct (k <=? 16)%N eqn:K; [|discriminate].
    destruct (String.eqb (dec_of_N k) u) eqn:S; [|discriminate].
    apply String.eqb_eq in S. subst u.
    assert (k = 0 \/ k = 1 \/ k = 2 \/ k = 3 \/ k = 4 \/ k = 5 \/ k = 6 \/ k = 7 \/ k = 8 \/ k = 9 \/ k = 10 \/
            k = 11 \/ k = 12 \/ k = 13 \/ k = 14 \/ k = 15 \/ k = 16)%N as C by lia.
    repeat (destruct C as [->|C]; [inv D; reflexivity|]). subst k. inv D. reflexivity.
  - destruct (opcode_of_name u) as [c|] eqn:E.
    + (* opcode name *)
      inv H. pose proof (lookup_val_in _ _ _ E) as Hin.
      pose proof names_long as T0. rewrite forallb_forall in T0. specialize (T0 _ Hin). cbn [fst] in T0. apply Nat.leb_le in T0.
      unfold map_match_token. replace (Nat.ltb (slength u) 3) with false by (symmetry; apply Nat.ltb_ge; lia).
      rewrite E. unfold OP_SIG, OP_PUBKEY, OP_PUBKEYHASH, OP_DATA.
      destruct (c =? 251)%N eqn:E1, (c =? 252)%N eqn:E2, (c =? 253)%N eqn:E3, (c =? 254)%N eqn:E4; try lia; reflexivity.
    + destruct (strip_prefix "OP_DATA" u) as [r|] eqn:P.
      * (* OP_DATA<op><len> *)
        destruct (cmp_of_text r) as [[k n]|] eqn:C; [|discriminate].
        destruct (N_of_dec n) as [v|] eqn:Nn; [|discriminate].
        destruct (v <=? 18446744073709551615)%N eqn:Hv; [|discriminate]. inv H.
        pose proof (strip_prefix_spec _ _ _ P) as ->.
        unfold map_match_token.
        replace (Nat.ltb (slength ("OP_DATA" +++ r)) 3) with false by reflexivity.
        rewrite E, op_text_data. unfold starts_with. rewrite P.
        rewrite (data_token_spec r k n v C Nn Hv). reflexivity.
      * (* hex data *)
        assert (Hne : u <> "") by (intros ->; discriminate).
        assert (H' : match bytes_of_hex u with
                     | Some d => Some (let c := push_class (N.of_nat (length d)) in if (c <=? 75)%N then MPush d else MPushData c d)
                     | None => None end = Some t) by (destruct u; [congruence | exact H]).
        clear H. destruct (bytes_of_hex u) as [d|] eqn:Hh; [|discriminate]. inv H'.
        rewrite <- push_token_spec.
        unfold map_match_token. cbv zeta. rewrite E, op_text_data. unfold starts_with. rewrite P, Hh.
        destruct (Nat.ltb (slength u) 3) eqn:L; [|reflexivity].
        pose proof (short_hex_not_numeric u d L Hh Hne D Hs) as Q.
        destruct (parse_uint u8_max u) as [n|]; [|reflexivity]. destruct Q as [Q1 Q2]. rewrite Q1, Q2. reflexivity.
Qed.

Lemma map_match_tokens_spec l ts :
  spec_mtokens l = Some ts -> existsb short_numeric_token l = false -> map_match_tokens l = Ok ts.
Proof.
  revert ts. induction l as [|u l IH]; intros ts H Hs; [inv H; reflexivity|].
  cbn [spec_mtokens] in H. cbn [existsb] in Hs. apply orb_false_iff in Hs. destruct Hs as [Hu Hl].
  destruct (spec_mtoken u) as [t|] eqn:E; [|discriminate].
  destruct (spec_mtokens l) as [ts'|] eqn:E'; [|discriminate]. inv H.
  cbn [map_match_tokens]. rewrite (map_match_token_spec u t E Hu). cbn [bind]. rewrite (IH ts' eq_refl Hl). reflexivity.
Qed.

Lemma template_grammar text ts :
  spec_template text = Some ts -> existsb short_numeric_token (split_space text) = false ->
  template_from_asm text = Ok ts.
Proof. unfold spec_template, template_from_asm. apply map_match_tokens_spec. Qed.
