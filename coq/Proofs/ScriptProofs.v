(* Proofs/ScriptProofs.v — C02: tokenizer, nesting and serialisation lemmas. *)
From BSV Require Import Base.Hex Model.Opcodes Model.Script Spec.ScriptTok.

(* ------------------------------------------------------------------ *)
(* induction principle for the nested inductive *)
Section BitInd.
  Variable P : bit -> Prop.
  Variable Q : list bit -> Prop.
  Hypothesis HOp : forall c, P (BOp c).
  Hypothesis HPush : forall d, P (BPush d).
  Hypothesis HPushData : forall c d, P (BPushData c d).
  Hypothesis HCoinbase : forall d, P (BCoinbase d).
  Hypothesis HIfN : forall c p, Q p -> P (BIf c p None).
  Hypothesis HIfS : forall c p q, Q p -> Q q -> P (BIf c p (Some q)).
  Hypothesis HNil : Q [].
  Hypothesis HCons : forall b l, P b -> Q l -> Q (b :: l).

  Fixpoint bit_ind' (b : bit) : P b :=
    let fix bits_ind (l : list bit) : Q l :=
      match l with [] => HNil | x :: r => HCons x r (bit_ind' x) (bits_ind r) end in
    match b with
    | BOp c => HOp c
    | BPush d => HPush d
    | BPushData c d => HPushData c d
    | BCoinbase d => HCoinbase d
    | BIf c p None => HIfN c p (bits_ind p)
    | BIf c p (Some q) => HIfS c p q (bits_ind p) (bits_ind q)
    end.
  Fixpoint bits_ind' (l : list bit) : Q l :=
    match l with [] => HNil | x :: r => HCons x r (bit_ind' x) (bits_ind' r) end.
End BitInd.

(* ------------------------------------------------------------------ *)
(* flattening nested bits to flat bits / tokens *)
Fixpoint flat (b : bit) : list bit :=
  let fix fl (l : list bit) : list bit := match l with [] => [] | x :: r => flat x ++ fl r end in
  match b with
  | BIf c p q =>
      BOp c :: fl p ++ match q with None => [] | Some q' => BOp OP_ELSE :: fl q' end ++ [BOp OP_ENDIF]
  | o => [o]
  end.
Fixpoint flats (l : list bit) : list bit := match l with [] => [] | x :: r => flat x ++ flats r end.

Lemma flat_if c p q :
  flat (BIf c p q) = BOp c :: flats p ++ match q with None => [] | Some q' => BOp OP_ELSE :: flats q' end ++ [BOp OP_ENDIF].
Proof. reflexivity. Qed.

Definition tok_of_bit (b : bit) : tok :=
  match b with
  | BOp c => TOp c
  | BPush d => TPush (N.of_nat (length d)) d
  | BPushData c d => TPush c d
  | BIf c _ _ => TOp c          (* not produced for flat bits *)
  | BCoinbase d => TPush 0 d    (* not produced by the parser *)
  end.
Definition flatten (s : list bit) : list tok := map tok_of_bit (flats s).

Lemma bit_bytes_if c p q :
  bit_bytes (BIf c p q) =
    n2b c :: to_bytes p ++ match q with None => [] | Some q' => n2b OP_ELSE :: to_bytes q' end ++ [n2b OP_ENDIF].
Proof. reflexivity. Qed.

Lemma to_bytes_app a b : to_bytes (a ++ b) = to_bytes a ++ to_bytes b.
Proof. induction a as [|x a IH]; cbn [to_bytes app]; [reflexivity | rewrite IH, app_assoc; reflexivity]. Qed.

Lemma to_bytes_flats s : to_bytes (flats s) = to_bytes s.
Proof.
  apply (bits_ind' (fun b => to_bytes (flat b) = bit_bytes b) (fun l => to_bytes (flats l) = to_bytes l)).
  - intros c; cbn [flat to_bytes]; apply app_nil_r.
  - intros d; cbn [flat to_bytes]; apply app_nil_r.
  - intros c d; cbn [flat to_bytes]; apply app_nil_r.
  - intros d; cbn [flat to_bytes]; apply app_nil_r.
  - intros c p IHp. rewrite flat_if, bit_bytes_if. cbn [to_bytes app bit_bytes].
    rewrite !to_bytes_app, IHp. cbn [to_bytes bit_bytes app]. rewrite ?app_nil_r. reflexivity.
  - intros c p q IHp IHq. rewrite flat_if, bit_bytes_if. cbn [to_bytes app bit_bytes].
    rewrite !to_bytes_app. cbn [to_bytes bit_bytes app]. rewrite !to_bytes_app, IHp, IHq.
    cbn [to_bytes bit_bytes app]. rewrite ?app_nil_r. reflexivity.
  - reflexivity.
  - intros b l Hb Hl. cbn [flats to_bytes]. rewrite to_bytes_app, Hb, Hl. reflexivity.
Qed.

(* ------------------------------------------------------------------ *)
(* nest / flats *)
Definition term_bits (t : term) : list bit :=
  match t with TEnd => [] | TElse => [BOp OP_ELSE] | TEndif => [BOp OP_ENDIF] end.

Ltac inv H := inversion H; subst; clear H.


(* `nest` copies an already nested BIf unchanged; the parser never feeds it one.  The lemma is
   stated for flat inputs (no BIf), which is what `tokenize` produces. *)
Fixpoint is_flat (l : list bit) : bool :=
  match l with [] => true | BIf _ _ _ :: _ => false | _ :: r => is_flat r end.

Lemma nest_flats : forall fuel m ts bs t r,
  is_flat ts = true ->
  nest fuel m ts = Ok (bs, t, r) -> ts = flats bs ++ term_bits t ++ r /\ is_flat r = true.
Proof.
  induction fuel as [|f IH]; intros m ts bs t r Hfl H; [discriminate|].
  cbn [nest] in H. destruct ts as [|x ts'].
  - destruct m; inv H; split; reflexivity.
  - assert (Hfl' : is_flat ts' = true) by (destruct x; cbn in Hfl; congruence).
    assert (Hplain : forall o, (do y <- nest f m ts'; let '(bs0, t0, r') := y in Ok (o :: bs0, t0, r')) = Ok (bs, t, r) ->
                               flat o = [o] -> o :: ts' = flats bs ++ term_bits t ++ r /\ is_flat r = true).
    { intros o Ho Hfo. destruct (nest f m ts') as [[[bs' t'] r']| |] eqn:H3; cbn [bind] in Ho; try discriminate.
      inv Ho. apply IH in H3; [|exact Hfl']. destruct H3 as [-> Hr]. cbn [flats]. rewrite Hfo. split; [reflexivity|exact Hr]. }
    destruct x as [c|d|c d|c p q|d]; try (apply Hplain; [exact H | reflexivity]); [|cbn in Hfl; discriminate].
    destruct (is_if c) eqn:Hif.
    + destruct (nest f Pass ts') as [[[p tp] r1]| |] eqn:H1; try discriminate.
      apply IH in H1; [|exact Hfl']. destruct H1 as [E1 F1].
      destruct tp; [discriminate| |].
      * destruct (nest f Fail r1) as [[[q tq] r2]| |] eqn:H2; try discriminate.
        apply IH in H2; [|exact F1]. destruct H2 as [E2 F2].
        destruct tq; try discriminate.
        destruct (nest f m r2) as [[[bs' t'] r']| |] eqn:H3; cbn [bind] in H; try discriminate.
        apply IH in H3; [|exact F2]. destruct H3 as [E3 F3].
        inv H. split; [|exact F3].
        cbn [flats]. rewrite flat_if. cbn [term_bits app]. rewrite <- !app_assoc. cbn [app].
        rewrite <- !app_assoc. reflexivity.
      * destruct (nest f m r1) as [[[bs' t'] r']| |] eqn:H3; cbn [bind] in H; try discriminate.
        apply IH in H3; [|exact F1]. destruct H3 as [E3 F3].
        inv H. split; [|exact F3].
        cbn [flats]. rewrite flat_if. cbn [term_bits app]. rewrite <- !app_assoc. reflexivity.
    + destruct m, (c =? OP_ELSE)%N eqn:He, (c =? OP_ENDIF)%N eqn:Hd;
        try (apply N.eqb_eq in He); try (apply N.eqb_eq in Hd);
        try (inv H; split; [reflexivity | exact Hfl']);
        try (apply Hplain; [exact H | reflexivity]).
Qed.

Lemma nest_top_end : forall fuel ts bs t r, nest fuel Top ts = Ok (bs, t, r) -> t = TEnd /\ r = [].
Proof.
  induction fuel as [|f IH]; intros ts bs t r H; [discriminate|].
  cbn [nest] in H. destruct ts as [|x ts'].
  - inv H; auto.
  - assert (Hplain : forall o, (do y <- nest f Top ts'; let '(bs0, t0, r') := y in Ok (o :: bs0, t0, r')) = Ok (bs, t, r) ->
                               t = TEnd /\ r = []).
    { intros o Ho. destruct (nest f Top ts') as [[[bs' t'] r']| |] eqn:H3; cbn [bind] in Ho; try discriminate.
      inv Ho. eauto. }
    destruct x as [c|d|c d|c p q|d]; try (eapply Hplain; exact H).
    destruct (is_if c).
    + destruct (nest f Pass ts') as [[[p tp] r1]| |]; try discriminate.
      destruct tp; [discriminate| |].
      * destruct (nest f Fail r1) as [[[q tq] r2]| |]; try discriminate.
        destruct tq; try discriminate.
        destruct (nest f Top r2) as [[[bs' t'] r']| |] eqn:H3; cbn [bind] in H; try discriminate.
        inv H. eauto.
      * destruct (nest f Top r1) as [[[bs' t'] r']| |] eqn:H3; cbn [bind] in H; try discriminate.
        inv H. eauto.
    + destruct (c =? OP_ELSE)%N, (c =? OP_ENDIF)%N; eapply Hplain; exact H.
Qed.

Lemma nest_top_flats ts s : is_flat ts = true -> nest_top ts = Ok s -> flats s = ts.
Proof.
  unfold nest_top. intros Hfl H.
  destruct (nest (S (length ts)) Top ts) as [[[b t] r]| |] eqn:E; cbn [bind] in H; try discriminate.
  inv H. pose proof (nest_top_end _ _ _ _ _ E) as [-> ->].
  apply nest_flats in E; [|exact Hfl]. destruct E as [E _]. cbn in E. rewrite app_nil_r in E. auto.
Qed.

(* ------------------------------------------------------------------ *)
(* tokenizer vs. independent tokenizer *)
Lemma firstn_skipn_len {A} n (l : list A) : n <= length l -> length (firstn n l) = n.
Proof. intros; apply firstn_length_le; assumption. Qed.

Lemma tokenize_flat : forall f bs ts, tokenize f bs = Ok ts -> is_flat ts = true.
Proof.
  induction f as [|f IH]; intros bs ts H; (destruct bs as [|b r]; [inv H; reflexivity|]); [discriminate|].
  cbn [tokenize] in H.
  destruct (negb (b2n b =? 0)%N && (b2n b <? 76)%N).
  - destruct (tokenize f _) as [rest| |] eqn:E; cbn [bind] in H; try discriminate. inv H. cbn. eauto.
  - destruct (is_opcode (b2n b)); [|discriminate].
    destruct ((b2n b =? 76)%N || (b2n b =? 77)%N || (b2n b =? 78)%N).
    + destruct (read_le _ r) as [[len r1]|]; [|discriminate].
      destruct (read_exactN _ r1) as [[d r2]|]; [|discriminate].
      destruct (tokenize f r2) as [rest| |] eqn:E; cbn [bind] in H; try discriminate. inv H. cbn. eauto.
    + destruct (tokenize f r) as [rest| |] eqn:E; cbn [bind] in H; try discriminate. inv H. cbn. eauto.
Qed.

Lemma pushdata_width_len_width c : pushdata_width c = len_width c.
Proof. reflexivity. Qed.

(* The central agreement lemma: same fuel on both sides, no side condition. *)
Lemma tokenize_agrees : forall f bs,
  match tok_spec f bs with
  | TokOk tks => exists ts, tokenize f bs = Ok ts /\ map tok_of_bit ts = tks /\ to_bytes ts = bs
  | TokTruncDirect => exists ts, tokenize f bs = Ok ts
  | TokBad => tokenize f bs = Err
  end.
Proof.
  induction f as [|f IH]; intros bs; (destruct bs as [|b r]; [exists []; auto|]); [reflexivity|].
  cbn [tok_spec tokenize].
  pose proof (b2n_lt b) as Hb. set (c := b2n b) in *.
  destruct ((1 <=? c)%N && (c <=? 75)%N) eqn:Hd.
  - replace (negb (c =? 0)%N && (c <? 76)%N) with true by lia.
    destruct (N.of_nat (length r) <? c)%N eqn:Hlen.
    + (* truncated direct push: everything is consumed *)
      replace (skipn (N.to_nat c) r) with (@nil byte) by (symmetry; apply skipn_all2; lia).
      destruct f; cbn [tokenize bind]; eauto.
    + specialize (IH (skipn (N.to_nat c) r)).
      destruct (tok_spec f (skipn (N.to_nat c) r)) as [tks| |]; cbn [tcons].
      * destruct IH as (ts & E & Em & Eb). rewrite E. cbn [bind]. eexists; split; [reflexivity|]. split.
        -- cbn [map tok_of_bit]. rewrite firstn_length_le by lia. rewrite N2Nat.id, Em. reflexivity.
        -- cbn [to_bytes bit_bytes]. rewrite firstn_length_le by lia. rewrite N2Nat.id.
           unfold c. rewrite n2b_b2n, Eb. cbn [app]. rewrite firstn_skipn. reflexivity.
      * destruct IH as (ts & E). rewrite E. cbn [bind]. eauto.
      * rewrite IH. reflexivity.
  - replace (negb (c =? 0)%N && (c <? 76)%N) with false by lia.
    destruct ((76 <=? c)%N && (c <=? 78)%N) eqn:Hpd.
    + assert (Hop : is_opcode c = true).
      { assert (c = 76 \/ c = 77 \/ c = 78)%N as [-> | [-> | ->]] by lia; vm_compute; reflexivity. }
      rewrite Hop. replace ((c =? 76)%N || (c =? 77)%N || (c =? 78)%N) with true by lia.
      change (if (c =? 76)%N then 1 else if (c =? 77)%N then 2 else 4) with (len_width c).
      set (w := len_width c).
      unfold read_le, read_exact, read_exactN.
      destruct (Nat.ltb (length r) w) eqn:Hw.
      * replace (Nat.leb w (length r)) with false by (apply Nat.ltb_lt in Hw; symmetry; apply Nat.leb_gt; lia).
        reflexivity.
      * replace (Nat.leb w (length r)) with true by (apply Nat.ltb_ge in Hw; symmetry; apply Nat.leb_le; lia).
        apply Nat.ltb_ge in Hw.
        set (len := le_val (firstn w r)). set (r1 := skipn w r).
        destruct (N.of_nat (length r1) <? len)%N eqn:Hl.
        -- replace (len <=? N.of_nat (length r1))%N with false by lia.
           reflexivity.
        -- replace (len <=? N.of_nat (length r1))%N with true by lia.
           specialize (IH (skipn (N.to_nat len) r1)).
           destruct (tok_spec f (skipn (N.to_nat len) r1)) as [tks| |]; cbn [tcons].
           ++ destruct IH as (ts & E & Em & Eb). rewrite E. cbn [bind]. eexists; split; [reflexivity|]. split.
              ** cbn [map tok_of_bit]. rewrite Em. reflexivity.
              ** cbn [to_bytes bit_bytes]. rewrite firstn_length_le by lia. rewrite N2Nat.id.
                 unfold c. rewrite n2b_b2n, Eb. cbn [app]. f_equal.
                 change (pushdata_width (b2n b)) with w.
                 assert (Hlw : length (firstn w r) = w) by (apply firstn_length_le; lia).
                 unfold len. rewrite <- Hlw at 1. rewrite le_bytes_le_val.
                 rewrite <- app_assoc. rewrite (firstn_skipn (N.to_nat (le_val (firstn w r))) r1).
                 unfold r1. rewrite firstn_skipn. reflexivity.
           ++ destruct IH as (ts & E). rewrite E. cbn [bind]. eauto.
           ++ rewrite IH. reflexivity.
    + replace ((c =? 76)%N || (c =? 77)%N || (c =? 78)%N) with false by lia.
      destruct (is_opcode c) eqn:Hop; [|reflexivity].
      specialize (IH r). destruct (tok_spec f r) as [tks| |]; cbn [tcons].
      * destruct IH as (ts & E & Em & Eb). rewrite E. cbn [bind]. eexists; split; [reflexivity|]. split.
        -- cbn [map tok_of_bit]. rewrite Em. reflexivity.
        -- cbn [to_bytes bit_bytes app]. unfold c. rewrite n2b_b2n, Eb. reflexivity.
      * destruct IH as (ts & E). rewrite E. cbn [bind]. eauto.
      * rewrite IH. reflexivity.
Qed.

Lemma tokenize_no_panic f bs : tokenize f bs <> Panic.
Proof.
  pose proof (tokenize_agrees f bs) as H. destruct (tok_spec f bs) as [tks| |].
  - destruct H as (ts' & E & _). congruence.
  - destruct H as (ts' & E). congruence.
  - congruence.
Qed.

(* ------------------------------------------------------------------ *)
(* C02 theorems *)
Lemma script_roundtrip bs s :
  from_bytes bs = Ok s -> truncated_tail bs = false ->
  to_bytes s = bs /\ tokenize_spec bs = TokOk (flatten s).
Proof.
  unfold from_bytes, truncated_tail, tokenize_spec. intros H Ht.
  pose proof (tokenize_agrees (length bs) bs) as A.
  destruct (tok_spec (length bs) bs) as [tks| |]; [|discriminate|].
  - destruct A as (ts & E & Em & Eb). rewrite E in H. cbn [bind] in H.
    pose proof (tokenize_flat _ _ _ E) as Hfl.
    apply nest_top_flats in H; [|exact Hfl].
    split.
    + rewrite <- to_bytes_flats, H. exact Eb.
    + unfold flatten. rewrite H, Em. reflexivity.
  - rewrite A in H. discriminate.
Qed.

Lemma nest_flatten ts s : is_flat ts = true -> nest_top ts = Ok s -> flats s = ts.
Proof. exact (nest_top_flats ts s). Qed.

(* ------------------------------------------------------------------ *)
(* fuel of the specification tokenizer is irrelevant once it covers the input *)
Lemma tok_spec_fuel : forall f1 f2 bs, length bs <= f1 -> length bs <= f2 -> tok_spec f1 bs = tok_spec f2 bs.
Proof.
  induction f1 as [|f1 IH]; intros f2 bs H1 H2; destruct bs as [|b r]; try (destruct f2; reflexivity).
  - cbn in H1. lia.
  - destruct f2 as [|f2]; [cbn in H2; lia|]. cbn [length] in H1, H2.
    cbn [tok_spec].
    assert (Hs : forall k, length (skipn k r) <= length r) by (intros k; rewrite skipn_length; lia).
    destruct ((1 <=? b2n b)%N && (b2n b <=? 75)%N).
    + destruct (N.of_nat (length r) <? b2n b)%N; [reflexivity|].
      rewrite (IH f2) by (specialize (Hs (N.to_nat (b2n b))); lia). reflexivity.
    + destruct ((76 <=? b2n b)%N && (b2n b <=? 78)%N).
      * destruct (Nat.ltb (length r) (len_width (b2n b))); [reflexivity|].
        destruct (N.of_nat (length (skipn (len_width (b2n b)) r)) <? le_val (firstn (len_width (b2n b)) r))%N; [reflexivity|].
        rewrite (IH f2); [reflexivity| |].
        -- pose proof (Hs (len_width (b2n b))).
           pose proof (skipn_length (N.to_nat (le_val (firstn (len_width (b2n b)) r))) (skipn (len_width (b2n b)) r)). lia.
        -- pose proof (Hs (len_width (b2n b))).
           pose proof (skipn_length (N.to_nat (le_val (firstn (len_width (b2n b)) r))) (skipn (len_width (b2n b)) r)). lia.
      * destruct (is_opcode (b2n b)); [|reflexivity]. rewrite (IH f2) by lia. reflexivity.
Qed.

(* ------------------------------------------------------------------ *)
(* nesting succeeds exactly on balanced token lists *)
Definition toks (ts : list bit) : list tok := map tok_of_bit ts.

Definition st0 (m : mode) (st : list bmode) : list bmode :=
  match m with Top => [] | Pass => BPass :: st | Fail => BFail :: st end.
Definition st1 (m : mode) (t : term) (st : list bmode) : list bmode :=
  match m, t with
  | Pass, TElse => BFail :: st
  | Pass, TEndif => st
  | Fail, TEndif => st
  | _, _ => []
  end.
Definition mt_ok (m : mode) (t : term) (r : list bit) : Prop :=
  match m, t with
  | Top, TEnd => r = []
  | Pass, TElse => True
  | Pass, TEndif => True
  | Fail, TEndif => True
  | _, _ => False
  end.

Lemma is_if_else : is_if OP_ELSE = false. Proof. reflexivity. Qed.
Lemma is_if_endif : is_if OP_ENDIF = false. Proof. reflexivity. Qed.

Lemma balanced_plain st c r :
  is_if c = false -> (c =? OP_ELSE)%N = false -> (c =? OP_ENDIF)%N = false ->
  balanced_from st (TOp c :: r) = balanced_from st r.
Proof. intros H1 H2 H3. cbn [balanced_from]. rewrite H1, H2, H3. reflexivity. Qed.

Lemma nest_balanced : forall f m ts,
  is_flat ts = true -> length ts < f ->
  match nest f m ts with
  | Ok (bs, t, r) => mt_ok m t r /\ length r <= length ts /\ is_flat r = true /\
                     forall st, balanced_from (st0 m st) (toks ts) = balanced_from (st1 m t st) (toks r)
  | Err => forall st, balanced_from (st0 m st) (toks ts) = false
  | Panic => False
  end.
Proof.
  induction f as [|f IH]; intros m ts Hfl Hlen; [lia|].
  cbn [nest]. destruct ts as [|x ts'].
  - destruct m; cbn; auto.
  - cbn [length] in Hlen |- *.
    assert (Hfl' : is_flat ts' = true) by (destruct x; cbn in Hfl; congruence).
    (* generic "copy this bit and continue in the same mode" step *)
    assert (Hplain : forall o,
       (forall st, balanced_from (st0 m st) (tok_of_bit o :: toks ts') = balanced_from (st0 m st) (toks ts')) ->
       match (do y <- nest f m ts'; let '(bs0, t0, r') := y in Ok (o :: bs0, t0, r')) with
       | Ok (bs, t, r) => mt_ok m t r /\ length r <= S (length ts') /\ is_flat r = true /\
                          forall st, balanced_from (st0 m st) (tok_of_bit o :: toks ts') = balanced_from (st1 m t st) (toks r)
       | Err => forall st, balanced_from (st0 m st) (tok_of_bit o :: toks ts') = false
       | Panic => False
       end).
    { intros o Ho. specialize (IH m ts' Hfl' ltac:(lia)).
      destruct (nest f m ts') as [[[bs' t'] r']| |]; cbn [bind].
      - destruct IH as (A & B & C & D). repeat split; auto. intros st. rewrite Ho. apply D.
      - intros st. rewrite Ho. apply IH.
      - exact IH. }
    destruct x as [c|d|c d|c p q|d]; cbn [toks map]; try (apply Hplain; intros st; reflexivity); [|cbn in Hfl; discriminate].
    cbn [tok_of_bit]. destruct (is_if c) eqn:Hif.
    + (* conditional opener *)
      pose proof (IH Pass ts' Hfl' ltac:(lia)) as H1.
      destruct (nest f Pass ts') as [[[p tp] r1]| |]; [| |exact H1].
      * destruct H1 as (M1 & L1 & F1 & B1). unfold toks in *.
        destruct tp; [destruct M1| |]; cbn [st0 st1] in B1.
        -- (* ELSE *)
           pose proof (IH Fail r1 F1 ltac:(lia)) as H2.
           destruct (nest f Fail r1) as [[[q tq] r2]| |]; [| |exact H2].
           ++ destruct H2 as (M2 & L2 & F2 & B2).
              destruct tq; try (destruct M2). cbn [st0 st1] in B2.
              pose proof (IH m r2 F2 ltac:(lia)) as H3.
              destruct (nest f m r2) as [[[bs' t'] r']| |]; cbn [bind]; [| |exact H3].
              ** destruct H3 as (M3 & L3 & F3 & B3). repeat split; auto; [lia|].
                 intros st. cbn [balanced_from]. rewrite Hif.
                 rewrite (B1 (st0 m st)). rewrite (B2 (st0 m st)). apply B3.
              ** intros st. cbn [balanced_from]. rewrite Hif.
                 rewrite (B1 (st0 m st)). rewrite (B2 (st0 m st)). apply H3.
           ++ intros st. cbn [balanced_from]. rewrite Hif. rewrite (B1 (st0 m st)). apply H2.
        -- (* ENDIF *)
           pose proof (IH m r1 F1 ltac:(lia)) as H3.
           destruct (nest f m r1) as [[[bs' t'] r']| |]; cbn [bind]; [| |exact H3].
           ++ destruct H3 as (M3 & L3 & F3 & B3). repeat split; auto; [lia|].
              intros st. cbn [balanced_from]. rewrite Hif. rewrite (B1 (st0 m st)). apply B3.
           ++ intros st. cbn [balanced_from]. rewrite Hif. rewrite (B1 (st0 m st)). apply H3.
      * intros st. cbn [balanced_from]. rewrite Hif. apply (H1 (st0 m st)).
    + (* ordinary opcode, or ELSE / ENDIF *)
      destruct (c =? OP_ELSE)%N eqn:He.
      * apply N.eqb_eq in He; subst c. change ((OP_ELSE =? OP_ENDIF)%N) with false.
        destruct m.
        -- apply (Hplain (BOp OP_ELSE)). intros st. reflexivity.
        -- cbn. repeat split; auto.
        -- apply (Hplain (BOp OP_ELSE)). intros st. reflexivity.
      * destruct (c =? OP_ENDIF)%N eqn:Hd.
        -- apply N.eqb_eq in Hd; subst c.
           destruct m.
           ++ apply (Hplain (BOp OP_ENDIF)). intros st. reflexivity.
           ++ cbn. repeat split; auto.
           ++ cbn. repeat split; auto.
        -- assert (Hm : (match m with
                         | Top | _ => do x <- nest f m ts'; let '(bs, t, r') := x in Ok (BOp c :: bs, t, r')
                         end) = (do x <- nest f m ts'; let '(bs, t, r') := x in Ok (BOp c :: bs, t, r')))
             by (destruct m; reflexivity).
           destruct m; (apply (Hplain (BOp c)); intros st; cbn [tok_of_bit]; apply balanced_plain; assumption).
Qed.

(* acceptance of Script::from_bytes in terms of the independent tokenizer and the balance automaton *)
Lemma nest_top_balanced ts :
  is_flat ts = true ->
  match nest_top ts with
  | Ok _ => balanced (toks ts) = true
  | Err => balanced (toks ts) = false
  | Panic => False
  end.
Proof.
  intros Hfl. unfold nest_top, balanced.
  pose proof (nest_balanced (S (length ts)) Top ts Hfl ltac:(lia)) as H.
  destruct (nest (S (length ts)) Top ts) as [[[bs t] r]| |]; cbn [bind].
  - destruct H as (M & _ & _ & B). destruct t; [|destruct M|destruct M]. cbn in M. subst r.
    specialize (B []). cbn in B. exact B.
  - exact (H []).
  - exact H.
Qed.

Lemma from_bytes_acceptance bs :
  match tokenize_spec bs with
  | TokOk ts => if balanced ts then exists s, from_bytes bs = Ok s else from_bytes bs = Err
  | TokBad => from_bytes bs = Err
  | TokTruncDirect => exists r, from_bytes bs = r /\ r <> Panic
  end.
Proof.
  unfold tokenize_spec, from_bytes.
  pose proof (tokenize_agrees (length bs) bs) as A.
  destruct (tok_spec (length bs) bs) as [tks| |].
  - destruct A as (ts & E & Em & _). rewrite E. cbn [bind].
    pose proof (nest_top_balanced ts (tokenize_flat _ _ _ E)) as B. unfold toks in B. rewrite Em in B.
    destruct (nest_top ts) as [s| |]; [rewrite B; eauto | rewrite B; reflexivity | destruct B].
  - destruct A as (ts & E). rewrite E. cbn [bind].
    pose proof (nest_top_balanced ts (tokenize_flat _ _ _ E)) as B.
    destruct (nest_top ts) as [s| |]; [eexists; split; [reflexivity|discriminate] | eexists; split; [reflexivity|discriminate] | destruct B].
  - rewrite A. reflexivity.
Qed.

Lemma from_bytes_no_panic bs : from_bytes bs <> Panic.
Proof.
  pose proof (from_bytes_acceptance bs) as H. destruct (tokenize_spec bs) as [ts| |].
  - destruct (balanced ts); [destruct H as (s & ->); discriminate | rewrite H; discriminate].
  - destruct H as (r & -> & Hr). exact Hr.
  - rewrite H. discriminate.
Qed.

(* ------------------------------------------------------------------ *)
(* push encoding helper *)
Definition push_bit (d : bytes) : bit :=
  match get_pushdata_opcode (N.of_nat (length d)) with
  | None => BPush d
  | Some c => BPushData c d
  end.

Ltac decide_cmp :=
  repeat match goal with
  | |- context[(?a <=? ?b)%N] => first [replace (a <=? b)%N with true by lia | replace (a <=? b)%N with false by lia]
  | |- context[(?a <? ?b)%N] => first [replace (a <? b)%N with true by lia | replace (a <? b)%N with false by lia]
  | |- context[(?a =? ?b)%N] => first [replace (a =? b)%N with true by lia | replace (a =? b)%N with false by lia]
  end; cbn [andb orb negb].

Lemma prefix_is_minimal len :
  (1 <= len < 4294967296)%N -> get_pushdata_prefix_bytes len = Ok (minimal_prefix len).
Proof.
  intros H. unfold get_pushdata_prefix_bytes, minimal_prefix, OP_PUSHDATA1, OP_PUSHDATA2, OP_PUSHDATA4.
  assert (len <= 75 \/ 76 <= len <= 255 \/ 256 <= len <= 65535 \/ 65536 <= len)%N as [C|[C|[C|C]]] by lia;
    decide_cmp; reflexivity.
Qed.

Lemma nest_top_single b : (forall c, b <> BOp c) -> (forall c p q, b <> BIf c p q) -> nest_top [b] = Ok [b].
Proof.
  intros H1 H2. unfold nest_top. cbn [length nest].
  destruct b; try (exfalso; eapply H1; reflexivity); try (exfalso; eapply H2; reflexivity); reflexivity.
Qed.

Lemma tokenize_nil f : tokenize f [] = Ok [].
Proof. destruct f; reflexivity. Qed.

Lemma tokenize_cons f b r :
  tokenize (S f) (b :: r) =
      let n := b2n b in
      if negb (n =? 0)%N && (n <? 76)%N then
        let k := N.to_nat n in
        do rest <- tokenize f (skipn k r);
        Ok (BPush (firstn k r) :: rest)
      else if is_opcode n then
        if (n =? 76)%N || (n =? 77)%N || (n =? 78)%N then
          let w := if (n =? 76)%N then 1 else if (n =? 77)%N then 2 else 4 in
          match read_le w r with
          | None => Err
          | Some (len, r1) =>
            match read_exactN len r1 with
            | None => Err
            | Some (d, r2) => do rest <- tokenize f r2; Ok (BPushData n d :: rest)
            end
          end
        else do rest <- tokenize f r; Ok (BOp n :: rest)
      else Err.
Proof. reflexivity. Qed.

Lemma read_exactN_all d : read_exactN (N.of_nat (length d)) d = Some (d, []).
Proof. pose proof (read_exactN_app d []) as H. rewrite app_nil_r in H. exact H. Qed.

Lemma encode_pushdata_minimal d :
  (1 <= N.of_nat (length d) < 4294967296)%N ->
  encode_pushdata d = Ok (minimal_prefix (N.of_nat (length d)) ++ d) /\
  from_bytes (minimal_prefix (N.of_nat (length d)) ++ d) = Ok [push_bit d].
Proof.
  intros H. split.
  - unfold encode_pushdata. rewrite prefix_is_minimal by exact H. reflexivity.
  - remember (N.of_nat (length d)) as len eqn:Hlen.
    unfold from_bytes, minimal_prefix, push_bit, get_pushdata_opcode. rewrite <- Hlen.
    assert (Hd : d ++ [] = d) by apply app_nil_r.
    assert (len <= 75 \/ 76 <= len <= 255 \/ 256 <= len <= 65535 \/ 65536 <= len)%N as [C|[C|[C|C]]] by lia;
      decide_cmp; cbn [app length]; rewrite tokenize_cons; cbv zeta; rewrite b2n_n2b by lia; decide_cmp.
    + (* direct push *)
      rewrite Hlen, Nat2N.id, skipn_all, firstn_all, tokenize_nil. cbn [bind].
      apply nest_top_single; discriminate.
    + change (is_opcode 76) with true. cbv iota.
      change (n2b len :: d) with (le_bytes 1 len ++ d).
      rewrite read_le_app by (cbn; lia).
      rewrite Hlen, read_exactN_all, tokenize_nil.
      cbn [bind]. apply nest_top_single; discriminate.
    + change (is_opcode 77) with true. cbv iota.
      rewrite read_le_app by (cbn; lia).
      rewrite Hlen, read_exactN_all, tokenize_nil.
      cbn [bind]. apply nest_top_single; discriminate.
    + change (is_opcode 78) with true. cbv iota.
      rewrite read_le_app by (cbn; lia).
      rewrite Hlen, read_exactN_all, tokenize_nil.
      cbn [bind]. apply nest_top_single; discriminate.
Qed.

(* the known-finding class is inhabited and really violates the round trip *)
Lemma truncated_direct_push_refuted :
  truncated_tail [x05; x01] = true /\
  from_bytes [x05; x01] = Ok [BPush [x01]] /\ to_bytes [BPush [x01]] = [x01; x01].
Proof. repeat split; vm_compute; reflexivity. Qed.

(* parsing is injective outside the known-finding class: two accepted byte strings with the same parse are equal,
   and the serialisation has the input's length *)
Lemma parse_injective b1 b2 s :
  from_bytes b1 = Ok s -> from_bytes b2 = Ok s ->
  truncated_tail b1 = false -> truncated_tail b2 = false -> b1 = b2.
Proof.
  intros H1 H2 T1 T2.
  destruct (script_roundtrip b1 s H1 T1) as [E1 _].
  destruct (script_roundtrip b2 s H2 T2) as [E2 _].
  rewrite <- E1. exact E2.
Qed.

Lemma roundtrip_length bs s :
  from_bytes bs = Ok s -> truncated_tail bs = false -> length (to_bytes s) = length bs.
Proof. intros H T. destruct (script_roundtrip bs s H T) as [E _]. rewrite E. reflexivity. Qed.
