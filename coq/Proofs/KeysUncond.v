(* The statements of Proofs/KeysProofs.v that were conditional on the premise [sqrt_ok], now unconditional:
   [sqrt_ok] is a theorem (Proofs/SecpPrimes.sqrt_ok_holds, from the primality of the field prime). *)
From BSV Require Import Base.Hex.
From BSV Require Import Prim.Num Prim.Secp256k1 Model.Keys.
From BSV Require Import Proofs.Secp256k1Proofs Proofs.KeysProofs Proofs.SecpPrimes.
Local Open Scope Z_scope.

Lemma pubkey_point_accepted_u c x y :
  0 <= x < secp_p -> 0 <= y < secp_p -> on_curve (Some (x, y)) = true ->
  pub_from_bytes curve_ref (sec1_encode c (Some (x, y)))
  = Ok {| pk_point := sec1_encode c (Some (x, y)); pk_compressed := c |}.
Proof. exact (pubkey_point_accepted c x y sqrt_ok_holds). Qed.

Lemma compress_decompress_inverse_u x y :
  0 <= x < secp_p -> 0 <= y < secp_p -> on_curve (Some (x, y)) = true ->
  let P := Some (x, y) in
  pub_to_decompressed curve_ref (pk_of true P) = Ok (pk_of false P)
  /\ pub_to_compressed (pk_of false P) = Ok (pk_of true P)
  /\ pub_to_decompressed curve_ref (pk_of false P) = Ok (pk_of false P)
  /\ pub_to_compressed (pk_of true P) = Ok (pk_of true P).
Proof. exact (compress_decompress_inverse x y sqrt_ok_holds). Qed.
