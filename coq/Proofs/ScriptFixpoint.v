(* Proofs/ScriptFixpoint.v — the serialisation of ANY parsed script (also one parsed from an input inside the
   truncated-direct-push class) is accepted, lies outside the class, re-serialises to itself and is no longer than
   the input: parse-then-serialise is idempotent on bytes.  Built on Proofs/TxProofs.reparse_script. *)
From Coq Require Import List Arith Lia.
From BSV Require Import Base.Hex Model.Opcodes Model.Script Spec.ScriptTok Proofs.ScriptProofs Proofs.TxProofs.

Lemma serialisation_is_fixpoint sb s :
  from_bytes sb = Ok s ->
  truncated_tail (to_bytes s) = false /\
  length (to_bytes s) <= length sb /\
  exists s', from_bytes (to_bytes s) = Ok s' /\ to_bytes s' = to_bytes s.
Proof.
  intros H. destruct (reparse_script sb s H) as [[[s' Hs'] Ht] Hl].
  split; [exact Ht|]. split; [exact Hl|].
  exists s'. split; [exact Hs'|].
  destruct (script_roundtrip _ _ Hs' Ht) as [E _]. exact E.
Qed.
