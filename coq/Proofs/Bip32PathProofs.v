(* Proofs/Bip32PathProofs.v — the path parser of derive_from_path (Model/Bip32.v: parse_path, written
   with split / trim_end_matches / ends_with / u32::from_str like the Rust code) accepts exactly the
   explicitly described language [path_language] of Spec/Bip32Spec.v, and reads every path in the
   standard notation ([std_path], a character automaton) as the standard list of child numbers. *)
From BSV Require Import Base.Bytes Base.Hex.
From BSV Require Import Model.EcIface Model.Bip32 Spec.Bip32Spec.
Local Open Scope N_scope.
Local Open Scope list_scope.

(* ------------------------------------------------------------------ *)
(* characters *)
Lemma digit_val_is_digit c : digit_val c = if is_digit c then Some (N_of_ascii c - 48) else None.
Proof. reflexivity. Qed.

Definition isdig (c : ascii) : Prop := is_digit c = true.

Lemma is_digit_slash : is_digit ch_slash = false. Proof. reflexivity. Qed.
Lemma is_digit_tick : is_digit ch_tick = false. Proof. reflexivity. Qed.
Lemma is_digit_h : is_digit ch_h = false. Proof. reflexivity. Qed.
Lemma is_digit_H : is_digit ch_H = false. Proof. reflexivity. Qed.
Lemma is_digit_plus : is_digit ch_plus = false. Proof. reflexivity. Qed.

Lemma isdig_neq c d : isdig c -> is_digit d = false -> c <> d.
Proof. unfold isdig. intros H1 H2 ->. congruence. Qed.

(* ------------------------------------------------------------------ *)
(* split *)
Definition noslash (x : list ascii) : Prop := ~ In ch_slash x.

Lemma noslash_cons c x : noslash (c :: x) <-> c <> ch_slash /\ noslash x.
Proof.
  unfold noslash. cbn [In]. split.
  - intros H. split; [intros ->; apply H; left; reflexivity | intros Hi; apply H; right; exact Hi].
  - intros [H1 H2] [E|Hi]; [apply H1; exact E | apply H2; exact Hi].
Qed.

Lemma noslash_app x y : noslash (x ++ y) <-> noslash x /\ noslash y.
Proof.
  unfold noslash. split.
  - intros H. split; intros Hi; apply H; apply in_or_app; [left|right]; exact Hi.
  - intros [H1 H2] Hi. apply in_app_or in Hi. destruct Hi; [apply H1 | apply H2]; assumption.
Qed.

Lemma noslash_repeat c k : c <> ch_slash -> noslash (repeat c k).
Proof. intros Hc Hi. apply repeat_spec in Hi. apply Hc. symmetry. exact Hi. Qed.

Lemma split_l_ne sep s : split_l sep s <> [].
Proof.
  destruct s as [|c r]; cbn [split_l]; [discriminate|].
  destruct (Ascii.eqb c sep); [discriminate|]. destruct (split_l sep r); discriminate.
Qed.

Lemma split_l_noslash x : noslash x -> split_l ch_slash x = [x].
Proof.
  induction x as [|c r IH]; intros H; cbn [split_l]; [reflexivity|].
  apply noslash_cons in H. destruct H as [Hc Hr].
  destruct (Ascii.eqb_spec c ch_slash) as [E|_]; [contradiction|].
  rewrite (IH Hr). reflexivity.
Qed.

Lemma split_l_app x s : noslash x -> split_l ch_slash (x ++ ch_slash :: s) = x :: split_l ch_slash s.
Proof.
  induction x as [|c r IH]; intros H; cbn [app split_l].
  - rewrite Ascii.eqb_refl. reflexivity.
  - apply noslash_cons in H. destruct H as [Hc Hr].
    destruct (Ascii.eqb_spec c ch_slash) as [E|_]; [contradiction|].
    rewrite (IH Hr). reflexivity.
Qed.

Fixpoint unsplit (l : list (list ascii)) : list ascii :=
  match l with
  | [] => []
  | x :: r => match r with [] => x | _ => x ++ ch_slash :: unsplit r end
  end.

Lemma unsplit_split s : unsplit (split_l ch_slash s) = s.
Proof.
  induction s as [|c r IH]; cbn [split_l]; [reflexivity|].
  pose proof (split_l_ne ch_slash r) as Hne.
  destruct (Ascii.eqb_spec c ch_slash) as [->|_].
  - destruct (split_l ch_slash r) as [|h t] eqn:E; [contradiction|].
    change (unsplit ([] :: h :: t)) with ([] ++ ch_slash :: unsplit (h :: t)). rewrite IH. reflexivity.
  - destruct (split_l ch_slash r) as [|h t] eqn:E; [contradiction|].
    destruct t as [|h2 t2].
    + cbn [unsplit] in *. rewrite IH. reflexivity.
    + change (unsplit ((c :: h) :: h2 :: t2)) with ((c :: h) ++ ch_slash :: unsplit (h2 :: t2)).
      change (unsplit (h :: h2 :: t2)) with (h ++ ch_slash :: unsplit (h2 :: t2)) in IH.
      cbn [app]. rewrite IH. reflexivity.
Qed.

Lemma split_l_pieces s : Forall noslash (split_l ch_slash s).
Proof.
  induction s as [|c r IH]; cbn [split_l].
  - constructor; [intros []|constructor].
  - destruct (Ascii.eqb_spec c ch_slash) as [->|Hc].
    + constructor; [intros []|exact IH].
    + destruct (split_l ch_slash r) as [|h t].
      * constructor; [|constructor]. apply noslash_cons. split; [exact Hc|intros []].
      * inversion IH; subst. constructor; [|assumption]. apply noslash_cons. split; assumption.
Qed.

(* ------------------------------------------------------------------ *)
(* trim_end_matches / ends_with *)
Lemma rev_repeat {A} (c : A) k : rev (repeat c k) = repeat c k.
Proof.
  induction k as [|k IH]; [reflexivity|]. cbn [repeat rev]. rewrite IH.
  clear IH. induction k as [|k IH]; [reflexivity|]. cbn [repeat app]. rewrite IH. reflexivity.
Qed.

Lemma drop_while_repeat p c k l : p c = true -> drop_while p (repeat c k ++ l) = drop_while p l.
Proof. intros H. induction k as [|k IH]; [reflexivity|]. cbn [repeat app drop_while]. rewrite H. exact IH. Qed.

Definition head_not (c : ascii) (l : list ascii) : Prop :=
  match l with [] => True | x :: _ => x <> c end.
Definition last_not (c : ascii) (l : list ascii) : Prop := head_not c (rev l).

Lemma drop_while_stop c l : head_not c l -> drop_while (Ascii.eqb c) l = l.
Proof.
  destruct l as [|x r]; [reflexivity|]. cbn [head_not drop_while]. intros H.
  destruct (Ascii.eqb_spec c x) as [E|_]; [exfalso; apply H; symmetry; exact E | reflexivity].
Qed.

Lemma drop_while_decomp c l :
  exists k, l = repeat c k ++ drop_while (Ascii.eqb c) l /\ head_not c (drop_while (Ascii.eqb c) l).
Proof.
  induction l as [|x r IH].
  - exists 0%nat. split; [reflexivity|exact I].
  - cbn [drop_while]. destruct (Ascii.eqb_spec c x) as [<-|N].
    + destruct IH as (k & E & Hh). exists (S k). split; [cbn [repeat app]; rewrite <- E; reflexivity | exact Hh].
    + exists 0%nat. split; [reflexivity|]. cbn [head_not]. intros E. apply N. symmetry. exact E.
Qed.

Lemma trim_end_app c l k : last_not c l -> trim_end c (l ++ repeat c k) = l.
Proof.
  intros H. unfold trim_end. rewrite rev_app_distr, rev_repeat.
  rewrite drop_while_repeat by apply Ascii.eqb_refl.
  rewrite drop_while_stop by exact H. apply rev_involutive.
Qed.

Lemma trim_end_decomp c l : exists k, l = trim_end c l ++ repeat c k /\ last_not c (trim_end c l).
Proof.
  destruct (drop_while_decomp c (rev l)) as (k & E & Hh). exists k. unfold trim_end, last_not.
  rewrite rev_involutive. split; [|exact Hh].
  rewrite <- (rev_involutive l) at 1. rewrite E at 1. rewrite rev_app_distr, rev_repeat. reflexivity.
Qed.

Lemma last_not_snoc c l x : x <> c -> last_not c (l ++ [x]).
Proof. intros H. unfold last_not. rewrite rev_app_distr. cbn [rev app head_not]. exact H. Qed.

Lemma last_not_app_repeat c d l k : d <> c -> last_not c l -> last_not c (l ++ repeat d k).
Proof.
  intros Hd Hl. destruct k as [|k]; [rewrite app_nil_r; exact Hl|].
  unfold last_not. rewrite rev_app_distr, rev_repeat. cbn [repeat app head_not]. exact Hd.
Qed.

Lemma ends_with_snoc c l x : ends_with c (l ++ [x]) = Ascii.eqb x c.
Proof. unfold ends_with. rewrite rev_app_distr. reflexivity. Qed.

Lemma ends_with_repeat c l d k : ends_with c (l ++ repeat d (S k)) = Ascii.eqb d c.
Proof. unfold ends_with. rewrite rev_app_distr, rev_repeat. reflexivity. Qed.

(* a non-empty digit string ends in a digit *)
Lemma digits_snoc ds : ds <> [] -> Forall isdig ds -> exists ds' d, ds = ds' ++ [d] /\ isdig d.
Proof.
  intros Hne Hd. destruct (exists_last Hne) as (ds' & d & ->). exists ds', d. split; [reflexivity|].
  apply Forall_app in Hd. destruct Hd as [_ Hd]. inversion Hd; assumption.
Qed.

Lemma last_not_digits c plus ds : ds <> [] -> Forall isdig ds -> is_digit c = false -> last_not c (plus ++ ds).
Proof.
  intros Hne Hd Hc. destruct (digits_snoc ds Hne Hd) as (ds' & d & -> & Hdd).
  rewrite app_assoc. apply last_not_snoc. apply isdig_neq; assumption.
Qed.

Lemma ends_with_digits c plus ds : ds <> [] -> Forall isdig ds -> is_digit c = false -> ends_with c (plus ++ ds) = false.
Proof.
  intros Hne Hd Hc. destruct (digits_snoc ds Hne Hd) as (ds' & d & -> & Hdd).
  rewrite app_assoc, ends_with_snoc. apply Ascii.eqb_neq. apply isdig_neq; assumption.
Qed.

(* ------------------------------------------------------------------ *)
(* u32::from_str *)
Lemma digits_val_fold ds : forall acc,
  Forall isdig ds -> digits_val ds acc = Some (fold_left (fun a c => 10 * a + (N_of_ascii c - 48)) ds acc).
Proof.
  induction ds as [|c r IH]; intros acc H; cbn [digits_val fold_left]; [reflexivity|].
  inversion H; subst. rewrite digit_val_is_digit. unfold isdig in *. rewrite H2. apply IH. assumption.
Qed.

Lemma digits_val_some ds : forall acc v,
  digits_val ds acc = Some v -> Forall isdig ds /\ v = fold_left (fun a c => 10 * a + (N_of_ascii c - 48)) ds acc.
Proof.
  induction ds as [|c r IH]; intros acc v H; cbn [digits_val fold_left] in *.
  - inversion H. split; [constructor|reflexivity].
  - rewrite digit_val_is_digit in H. destruct (is_digit c) eqn:Ec; [|discriminate].
    apply IH in H. destruct H as [Hr Hv]. split; [constructor; assumption | exact Hv].
Qed.

Lemma parse_u32_intro plus ds :
  (plus = [] \/ plus = [ch_plus]) -> ds <> [] -> Forall isdig ds -> dec_value ds < 4294967296 ->
  parse_u32 (plus ++ ds) = Some (dec_value ds).
Proof.
  intros Hp Hne Hd Hv. unfold parse_u32.
  assert (Hgo : match ds with
                | [] => None
                | _ :: _ => match digits_val ds 0 with
                            | Some v => if v <? 4294967296 then Some v else None
                            | None => None
                            end
                end = Some (dec_value ds)).
  { destruct ds as [|d r]; [contradiction|]. rewrite digits_val_fold by exact Hd.
    fold (dec_value (d :: r)). replace (dec_value (d :: r) <? 4294967296) with true by (symmetry; apply N.ltb_lt; exact Hv).
    reflexivity. }
  destruct Hp as [->| ->].
  - cbn [app]. destruct ds as [|d r]; [contradiction|].
    inversion Hd; subst.
    destruct (Ascii.eqb_spec d ch_plus) as [->|_]; [unfold isdig in *; rewrite is_digit_plus in *; discriminate|].
    exact Hgo.
  - cbn [app]. rewrite Ascii.eqb_refl. exact Hgo.
Qed.

Lemma parse_u32_inv l v :
  parse_u32 l = Some v ->
  exists plus ds, l = plus ++ ds /\ (plus = [] \/ plus = [ch_plus]) /\ ds <> [] /\ Forall isdig ds /\
                  v = dec_value ds /\ v < 4294967296.
Proof.
  unfold parse_u32. intros H.
  set (ds := match l with c :: r => if Ascii.eqb c ch_plus then r else l | [] => [] end) in *.
  assert (Hl : exists plus, l = plus ++ ds /\ (plus = [] \/ plus = [ch_plus])).
  { unfold ds. destruct l as [|c r]; [exists []; auto|].
    destruct (Ascii.eqb_spec c ch_plus) as [->|_]; [exists [ch_plus]; auto | exists []; auto]. }
  destruct Hl as (plus & El & Hp). exists plus, ds.
  destruct ds as [|d r] eqn:Eds; [discriminate|].
  destruct (digits_val (d :: r) 0) as [w|] eqn:Ew; [|discriminate].
  destruct (w <? 4294967296) eqn:Elt; [|discriminate]. inversion H; subst w.
  apply digits_val_some in Ew. destruct Ew as [Hd Hv]. apply N.ltb_lt in Elt.
  repeat split; try assumption. discriminate.
Qed.

(* ------------------------------------------------------------------ *)
(* one component *)
Lemma tick_ne_h : ch_h <> ch_tick. Proof. discriminate. Qed.
Lemma tick_ne_H : ch_H <> ch_tick. Proof. discriminate. Qed.
Lemma h_ne_H : ch_H <> ch_h. Proof. discriminate. Qed.

Lemma parse_idx_intro x i : path_component x i -> parse_idx x = Ok i.
Proof.
  intros (plus & ds & a & b & c & Ex & Hp & Hne & Hd & Hv & Hi).
  change "H"%char with ch_H in Ex. change "h"%char with ch_h in Ex. change "'"%char with ch_tick in Ex.
  fold isdig in Hd.
  assert (Hd' : Forall isdig ds) by exact Hd.
  set (core := plus ++ ds).
  assert (Ex' : x = ((core ++ repeat ch_H a) ++ repeat ch_h b) ++ repeat ch_tick c).
  { rewrite Ex. unfold core. rewrite <- !app_assoc. reflexivity. }
  (* the three trims *)
  assert (T1 : trim_end ch_tick x = (core ++ repeat ch_H a) ++ repeat ch_h b).
  { rewrite Ex'. apply trim_end_app.
    apply last_not_app_repeat; [exact tick_ne_h|]. apply last_not_app_repeat; [exact tick_ne_H|].
    apply last_not_digits; [assumption|assumption|exact is_digit_tick]. }
  assert (T2 : trim_end ch_h (trim_end ch_tick x) = core ++ repeat ch_H a).
  { rewrite T1. apply trim_end_app. apply last_not_app_repeat; [exact h_ne_H|].
    apply last_not_digits; [assumption|assumption|exact is_digit_h]. }
  assert (T3 : trim_end ch_H (trim_end ch_h (trim_end ch_tick x)) = core).
  { rewrite T2. apply trim_end_app. apply last_not_digits; [assumption|assumption|exact is_digit_H]. }
  (* the flag *)
  assert (F : ends_with ch_tick x || ends_with ch_h x || ends_with ch_H x = negb (Nat.eqb (a + b + c) 0)).
  { destruct c as [|c].
    - rewrite Ex'. cbn [repeat]. rewrite app_nil_r.
      destruct b as [|b].
      + cbn [repeat]. rewrite app_nil_r.
        destruct a as [|a].
        * cbn [repeat]. rewrite app_nil_r. unfold core.
          rewrite !ends_with_digits by (assumption || reflexivity). reflexivity.
        * rewrite !ends_with_repeat. reflexivity.
      + rewrite !ends_with_repeat. replace (a + S b + 0)%nat with (S (a + b)) by lia. reflexivity.
    - rewrite Ex'. rewrite !ends_with_repeat. replace (a + b + S c)%nat with (S (a + b + c)) by lia. reflexivity. }
  unfold parse_idx. rewrite T3, F. unfold core.
  rewrite parse_u32_intro by (try assumption; lia).
  replace (HARDENED_KEY_OFFSET <=? dec_value ds) with false
    by (symmetry; apply N.leb_gt; exact Hv).
  rewrite Hi. destruct (Nat.eqb (a + b + c) 0); reflexivity.
Qed.

Lemma parse_idx_inv x i : parse_idx x = Ok i -> path_component x i.
Proof.
  intros H.
  destruct (trim_end_decomp ch_tick x) as (c & E1 & _).
  destruct (trim_end_decomp ch_h (trim_end ch_tick x)) as (b & E2 & _).
  destruct (trim_end_decomp ch_H (trim_end ch_h (trim_end ch_tick x))) as (a & E3 & _).
  pose proof H as H0. unfold parse_idx in H.
  set (core := trim_end ch_H (trim_end ch_h (trim_end ch_tick x))) in *.
  destruct (parse_u32 core) as [v|] eqn:Ev; [|discriminate].
  destruct (HARDENED_KEY_OFFSET <=? v) eqn:Eh; [discriminate|]. apply N.leb_gt in Eh.
  apply parse_u32_inv in Ev. destruct Ev as (plus & ds & Ecore & Hp & Hne & Hd & Hv & _).
  assert (Hc : path_component x (if Nat.eqb (a + b + c) 0 then dec_value ds else dec_value ds + 2147483648)).
  { exists plus, ds, a, b, c. subst v.
    repeat split; try assumption.
    rewrite E1, E2, E3, Ecore. rewrite <- !app_assoc. reflexivity. }
  pose proof (parse_idx_intro _ _ Hc) as H1. rewrite H0 in H1. inversion H1; subst i. exact Hc.
Qed.

Theorem parse_idx_iff x i : parse_idx x = Ok i <-> path_component x i.
Proof. split; [apply parse_idx_inv | apply parse_idx_intro]. Qed.

Lemma component_shape x i : path_component x i -> noslash x /\ x <> [].
Proof.
  intros (plus & ds & a & b & c & Ex & Hp & Hne & Hd & _). subst x. split.
  - apply noslash_app. split.
    + destruct Hp as [->| ->]; [intros []|]. apply noslash_cons. split; [discriminate|intros []].
    + apply noslash_app. split.
      * intros Hi. rewrite Forall_forall in Hd. apply Hd in Hi. rewrite is_digit_slash in Hi. discriminate.
      * apply noslash_app. split; [apply noslash_repeat; discriminate|].
        apply noslash_app. split; apply noslash_repeat; discriminate.
  - destruct ds as [|d r]; [contradiction|]. destruct plus; discriminate.
Qed.

(* ------------------------------------------------------------------ *)
(* the whole path *)
Definition children (s : list ascii) : list (list ascii) :=
  filter (fun x => negb (is_nil x)) (split_l ch_slash s).

Lemma body_intro s idx : path_body s idx -> map_outcome parse_idx (children s) = Ok idx.
Proof.
  unfold children. induction 1 as [|s idx _ IH|x i Hc|x i s idx Hc _ IH].
  - reflexivity.
  - change ("/"%char) with ch_slash. cbn [split_l]. rewrite Ascii.eqb_refl. cbn [filter is_nil negb]. exact IH.
  - destruct (component_shape x i Hc) as [Hns Hne].
    rewrite split_l_noslash by exact Hns. cbn [filter].
    destruct x as [|c r]; [contradiction|]. cbn [is_nil negb map_outcome].
    rewrite (parse_idx_intro _ _ Hc). reflexivity.
  - destruct (component_shape x i Hc) as [Hns Hne].
    change ("/"%char) with ch_slash. rewrite split_l_app by exact Hns. cbn [filter].
    destruct x as [|c r]; [contradiction|]. cbn [is_nil negb map_outcome].
    rewrite (parse_idx_intro _ _ Hc). cbn [bind]. rewrite IH. reflexivity.
Qed.

Lemma body_of_pieces pieces : forall idx,
  pieces <> [] ->
  map_outcome parse_idx (filter (fun x => negb (is_nil x)) pieces) = Ok idx ->
  path_body (unsplit pieces) idx.
Proof.
  induction pieces as [|x r IH]; intros idx Hne H; [contradiction|].
  destruct r as [|y r'].
  - cbn [unsplit filter] in *. destruct x as [|c t].
    + cbn [is_nil negb map_outcome] in H. inversion H. constructor.
    + cbn [is_nil negb map_outcome] in H.
      destruct (parse_idx (c :: t)) as [i| |] eqn:Ei; cbn [bind] in H; try discriminate.
      inversion H; subst idx. apply pb_last. apply parse_idx_inv. exact Ei.
  - change (unsplit (x :: y :: r')) with (x ++ ch_slash :: unsplit (y :: r')).
    assert (Hrr : y :: r' <> []) by discriminate.
    remember (y :: r') as rr eqn:Err. clear Err.
    cbn [filter] in H. destruct x as [|c t].
    + cbn [is_nil negb app] in *. apply pb_slash. apply IH; [exact Hrr | exact H].
    + cbn [is_nil negb map_outcome] in H.
      destruct (parse_idx (c :: t)) as [i| |] eqn:Ei; cbn [bind] in H; try discriminate.
      destruct (map_outcome parse_idx (filter (fun x => negb (is_nil x)) rr)) as [rest| |] eqn:Er;
        cbn [bind] in H; try discriminate.
      inversion H. apply pb_cons; [apply parse_idx_inv; exact Ei|].
      apply IH; [exact Hrr | reflexivity].
Qed.

Lemma body_inv s idx : map_outcome parse_idx (children s) = Ok idx -> path_body s idx.
Proof.
  intros H. rewrite <- (unsplit_split s). apply body_of_pieces; [apply split_l_ne | exact H].
Qed.

Theorem path_grammar p idx : parse_path p = Ok idx <-> path_language p idx.
Proof.
  unfold parse_path, path_language. split.
  - destruct p as [|c rest]; [discriminate|].
    destruct (Ascii.eqb c ch_m || Ascii.eqb c ch_M) eqn:Ec; [|discriminate].
    fold (children rest). intros H.
    destruct (map_outcome parse_idx (children rest)) as [l| |] eqn:El; cbn [bind] in H; try discriminate.
    destruct l as [|i l']; [discriminate|]. inversion H; subst idx.
    exists c, rest. split; [reflexivity|]. split.
    + apply orb_true_iff in Ec. destruct Ec as [Ec|Ec]; apply Ascii.eqb_eq in Ec; [left|right]; exact Ec.
    + split; [apply body_inv; exact El | discriminate].
  - intros (c & s & -> & Hc & Hb & Hne).
    replace (Ascii.eqb c ch_m || Ascii.eqb c ch_M) with true
      by (symmetry; apply orb_true_iff; destruct Hc as [->| ->]; [left|right]; apply Ascii.eqb_refl).
    fold (children s). rewrite (body_intro _ _ Hb). cbn [bind].
    destruct idx; [contradiction|reflexivity].
Qed.

(* ------------------------------------------------------------------ *)
(* the standard notation (Spec/Bip32Spec.v: std_path, a character automaton) is read by the
   library's parser as the same list of child numbers *)
Inductive std_body : list ascii -> list N -> Prop :=
| sb_last x i : path_component x i -> std_body x [i]
| sb_cons x i s idx : path_component x i -> std_body s idx -> std_body (x ++ ch_slash :: s) (i :: idx).

Lemma std_body_path_body s idx : std_body s idx -> path_body s idx /\ idx <> [].
Proof.
  induction 1 as [x i Hc|x i s idx Hc _ [IH _]].
  - split; [apply pb_last; exact Hc | discriminate].
  - split; [apply pb_cons; assumption | discriminate].
Qed.

Definition is_mark (c : ascii) : Prop := c = ch_tick \/ c = ch_h \/ c = ch_H.

(* what the automaton's "current component" state stands for: the characters [pre] consumed so far *)
Definition cur_inv (v : N) (closed : bool) (pre : list ascii) : Prop :=
  exists ds, ds <> [] /\ Forall isdig ds /\ dec_value ds < 2147483648 /\
    ((closed = false /\ pre = ds /\ v = dec_value ds) \/
     (closed = true /\ exists mk, is_mark mk /\ pre = ds ++ [mk] /\ v = dec_value ds + 2147483648)).

Lemma cur_inv_component v closed pre : cur_inv v closed pre -> path_component pre v.
Proof.
  intros (ds & Hne & Hd & Hv & [(-> & -> & ->)|(-> & mk & Hm & -> & ->)]).
  - exists [], ds, 0%nat, 0%nat, 0%nat. cbn [repeat app Nat.add Nat.eqb]. rewrite app_nil_r.
    repeat split; auto.
  - destruct Hm as [->|[->| ->]].
    + exists [], ds, 0%nat, 0%nat, 1%nat. repeat split; auto.
    + exists [], ds, 0%nat, 1%nat, 0%nat. repeat split; auto.
    + exists [], ds, 1%nat, 0%nat, 0%nat. repeat split; auto.
Qed.

Lemma dec_value_snoc ds c : dec_value (ds ++ [c]) = 10 * dec_value ds + (N_of_ascii c - 48).
Proof. unfold dec_value. rewrite fold_left_app. reflexivity. Qed.

Lemma is_digit_bound c : is_digit c = true -> N_of_ascii c - 48 <= 9.
Proof.
  unfold is_digit. intros H. apply andb_true_iff in H. destruct H as [H1 H2].
  apply N.leb_le in H1, H2. lia.
Qed.

Lemma pow31 : 2 ^ 31 = 2147483648. Proof. reflexivity. Qed.

Lemma go_sound l : forall acc cur res,
  std_path_go l acc cur = Some res ->
  match cur with
  | None => exists idx, res = rev acc ++ idx /\ std_body l idx
  | Some (v, closed) =>
      forall pre, cur_inv v closed pre -> exists idx, res = rev acc ++ idx /\ std_body (pre ++ l) idx
  end.
Proof.
  induction l as [|c r IH]; intros acc cur res H; cbn [std_path_go] in H.
  - destruct cur as [[v closed]|]; [|discriminate].
    destruct (v <? 2 ^ 31 + 2 ^ 31); [|discriminate]. inversion H; subst res.
    intros pre Hinv. exists [v]. cbn [rev]. split; [reflexivity|].
    rewrite app_nil_r. apply sb_last. eapply cur_inv_component. exact Hinv.
  - change "/"%char with ch_slash in H. change "'"%char with ch_tick in H.
    change "h"%char with ch_h in H. change "H"%char with ch_H in H.
    destruct (Ascii.eqb_spec c ch_slash) as [->|Nsl].
    { destruct cur as [[v closed]|]; [|discriminate].
      apply IH in H. destruct H as (idx & -> & Hb).
      intros pre Hinv. exists (v :: idx). cbn [rev]. rewrite <- app_assoc. split; [reflexivity|].
      apply sb_cons; [eapply cur_inv_component; exact Hinv | exact Hb]. }
    destruct (is_digit c) eqn:Edig.
    { destruct cur as [[v closed]|].
      - destruct closed; [discriminate|].
        rewrite pow31 in H.
        destruct (10 * v + (N_of_ascii c - 48) <? 2147483648) eqn:Elt; [|discriminate]. apply N.ltb_lt in Elt.
        apply IH in H. intros pre Hinv.
        destruct Hinv as (ds & Hne & Hd & Hv & [(_ & -> & ->)|(Ecl & _)]); [|discriminate].
        destruct (H (ds ++ [c])) as (idx & -> & Hb).
        { exists (ds ++ [c]). rewrite dec_value_snoc.
          split; [destruct ds; discriminate|]. split; [apply Forall_app; split; [exact Hd|constructor; [exact Edig|constructor]]|].
          split; [exact Elt|]. left. auto. }
        exists idx. split; [reflexivity|]. rewrite <- app_assoc in Hb. exact Hb.
      - apply IH in H. destruct (H [c]) as (idx & -> & Hb).
        { exists [c]. split; [discriminate|]. split; [constructor; [exact Edig|constructor]|].
          assert (Ev : dec_value [c] = N_of_ascii c - 48) by (unfold dec_value; cbn [fold_left]; lia).
          pose proof (is_digit_bound c Edig) as B. rewrite Ev.
          split; [lia|]. left. auto. }
        exists idx. split; [reflexivity|exact Hb]. }
    destruct (Ascii.eqb c ch_tick || Ascii.eqb c ch_h || Ascii.eqb c ch_H) eqn:Emk; [|discriminate].
    assert (Hmk : is_mark c).
    { apply orb_true_iff in Emk. destruct Emk as [Emk|Emk]; [apply orb_true_iff in Emk; destruct Emk as [Emk|Emk]|];
        apply Ascii.eqb_eq in Emk; unfold is_mark; auto. }
    destruct cur as [[v closed]|]; [|discriminate]. destruct closed; [discriminate|].
    apply IH in H. intros pre Hinv.
    destruct Hinv as (ds & Hne & Hd & Hv & [(_ & -> & ->)|(Ecl & _)]); [|discriminate].
    destruct (H (ds ++ [c])) as (idx & -> & Hb).
    { exists ds. split; [exact Hne|]. split; [exact Hd|]. split; [exact Hv|]. right. split; [reflexivity|].
      exists c. rewrite pow31. auto. }
    exists idx. split; [reflexivity|]. rewrite <- app_assoc in Hb. exact Hb.
Qed.

Theorem std_paths_ok p idx : std_path p = Some idx -> idx <> [] -> parse_path p = Ok idx.
Proof.
  unfold std_path. intros H Hne.
  destruct p as [|c r]; [discriminate|].
  change "m"%char with ch_m in H. change "M"%char with ch_M in H. change "/"%char with ch_slash in H.
  destruct (Ascii.eqb c ch_m || Ascii.eqb c ch_M) eqn:Ec; [|discriminate].
  destruct r as [|s r']; [inversion H; subst idx; contradiction|].
  destruct (Ascii.eqb_spec s ch_slash) as [->|_]; [|discriminate].
  apply go_sound in H. destruct H as (idx' & -> & Hb). cbn [rev app] in *.
  apply std_body_path_body in Hb. destruct Hb as [Hb _].
  apply path_grammar. exists c, (ch_slash :: r'). split; [reflexivity|]. split.
  - apply orb_true_iff in Ec. destruct Ec as [Ec|Ec]; apply Ascii.eqb_eq in Ec; [left|right]; exact Ec.
  - split; [apply pb_slash; exact Hb | exact Hne].
Qed.

(* the bare "m" / "M" (the key itself in the standard notation) is refused, never mapped to another key *)
Lemma bare_m_refused : parse_path [ch_m] = Err /\ parse_path [ch_M] = Err.
Proof. split; reflexivity. Qed.

(* ------------------------------------------------------------------ *)
(* derivation along a path = the specification's descent, for every path in the standard notation *)
From BSV Require Import Proofs.Bip32Proofs.
Local Open Scope Z_scope.

(* the IL <> 0 side condition of ckd_priv_eq_spec at every step of the descent *)
Fixpoint il_nonzero_along (E : ec_ops) (x : sxprv) (idx : list N) : Prop :=
  match idx with
  | [] => True
  | i :: r =>
      parse256 (firstn 32 (I_priv E (sk x) (sc x) i)) <> 0 /\
      match child_priv E x i with Some y => il_nonzero_along E y r | None => True end
  end.

Lemma child_priv_depth E x i y : child_priv E x i = Some y -> (sdepth y <= 255)%N.
Proof.
  unfold child_priv. destruct (CKDpriv E (sk x) (sc x) i) as [[ki ci]|]; [|discriminate].
  destruct (N.leb_spec 255 (sdepth x)) as [|Hlt]; [discriminate|].
  intros Hy. inversion Hy; subst y. cbn [sdepth]. lia.
Qed.

Lemma derive_all_eq_spec E idx : forall x,
  (sdepth x <= 255)%N -> il_nonzero_along E x idx ->
  derive_all (xprv_derive E) (model_of_spec E x) idx = of_option (option_map (model_of_spec E) (descend_priv E x idx)).
Proof.
  induction idx as [|i r IH]; intros x Hd Hil; cbn [derive_all descend_priv]; [reflexivity|].
  destruct Hil as [Hil Hrest]. rewrite (ckd_priv_eq_spec E x i Hd Hil).
  destruct (child_priv E x i) as [y|] eqn:Ey; cbn [option_map of_option bind]; [|reflexivity].
  apply IH; [eapply child_priv_depth; exact Ey | exact Hrest].
Qed.

Theorem derive_path_eq_spec E x p idx :
  std_path p = Some idx -> idx <> [] ->
  (sdepth x <= 255)%N -> il_nonzero_along E x idx ->
  xprv_derive_path E (model_of_spec E x) p = of_option (option_map (model_of_spec E) (descend_priv E x idx)).
Proof.
  intros Hp Hne Hd Hil. unfold xprv_derive_path. rewrite (std_paths_ok p idx Hp Hne). cbn [bind].
  apply derive_all_eq_spec; assumption.
Qed.
