(* Proofs/SigProofs.v — theorems about the signature encodings and public key recovery model (Model/Sig.v).

   * DER round trip through Signature::to_der_bytes / from_der for EVERY final byte; hex variant
   * DER + flag round trip through SighashSignature::to_bytes / from_bytes for all fourteen flag values
     (the fourteen values are those of the regenerated enum table)
   * exactness: what from_der / from_bytes accept is precisely the strict encoding (optionally + one flag byte for
     from_der, exactly one flag byte for from_bytes); hence trailing bytes, wrong lengths, zero and out-of-range
     scalars are rejected (for the Gallina DER codec of Prim/Der.v)
   * compact round trip for all recovery ids and both compression markers; from_compact never panics; exactness
   * recovery returns the signer's key in the recorded compression form (premise secp256k1_group, x(kG) < n) *)
From BSV Require Import Base.Bytes Base.Hex.
From BSV Require Import Prim.Num Prim.Secp256k1 Prim.Der Prim.Rfc6979.
From BSV Require Import Model.HashApi Model.Opcodes Model.Ecdsa Model.Sig Spec.EcdsaSpec.
From BSV Require Import Proofs.PrimLinks Proofs.Secp256k1Proofs Proofs.EcdsaSecp Proofs.EcdsaProofs.
Local Open Scope Z_scope.

Strategy 1000 [generate_k prim_sign prim_verify sec1_decode sec1_encode Secp256k1.pubkey smul recover lift_x der_decode der_encode].

Definition sig_ok (sg : signature) : Prop := 1 <= sig_r sg < secp_n /\ 1 <= sig_s sg < secp_n.

Lemma sig_low_ok sg : sig_low sg -> sig_ok sg.
Proof.
  unfold sig_low, sig_ok. assert (secp_n / 2 < secp_n) by reflexivity. lia.
Qed.

(* ------------------------------------------------------------------ *)
(* lists *)
Lemma last_opt_app {A} (l : list A) x : last_opt (l ++ [x]) = Some x.
Proof.
  induction l as [|a l IH]; [reflexivity|].
  cbn [app last_opt]. destruct (l ++ [x]) eqn:E; [destruct l; discriminate|]. exact IH.
Qed.

Lemma last_opt_spec {A} (l : list A) x : last_opt l = Some x -> l = removelast l ++ [x].
Proof.
  induction l as [|a l IH]; [discriminate|].
  destruct l as [|b l'].
  - cbn. intros E. inversion E. reflexivity.
  - intros E. change (last_opt (a :: b :: l')) with (last_opt (b :: l')) in E.
    change (removelast (a :: b :: l')) with (a :: removelast (b :: l')).
    cbn [app]. f_equal. apply IH. exact E.
Qed.

(* ------------------------------------------------------------------ *)
(* the fourteen flags: the generated enum table agrees with the list of the specification *)
Lemma is_flag_spec b : is_flag b = spec_is_flag b.
Proof. destruct b; vm_compute; reflexivity. Qed.

Lemma fourteen_flags : forallb (fun v => is_flag (n2b v)) flag_bytes = true /\ length flag_bytes = 14%nat.
Proof. split; vm_compute; reflexivity. Qed.

(* ------------------------------------------------------------------ *)
(* DER *)
Theorem der_roundtrip_lib sg :
  sig_ok sg -> from_der_impl (to_der_bytes sg) = Ok (mk_sig (sig_r sg, sig_s sg)).
Proof.
  intros [Hr Hs]. unfold from_der_impl, to_der_bytes.
  rewrite der_roundtrip by (rewrite der_n_is_secp_n; assumption). reflexivity.
Qed.

Theorem der_hex_roundtrip_lib sg :
  sig_ok sg -> from_hex_der (hex_of_bytes (to_der_bytes sg)) = Ok (mk_sig (sig_r sg, sig_s sg)).
Proof.
  intros V. unfold from_hex_der. rewrite bytes_of_hex_of_bytes. apply der_roundtrip_lib. exact V.
Qed.

(* from_der also accepts, by design, one trailing flag byte *)
Theorem der_flag_suffix_lib sg f :
  sig_ok sg -> is_flag f = true -> from_der_impl (to_der_bytes sg ++ [f]) = Ok (mk_sig (sig_r sg, sig_s sg)).
Proof.
  intros [Hr Hs] Hf. unfold from_der_impl, to_der_bytes.
  assert (D : der_decode (der_encode (sig_r sg) (sig_s sg)) = Some (sig_r sg, sig_s sg))
    by (apply der_roundtrip; rewrite der_n_is_secp_n; assumption).
  rewrite (der_decode_app_nonempty _ _ D [f]) by discriminate.
  rewrite last_opt_app, Hf, removelast_last, D. reflexivity.
Qed.

(* exactness: nothing else is accepted *)
Theorem from_der_exact bs sg :
  from_der_impl bs = Ok sg ->
  sig_ok sg /\ sig_rec sg = None /\
  (bs = to_der_bytes sg \/ exists f, is_flag f = true /\ bs = to_der_bytes sg ++ [f]).
Proof.
  unfold from_der_impl, to_der_bytes, sig_ok.
  destruct (der_decode bs) as [[r s]|] eqn:D.
  - intros E. inversion E; subst sg; clear E. cbn [mk_sig sig_r sig_s sig_rec fst snd].
    pose proof (der_decode_range _ _ _ D) as R. rewrite der_n_is_secp_n in R.
    split; [exact R|]. split; [reflexivity|]. left. apply der_exact. exact D.
  - destruct (last_opt bs) as [b|] eqn:L; [|discriminate].
    destruct (is_flag b) eqn:F; [|discriminate].
    destruct (der_decode (removelast bs)) as [[r s]|] eqn:D'; [|discriminate].
    intros E. inversion E; subst sg; clear E. cbn [mk_sig sig_r sig_s sig_rec fst snd].
    pose proof (der_decode_range _ _ _ D') as R. rewrite der_n_is_secp_n in R.
    split; [exact R|]. split; [reflexivity|]. right. exists b. split; [exact F|].
    rewrite <- (der_exact _ _ _ D'). apply last_opt_spec. exact L.
Qed.

(* ------------------------------------------------------------------ *)
(* DER + flag *)
Theorem sighash_sig_roundtrip sg f buf :
  sig_ok sg -> is_flag f = true ->
  (do b <- sighashsig_to_bytes {| ss_sig := sg; ss_flag := f; ss_buffer := buf |}; sighashsig_from_bytes b buf)
  = Ok {| ss_sig := mk_sig (sig_r sg, sig_s sg); ss_flag := f; ss_buffer := buf |}.
Proof.
  intros [Hr Hs] Hf. unfold sighashsig_to_bytes, sighashsig_from_bytes, to_der_bytes. cbn [bind ss_sig ss_flag].
  rewrite last_opt_app, removelast_last.
  rewrite der_roundtrip by (rewrite der_n_is_secp_n; assumption). rewrite Hf. reflexivity.
Qed.

Theorem sighashsig_exact bs buf ss :
  sighashsig_from_bytes bs buf = Ok ss ->
  sig_ok (ss_sig ss) /\ is_flag (ss_flag ss) = true /\ bs = to_der_bytes (ss_sig ss) ++ [ss_flag ss].
Proof.
  unfold sighashsig_from_bytes, to_der_bytes, sig_ok.
  destruct (last_opt bs) as [b|] eqn:L; [|discriminate].
  destruct (der_decode (removelast bs)) as [[r s]|] eqn:D; [|discriminate].
  destruct (is_flag b) eqn:F; [|discriminate].
  intros E. inversion E; subst ss; clear E. cbn [ss_sig ss_flag mk_sig sig_r sig_s fst snd].
  pose proof (der_decode_range _ _ _ D) as R. rewrite der_n_is_secp_n in R.
  split; [exact R|]. split; [exact F|].
  rewrite <- (der_exact _ _ _ D). apply last_opt_spec. exact L.
Qed.

(* ------------------------------------------------------------------ *)
(* compact form *)
Lemma sig_in_range_ok sg : sig_in_range secp_n (sig_r sg) (sig_s sg) = true <-> sig_ok sg.
Proof.
  unfold sig_in_range, sig_ok. rewrite !andb_true_iff, !Z.leb_le, !Z.ltb_lt. tauto.
Qed.

Lemma secp_n_lt : secp_n < 2 ^ 256.
Proof. reflexivity. Qed.

Theorem compact_roundtrip sg ri :
  sig_ok sg ->
  from_compact_impl (to_compact_bytes sg (Some ri)) = Ok {| sig_r := sig_r sg; sig_s := sig_s sg; sig_rec := Some ri |}.
Proof.
  intros V. pose proof V as [Hr Hs]. pose proof secp_n_lt as L.
  apply sig_in_range_ok in V.
  unfold to_compact_bytes, from_compact_impl.
  cbn [length]. rewrite app_length, !be32_length. change (Nat.eqb (S (32 + 32)) 65) with true. cbn [negb].
  rewrite firstn_be32_app, skipn_be32_app, !be_Z_be32 by lia. rewrite V.
  destruct ri as [[] [] []]; reflexivity.
Qed.

Theorem compact_roundtrip_own sg ri :
  sig_ok sg -> sig_rec sg = Some ri -> from_compact_impl (to_compact_bytes sg None) = Ok sg.
Proof.
  intros V E. replace (to_compact_bytes sg None) with (to_compact_bytes sg (Some ri))
    by (unfold to_compact_bytes; rewrite E; reflexivity).
  rewrite compact_roundtrip by exact V. destruct sg as [r s rc]. cbn [sig_rec] in E. subst rc. reflexivity.
Qed.

(* all four recovery ids and both compression markers: the header is 27 + recid + 4*compressed *)
Theorem compact_header_spec ri :
  compact_header ri =
  (27 + ((if ri_x_reduced ri then 2 else 0) + (if ri_y_odd ri then 1 else 0)) + (if ri_compressed ri then 4 else 0))%N.
Proof. destruct ri as [[] [] []]; reflexivity. Qed.

Theorem from_compact_total bs : from_compact_impl bs <> Panic.
Proof.
  unfold from_compact_impl.
  destruct (Nat.eqb (length bs) 65) eqn:E; cbn [negb]; [|discriminate].
  destruct bs as [|h body]; [discriminate|].
  destruct (negb _); [discriminate|].
  destruct (Z.of_N (b2n h) - 27 - 4 <? 0); destruct (3 <? _); try discriminate;
    destruct (sig_in_range _ _ _); discriminate.
Qed.

Theorem from_compact_rejects bs :
  (length bs <> 65%nat \/ exists h t, bs = h :: t /\ ~ (27 <= b2n h <= 34)%N) -> from_compact_impl bs = Err.
Proof.
  unfold from_compact_impl. intros [L|(h & t & -> & Hh)].
  - apply Nat.eqb_neq in L. rewrite L. reflexivity.
  - destruct (Nat.eqb (length (h :: t)) 65); [|reflexivity]. cbn [negb].
    replace ((27 <=? Z.of_N (b2n h)) && (Z.of_N (b2n h) <=? 34)) with false; [reflexivity|].
    symmetry. apply andb_false_iff. rewrite Z.leb_gt, Z.leb_gt. lia.
Qed.

(* ------------------------------------------------------------------ *)
(* recovery *)
Lemma point_eqb_eq A B : point_eqb A B = true <-> A = B.
Proof.
  destruct A as [[x1 y1]|], B as [[x2 y2]|]; cbn [point_eqb]; try (split; [discriminate | congruence]); [|tauto].
  rewrite andb_true_iff, !Z.eqb_eq. split; [intros [-> ->]; reflexivity | intros E; inversion E; auto].
Qed.

Section Group.
  Hypothesis H : secp256k1_group.
  Local Notation pub := Secp256k1.pubkey.

  Lemma pubkey_from_own_bytes c d :
    1 <= d < secp_n ->
    pubkey_from_bytes ref_prims (sec1_encode c (pub d)) = Ok {| pk_point := sec1_encode c (pub d); pk_compressed := c |}.
  Proof.
    intros Hd. unfold pubkey_from_bytes. cbn [p_decode ref_prims].
    rewrite (sec1_roundtrip_valid H c (pub d) (pubkey_valid H d) (pubkey_nonzero H d Hd)).
    pose proof (pubkey_nonzero H d Hd) as N.
    destruct (pub d) as [[x y]|]; [|congruence].
    destruct c; cbn [sec1_encode]; [destruct (Z.odd y)|]; reflexivity.
  Qed.

  (* the generic core: whatever nonce was used, provided x(kG) < n (k256 never records the other case) *)
  Theorem sign_core_recovers sk ko z sg :
    valid_sk sk ->
    (forall k, ko = Some k -> 0 < k < secp_n /\ 0 <= xcoord (smul k G) < secp_n) ->
    sign_core ref_prims sk ko z = Ok sg ->
    recover_with ref_prims sg z = Ok (to_public_key ref_prims sk).
  Proof.
    intros V Hk. unfold sign_core. destruct ko as [k|]; [|discriminate]. cbn [p_sign ref_prims].
    destruct (prim_sign (sk_d sk) k z) as [[[r s] v]|] eqn:E; [|discriminate].
    intros E'. inversion E'; subst sg; clear E'.
    destruct (Hk k eq_refl) as [Hk1 Hk2].
    pose proof (pubkey_nonzero H (sk_d sk) V) as NZ. unfold Secp256k1.pubkey in NZ.
    unfold recover_with, recovers_identity. cbn [sig_rec sig_r sig_s ri_x_reduced ri_y_odd ri_compressed p_lift p_smul p_recover ref_prims].
    replace (match lift_x r v with Some R => point_eqb (smul s R) (smul z G) | None => false end) with false.
    - rewrite (secp_recover_signer H (sk_d sk) k z r s v Hk1 Hk2 NZ E). cbn [bind].
      unfold to_public_key. cbn [p_pubkey ref_prims]. apply pubkey_from_own_bytes. exact V.
    - destruct (lift_x r v) as [R|] eqn:EL; [|reflexivity]. symmetry.
      destruct (point_eqb (smul s R) (smul z G)) eqn:EP; [|reflexivity].
      apply point_eqb_eq in EP. exfalso.
      exact (secp_genuine_not_identity H (sk_d sk) k z r s v R Hk1 Hk2 NZ E EL EP).
  Qed.

  Theorem sign_det_recovers sk m a rk sg :
    valid_sk sk ->
    sign_with_deterministic_k ref_prims sk m a rk = Ok sg ->
    (forall k, det_nonce (sk_d sk) (message_digest a m) rk = Some k -> 0 <= xcoord (smul k G) < secp_n) ->
    get_public_key ref_prims sg m a = Ok (to_public_key ref_prims sk).
  Proof.
    intros V E Hx. unfold get_public_key. unfold sign_with_deterministic_k in E.
    apply (sign_core_recovers sk _ _ sg V) in E; [exact E|].
    intros k Ek. split; [|apply Hx; exact Ek].
    unfold det_nonce in Ek. exact (generate_k_range _ _ _ _ _ Ek).
  Qed.

  (* through the compact encoding: sign, serialise, parse, recover *)
  Theorem sign_compact_recover sk m a rk sg :
    valid_sk sk ->
    sign_with_deterministic_k ref_prims sk m a rk = Ok sg ->
    (forall k, det_nonce (sk_d sk) (message_digest a m) rk = Some k -> 0 <= xcoord (smul k G) < secp_n) ->
    (do back <- from_compact_impl (to_compact_bytes sg None); get_public_key ref_prims back m a)
    = Ok (to_public_key ref_prims sk).
  Proof.
    intros V E Hx.
    assert (R : exists ri, sig_rec sg = Some ri).
    { unfold sign_with_deterministic_k, sign_core in E.
      destruct (det_nonce _ _ _) as [k|]; [|discriminate]. cbn [p_sign ref_prims] in E.
      destruct (prim_sign _ _ _) as [[[r s] v]|]; [|discriminate]. inversion E. eexists. reflexivity. }
    destruct R as [ri R].
    rewrite (compact_roundtrip_own sg ri (sig_low_ok sg (sign_det_low sk m a rk sg E)) R). cbn [bind].
    apply (sign_det_recovers sk m a rk sg V E Hx).
  Qed.
End Group.
