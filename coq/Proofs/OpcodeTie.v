(* Proofs/OpcodeTie.v — the opcode enum regenerated from src/script/op_codes.rs equals the protocol table of
   Spec/OpcodeSpec.v entry by entry (names and byte values, in both directions).  Re-proved whenever the Rust enum
   changes; a renamed, renumbered, added or removed opcode makes this file fail to build. *)
From BSV Require Import Base.Hex Gen.Opcodes_gen Spec.OpcodeSpec Model.Opcodes.

Definition table_sub (a b : list (string * N)) : bool :=
  forallb (fun p => match lookup_val b (fst p) with Some v => (v =? snd p)%N | None => false end) a.

Lemma opcode_table_is_protocol_table :
  table_sub opcode_table opcode_spec_table = true /\ table_sub opcode_spec_table opcode_table = true /\
  length opcode_table = length opcode_spec_table.
Proof. repeat split; vm_compute; reflexivity. Qed.
