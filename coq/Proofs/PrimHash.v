(* Proofs/PrimHash.v — facts about the Gallina reference primitives themselves (C13 item 5):
   output lengths and padding lengths for every input, structure of the padding, and the slow
   known-answer vectors that are kept out of Prim/ so that Prim/*.vo build quickly.            *)
From BSV Require Import Base.Bytes Base.Hex Prim.MD Prim.Sha256 Prim.Sha512 Prim.Sha1 Prim.Ripemd160
     Prim.Hmac Prim.Pbkdf2.

(* ------------------------------------------------------------------ *)
(* output lengths, all inputs *)
Lemma hash_output_lengths m :
  length (sha1 m) = 20 /\ length (sha256 m) = 32 /\ length (sha512 m) = 64 /\ length (ripemd160 m) = 20.
Proof. repeat split; [apply sha1_length | apply sha256_length | apply sha512_length | apply ripemd160_length]. Qed.

Lemma hmac_output_lengths k m :
  length (hmac_sha1 k m) = 20 /\ length (hmac_sha256 k m) = 32 /\ length (hmac_sha512 k m) = 64
  /\ length (hmac_ripemd160 k m) = 20.
Proof.
  repeat split; [apply hmac_sha1_length | apply hmac_sha256_length | apply hmac_sha512_length | apply hmac_ripemd160_length].
Qed.

Lemma pbkdf2_output_lengths pw salt c dklen :
  length (pbkdf2_hmac_sha1 pw salt c dklen) = dklen /\ length (pbkdf2_hmac_sha256 pw salt c dklen) = dklen
  /\ length (pbkdf2_hmac_sha512 pw salt c dklen) = dklen.
Proof.
  repeat split; [apply pbkdf2_hmac_sha1_length | apply pbkdf2_hmac_sha256_length | apply pbkdf2_hmac_sha512_length].
Qed.

(* ------------------------------------------------------------------ *)
(* padding: whole number of blocks; never more than one extra block; message is a prefix *)
Lemma padding_block_multiple m :
  length (pad_be64 m) mod 64 = 0 /\ length (pad_le64 m) mod 64 = 0 /\ length (pad_be128 m) mod 128 = 0.
Proof. repeat split; [apply pad_be64_length | apply pad_le64_length | apply pad_be128_length]. Qed.

Lemma pad_be64_bounds m : length m + 9 <= length (pad_be64 m) <= length m + 72.
Proof.
  pose proof (md_pad_length 64 8 (be_bytes 8) m (fun n => be_bytes_length 8 n)) as H.
  unfold pad_be64. unfold md_zeros in H. lia.
Qed.

Lemma pad_le64_bounds m : length m + 9 <= length (pad_le64 m) <= length m + 72.
Proof.
  pose proof (md_pad_length 64 8 (le_bytes 8) m (fun n => le_bytes_length 8 n)) as H.
  unfold pad_le64. unfold md_zeros in H. lia.
Qed.

Lemma pad_be128_bounds m : length m + 17 <= length (pad_be128 m) <= length m + 144.
Proof.
  pose proof (md_pad_length 128 16 (be_bytes 16) m (fun n => be_bytes_length 16 n)) as H.
  unfold pad_be128. unfold md_zeros in H. lia.
Qed.

(* number of compression-function calls: 55 bytes fit in one block, 56 need two (and 111 / 112 for SHA-512) *)
Lemma pad_be64_blocks m : length (pad_be64 m) = 64 * ((length m + 8) / 64 + 1).
Proof.
  pose proof (md_pad_length 64 8 (be_bytes 8) m (fun n => be_bytes_length 8 n)) as H.
  unfold pad_be64. unfold md_zeros in H. lia.
Qed.

Lemma pad_le64_blocks m : length (pad_le64 m) = 64 * ((length m + 8) / 64 + 1).
Proof.
  pose proof (md_pad_length 64 8 (le_bytes 8) m (fun n => le_bytes_length 8 n)) as H.
  unfold pad_le64. unfold md_zeros in H. lia.
Qed.

Lemma pad_be128_blocks m : length (pad_be128 m) = 128 * ((length m + 16) / 128 + 1).
Proof.
  pose proof (md_pad_length 128 16 (be_bytes 16) m (fun n => be_bytes_length 16 n)) as H.
  unfold pad_be128. unfold md_zeros in H. lia.
Qed.

(* the padded message ends with the bit length *)
Lemma pad_be64_suffix m :
  exists z, pad_be64 m = m ++ x80 :: zeros z ++ be_bytes 8 (8 * N.of_nat (length m)).
Proof. eexists. reflexivity. Qed.

(* words: 4 (8) bytes per word, so a padded message is a whole number of 16-word blocks *)
Lemma be32_words_length bs : length (be32_words bs) = length bs / 4.
Proof.
  assert (H : forall n bs, length bs < n -> length (be32_words bs) = length bs / 4).
  { induction n as [|n IH]; intros l Hl; [lia|].
    destruct l as [|a [|b [|c [|d r]]]]; try reflexivity.
    cbn [be32_words length]. rewrite IH by (cbn [length] in Hl; lia).
    change (S (S (S (S (length r))))) with (4 + length r).
    replace (4 + length r) with (length r + 1 * 4) by lia. rewrite Nat.div_add by lia. lia. }
  apply (H (S (length bs))). lia.
Qed.

Lemma sha256_block_count m : length (be32_words (pad_be64 m)) = 16 * ((length m + 8) / 64 + 1).
Proof. rewrite be32_words_length, pad_be64_blocks. lia. Qed.

(* ------------------------------------------------------------------ *)
(* slow known answers *)
Module SlowVectors.
Local Open Scope string_scope.
Import Pbkdf2Tests.

(* RFC 6070 test 3: 4096 iterations (about 40 s under vm_compute) *)
Example rfc6070_4096 : hx pbkdf2_hmac_sha1 (s "password") (s "salt") 4096 20 = "4b007901b765489abead49d926f721d065a429c1".
Proof. vm_compute; reflexivity. Qed.

(* FIPS 180-4 long message: one million 'a' is out of reach of a few seconds; 10000 bytes of the LCG stream
   cross-checked with python hashlib instead *)
Example sha256_lcg10000 :
  sha256_hex (lcg_bytes (N.to_nat 10000) 1) = "46ac0b19c167199f3e5e604ee3b68b5deedec158e2c6271a0509d2f7df0c5f3b".
Proof. vm_compute; reflexivity. Qed.
End SlowVectors.
