(* Proofs/PrimHash.v — facts about the Gallina reference primitives themselves (C13 item 5):
   output lengths and padding lengths for every input, structure of the padding, and the slow
   known-answer vectors that are kept out of Prim/ so that Prim/*.vo build quickly.            *)
From BSV Require Import Base.Bytes Base.Hex Prim.MD Prim.Sha256 Prim.Sha512 Prim.Sha1 Prim.Ripemd160
     Prim.Hmac Prim.Pbkdf2.

(* ------------------------------------------------------------------ *)
(* output lengths, all inputs *)
Lemma hash_output_lengths m :
  length (sha1 m) = 20 /\ length (sha256 m) = 32 /\ length (sha512 m) = 64 /\ length (ripemd160 m) = 20.
Proof. repeat split; [apply sha1_length | apply sha256_length | apply sha512_length | apply ripemd160_length]. Qed.

Lemma hmac_output_lengths k m :
  length (hmac_sha1 k m) = 20 /\ length (hmac_sha256 k m) = 32 /\ length (hmac_sha512 k m) = 64
  /\ length (hmac_ripemd160 k m) = 20.
Proof.
  repeat split; [apply hmac_sha1_length | apply hmac_sha256_length | apply hmac_sha512_length | apply hmac_ripemd160_length].
Qed.

Lemma pbkdf2_output_lengths pw salt c dklen :
  length (pbkdf2_hmac_sha1 pw salt c dklen) = dklen /\ length (pbkdf2_hmac_sha256 pw salt c dklen) = dklen
  /\ length (pbkdf2_hmac_sha512 pw salt c dklen) = dklen.
Proof.
  repeat split; [apply pbkdf2_hmac_sha1_length | apply pbkdf2_hmac_sha256_length | apply pbkdf2_hmac_sha512_length].
Qed.

(* ------------------------------------------------------------------ *)
(* padding: whole number of blocks; never more than one extra block; message is a prefix *)
Lemma padding_block_multiple m :
  length (pad_be64 m) mod 64 = 0 /\ length (pad_le64 m) mod 64 = 0 /\ length (pad_be128 m) mod 128 = 0.
Proof. repeat split; [apply pad_be64_length | apply pad_le64_length | apply pad_be128_length]. Qed.

Lemma pad_be64_bounds m : length m + 9 <= length (pad_be64 m) <= length m + 72.
Proof.
  pose proof (md_pad_length 64 8 (be_bytes 8) m (fun n => be_bytes_length 8 n)) as H.
  unfold pad_be64. unfold md_zeros in H. lia.
Qed.

Lemma pad_le64_bounds m : length m + 9 <= length (pad_le64 m) <= length m + 72.
Proof.
  pose proof (md_pad_length 64 8 (le_bytes 8) m (fun n => le_bytes_length 8 n)) as H.
  unfold pad_le64. unfold md_zeros in H. lia.
Qed.

Lemma pad_be128_bounds m : length m + 17 <= length (pad_be128 m) <= length m + 144.
Proof.
  pose proof (md_pad_length 128 16 (be_bytes 16) m (fun n => be_bytes_length 16 n)) as H.
  unfold pad_be128. unfold md_zeros in H. lia.
Qed.

(* number of compression-function calls: 55 bytes fit in one block, 56 need two (and 111 / 112 for SHA-512) *)
Lemma pad_be64_blocks m : length (pad_be64 m) = 64 * ((length m + 8) / 64 + 1).
Proof.
  pose proof (md_pad_length 64 8 (be_bytes 8) m (fun n => be_bytes_length 8 n)) as H.
  unfold pad_be64. unfold md_zeros in H. lia.
Qed.

Lemma pad_le64_blocks m : length (pad_le64 m) = 64 * ((length m + 8) / 64 + 1).
Proof.
  pose proof (md_pad_length 64 8 (le_bytes 8) m (fun n => le_bytes_length 8 n)) as H.
  unfold pad_le64. unfold md_zeros in H. lia.
Qed.

Lemma pad_be128_blocks m : length (pad_be128 m) = 128 * ((length m + 16) / 128 + 1).
Proof.
  pose proof (md_pad_length 128 16 (be_bytes 16) m (fun n => be_bytes_length 16 n)) as H.
  unfold pad_be128. unfold md_zeros in H. lia.
Qed.

(* the padded message ends with the bit length *)
Lemma pad_be64_suffix m :
  exists z, pad_be64 m = m ++ x80 :: zeros z ++ be_bytes 8 (8 * N.of_nat (length m)).
Proof. eexists. reflexivity. Qed.

(* words: 4 (8) bytes per word, so a padded message is a whole number of 16-word blocks *)
Lemma be32_words_length bs : length (be32_words bs) = length bs / 4.
Proof.
  assert (H : forall n bs, length bs < n -> length (be32_words bs) = length bs / 4).
  { induction n as [|n IH]; intros l Hl; [lia|].
    destruct l as [|a [|b [|c [|d r]]]]; try reflexivity.
    cbn [be32_words length]. rewrite IH by (cbn [length] in Hl; lia).
    change (S (S (S (S (length r))))) with (4 + length r).
    replace (4 + length r) with (length r + 1 * 4) by lia. rewrite Nat.div_add by lia. lia. }
  apply (H (S (length bs))). lia.
Qed.

Lemma sha256_block_count m : length (be32_words (pad_be64 m)) = 16 * ((length m + 8) / 64 + 1).
Proof. rewrite be32_words_length, pad_be64_blocks. lia. Qed.

(* ------------------------------------------------------------------ *)
(* the padding is injective: two messages shorter than 2^61 bytes (bit length < 2^64) never share a
   padded form, so distinct messages reach the compression chain as distinct block sequences *)
Lemma app_same_length_inv {A} (a b x y : list A) :
  length x = length y -> a ++ x = b ++ y -> a = b /\ x = y.
Proof.
  intros Hl E.
  assert (La : length a = length b).
  { apply (f_equal (@length A)) in E. rewrite !app_length in E. lia. }
  revert b La E; induction a as [|h a IH]; intros [|h' b] La E; cbn [length] in La; try discriminate.
  - split; [reflexivity | exact E].
  - cbn [app] in E. inversion E as [[Eh Et]]. destruct (IH b ltac:(lia) Et) as [-> ->]. split; reflexivity.
Qed.

Lemma md_pad_inj block lenlen enc m1 m2 :
  (forall n, length (enc n) = N.to_nat lenlen) ->
  (forall a b, (a < 2 ^ 64)%N -> (b < 2 ^ 64)%N -> enc a = enc b -> a = b) ->
  (N.of_nat (length m1) < 2 ^ 61)%N -> (N.of_nat (length m2) < 2 ^ 61)%N ->
  md_pad block lenlen enc m1 = md_pad block lenlen enc m2 -> m1 = m2.
Proof.
  intros Henc Hinj B1 B2 E. unfold md_pad in E. cbn zeta in E.
  set (l1 := N.of_nat (length m1)) in *. set (l2 := N.of_nat (length m2)) in *.
  (* compare the trailing length fields *)
  assert (E' : (m1 ++ x80 :: zeros (N.to_nat (md_zeros block lenlen l1))) ++ enc (8 * l1)%N
             = (m2 ++ x80 :: zeros (N.to_nat (md_zeros block lenlen l2))) ++ enc (8 * l2)%N).
  { rewrite <- !app_assoc. cbn [app]. exact E. }
  apply app_same_length_inv in E'; [|rewrite !Henc; reflexivity].
  destruct E' as [Ebody Elen].
  assert (L : l1 = l2).
  { apply Hinj in Elen; [lia | change (2 ^ 64)%N with (8 * 2 ^ 61)%N; lia | change (2 ^ 64)%N with (8 * 2 ^ 61)%N; lia]. }
  assert (Ln : length m1 = length m2) by (unfold l1, l2 in L; lia).
  rewrite L in Ebody.
  apply (f_equal (firstn (length m1))) in Ebody.
  rewrite firstn_app, Nat.sub_diag, firstn_all in Ebody. cbn [firstn] in Ebody. rewrite app_nil_r in Ebody.
  rewrite Ln, firstn_app, Nat.sub_diag, firstn_all in Ebody. cbn [firstn] in Ebody. rewrite app_nil_r in Ebody.
  exact Ebody.
Qed.

Lemma be_bytes_inj k a b :
  (a < 256 ^ N.of_nat k)%N -> (b < 256 ^ N.of_nat k)%N -> be_bytes k a = be_bytes k b -> a = b.
Proof.
  intros Ha Hb E. unfold be_bytes in E. apply (f_equal (@rev byte)) in E. rewrite !rev_involutive in E.
  exact (le_bytes_inj k a b Ha Hb E).
Qed.

Lemma pad_be64_inj m1 m2 :
  (N.of_nat (length m1) < 2 ^ 61)%N -> (N.of_nat (length m2) < 2 ^ 61)%N ->
  pad_be64 m1 = pad_be64 m2 -> m1 = m2.
Proof.
  apply md_pad_inj; [apply be_bytes_length|].
  intros a b Ha Hb. apply be_bytes_inj; assumption.
Qed.

Lemma pad_le64_inj m1 m2 :
  (N.of_nat (length m1) < 2 ^ 61)%N -> (N.of_nat (length m2) < 2 ^ 61)%N ->
  pad_le64 m1 = pad_le64 m2 -> m1 = m2.
Proof.
  apply md_pad_inj; [apply le_bytes_length|].
  intros a b Ha Hb. apply le_bytes_inj; assumption.
Qed.

Lemma pad_be128_inj m1 m2 :
  (N.of_nat (length m1) < 2 ^ 61)%N -> (N.of_nat (length m2) < 2 ^ 61)%N ->
  pad_be128 m1 = pad_be128 m2 -> m1 = m2.
Proof.
  apply md_pad_inj; [apply be_bytes_length|].
  intros a b Ha Hb. apply be_bytes_inj.
  - eapply N.lt_trans; [exact Ha | vm_compute; reflexivity].
  - eapply N.lt_trans; [exact Hb | vm_compute; reflexivity].
Qed.

(* ------------------------------------------------------------------ *)
(* slow known answers *)
Module SlowVectors.
Local Open Scope string_scope.
Import Pbkdf2Tests.

(* RFC 6070 test 3: 4096 iterations (about 40 s under vm_compute) *)
Example rfc6070_4096 : hx pbkdf2_hmac_sha1 (s "password") (s "salt") 4096 20 = "4b007901b765489abead49d926f721d065a429c1".
Proof. vm_compute; reflexivity. Qed.

(* FIPS 180-4 long message: one million 'a' is out of reach of a few seconds; 10000 bytes of the LCG stream
   cross-checked with python hashlib instead *)
Example sha256_lcg10000 :
  sha256_hex (lcg_bytes (N.to_nat 10000) 1) = "46ac0b19c167199f3e5e604ee3b68b5deedec158e2c6271a0509d2f7df0c5f3b".
Proof. vm_compute; reflexivity. Qed.
End SlowVectors.
