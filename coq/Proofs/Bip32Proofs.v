(* Proofs/Bip32Proofs.v — lemmas behind Props/C08.v (everything except the path grammar, which is in
   Proofs/Bip32PathProofs.v).

   The implementation model (Model/Bip32.v: hashes of Model/HashApi.v) is related to the
   specification (Spec/Bip32Spec.v: hashes of Prim/) for EVERY curve interface [E : ec_ops]; the
   statements that need a group law carry it as an explicit premise. *)
From BSV Require Import Base.Bytes Base.Hex.
From BSV Require Import Prim.Sha256 Prim.Sha512 Prim.Ripemd160 Prim.Hmac Prim.Base58 Prim.Secp256k1.
From BSV Require Import Spec.HashSpec Model.HashApi Proofs.HashApiProofs Proofs.Secp256k1Proofs.
From BSV Require Import Model.EcIface Model.Bip32 Spec.Bip32Spec.
Local Open Scope Z_scope.

(* ------------------------------------------------------------------ *)
(* hashes of the model = hashes of the specification *)
Lemma hmac512_link input key : sha_512_hmac input key = hmac_sha512 key input.
Proof. rewrite sha_512_hmac_spec, hmac_spec_sha512. reflexivity. Qed.
Lemma hash160_link m : hash_160 m = hash160 m.
Proof. apply hash_160_def. Qed.
Lemma sha256d_link m : sha_256d m = sha256d m.
Proof. apply sha_256d_def. Qed.
Lemma sha256d_length m : length (sha256d m) = 32%nat.
Proof. apply sha256_length. Qed.
Lemma sha_256d_length m : length (sha_256d m) = 32%nat.
Proof. rewrite sha256d_link. apply sha256d_length. Qed.

Lemma bip_n_eq : bip_n = secp_n.
Proof. reflexivity. Qed.
Lemma two31 : (2 ^ 31)%N = HARDENED_KEY_OFFSET.
Proof. reflexivity. Qed.

(* ------------------------------------------------------------------ *)
(* small facts *)
Lemma split_I_64 (I : bytes) : length I = 64%nat -> split_I I = Ok (firstn 32 I, skipn 32 I).
Proof.
  intros H. unfold split_I. rewrite H.
  destruct (Nat.ltb_spec 64 32) as [L|_]; [lia|].
  destruct (Nat.ltb_spec 64 64) as [L|_]; [lia|].
  do 2 f_equal. apply firstn_all2. rewrite skipn_length. lia.
Qed.

Lemma in_scalar_spec v : 0 <= v -> in_scalar v = negb ((v =? 0) || (secp_n <=? v)).
Proof.
  intros H. unfold in_scalar.
  destruct (Z.eqb_spec v 0), (Z.leb_spec secp_n v), (Z.leb_spec 1 v), (Z.ltb_spec v secp_n);
    cbn [negb orb andb]; try reflexivity; lia.
Qed.

Lemma be_Z_nonneg bs : 0 <= be_Z bs.
Proof. unfold be_Z. apply N2Z.is_nonneg. Qed.

Lemma secret_of_bytes_32 bs :
  length bs = 32%nat ->
  secret_of_bytes bs = if (be_Z bs =? 0) || (secp_n <=? be_Z bs) then Err else Ok (be_Z bs).
Proof.
  intros H. unfold secret_of_bytes. rewrite H, Nat.eqb_refl. cbv zeta.
  rewrite in_scalar_spec by apply be_Z_nonneg.
  destruct ((be_Z bs =? 0) || (secp_n <=? be_Z bs)); reflexivity.
Qed.

Lemma firstn32_length (I : bytes) : length I = 64%nat -> length (firstn 32 I) = 32%nat.
Proof. intros H. rewrite firstn_length, H. reflexivity. Qed.

(* big-endian fixed-width integers *)
Lemma be_val_be_bytes k n : be_val (be_bytes k n) = (n mod 256 ^ N.of_nat k)%N.
Proof. unfold be_val, be_bytes. rewrite rev_involutive. apply le_val_le_bytes. Qed.
Lemma be_bytes_length k n : length (be_bytes k n) = k.
Proof. unfold be_bytes. rewrite rev_length. apply le_bytes_length. Qed.
Lemma be_bytes_be_val bs : be_bytes (length bs) (be_val bs) = bs.
Proof.
  unfold be_bytes, be_val. rewrite <- (rev_length bs), le_bytes_le_val. apply rev_involutive.
Qed.
Lemma be_val_single b : be_val [b] = b2n b.
Proof. unfold be_val. cbn [rev app le_val]. lia. Qed.
Lemma ser_u32_length i : length (ser_u32 i) = 4%nat.
Proof. apply be_bytes_length. Qed.

(* ------------------------------------------------------------------ *)
(* the model's view of a specification-level key *)
Definition model_of_spec (E : ec_ops) (x : sxprv) : xprv :=
  MkXprv (sk x) true (serP E (point E (sk x))) (sc x) (sdepth x) (schild x) (sfp x).
Definition pmodel_of_spec (E : ec_ops) (x : sxpub E) : xpub :=
  MkXpub (serP E (sK E x)) (sC E x) (sDepth E x) (sChild E x) (sFp E x).

Lemma neuter_model_of_spec E x :
  xpub_from_xprv (model_of_spec E x) = pmodel_of_spec E (neuter E x).
Proof. reflexivity. Qed.

(* ------------------------------------------------------------------ *)
(* master key *)
Theorem master_eq_spec E seed :
  xprv_from_seed E seed = of_option (option_map (model_of_spec E) (master seed)).
Proof.
  unfold xprv_from_seed, master. rewrite hmac512_link.
  set (I := hmac_sha512 (bytes_of_string "Bitcoin seed") seed).
  assert (HI : length I = 64%nat) by apply hmac_sha512_length.
  rewrite (split_I_64 I HI). cbn [bind].
  rewrite (secret_of_bytes_32 _ (firstn32_length I HI)).
  change (parse256 (firstn 32 I)) with (be_Z (firstn 32 I)). rewrite bip_n_eq.
  destruct ((be_Z (firstn 32 I) =? 0) || (secp_n <=? be_Z (firstn 32 I))); reflexivity.
Qed.

(* ------------------------------------------------------------------ *)
(* private derivation *)
Lemma I_priv_link E k c i :
  sha_512_hmac (if (HARDENED_KEY_OFFSET <=? i)%N then [x00] ++ be32 k ++ ser_u32 i
                else serP E (point E k) ++ ser_u32 i) c = I_priv E k c i.
Proof.
  unfold I_priv, hardened. rewrite hmac512_link, two31.
  destruct (HARDENED_KEY_OFFSET <=? i)%N; reflexivity.
Qed.

Lemma I_priv_length E k c i : length (I_priv E k c i) = 64%nat.
Proof. unfold I_priv. destruct (hardened i); apply hmac_sha512_length. Qed.

Lemma fingerprint_link E k : firstn 4 (hash_160 (serP E (point E k))) = fingerprint E (point E k).
Proof. rewrite hash160_link. reflexivity. Qed.

Lemma mod_n_range a : 0 <= a mod secp_n < secp_n.
Proof. apply Z.mod_pos_bound. reflexivity. Qed.

Theorem ckd_priv_eq_spec E x i :
  (sdepth x <= 255)%N ->
  parse256 (firstn 32 (I_priv E (sk x) (sc x) i)) <> 0 ->
  xprv_derive E (model_of_spec E x) i = of_option (option_map (model_of_spec E) (child_priv E x i)).
Proof.
  intros Hd Hil. unfold xprv_derive, child_priv, CKDpriv.
  cbn [xs_key xs_pub xs_cc xs_depth xs_comp model_of_spec].
  rewrite I_priv_link, fingerprint_link.
  set (I := I_priv E (sk x) (sc x) i) in *.
  assert (HI : length I = 64%nat) by apply I_priv_length.
  rewrite (split_I_64 I HI). cbn [bind].
  rewrite (secret_of_bytes_32 _ (firstn32_length I HI)).
  change (parse256 (firstn 32 I)) with (be_Z (firstn 32 I)) in *. rewrite bip_n_eq.
  set (il := be_Z (firstn 32 I)) in *.
  replace (il =? 0) with false by (symmetry; apply Z.eqb_neq; exact Hil). cbn [orb].
  destruct (secp_n <=? il); cbn [bind of_option option_map orb]; [reflexivity|].
  rewrite (Z.add_comm (sk x) il).
  destruct ((il + sk x) mod secp_n =? 0); cbn [of_option option_map]; [reflexivity|].
  destruct (N.eqb_spec (sdepth x) 255) as [E255|N255].
  - rewrite E255. reflexivity.
  - replace (255 <=? sdepth x)%N with false by (symmetry; apply N.leb_gt; lia). reflexivity.
Qed.

(* the one deviation from the text: IL = 0 is refused (BIP32 accepts it); hitting it needs an
   HMAC-SHA512 output whose first 32 bytes are zero *)
Theorem ckd_priv_il_zero_refused E x i :
  parse256 (firstn 32 (I_priv E (sk x) (sc x) i)) = 0 ->
  xprv_derive E (model_of_spec E x) i = Err.
Proof.
  intros Hil. unfold xprv_derive.
  cbn [xs_key xs_pub xs_cc xs_depth xs_comp model_of_spec].
  rewrite I_priv_link.
  set (I := I_priv E (sk x) (sc x) i) in *.
  assert (HI : length I = 64%nat) by apply I_priv_length.
  rewrite (split_I_64 I HI). cbn [bind].
  rewrite (secret_of_bytes_32 _ (firstn32_length I HI)).
  change (parse256 (firstn 32 I)) with (be_Z (firstn 32 I)) in Hil. rewrite Hil. reflexivity.
Qed.

(* ------------------------------------------------------------------ *)
(* public derivation *)
Lemma I_pub_link E K c i : sha_512_hmac (serP E K ++ ser_u32 i) c = I_pub E K c i.
Proof. unfold I_pub. apply hmac512_link. Qed.
Lemma I_pub_length E K c i : length (I_pub E K c i) = 64%nat.
Proof. apply hmac_sha512_length. Qed.

Theorem hardened_pub_refused E x i : (2 ^ 31 <= i)%N -> xpub_derive E x i = Err.
Proof.
  intros H. unfold xpub_derive. rewrite two31 in H.
  replace (HARDENED_KEY_OFFSET <=? i)%N with true by (symmetry; apply N.leb_le; exact H). reflexivity.
Qed.

Theorem ckd_pub_eq_spec E (X : sxpub E) i :
  (forall P Q, ec_add E P Q = ec_add E Q P) ->
  ec_dec E (serP E (sK E X)) = Some (sK E X) ->
  (sDepth E X <= 255)%N ->
  parse256 (firstn 32 (I_pub E (sK E X) (sC E X) i)) <> 0 ->
  xpub_derive E (pmodel_of_spec E X) i = of_option (option_map (pmodel_of_spec E) (child_pub E X i)).
Proof.
  intros Hcomm Hdec Hd Hil. unfold xpub_derive, child_pub, CKDpub, hardened.
  cbn [xp_pub xp_cc xp_depth pmodel_of_spec]. rewrite two31.
  destruct (HARDENED_KEY_OFFSET <=? i)%N; [reflexivity|].
  rewrite I_pub_link, hash160_link.
  set (I := I_pub E (sK E X) (sC E X) i) in *.
  assert (HI : length I = 64%nat) by apply I_pub_length.
  rewrite (split_I_64 I HI). cbn [bind]. rewrite Hdec. cbn [of_option bind].
  rewrite (secret_of_bytes_32 _ (firstn32_length I HI)).
  change (parse256 (firstn 32 I)) with (be_Z (firstn 32 I)) in *. rewrite bip_n_eq.
  set (il := be_Z (firstn 32 I)) in *.
  replace (il =? 0) with false by (symmetry; apply Z.eqb_neq; exact Hil). cbn [orb].
  destruct (secp_n <=? il); cbn [bind of_option option_map orb]; [reflexivity|].
  rewrite (Hcomm (sK E X)). fold (point E il).
  destruct (ec_is_inf E (ec_add E (point E il) (sK E X))); cbn [of_option option_map]; [reflexivity|].
  destruct (N.eqb_spec (sDepth E X) 255) as [E255|N255].
  - rewrite E255. reflexivity.
  - replace (255 <=? sDepth E X)%N with false by (symmetry; apply N.leb_gt; lia). reflexivity.
Qed.

(* ------------------------------------------------------------------ *)
(* neutering commutes with normal derivation (model level, any parent the code can hold) *)
Section Neuter.
  Variable E : ec_ops.
  Local Notation "a *G" := (ec_smul E a (ec_G E)) (at level 30).
  Hypothesis smul_add_G : forall a b, (a + b) *G = ec_add E (a *G) (b *G).
  Hypothesis smul_mod_G : forall a, (a mod secp_n) *G = a *G.
  Hypothesis inf_iff_G : forall a, ec_is_inf E (a *G) = true <-> a mod secp_n = 0.
  Hypothesis dec_enc_G : forall c a, ec_is_inf E (a *G) = false -> ec_dec E (ec_enc E c (a *G)) = Some (a *G).

  Lemma scalar_not_inf k : in_scalar k = true -> ec_is_inf E (k *G) = false.
  Proof.
    intros H. unfold in_scalar in H. apply andb_true_iff in H. destruct H as [H1 H2].
    apply Z.leb_le in H1. apply Z.ltb_lt in H2.
    destruct (ec_is_inf E (k *G)) eqn:Ei; [|reflexivity].
    apply inf_iff_G in Ei. rewrite Z.mod_small in Ei by lia. lia.
  Qed.

  Theorem neuter_commutes x i :
    in_scalar (xs_key x) = true ->
    xs_pub x = pub_of_priv E (xs_key x) (xs_comp x) ->
    (i < 2 ^ 31)%N ->
    omap xpub_from_xprv (xprv_derive E x i) = xpub_derive E (xpub_from_xprv x) i.
  Proof.
    intros Hk Hpub Hi. rewrite two31 in Hi.
    unfold xprv_derive, xpub_derive. cbn [xp_pub xp_cc xp_depth xpub_from_xprv].
    replace (HARDENED_KEY_OFFSET <=? i)%N with false by (symmetry; apply N.leb_gt; exact Hi).
    set (I := sha_512_hmac (xs_pub x ++ ser_u32 i) (xs_cc x)).
    destruct (split_I I) as [[il ir]| |]; cbn [bind omap]; try reflexivity.
    assert (Hdec : ec_dec E (xs_pub x) = Some (xs_key x *G)).
    { rewrite Hpub. unfold pub_of_priv. apply dec_enc_G. apply scalar_not_inf. exact Hk. }
    rewrite Hdec. cbn [of_option bind].
    destruct (secret_of_bytes il) as [ilz| |]; cbn [bind omap]; try reflexivity.
    rewrite <- smul_add_G, <- (smul_mod_G (xs_key x + ilz)).
    set (sum := (xs_key x + ilz) mod secp_n).
    assert (Hs : ec_is_inf E (sum *G) = (sum =? 0)).
    { pose proof (mod_n_range (xs_key x + ilz)) as R. fold sum in R.
      destruct (Z.eqb_spec sum 0) as [E0|N0].
      - apply inf_iff_G. rewrite E0. reflexivity.
      - destruct (ec_is_inf E (sum *G)) eqn:Ei; [|reflexivity].
        apply inf_iff_G in Ei. rewrite Z.mod_small in Ei by exact R. contradiction. }
    rewrite Hs. destruct (sum =? 0); cbn [omap]; [reflexivity|].
    destruct (xs_depth x =? 255)%N; cbn [omap]; reflexivity.
  Qed.
End Neuter.

(* ------------------------------------------------------------------ *)
(* serialisation: the model's to_string is the specification's, and reading inverts writing *)
Lemma version_xprv_bytes : ser_u32 XPRIV_VERSION_BYTE = version_xprv.
Proof. reflexivity. Qed.
Lemma version_xpub_bytes : ser_u32 XPUB_VERSION_BYTE = version_xpub.
Proof. reflexivity. Qed.

Theorem to_string_priv_eq_spec E x : xprv_to_string (model_of_spec E x) = serialize_priv x.
Proof.
  unfold xprv_to_string, serialize_priv, b58check_encode, with_checksum, xprv_payload, payload_priv.
  cbn [xs_key xs_cc xs_depth xs_index xs_fp model_of_spec].
  rewrite version_xprv_bytes, sha256d_link. reflexivity.
Qed.

Theorem to_string_pub_eq_spec E (X : sxpub E) : xpub_to_string (pmodel_of_spec E X) = serialize_pub E X.
Proof.
  unfold xpub_to_string, serialize_pub, b58check_encode, with_checksum, xpub_payload, payload_pub.
  cbn [xp_pub xp_cc xp_depth xp_index xp_fp pmodel_of_spec].
  rewrite version_xpub_bytes, sha256d_link. reflexivity.
Qed.

(* reading the common header of a well-formed payload *)
Lemma xkey_header_app version d fp ix cc rest :
  (version < 2 ^ 32)%N -> (d < 256)%N -> length fp = 4%nat -> (ix < 2 ^ 32)%N -> length cc = 32%nat ->
  (d = 0%N -> ix = 0%N /\ fp = zeros 4) ->
  xkey_header version (ser_u32 version ++ [n2b d] ++ fp ++ ser_u32 ix ++ cc ++ rest)
  = Ok (d, fp, ix, cc, rest).
Proof.
  intros Hv Hd Hfp Hix Hcc Hm. unfold xkey_header.
  rewrite read_exact_app by apply ser_u32_length. cbn [of_option bind].
  unfold ser_u32 at 1. rewrite be_val_be_bytes.
  change (256 ^ N.of_nat 4)%N with (2 ^ 32)%N. rewrite N.mod_small by exact Hv.
  rewrite N.eqb_refl. cbn [negb].
  rewrite (read_exact_app 1 [n2b d]) by reflexivity. cbn [of_option bind].
  rewrite read_exact_app by exact Hfp. cbn [of_option bind].
  rewrite read_exact_app by apply ser_u32_length. cbn [of_option bind].
  rewrite be_val_single, b2n_n2b by exact Hd.
  assert (Eix : be_val (ser_u32 ix) = ix).
  { unfold ser_u32. rewrite be_val_be_bytes. change (256 ^ N.of_nat 4)%N with (2 ^ 32)%N. apply N.mod_small. exact Hix. }
  rewrite !Eix.
  assert (Hg : (d =? 0)%N && (negb (ix =? 0)%N || negb (bytes_eqb fp (zeros 4))) = false).
  { destruct (N.eqb_spec d 0) as [E0|_]; [|reflexivity]. destruct (Hm E0) as [-> ->].
    rewrite bytes_eqb_refl. reflexivity. }
  rewrite Hg.
  rewrite read_exact_app by exact Hcc. cbn [of_option bind]. reflexivity.
Qed.

Lemma checksum_ok_intro p :
  length p = 78%nat -> checksum_ok (with_checksum p) (firstn 4 (sha_256d p)) 82 = true.
Proof.
  intros Hp. unfold checksum_ok, with_checksum.
  assert (Hc : length (firstn 4 (sha_256d p)) = 4%nat) by (rewrite firstn_length, sha_256d_length; reflexivity).
  rewrite app_length, Hp, Hc. cbn [Nat.add Nat.eqb Nat.sub andb].
  rewrite firstn_app, Hp, Nat.sub_diag, firstn_O, app_nil_r.
  rewrite <- Hp at 1. rewrite firstn_all. apply bytes_eqb_refl.
Qed.

Definition xprv_ok (E : ec_ops) (x : xprv) : Prop :=
  in_scalar (xs_key x) = true /\ xs_comp x = true /\ xs_pub x = pub_of_priv E (xs_key x) true /\
  length (xs_cc x) = 32%nat /\ length (xs_fp x) = 4%nat /\ (xs_depth x < 256)%N /\ (xs_index x < 2 ^ 32)%N /\
  (xs_depth x = 0%N -> xs_index x = 0%N /\ xs_fp x = zeros 4).

Definition xpub_ok (E : ec_ops) (x : xpub) : Prop :=
  length (xp_pub x) = 33%nat /\ ec_dec E (xp_pub x) <> None /\
  length (xp_cc x) = 32%nat /\ length (xp_fp x) = 4%nat /\ (xp_depth x < 256)%N /\ (xp_index x < 2 ^ 32)%N /\
  (xp_depth x = 0%N -> xp_index x = 0%N /\ xp_fp x = zeros 4).

Lemma in_scalar_range k : in_scalar k = true -> 1 <= k < secp_n.
Proof.
  unfold in_scalar. intros H. apply andb_true_iff in H. destruct H as [H1 H2].
  apply Z.leb_le in H1. apply Z.ltb_lt in H2. lia.
Qed.

Lemma secp_n_lt : secp_n < 2 ^ 256.
Proof. reflexivity. Qed.

Lemma secret_of_bytes_be32 k : in_scalar k = true -> secret_of_bytes (be32 k) = Ok k.
Proof.
  intros H. unfold secret_of_bytes. rewrite be32_length, Nat.eqb_refl. cbv zeta.
  pose proof (in_scalar_range k H) as R. pose proof secp_n_lt as L.
  rewrite be_Z_be32 by lia. rewrite H. reflexivity.
Qed.

Lemma xprv_payload_length x :
  length (xs_cc x) = 32%nat -> length (xs_fp x) = 4%nat -> length (xprv_payload x) = 78%nat.
Proof.
  intros Hc Hf. unfold xprv_payload. rewrite !app_length, !ser_u32_length, be32_length, Hc, Hf. reflexivity.
Qed.
Lemma xpub_payload_length x :
  length (xp_cc x) = 32%nat -> length (xp_fp x) = 4%nat -> length (xp_pub x) = 33%nat -> length (xpub_payload x) = 78%nat.
Proof.
  intros Hc Hf Hp. unfold xpub_payload. rewrite !app_length, !ser_u32_length, Hc, Hf, Hp. reflexivity.
Qed.

Lemma version_lt_prv : (XPRIV_VERSION_BYTE < 2 ^ 32)%N. Proof. reflexivity. Qed.
Lemma version_lt_pub : (XPUB_VERSION_BYTE < 2 ^ 32)%N. Proof. reflexivity. Qed.

Theorem xprv_roundtrip E x : xprv_ok E x -> xprv_from_string E (xprv_to_string x) = Ok x.
Proof.
  intros (Hk & Hcomp & Hpub & Hcc & Hfp & Hd & Hix & Hm).
  unfold xprv_from_string, xprv_to_string. rewrite b58_roundtrip. cbn [of_option bind].
  pose proof (xprv_payload_length x Hcc Hfp) as Hlen.
  pose proof (checksum_ok_intro (xprv_payload x) Hlen) as Hck.
  unfold with_checksum in *. set (ck := firstn 4 (sha_256d (xprv_payload x))) in *.
  assert (Hckl : length ck = 4%nat) by (unfold ck; rewrite firstn_length, sha_256d_length; reflexivity).
  set (full := xprv_payload x ++ ck) in *.
  assert (Efull : full = ser_u32 XPRIV_VERSION_BYTE ++ [n2b (xs_depth x)] ++ xs_fp x ++ ser_u32 (xs_index x) ++ xs_cc x
                         ++ ([x00] ++ be32 (xs_key x) ++ ck)).
  { unfold full, xprv_payload. rewrite <- !app_assoc. reflexivity. }
  rewrite Efull at 1.
  rewrite (xkey_header_app _ _ _ _ _ _ version_lt_prv Hd Hfp Hix Hcc Hm). cbn [bind].
  rewrite (read_exact_app 1 [x00]) by reflexivity. cbn [of_option bind].
  change (be_val [x00] =? 0)%N with true. cbn [negb].
  rewrite read_exact_app by apply be32_length. cbn [of_option bind].
  rewrite secret_of_bytes_be32 by exact Hk. cbn [bind].
  rewrite <- (app_nil_r ck) at 1. rewrite read_exact_app by exact Hckl. cbn [of_option bind].
  rewrite Hck. destruct x as [k comp pub cc depth index fp]. cbn in *. subst comp pub. reflexivity.
Qed.

Theorem xpub_roundtrip E x : xpub_ok E x -> xpub_from_string E (xpub_to_string x) = Ok x.
Proof.
  intros (Hp & Hdec & Hcc & Hfp & Hd & Hix & Hm).
  unfold xpub_from_string, xpub_to_string. rewrite b58_roundtrip. cbn [of_option bind].
  pose proof (xpub_payload_length x Hcc Hfp Hp) as Hlen.
  pose proof (checksum_ok_intro (xpub_payload x) Hlen) as Hck.
  unfold with_checksum in *. set (ck := firstn 4 (sha_256d (xpub_payload x))) in *.
  assert (Hckl : length ck = 4%nat) by (unfold ck; rewrite firstn_length, sha_256d_length; reflexivity).
  set (full := xpub_payload x ++ ck) in *.
  assert (Efull : full = ser_u32 XPUB_VERSION_BYTE ++ [n2b (xp_depth x)] ++ xp_fp x ++ ser_u32 (xp_index x) ++ xp_cc x
                         ++ (xp_pub x ++ ck)).
  { unfold full, xpub_payload. rewrite <- !app_assoc. reflexivity. }
  rewrite Efull at 1.
  rewrite (xkey_header_app _ _ _ _ _ _ version_lt_pub Hd Hfp Hix Hcc Hm). cbn [bind].
  rewrite read_exact_app by exact Hp. cbn [of_option bind].
  destruct (ec_dec E (xp_pub x)) as [K|]; [|contradiction]. cbn [of_option bind].
  rewrite <- (app_nil_r ck) at 1. rewrite read_exact_app by exact Hckl. cbn [of_option bind].
  rewrite Hck. destruct x. reflexivity.
Qed.

(* ------------------------------------------------------------------ *)
(* what an accepted string is: exactly the Base58Check encoding of a 78-byte payload *)
Lemma read_exact_some n bs a r : read_exact n bs = Some (a, r) -> bs = a ++ r /\ length a = n.
Proof. apply read_exact_spec. Qed.

Lemma bind_ok_inv {A B} (e : outcome A) (f : A -> outcome B) b :
  bind e f = Ok b -> exists a, e = Ok a /\ f a = Ok b.
Proof. destruct e; cbn [bind]; intros H; try discriminate. eauto. Qed.

Lemma of_option_ok_inv {A} (o : option A) a : of_option o = Ok a -> o = Some a.
Proof. destruct o; cbn [of_option]; intros H; [inversion H; reflexivity | discriminate]. Qed.

Lemma xkey_header_inv version bs d fp ix cc rest :
  xkey_header version bs = Ok (d, fp, ix, cc, rest) ->
  exists v db ixb, bs = v ++ db ++ fp ++ ixb ++ cc ++ rest /\
    length v = 4%nat /\ be_val v = version /\ length db = 1%nat /\ be_val db = d /\
    length fp = 4%nat /\ length ixb = 4%nat /\ be_val ixb = ix /\ length cc = 32%nat /\
    (d = 0%N -> ix = 0%N /\ fp = zeros 4).
Proof.
  unfold xkey_header. intros H.
  apply bind_ok_inv in H. destruct H as ([v c0] & H0 & H). apply of_option_ok_inv, read_exact_some in H0.
  destruct (be_val v =? version)%N eqn:Ev; cbn [negb] in H; [|discriminate]. apply N.eqb_eq in Ev.
  apply bind_ok_inv in H. destruct H as ([db c1] & H1 & H). apply of_option_ok_inv, read_exact_some in H1.
  apply bind_ok_inv in H. destruct H as ([fp' c2] & H2 & H). apply of_option_ok_inv, read_exact_some in H2.
  apply bind_ok_inv in H. destruct H as ([ixb c3] & H3 & H). apply of_option_ok_inv, read_exact_some in H3.
  destruct ((be_val db =? 0)%N && (negb (be_val ixb =? 0)%N || negb (bytes_eqb fp' (zeros 4)))) eqn:Eg; [discriminate|].
  apply bind_ok_inv in H. destruct H as ([cc' c4] & H4 & H). apply of_option_ok_inv, read_exact_some in H4.
  inversion H; subst d fp' ix cc' c4; clear H.
  destruct H0 as [-> L0], H1 as [-> L1], H2 as [-> L2], H3 as [-> L3], H4 as [-> L4].
  exists v, db, ixb. repeat split; try (assumption || reflexivity).
  - apply N.eqb_eq in H. rewrite H in Eg. cbn [andb] in Eg. apply orb_false_iff in Eg. destruct Eg as [E1 _].
    apply negb_false_iff, N.eqb_eq in E1. exact E1.
  - apply N.eqb_eq in H. rewrite H in Eg. cbn [andb] in Eg. apply orb_false_iff in Eg. destruct Eg as [_ E2].
    apply negb_false_iff, bytes_eqb_eq in E2. exact E2.
Qed.

Lemma checksum_ok_inv bs ck total :
  checksum_ok bs ck total = true ->
  length bs = total /\ ck = firstn 4 (sha_256d (firstn (total - 4) bs)).
Proof.
  unfold checksum_ok. intros H. apply andb_true_iff in H. destruct H as [H1 H2].
  apply Nat.eqb_eq in H1. apply bytes_eqb_eq in H2. auto.
Qed.

Lemma app_eq_length_nil {A} (a r : list A) n : length (a ++ r) = n -> length a = n -> r = [].
Proof. rewrite app_length. intros H1 H2. destruct r; [reflexivity | cbn [length] in H1; lia]. Qed.

(* a successful read returns the key whose serialisation is the input: string -> key -> string *)
Theorem xprv_string_roundtrip E s x : xprv_from_string E s = Ok x -> xprv_to_string x = s /\ xprv_ok E x.
Proof.
  unfold xprv_from_string. intros H.
  apply bind_ok_inv in H. destruct H as (bs & Hb & H). apply of_option_ok_inv in Hb.
  apply bind_ok_inv in H. destruct H as ([[[[d fp] ix] cc] c4] & Hh & H).
  apply xkey_header_inv in Hh. destruct Hh as (v & db & ixb & Ebs & Lv & Vv & Ldb & Vd & Lfp & Lix & Vix & Lcc & Hm).
  apply bind_ok_inv in H. destruct H as ([pad c5] & Hp & H). apply of_option_ok_inv, read_exact_some in Hp.
  destruct Hp as [-> Lpad].
  destruct (be_val pad =? 0)%N eqn:Epad; cbn [negb] in H; [|discriminate]. apply N.eqb_eq in Epad.
  apply bind_ok_inv in H. destruct H as ([kb c6] & Hk & H). apply of_option_ok_inv, read_exact_some in Hk.
  destruct Hk as [-> Lkb].
  apply bind_ok_inv in H. destruct H as (k & Hsec & H).
  apply bind_ok_inv in H. destruct H as ([ck c7] & Hc & H). apply of_option_ok_inv, read_exact_some in Hc.
  destruct Hc as [-> Lck].
  destruct (checksum_ok bs ck 82) eqn:Eck; [|discriminate]. inversion H; subst x; clear H.
  apply checksum_ok_inv in Eck. destruct Eck as [Lbs Eck].
  (* no trailing bytes *)
  assert (c7 = []).
  { subst bs. rewrite !app_length, Lv, Ldb, Lfp, Lix, Lcc, Lpad, Lkb, Lck in Lbs.
    destruct c7; [reflexivity | cbn [length] in Lbs; lia]. }
  subst c7. rewrite app_nil_r in Ebs.
  (* the scalar *)
  unfold secret_of_bytes in Hsec. rewrite Lkb, Nat.eqb_refl in Hsec. cbv zeta in Hsec.
  destruct (in_scalar (be_Z kb)) eqn:Esc; [|discriminate]. inversion Hsec; subst k; clear Hsec.
  (* the fields *)
  assert (Ev : v = ser_u32 XPRIV_VERSION_BYTE).
  { unfold ser_u32. rewrite <- Vv, <- Lv. symmetry. apply be_bytes_be_val. }
  assert (Ed : db = [n2b d]).
  { destruct db as [|b [|? ?]]; try discriminate. rewrite be_val_single in Vd. subst d. rewrite n2b_b2n. reflexivity. }
  assert (Ei : ixb = ser_u32 ix).
  { unfold ser_u32. rewrite <- Vix, <- Lix. symmetry. apply be_bytes_be_val. }
  assert (Epd : pad = [x00]).
  { destruct pad as [|b [|? ?]]; try discriminate. rewrite be_val_single in Epad.
    f_equal. apply b2n_inj. rewrite Epad. reflexivity. }
  assert (Ek : kb = be32 (be_Z kb)) by (symmetry; apply be32_be_Z; exact Lkb).
  assert (Epay : firstn 78 bs = xprv_payload (MkXprv (be_Z kb) true (pub_of_priv E (be_Z kb) true) cc d ix fp)).
  { unfold xprv_payload. cbn [xs_key xs_cc xs_depth xs_index xs_fp].
    rewrite <- Ev, <- Ed, <- Ei, <- Epd, <- Ek. subst bs.
    replace (v ++ db ++ fp ++ ixb ++ cc ++ pad ++ kb ++ ck) with ((v ++ db ++ fp ++ ixb ++ cc ++ pad ++ kb) ++ ck)
      by (rewrite <- !app_assoc; reflexivity).
    rewrite firstn_app.
    replace (length (v ++ db ++ fp ++ ixb ++ cc ++ pad ++ kb)) with 78%nat
      by (rewrite !app_length, Lv, Ldb, Lfp, Lix, Lcc, Lpad, Lkb; reflexivity).
    rewrite Nat.sub_diag, firstn_O, app_nil_r. apply firstn_all2.
    rewrite !app_length, Lv, Ldb, Lfp, Lix, Lcc, Lpad, Lkb. lia. }
  split.
  - unfold xprv_to_string, with_checksum. rewrite <- Epay.
    change (82 - 4)%nat with 78%nat in Eck. rewrite <- Eck.
    apply b58_decode_encode. rewrite Hb. f_equal.
    rewrite Ebs at 1.
    replace (v ++ db ++ fp ++ ixb ++ cc ++ pad ++ kb ++ ck) with ((v ++ db ++ fp ++ ixb ++ cc ++ pad ++ kb) ++ ck)
      by (rewrite <- !app_assoc; reflexivity).
    f_equal. subst bs.
    replace (v ++ db ++ fp ++ ixb ++ cc ++ pad ++ kb ++ ck) with ((v ++ db ++ fp ++ ixb ++ cc ++ pad ++ kb) ++ ck)
      by (rewrite <- !app_assoc; reflexivity).
    rewrite firstn_app.
    replace (length (v ++ db ++ fp ++ ixb ++ cc ++ pad ++ kb)) with 78%nat
      by (rewrite !app_length, Lv, Ldb, Lfp, Lix, Lcc, Lpad, Lkb; reflexivity).
    rewrite Nat.sub_diag, firstn_O, app_nil_r. symmetry. apply firstn_all2.
    rewrite !app_length, Lv, Ldb, Lfp, Lix, Lcc, Lpad, Lkb. lia.
  - unfold xprv_ok. cbn [xs_key xs_comp xs_pub xs_cc xs_fp xs_depth xs_index].
    split; [exact Esc|]. split; [reflexivity|]. split; [reflexivity|]. split; [exact Lcc|]. split; [exact Lfp|].
    split; [|split; [|exact Hm]].
    + destruct db as [|b [|? ?]]; try discriminate. rewrite be_val_single in Vd. subst d. apply b2n_lt.
    + subst ix. pose proof (le_val_bound (rev ixb)) as B. unfold be_val. rewrite rev_length, Lix in B. exact B.
Qed.

Theorem xpub_string_roundtrip E s x : xpub_from_string E s = Ok x -> xpub_to_string x = s /\ xpub_ok E x.
Proof.
  unfold xpub_from_string. intros H.
  apply bind_ok_inv in H. destruct H as (bs & Hb & H). apply of_option_ok_inv in Hb.
  apply bind_ok_inv in H. destruct H as ([[[[d fp] ix] cc] c4] & Hh & H).
  apply xkey_header_inv in Hh. destruct Hh as (v & db & ixb & Ebs & Lv & Vv & Ldb & Vd & Lfp & Lix & Vix & Lcc & Hm).
  apply bind_ok_inv in H. destruct H as ([kb c5] & Hk & H). apply of_option_ok_inv, read_exact_some in Hk.
  destruct Hk as [-> Lkb].
  apply bind_ok_inv in H. destruct H as (K & Hdec & H). apply of_option_ok_inv in Hdec.
  apply bind_ok_inv in H. destruct H as ([ck c7] & Hc & H). apply of_option_ok_inv, read_exact_some in Hc.
  destruct Hc as [-> Lck].
  destruct (checksum_ok bs ck 82) eqn:Eck; [|discriminate]. inversion H; subst x; clear H.
  apply checksum_ok_inv in Eck. destruct Eck as [Lbs Eck].
  assert (c7 = []).
  { subst bs. rewrite !app_length, Lv, Ldb, Lfp, Lix, Lcc, Lkb, Lck in Lbs.
    destruct c7; [reflexivity | cbn [length] in Lbs; lia]. }
  subst c7. rewrite app_nil_r in Ebs.
  assert (Ev : v = ser_u32 XPUB_VERSION_BYTE).
  { unfold ser_u32. rewrite <- Vv, <- Lv. symmetry. apply be_bytes_be_val. }
  assert (Ed : db = [n2b d]).
  { destruct db as [|b [|? ?]]; try discriminate. rewrite be_val_single in Vd. subst d. rewrite n2b_b2n. reflexivity. }
  assert (Ei : ixb = ser_u32 ix).
  { unfold ser_u32. rewrite <- Vix, <- Lix. symmetry. apply be_bytes_be_val. }
  assert (L78 : length (v ++ db ++ fp ++ ixb ++ cc ++ kb) = 78%nat)
    by (rewrite !app_length, Lv, Ldb, Lfp, Lix, Lcc, Lkb; reflexivity).
  assert (Esplit : bs = (v ++ db ++ fp ++ ixb ++ cc ++ kb) ++ ck)
    by (rewrite Ebs, <- !app_assoc; reflexivity).
  assert (Epay : firstn 78 bs = xpub_payload (MkXpub kb cc d ix fp)).
  { unfold xpub_payload. cbn [xp_pub xp_cc xp_depth xp_index xp_fp].
    rewrite <- Ev, <- Ed, <- Ei. rewrite Esplit, firstn_app, L78, Nat.sub_diag, firstn_O, app_nil_r.
    apply firstn_all2. rewrite L78. lia. }
  split.
  - unfold xpub_to_string, with_checksum. rewrite <- Epay.
    change (82 - 4)%nat with 78%nat in Eck. rewrite <- Eck.
    apply b58_decode_encode. rewrite Hb. f_equal.
    rewrite Esplit at 1. f_equal.
    rewrite Esplit, firstn_app, L78, Nat.sub_diag, firstn_O, app_nil_r. symmetry.
    apply firstn_all2. rewrite L78. lia.
  - unfold xpub_ok. cbn [xp_pub xp_cc xp_fp xp_depth xp_index].
    split; [exact Lkb|]. split; [rewrite Hdec; discriminate|]. split; [exact Lcc|]. split; [exact Lfp|].
    split; [|split; [|exact Hm]].
    + destruct db as [|b [|? ?]]; try discriminate. rewrite be_val_single in Vd. subst d. apply b2n_lt.
    + subst ix. pose proof (le_val_bound (rev ixb)) as B. unfold be_val. rewrite rev_length, Lix in B. exact B.
Qed.

(* the readers never panic *)
Lemma bind_np {A B} (e : outcome A) (f : A -> outcome B) :
  e <> Panic -> (forall a, f a <> Panic) -> bind e f <> Panic.
Proof. intros He Hf. destruct e; cbn [bind]; [apply Hf | discriminate | contradiction]. Qed.
Lemma of_option_np {A} (o : option A) : of_option o <> Panic.
Proof. destruct o; discriminate. Qed.
Lemma secret_np bs : secret_of_bytes bs <> Panic.
Proof. unfold secret_of_bytes. destruct (Nat.eqb (length bs) 32); [destruct (in_scalar (be_Z bs))|]; discriminate. Qed.

Ltac np :=
  repeat (first
    [ apply of_option_np | apply secret_np | discriminate
    | apply bind_np; [|let a := fresh "a" in intros a; repeat (destruct a as [a ?])]
    | match goal with |- (if ?b then _ else _) <> Panic => destruct b end ]).

Lemma xkey_header_np v bs : xkey_header v bs <> Panic.
Proof. unfold xkey_header. np. Qed.

Theorem xprv_from_string_total E s : xprv_from_string E s <> Panic.
Proof. unfold xprv_from_string. np. Qed.
Theorem xpub_from_string_total E s : xpub_from_string E s <> Panic.
Proof. unfold xpub_from_string. np. Qed.

(* corrupted input: undecodable, wrong length, or a checksum that is not the double SHA-256 of the first 78 bytes *)
Theorem corrupt_rejected E s :
  (match b58_decode s with
   | None => True
   | Some bs => length bs <> 82%nat \/ skipn 78 bs <> firstn 4 (sha_256d (firstn 78 bs))
   end) ->
  xprv_from_string E s = Err /\ xpub_from_string E s = Err.
Proof.
  intros Hbad.
  assert (Hnp : forall A (r : outcome A), (forall a, r <> Ok a) -> r <> Panic -> r = Err).
  { intros A r H1 H2. destruct r; [exfalso; eapply H1; reflexivity | reflexivity | contradiction]. }
  assert (Key : forall bs p, b58_decode s = Some bs -> b58_encode (with_checksum p) = s -> length p = 78%nat -> False).
  { intros bs p Hb He Hp. rewrite Hb in Hbad.
    assert (bs = with_checksum p).
    { pose proof (b58_roundtrip (with_checksum p)) as R. rewrite He, Hb in R. congruence. }
    subst bs. unfold with_checksum in Hbad.
    assert (Hc : length (firstn 4 (sha_256d p)) = 4%nat) by (rewrite firstn_length, sha_256d_length; reflexivity).
    destruct Hbad as [Hl|Hc'].
    - apply Hl. rewrite app_length, Hp, Hc. reflexivity.
    - apply Hc'. rewrite skipn_app, Hp, Nat.sub_diag, skipn_O.
      rewrite <- Hp at 1. rewrite skipn_all. cbn [app].
      rewrite firstn_app, Hp, Nat.sub_diag, firstn_O, app_nil_r.
      rewrite (firstn_all2 p) by lia. reflexivity. }
  split.
  - apply Hnp.
    + intros x Hx. pose proof (xprv_string_roundtrip E s x Hx) as [Hs (_ & _ & _ & Hcc & Hfp & _)].
      unfold xprv_from_string in Hx. destruct (b58_decode s) as [bs|] eqn:Hb; [|discriminate].
      apply (Key bs (xprv_payload x) eq_refl Hs). apply xprv_payload_length; assumption.
    + apply xprv_from_string_total.
  - apply Hnp.
    + intros x Hx. pose proof (xpub_string_roundtrip E s x Hx) as [Hs (Hp & _ & Hcc & Hfp & _)].
      unfold xpub_from_string in Hx. destruct (b58_decode s) as [bs|] eqn:Hb; [|discriminate].
      apply (Key bs (xpub_payload x) eq_refl Hs). apply xpub_payload_length; assumption.
    + apply xpub_from_string_total.
Qed.

(* ------------------------------------------------------------------ *)
(* The group-law premises used above are jointly satisfiable: the additive group of integers modulo n
   with generator 1 is an [ec_ops] instance that satisfies all of them (and on which the model runs
   quickly).  This is a consistency check of the premises only; it says nothing about secp256k1. *)
Definition toy_dec (bs : bytes) : option Z :=
  match bs with
  | t :: r => if Nat.eqb (length r) 32 then (if in_scalar (be_Z r) then Some (be_Z r) else None) else None
  | [] => None
  end.
Definition ec_toy : ec_ops :=
  MkEc Z (fun a b => (a + b) mod secp_n) (fun k a => (k * a) mod secp_n) 1 (fun a => a =? 0)
       (fun c a => (if c then x02 else x04) :: be32 a) toy_dec.

Lemma toy_smul_add_G a b :
  ec_smul ec_toy (a + b) (ec_G ec_toy) = ec_add ec_toy (ec_smul ec_toy a (ec_G ec_toy)) (ec_smul ec_toy b (ec_G ec_toy)).
Proof. cbn [ec_smul ec_add ec_G ec_toy]. rewrite !Z.mul_1_r. apply Zplus_mod. Qed.
Lemma toy_smul_mod_G a : ec_smul ec_toy (a mod secp_n) (ec_G ec_toy) = ec_smul ec_toy a (ec_G ec_toy).
Proof. cbn [ec_smul ec_G ec_toy]. rewrite !Z.mul_1_r. apply Zmod_mod. Qed.
Lemma toy_inf_iff_G a : ec_is_inf ec_toy (ec_smul ec_toy a (ec_G ec_toy)) = true <-> a mod secp_n = 0.
Proof. cbn [ec_is_inf ec_smul ec_G ec_toy]. rewrite Z.mul_1_r. apply Z.eqb_eq. Qed.
Lemma toy_dec_enc_G c a :
  ec_is_inf ec_toy (ec_smul ec_toy a (ec_G ec_toy)) = false ->
  ec_dec ec_toy (ec_enc ec_toy c (ec_smul ec_toy a (ec_G ec_toy))) = Some (ec_smul ec_toy a (ec_G ec_toy)).
Proof.
  cbn [ec_is_inf ec_smul ec_G ec_toy ec_dec ec_enc]. rewrite Z.mul_1_r. intros H. apply Z.eqb_neq in H.
  pose proof (mod_n_range a) as R. pose proof secp_n_lt as L.
  unfold toy_dec. rewrite be32_length, Nat.eqb_refl, be_Z_be32 by lia.
  replace (in_scalar (a mod secp_n)) with true; [reflexivity|].
  symmetry. unfold in_scalar. apply andb_true_iff. rewrite Z.leb_le, Z.ltb_lt. lia.
Qed.
Lemma toy_add_comm P Q : ec_add ec_toy P Q = ec_add ec_toy Q P.
Proof. cbn [ec_add ec_toy]. rewrite Z.add_comm. reflexivity. Qed.

(* the premises of neuter_commutes as one predicate (what is assumed of k256's secp256k1 arithmetic) *)
Definition ec_group_laws (E : ec_ops) : Prop :=
  (forall a b, ec_smul E (a + b) (ec_G E) = ec_add E (ec_smul E a (ec_G E)) (ec_smul E b (ec_G E))) /\
  (forall a, ec_smul E (a mod secp_n) (ec_G E) = ec_smul E a (ec_G E)) /\
  (forall a, ec_is_inf E (ec_smul E a (ec_G E)) = true <-> a mod secp_n = 0) /\
  (forall c a, ec_is_inf E (ec_smul E a (ec_G E)) = false ->
               ec_dec E (ec_enc E c (ec_smul E a (ec_G E))) = Some (ec_smul E a (ec_G E))).

Theorem neuter_commutes_laws E x i :
  ec_group_laws E ->
  in_scalar (xs_key x) = true ->
  xs_pub x = pub_of_priv E (xs_key x) (xs_comp x) ->
  (i < 2 ^ 31)%N ->
  omap xpub_from_xprv (xprv_derive E x i) = xpub_derive E (xpub_from_xprv x) i.
Proof. intros (H1 & H2 & H3 & H4). apply neuter_commutes; assumption. Qed.

Lemma toy_group_laws : ec_group_laws ec_toy.
Proof.
  split; [exact toy_smul_add_G|]. split; [exact toy_smul_mod_G|]. split; [exact toy_inf_iff_G | exact toy_dec_enc_G].
Qed.

(* the invariant that neuter_commutes asks of the parent holds for every key the library can produce *)
Lemma from_seed_invariant E seed x :
  xprv_from_seed E seed = Ok x -> in_scalar (xs_key x) = true /\ xs_pub x = pub_of_priv E (xs_key x) (xs_comp x).
Proof.
  unfold xprv_from_seed. intros H.
  apply bind_ok_inv in H. destruct H as ([il ir] & _ & H).
  apply bind_ok_inv in H. destruct H as (k & Hk & H). inversion H; subst x; clear H. cbn [xs_key xs_pub xs_comp].
  split; [|reflexivity]. unfold secret_of_bytes in Hk.
  destruct (Nat.eqb (length il) 32); [|discriminate]. cbv zeta in Hk.
  destruct (in_scalar (be_Z il)) eqn:Es; [|discriminate]. inversion Hk; subst k. exact Es.
Qed.

Lemma derive_invariant E x i y :
  xprv_derive E x i = Ok y -> in_scalar (xs_key y) = true /\ xs_pub y = pub_of_priv E (xs_key y) (xs_comp y).
Proof.
  unfold xprv_derive. intros H.
  apply bind_ok_inv in H. destruct H as ([il ir] & _ & H).
  apply bind_ok_inv in H. destruct H as (ilz & _ & H).
  set (sum := (xs_key x + ilz) mod secp_n) in *.
  destruct (Z.eqb_spec sum 0) as [E0|N0]; [discriminate|].
  destruct (xs_depth x =? 255)%N; [discriminate|]. inversion H; subst y; clear H. cbn [xs_key xs_pub xs_comp].
  split; [|reflexivity]. pose proof (mod_n_range (xs_key x + ilz)) as R. fold sum in R.
  unfold in_scalar. apply andb_true_iff. rewrite Z.leb_le, Z.ltb_lt. lia.
Qed.

Lemma from_string_invariant E s x :
  xprv_from_string E s = Ok x -> in_scalar (xs_key x) = true /\ xs_pub x = pub_of_priv E (xs_key x) (xs_comp x).
Proof.
  intros H. apply xprv_string_roundtrip in H. destruct H as [_ (Hk & Hc & Hp & _)].
  split; [exact Hk|]. rewrite Hc. exact Hp.
Qed.
