(* Proofs/SerdeProofs.v — C18: the derived Deserialize undoes the derived Serialize at the level of the serde
   data model; the untagged ScriptBit enum is resolved unambiguously except for Coinbase. *)
From BSV Require Import Base.Hex Model.Opcodes Model.Script Model.VarInt Model.Tx Model.Serde Proofs.ScriptProofs.
From BSV Require Import Gen.Opcodes_gen.
Open Scope list_scope.

(* ------------------------------------------------------------------ *)
(* facts about the generated opcode table *)
Lemma lookup_val_in t s v : lookup_val t s = Some v -> In (s, v) t.
Proof.
  induction t as [|[s' v'] r IH]; cbn [lookup_val]; [discriminate|].
  destruct (String.eqb s' s) eqn:E.
  - intros H. inversion H; subst. apply String.eqb_eq in E. subst. left; reflexivity.
  - intros H. right. apply IH; exact H.
Qed.
Lemma lookup_name_in t b s : lookup_name t b = Some s -> In (s, b) t.
Proof.
  induction t as [|[s' v'] r IH]; cbn [lookup_name]; [discriminate|].
  destruct (v' =? b)%N eqn:E.
  - intros H. inversion H; subst. apply N.eqb_eq in E. subst. left; reflexivity.
  - intros H. right. apply IH; exact H.
Qed.

(* every name of the enum reads back as its own value (re-checked against the generated table) *)
Lemma table_names_roundtrip :
  forallb (fun p => match opcode_of_name (fst p) with Some v => (v =? snd p)%N | None => false end) opcode_table = true.
Proof. vm_compute. reflexivity. Qed.

Lemma opname_roundtrip c : is_opcode c = true -> opcode_of_name (opname c) = Some c.
Proof.
  unfold is_opcode, opname, opcode_name. destruct (lookup_name opcode_table c) as [s|] eqn:E; [|discriminate].
  intros _. apply lookup_name_in in E.
  pose proof (proj1 (forallb_forall _ _) table_names_roundtrip _ E) as H. cbn [fst snd] in H.
  destruct (opcode_of_name s) as [v|]; [|discriminate]. apply N.eqb_eq in H. subst. reflexivity.
Qed.

(* every name of the enum starts with the letter O: no name is a hex string (nor empty) *)
Definition starts_O (s : string) : bool :=
  match s with String c _ => (N_of_ascii c =? 79)%N | EmptyString => false end.
Lemma table_names_start_O : forallb (fun p => starts_O (fst p)) opcode_table = true.
Proof. vm_compute. reflexivity. Qed.

Lemma nib_char_not_O n : (N_of_ascii (nib_char n) =? 79)%N = false.
Proof.
  destruct n as [|p]; [reflexivity|].
  do 5 (try destruct p as [p|p|]); reflexivity.
Qed.

Lemma hex_not_name d : opcode_of_name (hex_of_bytes d) = None.
Proof.
  destruct (opcode_of_name (hex_of_bytes d)) as [v|] eqn:E; [|reflexivity].
  apply lookup_val_in in E.
  pose proof (proj1 (forallb_forall _ _) table_names_start_O _ E) as H. cbn [fst] in H.
  destruct d as [|b r]; cbn [hex_of_bytes starts_O] in H; [discriminate|].
  rewrite nib_char_not_O in H. discriminate.
Qed.

(* ------------------------------------------------------------------ *)
(* unfolding equations for the nested fixpoints *)
Lemma de_bit_unfold f c :
  de_bit f c =
  match de_opcode f c with
  | Some o => Some (BOp o)
  | None =>
    match try_if f c with
    | Some b => Some b
    | None =>
      match c with
      | CStr s => match bytes_of_hex s with Some d => Some (BPush d) | None => None end
      | CSeq [a; CStr s] =>
          match de_opcode f a with
          | Some o => match bytes_of_hex s with Some d => Some (BPushData o d) | None => None end
          | None => None
          end
      | _ => None
      end
    end
  end.
Proof. destruct c; reflexivity. Qed.

(* the model's resolution IS "first variant that accepts, in declaration order" *)
Lemma de_bit_first f c : de_bit f c = first_some (variants f c).
Proof.
  rewrite de_bit_unfold. unfold variants, try_opcode, try_push, try_pushdata, try_coinbase, de_hex.
  cbn [first_some].
  destruct (de_opcode f c) as [o|]; [reflexivity|].
  destruct (try_if f c) as [b|]; [reflexivity|].
  destruct c as [| | | |s|l|m]; try reflexivity.
  - destruct (bytes_of_hex s); reflexivity.
  - destruct l as [|a [|h [|x r]]]; try reflexivity; [|destruct h; reflexivity].
    destruct h; try (destruct (de_opcode f a); reflexivity).
    destruct (de_opcode f a); [|reflexivity]. destruct (bytes_of_hex s); reflexivity.
Qed.

Lemma if_map_ser f v1 l v3 :
  if_map f [("code", v1); ("pass", CSeq l); ("fail", v3)] None None None =
  match de_opcode f v1 with
  | Some o =>
      match de_bits f l with
      | Some p =>
          match v3 with
          | CNull => Some (BIf o p None)
          | CSeq l' => match de_bits f l' with Some q => Some (BIf o p (Some q)) | None => None end
          | _ => None
          end
      | None => None
      end
  | None => None
  end.
Proof.
  cbn [if_map String.eqb Ascii.eqb Bool.eqb].
  destruct (de_opcode f v1); [|reflexivity].
  destruct (de_bits f l); [|reflexivity].
  destruct v3; reflexivity.
Qed.

(* ------------------------------------------------------------------ *)
(* ScriptBit: de (ser b) = uncb b *)
Lemma ser_bit_if c p q :
  ser_bit (BIf c p q) =
  CMap [("code", CStr (opname c)); ("pass", CSeq (ser_bits p));
        ("fail", match q with None => CNull | Some q' => CSeq (ser_bits q') end)].
Proof. reflexivity. Qed.
Lemma enum_bit_if c p q :
  enum_bit (BIf c p q) = is_opcode c && enum_bits p && match q with None => true | Some q' => enum_bits q' end.
Proof. reflexivity. Qed.
Lemma uncb_if c p q :
  uncb (BIf c p q) = BIf c (uncbs p) (match q with None => None | Some q' => Some (uncbs q') end).
Proof. reflexivity. Qed.
Lemma has_cb_if c p q :
  has_cb (BIf c p q) = has_cbs p || match q with None => false | Some q' => has_cbs q' end.
Proof. reflexivity. Qed.

Lemma de_opcode_map3 f a b c : de_opcode f (CMap [a; b; c]) = None.
Proof. destruct a; reflexivity. Qed.

Lemma de_bit_map f m :
  de_bit f (CMap m) = match de_opcode f (CMap m) with Some o => Some (BOp o) | None => if_map f m None None None end.
Proof.
  rewrite de_bit_unfold. destruct (de_opcode f (CMap m)); [reflexivity|].
  cbn [try_if]. destruct (if_map f m None None None); reflexivity.
Qed.

Lemma de_ser_bit_str f d : de_bit f (CStr (hex_of_bytes d)) = Some (BPush d).
Proof.
  rewrite de_bit_unfold. cbn [de_opcode try_if]. rewrite hex_not_name, bytes_of_hex_of_bytes. reflexivity.
Qed.

Lemma de_ser_bits_both f :
  (forall b, enum_bit b = true -> de_bit f (ser_bit b) = Some (uncb b)) /\
  (forall l, enum_bits l = true -> de_bits f (ser_bits l) = Some (uncbs l)).
Proof.
  assert (HIf : forall c p q,
             (enum_bits p = true -> de_bits f (ser_bits p) = Some (uncbs p)) ->
             match q with None => True | Some q' => enum_bits q' = true -> de_bits f (ser_bits q') = Some (uncbs q') end ->
             enum_bit (BIf c p q) = true -> de_bit f (ser_bit (BIf c p q)) = Some (uncb (BIf c p q))).
  { intros c p q IHp IHq H. rewrite enum_bit_if in H.
    apply andb_true_iff in H. destruct H as [H Hq]. apply andb_true_iff in H. destruct H as [Hc Hp].
    rewrite ser_bit_if, uncb_if, de_bit_map, de_opcode_map3, if_map_ser.
    cbn [de_opcode]. rewrite (opname_roundtrip c Hc), (IHp Hp).
    destruct q as [q'|]; [|reflexivity]. rewrite (IHq Hq). reflexivity. }
  split.
  - apply (bit_ind' (fun b => enum_bit b = true -> de_bit f (ser_bit b) = Some (uncb b))
                    (fun l => enum_bits l = true -> de_bits f (ser_bits l) = Some (uncbs l))).
    + intros c H. cbn [enum_bit] in H. cbn [ser_bit uncb]. rewrite de_bit_unfold. cbn [de_opcode].
      rewrite (opname_roundtrip c H). reflexivity.
    + intros d _. cbn [ser_bit uncb]. apply de_ser_bit_str.
    + intros c d H. cbn [enum_bit] in H. cbn [ser_bit uncb]. rewrite de_bit_unfold. cbn [de_opcode try_if].
      rewrite (opname_roundtrip c H), bytes_of_hex_of_bytes. reflexivity.
    + intros d _. cbn [ser_bit uncb]. apply de_ser_bit_str.
    + intros c p IHp. apply (HIf c p None IHp I).
    + intros c p q IHp IHq. apply (HIf c p (Some q) IHp IHq).
    + intros _. reflexivity.
    + intros b l Hb Hl H. cbn [enum_bits] in H. apply andb_true_iff in H. destruct H as [H1 H2].
      cbn [ser_bits de_bits uncbs]. rewrite (Hb H1), (Hl H2). reflexivity.
  - apply (bits_ind' (fun b => enum_bit b = true -> de_bit f (ser_bit b) = Some (uncb b))
                     (fun l => enum_bits l = true -> de_bits f (ser_bits l) = Some (uncbs l))).
    + intros c H. cbn [enum_bit] in H. cbn [ser_bit uncb]. rewrite de_bit_unfold. cbn [de_opcode].
      rewrite (opname_roundtrip c H). reflexivity.
    + intros d _. cbn [ser_bit uncb]. apply de_ser_bit_str.
    + intros c d H. cbn [enum_bit] in H. cbn [ser_bit uncb]. rewrite de_bit_unfold. cbn [de_opcode try_if].
      rewrite (opname_roundtrip c H), bytes_of_hex_of_bytes. reflexivity.
    + intros d _. cbn [ser_bit uncb]. apply de_ser_bit_str.
    + intros c p IHp. apply (HIf c p None IHp I).
    + intros c p q IHp IHq. apply (HIf c p (Some q) IHp IHq).
    + intros _. reflexivity.
    + intros b l Hb Hl H. cbn [enum_bits] in H. apply andb_true_iff in H. destruct H as [H1 H2].
      cbn [ser_bits de_bits uncbs]. rewrite (Hb H1), (Hl H2). reflexivity.
Qed.
Definition de_ser_bit f := proj1 (de_ser_bits_both f).
Definition de_ser_bits f := proj2 (de_ser_bits_both f).

Lemma bit_bits_ind (P : bit -> Prop) (Q : list bit -> Prop) :
  (forall c, P (BOp c)) -> (forall d, P (BPush d)) -> (forall c d, P (BPushData c d)) -> (forall d, P (BCoinbase d)) ->
  (forall c p, Q p -> P (BIf c p None)) -> (forall c p q, Q p -> Q q -> P (BIf c p (Some q))) ->
  Q [] -> (forall b l, P b -> Q l -> Q (b :: l)) ->
  (forall b, P b) /\ (forall l, Q l).
Proof. intros; split; [apply (bit_ind' P Q) | apply (bits_ind' P Q)]; assumption. Qed.

(* a script without Coinbase bits comes back unchanged; one with a Coinbase bit does not *)
Lemma uncb_id_both :
  (forall b, has_cb b = false -> uncb b = b) /\ (forall l, has_cbs l = false -> uncbs l = l).
Proof.
  apply bit_bits_ind; try (intros; reflexivity).
  - intros d H. discriminate.
  - intros c p IHp H. rewrite has_cb_if, orb_false_r in H. rewrite uncb_if, (IHp H). reflexivity.
  - intros c p q IHp IHq H. rewrite has_cb_if in H. apply orb_false_iff in H. destruct H as [H1 H2].
    rewrite uncb_if, (IHp H1), (IHq H2). reflexivity.
  - intros b l Hb Hl H. cbn [has_cbs] in H. apply orb_false_iff in H. destruct H as [H1 H2].
    cbn [uncbs]. rewrite (Hb H1), (Hl H2). reflexivity.
Qed.
Definition uncbs_id := proj2 uncb_id_both.

Lemma uncb_changes_both :
  (forall b, uncb b = b -> has_cb b = false) /\ (forall l, uncbs l = l -> has_cbs l = false).
Proof.
  apply bit_bits_ind; try (intros; reflexivity).
  - intros d H. discriminate.
  - intros c p IHp H. rewrite uncb_if in H. injection H as Hp. rewrite has_cb_if, (IHp Hp). reflexivity.
  - intros c p q IHp IHq H. rewrite uncb_if in H. injection H as Hp Hq.
    rewrite has_cb_if, (IHp Hp), (IHq Hq). reflexivity.
  - intros b l Hb Hl H. cbn [uncbs] in H. injection H as H1 H2.
    cbn [has_cbs]. rewrite (Hb H1), (Hl H2). reflexivity.
Qed.
Definition uncbs_changes := proj2 uncb_changes_both.

(* ------------------------------------------------------------------ *)
(* the untagged enum is unambiguous on the images of all variants but Coinbase *)
Definition variant_index (b : bit) : nat :=
  match b with BOp _ => 0 | BIf _ _ _ => 1 | BPush _ => 2 | BPushData _ _ => 3 | BCoinbase _ => 4 end.

Lemma untagged_unambiguous f b :
  enum_bit b = true -> has_cb b = false ->
  nth (variant_index b) (variants f (ser_bit b)) None = Some b /\
  (forall j, j < variant_index b -> nth j (variants f (ser_bit b)) None = None).
Proof.
  intros He Hc.
  pose proof (de_ser_bit f b He) as Hrt. rewrite (proj1 uncb_id_both b Hc) in Hrt.
  destruct b as [c|d|c d|c p q|d]; cbn [variant_index].
  - split; [|intros j Hj; lia]. cbn [enum_bit] in He.
    cbn [variants nth ser_bit]. unfold try_opcode. cbn [de_opcode]. rewrite (opname_roundtrip c He). reflexivity.
  - split.
    + cbn [variants nth ser_bit]. unfold try_push. cbn [de_hex]. rewrite bytes_of_hex_of_bytes. reflexivity.
    + intros j Hj. destruct j as [|[|j]]; [| |lia]; cbn [variants nth ser_bit].
      * unfold try_opcode. cbn [de_opcode]. rewrite hex_not_name. reflexivity.
      * reflexivity.
  - cbn [enum_bit] in He. split.
    + cbn [variants nth ser_bit]. unfold try_pushdata. cbn [de_opcode de_hex].
      rewrite (opname_roundtrip c He), bytes_of_hex_of_bytes. reflexivity.
    + intros j Hj. destruct j as [|[|[|j]]]; [| | |lia]; reflexivity.
  - split.
    + rewrite ser_bit_if in *. rewrite de_bit_map, de_opcode_map3 in Hrt. cbn [variants nth try_if]. exact Hrt.
    + intros j Hj. destruct j as [|j]; [|lia]. rewrite ser_bit_if. cbn [variants nth]. unfold try_opcode.
      rewrite de_opcode_map3. reflexivity.
  - discriminate.
Qed.

(* ... and ambiguous on Coinbase: the earlier variant Push accepts its image *)
Lemma coinbase_bit_refuted f d :
  nth 2 (variants f (ser_bit (BCoinbase d))) None = Some (BPush d)
  /\ de_bit f (ser_bit (BCoinbase d)) = Some (BPush d)
  /\ to_bytes [BPush d] <> to_bytes [BCoinbase d].
Proof.
  split; [|split].
  - cbn [variants nth ser_bit]. unfold try_push. cbn [de_hex]. rewrite bytes_of_hex_of_bytes. reflexivity.
  - apply de_ser_bit_str.
  - cbn [to_bytes bit_bytes]. rewrite !app_nil_r. intros H. apply (f_equal (@length byte)) in H. cbn [length] in H. lia.
Qed.

(* ------------------------------------------------------------------ *)
(* nesting depth *)
Lemma cdepth_seq l : cdepth (CSeq l) = S (cdepth_list l).
Proof. reflexivity. Qed.
Lemma cdepth_map_eq m : cdepth (CMap m) = S (cdepth_map m).
Proof. reflexivity. Qed.
Lemma if_depth_if c p q :
  if_depth (BIf c p q) = S (Nat.max (if_depths p) (match q with None => 0 | Some q' => if_depths q' end)).
Proof. reflexivity. Qed.

Lemma cdepth_ser_both :
  (forall b, cdepth (ser_bit b) <= 1 + 2 * if_depth b) /\ (forall l, cdepth_list (ser_bits l) <= 1 + 2 * if_depths l).
Proof.
  apply bit_bits_ind.
  - intros c. cbn. lia.
  - intros d. cbn. lia.
  - intros c d. cbn. lia.
  - intros d. cbn. lia.
  - intros c p IHp. rewrite ser_bit_if, if_depth_if, cdepth_map_eq. cbn [cdepth_map]. rewrite cdepth_seq.
    cbn [cdepth]. lia.
  - intros c p q IHp IHq. rewrite ser_bit_if, if_depth_if, cdepth_map_eq. cbn [cdepth_map]. rewrite !cdepth_seq.
    cbn [cdepth]. lia.
  - cbn. lia.
  - intros b l Hb Hl. cbn [ser_bits cdepth_list if_depths]. lia.
Qed.
Lemma cdepth_ser_script s : cdepth (ser_script s) <= 2 + 2 * if_depths s.
Proof. unfold ser_script. rewrite cdepth_seq. pose proof (proj2 cdepth_ser_both s). lia. Qed.

(* ------------------------------------------------------------------ *)
(* structs *)
Lemma field_depth k m v : field_get k m = Some v -> cdepth v <= cdepth_map m.
Proof.
  induction m as [|[k' v'] r IH]; cbn [field_get cdepth_map]; [discriminate|].
  destruct (String.eqb k' k).
  - intros H. injection H as ->. lia.
  - intros H. apply IH in H. lia.
Qed.
Lemma in_depth x l : In x l -> cdepth x <= cdepth_list l.
Proof.
  induction l as [|y r IH]; cbn [In cdepth_list]; [tauto|].
  intros [->|H]; [lia | apply IH in H; lia].
Qed.

Lemma de_u32_ok n : u32_ok n = true -> de_u32 (CU64 n) = Some n.
Proof.
  unfold u32_ok, de_u32, de_u. intros H. apply N.ltb_lt in H.
  destruct (n <=? 4294967295)%N eqn:E; [reflexivity|]. apply N.leb_gt in E. lia.
Qed.
Lemma de_u64_ok n : u64_ok n = true -> de_u64 (CU64 n) = Some n.
Proof. unfold u64_ok, de_u64, de_u. intros ->. reflexivity. Qed.

Lemma de_script_ser f r s :
  enum_bits s = true -> cdepth (ser_script s) <= r -> de_script f r (ser_script s) = Some (uncbs s).
Proof.
  intros He Hd. unfold ser_script in *. rewrite cdepth_seq in Hd. destruct r as [|r]; [lia|].
  unfold de_script. assert (E : Nat.leb (cdepth_list (ser_bits s)) r = true) by (apply Nat.leb_le; lia).
  rewrite E. apply de_ser_bits; exact He.
Qed.

Lemma de_opt_script f r s :
  enum_bits s = true -> cdepth (ser_script s) <= r ->
  de_opt (de_script f r) (ser_script s) = Some (Some (uncbs s)).
Proof.
  intros He Hd. pose proof (de_script_ser f r s He Hd) as H. unfold ser_script in *.
  cbn [de_opt]. rewrite H. reflexivity.
Qed.

Lemma de_list_ser {A B} (d : content -> option B) (ser : A -> content) (g : A -> B) l :
  (forall x, In x l -> d (ser x) = Some (g x)) -> de_list d (map ser l) = Some (map g l).
Proof.
  induction l as [|x r IH]; intros H; [reflexivity|].
  cbn [map de_list]. rewrite (H x (or_introl eq_refl)), IH; [reflexivity|].
  intros y Hy. apply H. right; exact Hy.
Qed.

Lemma de_txin_ser f r i :
  wf_txin i = true -> cdepth (ser_txin i) <= r -> de_txin f r (ser_txin i) = Some (uncb_txin i).
Proof.
  destruct i as [id vo us sq lk sa]. unfold wf_txin, uncb_txin, ser_txin.
  cbn [prev_tx_id vout unlocking sequence locking satoshis].
  intros Hwf Hd.
  apply andb_true_iff in Hwf. destruct Hwf as [Hwf Hsa]. apply andb_true_iff in Hwf. destruct Hwf as [Hwf Hlk].
  apply andb_true_iff in Hwf. destruct Hwf as [Hwf Hus]. apply andb_true_iff in Hwf. destruct Hwf as [Hvo Hsq].
  set (m := [("prev_tx_id", CStr (hex_of_bytes (rev id))); ("vout", CU64 vo); ("script_sig", ser_script us); ("sequence", CU64 sq)]
            ++ match lk with Some s => [("unlocking_script", ser_script s)] | None => [] end
            ++ match sa with Some v => [("satoshis", CU64 v)] | None => [] end) in *.
  rewrite cdepth_map_eq in Hd. destruct r as [|r]; [lia|].
  assert (Hm : cdepth_map m <= r) by lia.
  assert (Hf : fields_ok f r txin_fields m = true) by (subst m; destruct lk, sa, f; reflexivity).
  assert (E1 : field_get "prev_tx_id" m = Some (CStr (hex_of_bytes (rev id)))) by reflexivity.
  assert (E2 : field_get "vout" m = Some (CU64 vo)) by reflexivity.
  assert (E3 : field_get "script_sig" m = Some (ser_script us)) by reflexivity.
  assert (E4 : field_get "sequence" m = Some (CU64 sq)) by reflexivity.
  assert (E5 : field_get "unlocking_script" m = option_map ser_script lk) by (subst m; destruct lk, sa; reflexivity).
  assert (E6 : field_get "satoshis" m = option_map CU64 sa) by (subst m; destruct lk, sa; reflexivity).
  unfold de_txin. rewrite Hf. unfold req, opt_field. rewrite E1, E2, E3, E4, E5, E6.
  cbn [de_revhex]. rewrite bytes_of_hex_of_bytes, rev_involutive.
  rewrite (de_u32_ok vo Hvo), (de_u32_ok sq Hsq).
  rewrite (de_script_ser f r us Hus) by (pose proof (field_depth _ _ _ E3); lia).
  destruct lk as [s|]; cbn [option_map].
  - rewrite (de_opt_script f r s Hlk) by (pose proof (field_depth _ _ _ E5); lia).
    destruct sa as [v|]; cbn [option_map de_opt]; [rewrite (de_u64_ok v Hsa)|]; reflexivity.
  - destruct sa as [v|]; cbn [option_map de_opt]; [rewrite (de_u64_ok v Hsa)|]; reflexivity.
Qed.

Lemma de_txout_ser f r o :
  wf_txout o = true -> cdepth (ser_txout o) <= r -> de_txout f r (ser_txout o) = Some (uncb_txout o).
Proof.
  destruct o as [v s]. unfold wf_txout, uncb_txout, ser_txout. cbn [value script_pub_key].
  intros Hwf Hd. apply andb_true_iff in Hwf. destruct Hwf as [Hv Hs].
  set (m := [("value", CU64 v); ("script_pub_key", ser_script s)]) in *.
  rewrite cdepth_map_eq in Hd. destruct r as [|r]; [lia|].
  assert (Hf : fields_ok f r txout_fields m = true) by (destruct f; reflexivity).
  assert (E2 : field_get "script_pub_key" m = Some (ser_script s)) by reflexivity.
  unfold de_txout. rewrite Hf. unfold req. cbn [field_get String.eqb Ascii.eqb Bool.eqb m].
  rewrite (de_u64_ok v Hv). rewrite (de_script_ser f r s Hs) by (pose proof (field_depth _ _ _ E2); lia).
  reflexivity.
Qed.

Lemma de_vec_ser {A B} (d : nat -> content -> option B) (ser : A -> content) (g : A -> B) r l :
  (forall r' x, In x l -> cdepth (ser x) <= r' -> d r' (ser x) = Some (g x)) ->
  cdepth (CSeq (map ser l)) <= r -> de_vec d r (CSeq (map ser l)) = Some (map g l).
Proof.
  intros H Hd. rewrite cdepth_seq in Hd. destruct r as [|r]; [lia|].
  unfold de_vec. apply de_list_ser. intros x Hx. apply H; [exact Hx|].
  pose proof (in_depth (ser x) (map ser l) (in_map ser l x Hx)). lia.
Qed.

Lemma de_tx_at_ser f r t :
  wf_fields t = true -> cdepth (ser_tx t) <= r -> de_tx_at f r (ser_tx t) = Some (uncb_tx t).
Proof.
  destruct t as [ver ins outs lt]. unfold wf_fields, uncb_tx, ser_tx. cbn [version inputs outputs locktime].
  intros Hwf Hd.
  apply andb_true_iff in Hwf. destruct Hwf as [Hwf Houts]. apply andb_true_iff in Hwf. destruct Hwf as [Hwf Hins].
  apply andb_true_iff in Hwf. destruct Hwf as [Hver Hlt].
  set (m := [("version", CU64 ver); ("inputs", CSeq (map ser_txin ins)); ("outputs", CSeq (map ser_txout outs));
             ("n_locktime", CU64 lt)]) in *.
  rewrite cdepth_map_eq in Hd. destruct r as [|r]; [lia|].
  assert (Hf : fields_ok f r tx_fields m = true) by (destruct f; reflexivity).
  assert (E2 : field_get "inputs" m = Some (CSeq (map ser_txin ins))) by reflexivity.
  assert (E3 : field_get "outputs" m = Some (CSeq (map ser_txout outs))) by reflexivity.
  unfold de_tx_at. rewrite Hf. unfold req. cbn [field_get String.eqb Ascii.eqb Bool.eqb m].
  rewrite (de_u32_ok ver Hver), (de_u32_ok lt Hlt).
  rewrite (de_vec_ser (de_txin f) ser_txin uncb_txin r ins).
  - rewrite (de_vec_ser (de_txout f) ser_txout uncb_txout r outs); [reflexivity| |].
    + intros r' x Hx Hdx. apply de_txout_ser; [|exact Hdx]. apply (proj1 (forallb_forall _ _) Houts x Hx).
    + pose proof (field_depth _ _ _ E3). lia.
  - intros r' x Hx Hdx. apply de_txin_ser; [|exact Hdx]. apply (proj1 (forallb_forall _ _) Hins x Hx).
  - pose proof (field_depth _ _ _ E2). lia.
Qed.

(* ------------------------------------------------------------------ *)
(* Coinbase-free values are fixed points of uncb; others are not *)
Lemma map_id_in {A} (g : A -> A) l : (forall x, In x l -> g x = x) -> map g l = l.
Proof.
  induction l as [|x r IH]; intros H; [reflexivity|]. cbn [map].
  rewrite (H x (or_introl eq_refl)), IH; [reflexivity|]. intros y Hy. apply H. right; exact Hy.
Qed.
Lemma existsb_false_in {A} (p : A -> bool) l : existsb p l = false -> forall x, In x l -> p x = false.
Proof.
  induction l as [|y r IH]; cbn [existsb In]; [tauto|].
  intros H x [->|Hx]; apply orb_false_iff in H; destruct H as [H1 H2]; [exact H1 | apply IH; assumption].
Qed.

Lemma uncb_txin_id i : txin_has_cb i = false -> uncb_txin i = i.
Proof.
  destruct i as [id vo us sq lk sa]. unfold txin_has_cb, uncb_txin.
  cbn [prev_tx_id vout unlocking sequence locking satoshis]. intros H.
  apply orb_false_iff in H. destruct H as [H1 H2]. rewrite (uncbs_id us H1).
  destruct lk as [s|]; [rewrite (uncbs_id s H2)|]; reflexivity.
Qed.
Lemma uncb_tx_id t : tx_has_cb t = false -> uncb_tx t = t.
Proof.
  destruct t as [ver ins outs lt]. unfold tx_has_cb, uncb_tx. cbn [version inputs outputs locktime]. intros H.
  apply orb_false_iff in H. destruct H as [H1 H2].
  rewrite (map_id_in uncb_txin ins), (map_id_in uncb_txout outs); [reflexivity| |].
  - intros o Ho. pose proof (existsb_false_in _ _ H2 o Ho) as H. destruct o as [v s]. unfold uncb_txout.
    cbn [value script_pub_key] in *. rewrite (uncbs_id s H). reflexivity.
  - intros i Hi. apply uncb_txin_id. apply (existsb_false_in _ _ H1 i Hi).
Qed.

Lemma map_fix_in {A} (g : A -> A) l : map g l = l -> forall x, In x l -> g x = x.
Proof.
  induction l as [|y r IH]; cbn [map In]; [tauto|].
  intros H x Hx. injection H as H1 H2. destruct Hx as [->|Hx]; [exact H1 | apply IH; assumption].
Qed.
Lemma in_existsb_false {A} (p : A -> bool) l : (forall x, In x l -> p x = false) -> existsb p l = false.
Proof.
  induction l as [|y r IH]; intros H; [reflexivity|]. cbn [existsb].
  rewrite (H y (or_introl eq_refl)), IH; [reflexivity|]. intros x Hx. apply H. right; exact Hx.
Qed.
Lemma uncb_tx_changes t : tx_has_cb t = true -> uncb_tx t <> t.
Proof.
  intros Hcb E. destruct t as [ver ins outs lt]. unfold uncb_tx in E. cbn [version inputs outputs locktime] in E.
  injection E as Ei Eo. unfold tx_has_cb in Hcb. cbn [inputs outputs] in Hcb.
  rewrite (in_existsb_false txin_has_cb ins), (in_existsb_false _ outs) in Hcb; [discriminate| |].
  - intros o Ho. pose proof (map_fix_in _ _ Eo o Ho) as H. destruct o as [v s]. unfold uncb_txout in H.
    cbn [value script_pub_key] in *. injection H as H. apply uncbs_changes; exact H.
  - intros i Hi. pose proof (map_fix_in _ _ Ei i Hi) as H. destruct i as [id vo us sq lk sa].
    unfold uncb_txin in H. unfold txin_has_cb. cbn [prev_tx_id vout unlocking sequence locking satoshis] in *.
    injection H as H1 H2. rewrite (uncbs_changes us H1). destruct lk as [s|]; [|reflexivity].
    injection H2 as H2. apply uncbs_changes; exact H2.
Qed.

(* ------------------------------------------------------------------ *)
(* depth of the serialised forms in terms of conditional nesting *)
Lemma cdepth_ser_txin i : cdepth (ser_txin i) <= 3 + 2 * txin_if_depth i.
Proof.
  destruct i as [id vo us sq lk sa]. unfold ser_txin, txin_if_depth.
  cbn [prev_tx_id vout unlocking sequence locking satoshis]. rewrite cdepth_map_eq.
  pose proof (cdepth_ser_script us) as Hu.
  destruct lk as [s|]; [pose proof (cdepth_ser_script s) as Hs|]; destruct sa; cbn [app cdepth_map cdepth]; lia.
Qed.
Lemma cdepth_ser_txout o : cdepth (ser_txout o) <= 3 + 2 * if_depths (script_pub_key o).
Proof.
  destruct o as [v s]. unfold ser_txout. cbn [value script_pub_key]. rewrite cdepth_map_eq.
  pose proof (cdepth_ser_script s). cbn [cdepth_map cdepth]. lia.
Qed.
Lemma cdepth_list_map {A} (ser : A -> content) (dep : A -> nat) k l :
  (forall x, cdepth (ser x) <= k + 2 * dep x) ->
  cdepth_list (map ser l) <= k + 2 * fold_right (fun x a => Nat.max (dep x) a) 0 l.
Proof.
  intros H. induction l as [|x r IH]; cbn [map cdepth_list fold_right]; [lia|]. pose proof (H x). lia.
Qed.
Lemma cdepth_ser_tx t : cdepth (ser_tx t) <= 5 + 2 * tx_if_depth t.
Proof.
  destruct t as [ver ins outs lt]. unfold ser_tx, tx_if_depth. cbn [version inputs outputs locktime].
  rewrite cdepth_map_eq. cbn [cdepth_map]. rewrite !cdepth_seq.
  pose proof (cdepth_list_map ser_txin txin_if_depth 3 ins cdepth_ser_txin).
  pose proof (cdepth_list_map ser_txout (fun o => if_depths (script_pub_key o)) 3 outs cdepth_ser_txout).
  cbn [cdepth]. lia.
Qed.

(* ------------------------------------------------------------------ *)
(* the round-trip theorems *)
Lemma content_roundtrip_gen f t :
  wf_fields t = true -> cdepth (ser_tx t) <= limit f -> de_tx f (ser_tx t) = Ok (uncb_tx t).
Proof. intros Hwf Hd. unfold de_tx. rewrite (de_tx_at_ser f (limit f) t Hwf Hd). reflexivity. Qed.

Lemma content_roundtrip f t :
  wf_fields t = true -> tx_has_cb t = false -> cdepth (ser_tx t) <= limit f -> de_tx f (ser_tx t) = Ok t.
Proof. intros Hwf Hcb Hd. rewrite (content_roundtrip_gen f t Hwf Hd), (uncb_tx_id t Hcb). reflexivity. Qed.

Lemma txin_roundtrip_gen f i :
  wf_txin i = true -> cdepth (ser_txin i) <= limit f -> de_txin_top f (ser_txin i) = Ok (uncb_txin i).
Proof. intros Hwf Hd. unfold de_txin_top. rewrite (de_txin_ser f (limit f) i Hwf Hd). reflexivity. Qed.

Lemma txin_roundtrip f i :
  wf_txin i = true -> txin_has_cb i = false -> cdepth (ser_txin i) <= limit f -> de_txin_top f (ser_txin i) = Ok i.
Proof. intros Hwf Hcb Hd. rewrite (txin_roundtrip_gen f i Hwf Hd), (uncb_txin_id i Hcb). reflexivity. Qed.

(* in terms a user sees: up to 61 nested conditionals through JSON, 125 through CBOR *)
Definition max_if_depth (f : fmt) : nat := match f with Json => 61 | Cbor => 125 end.
Lemma roundtrip_by_if_depth f t :
  wf_fields t = true -> tx_has_cb t = false -> tx_if_depth t <= max_if_depth f -> de_tx f (ser_tx t) = Ok t.
Proof.
  intros Hwf Hcb Hd. apply content_roundtrip; [exact Hwf | exact Hcb |].
  pose proof (cdepth_ser_tx t). destruct f; cbn [limit max_if_depth] in *; lia.
Qed.
Lemma txin_roundtrip_by_if_depth f i :
  wf_txin i = true -> txin_has_cb i = false -> txin_if_depth i <= max_if_depth f -> de_txin_top f (ser_txin i) = Ok i.
Proof.
  intros Hwf Hcb Hd. apply txin_roundtrip; [exact Hwf | exact Hcb |].
  pose proof (cdepth_ser_txin i). destruct f; cbn [limit max_if_depth] in *; lia.
Qed.

(* equal values have equal wire bytes and (for any hash function) equal ids *)
Lemma roundtrip_wire (h : bytes -> bytes) f t t' :
  wf_fields t = true -> tx_has_cb t = false -> cdepth (ser_tx t) <= limit f ->
  de_tx f (ser_tx t) = Ok t' -> t' = t /\ tx_bytes t' = tx_bytes t /\ tx_id h t' = tx_id h t.
Proof.
  intros Hwf Hcb Hd H. rewrite (content_roundtrip f t Hwf Hcb Hd) in H. injection H as <-. repeat split.
Qed.

(* ------------------------------------------------------------------ *)
(* the class `nesting-exceeds-decoder-limit`: a successful decode implies that the document fits the guard *)
Lemma de_script_depth f r s v : de_script f r (ser_script s) = Some v -> cdepth (ser_script s) <= r.
Proof.
  unfold ser_script, de_script. rewrite cdepth_seq. destruct r as [|r]; [discriminate|].
  destruct (Nat.leb (cdepth_list (ser_bits s)) r) eqn:E; [|discriminate]. apply Nat.leb_le in E. lia.
Qed.

Lemma de_txin_depth f r i v : de_txin f r (ser_txin i) = Some v -> cdepth (ser_txin i) <= r.
Proof.
  destruct i as [id vo us sq lk sa]. unfold ser_txin. cbn [prev_tx_id vout unlocking sequence locking satoshis].
  set (m := [("prev_tx_id", CStr (hex_of_bytes (rev id))); ("vout", CU64 vo); ("script_sig", ser_script us); ("sequence", CU64 sq)]
            ++ match lk with Some s => [("unlocking_script", ser_script s)] | None => [] end
            ++ match sa with Some v => [("satoshis", CU64 v)] | None => [] end).
  rewrite cdepth_map_eq. destruct r as [|r]; [discriminate|].
  assert (E3 : field_get "script_sig" m = Some (ser_script us)) by reflexivity.
  assert (E5 : field_get "unlocking_script" m = option_map ser_script lk) by (subst m; destruct lk, sa; reflexivity).
  unfold de_txin. destruct (fields_ok f r txin_fields m); [|discriminate].
  unfold req, opt_field. rewrite E3, E5.
  destruct (field_get "prev_tx_id" m) as [c1|]; [|discriminate]. destruct (de_revhex c1); [|discriminate].
  destruct (field_get "vout" m) as [c2|]; [|discriminate]. destruct (de_u32 c2); [|discriminate].
  destruct (de_script f r (ser_script us)) as [us'|] eqn:Dus; [|discriminate].
  apply de_script_depth in Dus.
  destruct (field_get "sequence" m) as [c4|]; [|discriminate]. destruct (de_u32 c4); [|discriminate].
  intros H.
  assert (Hlk : match lk with Some s => cdepth (ser_script s) <= r | None => True end).
  { destruct lk as [s|]; [|exact I]. cbn [option_map] in H. unfold ser_script in H. cbn [de_opt] in H.
    destruct (de_script f r (CSeq (ser_bits s))) eqn:Ds; [|discriminate]. apply (de_script_depth f r s _ Ds). }
  clear H. subst m. destruct lk as [s|], sa as [x|]; cbn [app cdepth_map cdepth]; lia.
Qed.

Lemma de_txout_depth f r o v : de_txout f r (ser_txout o) = Some v -> cdepth (ser_txout o) <= r.
Proof.
  destruct o as [x s]. unfold ser_txout. cbn [value script_pub_key].
  rewrite cdepth_map_eq. destruct r as [|r]; [discriminate|].
  unfold de_txout. destruct (fields_ok f r txout_fields _); [|discriminate].
  unfold req. cbn [field_get String.eqb Ascii.eqb Bool.eqb].
  destruct (de_u64 (CU64 x)); [|discriminate].
  destruct (de_script f r (ser_script s)) eqn:Ds; [|discriminate]. apply de_script_depth in Ds.
  intros _. cbn [cdepth_map cdepth]. lia.
Qed.

Lemma de_list_depth {A B} (d : content -> option B) (ser : A -> content) r l v :
  (forall x w, d (ser x) = Some w -> cdepth (ser x) <= r) ->
  de_list d (map ser l) = Some v -> cdepth_list (map ser l) <= r.
Proof.
  intros H. revert v. induction l as [|x l' IH]; intros v; cbn [map de_list cdepth_list]; [lia|].
  destruct (d (ser x)) as [w|] eqn:Dx; [|discriminate]. apply H in Dx.
  destruct (de_list d (map ser l')) as [w'|] eqn:Dl; [|discriminate]. specialize (IH w' eq_refl). lia.
Qed.

Lemma de_tx_at_depth f r t v : de_tx_at f r (ser_tx t) = Some v -> cdepth (ser_tx t) <= r.
Proof.
  destruct t as [ver ins outs lt]. unfold ser_tx. cbn [version inputs outputs locktime].
  rewrite cdepth_map_eq. destruct r as [|r]; [discriminate|].
  unfold de_tx_at. destruct (fields_ok f r tx_fields _); [|discriminate].
  unfold req. cbn [field_get String.eqb Ascii.eqb Bool.eqb].
  destruct (de_u32 (CU64 ver)); [|discriminate].
  unfold de_vec at 1. destruct r as [|r]; [discriminate|].
  destruct (de_list (de_txin f r) (map ser_txin ins)) eqn:Di; [|discriminate].
  apply (de_list_depth _ _ r) in Di; [|intros x w; apply de_txin_depth].
  unfold de_vec.
  destruct (de_list (de_txout f r) (map ser_txout outs)) eqn:Do; [|discriminate].
  apply (de_list_depth _ _ r) in Do; [|intros x w; apply de_txout_depth].
  intros _. cbn [cdepth_map]. rewrite !cdepth_seq. cbn [cdepth]. lia.
Qed.

Lemma nesting_class_refuted f t : exceeds_limit f (ser_tx t) = true -> de_tx f (ser_tx t) = Err.
Proof.
  unfold exceeds_limit, de_tx. intros H. apply negb_true_iff, Nat.leb_gt in H.
  destruct (de_tx_at f (limit f) (ser_tx t)) eqn:D; [|reflexivity]. apply de_tx_at_depth in D. lia.
Qed.
Lemma txin_nesting_class_refuted f i :
  negb (Nat.leb (cdepth (ser_txin i)) (limit f)) = true -> de_txin_top f (ser_txin i) = Err.
Proof.
  unfold de_txin_top. intros H. apply negb_true_iff, Nat.leb_gt in H.
  destruct (de_txin f (limit f) (ser_txin i)) eqn:D; [|reflexivity]. apply de_txin_depth in D. lia.
Qed.

(* the class `coinbase-script-bit`: inside it the decoded transaction is never the original *)
Lemma coinbase_class_refuted f t :
  wf_fields t = true -> tx_has_cb t = true -> de_tx f (ser_tx t) <> Ok t.
Proof.
  intros Hwf Hcb H.
  destruct (Nat.leb (cdepth (ser_tx t)) (limit f)) eqn:E.
  - apply Nat.leb_le in E. rewrite (content_roundtrip_gen f t Hwf E) in H. injection H as H.
    apply (uncb_tx_changes t Hcb H).
  - rewrite nesting_class_refuted in H; [discriminate|]. unfold exceeds_limit. rewrite E. reflexivity.
Qed.

(* the decoder guards are met exactly: the whole of C18 at the level of trees *)
Lemma roundtrip_iff f t :
  wf_fields t = true ->
  (de_tx f (ser_tx t) = Ok t <-> tx_has_cb t = false /\ exceeds_limit f (ser_tx t) = false).
Proof.
  intros Hwf. split.
  - intros H. split.
    + destruct (tx_has_cb t) eqn:Hcb; [|reflexivity]. exfalso. apply (coinbase_class_refuted f t Hwf Hcb H).
    + destruct (exceeds_limit f (ser_tx t)) eqn:E; [|reflexivity]. rewrite (nesting_class_refuted f t E) in H. discriminate.
  - intros [Hcb E]. apply content_roundtrip; [exact Hwf | exact Hcb |].
    unfold exceeds_limit in E. apply negb_false_iff, Nat.leb_le in E. exact E.
Qed.
