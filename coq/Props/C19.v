(* Props/C19.v — placeholder while the proofs are being written *)
From BSV Require Import Base.Hex Model.Template.
Example C19_placeholder : template_from_asm "OP_DATA>=5" = Ok [MData 5 CGreaterThanOrEquals].
Proof. vm_compute. reflexivity. Qed.
