(* Props/C19.v — pinned statements of property C19 (script templates match what they describe; criteria
   select the right indices).  Statements only; proofs are in Proofs/TemplateProofs.v.

   Model:  Model/Template.v (map_match_token, template_from_asm / template_from_script, match_impl),
           Model/Criteria.v (is_matching_output/input, match_output(s) / match_input(s)).
   Spec:   Spec/TemplateSpec.v (satisfies, template_matches, extraction, value_in_bounds, selects,
           self_match_class, the documented grammar spec_template).

   Every statement holds for all `is_sig`, `is_pubkey` (what decodes as a signature / public key is the
   subject of C06 / C07; Run/Exec_C19.v instantiates them with Prim/Der.v and Prim/Secp256k1.v).

   Known findings (KNOWN_FINDINGS.txt): a minimally-pushed script without conditionals does NOT match the
   template derived from itself when (i) it has a one-byte push 0x00..0x09 / 0x10..0x16 (class
   short-numeric-token), (ii) it contains an opcode 0xfb..0xfe (pseudo-opcode-wildcard), (iii) it is empty
   (empty-script-template).  `self_match_class` is the union; the full-strength statement (C19_self_match
   without that hypothesis) is false: C19_self_match_refuted.  The same tokenizer rule makes the tokens
   "00".."09" denote OP_0..OP_9 instead of one-byte data (hypothesis of C19_template_grammar). *)
From BSV Require Import Base.Hex Model.Opcodes Model.Script Model.Asm Model.Template Model.Criteria
  Spec.ScriptTok Spec.AsmSpec Spec.TemplateSpec Proofs.TemplateProofs.
Open Scope list_scope.

(* 1. A script matches a template exactly when both have the same number of elements and every element
      satisfies its token. *)
Theorem C19_match_iff :
  forall is_sig is_pubkey s ts,
    (exists ms, match_impl is_sig is_pubkey s ts = Ok ms) <-> template_matches is_sig is_pubkey ts s.
Proof. exact match_iff. Qed.
Print Assumptions C19_match_iff.

Theorem C19_is_match_iff :
  forall is_sig is_pubkey s ts, is_match is_sig is_pubkey s ts = true <-> template_matches is_sig is_pubkey ts s.
Proof. exact is_match_iff. Qed.
Print Assumptions C19_is_match_iff.

Theorem C19_match_total : forall is_sig is_pubkey s ts, match_impl is_sig is_pubkey s ts <> Panic.
Proof. exact match_no_panic. Qed.
Print Assumptions C19_match_total.

(* 2. The extracted values are the pushes under the non-exact tokens, in script order, with their kinds. *)
Theorem C19_extraction_spec :
  forall is_sig is_pubkey s ts ms, match_impl is_sig is_pubkey s ts = Ok ms -> ms = extraction ts s.
Proof. exact extraction_spec. Qed.
Print Assumptions C19_extraction_spec.

(* 3. Every minimally-pushed script without conditionals matches the template derived from itself
      (and nothing is extracted), outside the known-finding classes. *)
Theorem C19_self_match :
  forall is_sig is_pubkey s,
    no_conditionals s = true -> wf_bits s = true -> no_coinbase s = true -> minimal_pushes s = true ->
    self_match_class s = false ->
    exists ts, template_from_script s = Ok ts /\ match_impl is_sig is_pubkey s ts = Ok [].
Proof. exact self_match. Qed.
Print Assumptions C19_self_match.

(* 5. Each class is a genuine failure. *)
Theorem C19_self_match_refuted :
  forall is_sig is_pubkey,
  (from_bytes [x01; x05] = Ok [BPush [x05]] /\ template_from_script [BPush [x05]] = Ok [MOp 85] /\
   match_impl is_sig is_pubkey [BPush [x05]] [MOp 85] = Err) /\
  (from_bytes [xfd] = Ok [BOp 253] /\ template_from_script [BOp 253] = Ok [MPublicKeyHash] /\
   match_impl is_sig is_pubkey [BOp 253] [MPublicKeyHash] = Err) /\
  (from_bytes [] = Ok [] /\ template_from_script [] = Ok [MPush []] /\ match_impl is_sig is_pubkey [] [MPush []] = Err).
Proof. exact self_match_refuted. Qed.
Print Assumptions C19_self_match_refuted.

(* The documented template grammar (aliases, names, the four wildcards, OP_DATA with >= <= = > < and a
   decimal length, even-length hex) is read as documented, except for the tokens "00".."09". *)
Theorem C19_template_grammar :
  forall text ts, spec_template text = Some ts -> existsb short_numeric_token (split_space text) = false ->
                  template_from_asm text = Ok ts.
Proof. exact template_grammar. Qed.
Print Assumptions C19_template_grammar.

(* 4. Selection by criteria: exactly the indices (ascending) whose script matches the template and whose
      value satisfies the exact / minimum / maximum bounds; the single-result form is the first of them. *)
Theorem C19_match_outputs_spec :
  forall is_sig is_pubkey outs c,
    selects (output_selected is_sig is_pubkey c) outs (match_outputs is_sig is_pubkey outs c) /\
    match_output is_sig is_pubkey outs c = hd_error (match_outputs is_sig is_pubkey outs c).
Proof. exact match_outputs_spec. Qed.
Print Assumptions C19_match_outputs_spec.

Theorem C19_match_inputs_spec :
  forall is_sig is_pubkey ins c,
    selects (input_selected is_sig is_pubkey c) ins (match_inputs is_sig is_pubkey ins c) /\
    match_input is_sig is_pubkey ins c = hd_error (match_inputs is_sig is_pubkey ins c).
Proof. exact match_inputs_spec. Qed.
Print Assumptions C19_match_inputs_spec.

(* the decidable relation evaluated by the executable check is the specification relation *)
Theorem C19_template_matches_decidable :
  forall is_sig is_pubkey ts s, template_matches_b is_sig is_pubkey ts s = true <-> template_matches is_sig is_pubkey ts s.
Proof. exact template_matches_b_iff. Qed.
Print Assumptions C19_template_matches_decidable.

(* non-vacuity *)
Example C19_nonvacuous_self_match :
  exists s, from_bytes [x76; xa9; x02; x12; x34; x88; xac; x00; x60] = Ok s /\
            no_conditionals s = true /\ wf_bits s = true /\ no_coinbase s = true /\ minimal_pushes s = true /\
            self_match_class s = false.
Proof. eexists. repeat split; vm_compute; reflexivity. Qed.

Example C19_nonvacuous_match :
  forall is_sig is_pubkey,
    (forall d, is_sig d = Nat.eqb (length d) 2) ->
    template_from_asm "OP_DUP OP_DATA>=2 OP_SIG OP_PUBKEYHASH OP_DATA" = Ok [MOp 118; MData 2 CGreaterThanOrEquals; MSignature; MPublicKeyHash; MAnyData] /\
    match_impl is_sig is_pubkey [BOp 118; BPush [x01; x02]; BPush [x03; x04]; BPush (repeat x07 20); BPushData 76 [x09]]
      [MOp 118; MData 2 CGreaterThanOrEquals; MSignature; MPublicKeyHash; MAnyData]
    = Ok [(KData, [x01; x02]); (KSignature, [x03; x04]); (KPublicKeyHash, repeat x07 20); (KData, [x09])].
Proof. intros is_sig is_pubkey H. split; [vm_compute; reflexivity|]. cbn. rewrite H. reflexivity. Qed.

Example C19_nonvacuous_criteria :
  match_outputs (fun _ => false) (fun _ => false)
    [{| o_value := 4; o_script := [BOp 81] |}; {| o_value := 5; o_script := [BOp 81] |}; {| o_value := 6; o_script := [BOp 82] |};
     {| o_value := 7; o_script := [BOp 81] |}; {| o_value := 8; o_script := [BOp 81] |}]
    {| c_template := Some [MOp 81]; c_exact := None; c_min := Some 5%N; c_max := Some 7%N |} = [1; 3].
Proof. vm_compute. reflexivity. Qed.
