(* Props/C11.v — pinned statements of property C11 (ECIES / BIE1: decrypt inverts encrypt, standard
   format, tampering rejected).  Statements only; proofs are in Proofs/EciesProofs.v.

   Model/Ecies.v is the transcription of src/ecies/*.rs (tied to the Rust code by the correspondence run).
   The generic statements hold for every implementation [O : ecies_ops] of the operations the code calls
   that satisfies [ecies_laws] (digest lengths, CBC decryption inverts CBC encryption for 16-byte key/IV);
   [C11_std_laws] shows that the instance built from the models of src/hash and src/encryption
   ([ecies_std E], the one that is executed) satisfies them — through Proofs/AesApiProofs.v
   (api_roundtrip, from cbc_roundtrip of Proofs/AesProofs.v) and Proofs/HashApiProofs.v.
   The curve laws [ecdh_laws] (a(bG) = b(aG), valid scalars have non-identity public keys, SEC1
   decode-after-encode, 33-byte compressed form) are premises; they are NOT proved for the concrete
   secp256k1 formulas.

   The cryptographic clause ("a modified body, embedded key or wrong key yields an error") cannot be a
   theorem without an assumption on HMAC-SHA256; what is proved is that every such acceptance exhibits
   an HMAC forgery / collision (C11_tamper_is_forgery, C11_wrong_key_needs_collision), and that the
   checks which do not depend on the MAC's strength are unconditional (C11_mac_flip_rejected,
   C11_wrong_mac_rejected, magic and lengths in C11_from_bytes_sound). *)
From BSV Require Import Base.Hex Prim.Secp256k1 Model.EcIface Model.HashApi Model.AesApi Model.Ecies Spec.Bie1.
From BSV Require Import Proofs.EciesProofs Proofs.Bip32Proofs.
Local Open Scope Z_scope.

Theorem C11_std_laws : forall E, ecies_laws (ecies_std E).
Proof. exact ecies_std_laws. Qed.
Print Assumptions C11_std_laws.

(* 1. decrypt inverts encrypt: both inclusion modes [x], any encodings [cb], [ca] of the two public keys *)
Theorem C11_decrypt_encrypt :
  forall O, ecies_laws O -> ecdh_laws (eo_ec O) ->
  forall m a b cb ca x c,
    in_scalar a = true -> in_scalar b = true ->
    encrypt O m a (to_public_key O b cb) x = Ok c ->
    decrypt O c b (to_public_key O a ca) = Ok m.
Proof. exact decrypt_encrypt. Qed.
Print Assumptions C11_decrypt_encrypt.

Theorem C11_encrypt_succeeds :
  forall O, ecies_laws O -> ecdh_laws (eo_ec O) ->
  forall m a b cb x,
    in_scalar b = true ->
    ec_is_inf (eo_ec O) (ec_smul (eo_ec O) a (ec_smul (eo_ec O) b (ec_G (eo_ec O)))) = false ->
    exists c, encrypt O m a (to_public_key O b cb) x = Ok c.
Proof. exact encrypt_succeeds. Qed.
Print Assumptions C11_encrypt_succeeds.

(* 2. serialisation round trip, and decryption after serialise / parse (also reading the sender key from the ciphertext) *)
Theorem C11_ct_roundtrip :
  forall O c, ct_wf O c -> from_bytes O (to_bytes c) (has_pk c) = Ok c.
Proof. exact ct_roundtrip. Qed.
Print Assumptions C11_ct_roundtrip.

Theorem C11_from_bytes_sound :
  forall O s hp c, from_bytes O s hp = Ok c -> to_bytes c = s /\ has_pk c = hp /\ ct_wf O c.
Proof. exact from_bytes_sound. Qed.
Print Assumptions C11_from_bytes_sound.

Theorem C11_decrypt_after_serialise :
  forall O, ecies_laws O -> ecdh_laws (eo_ec O) ->
  forall m a b cb ca x c,
    in_scalar a = true -> in_scalar b = true ->
    encrypt O m a (to_public_key O b cb) x = Ok c ->
    (do c' <- from_bytes O (to_bytes c) (negb x); decrypt O c' b (to_public_key O a ca)) = Ok m.
Proof. exact decrypt_after_serialise. Qed.
Print Assumptions C11_decrypt_after_serialise.

Theorem C11_decrypt_with_extracted_key :
  forall O, ecies_laws O -> ecdh_laws (eo_ec O) ->
  forall m a b cb c,
    in_scalar a = true -> in_scalar b = true ->
    encrypt O m a (to_public_key O b cb) false = Ok c ->
    (do c' <- from_bytes O (to_bytes c) true; do sender <- extract_public_key O c'; decrypt O c' b sender) = Ok m.
Proof. exact decrypt_with_extracted_key. Qed.
Print Assumptions C11_decrypt_with_extracted_key.

(* 3. the serialised ciphertext is byte-identical to the independent BIE1 construction (Spec/Bie1.v) *)
Theorem C11_layout_eq_bie1 :
  forall E m a pk B x c,
    ec_dec E pk = Some B ->
    encrypt (ecies_std E) m a pk x = Ok c ->
    bie1_encrypt E a B (negb x) m = Some (to_bytes c).
Proof. exact layout_eq_bie1. Qed.
Print Assumptions C11_layout_eq_bie1.

(* ... and parsing then decrypting a byte string is the independent BIE1 decryption of it (every input) *)
Theorem C11_decrypt_eq_bie1 :
  forall E b pk A hp s,
    ec_dec E pk = Some A ->
    (do c <- from_bytes (ecies_std E) s hp; decrypt (ecies_std E) c b pk) = of_option (bie1_decrypt E b A hp s).
Proof. exact decrypt_eq_bie1. Qed.
Print Assumptions C11_decrypt_eq_bie1.

(* ... and from_bytes is the independent split of a serialised ciphertext (length guard for EVERY length, magic,
   embedded key, offsets 4 / 37 / len-32) *)
Theorem C11_from_bytes_eq_split :
  forall O s hp, from_bytes O s hp = of_option (option_map ct_of_split (bie1_split (eo_ec O) hp s)).
Proof. exact from_bytes_eq_split. Qed.
Print Assumptions C11_from_bytes_eq_split.

(* 4. MAC logic: unconditional rejections *)
Theorem C11_mac_flip_rejected :
  forall O c d pk m mac',
    decrypt O c d pk = Ok m -> mac' <> ct_mac c ->
    decrypt O (MkCt (ct_pub c) (ct_body c) mac') d pk = Err.
Proof. exact mac_flip_rejected. Qed.
Print Assumptions C11_mac_flip_rejected.

Theorem C11_wrong_mac_rejected :
  forall O c d pk k,
    derive_cipher_keys O d pk = Ok k ->
    ct_mac c <> eo_hmac256 O (mac_preimage (ct_pub c) (ct_body c)) (ck_km k) ->
    decrypt O c d pk = Err.
Proof. exact wrong_mac_rejected. Qed.
Print Assumptions C11_wrong_mac_rejected.

(* 5. anything else that is accepted is an HMAC forgery / collision *)
Theorem C11_tamper_needs_forgery_partial :
  forall O c d pk m,
    decrypt O c d pk = Ok m ->
    exists k, derive_cipher_keys O d pk = Ok k /\
              ct_mac c = eo_hmac256 O (mac_preimage (ct_pub c) (ct_body c)) (ck_km k) /\
              eo_cbc_dec O (ck_ke k) (ck_iv k) (ct_body c) = Ok m.
Proof. exact tamper_needs_forgery. Qed.
Print Assumptions C11_tamper_needs_forgery_partial.

Theorem C11_accepted_form_partial :
  forall O s hp c d pk m,
    from_bytes O s hp = Ok c -> decrypt O c d pk = Ok m ->
    exists k payload, derive_cipher_keys O d pk = Ok k /\
                      s = payload ++ eo_hmac256 O payload (ck_km k) /\ firstn 4 payload = magic.
Proof. exact accepted_form. Qed.
Print Assumptions C11_accepted_form_partial.

Theorem C11_tamper_is_forgery_partial :
  forall O s s' hp hp' c c' d pk m m',
    from_bytes O s hp = Ok c -> decrypt O c d pk = Ok m ->
    from_bytes O s' hp' = Ok c' -> decrypt O c' d pk = Ok m' ->
    s' <> s ->
    exists k payload payload', derive_cipher_keys O d pk = Ok k /\ payload' <> payload /\
      s = payload ++ eo_hmac256 O payload (ck_km k) /\ s' = payload' ++ eo_hmac256 O payload' (ck_km k).
Proof. exact tamper_is_forgery. Qed.
Print Assumptions C11_tamper_is_forgery_partial.

Theorem C11_wrong_key_needs_collision_partial :
  forall O c d pk m d' pk' m',
    decrypt O c d pk = Ok m -> decrypt O c d' pk' = Ok m' ->
    exists k k', derive_cipher_keys O d pk = Ok k /\ derive_cipher_keys O d' pk' = Ok k' /\
      eo_hmac256 O (mac_preimage (ct_pub c) (ct_body c)) (ck_km k) =
      eo_hmac256 O (mac_preimage (ct_pub c) (ct_body c)) (ck_km k').
Proof. exact wrong_key_needs_collision. Qed.
Print Assumptions C11_wrong_key_needs_collision_partial.

(* 6. totality: Err, never a panic *)
Theorem C11_from_bytes_total : forall O s hp, from_bytes O s hp <> Panic.
Proof. exact from_bytes_total. Qed.
Print Assumptions C11_from_bytes_total.

Theorem C11_decrypt_total : forall O, ecies_laws O -> forall c d pk, decrypt O c d pk <> Panic.
Proof. exact decrypt_total. Qed.
Print Assumptions C11_decrypt_total.

Theorem C11_encrypt_total : forall O, ecies_laws O -> forall m d pk x, encrypt O m d pk x <> Panic.
Proof. exact encrypt_total. Qed.
Print Assumptions C11_encrypt_total.

(* --- non-vacuity ---------------------------------------------------- *)
(* short buffers, wrong magic and a bad embedded key are refused; a well-formed buffer is split at 4 / 37 / len-32 *)
Example C11_from_bytes_examples :
  let O := ecies_std ec_ref in
  from_bytes O [x01; x02; x03] true = Err /\ from_bytes O [x01; x02; x03] false = Err /\
  from_bytes O (magic ++ repeat x00 31) false = Err /\
  from_bytes O (magic ++ repeat x07 32) false = Ok (MkCt None [] (repeat x07 32)) /\
  from_bytes O ([x42; x49; x45; x32] ++ repeat x07 40) false = Err /\
  from_bytes O (magic ++ repeat x00 65) true = Err.
Proof. cbv zeta. repeat split; vm_compute; reflexivity. Qed.

(* the premises are jointly satisfiable (toy group: integers modulo n with generator 1, real hashes and AES),
   and on that instance encryption succeeds, so the round-trip theorems are not vacuous *)
Example C11_premises_satisfiable :
  let O := ecies_std ec_toy in
  ecies_laws O /\ ecdh_laws (eo_ec O) /\
  exists c, encrypt O [x68; x69] 5 (to_public_key O 7 true) false = Ok c /\
            decrypt O c 7 (to_public_key O 5 false) = Ok [x68; x69] /\
            from_bytes O (to_bytes c) true = Ok c.
Proof.
  cbv zeta. split; [exact (ecies_std_laws ec_toy)|]. split; [exact toy_ecdh_laws|].
  eexists. split; [vm_compute; reflexivity|]. split; vm_compute; reflexivity.
Qed.
