(* Props/C12.v — pinned statements of property C12 (Bitcoin Signed Message: signing and verification are
   complete for every key, compression form, message length and network prefix; the signed digest is the
   specified one; verification is sound modulo the hashes).  Statements only; proofs are in
   Proofs/BsmProofs.v (on top of Proofs/SigProofs.v, Proofs/EcdsaProofs.v, Proofs/EcdsaSecp.v,
   Proofs/EcdsaAbstract.v: ecdsa_correct, recover_signer, recover_other_z).

   The functions are the model of the Rust code (Model/Bsm.v over Model/Ecdsa.v, Model/Sig.v, Model/Keys.v;
   tied by the correspondence run) on the reference instance of the curve (ref_prims: Prim/Secp256k1.v over Z).
   Explicit premises of the completeness statements:
     secp256k1_group  (Proofs/EcdsaSecp.v) — on valid points: padd is associative,
                      smul (a+b) P = padd (smul a P) (smul b P), smul (a*b) P = smul a (smul b P);
                      NOT proved (no elliptic-curve library; associativity is out of reach here).  PROVED for the
                      concrete formulas (Proofs/SecpGroupPartial.v, Proofs/SecpPrimes.v): closure of padd / pneg / smul,
                      commutativity, P + (-P) = O, 1*P = P, parity of -P, lift_x inverts (x, parity of y),
                      G has order exactly n (from the scalar laws), n and p are prime;
     nonce_x_small    — x(k*G) < n for the RFC 6979 nonce k of this key and message (k256 never records the
                      x-reduced recovery bit, so recovery of the other 2^-128 fraction fails in the library too).
   Soundness for other messages / other keys is _partial: it holds modulo collisions of SHA-256d (mod n) and of
   HASH160 (C12_bsm_other_message_partial and the tamper stream of the correspondence run). *)
From BSV Require Import Base.Hex.
From BSV Require Import Prim.Num Prim.Secp256k1 Prim.Sha256 Prim.Hmac Prim.Rfc6979.
From BSV Require Import Model.HashApi Model.VarInt Model.Ecdsa Model.Sig Model.Bsm Spec.TxWire Spec.BsmSpec.
From BSV Require Model.Keys.
From BSV Require Import Proofs.EcdsaSecp Proofs.EcdsaProofs Proofs.BsmProofs.
From Coq Require Import Zdiv.
Local Open Scope Z_scope.

(* 1. The signed digest, for every message length (the 253 and 65536 boundaries are inside `compact`):
      SHA-256d( compact(24) || "Bitcoin Signed Message:\n" || compact(|msg|) || msg ). *)
Theorem C12_magic_digest_spec :
  forall msg, magic_digest msg = sha256 (sha256 (compact 24 ++ bsm_magic ++ compact (N.of_nat (length msg)) ++ msg)).
Proof. exact magic_digest_spec. Qed.
Print Assumptions C12_magic_digest_spec.

Theorem C12_preimage_spec : forall msg, prepend_magic_bytes msg = bsm_preimage msg.
Proof. exact prepend_is_preimage. Qed.
Print Assumptions C12_preimage_spec.

(* what sign_message signs: the scalar of that digest, with the RFC 6979 / HMAC-SHA256 nonce for it *)
Theorem C12_sign_is_rfc6979_over_digest :
  forall P sk msg,
    sign_impl P sk msg =
    let z := be_Z (bsm_digest msg) mod secp_n in
    sign_core P sk (generate_k hmac_sha256 (sk_d sk) z []) z.
Proof. exact sign_impl_is_rfc6979. Qed.
Print Assumptions C12_sign_is_rfc6979_over_digest.

(* 2. Completeness: every address carrying HASH160 of the signer's key (in the key's compression form)
      accepts, whatever its prefix byte and stored checksum. *)
Theorem C12_bsm_complete :
  secp256k1_group ->
  forall sk msg sg a,
    valid_sk sk -> nonce_x_small sk msg ->
    sign_impl ref_prims sk msg = Ok sg ->
    Keys.a_hash a = own_hash sk ->
    verify_message_impl ref_prims msg sg a = Ok true.
Proof. exact bsm_complete. Qed.
Print Assumptions C12_bsm_complete.

Theorem C12_bsm_complete_compact :
  secp256k1_group ->
  forall sk msg sg a,
    valid_sk sk -> nonce_x_small sk msg ->
    sign_impl ref_prims sk msg = Ok sg ->
    Keys.a_hash a = own_hash sk ->
    (do sg' <- from_compact_impl (to_compact_bytes sg None); verify_message_impl ref_prims msg sg' a) = Ok true.
Proof. exact bsm_complete_compact. Qed.
Print Assumptions C12_bsm_complete_compact.

(* the address the library derives from the signer's key, re-prefixed with ANY byte p *)
Theorem C12_bsm_complete_own_address :
  secp256k1_group ->
  forall sk msg sg p a0 a,
    valid_sk sk -> nonce_x_small sk msg ->
    sign_impl ref_prims sk msg = Ok sg ->
    Keys.addr_from_pubkey (keys_pub (to_public_key ref_prims sk)) = Ok a0 -> Keys.addr_set_chain a0 p = Ok a ->
    verify_message_impl ref_prims msg sg a = Ok true
    /\ (do sg' <- from_compact_impl (to_compact_bytes sg None); verify_message_impl ref_prims msg sg' a) = Ok true
    /\ Keys.a_prefix a = p.
Proof. exact bsm_complete_own_address. Qed.
Print Assumptions C12_bsm_complete_own_address.

(* 3. Soundness modulo the hashes: acceptance means that the key recovered from (signature, specified digest)
      hashes to the address hash and that the signature verifies under it. *)
Theorem C12_bsm_sound_modulo_hash :
  forall msg sg a,
    verify_message_impl ref_prims msg sg a = Ok true ->
    exists pk Q,
      get_public_key ref_prims sg (prepend_magic_bytes msg) SHSha256d = Ok pk /\
      hash_160 (pk_point pk) = Keys.a_hash a /\
      sec1_decode (pk_point pk) = Some Q /\
      prim_verify Q (be_Z (bsm_digest msg) mod secp_n) (sig_r sg, sig_s sg) = true.
Proof. exact bsm_sound_modulo_hash. Qed.
Print Assumptions C12_bsm_sound_modulo_hash.

Theorem C12_verify_never_false : forall P msg sg a, verify_message_impl P msg sg a <> Ok false.
Proof. exact verify_never_false. Qed.
Print Assumptions C12_verify_never_false.

(* another message whose digest scalar differs: the recovered point is not the signer's key *)
Theorem C12_bsm_other_message_partial :
  secp256k1_group ->
  forall sk msg msg' sg Q,
    valid_sk sk -> nonce_x_small sk msg ->
    sign_impl ref_prims sk msg = Ok sg ->
    ~ eqm secp_n (scalar_be (magic_digest msg')) (scalar_be (magic_digest msg)) ->
    recover (sig_r sg) (sig_s sg) (sig_odd sg) (scalar_be (magic_digest msg')) = Ok Q ->
    Q <> Secp256k1.pubkey (sk_d sk).
Proof. exact bsm_other_message_partial. Qed.
Print Assumptions C12_bsm_other_message_partial.

(* 4. The evaluation shortcuts of the correspondence run are the modelled functions. *)
Theorem C12_run_uses_model :
  (forall P sk msg, sign_impl P sk msg = sign_with_digest P sk (magic_digest msg))
  /\ (forall P msg sg a, verify_message_impl P msg sg a = verify_with_digest P (magic_digest msg) sg a).
Proof. exact (conj sign_impl_digest verify_message_impl_digest). Qed.
Print Assumptions C12_run_uses_model.

(* ------------------------------------------------------------------ *)
(* non-vacuity *)
Example C12_magic_is_24_bytes :
  length bsm_magic = 24%nat /\ bsm_magic = bytes_of_string "Bitcoin Signed Message:" ++ [x0a]
  /\ hex_of_bytes (bsm_preimage (bytes_of_string "Hello Bitcoin!"))
     = "18426974636f696e205369676e6564204d6573736167653a0a0e48656c6c6f20426974636f696e21".
Proof. repeat split; vm_compute; reflexivity. Qed.

Example C12_length_prefix_widths :
  firstn 3 (skipn 25 (bsm_preimage (repeat x61 252))) = [xfc; x61; x61]
  /\ firstn 4 (skipn 25 (bsm_preimage (repeat x61 253))) = [xfd; xfd; x00; x61]
  /\ firstn 6 (skipn 25 (bsm_preimage (repeat x61 (N.to_nat 65536)))) = [xfe; x00; x00; x01; x00; x61].
Proof. repeat split; vm_compute; reflexivity. Qed.

(* the digest of "Hello Bitcoin!" (the message of tests/bsm.rs); expected value from python hashlib *)
Example C12_digest_anchor :
  hex_of_bytes (magic_digest (bytes_of_string "Hello Bitcoin!"))
  = "7e4879194ec8466aa614a27710c8a29b7dd3a0bf9b71769282feb494dceed04a".
Proof. vm_compute. reflexivity. Qed.
