(* Props/C08.v — placeholder while the pipeline is brought up; replaced by the pinned statements. *)
From BSV Require Import Base.Hex Model.Bip32.
Example C08_placeholder : parse_path (list_ascii_of_string "m/1'") = Ok [2147483649%N].
Proof. vm_compute. reflexivity. Qed.
