(* Props/C08.v — pinned statements of property C08 (BIP32 derivation and xprv/xpub serialisation match
   the standard).  Statements only; proofs are in Proofs/Bip32Proofs.v and Proofs/Bip32PathProofs.v.

   Model/Bip32.v is the transcription of src/keypair/extended_{private,public}_key.rs (tied to the Rust code
   by the correspondence run); Spec/Bip32Spec.v is BIP32 written from the text over the published
   primitives of Prim/ (tied to the standard by the BIP32 test vectors 1-3 in Proofs/Bip32Kat.v, which
   are evaluated for the specification AND for the model).  Every statement is for an arbitrary curve
   interface [E : ec_ops] and therefore for [ec_fast], the instance the correspondence run executes;
   group laws appear as explicit premises ([ec_group_laws], commutativity, SEC1 decode-after-encode),
   they are NOT proved for the concrete secp256k1 formulas.

   [model_of_spec] / [pmodel_of_spec] embed a specification-level extended key into the model's record
   (public key bytes = serP(point k), compressed). *)
From BSV Require Import Base.Hex Prim.Base58 Prim.Secp256k1 Model.HashApi Model.EcIface Model.Bip32 Spec.Bip32Spec.
From BSV Require Import Proofs.Bip32Proofs Proofs.Bip32PathProofs.
Local Open Scope Z_scope.

(* 1. master key, private and public child derivation equal the specification *)
Theorem C08_master_eq_spec :
  forall E seed, xprv_from_seed E seed = of_option (option_map (model_of_spec E) (master seed)).
Proof. exact master_eq_spec. Qed.
Print Assumptions C08_master_eq_spec.

Theorem C08_ckd_priv_eq_spec :
  forall E x i,
    (sdepth x <= 255)%N ->
    parse256 (firstn 32 (I_priv E (sk x) (sc x) i)) <> 0 ->
    xprv_derive E (model_of_spec E x) i = of_option (option_map (model_of_spec E) (child_priv E x i)).
Proof. exact ckd_priv_eq_spec. Qed.
Print Assumptions C08_ckd_priv_eq_spec.

(* the excluded case: the library refuses IL = 0, which BIP32 allows (needs a 256-bit HMAC-SHA512 preimage) *)
Theorem C08_ckd_priv_il_zero_refused :
  forall E x i,
    parse256 (firstn 32 (I_priv E (sk x) (sc x) i)) = 0 -> xprv_derive E (model_of_spec E x) i = Err.
Proof. exact ckd_priv_il_zero_refused. Qed.
Print Assumptions C08_ckd_priv_il_zero_refused.

Theorem C08_ckd_pub_eq_spec :
  forall E (X : sxpub E) i,
    (forall P Q, ec_add E P Q = ec_add E Q P) ->
    ec_dec E (serP E (sK E X)) = Some (sK E X) ->
    (sDepth E X <= 255)%N ->
    parse256 (firstn 32 (I_pub E (sK E X) (sC E X) i)) <> 0 ->
    xpub_derive E (pmodel_of_spec E X) i = of_option (option_map (pmodel_of_spec E) (child_pub E X i)).
Proof. exact ckd_pub_eq_spec. Qed.
Print Assumptions C08_ckd_pub_eq_spec.

(* 2. neutering commutes with normal derivation: public key, chain code, depth, index and fingerprint *)
Theorem C08_neuter_commutes :
  forall E x i,
    ec_group_laws E ->
    in_scalar (xs_key x) = true ->
    xs_pub x = pub_of_priv E (xs_key x) (xs_comp x) ->
    (i < 2 ^ 31)%N ->
    omap xpub_from_xprv (xprv_derive E x i) = xpub_derive E (xpub_from_xprv x) i.
Proof. exact neuter_commutes_laws. Qed.
Print Assumptions C08_neuter_commutes.

(* its two premises on the parent hold for every key produced by from_seed, derive or from_string *)
Theorem C08_invariant :
  forall E,
    (forall seed x, xprv_from_seed E seed = Ok x ->
       in_scalar (xs_key x) = true /\ xs_pub x = pub_of_priv E (xs_key x) (xs_comp x)) /\
    (forall x i y, xprv_derive E x i = Ok y ->
       in_scalar (xs_key y) = true /\ xs_pub y = pub_of_priv E (xs_key y) (xs_comp y)) /\
    (forall s x, xprv_from_string E s = Ok x ->
       in_scalar (xs_key x) = true /\ xs_pub x = pub_of_priv E (xs_key x) (xs_comp x)).
Proof.
  exact (fun E => conj (from_seed_invariant E) (conj (derive_invariant E) (from_string_invariant E))).
Qed.
Print Assumptions C08_invariant.

(* 3. hardened derivation from a public key is refused *)
Theorem C08_hardened_pub_refused : forall E x i, (2 ^ 31 <= i)%N -> xpub_derive E x i = Err.
Proof. exact hardened_pub_refused. Qed.
Print Assumptions C08_hardened_pub_refused.

(* 4. serialisation: equals the specification's; key -> string -> key; string -> key -> string;
      anything that is not the Base58Check encoding of 78 bytes is refused; never a panic *)
Theorem C08_to_string_priv_eq_spec : forall E x, xprv_to_string (model_of_spec E x) = serialize_priv x.
Proof. exact to_string_priv_eq_spec. Qed.
Print Assumptions C08_to_string_priv_eq_spec.

Theorem C08_to_string_pub_eq_spec : forall E (X : sxpub E), xpub_to_string (pmodel_of_spec E X) = serialize_pub E X.
Proof. exact to_string_pub_eq_spec. Qed.
Print Assumptions C08_to_string_pub_eq_spec.

(* (the last premise: a key at depth 0 is a master key, its index and parent fingerprint are zero.  `new` can build a
   depth-0 value with other fields; its string is then refused by design, see C08_master_fields_example) *)
Theorem C08_xprv_roundtrip :
  forall E x,
    in_scalar (xs_key x) = true /\ xs_comp x = true /\ xs_pub x = pub_of_priv E (xs_key x) true /\
    length (xs_cc x) = 32%nat /\ length (xs_fp x) = 4%nat /\ (xs_depth x < 256)%N /\ (xs_index x < 2 ^ 32)%N /\
    (xs_depth x = 0%N -> xs_index x = 0%N /\ xs_fp x = zeros 4) ->
    xprv_from_string E (xprv_to_string x) = Ok x.
Proof. exact xprv_roundtrip. Qed.
Print Assumptions C08_xprv_roundtrip.

Theorem C08_xpub_roundtrip :
  forall E x,
    length (xp_pub x) = 33%nat /\ ec_dec E (xp_pub x) <> None /\
    length (xp_cc x) = 32%nat /\ length (xp_fp x) = 4%nat /\ (xp_depth x < 256)%N /\ (xp_index x < 2 ^ 32)%N /\
    (xp_depth x = 0%N -> xp_index x = 0%N /\ xp_fp x = zeros 4) ->
    xpub_from_string E (xpub_to_string x) = Ok x.
Proof. exact xpub_roundtrip. Qed.
Print Assumptions C08_xpub_roundtrip.

Theorem C08_xprv_string_roundtrip :
  forall E s x, xprv_from_string E s = Ok x -> xprv_to_string x = s /\ xprv_ok E x.
Proof. exact xprv_string_roundtrip. Qed.
Print Assumptions C08_xprv_string_roundtrip.

Theorem C08_xpub_string_roundtrip :
  forall E s x, xpub_from_string E s = Ok x -> xpub_to_string x = s /\ xpub_ok E x.
Proof. exact xpub_string_roundtrip. Qed.
Print Assumptions C08_xpub_string_roundtrip.

Theorem C08_corrupt_rejected :
  forall E s,
    (match b58_decode s with
     | None => True
     | Some bs => length bs <> 82%nat \/ skipn 78 bs <> firstn 4 (sha_256d (firstn 78 bs))
     end) ->
    xprv_from_string E s = Err /\ xpub_from_string E s = Err.
Proof. exact corrupt_rejected. Qed.
Print Assumptions C08_corrupt_rejected.

Theorem C08_from_string_total :
  forall E s, xprv_from_string E s <> Panic /\ xpub_from_string E s <> Panic.
Proof. exact (fun E s => conj (xprv_from_string_total E s) (xpub_from_string_total E s)). Qed.
Print Assumptions C08_from_string_total.

(* 5. the path parser accepts exactly the explicitly described language, and reads the standard
      notation as the standard list of child numbers; the bare "m" is refused *)
Theorem C08_path_grammar : forall p idx, parse_path p = Ok idx <-> path_language p idx.
Proof. exact path_grammar. Qed.
Print Assumptions C08_path_grammar.

Theorem C08_std_paths_ok : forall p idx, std_path p = Some idx -> idx <> [] -> parse_path p = Ok idx.
Proof. exact std_paths_ok. Qed.
Print Assumptions C08_std_paths_ok.

(* derive_from_path on a path in the standard notation is the specification's descent along the standard
   index list ([il_nonzero_along]: the IL <> 0 side condition of C08_ckd_priv_eq_spec at every step) *)
Theorem C08_derive_path_eq_spec :
  forall E x p idx,
    std_path p = Some idx -> idx <> [] ->
    (sdepth x <= 255)%N -> il_nonzero_along E x idx ->
    xprv_derive_path E (model_of_spec E x) p = of_option (option_map (model_of_spec E) (descend_priv E x idx)).
Proof. exact derive_path_eq_spec. Qed.
Print Assumptions C08_derive_path_eq_spec.

(* --- non-vacuity ---------------------------------------------------- *)
Example C08_std_path_examples :
  std_path (list_ascii_of_string "m/0'/1/2h/2/1000000000") = Some [2147483648; 1; 2147483650; 2; 1000000000]%N /\
  std_path (list_ascii_of_string "M/44H/0'/0h/0/5") = Some [2147483692; 2147483648; 2147483648; 0; 5]%N /\
  std_path (list_ascii_of_string "m") = Some [] /\ std_path (list_ascii_of_string "m/") = None /\ std_path (list_ascii_of_string "m/2147483648") = None /\
  std_path (list_ascii_of_string "m/1''") = None /\ std_path (list_ascii_of_string "m/+1") = None /\ std_path (list_ascii_of_string "m//1") = None.
Proof. repeat split; vm_compute; reflexivity. Qed.

Example C08_parse_path_examples :
  parse_path (list_ascii_of_string "m/0'/1/2h/2/1000000000") = Ok [2147483648; 1; 2147483650; 2; 1000000000]%N /\
  parse_path (list_ascii_of_string "m") = Err /\ parse_path (list_ascii_of_string "m/") = Err /\
  parse_path (list_ascii_of_string "m0") = Ok [0%N] /\ parse_path (list_ascii_of_string "m/+1") = Ok [1%N] /\ parse_path (list_ascii_of_string "m//1/") = Ok [1%N] /\
  parse_path (list_ascii_of_string "m/1Hh''") = Ok [2147483649%N] /\ parse_path (list_ascii_of_string "m/1'h") = Err /\
  parse_path (list_ascii_of_string "m/2147483648") = Err /\ parse_path (list_ascii_of_string "m/4294967296'") = Err /\ parse_path (list_ascii_of_string "n/1") = Err.
Proof. repeat split; vm_compute; reflexivity. Qed.

(* the group-law premises are jointly satisfiable (integers modulo n, generator 1), and on that instance
   derivation succeeds, so C08_neuter_commutes and the eq_spec theorems are not vacuous *)
Example C08_premises_satisfiable :
  ec_group_laws ec_toy /\ (forall P Q, ec_add ec_toy P Q = ec_add ec_toy Q P) /\
  exists x y, xprv_from_seed ec_toy (lcg_bytes 16 1) = Ok x /\ xprv_derive ec_toy x 5 = Ok y /\
              xpub_derive ec_toy (xpub_from_xprv x) 5 = Ok (xpub_from_xprv y).
Proof.
  split; [exact toy_group_laws|]. split; [exact toy_add_comm|].
  eexists. eexists. split; [vm_compute; reflexivity|]. split; vm_compute; reflexivity.
Qed.

Example C08_corrupt_example :
  let s := "xprv9s21ZrQH143K3QTDL4LXw2F7HEK3wJUD2nW2nRk4stbPy6cq3jPPqjiChkVvvNKmPGJxWUtg6LnF5kejMRNNU3TGtRBeJgk33yuGBxrMPHj" in
  match b58_decode s with
  | Some bs => length bs = 82%nat /\ skipn 78 bs <> firstn 4 (sha_256d (firstn 78 bs))
  | None => False
  end.
Proof. vm_compute. split; [reflexivity|discriminate]. Qed.

(* since 7aed395 (BIP32 test vector 5): a depth-0 key with a non-zero index or parent fingerprint is refused by the
   readers, so a value built that way with `new` does not survive key -> string -> key *)
Example C08_master_fields_example :
  let x := xprv_new ec_toy 5 true (repeat x07 32) 0 1 None in
  let y := xprv_new ec_toy 5 true (repeat x07 32) 0 0 (Some [x00; x00; x00; x01]) in
  let z := xprv_new ec_toy 5 true (repeat x07 32) 0 0 None in
  xprv_from_string ec_toy (xprv_to_string x) = Err /\ xprv_from_string ec_toy (xprv_to_string y) = Err /\
  xprv_from_string ec_toy (xprv_to_string z) = Ok z /\
  xpub_from_string ec_toy (xpub_to_string (xpub_from_xprv x)) = Err /\
  xpub_from_string ec_toy (xpub_to_string (xpub_from_xprv z)) = Ok (xpub_from_xprv z).
Proof. cbv zeta. repeat split; vm_compute; reflexivity. Qed.
