(* Props/C06.v — provisional; replaced below by the full list of pinned statements. *)
From BSV Require Import Base.Bytes Prim.Der.
Local Open Scope Z_scope.
Theorem C06_der_codec_roundtrip : forall r s, 1 <= r < der_n -> 1 <= s < der_n -> der_decode (der_encode r s) = Some (r, s).
Proof. exact der_roundtrip. Qed.
Print Assumptions C06_der_codec_roundtrip.
