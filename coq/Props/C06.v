(* Props/C06.v — pinned statements of property C06 (signature encodings DER, DER + flag, compact round-trip;
   recovery finds the signer).  Statements only; proofs in Proofs/SigProofs.v, Proofs/EcdsaSecp.v, Prim/Der.v.

   The statements are about the model Model/Sig.v (reference instance [ref_prims] where elliptic-curve arithmetic
   is involved; the executed instance is proved equal in Proofs/EcdsaRefine.v).
   "Malformed DER is rejected" is proved as EXACTNESS of the parsers over the Gallina DER codec (Prim/Der.v):
   an accepted input IS the strict encoding of the result (+ one flag byte where the API says so), so inputs with
   wrong lengths, trailing bytes, non-minimal integers, zero or out-of-range r or s are all rejected.  That the
   `der` / `ecdsa` crates implement this codec is tied by the malformed stream of the correspondence run (partial).
   The recovery statements carry the premise [secp256k1_group] (three statements: associativity of
   padd, the two scalar-action laws; everything else - closure of padd/pneg/smul, commutativity, inverses, parity of -P,
   lift_x, exact order of G, primality of p and n - is proved, see Props/C05.v and Proofs/SecpGroupPartial.v) and x(kG) < n: k256 records a
   recovery id whose x-reduced bit is never set, so for the 2^-128 fraction of nonces with x(kG) >= n the recorded
   id does not lead back to the key (not reachable by sampling; stated as a hypothesis). *)
From BSV Require Import Base.Bytes Base.Hex.
From BSV Require Import Prim.Num Prim.Secp256k1 Prim.Der Prim.Rfc6979 Proofs.EcdsaAbstract.
From BSV Require Import Model.HashApi Model.Opcodes Model.Ecdsa Model.Sig Spec.EcdsaSpec.
From BSV Require Import Proofs.EcdsaSecp Proofs.EcdsaProofs Proofs.SigProofs.
Local Open Scope Z_scope.

(* 1. DER round trip through the library functions, for every final byte (no dependence on whether it is a flag value) *)
Theorem C06_der_roundtrip :
  forall sg, sig_ok sg -> from_der_impl (to_der_bytes sg) = Ok (mk_sig (sig_r sg, sig_s sg)).
Proof. exact der_roundtrip_lib. Qed.
Print Assumptions C06_der_roundtrip.
Theorem C06_der_hex_roundtrip :
  forall sg, sig_ok sg -> from_hex_der (hex_of_bytes (to_der_bytes sg)) = Ok (mk_sig (sig_r sg, sig_s sg)).
Proof. exact der_hex_roundtrip_lib. Qed.
Print Assumptions C06_der_hex_roundtrip.
(* every signature the library produces is in that range *)
Theorem C06_produced_signatures_encodable : forall sg, sig_low sg -> sig_ok sg.
Proof. exact sig_low_ok. Qed.
Print Assumptions C06_produced_signatures_encodable.

(* 2. DER + flag round trip for all fourteen flag values *)
Theorem C06_sighash_sig_roundtrip :
  forall sg f buf, sig_ok sg -> is_flag f = true ->
  (do b <- sighashsig_to_bytes {| ss_sig := sg; ss_flag := f; ss_buffer := buf |}; sighashsig_from_bytes b buf)
  = Ok {| ss_sig := mk_sig (sig_r sg, sig_s sg); ss_flag := f; ss_buffer := buf |}.
Proof. exact sighash_sig_roundtrip. Qed.
Print Assumptions C06_sighash_sig_roundtrip.
Theorem C06_fourteen_flags :
  (forall b, is_flag b = spec_is_flag b) /\ forallb (fun v => is_flag (n2b v)) flag_bytes = true /\ length flag_bytes = 14%nat.
Proof. exact (conj is_flag_spec fourteen_flags). Qed.
Print Assumptions C06_fourteen_flags.
Theorem C06_from_der_accepts_flag_suffix :
  forall sg f, sig_ok sg -> is_flag f = true -> from_der_impl (to_der_bytes sg ++ [f]) = Ok (mk_sig (sig_r sg, sig_s sg)).
Proof. exact der_flag_suffix_lib. Qed.
Print Assumptions C06_from_der_accepts_flag_suffix.

(* 3. Malformed input is rejected: the parsers are exact *)
Theorem C06_from_der_exact :
  forall bs sg, from_der_impl bs = Ok sg ->
  sig_ok sg /\ sig_rec sg = None /\
  (bs = to_der_bytes sg \/ exists f, is_flag f = true /\ bs = to_der_bytes sg ++ [f]).
Proof. exact from_der_exact. Qed.
Print Assumptions C06_from_der_exact.
Theorem C06_sighashsig_exact :
  forall bs buf ss, sighashsig_from_bytes bs buf = Ok ss ->
  sig_ok (ss_sig ss) /\ is_flag (ss_flag ss) = true /\ bs = to_der_bytes (ss_sig ss) ++ [ss_flag ss].
Proof. exact sighashsig_exact. Qed.
Print Assumptions C06_sighashsig_exact.
Theorem C06_der_codec_exact : forall bs r s, der_decode bs = Some (r, s) -> bs = der_encode r s.
Proof. exact der_exact. Qed.
Print Assumptions C06_der_codec_exact.
Theorem C06_der_codec_range : forall bs r s, der_decode bs = Some (r, s) -> 1 <= r < der_n /\ 1 <= s < der_n.
Proof. exact der_decode_range. Qed.
Print Assumptions C06_der_codec_range.
Theorem C06_der_codec_no_trailing : forall bs rs, der_decode bs = Some rs -> forall t, t <> [] -> der_decode (bs ++ t) = None.
Proof. exact der_decode_app_nonempty. Qed.
Print Assumptions C06_der_codec_no_trailing.

(* 4. Compact form: all four recovery ids x both compression markers; header = 27 + recid + 4*compressed; total parser *)
Theorem C06_compact_roundtrip :
  forall sg ri, sig_ok sg ->
  from_compact_impl (to_compact_bytes sg (Some ri)) = Ok {| sig_r := sig_r sg; sig_s := sig_s sg; sig_rec := Some ri |}.
Proof. exact compact_roundtrip. Qed.
Print Assumptions C06_compact_roundtrip.
Theorem C06_compact_roundtrip_own :
  forall sg ri, sig_ok sg -> sig_rec sg = Some ri -> from_compact_impl (to_compact_bytes sg None) = Ok sg.
Proof. exact compact_roundtrip_own. Qed.
Print Assumptions C06_compact_roundtrip_own.
Theorem C06_compact_header :
  forall ri, compact_header ri =
  (27 + ((if ri_x_reduced ri then 2 else 0) + (if ri_y_odd ri then 1 else 0)) + (if ri_compressed ri then 4 else 0))%N.
Proof. exact compact_header_spec. Qed.
Print Assumptions C06_compact_header.
Theorem C06_from_compact_total : forall bs, from_compact_impl bs <> Panic.
Proof. exact from_compact_total. Qed.
Print Assumptions C06_from_compact_total.
Theorem C06_from_compact_rejects :
  forall bs, (length bs <> 65%nat \/ exists h t, bs = h :: t /\ ~ (27 <= b2n h <= 34)%N) -> from_compact_impl bs = Err.
Proof. exact from_compact_rejects. Qed.
Print Assumptions C06_from_compact_rejects.

(* 5. Recovery returns exactly the signer's public key in the recorded compression form *)
Theorem C06_prim_recover_signer :
  secp256k1_group -> forall d k z r s v,
  0 < k < secp_n -> 0 <= xcoord (smul k G) < secp_n -> smul d G <> None ->
  prim_sign d k z = Some (r, s, v) -> recover r s v z = Ok (smul d G).
Proof. exact secp_recover_signer. Qed.
Print Assumptions C06_prim_recover_signer.
Theorem C06_sign_recovers :
  secp256k1_group -> forall sk m a rk sg,
  valid_sk sk -> sign_with_deterministic_k ref_prims sk m a rk = Ok sg ->
  (forall k, det_nonce (sk_d sk) (message_digest a m) rk = Some k -> 0 <= xcoord (smul k G) < secp_n) ->
  get_public_key ref_prims sg m a = Ok (to_public_key ref_prims sk).
Proof. exact sign_det_recovers. Qed.
Print Assumptions C06_sign_recovers.
Theorem C06_sign_compact_recover :
  secp256k1_group -> forall sk m a rk sg,
  valid_sk sk -> sign_with_deterministic_k ref_prims sk m a rk = Ok sg ->
  (forall k, det_nonce (sk_d sk) (message_digest a m) rk = Some k -> 0 <= xcoord (smul k G) < secp_n) ->
  (do back <- from_compact_impl (to_compact_bytes sg None); get_public_key ref_prims back m a)
  = Ok (to_public_key ref_prims sk).
Proof. exact sign_compact_recover. Qed.
Print Assumptions C06_sign_compact_recover.
(* the guard added by fix 3b86143 never fires on a genuine signature *)
Theorem C06_genuine_not_identity :
  secp256k1_group -> forall d k z r s v R,
  0 < k < secp_n -> 0 <= xcoord (smul k G) < secp_n -> smul d G <> None ->
  prim_sign d k z = Some (r, s, v) -> lift_x r v = Some R -> smul s R <> smul z G.
Proof. exact secp_genuine_not_identity. Qed.
Print Assumptions C06_genuine_not_identity.
(* ... and for a different message scalar the recovered point is NOT the signer's key *)
Theorem C06_recover_other_z :
  secp256k1_group -> forall d k z z' r s v,
  0 < k < secp_n -> 0 <= xcoord (smul k G) < secp_n ->
  prim_sign d k z = Some (r, s, v) -> ~ eqm secp_n z' z ->
  recover_point r s v z' <> Some (smul d G).
Proof. exact secp_recover_other_z. Qed.
Print Assumptions C06_recover_other_z.

(* Non-vacuity *)
Example C06_example_der :
  from_der_impl (to_der_bytes (mk_sig (ex_r, ex_s))) = Ok (mk_sig (ex_r, ex_s)) /\
  to_der_bytes (mk_sig (ex_r, ex_s)) = ex_sig /\ last_opt ex_sig = Some xe5 /\
  from_der_impl (ex_sig ++ [x41]) = Ok (mk_sig (ex_r, ex_s)) /\ from_der_impl (ex_sig ++ [x04]) = Err /\
  from_der_impl (ex_sig ++ [x41; x01]) = Err /\
  sighashsig_from_bytes (ex_sig ++ [x41; x01]) [] = Err /\ sighashsig_from_bytes ex_sig [] = Err.
Proof. vm_compute. repeat split; reflexivity. Qed.
Example C06_example_compact :
  to_compact_bytes (mk_sig (1, 2)) (Some {| ri_y_odd := true; ri_x_reduced := false; ri_compressed := true |})
  = x20 :: be32 1 ++ be32 2.
Proof. vm_compute. reflexivity. Qed.
