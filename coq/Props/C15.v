(* Props/C15.v — provisional; replaced by the full list of pinned statements. *)
From BSV Require Import Base.Bytes Base.Hex Spec.ScriptTok Spec.SpendSpec.
Example C15_script_code_example :
  script_code [TOp 171; TPush 1 [x01]; TOp 171; TOp 172; TOp 171] = [TOp 172; TOp 171].
Proof. reflexivity. Qed.
