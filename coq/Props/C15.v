(* Props/C15.v — pinned statements of property C15 (the interpreter's CHECKSIG / CHECKMULTISIG accept exactly
   valid signatures on the right data).  Statements only; proofs are in Proofs/InterpSig{Proofs,Ops,Run,Families,Library}.v.

   Implementation side (tied to the Rust code by the correspondence run, op interp.spend):
     Model/Interp.v      the interpreter (checksig, multisig, match_opcode, run)
     Model/InterpSig.v   its transaction side: sig_preimage (flag byte, calculate_sighash_preimage), sig_verify
                         (SighashSignature::from_bytes, PublicKey::from_bytes, Transaction::_verify), from_transaction, spend
   Specification side (Spec/SpendSpec.v): a signature element  DER(r,s) || flag  is VALID for a key element when the flag is
   one of the twelve standard hash types, the signature hash of Spec/Bip143.v / Spec/LegacySighash.v (properties C03 / C10)
   for (transaction, input index, flag, script code, declared amount) is defined, both parts decode (Prim/Der.v, SEC1) and the
   ECDSA verification primitive accepts on z = SHA256(SHA256(preimage)) mod n.  The script code is the locking script after
   the last OP_CODESEPARATOR that precedes the signature check.
   `outside_flag sg = false` excludes the two enum values FORKID (0x40) and ANYONECANPAY (0x80) on their own, about which the
   property says nothing. *)
From BSV Require Import Base.Bytes Base.Hex.
From BSV Require Import Prim.Num Prim.Secp256k1 Prim.Der Prim.Sha256 Prim.Ripemd160.
From BSV Require Import Model.Opcodes Model.Script Model.VarInt Model.Tx Model.HashApi Model.Sighash Model.Ecdsa Model.Sig
  Model.Interp Model.InterpSig.
From BSV Require Import Spec.ScriptTok Spec.SighashWire Spec.Bip143 Spec.LegacySighash Spec.SpendSpec.
From BSV Require Import Proofs.ScriptProofs Proofs.InterpTotal Proofs.EcdsaSecp Proofs.EcdsaProofs.
From BSV Require Import Proofs.InterpSigProofs Proofs.InterpSigOps Proofs.InterpSigRun Proofs.InterpSigFamilies Proofs.InterpSigLibrary Proofs.InterpSigSpecColumn Proofs.InterpSigExample.
Local Open Scope list_scope.
Local Open Scope nat_scope.

Local Notation SP := sig_preimage.
Local Notation SV := (sig_verify ref_prims).

(* ------------------------------------------------------------------ *)
(* 0. What "valid" means, spelled out; and which signature-hash specification a flag selects. *)
Theorem C15_valid_explicit :
  forall wt n code v sg pk,
  spec_sig_valid wt n code v sg pk = true <->
  exists der f pre rs Q,
    sg = der ++ [f] /\
    sighash_spec Hd wt n (b2n f) code v = Some pre /\
    der_decode der = Some rs /\ sec1_decode pk = Some Q /\
    prim_verify Q (be_Z (sha256 (sha256 pre)) mod secp_n)%Z rs = true.
Proof. exact sig_valid_explicit. Qed.
Print Assumptions C15_valid_explicit.

Theorem C15_sighash_spec_is_C03_C10 :
  (forall wt n f code v, In f [65; 66; 67; 193; 194; 195]%N ->
     sighash_spec Hd wt n f code v =
       if single_without_output wt n f then None else bip143_preimage Hd wt n f (toks_bytes code) v) /\
  (forall wt n f code v, In f [1; 2; 3; 129; 130; 131]%N ->
     sighash_spec Hd wt n f code v = legacy_preimage wt n f code).
Proof. split; [exact sighash_spec_forkid|exact sighash_spec_legacy]. Qed.
Print Assumptions C15_sighash_spec_is_C03_C10.

(* ------------------------------------------------------------------ *)
(* 1. The transaction side cannot panic, for any context; hence from_transaction + run always ends with Ok or an error.
      (These are the two hypotheses of the statements of property C16.) *)
Theorem C15_transaction_side_total :
  (forall (c : txctx) cs sg, SP c cs sg <> Panic) /\ (forall (c : txctx) pre sg pk, SV c pre sg pk <> Panic).
Proof. split; [exact sig_preimage_total|exact sig_verify_total]. Qed.
Print Assumptions C15_transaction_side_total.

Theorem C15_spend_total :
  forall t idx,
  spend ref_prims t idx = Err \/
  exists j, spend ref_prims t idx = Ok (RunOk j) \/ spend ref_prims t idx = Ok (RunErr j).
Proof. exact spend_total. Qed.
Print Assumptions C15_spend_total.

(* ------------------------------------------------------------------ *)
(* 2. checksig_iff: with [.. sig key] on the stack of ANY interpreter state, checksig pops the two elements and answers
      `true` exactly when the signature element is valid for the key element, with the script code cut from the locking
      script at (codeseparator_offset - number of unlocking elements) and the declared value of the input. *)
Theorem C15_checksig_iff :
  forall (c : txctx) i l v st,
  nth_error (inputs (ctx_tx c)) (ctx_idx c) = Some i -> locking i = Some l -> satoshis i = Some v ->
  codesep st - length (unlocking i) <= length l -> plain_bits l = true ->
  forall s2 sg pk, stack st = s2 ++ [sg; pk] -> outside_flag sg = false ->
  (checksig txctx SP SV st c = Ok (true, with_stack st s2) <->
   spec_sig_valid (view_tx (ctx_tx c)) (ctx_idx c) (flatten (skipn (codesep st - length (unlocking i)) l)) v sg pk = true).
Proof. exact checksig_accept_iff. Qed.
Print Assumptions C15_checksig_iff.

Theorem C15_checksig_shape :
  forall (c : txctx) st s2 sg pk, stack st = s2 ++ [sg; pk] ->
  checksig txctx SP SV st c = Err \/ exists b, checksig txctx SP SV st c = Ok (b, with_stack st s2).
Proof. exact checksig_shape. Qed.
Print Assumptions C15_checksig_shape.

(* ------------------------------------------------------------------ *)
(* 3. multisig_iff: the stack protocol is  .. <dummy> sig_1..sig_m  m  key_1..key_n  n  (all popped, the dummy too);
      the answer is `true` exactly when the signatures can be matched, in order, to distinct keys in order
      (ms_ok: the signatures are valid for a subsequence of the keys), each signature against the preimage selected by
      its own flag byte.  Soundness is unconditional; completeness needs every key element to be a public key (a byte
      string that is not a key makes the library refuse the script when the scan reaches it). *)
Theorem C15_multisig_sound :
  forall (c : txctx) i l v st,
  nth_error (inputs (ctx_tx c)) (ctx_idx c) = Some i -> locking i = Some l -> satoshis i = Some v ->
  codesep st - length (unlocking i) <= length l -> plain_bits l = true ->
  forall s0 dummy sigs keys,
  1 <= length sigs <= length keys -> length keys <= 16 ->
  stack st = s0 ++ [dummy] ++ sigs ++ [small_num (length sigs)] ++ keys ++ [small_num (length keys)] ->
  Forall (fun sg => outside_flag sg = false) sigs ->
  multisig txctx SP SV st c = Ok (true, with_stack st s0) ->
  ms_ok (fun sg pk => spec_sig_valid (view_tx (ctx_tx c)) (ctx_idx c)
                        (flatten (skipn (codesep st - length (unlocking i)) l)) v sg pk = true) sigs keys.
Proof. exact multisig_accept_sound. Qed.
Print Assumptions C15_multisig_sound.

Theorem C15_multisig_complete :
  forall (c : txctx) i l v st,
  nth_error (inputs (ctx_tx c)) (ctx_idx c) = Some i -> locking i = Some l -> satoshis i = Some v ->
  codesep st - length (unlocking i) <= length l -> plain_bits l = true ->
  forall s0 dummy sigs keys,
  1 <= length sigs <= length keys -> length keys <= 16 ->
  stack st = s0 ++ [dummy] ++ sigs ++ [small_num (length sigs)] ++ keys ++ [small_num (length keys)] ->
  Forall (fun sg => outside_flag sg = false) sigs -> Forall (fun pk => sec1_decode pk <> None) keys ->
  ms_ok (fun sg pk => spec_sig_valid (view_tx (ctx_tx c)) (ctx_idx c)
                        (flatten (skipn (codesep st - length (unlocking i)) l)) v sg pk = true) sigs keys ->
  multisig txctx SP SV st c = Ok (true, with_stack st s0).
Proof. exact multisig_accept_complete. Qed.
Print Assumptions C15_multisig_complete.

(* ms_ok is "there is an order-preserving injection": a subsequence of the keys, one key per signature, every pair valid;
   and the exhaustive search used by the specification column of the correspondence check decides it *)
Theorem C15_matching_is_injection :
  forall (A B : Type) (V : A -> B -> Prop) sigs keys,
  ms_ok V sigs keys <-> exists sel, subseq sel keys /\ Forall2 V sigs sel.
Proof. intros A B V. exact (ms_ok_injection V). Qed.
Print Assumptions C15_matching_is_injection.

Theorem C15_matching_search :
  forall (A B : Type) (V : A -> B -> Prop) (vb : A -> B -> bool),
  (forall a b, vb a b = true <-> V a b) ->
  forall sigs keys, ms_search vb sigs keys = true <-> ms_ok V sigs keys.
Proof. intros A B V. exact (ms_search_spec V). Qed.
Print Assumptions C15_matching_search.

(* ------------------------------------------------------------------ *)
(* 4. subscript_spec: for a locking script  pA ++ chk :: pB  of family elements whose first signature check is chk, the
      script code of the specification is the locking script from the element after the last separator of pA; the
      interpreter's offset, reduced by the number of unlocking elements, is exactly that position (used in 5). *)
Theorem C15_subscript_spec :
  forall pA chk pB,
  straight pA = true -> forallb (fun b => negb (is_chk b)) pA = true -> is_chk chk = true -> straight_bit chk = true ->
  script_code (map tok_of_bit (pA ++ chk :: pB)) = map tok_of_bit (skipn (sep_pos pA) (pA ++ chk :: pB)).
Proof. exact subscript_spec. Qed.
Print Assumptions C15_subscript_spec.

Theorem C15_offset_is_last_separator :
  forall u pA, has_sep u = false -> last_sep 0 (u ++ pA) 0 - length u = sep_pos pA.
Proof. exact offset_after. Qed.
Print Assumptions C15_offset_is_last_separator.

(* ------------------------------------------------------------------ *)
(* 5. Interpreter::from_transaction + run on the three families.  `straight l`: elements of the family alphabet only (direct
      pushes of 1..75 bytes, OP_0, OP_1..OP_16, OP_DUP, OP_HASH160, OP_EQUALVERIFY, the four signature checks, and
      OP_CODESEPARATOR — at ANY top-level position: only `remove_seps l` is fixed).  vf = true is the VERIFY form followed by OP_1.
      accepts = the run ends with the single element 01; rejects = an error, or the single element "false". *)
Theorem C15_spend_p2pk :
  forall t idx i v l sg pk (vf : bool),
  nth_error (inputs t) idx = Some i -> locking i = Some l -> satoshis i = Some v ->
  unlocking i = [BPush sg] -> 1 <= length sg <= 75 -> straight l = true ->
  remove_seps l = [BPush pk] ++ (if vf then [BOp 173; BOp 81] else [BOp 172]) ->
  outside_flag sg = false ->
  (spec_sig_valid (view_tx t) idx (script_code (flatten l)) v sg pk = true -> accepts (spend ref_prims t idx)) /\
  (spec_sig_valid (view_tx t) idx (script_code (flatten l)) v sg pk <> true -> rejects (spend ref_prims t idx)).
Proof. exact spend_p2pk. Qed.
Print Assumptions C15_spend_p2pk.

Theorem C15_spend_p2pkh :
  forall t idx i v l sg pk h (vf : bool),
  nth_error (inputs t) idx = Some i -> locking i = Some l -> satoshis i = Some v ->
  unlocking i = [BPush sg; BPush pk] -> 1 <= length sg <= 75 -> 1 <= length pk <= 75 -> straight l = true ->
  remove_seps l = [BOp 118; BOp 169; BPush h; BOp 136] ++ (if vf then [BOp 173; BOp 81] else [BOp 172]) ->
  outside_flag sg = false ->
  (ripemd160 (sha256 pk) = h /\ spec_sig_valid (view_tx t) idx (script_code (flatten l)) v sg pk = true
     -> accepts (spend ref_prims t idx)) /\
  (~ (ripemd160 (sha256 pk) = h /\ spec_sig_valid (view_tx t) idx (script_code (flatten l)) v sg pk = true)
     -> rejects (spend ref_prims t idx)).
Proof. exact spend_p2pkh. Qed.
Print Assumptions C15_spend_p2pkh.

Theorem C15_spend_multisig :
  forall t idx i v l dummy sigs keys (vf : bool),
  nth_error (inputs t) idx = Some i -> locking i = Some l -> satoshis i = Some v ->
  (* push-only unlocking script that leaves  dummy, sig_1 .. sig_m  on the stack *)
  forallb (fun b => is_simple b && negb (is_sep b)) (unlocking i) = true ->
  (forall s, stack_exec (unlocking i) s = Ok (s ++ dummy :: sigs)) ->
  straight (unlocking i) = true -> straight l = true ->
  1 <= length sigs <= length keys /\ length keys <= 16 ->
  remove_seps l = (op_small (length sigs) :: map BPush keys ++ [op_small (length keys)])
                  ++ (if vf then [BOp 175; BOp 81] else [BOp 174]) ->
  Forall (fun sg => outside_flag sg = false) sigs ->
  (accepts (spend ref_prims t idx) \/ rejects (spend ref_prims t idx)) /\
  (accepts (spend ref_prims t idx) ->
     ms_ok (fun sg pk => spec_sig_valid (view_tx t) idx (script_code (flatten l)) v sg pk = true) sigs keys) /\
  (Forall (fun pk => sec1_decode pk <> None) keys ->
     ms_ok (fun sg pk => spec_sig_valid (view_tx t) idx (script_code (flatten l)) v sg pk = true) sigs keys ->
     accepts (spend ref_prims t idx)).
Proof. exact multisig_family. Qed.
Print Assumptions C15_spend_multisig.

(* 5'. The verdict function of the specification column of the correspondence check (Spec/SpendSpec.expected: family
       recognised on the flat elements with separators erased, exact-arity push-only unlocking script, exhaustive search for
       the matching) is met by the model.  Unspecified: outside the families, wrong arity, a bare FORKID / ANYONECANPAY flag
       byte, or SINGLE|FORKID without an output at the index (the difference C03 permits). *)
Theorem C15_spend_meets_spec :
  forall t idx i l v,
  nth_error (inputs t) idx = Some i -> locking i = Some l -> satoshis i = Some v ->
  straight l = true -> straight (unlocking i) = true ->
  match fst (expected Hd H160 sec1_decode prim_verify (view_tx t) idx v (flatten l) (flatten (unlocking i))) with
  | Accept => accepts (spend ref_prims t idx)
  | Reject => rejects (spend ref_prims t idx)
  | AcceptOrReject => accepts (spend ref_prims t idx) \/ rejects (spend ref_prims t idx)
  | Unspecified => True
  end.
Proof. exact spend_meets_expected. Qed.
Print Assumptions C15_spend_meets_spec.

Theorem C15_accept_excludes_reject : forall r, accepts r -> ~ rejects r.
Proof. exact accepts_not_rejects. Qed.
Print Assumptions C15_accept_excludes_reject.

(* ------------------------------------------------------------------ *)
(* 6. (partial: relative to the group hypotheses `secp256k1_group` of Proofs/EcdsaSecp.v — for the concrete secp256k1
      formulas on curve points: padd is associative, smul is additive and multiplicative in the
      scalar; not proved, tied to k256 by correspondence.  Closure of padd/pneg/smul, commutativity, inverses, lift_x, the
      exact order of G and the primality of p and n ARE proved: Proofs/SecpGroupPartial.v, Proofs/SecpPrimes.v.)  Spends assembled through the library's own API are accepted.
      tx_sign_element = Transaction::sign(..).to_bytes(): preimage, RFC 6979 ECDSA over its double SHA-256, DER, flag byte.
      same_skeleton t0 t: the transaction at signing time and at spending time differ at most in input scripts and
      extended fields (the signature hash never sees them: C15_sighash_ignores_input_scripts). *)
Theorem C15_sighash_ignores_input_scripts :
  (forall t t' n ht code amt, same_skeleton t t' ->
     sighash_spec Hd (view_tx t) n ht code amt = sighash_spec Hd (view_tx t') n ht code amt) /\
  (forall t k s, same_skeleton t (set_unlocking_at t k s)).
Proof. split; [exact spec_sighash_skeleton|exact same_skeleton_set_unlocking]. Qed.
Print Assumptions C15_sighash_ignores_input_scripts.

Theorem C15_signed_element_valid_partial :
  secp256k1_group ->
  forall t t' sk f idx sub v sg,
  valid_sk sk -> std_flag f -> plain_bits sub = true -> same_skeleton t t' ->
  tx_sign_element ref_prims t sk f idx sub v = Ok sg ->
  spec_sig_valid (view_tx t') idx (flatten sub) v sg (pubkey_bytes ref_prims sk) = true
  /\ outside_flag sg = false /\ 9 <= length sg <= 73.
Proof. exact signed_element_valid. Qed.
Print Assumptions C15_signed_element_valid_partial.

Theorem C15_library_p2pk_accepted_partial :
  secp256k1_group ->
  forall t0 t idx i v l sub,
  nth_error (inputs t) idx = Some i -> locking i = Some l -> satoshis i = Some v -> straight l = true ->
  same_skeleton t0 t ->
  plain_bits sub = true /\ flatten sub = script_code (flatten l) ->
  forall sk f sg (vf : bool),
  valid_sk sk -> std_flag f ->
  remove_seps l = [BPush (pubkey_bytes ref_prims sk)] ++ (if vf then [BOp 173; BOp 81] else [BOp 172]) ->
  tx_sign_element ref_prims t0 sk f idx sub v = Ok sg ->
  unlocking i = [BPush sg] ->
  accepts (spend ref_prims t idx).
Proof. exact library_p2pk_accepted_partial. Qed.
Print Assumptions C15_library_p2pk_accepted_partial.

Theorem C15_library_p2pkh_accepted_partial :
  secp256k1_group ->
  forall t0 t idx i v l sub,
  nth_error (inputs t) idx = Some i -> locking i = Some l -> satoshis i = Some v -> straight l = true ->
  same_skeleton t0 t ->
  plain_bits sub = true /\ flatten sub = script_code (flatten l) ->
  forall sk f sg (vf : bool),
  valid_sk sk -> std_flag f ->
  remove_seps l = [BOp 118; BOp 169; BPush (ripemd160 (sha256 (pubkey_bytes ref_prims sk))); BOp 136]
                  ++ (if vf then [BOp 173; BOp 81] else [BOp 172]) ->
  tx_sign_element ref_prims t0 sk f idx sub v = Ok sg ->
  unlocking i = [BPush sg; BPush (pubkey_bytes ref_prims sk)] ->
  accepts (spend ref_prims t idx).
Proof. exact library_p2pkh_accepted_partial. Qed.
Print Assumptions C15_library_p2pkh_accepted_partial.

Theorem C15_library_multisig_accepted_partial :
  secp256k1_group ->
  forall t0 t idx i v l sub,
  nth_error (inputs t) idx = Some i -> locking i = Some l -> satoshis i = Some v -> straight l = true ->
  same_skeleton t0 t ->
  plain_bits sub = true /\ flatten sub = script_code (flatten l) ->
  forall (sks : list privkey) (signers : list (privkey * N)) (sigs : list bytes) (vf : bool),
  Forall valid_sk sks ->
  subseq (map fst signers) sks ->
  Forall (fun s => std_flag (snd s)) signers ->
  Forall2 (fun s sg => tx_sign_element ref_prims t0 (fst s) (snd s) idx sub v = Ok sg) signers sigs ->
  1 <= length sigs -> length sks <= 16 ->
  remove_seps l = (op_small (length sigs) :: map BPush (map (pubkey_bytes ref_prims) sks) ++ [op_small (length sks)])
                  ++ (if vf then [BOp 175; BOp 81] else [BOp 174]) ->
  unlocking i = BOp 0 :: map BPush sigs ->
  accepts (spend ref_prims t idx).
Proof. exact library_multisig_accepted_partial. Qed.
Print Assumptions C15_library_multisig_accepted_partial.

(* the documented usage `tx.sign(key, flag, idx, &locking_script, value)`: without a separator the script code is the
   whole locking script *)
Theorem C15_script_code_without_separator :
  forall l, forallb (fun x => negb (is_separator x)) l = true -> script_code l = l.
Proof. exact script_code_no_sep. Qed.
Print Assumptions C15_script_code_without_separator.

(* ------------------------------------------------------------------ *)
(* Non-vacuity, on the reference instance (arithmetic on Z; two scalar multiplications: about a minute).
   A P2PK spend built and signed by the library itself (driver op spend.build: key 1, uncompressed; flag ALL|FORKID; value 5000;
   locking script  OP_CODESEPARATOR <key> OP_CHECKSIG): it satisfies the hypotheses of C15_spend_p2pk, the specification calls
   its signature valid, the model accepts it, and the same spend with a declared value of 5001 is rejected with `false`. *)
Example C15_example_hypotheses :
  match ex_spend 5000 with
  | Some t =>
      match inputs t with
      | [i] =>
          match locking i, unlocking i with
          | Some l, [BPush sg] =>
              straight l = true /\ remove_seps l = [BPush (skipn 2 (removelast (to_bytes l)))] ++ [BOp 172]
              /\ satoshis i = Some 5000%N /\ length sg = 72 /\ outside_flag sg = false /\ has_sep l = true
          | _, _ => False
          end
      | _ => False
      end
  | None => False
  end.
Proof. vm_compute. repeat split. Qed.

Example C15_example_accepts :
  option_map (fun t => stack_of (spend ref_prims t 0)) (ex_spend 5000) = Some (Some [[x01]]) /\
  option_map (fun t => stack_of (spend ref_prims t 0)) (ex_spend 5001) = Some (Some [[]]).
Proof. exact example_accepts. Qed.

Example C15_example_verdicts :
  option_map ex_verdict (ex_spend 5000) = Some (Some Accept) /\
  option_map (fun t => ex_verdict (bad_flag t)) (ex_spend 5000) = Some (Some Reject).
Proof. exact example_verdicts. Qed.

(* cheap cases: the locking script without a declared value -> error at the check; an input index without an input ->
   error; no extended fields at all -> only the unlocking script runs (nothing is checked, the signature stays on the stack) *)
Definition ex_spend_no_value : option tx :=
  match bytes_of_hex ex_tx, bytes_of_hex ex_lock with
  | Some tb, Some lb =>
      match tx_from_bytes tb, from_bytes lb with
      | Ok t, Ok l => Some (set_inputs t (map (fun i => set_locking_script i l) (inputs t)))
      | _, _ => None
      end
  | _, _ => None
  end.
Example C15_example_errors :
  match ex_spend_no_value, bytes_of_hex ex_tx with
  | Some t, Some tb =>
      (match spend ref_prims t 0 with Ok (RunErr _) => True | _ => False end) /\ (spend ref_prims t 1 = Err) /\
      match tx_from_bytes tb with
      | Ok t0 => option_map (map (@length byte)) (stack_of (spend ref_prims t0 0)) = Some [72]
      | _ => False
      end
  | _, _ => False
  end.
Proof. vm_compute. repeat split. Qed.

(* order-preserving matching: [a; c] matches keys [a; b; c]; [c; a] does not *)
Example C15_example_matching :
  ms_search Nat.eqb [1; 3] [1; 2; 3] = true /\ ms_search Nat.eqb [3; 1] [1; 2; 3] = false /\
  ms_search Nat.eqb [1; 1] [1; 2; 3] = false.
Proof. repeat split. Qed.
