(* Props/C01.v — pinned statements of property C01 (transaction wire format: parse and serialise are exact
   inverses).  Statements only; proofs are in Proofs/TxProofs.v.
   Model: Model/Tx.v, Model/VarInt.v, Model/Script.v (transcriptions of the Rust code, tied by the correspondence run).
   Spec:  Spec/TxWire.v (wire encoder over raw fields, independent decoder, `canonical`), Spec/ScriptTok.v (C02). *)
From BSV Require Import Base.Hex Model.Opcodes Model.Script Model.VarInt Model.Tx Model.TxExt Spec.ScriptTok Spec.TxWire
  Proofs.ScriptProofs Proofs.TxProofs Prim.Sha256.

(* ---- 1. compact sizes ------------------------------------------------------------------------------- *)
Theorem C01_varint_roundtrip :
  forall n r, (n < 18446744073709551616)%N -> read_varint (write_varint n ++ r) = Ok (n, r).
Proof. exact varint_roundtrip. Qed.
Print Assumptions C01_varint_roundtrip.

(* the writer's form is the shortest of all byte strings the reader maps to the same number *)
Theorem C01_varint_shortest :
  forall bs n r, read_varint bs = Ok (n, r) -> length (write_varint n) + length r <= length bs.
Proof. exact write_varint_shortest. Qed.
Print Assumptions C01_varint_shortest.

(* the writer is the protocol's canonical compact size; the helper VarInt::get_varint_bytes agrees with it (post-fix) *)
Theorem C01_write_varint_is_compact : forall n, write_varint n = compact n.
Proof. exact write_varint_is_compact. Qed.
Print Assumptions C01_write_varint_is_compact.
Theorem C01_get_varint_bytes_eq_write_varint : forall n, get_varint_bytes n = write_varint n.
Proof. exact get_varint_bytes_eq_write_varint. Qed.
Print Assumptions C01_get_varint_bytes_eq_write_varint.

(* ---- 2. the serialiser is the protocol encoder applied to the value's raw fields (no side condition) -- *)
Theorem C01_serialise_is_spec : forall t, tx_bytes t = encode_tx_spec (fields_of t).
Proof. exact serialise_is_spec. Qed.
Print Assumptions C01_serialise_is_spec.

(* ---- 3. parse (encode f): any number of inputs/outputs, any script lengths, trailing bytes ignored ---- *)
Theorem C01_parse_encode :
  forall f r, fields_ok f ->
    exists t, tx_from_bytes (encode_tx_spec f ++ r) = Ok t /\ tx_bytes t = encode_tx_spec f /\ fields_of t = f.
Proof. exact parse_encode. Qed.
Print Assumptions C01_parse_encode.

(* ---- 4. the property's first sentence, on byte strings: canonical (decodable by the independent decoder, every
        compact size minimal, nothing after the lock time) + scripts the script parser accepts outside C02's
        class (coinbase data arbitrary)  ==>  parse succeeds and re-serialises to exactly the same bytes ---- *)
Theorem C01_canonical_roundtrip :
  forall bs f, canonical bs = true -> decode_fields_spec bs = Some f -> scripts_ok f ->
    exists t, tx_from_bytes bs = Ok t /\ tx_bytes t = bs /\ fields_of t = f.
Proof. exact canonical_roundtrip. Qed.
Print Assumptions C01_canonical_roundtrip.

(* `canonical` is not defined through the library: it is exactly "the encoding of some in-range field tuple" *)
Theorem C01_canonical_iff :
  forall bs, canonical bs = true <-> exists f, fields_range f /\ bs = encode_tx_spec f.
Proof. exact canonical_iff. Qed.
Print Assumptions C01_canonical_iff.
Theorem C01_decode_encode :
  forall f r, fields_range f -> decode_tx_spec (encode_tx_spec f ++ r) = Some (mk_decoded f true r).
Proof. exact decode_encode. Qed.
Print Assumptions C01_decode_encode.

(* ---- 5. any accepted byte string (non-minimal compact sizes, trailing bytes, a shortened script of C02's class)
        normalises to a fixed point of parse-then-serialise -------------------------------------------- *)
Theorem C01_normalises_to_fixpoint :
  forall bs t, tx_from_bytes bs = Ok t ->
    exists t', tx_from_bytes (tx_bytes t) = Ok t' /\ tx_bytes t' = tx_bytes t /\ fields_of t' = fields_of t.
Proof. exact normalises_to_fixpoint. Qed.
Print Assumptions C01_normalises_to_fixpoint.

(* every parsed script re-serialises to an accepted script outside C02's class (what makes 5 hold inside that class) *)
Theorem C01_reparse_script :
  forall sb s, from_bytes sb = Ok s -> script_ok (to_bytes s) /\ length (to_bytes s) <= length sb.
Proof. exact reparse_script. Qed.
Print Assumptions C01_reparse_script.

(* ---- 6. accessors report what the independent decoder reads (txid for an arbitrary hash function H) ---- *)
Theorem C01_accessors_report_decoded :
  forall (H : bytes -> bytes) bs f t oc,
    canonical bs = true -> decode_fields_spec bs = Some f -> scripts_ok f -> tx_from_bytes bs = Ok t ->
    tx_size t = N.of_nat (length bs) /\ tx_id H t = rev (H bs)
    /\ version t = f_version f /\ locktime t = f_locktime f
    /\ map prev_tx_id (inputs t) = map f_prev (f_ins f) /\ map vout (inputs t) = map f_vout (f_ins f)
    /\ map sequence (inputs t) = map f_seq (f_ins f)
    /\ map (fun i => to_bytes (unlocking i)) (inputs t) = map f_script (f_ins f)
    /\ map value (outputs t) = map f_value (f_outs f)
    /\ map (fun o => to_bytes (script_pub_key o)) (outputs t) = map f_pk (f_outs f)
    /\ tx_outpoints t = spec_outpoints f
    /\ tx_is_coinbase t = spec_is_coinbase f
    /\ ((spec_total_out f < 18446744073709551616)%N -> satoshis_out oc t = Ok (spec_total_out f)).
Proof. exact accessors_report_decoded. Qed.
Print Assumptions C01_accessors_report_decoded.

(* the same for EVERY accepted byte string, canonical or not: the decoder accepts it too and reads the same version,
   lock time, ids, indices, sequences and values; each script is the decoder's raw bytes run through the script
   parser (coinbase data verbatim) — so outside C02's class its serialisation is those raw bytes *)
Theorem C01_parse_decode_agree :
  forall bs t, tx_from_bytes bs = Ok t ->
    exists d, decode_tx_spec bs = Some d
      /\ version t = f_version (d_fields d) /\ locktime t = f_locktime (d_fields d)
      /\ Forall2 in_agrees (inputs t) (f_ins (d_fields d)) /\ Forall2 out_agrees (outputs t) (f_outs (d_fields d)).
Proof. exact parse_decode_agree. Qed.
Print Assumptions C01_parse_decode_agree.

(* the same on any value (parsed or built): accessors are functions of the raw fields *)
Theorem C01_accessors_of_fields :
  forall (H : bytes -> bytes) t oc,
    tx_size t = N.of_nat (length (encode_tx_spec (fields_of t))) /\ tx_id H t = rev (H (encode_tx_spec (fields_of t)))
    /\ tx_outpoints t = spec_outpoints (fields_of t) /\ tx_is_coinbase t = spec_is_coinbase (fields_of t)
    /\ ((spec_total_out (fields_of t) < 18446744073709551616)%N -> satoshis_out oc t = Ok (spec_total_out (fields_of t))).
Proof. exact accessors_of_fields. Qed.
Print Assumptions C01_accessors_of_fields.

Theorem C01_is_coinbase_iff :
  forall t, tx_is_coinbase t = true <->
            exists i, inputs t = [i] /\ prev_tx_id i = repeat x00 32 /\ vout i = 4294967295%N.
Proof. exact tx_is_coinbase_iff. Qed.
Print Assumptions C01_is_coinbase_iff.

(* known finding `satoshis-out-overflow`: from 2^64 on the accessor cannot report the total (it panics in the
   overflow-checking profile); clause 6 carries the guard *)
Theorem C01_satoshis_out_overflow_refuted :
  forall t, (18446744073709551616 <= spec_total_out (fields_of t))%N -> satoshis_out true t = Panic.
Proof. exact satoshis_out_overflow. Qed.
Print Assumptions C01_satoshis_out_overflow_refuted.

(* ---- 7. construction API: Transaction::new; (TxIn::new; add_input)*; (TxOut::new; add_output)* ---------- *)
Theorem C01_construction_api :
  forall ver lt ins outs,
    tx_bytes (build ver lt ins outs) = encode_tx_spec (mk_fields ver (map api_in_fields ins) (map api_out_fields outs) lt).
Proof. exact construction_api. Qed.
Print Assumptions C01_construction_api.
Theorem C01_construction_api_same_bytes :
  forall t, tx_bytes (build (version t) (locktime t) (map api_of_in (inputs t)) (map api_of_out (outputs t))) = tx_bytes t.
Proof. exact construction_api_same_bytes. Qed.
Print Assumptions C01_construction_api_same_bytes.

(* the extended-format annotations a signer attaches to an input (set_locking_script / set_satoshis, before add_input
   or through get_input/set_input afterwards) do not enter the wire serialisation: the bytes are the encoding of the
   plain field values *)
Theorem C01_construction_api_ext :
  forall ver lt ins outs,
    tx_bytes (build_ext ver lt ins outs) =
    encode_tx_spec (mk_fields ver (map (fun a => api_in_fields (fst (fst a))) ins) (map api_out_fields outs) lt).
Proof. exact construction_api_ext. Qed.
Print Assumptions C01_construction_api_ext.
Theorem C01_extended_fields_not_on_wire :
  (forall i lk sa, txin_bytes (txin_annotate i lk sa) = txin_bytes i)
  /\ (forall t k i lk sa t', tx_get_input t k = Some i -> tx_set_input t k (txin_annotate i lk sa) = Ok t' -> tx_bytes t' = tx_bytes t)
  /\ (forall ver lt ins outs,
        tx_bytes (build_ext ver lt ins outs) = tx_bytes (build ver lt (map (fun a => fst (fst a)) ins) outs)).
Proof. exact extended_fields_not_on_wire. Qed.
Print Assumptions C01_extended_fields_not_on_wire.

(* ---- non-vacuity ------------------------------------------------------------------------------------- *)
Definition hexb (s : string) : bytes := match bytes_of_hex s with Some b => b | None => [] end.
Definition sha256d (m : bytes) : bytes := sha256 (sha256 m).

(* the genesis coinbase transaction *)
Definition genesis : bytes := hexb
  "01000000010000000000000000000000000000000000000000000000000000000000000000ffffffff4d04ffff001d0104455468652054696d65732030332f4a616e2f32303039204368616e63656c6c6f72206f6e206272696e6b206f66207365636f6e64206261696c6f757420666f722062616e6b73ffffffff0100f2052a01000000434104678afdb0fe5548271967f1a67130b7105cd6a828e03909a67962e0ea1f61deb649f6bc3f4cef38c4f35504e51ec112de5c384df7ba0b8d578a4c702b6bf11d5fac00000000".

Example C01_nonvacuous_genesis :
  canonical genesis = true /\
  exists f t, decode_fields_spec genesis = Some f /\ scripts_ok f /\ tx_from_bytes genesis = Ok t /\ tx_bytes t = genesis
    /\ tx_is_coinbase t = true /\ satoshis_out true t = Ok 5000000000%N
    /\ hex_of_bytes (tx_id sha256d t) = "4a5e1e4baab89f3a32518a88c31bc87f618f76673e2cc77ab2127b7afdeda33b".
Proof.
  split; [vm_compute; reflexivity|]. eexists. eexists.
  split; [vm_compute; reflexivity|].
  split.
  { split; cbn [f_ins f_outs].
    - constructor; [|constructor]. intros Hn. vm_compute in Hn. discriminate.
    - constructor; [|constructor]. split; [eexists; vm_compute; reflexivity | vm_compute; reflexivity]. }
  split; [vm_compute; reflexivity|]. split; [vm_compute; reflexivity|]. split; [vm_compute; reflexivity|].
  split; vm_compute; reflexivity.
Qed.

(* a mainnet transaction with two inputs and two outputs (tests/transaction.rs) *)
Definition mainnet_tx : bytes := hexb
  "01000000029e8d016a7b0dc49a325922d05da1f916d1e4d4f0cb840c9727f3d22ce8d1363f000000008c493046022100e9318720bee5425378b4763b0427158b1051eec8b08442ce3fbfbf7b30202a44022100d4172239ebd701dae2fbaaccd9f038e7ca166707333427e3fb2a2865b19a7f27014104510c67f46d2cbb29476d1f0b794be4cb549ea59ab9cc1e731969a7bf5be95f7ad5e7f904e5ccf50a9dc1714df00fbeb794aa27aaff33260c1032d931a75c56f2ffffffffa3195e7a1ab665473ff717814f6881485dc8759bebe97e31c301ffe7933a656f020000008b48304502201c282f35f3e02a1f32d2089265ad4b561f07ea3c288169dedcf2f785e6065efa022100e8db18aadacb382eed13ee04708f00ba0a9c40e3b21cf91da8859d0f7d99e0c50141042b409e1ebbb43875be5edde9c452c82c01e3903d38fa4fd89f3887a52cb8aea9dc8aec7e2c9d5b3609c03eb16259a2537135a1bf0f9c5fbbcbdbaf83ba402442ffffffff02206b1000000000001976a91420bb5c3bfaef0231dc05190e7f1c8e22e098991e88acf0ca0100000000001976a9149e3e2d23973a04ec1b02be97c30ab9f2f27c3b2c88ac00000000".

Example C01_nonvacuous_mainnet :
  canonical mainnet_tx = true /\
  exists f t, decode_fields_spec mainnet_tx = Some f /\ scripts_ok f /\ tx_from_bytes mainnet_tx = Ok t /\ tx_bytes t = mainnet_tx
    /\ length (inputs t) = 2 /\ length (outputs t) = 2 /\ tx_is_coinbase t = false
    /\ satoshis_out true t = Ok 1193488%N.
Proof.
  split; [vm_compute; reflexivity|]. eexists. eexists.
  split; [vm_compute; reflexivity|].
  split.
  { split; cbn [f_ins f_outs].
    - constructor; [|constructor; [|constructor]]; intros _; (split; [eexists; vm_compute; reflexivity | vm_compute; reflexivity]).
    - constructor; [|constructor; [|constructor]]; (split; [eexists; vm_compute; reflexivity | vm_compute; reflexivity]). }
  split; [vm_compute; reflexivity|]. split; [vm_compute; reflexivity|]. split; [vm_compute; reflexivity|].
  split; [vm_compute; reflexivity|]. split; vm_compute; reflexivity.
Qed.

(* a non-canonical accepted byte string (count in the 3-byte form, one trailing byte) normalises *)
Example C01_nonvacuous_noncanonical :
  let bs := hexb "02000000fd000001e80300000000000001510000000099" in
  canonical bs = false /\ exists t, tx_from_bytes bs = Ok t /\ tx_bytes t = hexb "020000000001e803000000000000015100000000".
Proof. split; [vm_compute; reflexivity|]. eexists. split; [vm_compute; reflexivity|]. vm_compute. reflexivity. Qed.

(* the overflow finding has a witness: two outputs of 2^63 *)
Example C01_overflow_witness :
  exists t, tx_from_bytes (hexb "010000000002000000000000008001510000000000000080015100000000") = Ok t
            /\ spec_total_out (fields_of t) = 18446744073709551616%N /\ satoshis_out true t = Panic.
Proof. eexists. split; [vm_compute; reflexivity|]. split; vm_compute; reflexivity. Qed.
