(* Props/C01.v — placeholder while the proofs are being written *)
From BSV Require Import Base.Hex.
