(* Props/C03.v — pinned statements of property C03 (the FORKID signature-hash preimage equals the
   replay-protected digest specification).  Statements only; proofs are in Proofs/SighashProofs.v.
   H stands for double SHA-256; nothing is assumed about it except, for the layout, its 32-byte output. *)
From BSV Require Import Base.Hex Prim.Sha256 Model.Opcodes Model.Script Model.VarInt Model.Tx Model.Sighash
  Spec.SighashWire Spec.Bip143 Proofs.SighashProofs.
Local Open Scope list_scope.

(* 0. The model's flag constants are the discriminants of the Rust enum (table regenerated from the source at
   every run), and the six FORKID variants are {ALL,NONE,SINGLE} x {-,ANYONECANPAY} with bit 6 set. *)
Theorem C03_flags_are_the_enum :
  forallb (fun p => match lookup_val Gen.Sighash_gen.sighash_table (fst p) with Some v => (v =? snd p)%N | None => false end)
    [("FORKID", SH_FORKID); ("ALL", SH_ALL); ("NONE", SH_NONE); ("SINGLE", SH_SINGLE); ("ANYONECANPAY", SH_ANYONECANPAY);
     ("InputsOutputs", SH_InputsOutputs); ("Inputs", SH_Inputs); ("InputsOutput", SH_InputsOutput);
     ("InputOutputs", SH_InputOutputs); ("Input", SH_Input); ("InputOutput", SH_InputOutput);
     ("Legacy_InputOutputs", SH_Legacy_InputOutputs); ("Legacy_Input", SH_Legacy_Input);
     ("Legacy_InputOutput", SH_Legacy_InputOutput)] = true
  /\ length Gen.Sighash_gen.sighash_table = 14.
Proof. exact sighash_variants_ok. Qed.
Print Assumptions C03_flags_are_the_enum.

Theorem C03_forkid_variants_bits :
  forallb (fun f => forkid_bit f && is_sighash f && ((base_type f =? 1) || (base_type f =? 2) || (base_type f =? 3))%N)
          forkid_flags = true
  /\ map (fun f => (base_type f, anyonecanpay f)) forkid_flags
     = [(1, false); (2, false); (3, false); (1, true); (2, true); (3, true)]%N.
Proof. exact forkid_variants_bits. Qed.
Print Assumptions C03_forkid_variants_bits.

(* 1. For each of the six FORKID flags, every index and every subscript / value, the library's answer is
   determined by the specification: the specified preimage, except that SINGLE without an output at the
   index — and an index without an input — are refused. *)
Theorem C03_bip143_total :
  forall (H : bytes -> bytes) t i f sub v,
    In f forkid_flags ->
    sighash_preimage H t i f sub v =
      match bip143_preimage H (view_tx t) i f (to_bytes sub) v with
      | None => Err
      | Some p => if single_without_output (view_tx t) i f then Err else Ok p
      end.
Proof. exact bip143_total. Qed.
Print Assumptions C03_bip143_total.

Theorem C03_bip143_eq_spec :
  forall (H : bytes -> bytes) t i f sub v,
    In f forkid_flags -> i < length (inputs t) ->
    (base_type f = BASE_SINGLE -> i < length (outputs t)) ->
    exists p, bip143_preimage H (view_tx t) i f (to_bytes sub) v = Some p /\
              sighash_preimage H t i f sub v = Ok p.
Proof. exact bip143_eq_spec. Qed.
Print Assumptions C03_bip143_eq_spec.

(* 2. the permitted difference, and the index check *)
Theorem C03_bip143_single_oob :
  forall (H : bytes -> bytes) t i f sub v,
    In f forkid_flags -> base_type f = BASE_SINGLE -> length (outputs t) <= i ->
    sighash_preimage H t i f sub v = Err.
Proof. exact bip143_single_oob. Qed.
Print Assumptions C03_bip143_single_oob.

Theorem C03_idx_oob_err :
  forall (H : bytes -> bytes) t i f sub v,
    In f forkid_flags -> length (inputs t) <= i -> sighash_preimage H t i f sub v = Err.
Proof. exact idx_oob_err. Qed.
Print Assumptions C03_idx_oob_err.

(* 3. layout of the specified preimage, for a subscript of any length (all compact-size classes) *)
Theorem C03_bip143_layout :
  forall (H : bytes -> bytes), (forall x, length (H x) = 32) ->
  forall t n ht sc amount p inp,
    bip143_preimage H t n ht sc amount = Some p ->
    nth_error (w_ins t) n = Some inp -> length (w_prev_hash inp) = 32 ->
    exists hp hs ho : bytes,
      length hp = 32 /\ length hs = 32 /\ length ho = 32 /\
      p = u32le (w_version t) ++ hp ++ hs ++ (w_prev_hash inp ++ u32le (w_prev_n inp))
          ++ (compact_size (N.of_nat (length sc)) ++ sc)
          ++ u64le amount ++ u32le (w_seq inp) ++ ho ++ u32le (w_lock t) ++ u32le ht /\
      length p = 156 + length (compact_size (N.of_nat (length sc))) + length sc.
Proof. exact bip143_layout. Qed.
Print Assumptions C03_bip143_layout.

Theorem C03_compact_size_length :
  forall n, length (compact_size n) =
    if (n <? 253)%N then 1 else if (n <? 65536)%N then 3 else if (n <? 4294967296)%N then 5 else 9.
Proof. exact compact_size_length. Qed.
Print Assumptions C03_compact_size_length.

(* 4 (partial: the ECDSA signer is a parameter; composing this with property C05's "verify (sign k m) = true"
   gives "the signature verifies against the double SHA-256 of the specified preimage").  Transaction::sign
   hands exactly the specified preimage to the signer and appends the flag byte to the DER encoding. *)
Theorem C03_sign_signs_spec_preimage_partial :
  forall (H : bytes -> bytes) (sig : Type) (signer : bytes -> bytes -> outcome sig) (der : sig -> bytes)
         t key f i sub v p,
    In f forkid_flags ->
    bip143_preimage H (view_tx t) i f (to_bytes sub) v = Some p ->
    single_without_output (view_tx t) i f = false ->
    tx_sign H sig signer der t key f i sub v = (do s <- signer key p; Ok (der s ++ [n2b f], p)).
Proof. exact sign_signs_spec_preimage. Qed.
Print Assumptions C03_sign_signs_spec_preimage_partial.

(* non-vacuity and a known answer: the specification, instantiated with SHA-256 twice, reproduces the
   published SINGLE|FORKID vector of tests/sighash.rs (input 0, subscript OP_0 OP_RETURN, value 0); the
   hypotheses of C03_bip143_eq_spec hold for it; an index without an input is refused. *)
Definition kat_tx : string := "01000000029e8d016a7b0dc49a325922d05da1f916d1e4d4f0cb840c9727f3d22ce8d1363f000000008c493046022100e9318720bee5425378b4763b0427158b1051eec8b08442ce3fbfbf7b30202a44022100d4172239ebd701dae2fbaaccd9f038e7ca166707333427e3fb2a2865b19a7f27014104510c67f46d2cbb29476d1f0b794be4cb549ea59ab9cc1e731969a7bf5be95f7ad5e7f904e5ccf50a9dc1714df00fbeb794aa27aaff33260c1032d931a75c56f2ffffffffa3195e7a1ab665473ff717814f6881485dc8759bebe97e31c301ffe7933a656f020000008b48304502201c282f35f3e02a1f32d2089265ad4b561f07ea3c288169dedcf2f785e6065efa022100e8db18aadacb382eed13ee04708f00ba0a9c40e3b21cf91da8859d0f7d99e0c50141042b409e1ebbb43875be5edde9c452c82c01e3903d38fa4fd89f3887a52cb8aea9dc8aec7e2c9d5b3609c03eb16259a2537135a1bf0f9c5fbbcbdbaf83ba402442ffffffff02206b1000000000001976a91420bb5c3bfaef0231dc05190e7f1c8e22e098991e88acf0ca0100000000001976a9149e3e2d23973a04ec1b02be97c30ab9f2f27c3b2c88ac00000000".
Definition kat_preimage : string := "010000008bf38a2d3f477a28aba2fe171260ffb0315c7371617ba6e39aea4ed97558c35800000000000000000000000000000000000000000000000000000000000000009e8d016a7b0dc49a325922d05da1f916d1e4d4f0cb840c9727f3d22ce8d1363f0000000002006a0000000000000000ffffffffc7732d98e887792b43e5dae92a159010d22e47d60ed48b88ba7b6c12a3c9e7560000000043000000".
Definition sha256d (b : bytes) : bytes := sha256 (sha256 b).

Example C03_known_answer :
  match bytes_of_hex kat_tx with
  | Some b =>
      match tx_from_bytes b with
      | Ok t =>
          option_map hex_of_bytes (bip143_preimage sha256d (view_tx t) 0 SH_InputsOutput [x00; x6a] 0) = Some kat_preimage
          /\ sighash_preimage sha256d t 0 SH_InputsOutput [BOp 0; BOp 106] 0
             = Ok (match bytes_of_hex kat_preimage with Some p => p | None => [] end)
          /\ 0 < length (inputs t) /\ 0 < length (outputs t)
          /\ sighash_preimage sha256d t 2 SH_InputsOutput [BOp 0; BOp 106] 0 = Err
      | _ => False
      end
  | None => False
  end.
Proof. vm_compute. repeat split; lia. Qed.
