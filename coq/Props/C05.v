(* Props/C05.v — provisional; replaced below by the full list of pinned statements. *)
From BSV Require Import Base.Bytes Prim.Num Prim.Secp256k1 Proofs.Secp256k1Proofs.
Local Open Scope Z_scope.
Theorem C05_prim_low_s : forall d k z r s v, prim_sign d k z = Some (r, s, v) -> 1 <= s <= secp_n / 2.
Proof. exact low_s. Qed.
Print Assumptions C05_prim_low_s.
