(* Props/C05.v — pinned statements of property C05 (ECDSA signatures verify, are low-S, deterministic ones follow
   RFC 6979; ECDH is symmetric).  Statements only; proofs in Proofs/EcdsaProofs.v, Proofs/EcdsaSecp.v,
   Proofs/EcdsaAbstract.v, Proofs/Secp256k1Proofs.v.

   The statements are about the reference instance [ref_prims] (Z arithmetic) of the model Model/Ecdsa.v.
   The correspondence check executes the BigZ instance [fast_prims]; Proofs/EcdsaRefine.v proves the two equal
   (that file, and only it, depends on the Uint63 axioms of the standard library).

   PREMISE [secp256k1_group] (Proofs/EcdsaSecp.v) of the "verifies" / ECDH statements, three statements about valid
   points (on the curve, coordinates in [0,p)) of Prim/Secp256k1.v:
     sg_add_assoc (padd is associative),
     sg_mul_add (smul (a+b) P = padd (smul a P) (smul b P)), sg_mul_mul (smul (a*b) P = smul a (smul b P)).
   They are the part of "secp256k1 is a group" that is not proved here (associativity of chord-and-tangent and the
   agreement of the Jacobian ladder with it).  What IS proved for the concrete formulas (Proofs/SecpGroupPartial.v):
   closure of padd, pneg and smul, commutativity, P + (-P) = O, 1*P = P, yodd (pneg P) = negb (yodd P) (no curve point
   has y = 0), lift_x inverts (xcoord, yodd), G has order exactly n (from the two scalar laws); and n is prime and p
   is prime (Proofs/SecpPrimes.v: Pratt certificates checked inside Coq, Fermat's little theorem in
   Proofs/Primality.v), n*G = O (by evaluation), O + P = P, x(-P) = x(P), modular inverses by extended Euclid.
   Proofs/EcdsaAbstractInst.v shows that the abstract hypotheses are jointly satisfiable (toy group).

   NOT a theorem (`partial`): "fails to verify for a different message, hash choice or key" — it needs collision
   resistance of SHA-256 and the discrete-log structure; it is sampled by the correspondence run
   (op ecdsa.sign_verify with another key / message / hash, mutated signatures in the ecdsa.verify ops). *)
From BSV Require Import Base.Bytes Base.Hex.
From BSV Require Import Prim.Num Prim.Secp256k1 Prim.Rfc6979 Model.HashApi Model.Ecdsa Spec.EcdsaSpec.
From BSV Require Import Proofs.Secp256k1Proofs Proofs.EcdsaSecp Proofs.EcdsaProofs.
Local Open Scope Z_scope.

(* 1. Every signature returned by a signing entry point verifies under the signer's public key, for the same
      message and hash choice.  Signer and verifier compute the same message scalar; the rest is ecdsa_correct. *)
Theorem C05_prim_sign_verifies :
  secp256k1_group -> forall d k z r s v,
  0 < k < secp_n -> prim_sign d k z = Some (r, s, v) -> prim_verify (smul d G) z (r, s) = true.
Proof. exact secp_ecdsa_correct. Qed.
Print Assumptions C05_prim_sign_verifies.

Theorem C05_sign_det_verifies :
  secp256k1_group -> forall sk m a rk sg,
  valid_sk sk -> sign_with_deterministic_k ref_prims sk m a rk = Ok sg ->
  verify_digest ref_prims m (to_public_key ref_prims sk) sg a = Ok true.
Proof. exact sign_det_verifies. Qed.
Print Assumptions C05_sign_det_verifies.

Theorem C05_sign_message_verifies :
  secp256k1_group -> forall sk m sg,
  valid_sk sk -> sign_message ref_prims sk m = Ok sg ->
  verify_message ref_prims sg m (to_public_key ref_prims sk) = true.
Proof. exact sign_message_verifies. Qed.
Print Assumptions C05_sign_message_verifies.

Theorem C05_sign_digest_verifies :
  secp256k1_group -> forall sk dg sg,
  valid_sk sk -> sign_digest_with_deterministic_k ref_prims sk dg = Ok sg ->
  verify_hashbuf ref_prims dg (to_public_key ref_prims sk) sg = Ok true.
Proof. exact sign_digest_verifies. Qed.
Print Assumptions C05_sign_digest_verifies.

Theorem C05_sign_with_k_verifies :
  secp256k1_group -> forall sk ek m a sg,
  valid_sk sk -> valid_sk ek -> sign_with_k ref_prims sk ek m a = Ok sg ->
  verify_digest ref_prims m (to_public_key ref_prims sk) sg a = Ok true.
Proof. exact sign_with_k_verifies. Qed.
Print Assumptions C05_sign_with_k_verifies.

(* for every value of the operating-system entropy *)
Theorem C05_sign_random_verifies :
  secp256k1_group -> forall sk m a rk entropy sg,
  valid_sk sk -> sign_with_random_k ref_prims sk m a rk entropy = Ok sg ->
  verify_digest ref_prims m (to_public_key ref_prims sk) sg a = Ok true.
Proof. exact sign_random_verifies. Qed.
Print Assumptions C05_sign_random_verifies.

(* compressed or uncompressed key: the verifier sees the same point *)
Theorem C05_compression_irrelevant :
  secp256k1_group -> forall sk c m a sg,
  valid_sk sk ->
  verify_digest ref_prims m (to_public_key ref_prims (compress_public_key sk c)) sg a =
  verify_digest ref_prims m (to_public_key ref_prims sk) sg a.
Proof. exact verify_compression_irrelevant. Qed.
Print Assumptions C05_compression_irrelevant.

(* 2. No produced signature has s above half the group order (and r, s are in range) — unconditional. *)
Theorem C05_low_s_det : forall sk m a rk sg, sign_with_deterministic_k ref_prims sk m a rk = Ok sg -> sig_low sg.
Proof. exact sign_det_low. Qed.
Print Assumptions C05_low_s_det.
Theorem C05_low_s_message : forall sk m sg, sign_message ref_prims sk m = Ok sg -> sig_low sg.
Proof. exact sign_message_low. Qed.
Print Assumptions C05_low_s_message.
Theorem C05_low_s_digest : forall sk dg sg, sign_digest_with_deterministic_k ref_prims sk dg = Ok sg -> sig_low sg.
Proof. exact sign_digest_low. Qed.
Print Assumptions C05_low_s_digest.
Theorem C05_low_s_with_k : forall sk ek m a sg, sign_with_k ref_prims sk ek m a = Ok sg -> sig_low sg.
Proof. exact sign_with_k_low. Qed.
Print Assumptions C05_low_s_with_k.
Theorem C05_low_s_random : forall sk m a rk entropy sg, sign_with_random_k ref_prims sk m a rk entropy = Ok sg -> sig_low sg.
Proof. exact sign_random_low. Qed.
Print Assumptions C05_low_s_random.

(* 3. Deterministic signatures are functions of their inputs (definitional) and equal RFC 6979 (HMAC-SHA256 nonce) +
      textbook ECDSA + low-S normalisation as stated in Spec/EcdsaSpec.v, for both hash choices and both nonce
      byte orders (reversed order: h1 is the byte-reversed digest) — unconditional. *)
Theorem C05_det_is_rfc6979 :
  forall sk m a rk,
  rs_of (sign_with_deterministic_k ref_prims sk m a rk) = of_option (spec_sign_det prim_sign (sk_d sk) (is_double a) m rk).
Proof. exact sign_det_is_rfc6979. Qed.
Print Assumptions C05_det_is_rfc6979.
Theorem C05_sign_message_is_rfc6979 :
  forall sk m, rs_of (sign_message ref_prims sk m) = of_option (spec_sign_det prim_sign (sk_d sk) false m false).
Proof. exact sign_message_is_rfc6979. Qed.
Print Assumptions C05_sign_message_is_rfc6979.
Theorem C05_sign_digest_is_rfc6979 :
  forall sk dg, length dg = 32%nat ->
  rs_of (sign_digest_with_deterministic_k ref_prims sk dg) = of_option (spec_sign_digest prim_sign (sk_d sk) dg).
Proof. exact sign_digest_is_rfc6979. Qed.
Print Assumptions C05_sign_digest_is_rfc6979.
Theorem C05_sign_with_k_is_ecdsa :
  forall sk ek m a,
  rs_of (sign_with_k ref_prims sk ek m a) = of_option (spec_sign_k prim_sign (sk_d sk) (sk_d ek) (is_double a) m).
Proof. exact sign_with_k_is_ecdsa. Qed.
Print Assumptions C05_sign_with_k_is_ecdsa.

(* 4. Diffie-Hellman: symmetric, and equal to the x coordinate of (a*b) G. *)
Theorem C05_ecdh_symmetric :
  secp256k1_group -> forall a b, valid_sk a -> valid_sk b ->
  derive_shared_key ref_prims a (to_public_key ref_prims b) = derive_shared_key ref_prims b (to_public_key ref_prims a).
Proof. exact ecdh_symmetric_keys. Qed.
Print Assumptions C05_ecdh_symmetric.
Theorem C05_ecdh_shared_point :
  secp256k1_group -> forall a b, valid_sk a -> valid_sk b ->
  derive_shared_key ref_prims a (to_public_key ref_prims b) = Ok (be32 (xcoord (smul (sk_d a * sk_d b) G))).
Proof. exact ecdh_shared_point. Qed.
Print Assumptions C05_ecdh_shared_point.

(* Non-vacuity and anchoring: the published secp256k1 / RFC 6979 vector (key 1, "Satoshi Nakamoto", SHA-256) through the
   MODEL's entry point on the reference instance (one scalar multiplication over Z: about half a minute). *)
Example C05_vector_satoshi :
  rs_of (sign_with_deterministic_k ref_prims {| sk_d := 1; sk_compressed := true |}
           (bytes_of_string "Satoshi Nakamoto") SHSha256 false)
  = Ok (0x934b1ea10a4b3c1757e2b0c017d0b6143ce3c9a7e6a4a49860d7a6ab210ee3d8,
        0x2442ce9d2b916064108014783e923ec36b49743e2ffa1c4496f01a512aafd9e5).
Proof. vm_compute. reflexivity. Qed.
