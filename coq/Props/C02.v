(* Props/C02.v — pinned statements of property C02 (script bytes survive parsing unchanged; pushes are
   decoded and encoded exactly).  Statements only; proofs are in Proofs/ScriptProofs.v. *)
From BSV Require Import Base.Hex Model.Opcodes Model.Script Spec.ScriptTok Proofs.ScriptProofs.

(* 1+2. Every accepted byte string outside the known-finding class re-serialises to itself, and its parsed
   element sequence (conditionals flattened in order) is what the independent tokenizer reads. *)
Theorem C02_script_roundtrip :
  forall bs s, from_bytes bs = Ok s -> truncated_tail bs = false ->
               to_bytes s = bs /\ tokenize_spec bs = TokOk (flatten s).
Proof. exact script_roundtrip. Qed.
Print Assumptions C02_script_roundtrip.

(* 4. Nesting is inverted by flattening, for any depth. *)
Theorem C02_nest_flatten :
  forall ts s, is_flat ts = true -> nest_top ts = Ok s -> flats s = ts.
Proof. exact nest_flatten. Qed.
Print Assumptions C02_nest_flatten.

(* non-vacuity: a nested script is accepted and is outside the class *)
Example C02_nonvacuous :
  exists s, from_bytes [x63; x51; x67; x00; x68; xac] = Ok s /\ truncated_tail [x63; x51; x67; x00; x68; xac] = false.
Proof. eexists; split; vm_compute; reflexivity. Qed.
