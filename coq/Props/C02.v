(* Props/C02.v — pinned statements of property C02 (script bytes survive parsing unchanged; pushes are
   decoded and encoded exactly).  Statements only; proofs are in Proofs/ScriptProofs.v.
   `from_bytes` is the model of Script::from_bytes (tied to the Rust code by the correspondence run),
   `tokenize_spec`/`balanced`/`minimal_prefix` are the independent specification (Spec/ScriptTok.v). *)
From BSV Require Import Base.Hex Model.Opcodes Model.Script Spec.ScriptTok Proofs.ScriptProofs Proofs.ScriptFixpoint.

(* 1+2. Every accepted byte string outside the known-finding class re-serialises to exactly itself, and its
   parsed element sequence (conditionals flattened in order) is what the independent tokenizer reads.
   Full-strength statement (without the class hypothesis) is FALSE of the code: see C02_refuted_on_class. *)
Theorem C02_script_roundtrip :
  forall bs s, from_bytes bs = Ok s -> truncated_tail bs = false ->
               to_bytes s = bs /\ tokenize_spec bs = TokOk (flatten s).
Proof. exact script_roundtrip. Qed.
Print Assumptions C02_script_roundtrip.

(* 1b. Parsing loses nothing: distinct accepted byte strings (outside the class) have distinct parses, and the
   serialisation has exactly the input's length. *)
Theorem C02_parse_injective :
  forall b1 b2 s, from_bytes b1 = Ok s -> from_bytes b2 = Ok s ->
                  truncated_tail b1 = false -> truncated_tail b2 = false -> b1 = b2.
Proof. exact parse_injective. Qed.
Print Assumptions C02_parse_injective.

Theorem C02_roundtrip_length :
  forall bs s, from_bytes bs = Ok s -> truncated_tail bs = false -> length (to_bytes s) = length bs.
Proof. exact roundtrip_length. Qed.
Print Assumptions C02_roundtrip_length.

(* 1c. Parse-then-serialise is idempotent on bytes for EVERY accepted input, also inside the known-finding class:
   what the library serialises is itself accepted, outside the class, no longer than the input, and a fixed point. *)
Theorem C02_serialisation_is_fixpoint :
  forall sb s, from_bytes sb = Ok s ->
    truncated_tail (to_bytes s) = false /\
    length (to_bytes s) <= length sb /\
    exists s', from_bytes (to_bytes s) = Ok s' /\ to_bytes s' = to_bytes s.
Proof. exact serialisation_is_fixpoint. Qed.
Print Assumptions C02_serialisation_is_fixpoint.

(* 3. Acceptance: a byte string is accepted exactly when the independent tokenizer reads it completely (no
   truncated OP_PUSHDATAn, no unknown opcode byte) and its conditionals are closed; otherwise it is rejected
   with an error — never a panic.  (The truncated-direct-push class is the recorded finding.) *)
Theorem C02_acceptance :
  forall bs,
  match tokenize_spec bs with
  | TokOk ts => if balanced ts then exists s, from_bytes bs = Ok s else from_bytes bs = Err
  | TokBad => from_bytes bs = Err
  | TokTruncDirect => exists r, from_bytes bs = r /\ r <> Panic
  end.
Proof. exact from_bytes_acceptance. Qed.
Print Assumptions C02_acceptance.

Theorem C02_parser_total : forall bs, from_bytes bs <> Panic.
Proof. exact from_bytes_no_panic. Qed.
Print Assumptions C02_parser_total.

(* the specification tokenizer's fuel is irrelevant once it covers the input (it is a total function of bs) *)
Theorem C02_spec_fuel_irrelevant :
  forall f1 f2 bs, length bs <= f1 -> length bs <= f2 -> tok_spec f1 bs = tok_spec f2 bs.
Proof. exact tok_spec_fuel. Qed.
Print Assumptions C02_spec_fuel_irrelevant.

(* 4. Nesting is inverted by flattening, for any depth. *)
Theorem C02_nest_flatten :
  forall ts s, is_flat ts = true -> nest_top ts = Ok s -> flats s = ts.
Proof. exact nest_flatten. Qed.
Print Assumptions C02_nest_flatten.

(* 5. The push-encoding helper chooses the minimal form for every length 1 .. 2^32-1 and its output parses
   back to a single push of the same data. *)
Theorem C02_encode_pushdata_minimal :
  forall d, (1 <= N.of_nat (length d) < 4294967296)%N ->
    encode_pushdata d = Ok (minimal_prefix (N.of_nat (length d)) ++ d) /\
    from_bytes (minimal_prefix (N.of_nat (length d)) ++ d) = Ok [push_bit d].
Proof. exact encode_pushdata_minimal. Qed.
Print Assumptions C02_encode_pushdata_minimal.

Theorem C02_prefix_minimal :
  forall len, (1 <= len < 4294967296)%N -> get_pushdata_prefix_bytes len = Ok (minimal_prefix len).
Proof. exact prefix_is_minimal. Qed.
Print Assumptions C02_prefix_minimal.

(* The known finding: a truncated direct push is accepted and silently shortened. *)
Theorem C02_refuted_on_class :
  truncated_tail [x05; x01] = true /\
  from_bytes [x05; x01] = Ok [BPush [x01]] /\ to_bytes [BPush [x01]] = [x01; x01].
Proof. exact truncated_direct_push_refuted. Qed.
Print Assumptions C02_refuted_on_class.

(* non-vacuity: a nested script with every push form is accepted, lies outside the class, and is balanced *)
Example C02_nonvacuous :
  let bs := [x63; x02; xaa; xbb; x4c; x01; x07; x67; x4d; x01; x00; x09; x68; xac] in
  (exists s, from_bytes bs = Ok s) /\ truncated_tail bs = false /\
  (exists ts, tokenize_spec bs = TokOk ts /\ balanced ts = true).
Proof. cbv zeta. split; [|split]; [eexists; vm_compute; reflexivity | vm_compute; reflexivity | eexists; split; vm_compute; reflexivity]. Qed.
Example C02_unclosed_if_rejected : from_bytes [x63; x51] = Err /\ from_bytes [x63; x51; x67] = Err.
Proof. split; vm_compute; reflexivity. Qed.
Example C02_truncated_pushdata_rejected :
  from_bytes [x4c; x05; x01] = Err /\ from_bytes [x4d; x05; x00; x01] = Err /\ from_bytes [x4e; x05; x00; x00; x00; x01] = Err.
Proof. repeat split; vm_compute; reflexivity. Qed.
